(* Model/Read.v — the input source as the parser sees it.

   One abstract cursor stands for SliceRead, StrRead and IoRead:
     rest  – bytes not yet consumed            (slice[index..] / what the io::Bytes iterator will still yield,
                                                  plus the byte in IoRead's peek slot `ch`)
     off   – number of bytes consumed            (SliceRead.index ; LineColIterator byte count minus the peek slot)
     pk    – IoRead only: a byte sits in the peek slot `ch` (the LineColIterator has already counted it)
     depth – Deserializer.remaining_depth (u8)
   The environment says which reader is modelled and what a read at the end of [rest] returns:
   end of input (None forever) or an I/O failure of some kind (C13).  `std::io::Bytes` retries
   `Interrupted`, so interrupted reads are invisible at this level (assumed std behaviour). *)
From SJ Require Import Base.Bytes Gen.Tables.
Open Scope N_scope.

Inductive rkind := RSlice | RStr | RIo.
Inductive term := TEof | TFail (kind : N).

Record cfg := mkCfg {
  preserve_order : bool;
  float_roundtrip : bool;
  arbitrary_precision : bool;
  limit_disabled : bool     (* unbounded_depth feature AND disable_recursion_limit() called *)
}.

Record env := mkEnv { rk : rkind; tm : term; cf : cfg }.

Record st := mkSt { rest : bytes; off : nat; pk : bool; depth : N }.

Definition init_st (input : bytes) : st := mkSt input 0 false DEPTH0.

Definition is_io (E : env) : bool := match rk E with RIo => true | _ => false end.

(* what a read returns when [rest] is exhausted *)
Definition at_end {A} (E : env) (k : res A) : res A :=
  match tm E with TEof => k | TFail kind => Err (Io kind) 0 end.

Definition peek (E : env) (s : st) : res (option byte * st) :=
  match rest s with
  | b :: _ => Ok (Some b, mkSt (rest s) (off s) true (depth s))
  | [] => at_end E (Ok (None, mkSt [] (off s) false (depth s)))
  end.

Definition next (E : env) (s : st) : res (option byte * st) :=
  match rest s with
  | b :: r => Ok (Some b, mkSt r (S (off s)) false (depth s))
  | [] => at_end E (Ok (None, mkSt [] (off s) false (depth s)))
  end.

(* Read::discard — "only valid after a call to peek()": SliceRead does index += 1 unconditionally *)
Definition discard (s : st) : st := mkSt (tl (rest s)) (S (off s)) false (depth s).

Definition advance (n : nat) (s : st) : st := mkSt (skipn n (rest s)) (off s + n) false (depth s).

(* byte index at which Read::position() / Read::peek_position() place an error *)
Definition err_idx (E : env) (s : st) : nat :=
  if is_io E then off s + (if pk s then 1 else 0) else off s.
Definition peek_err_idx (E : env) (s : st) : nat :=
  if is_io E then off s + (if pk s then 1 else 0)
  else off s + (match rest s with [] => 0 | _ :: _ => 1 end).

Definition error {A} (E : env) (s : st) (c : ecode) : res A := Err c (err_idx E s).
Definition peek_error {A} (E : env) (s : st) (c : ecode) : res A := Err c (peek_err_idx E s).

Definition peek_or_null (E : env) (s : st) : res (byte * st) :=
  let* (o, s') := peek E s in Ok (match o with Some b => b | None => 0 end, s').

Definition is_ws (b : byte) : bool := existsb (N.eqb b) WS_SET.

Fixpoint span_len (p : byte -> bool) (l : bytes) : nat :=
  match l with
  | b :: r => if p b then S (span_len p r) else O
  | [] => O
  end.

(* Deserializer::parse_whitespace: skip whitespace, return the peeked byte *)
Definition parse_whitespace (E : env) (s : st) : res (option byte * st) :=
  peek E (advance (span_len is_ws (rest s)) s).

(* `while let b'0'..=b'9' = peek_or_null() { eat_char() }` followed by the peek that ends the loop *)
Definition skip_digits (E : env) (s : st) : res (byte * st) :=
  peek_or_null E (advance (span_len is_digit (rest s)) s).

(* Deserializer::parse_ident *)
Fixpoint parse_ident (E : env) (ident : bytes) (s : st) : res st :=
  match ident with
  | [] => Ok s
  | e :: ident' =>
    let* (o, s1) := next E s in
    match o with
    | None => error E s1 EofWhileParsingValue
    | Some b => if b =? e then parse_ident E ident' s1 else error E s1 ExpectedSomeIdent
    end
  end.

(* check_recursion! prologue / epilogue, u8 arithmetic with its overflow checks written out *)
Definition enter (E : env) (s : st) : res st :=
  if limit_disabled (cf E) then Ok s
  else if depth s =? 0 then Panic
  else let s' := mkSt (rest s) (off s) (pk s) (depth s - 1) in
       if depth s' =? 0 then peek_error E s' RecursionLimitExceeded else Ok s'.

Definition leave (E : env) (s : st) : res st :=
  if limit_disabled (cf E) then Ok s
  else if 255 <=? depth s then Panic
  else Ok (mkSt (rest s) (off s) (pk s) (depth s + 1)).
