(* Model/MapAst.v — what tools/translate_map.py translates src/map.rs into, and what the translation MEANS.

   src/map.rs is a wrapper: `pub struct Map<K, V> { map: MapImpl<K, V> }`, MapImpl = BTreeMap by default and IndexMap under
   cfg(feature = "preserve_order"); every method body is a delegation to the backing value, sometimes with a cfg-dependent CHOICE of backing
   operation.  The translator classifies, per method and per build, the call the body makes ([backing_call]); Gen/MapTables.v (GENERATED on
   every run) is the table  method -> (call in the default build, call under preserve_order).

   This file: the enumerations ([mmethod]: the methods; [store], [recv], [bop]: which operation of which backing value), the table lookup with
   the resolution of `self.<other method>(..)` bodies ([call]), and the meaning of a table on the association-list backings of Model/MapM.v
   ([table_step]: one public operation of Spec/Dict.v's vocabulary [op], executed by looking up what the SOURCE says the methods involved do and
   running MapM's own bt_* / ix_* functions).  Proofs/MapSrc.v proves  table_step MAP_TABLE po m o = Some (MapM.step po m o).
   Definitions only. *)
From SJ Require Import Base.Bytes Base.FloatB Model.Value Model.MapM.
Open Scope N_scope.

(* ------------------------------------------------------------------ the methods of src/map.rs
   M_ : impl Map<String, Value>;  T_ : trait impls for Map (Default, Clone, PartialEq, Hash, Index, IndexMut, FromIterator, Extend, IntoIterator
   for &Map / &mut Map / Map);  E_ / V_ / O_ : impl Entry / VacantEntry / OccupiedEntry;  I_ : the delegate_iterator! macro *)
Inductive mmethod :=
  | M_new | M_with_capacity | M_clear | M_get | M_contains_key | M_get_mut | M_get_key_value | M_insert | M_shift_insert
  | M_remove | M_remove_entry | M_swap_remove | M_swap_remove_entry | M_shift_remove | M_shift_remove_entry
  | M_append | M_entry | M_len | M_is_empty | M_iter | M_iter_mut | M_keys | M_values | M_values_mut | M_into_values | M_retain | M_sort_keys
  | T_default | T_clone | T_clone_from | T_eq | T_hash | T_index | T_index_mut | T_from_iter | T_extend
  | T_into_iter_ref | T_into_iter_mut | T_into_iter
  | E_key | E_or_insert | E_or_insert_with | E_and_modify
  | V_key | V_insert
  | O_key | O_get | O_get_mut | O_into_mut | O_insert | O_remove | O_swap_remove | O_shift_remove
  | O_remove_entry | O_swap_remove_entry | O_shift_remove_entry
  | I_next | I_size_hint | I_next_back | I_len.

Definition mm_code (m : mmethod) : positive :=
  match m with
  | M_new => 1 | M_with_capacity => 2 | M_clear => 3 | M_get => 4 | M_contains_key => 5 | M_get_mut => 6 | M_get_key_value => 7 | M_insert => 8
  | M_shift_insert => 9 | M_remove => 10 | M_remove_entry => 11 | M_swap_remove => 12 | M_swap_remove_entry => 13 | M_shift_remove => 14
  | M_shift_remove_entry => 15 | M_append => 16 | M_entry => 17 | M_len => 18 | M_is_empty => 19 | M_iter => 20 | M_iter_mut => 21 | M_keys => 22
  | M_values => 23 | M_values_mut => 24 | M_into_values => 25 | M_retain => 26 | M_sort_keys => 27
  | T_default => 28 | T_clone => 29 | T_clone_from => 30 | T_eq => 31 | T_hash => 32 | T_index => 33 | T_index_mut => 34 | T_from_iter => 35
  | T_extend => 36 | T_into_iter_ref => 37 | T_into_iter_mut => 38 | T_into_iter => 39
  | E_key => 40 | E_or_insert => 41 | E_or_insert_with => 42 | E_and_modify => 43
  | V_key => 44 | V_insert => 45
  | O_key => 46 | O_get => 47 | O_get_mut => 48 | O_into_mut => 49 | O_insert => 50 | O_remove => 51 | O_swap_remove => 52 | O_shift_remove => 53
  | O_remove_entry => 54 | O_swap_remove_entry => 55 | O_shift_remove_entry => 56
  | I_next => 57 | I_size_hint => 58 | I_next_back => 59 | I_len => 60
  end%positive.
Definition mmethod_eqb (a b : mmethod) : bool := Pos.eqb (mm_code a) (mm_code b).

(* ------------------------------------------------------------------ the backing values *)
Inductive store := Bt (* alloc::collections::BTreeMap / btree_map::* *) | Ix (* indexmap::IndexMap / indexmap::map::* *).
Inductive recv :=
  | RMap        (* self.map *)
  | RVacant     (* self.vacant   (VacantEntryImpl) *)
  | ROccupied   (* self.occupied (OccupiedEntryImpl) *)
  | RIter       (* self.iter     (IterImpl, KeysImpl, ...) *)
  | RStatic.    (* no receiver: a constructor, wrapped in Map { map: .. } *)

(* operation of the backing value, by its Rust name.  Arguments are the method's own parameters in order and the result is returned unwrapped,
   except where the comment says otherwise (the translator checks the exact text). *)
Inductive bop :=
  | b_new               (* MapImpl::new() | BTreeMap::new() *)
  | b_with_capacity     (* IndexMap::with_capacity(capacity) *)
  | b_from_iter         (* FromIterator::from_iter(iter) *)
  | b_clear | b_get | b_contains_key | b_get_mut | b_get_key_value | b_insert | b_shift_insert
  | b_get_mut_expect    (* get_mut(index).expect("no entry found for key") *)
  | b_remove | b_remove_entry | b_swap_remove | b_swap_remove_entry | b_shift_remove | b_shift_remove_entry
  | b_append            (* append(&mut other.map) *)
  | b_extend            (* extend(iter) *)
  | b_extend_take       (* extend(mem::replace(&mut other.map, MapImpl::default()))  /  extend(mem::take(&mut other.map)) *)
  | b_entry             (* entry(key.into()), Vacant(vacant) => Entry::Vacant(VacantEntry { vacant }), Occupied likewise *)
  | b_len | b_is_empty
  | b_iter | b_iter_mut | b_keys | b_values | b_values_mut | b_into_values | b_into_iter    (* wrapped in the struct of the same name *)
  | b_retain | b_sort_unstable_keys
  | b_clone             (* Map { map: self.map.clone() } *)
  | b_clone_from        (* clone_from(&source.map) *)
  | b_eq                (* eq(&other.map) *)
  | b_hash | b_index
  | b_key | b_into_mut                      (* entries *)
  | b_next | b_next_back | b_size_hint.     (* iterators *)

(* one arm of `match self { Entry::Vacant(e) => .., Entry::Occupied(e) => .. }` *)
Inductive earm :=
  | ArmCall (m : mmethod)         (* e.<m>() *)
  | ArmCallP (m : mmethod)        (* e.<m>(p)      p the method's own parameter *)
  | ArmCallThunk (m : mmethod)    (* e.<m>(p())    the closure parameter is called, once, in this arm only *)
  | ArmKeep                       (* the entry, re-wrapped as it is *)
  | ArmApplyKeep (m : mmethod).   (* { p(e.<m>()); the entry re-wrapped } *)

Inductive backing_call :=
  | NotCompiled                   (* the method is #[cfg(feature = "preserve_order")] and this is the default build *)
  | NoOp                          (* empty body in this build *)
  | Unknown                       (* no table entry / a chain of self-calls the resolution below does not follow *)
  | Self_ (m : mmethod)           (* self.<m>(own parameters): another method of the same impl *)
  | Call (r : recv) (s : store) (f : bop)
  | OnEntry (vac occ : earm)
  | HashSortedByKey (s : store).  (* let mut kv = Vec::from_iter(&self.map); kv.sort_unstable_by(|a, b| a.0.cmp(b.0)); kv.hash(state); *)

Definition table := list (mmethod * (backing_call * backing_call)).

Fixpoint lookup (t : table) (m : mmethod) : option (backing_call * backing_call) :=
  match t with
  | [] => None
  | (m', p) :: r => if mmethod_eqb m' m then Some p else lookup r m
  end.
(* first component: default build; second: preserve_order *)
Definition sel (po : bool) (p : backing_call * backing_call) : backing_call := if po then snd p else fst p.
Definition raw_call (t : table) (po : bool) (m : mmethod) : backing_call :=
  match lookup t m with Some p => sel po p | None => Unknown end.
(* what the method does in build po, following ONE `self.<other>(..)` *)
Definition call (t : table) (po : bool) (m : mmethod) : backing_call :=
  match raw_call t po m with
  | Self_ m' => match raw_call t po m' with Self_ _ => Unknown | c => c end
  | c => c
  end.

(* ------------------------------------------------------------------ the stores, on MapM's association lists *)
Definition st_insert (s : store) : bytes -> value -> mapstate -> mapstate :=
  match s with Bt => bt_insert | Ix => ix_insert end.
Definition st_extend (s : store) : mapstate -> list (bytes * value) -> mapstate :=
  match s with Bt => bt_extend | Ix => ix_extend end.
(* FromIterator of the store: insertion of the pairs, one after the other, into the empty store *)
Definition st_of_entries (s : store) : list (bytes * value) -> mapstate :=
  map_of_entries (match s with Bt => false | Ix => true end).

(* removals: BTreeMap has remove / remove_entry, IndexMap swap_* and shift_* (its deprecated `remove` is not given a meaning) *)
Inductive rflavour := RmBt | RmSwap | RmShift.
Definition rm_value (s : store) (f : bop) : option rflavour :=
  match s, f with
  | Bt, b_remove => Some RmBt
  | Ix, b_swap_remove => Some RmSwap
  | Ix, b_shift_remove => Some RmShift
  | _, _ => None
  end.
Definition rm_entry (s : store) (f : bop) : option rflavour :=
  match s, f with
  | Bt, b_remove_entry => Some RmBt
  | Ix, b_swap_remove_entry => Some RmSwap
  | Ix, b_shift_remove_entry => Some RmShift
  | _, _ => None
  end.
Definition do_remove (fl : rflavour) (k : bytes) (m : mapstate) : mapstate :=
  match fl with RmBt => bt_remove k m | RmSwap => ix_swap_remove k m | RmShift => ix_shift_remove k m end.

(* iterators yield the entries in the store's order; next_back from the other end *)
Definition orient {A} (backwards : bool) (l : list A) : list A := if backwards then rev l else l.

(* ------------------------------------------------------------------ which methods an operation of the vocabulary names *)
Definition occ_method (a : occ_act) : mmethod :=
  match a with
  | OaGet => O_get | OaModify _ => O_get_mut | OaInsert _ => O_insert
  | OaRemove => O_remove | OaSwapRemove => O_swap_remove | OaShiftRemove => O_shift_remove
  | OaRemoveEntry => O_remove_entry | OaSwapRemoveEntry => O_swap_remove_entry | OaShiftRemoveEntry => O_shift_remove_entry
  end.
Definition vac_method (a : vac_act) : mmethod := match a with VaKey => V_key | VaInsert _ => V_insert end.
(* the method the operation is named after (entry operations: the Entry-level method; EntryMatch: Map::entry) *)
Definition method_of (o : op) : mmethod :=
  match o with
  | Clear => M_clear | Get _ => M_get | ContainsKey _ => M_contains_key | GetKeyValue _ => M_get_key_value | GetMut _ _ => M_get_mut
  | Insert _ _ => M_insert | ShiftInsert _ _ _ => M_shift_insert | Remove _ => M_remove | RemoveEntry _ => M_remove_entry
  | SwapRemove _ => M_swap_remove | SwapRemoveEntry _ => M_swap_remove_entry | ShiftRemove _ => M_shift_remove
  | ShiftRemoveEntry _ => M_shift_remove_entry | Append _ => M_append | Extend _ => T_extend | FromIter _ => T_from_iter
  | EntryKey _ => E_key | EntryOrInsert _ _ => E_or_insert | EntryOrInsertWith _ _ => E_or_insert_with | EntryAndModify _ _ => E_and_modify
  | EntryAndModifyOrInsert _ _ _ => E_and_modify | EntryMatch _ _ _ => M_entry
  | Len => M_len | IsEmpty => M_is_empty | Iter => M_iter | IterRev => M_iter | Keys => M_keys | KeysRev => M_keys | Values => M_values
  | ValuesRev => M_values | IntoIter => T_into_iter | IntoValues => M_into_values | IterMut _ => M_iter_mut | ValuesMut _ => M_values_mut
  | Retain _ => M_retain | SortKeys => M_sort_keys | Index _ => T_index | IndexMut _ _ => T_index_mut
  end.

(* ------------------------------------------------------------------ the meaning of a table *)
Section Meaning.
  Variable T : table.
  Variable po : bool.

  (* a body that is one call on self.map; a method that does not exist in this build: the observation ONa, nothing happens *)
  Definition on_map (cc : backing_call) (m : mapstate) (k : store -> bop -> option (mapstate * obs)) : option (mapstate * obs) :=
    match cc with
    | NotCompiled => Some (m, ONa)
    | Call RMap s f => k s f
    | _ => None
    end.

  (* iterating: the wrapper's next / next_back (delegate_iterator!) *)
  Definition direction (mth : mmethod) : option bool :=
    match call T po mth with
    | Call RIter _ b_next => Some false
    | Call RIter _ b_next_back => Some true
    | _ => None
    end.
  (* producer: the method creating the iterator, expected to be `want` on self.map; stepper: I_next / I_next_back *)
  Definition iterate (producer : mmethod) (want : bop -> bool) (stepper : mmethod) (m : mapstate)
                     (k : bool -> mapstate * obs) : option (mapstate * obs) :=
    on_map (call T po producer) m (fun _ f =>
      if want f then match direction stepper with Some d => Some (k d) | None => None end else None).

  (* Map::entry: self.map.entry(key.into()) re-wrapped arm by arm *)
  Definition with_entry (m : mapstate) (k : unit -> option (mapstate * obs)) : option (mapstate * obs) :=
    on_map (call T po M_entry) m (fun _ f => match f with b_entry => k tt | _ => None end).
  Definition vacant_insert_store : option store :=
    match call T po V_insert with Call RVacant s b_insert => Some s | _ => None end.
  Definition occupied_is (mth : mmethod) (want : bop -> bool) : bool :=
    match call T po mth with Call ROccupied _ f => want f | _ => false end.
  Definition vacant_is (mth : mmethod) (want : bop -> bool) : bool :=
    match call T po mth with Call RVacant _ f => want f | _ => false end.
  Definition is_key (f : bop) : bool := match f with b_key => true | _ => false end.
  Definition is_get (f : bop) : bool := match f with b_get => true | _ => false end.
  Definition is_get_mut (f : bop) : bool := match f with b_get_mut => true | _ => false end.
  Definition is_into_mut (f : bop) : bool := match f with b_into_mut => true | _ => false end.
  Definition is_insert (f : bop) : bool := match f with b_insert => true | _ => false end.

  (* what the caller does with the OccupiedEntry for key k (value v0) *)
  Definition occ_step (k : bytes) (v0 : value) (m : mapstate) (a : occ_act) : option (mapstate * obs) :=
    match a with
    | OaGet => if occupied_is O_key is_key && occupied_is O_get is_get then Some (m, OVal v0) else None
    | OaModify g => if occupied_is O_get_mut is_get_mut && occupied_is O_into_mut is_into_mut then Some (al_update k g m, OVal v0) else None
    | OaInsert v => if occupied_is O_insert is_insert then Some (al_update k (fun _ => v) m, OVal v0) else None
    | OaRemove | OaSwapRemove | OaShiftRemove =>
      match call T po (occ_method a) with
      | Call ROccupied s f => match rm_value s f with Some fl => Some (do_remove fl k m, OVal v0) | None => None end
      | _ => None
      end
    | OaRemoveEntry | OaSwapRemoveEntry | OaShiftRemoveEntry =>
      match call T po (occ_method a) with
      | Call ROccupied s f => match rm_entry s f with Some fl => Some (do_remove fl k m, OKV (k, v0)) | None => None end
      | _ => None
      end
    end.
  Definition vac_step (k : bytes) (m : mapstate) (a : vac_act) : option (mapstate * obs) :=
    match a with
    | VaKey => if vacant_is V_key is_key then Some (m, OUnit) else None
    | VaInsert v => match vacant_insert_store with Some s => Some (st_insert s k v m, OVal v) | None => None end
    end.

  Definition removal (value_flavour : bool) (cc : backing_call) (k : bytes) (m : mapstate) : option (mapstate * obs) :=
    on_map cc m (fun s f =>
      match (if value_flavour then rm_value s f else rm_entry s f) with
      | Some fl => Some (do_remove fl k m, if value_flavour then OOptV (al_get k m) else OOptKV (opt_pair k (al_get k m)))
      | None => None
      end).

  (* one operation of the vocabulary, as the SOURCE (the table) says; None: the table holds a call this file gives no meaning to *)
  Definition table_step (m : mapstate) (o : op) : option (mapstate * obs) :=
    let c := call T po in
    match o with
    | Clear => on_map (c M_clear) m (fun _ f => match f with b_clear => Some ([], OUnit) | _ => None end)
    | Get k => on_map (c M_get) m (fun _ f => match f with b_get => Some (m, OOptV (al_get k m)) | _ => None end)
    | ContainsKey k => on_map (c M_contains_key) m (fun _ f => match f with b_contains_key => Some (m, OBool (al_mem k m)) | _ => None end)
    | GetKeyValue k =>
      on_map (c M_get_key_value) m (fun _ f => match f with b_get_key_value => Some (m, OOptKV (opt_pair k (al_get k m))) | _ => None end)
    | GetMut k g => on_map (c M_get_mut) m (fun _ f => match f with b_get_mut => Some (al_update k g m, OOptV (al_get k m)) | _ => None end)
    | Insert k v => on_map (c M_insert) m (fun s f => match f with b_insert => Some (st_insert s k v m, OOptV (al_get k m)) | _ => None end)
    | ShiftInsert i k v =>
      on_map (c M_shift_insert) m (fun s f =>
        match s, f with
        | Ix, b_shift_insert =>
          match ix_shift_insert i k v m with
          | Some m' => Some (m', OOptV (al_get k m))
          | None => Some (m, OPanic)
          end
        | _, _ => None
        end)
    | Remove k => removal true (c M_remove) k m
    | SwapRemove k => removal true (c M_swap_remove) k m
    | ShiftRemove k => removal true (c M_shift_remove) k m
    | RemoveEntry k => removal false (c M_remove_entry) k m
    | SwapRemoveEntry k => removal false (c M_swap_remove_entry) k m
    | ShiftRemoveEntry k => removal false (c M_shift_remove_entry) k m
    | Append es =>                          (* other = es.collect(); self.append(&mut other) *)
      match c T_from_iter with
      | Call RStatic s' b_from_iter =>
        let other := st_of_entries s' es in
        on_map (c M_append) m (fun s f =>
          match s, f with
          | Bt, b_append => Some (bt_append m other, OUnit)
          | _, b_extend_take => Some (st_extend s m other, OUnit)
          | _, _ => None
          end)
      | _ => None
      end
    | Extend es => on_map (c T_extend) m (fun s f => match f with b_extend => Some (st_extend s m es, OUnit) | _ => None end)
    | FromIter es => match c T_from_iter with Call RStatic s b_from_iter => Some (st_of_entries s es, OUnit) | _ => None end
    | EntryKey k =>
      with_entry m (fun _ =>
        match c E_key with
        | OnEntry (ArmCall V_key) (ArmCall O_key) =>
          if vacant_is V_key is_key && occupied_is O_key is_key then Some (m, OKeys [k]) else None
        | _ => None
        end)
    | EntryOrInsert k v =>
      with_entry m (fun _ =>
        match c E_or_insert with
        | OnEntry (ArmCallP V_insert) (ArmCall O_into_mut) =>
          match vacant_insert_store, occupied_is O_into_mut is_into_mut with
          | Some s, true =>
            match al_get k m with
            | Some v0 => Some (m, OVal v0)
            | None => Some (st_insert s k v m, OVal v)
            end
          | _, _ => None
          end
        | _ => None
        end)
    | EntryOrInsertWith k v =>
      with_entry m (fun _ =>
        match c E_or_insert_with with
        | OnEntry (ArmCallThunk V_insert) (ArmCall O_into_mut) =>
          match vacant_insert_store, occupied_is O_into_mut is_into_mut with
          | Some s, true =>
            match al_get k m with
            | Some v0 => Some (m, OCalled false v0)
            | None => Some (st_insert s k v m, OCalled true v)
            end
          | _, _ => None
          end
        | _ => None
        end)
    | EntryAndModify k g =>
      with_entry m (fun _ =>
        match c E_and_modify with
        | OnEntry ArmKeep (ArmApplyKeep O_get_mut) =>
          if occupied_is O_get_mut is_get_mut then
            match al_get k m with
            | Some _ => Some (al_update k g m, OBool true)
            | None => Some (m, OBool false)
            end
          else None
        | _ => None
        end)
    | EntryAndModifyOrInsert k g v =>       (* entry(k).and_modify(g).or_insert(v) *)
      with_entry m (fun _ =>
        match c E_and_modify, c E_or_insert with
        | OnEntry ArmKeep (ArmApplyKeep O_get_mut), OnEntry (ArmCallP V_insert) (ArmCall O_into_mut) =>
          match vacant_insert_store, occupied_is O_get_mut is_get_mut && occupied_is O_into_mut is_into_mut with
          | Some s, true =>
            match al_get k m with
            | Some v0 => Some (al_update k g m, OVal (g v0))
            | None => Some (st_insert s k v m, OVal v)
            end
          | _, _ => None
          end
        | _, _ => None
        end)
    | EntryMatch k va oa =>                 (* match map.entry(k) { Vacant(e) => e.<va>, Occupied(e) => e.<oa> } *)
      with_entry m (fun _ =>
        match c (occ_method oa) with
        | NotCompiled => Some (m, ONa)      (* the program names a method this build does not have *)
        | _ =>
          match al_get k m with
          | Some v0 => match occ_step k v0 m oa with Some (m', r) => Some (m', OEntry true k r) | None => None end
          | None => match vac_step k m va with Some (m', r) => Some (m', OEntry false k r) | None => None end
          end
        end)
    | Len => on_map (c M_len) m (fun _ f => match f with b_len => Some (m, ONat (length m)) | _ => None end)
    | IsEmpty =>
      on_map (c M_is_empty) m (fun _ f => match f with b_is_empty => Some (m, OBool (match m with [] => true | _ => false end)) | _ => None end)
    | Iter => iterate M_iter (fun f => match f with b_iter => true | _ => false end) I_next m (fun d => (m, OEntries (orient d m)))
    | IterRev => iterate M_iter (fun f => match f with b_iter => true | _ => false end) I_next_back m (fun d => (m, OEntries (orient d m)))
    | IntoIter => iterate T_into_iter (fun f => match f with b_into_iter => true | _ => false end) I_next m (fun d => (m, OEntries (orient d m)))
    | Keys => iterate M_keys (fun f => match f with b_keys => true | _ => false end) I_next m (fun d => (m, OKeys (orient d (map fst m))))
    | KeysRev => iterate M_keys (fun f => match f with b_keys => true | _ => false end) I_next_back m (fun d => (m, OKeys (orient d (map fst m))))
    | Values => iterate M_values (fun f => match f with b_values => true | _ => false end) I_next m (fun d => (m, OVals (orient d (map snd m))))
    | ValuesRev =>
      iterate M_values (fun f => match f with b_values => true | _ => false end) I_next_back m (fun d => (m, OVals (orient d (map snd m))))
    | IntoValues =>
      iterate M_into_values (fun f => match f with b_into_values => true | _ => false end) I_next m (fun d => (m, OVals (orient d (map snd m))))
    | IterMut g => iterate M_iter_mut (fun f => match f with b_iter_mut => true | _ => false end) I_next m (fun _ => (m_map_values g m, OUnit))
    | ValuesMut g =>
      iterate M_values_mut (fun f => match f with b_values_mut => true | _ => false end) I_next m (fun _ => (m_map_values (fun _ => g) m, OUnit))
    | Retain p => on_map (c M_retain) m (fun _ f => match f with b_retain => Some (m_retain p m, OKeys (map fst m)) | _ => None end)
    | SortKeys =>
      match c M_sort_keys with
      | NoOp => Some (m, OUnit)
      | Call RMap Ix b_sort_unstable_keys => Some (sort_by_key m, OUnit)
      | _ => None
      end
    | Index k =>
      on_map (c T_index) m (fun _ f =>
        match f with
        | b_index => Some (match al_get k m with Some v => (m, OVal v) | None => (m, OPanic) end)
        | _ => None
        end)
    | IndexMut k v =>                       (* map[k] = v *)
      on_map (c T_index_mut) m (fun _ f =>
        match f with
        | b_get_mut_expect => Some (match al_get k m with Some _ => (al_update k (fun _ => v) m, OUnit) | None => (m, OPanic) end)
        | _ => None
        end)
    end.
End Meaning.

(* ------------------------------------------------------------------ the trait impls that are not operations of the vocabulary *)
(* Map::new / with_capacity / Default: the empty store *)
Definition init_meaning (cc : backing_call) : option mapstate :=
  match cc with
  | Call RStatic _ b_new | Call RStatic Ix b_with_capacity => Some []
  | _ => None
  end.

(* PartialEq: BTreeMap == : same length and equal entry by entry in iteration order;
              IndexMap == : same length and every entry of self found in other with an equal value.  [rec] compares values. *)
Fixpoint bt_eq_entries (rec : value -> value -> bool) (ma mb : mapstate) : bool :=
  match ma, mb with
  | [], [] => true
  | (k, v) :: ma', (k', w) :: mb' => beq_bytes k k' && rec v w && bt_eq_entries rec ma' mb'
  | _, _ => false
  end.
Fixpoint ix_eq_entries (rec : value -> value -> bool) (mb ma : mapstate) : bool :=
  match ma with
  | [] => true
  | (k, v) :: ma' => (match al_get k mb with Some w => rec v w | None => false end) && ix_eq_entries rec mb ma'
  end.
Definition eq_meaning (cc : backing_call) (rec : value -> value -> bool) (ma mb : mapstate) : option bool :=
  match cc with
  | Call RMap Bt b_eq => Some (Nat.eqb (length ma) (length mb) && bt_eq_entries rec ma mb)
  | Call RMap Ix b_eq => Some (Nat.eqb (length ma) (length mb) && ix_eq_entries rec mb ma)
  | _ => None
  end.

(* Hash: BTreeMap::hash and the hash of a Vec of pairs make the same calls: length prefix, then key and value of every entry in order;
   HashSortedByKey arranges the pairs by key first.  [rec] hashes a value. *)
Definition hash_entries (rec : value -> list hcall) (m : mapstate) : list (bytes * list hcall) :=
  map (fun kv => (fst kv, hash_str (fst kv) ++ rec (snd kv))) m.
Definition hash_meaning (cc : backing_call) (rec : value -> list hcall) (m : mapstate) : option (list hcall) :=
  match cc with
  | Call RMap Bt b_hash => Some (HUsize (N.of_nat (length m)) :: concat (map snd (hash_entries rec m)))
  | HashSortedByKey Ix => Some (HUsize (N.of_nat (length m)) :: concat (map snd (sort_by_key (hash_entries rec m))))
  | _ => None
  end.
