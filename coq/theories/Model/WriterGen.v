(* Model/WriterGen.v — C13 (writer half), generalised: std's `Write::write_all` and the serializer's error propagation
   over an ARBITRARY writer.  Definitions only (everything here extracts and runs); the theorems are in
   Proofs/WriterGenProps.v.

   Model/Ser.v (bottom part) models one family of writers: scheduled chunk sizes / interruptions and a PERSISTENT
   failure once k bytes were accepted.  Writers outside that family: a transient error (fails once, accepts again), an
   all-or-nothing bounded sink (refuses a buffer that does not fit, would take a smaller later one), a writer whose
   `write` returns Ok(0), a writer whose behaviour depends on everything it has been offered so far.
   Here the writer is an ORACLE: a function from the complete history of `write` calls to the answer to the current one.
   Every deterministic `impl io::Write` whose `write` depends only on what it was offered is such a function (its state is
   a function of its history); quantifying over all oracles therefore covers every such writer, adversarial ones included.

   What is mirrored:
   * std::io::Write::write_all (library/std/src/io/mod.rs, default method):
         while !buf.is_empty() {
             match self.write(buf) {
                 Ok(0) => return Err(Error::WRITE_ALL_EOF),        // ErrorKind::WriteZero
                 Ok(n) => buf = &buf[n..],                         // panics if n > buf.len(): a bug OF THE WRITER
                 Err(ref e) if e.is_interrupted() => {}            // retried, same buffer
                 Err(e) => return Err(e),
             }
         }
         Ok(())
   * src/ser.rs: every `io::Result` that comes back from a Formatter method / `format_escaped_str` is turned into the
     crate's error by `.map_err(Error::io)` and returned AT ONCE, either as the tail expression of the method
     (e.g. lines 79-81 serialize_bool, 189 serialize_str, 263-265 end of serialize_newtype_variant) or through
     `tri!(...)` (src/lib.rs 406-413: `Err(err) => return Err(err)`; e.g. src/ser.rs 241-262 serialize_newtype_variant,
     286/291 serialize_seq, 329-356, 391-404, 440, 498-503 SerializeSeq::serialize_element, 593-599, 627-657
     SerializeMap::serialize_key/serialize_value).  Inside the io-level helpers the same holds: `indent` (2268-2277)
     and `format_escaped_str_contents` (2091-2125) `tri!` every write_all; PrettyFormatter 2004, 2016, 2047, 2059.
     `Error::io` (src/error.rs 326-334) stores the io::Error in ErrorCode::Io with line 0, column 0.
     Hence: the run against a writer is the fault-free trace (Model/Ser.v `tr`) fed buffer by buffer to write_all
     until the FIRST failing write_all; nothing is offered to the writer afterwards. *)
From SJ Require Import Base.Bytes Base.Utf8 Gen.Tables Model.Read Model.Num Model.Sval Model.Ser.
Open Scope nat_scope.

(* ---- the writer as an oracle ------------------------------------------------------------------ *)
(* the answer of one `write(buf)` call.
   [RAccept n] = Ok(n): the writer took the first n bytes of the buffer.  n = 0 is allowed (std's write_all turns it into
   ErrorKind::WriteZero); n > buf.len() violates the contract of `Write::write` and makes write_all's `&buf[n..]` panic:
   modelled as [Panic], nothing counted as accepted by that call.
   [RInterrupted] = Err(e) with e.kind() == ErrorKind::Interrupted.
   [RFail kind] = Err(e) with any other kind (kinds are opaque numbers, as in Base/Bytes.v `Io kind`). *)
Inductive wresp := RAccept (n : nat) | RInterrupted | RFail (kind : N).

(* [o hist buf]: [hist] = the buffers offered in ALL earlier `write` calls on this writer, MOST RECENT FIRST
   (whatever their answer was: accepted in part, interrupted, failed); [buf] = the buffer offered now (never empty:
   write_all does not call `write` with an empty slice). *)
Definition oracle := list bytes -> bytes -> wresp.

(* the observable state of a run.
   [ghist]: log of the `write` calls made so far (the buffers offered), most recent first — this is the oracle's input;
   [gwa]:   log of the `write_all` calls made by the serializer (the buffers handed over), most recent first;
   [gacc]:  the bytes the writer has accepted so far (the first n bytes of the buffer of every call answered Ok(n)). *)
Record gstate := mkG { ghist : list bytes; gwa : list bytes; gacc : bytes }.
Definition gstart (acc : bytes) : gstate := mkG [] [] acc.
Definition g0 : gstate := gstart [].

(* std's write_all loop.  [fuel] bounds the number of `write` calls of THIS write_all: an oracle may answer Interrupted
   forever (std then loops forever); running out is [OutOfFuel]. *)
Fixpoint gwrite_all_loop (fuel : nat) (o : oracle) (st : gstate) (buf : bytes) : gstate * res unit :=
  match buf with
  | [] => (st, Ok tt)
  | _ :: _ =>
    match fuel with
    | O => (st, OutOfFuel)
    | S f =>
      let st1 := mkG (buf :: ghist st) (gwa st) (gacc st) in          (* the call is made: logged *)
      match o (ghist st) buf with
      | RAccept O => (st1, Err (Io KIND_WRITE_ZERO) O)
      | RAccept n =>
        if Nat.ltb (length buf) n then (st1, Panic)
        else gwrite_all_loop f o (mkG (buf :: ghist st) (gwa st) (gacc st ++ firstn n buf)) (skipn n buf)
      | RInterrupted => gwrite_all_loop f o st1 buf
      | RFail kind => (st1, Err (Io kind) O)
      end
    end
  end.

(* one `writer.write_all(buf)` of the serializer *)
Definition gwrite_all (fuel : nat) (o : oracle) (st : gstate) (buf : bytes) : gstate * res unit :=
  gwrite_all_loop fuel o (mkG (ghist st) (buf :: gwa st) (gacc st)) buf.

(* the serializer against the oracle: like Model/Ser.v `feed` / `run_writer` — stop at the first failing write_all *)
Fixpoint gfeed (fuel : nat) (o : oracle) (st : gstate) (bufs : list bytes) : gstate * res unit :=
  match bufs with
  | [] => (st, Ok tt)
  | b :: r =>
    match gwrite_all fuel o st b with
    | (st1, Ok _) => gfeed fuel o st1 r
    | (st1, e) => (st1, e)
    end
  end.

Definition grun_writer {A} (fuel : nat) (o : oracle) (st : gstate) (t : tr A) : gstate * res A :=
  match gfeed fuel o st (fst t) with
  | (st1, Ok _) => (st1, snd t)
  | (st1, Err c i) => (st1, Err c i)
  | (st1, OutOfFuel) => (st1, OutOfFuel)
  | (st1, Panic) => (st1, Panic)
  end.

(* ---- the writers of Model/Ser.v as oracles ---------------------------------------------------- *)
(* the state of a Model/Ser.v writer is a function of its initial state and of what it has been offered *)
Fixpoint replay (w : writer) (hist : list bytes) : writer :=
  match hist with
  | [] => w
  | b :: h => fst (write_once (replay w h) b)
  end.
Definition resp_of_wres (x : wres) : wresp :=
  match x with WOk n => RAccept n | WInterrupted => RInterrupted | WErr kind => RFail kind end.
Definition oracle_of_writer (w : writer) : oracle :=
  fun hist buf => resp_of_wres (snd (write_once (replay w hist) buf)).

(* ---- writers that Model/Ser.v cannot express --------------------------------------------------- *)
(* takes everything, always *)
Definition o_accept_all : oracle := fun _ buf => RAccept (length buf).
(* takes at most [c] bytes per call (c >= 1) *)
Definition o_short (c : nat) : oracle := fun _ buf => RAccept (Nat.min c (length buf)).
(* transient error: `write` call number [n] (0-based, counting every call) fails with [kind]; all others take everything *)
Definition o_fail_once (n : nat) (kind : N) : oracle :=
  fun hist buf => if Nat.eqb (length hist) n then RFail kind else RAccept (length buf).
(* call number [n] returns Ok(0) *)
Definition o_zero_at (n : nat) : oracle :=
  fun hist buf => if Nat.eqb (length hist) n then RAccept 0 else RAccept (length buf).
(* every other call is interrupted (calls 0, 2, 4, ...), the others take one byte *)
Definition o_stutter : oracle :=
  fun hist buf => if Nat.even (length hist) then RInterrupted else RAccept 1.
(* interrupted forever *)
Definition o_interrupt_forever : oracle := fun _ _ => RInterrupted.
(* claims more than it was offered *)
Definition o_overclaim : oracle := fun _ buf => RAccept (S (length buf)).
(* all-or-nothing sink of capacity [c]: a buffer is taken whole if it still fits, refused with [kind] otherwise
   (and a later, smaller buffer would be taken).  The fill level is a function of the history. *)
Fixpoint aon_used (c : nat) (hist : list bytes) : nat :=
  match hist with
  | [] => 0
  | b :: h => let u := aon_used c h in if Nat.leb (u + length b) c then u + length b else u
  end.
Definition o_all_or_nothing (c : nat) (kind : N) : oracle :=
  fun hist buf => if Nat.leb (aon_used c hist + length buf) c then RAccept (length buf) else RFail kind.

(* ---- a DEFECTIVE driver, for the discriminating examples ---------------------------------------- *)
(* a serializer that forgets `tri!`: it remembers the first error but keeps handing the remaining buffers to the writer.
   Against the persistent-failure writers of Model/Ser.v this is indistinguishable from `feed`; against [o_fail_once]
   it is not (Proofs/WriterGenProps.v, Examples). *)
Fixpoint gfeed_keepgoing (fuel : nat) (o : oracle) (st : gstate) (bufs : list bytes) : gstate * res unit :=
  match bufs with
  | [] => (st, Ok tt)
  | b :: r =>
    match gwrite_all fuel o st b with
    | (st1, Ok _) => gfeed_keepgoing fuel o st1 r
    | (st1, e) => (fst (gfeed_keepgoing fuel o st1 r), e)
    end
  end.
