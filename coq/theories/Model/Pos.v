(* Model/Pos.v — the line / column / byte-offset bookkeeping of serde_json's two reader families,
   mirrored function for function.  Definitions only (total computable Gallina; everything extracts).
   The proofs that both compute [pos_of] (Base/Bytes.v) are in Proofs/PosRefine.v.

   (a) src/iter.rs   LineColIterator      -> [lci], [lci_new], [lci_next], [lci_line], [lci_col], [lci_byte_offset]
   (b) src/read.rs   IoRead   (l.149-333) -> [ioread], [io_new], [io_next], [io_peek], [io_discard],
                                             [io_position], [io_peek_position], [io_byte_offset]
   (c) src/read.rs   SliceRead(l.410-430, 543-585; StrRead l.684-708 delegates every one of these to its SliceRead)
                                          -> [memrchr], [memchr_count], [position_of_index], [sread], [sl_new], [sl_next], [sl_peek],
                                             [sl_discard], [sl_position], [sl_peek_position], [sl_byte_offset]

   Modelling conventions.
   * usize counters of LineColIterator are N (unbounded).  A usize overflow of line / col / start_of_line needs an input of
     more than 2^64 - 1 bytes (each counter is bounded by the number of bytes delivered), which is outside the model.
   * indices into the slice are nat (they index a Coq list); Rust guarantees slice.len() <= isize::MAX, and the index of a
     SliceRead never exceeds len + 1 ... see [sl_position] for the one place where exceeding len matters.
   * the underlying byte source of IoRead (`std::io::Bytes<R>`) is the list of bytes it will still deliver plus a terminator
     [term] of Model/Read.v: end of input (None forever) or an I/O failure of some kind (the error again at every call).
     `io::Bytes` retries `Interrupted`, so those are invisible here (assumed std behaviour, as in Model/Read.v).
   * `memchr::memrchr` and `memchr::memchr_iter(..).count()` belong to the external crate `memchr` (not verified here);
     they are modelled by their documented meaning: index of the last occurrence / number of occurrences. *)
From SJ Require Import Base.Bytes Model.Read.
Open Scope N_scope.

(* ---------------------------------------------------------------------------------------------------- *)
(* (a) LineColIterator (src/iter.rs)                                                                    *)

(* what the wrapped iterator `I: Iterator<Item = io::Result<u8>>` yields: None | Some(Ok(c)) | Some(Err(e)) *)
Inductive src_item := ItEnd | ItByte (b : byte) | ItFail (kind : N).

(* io::Bytes<R>::next on the model of the byte source *)
Definition src_next (t : term) (src : bytes) : src_item * bytes :=
  match src with
  | b :: r => (ItByte b, r)
  | [] => (match t with TEof => ItEnd | TFail k => ItFail k end, [])
  end.

(* struct LineColIterator { iter, line, col, start_of_line } *)
Record lci := mkLci { lc_src : bytes; lc_line : N; lc_col : N; lc_sol : N }.

(* LineColIterator::new *)
Definition lci_new (input : bytes) : lci := mkLci input 1 0 0.

(* line(), col(), byte_offset() *)
Definition lci_line (s : lci) : N := lc_line s.
Definition lci_col (s : lci) : N := lc_col s.
Definition lci_byte_offset (s : lci) : N := lc_sol s + lc_col s.

(* <LineColIterator as Iterator>::next: the arms in source order (None / newline / other byte / error) *)
Definition lci_next (t : term) (s : lci) : src_item * lci :=
  match src_next t (lc_src s) with
  | (ItEnd, r) => (ItEnd, mkLci r (lc_line s) (lc_col s) (lc_sol s))
  | (ItByte b, r) =>
      if b =? 10
      then (ItByte 10, mkLci r (lc_line s + 1) 0 (lc_sol s + (lc_col s + 1)))
      else (ItByte b, mkLci r (lc_line s) (lc_col s + 1) (lc_sol s))
  | (ItFail k, r) => (ItFail k, mkLci r (lc_line s) (lc_col s) (lc_sol s))
  end.

(* the state after k calls of next() (results dropped): every reachable state of a LineColIterator is one of these *)
Fixpoint lci_run (t : term) (k : nat) (s : lci) : lci :=
  match k with
  | O => s
  | S k' => lci_run t k' (snd (lci_next t s))
  end.

(* ---------------------------------------------------------------------------------------------------- *)
(* (b) IoRead (src/read.rs).  The raw_value feature's `raw_buffer` does not influence positions and is left out;
       both cfg variants of `discard` clear `ch`.                                                         *)

Record ioread := mkIo { io_iter : lci; io_ch : option byte }.

(* IoRead::new *)
Definition io_new (input : bytes) : ioread := mkIo (lci_new input) None.

(* Result<Option<u8>> is [res (option byte)]: Ok (Some b) | Ok None | Err (Io kind) 0  (Error::io: line 0, column 0).
   The reader itself survives an error, hence the pair. *)
Definition io_next (t : term) (r : ioread) : res (option byte) * ioread :=
  match io_ch r with
  | Some ch => (Ok (Some ch), mkIo (io_iter r) None)                    (* self.ch.take() *)
  | None =>
      match lci_next t (io_iter r) with
      | (ItFail k, it') => (Err (Io k) 0, mkIo it' None)
      | (ItByte ch, it') => (Ok (Some ch), mkIo it' None)
      | (ItEnd, it') => (Ok None, mkIo it' None)
      end
  end.

Definition io_peek (t : term) (r : ioread) : res (option byte) * ioread :=
  match io_ch r with
  | Some ch => (Ok (Some ch), r)
  | None =>
      match lci_next t (io_iter r) with
      | (ItFail k, it') => (Err (Io k) 0, mkIo it' None)
      | (ItByte ch, it') => (Ok (Some ch), mkIo it' (Some ch))
      | (ItEnd, it') => (Ok None, mkIo it' None)
      end
  end.

Definition io_discard (r : ioread) : ioread := mkIo (io_iter r) None.

(* Position { line: self.iter.line(), column: self.iter.col() } *)
Definition io_position (r : ioread) : N * N := (lci_line (io_iter r), lci_col (io_iter r)).

(* "The LineColIterator updates its position during peek() so it has the right one here." *)
Definition io_peek_position (r : ioread) : N * N := io_position r.

(* `self.iter.byte_offset() - 1` is a usize subtraction: it would panic (debug) or wrap (release) at 0.  Here it is the
   truncated subtraction of N; Proofs/PosRefine.v ([io_rel_ch_offset_pos]) shows that a byte in `ch` implies
   iter.byte_offset() >= 1 in every reachable state, so the two coincide. *)
Definition io_byte_offset (r : ioread) : N :=
  match io_ch r with
  | Some _ => lci_byte_offset (io_iter r) - 1
  | None => lci_byte_offset (io_iter r)
  end.

(* ---------------------------------------------------------------------------------------------------- *)
(* (c) SliceRead (src/read.rs); StrRead delegates to it.                                                 *)

(* memchr::memrchr(c, hay): index of the last occurrence *)
Fixpoint memrchr (c : byte) (hay : bytes) : option nat :=
  match hay with
  | [] => None
  | b :: r =>
      match memrchr c r with
      | Some p => Some (S p)
      | None => if b =? c then Some O else None
      end
  end.

(* memchr::memchr_iter(c, hay).count() *)
Fixpoint memchr_count (c : byte) (hay : bytes) : nat :=
  match hay with
  | [] => O
  | b :: r => if b =? c then S (memchr_count c r) else memchr_count c r
  end.

(* SliceRead::position_of_index.  `&self.slice[..i]` panics for i > len; [firstn] truncates instead, so this function is
   the Rust one only for i <= len.  The callers below keep that distinction ([position_of_index_chk]). *)
Definition position_of_index (slice : bytes) (i : nat) : N * N :=
  let start_of_line :=
    match memrchr 10 (firstn i slice) with
    | Some position => (position + 1)%nat
    | None => O
    end in
  (1 + N.of_nat (memchr_count 10 (firstn start_of_line slice)), N.of_nat (i - start_of_line)).

Definition position_of_index_chk (slice : bytes) (i : nat) : res (N * N) :=
  if (i <=? length slice)%nat then Ok (position_of_index slice i) else Panic.

Record sread := mkSl { sl_slice : bytes; sl_index : nat }.

(* SliceRead::new *)
Definition sl_new (input : bytes) : sread := mkSl input O.

(* next / peek never fail on a slice; the result type is kept uniform with IoRead *)
Definition sl_next (r : sread) : res (option byte) * sread :=
  if (sl_index r <? length (sl_slice r))%nat
  then (Ok (Some (nth (sl_index r) (sl_slice r) 0)), mkSl (sl_slice r) (sl_index r + 1))
  else (Ok None, r).

Definition sl_peek (r : sread) : res (option byte) * sread :=
  if (sl_index r <? length (sl_slice r))%nat
  then (Ok (Some (nth (sl_index r) (sl_slice r) 0)), r)
  else (Ok None, r).

(* `self.index += 1` unconditionally *)
Definition sl_discard (r : sread) : sread := mkSl (sl_slice r) (sl_index r + 1).

(* position(): Panic iff index > len (only reachable by a discard() that does not follow a successful peek()) *)
Definition sl_position (r : sread) : res (N * N) := position_of_index_chk (sl_slice r) (sl_index r).

(* peek_position(): "Cap it at slice.len() just in case the most recent call was next() and it returned the last byte" *)
Definition sl_peek_position (r : sread) : res (N * N) :=
  position_of_index_chk (sl_slice r) (Nat.min (length (sl_slice r)) (sl_index r + 1)).

Definition sl_byte_offset (r : sread) : nat := sl_index r.

(* ---------------------------------------------------------------------------------------------------- *)
(* Operation sequences and what a client can observe after each operation.                              *)

Inductive rop := ONext | OPeek | ODiscard.

(* value returned by the operation, byte_offset(), position(), peek_position() *)
Record pobs := mkObs { o_ret : res (option byte); o_off : N; o_pos : res (N * N); o_ppos : res (N * N) }.

Definition io_step (t : term) (op : rop) (r : ioread) : res (option byte) * ioread :=
  match op with
  | ONext => io_next t r
  | OPeek => io_peek t r
  | ODiscard => (Ok None, io_discard r)
  end.

Definition io_obs (ret : res (option byte)) (r : ioread) : pobs :=
  mkObs ret (io_byte_offset r) (Ok (io_position r)) (Ok (io_peek_position r)).

Fixpoint io_run (t : term) (ops : list rop) (r : ioread) : list pobs :=
  match ops with
  | [] => []
  | op :: ops' => let '(ret, r') := io_step t op r in io_obs ret r' :: io_run t ops' r'
  end.

Fixpoint io_final (t : term) (ops : list rop) (r : ioread) : ioread :=
  match ops with
  | [] => r
  | op :: ops' => io_final t ops' (snd (io_step t op r))
  end.

Definition sl_step (op : rop) (r : sread) : res (option byte) * sread :=
  match op with
  | ONext => sl_next r
  | OPeek => sl_peek r
  | ODiscard => (Ok None, sl_discard r)
  end.

Definition sl_obs (ret : res (option byte)) (r : sread) : pobs :=
  mkObs ret (N.of_nat (sl_byte_offset r)) (sl_position r) (sl_peek_position r).

Fixpoint sl_run (ops : list rop) (r : sread) : list pobs :=
  match ops with
  | [] => []
  | op :: ops' => let '(ret, r') := sl_step op r in sl_obs ret r' :: sl_run ops' r'
  end.

Fixpoint sl_final (ops : list rop) (r : sread) : sread :=
  match ops with
  | [] => r
  | op :: ops' => sl_final ops' (snd (sl_step op r))
  end.
