(* Model/StrScanAst.v — the statement language tools/translate_strscan.py translates the STRING-LITERAL SCANNING of src/read.rs into,
   and its interpreter.  Definitions only.  (Sibling of Model/StrAst.v, which does the same for the escape decoding the scanners call.)

   Translated functions (Gen/StrScanTables.v, GENERATED on every run, holds what the source says now; Proofs/StrScanSrc.v / StrScanSrc2.v
   prove that the hand-written models of Model/Str.v and Proofs/Swar.v are the interpretation of the translated bodies):
       is_escape                                  as_str
       SliceRead::skip_to_escape                  SliceRead::skip_to_escape_slow
       SliceRead::parse_str_bytes                 SliceRead::ignore_str        SliceRead::parse_str      SliceRead::parse_str_raw
       IoRead::parse_str_bytes                    IoRead::ignore_str           IoRead::parse_str         IoRead::parse_str_raw
       StrRead::parse_str                         StrRead::parse_str_raw       StrRead::ignore_str

   REPRESENTATION OF THE READER.  The interpreter runs over the SAME abstract cursor [st] as the models (Model/Read.v) plus one ambient,
   immutable byte list [slice]: the field `SliceRead.slice` (none of the translated functions assigns it).  For a SliceRead / StrRead
       self.index            is  off s                          self.slice.len()   is  length slice
       self.slice[e]         is  nth_error slice e  (out of bounds: Panic)
       self.index = e; self.index += e;     move the cursor to  [set_index slice e s] = {rest := skipn e slice; off := e; pk := false}
       &self.slice[a..b]     is the VIEW (offset a, length b - a) into [slice] ([VSub]); `x.as_ptr().offset_from(self.slice.as_ptr())` is its offset
   while the generic functions the scanners call (next_or_eof, parse_escape, ignore_escape, error) see the cursor through [rest s] / [off s] as in
   the models.  The two views agree as long as  rest s = skipn (off s) slice  — the hypothesis [view_ok] of every SliceRead theorem of
   Proofs/StrScanSrc.v, which the theorems also show is preserved.  The IoRead functions only use the generic calls; [slice] is unused there.

   The Rust subset (anything else is `BROKEN strscan:<fn>: <why>`):
     let [mut] x = E;  const X: T = E;                       SLet x E          (a `const` item is read as a let; T is checked against the type of E)
     x = E;                                                  SAssign x E
     self.index += E;   self.index = E;                      SIndexAdd E / SIndexSet E       (usize; += panics on overflow)
     scratch.extend_from_slice(E);  scratch.push(E);         SExtend E / SPush E
     let x = tri!(next_or_eof(self));                        SLetNext x        Model/Str.v next_or_eof (pinned by text)
     tri!(parse_escape(self, C, scratch));                   STriParseEscape C   the TRANSLATED parse_escape of Gen/StrTables.v, run by Model/StrAst.v run_str
     tri!(ignore_escape(self));                              STriIgnoreEscape    (likewise)
     self.f(A, ..);                                          SCallSelf f [A..]   f a unit method of the table (skip_to_escape, skip_to_escape_slow)
     if C { .. } [else { .. }]                               SIf C a b
     while C { .. }                                          SWhile C body
     loop { .. }   continue;                                 SLoop body / SContinue          (a loop is left only by `return`)
     for x in y.chunks_exact(E) { .. }                       SForChunks x y E body           (x ranges over the consecutive E-byte views of the view y;
                                                                                              the remainder of fewer than E bytes is not visited; E = 0: Panic)
     match E { BP => { .. }, .. }                            SMatchByte E arms               BP as in Model/ScanAst.v
     return; / return R; / R in tail position                SRet R
       R ::= Ok(())  |  error(self, ErrorCode::X)  |  C   (a bool function's value)
           | result(self, x | scratch)[.map(Reference::Borrowed | Reference::Copied)]        the closure parameter `result` applied
           | str::from_utf8(x).or_else(|_| error(read, ErrorCode::X))                        (as_str; str::from_utf8 is Base/Utf8.v utf8_valid)
           | self[.delegate].f(scratch, A, ..)[.map(Reference::Copied)]                      tail call of a table function
     A ::= E | C | as_str | |_, bytes| Ok(bytes) | |_, bytes| { Ok(unsafe { str::from_utf8_unchecked(bytes) }) }      (closures: [clo])
     C ::= true | false | x | !C | C && C | C || C | E cmp E | is_escape(E, C) | scratch.is_empty()
     E ::= literal | b'c' | x | self.index | self.slice.len() | self.slice[E] | &self.slice[E..] | &self.slice[E..E] | x.len()
         | T::MAX | T::from(E) | E as T | mem::size_of::<T>() | T::from_le_bytes(x.try_into().unwrap())
         | unsafe { x.as_ptr().offset_from(self.slice.as_ptr()) } | memchr::memchr2(E, E, x).unwrap_or(x.len())
         | E.wrapping_sub(E) | E.trailing_zeros() | !E | E * E | E / E | E + E | E << k | E & E | E ^ E | E `|` E
   Integers are typed naturals: u8, u32, usize (64 bits), isize (only its non-negative half occurs: an offset inside the slice) and
   `Chunk`, which is u64: the `#[cfg(fast_arithmetic = "64")] type Chunk = u64;` alternative of skip_to_escape (build.rs sets it for every 64-bit
   target; the two cfg lines are pinned by text, the 32-bit alternative is NOT modelled).  + and * PANIC on overflow of the operand type
   (overflow checks on / const evaluation; the proofs show it never happens), wrapping_sub wraps mod 2^bits, ! is the bits-wide complement,
   << drops the bits shifted out, / panics on 0.  `Chunk::from_le_bytes(chunk)` is the LITTLE-ENDIAN value of the 8 bytes, as the source says
   (sum of byte_i * 256^i; the source does not use from_ne_bytes).  `trailing_zeros` of 0 is the bit width.
   `memchr::memchr2(a, b, x)` (external crate) is taken to return the first position in x of a byte equal to a or b.
   `validate`, `forbid_control_characters`, .. are ordinary bool parameters, `result` an ordinary closure-valued parameter.
   Loops and calls take explicit fuel ([OutOfFuel] when exhausted; the bounded `for` takes none); a stuck program is [Panic]. *)
From Coq Require Import String.
From SJ Require Import Base.Bytes Base.Utf8 Model.Read Model.Str.
From SJ Require Model.ScanAst Model.StrAst.
Open Scope N_scope.

Notation bpat := ScanAst.bpat (only parsing).

(* ---- integer types ------------------------------------------------------------------------ *)
Inductive sty := TU8 | TU32 | TUsize | TIsize | TChunk.
(* TIsize: the non-negative isize values *)
Definition bits (t : sty) : N := match t with TU8 => 8 | TU32 => 32 | TUsize => 64 | TIsize => 63 | TChunk => 64 end.
Definition sty_eqb (a b : sty) : bool :=
  match a, b with TU8, TU8 | TU32, TU32 | TUsize, TUsize | TIsize, TIsize | TChunk, TChunk => true | _, _ => false end.
Definition in_range (t : sty) (n : N) : bool := n <? 2 ^ bits t.
Definition w_sub (t : sty) (a b : N) : N := (a + 2 ^ bits t - b) mod 2 ^ bits t.       (* a.wrapping_sub(b) *)
Definition w_not (t : sty) (a : N) : N := 2 ^ bits t - 1 - a.                            (* !a *)
Definition w_shl (t : sty) (a k : N) : N := N.shiftl a k mod 2 ^ bits t.                 (* a << k *)
Fixpoint ctz_pos (p : positive) : nat := match p with xO p' => S (ctz_pos p') | _ => O end.
Definition tz (t : sty) (a : N) : N := match a with N0 => bits t | Npos p => N.of_nat (ctz_pos p) end.    (* a.trailing_zeros() *)
(* T::from_le_bytes *)
Fixpoint le_word (c : bytes) : N := match c with [] => 0 | b :: r => b + 256 * le_word r end.
(* memchr2(a, b, l).unwrap_or(l.len()) *)
Fixpoint find2 (a b : N) (l : bytes) : nat :=
  match l with [] => O | x :: r => if (x =? a) || (x =? b) then O else S (find2 a b r) end.

(* ---- values --------------------------------------------------------------------------------- *)
Inductive clo :=
  | CloAsStr                  (* as_str *)
  | CloBytes                  (* |_, bytes| Ok(bytes) *)
  | CloUnchecked.             (* |_, bytes| { Ok(unsafe { str::from_utf8_unchecked(bytes) }) } : no check *)
Inductive val :=
  | VInt (t : sty) (n : N)
  | VBool (b : bool)
  | VSub (o len : nat)        (* a view into self.slice *)
  | VBytes (l : bytes)        (* a byte slice given by its contents (the `slice` parameter of as_str) *)
  | VClo (c : clo).

(* ---- syntax ------------------------------------------------------------------------------- *)
Inductive binop := OAdd | OMul | ODiv | OAnd | OOr | OXor | OWSub.
Inductive expr :=
  | ELit (t : sty) (n : N)
  | EVar (x : string)
  | EMaxOf (t : sty)                         (* T::MAX *)
  | ESizeOf (t : sty)                        (* mem::size_of::<T>() *)
  | ESelfIndex                               (* self.index *)
  | ESliceLen                                (* self.slice.len() *)
  | ESliceAt (e : expr)                      (* self.slice[e] *)
  | ESubFrom (e : expr)                      (* &self.slice[e..] *)
  | ESubRange (a b : expr)                   (* &self.slice[a..b] *)
  | ELen (x : string)                        (* x.len() *)
  | EFromLe (t : sty) (x : string)           (* T::from_le_bytes(x.try_into().unwrap()) *)
  | EOffsetFrom (x : string)                 (* unsafe { x.as_ptr().offset_from(self.slice.as_ptr()) } *)
  | EMemchr2OrLen (a b : expr) (x : string)  (* memchr::memchr2(a, b, x).unwrap_or(x.len()) *)
  | ETz (e : expr)                           (* e.trailing_zeros() *)
  | ECast (e : expr) (t : sty)               (* e as t,  t::from(e) *)
  | EBin (op : binop) (a b : expr)
  | ENot (e : expr)
  | EShl (e : expr) (k : N).
Inductive cmpop := CLt | CLe | CGt | CGe | CEq | CNe.
Inductive cond :=
  | CTrue | CFalse
  | CVar (x : string)
  | CNot (c : cond)
  | CAnd (a b : cond)
  | COr (a b : cond)
  | CCmp (op : cmpop) (a b : expr)
  | CIsEscape (e : expr) (c : cond)          (* is_escape(e, c) *)
  | CScratchEmpty.                           (* scratch.is_empty() *)
Inductive carg := AE (e : expr) | AC (c : cond) | AClo (c : clo).
Inductive rsrc := RsVar (x : string) | RsScratch.
Inductive rexpr :=
  | ROk                                      (* Ok(()) *)
  | RPlain                                   (* `return;` *)
  | RErrAt (c : ecode)                       (* error(self, ErrorCode::c) *)
  | RCond (c : cond)                         (* the value of a bool function *)
  | RResult (m : option bool) (src : rsrc)   (* result(self, src)[.map(Reference::Borrowed (Some true) | Reference::Copied (Some false))] *)
  | RFromUtf8 (x : string) (c : ecode)       (* str::from_utf8(x).or_else(|_| error(read, ErrorCode::c)) *)
  | RCall (f : string) (args : list carg) (m : option bool).      (* self.f(scratch, args)[.map(Reference::Copied)] *)
Inductive stmt :=
  | SLet (x : string) (e : expr)
  | SAssign (x : string) (e : expr)
  | SIndexAdd (e : expr)
  | SIndexSet (e : expr)
  | SExtend (e : expr)
  | SPush (e : expr)
  | SLetNext (x : string)
  | STriParseEscape (c : cond)
  | STriIgnoreEscape
  | SCallSelf (f : string) (args : list carg)
  | SIf (c : cond) (a b : list stmt)
  | SWhile (c : cond) (body : list stmt)
  | SLoop (body : list stmt)
  | SContinue
  | SForChunks (x xs : string) (step : expr) (body : list stmt)
  | SMatchByte (e : expr) (arms : list (bpat * list stmt))
  | SRet (r : rexpr).

Inductive pkind := KInt (t : sty) | KBool | KBytes | KClo.
Inductive fkind := FUnit | FResult | FBool | FRef | FStr.     (* no return type, Result<()>, bool, Result<Reference<..>>, Result<T> / Result<&str> *)
Record fdef := mkFn { fparams : list (string * pkind); fret : fkind; fbody : list stmt }.
Record prog := mkProg { ptable : list (string * fdef) }.

(* ---- scoped locals --------------------------------------------------------------------------- *)
Definition frame := list (string * val).
Definition locals := list frame.                                      (* innermost block first *)
Fixpoint lookup_frame (x : string) (fr : frame) : option val :=
  match fr with [] => None | (y, v) :: r => if String.eqb x y then Some v else lookup_frame x r end.
Fixpoint lookup (x : string) (l : locals) : option val :=
  match l with [] => None | fr :: r => match lookup_frame x fr with Some v => Some v | None => lookup x r end end.
Fixpoint assign_frame (x : string) (v : val) (fr : frame) : option frame :=
  match fr with
  | [] => None
  | (y, w) :: r => if String.eqb x y then Some ((y, v) :: r)
                   else match assign_frame x v r with Some r' => Some ((y, w) :: r') | None => None end
  end.
Fixpoint assign (x : string) (v : val) (l : locals) : option locals :=
  match l with
  | [] => None
  | fr :: r => match assign_frame x v fr with
               | Some fr' => Some (fr' :: r)
               | None => match assign x v r with Some r' => Some (fr :: r') | None => None end
               end
  end.
Definition declare (x : string) (v : val) (l : locals) : locals :=
  match l with fr :: r => ((x, v) :: fr) :: r | [] => [[(x, v)]] end.

(* ---- the reader -------------------------------------------------------------------------------- *)
Definition set_index (slice : bytes) (i : nat) (s : st) : st := mkSt (skipn i slice) i false (depth s).
Definition sub_bytes (slice : bytes) (o len : nat) : bytes := firstn len (skipn o slice).
Definition bytes_of (slice : bytes) (v : val) : res bytes :=
  match v with VSub o len => Ok (sub_bytes slice o len) | VBytes l => Ok l | _ => Panic end.

(* ---- expressions --------------------------------------------------------------------------- *)
Definition eval_bin (op : binop) (t : sty) (a b : N) : res val :=
  match op with
  | OAdd => if in_range t (a + b) then Ok (VInt t (a + b)) else Panic
  | OMul => if in_range t (a * b) then Ok (VInt t (a * b)) else Panic
  | ODiv => if b =? 0 then Panic else Ok (VInt t (a / b))
  | OAnd => Ok (VInt t (N.land a b))
  | OOr => Ok (VInt t (N.lor a b))
  | OXor => Ok (VInt t (N.lxor a b))
  | OWSub => Ok (VInt t (w_sub t a b))
  end.

Definition as_usize (v : val) : res nat := match v with VInt TUsize n => Ok (N.to_nat n) | _ => Panic end.
Definition as_u8 (v : val) : res N := match v with VInt TU8 n => Ok n | _ => Panic end.

Fixpoint eval_expr (slice : bytes) (s : st) (l : locals) (e : expr) : res val :=
  match e with
  | ELit t n => if in_range t n then Ok (VInt t n) else Panic
  | EVar x => match lookup x l with Some v => Ok v | None => Panic end
  | EMaxOf t => Ok (VInt t (2 ^ bits t - 1))
  | ESizeOf t => Ok (VInt TUsize (bits t / 8))
  | ESelfIndex => Ok (VInt TUsize (N.of_nat (off s)))
  | ESliceLen => Ok (VInt TUsize (N.of_nat (length slice)))
  | ESliceAt e' =>
    let* i := (let* v := eval_expr slice s l e' in as_usize v) in
    match nth_error slice i with Some b => Ok (VInt TU8 b) | None => Panic end
  | ESubFrom e' =>
    let* i := (let* v := eval_expr slice s l e' in as_usize v) in
    if (i <=? length slice)%nat then Ok (VSub i (length slice - i)) else Panic
  | ESubRange a b =>
    let* i := (let* v := eval_expr slice s l a in as_usize v) in
    let* j := (let* v := eval_expr slice s l b in as_usize v) in
    if (i <=? j)%nat && (j <=? length slice)%nat then Ok (VSub i (j - i)) else Panic
  | ELen x =>
    match lookup x l with
    | Some (VSub _ n) => Ok (VInt TUsize (N.of_nat n))
    | Some (VBytes w) => Ok (VInt TUsize (N.of_nat (length w)))
    | _ => Panic
    end
  | EFromLe t x =>
    match lookup x l with
    | Some (VSub o n) => if (N.of_nat n * 8 =? bits t) then Ok (VInt t (le_word (sub_bytes slice o n))) else Panic
    | _ => Panic
    end
  | EOffsetFrom x => match lookup x l with Some (VSub o _) => Ok (VInt TIsize (N.of_nat o)) | _ => Panic end
  | EMemchr2OrLen a b x =>
    let* a' := (let* v := eval_expr slice s l a in as_u8 v) in
    let* b' := (let* v := eval_expr slice s l b in as_u8 v) in
    match lookup x l with
    | Some v => let* w := bytes_of slice v in Ok (VInt TUsize (N.of_nat (find2 a' b' w)))
    | None => Panic
    end
  | ETz e' => let* v := eval_expr slice s l e' in match v with VInt t n => Ok (VInt TU32 (tz t n)) | _ => Panic end
  | ECast e' t => let* v := eval_expr slice s l e' in match v with VInt _ n => Ok (VInt t (n mod 2 ^ bits t)) | _ => Panic end
  | EBin op a b =>
    let* va := eval_expr slice s l a in
    let* vb := eval_expr slice s l b in
    match va, vb with
    | VInt ta x, VInt tb y => if sty_eqb ta tb then eval_bin op ta x y else Panic
    | _, _ => Panic
    end
  | ENot e' => let* v := eval_expr slice s l e' in match v with VInt t n => Ok (VInt t (w_not t n)) | _ => Panic end
  | EShl e' k => let* v := eval_expr slice s l e' in
                 match v with VInt t n => if k <? bits t then Ok (VInt t (w_shl t n k)) else Panic | _ => Panic end
  end.

Definition cmp_eval (op : cmpop) (a b : N) : bool :=
  match op with
  | CLt => a <? b | CLe => a <=? b | CGt => b <? a | CGe => b <=? a | CEq => a =? b | CNe => negb (a =? b)
  end.
Definition cmp_vals (op : cmpop) (a b : val) : res bool :=
  match a, b with
  | VInt ta x, VInt tb y => if sty_eqb ta tb then Ok (cmp_eval op x y) else Panic
  | _, _ => Panic
  end.

(* && and || are short-circuit.  [isesc] evaluates a call of is_escape (see [is_escape_call]) *)
Fixpoint eval_cond (isesc : N -> bool -> res bool) (slice : bytes) (s : st) (l : locals) (buf : bytes) (c : cond) : res bool :=
  match c with
  | CTrue => Ok true
  | CFalse => Ok false
  | CVar x => match lookup x l with Some (VBool b) => Ok b | _ => Panic end
  | CNot a => let* x := eval_cond isesc slice s l buf a in Ok (negb x)
  | CAnd a b => let* x := eval_cond isesc slice s l buf a in if x then eval_cond isesc slice s l buf b else Ok false
  | COr a b => let* x := eval_cond isesc slice s l buf a in if x then Ok true else eval_cond isesc slice s l buf b
  | CCmp op a b => let* va := eval_expr slice s l a in let* vb := eval_expr slice s l b in cmp_vals op va vb
  | CIsEscape e a =>
    let* ch := (let* v := eval_expr slice s l e in as_u8 v) in
    let* x := eval_cond isesc slice s l buf a in
    isesc ch x
  | CScratchEmpty => Ok (match buf with [] => true | _ => false end)
  end.

Fixpoint find_fn (fn : string) (T : list (string * fdef)) : option fdef :=
  match T with [] => None | (n, d) :: r => if String.eqb fn n then Some d else find_fn fn r end.

(* is_escape(ch, flag): the translated function is one bool expression over its two parameters (no nested call of itself) *)
Definition is_escape_call (P : prog) (ch : N) (flag : bool) : res bool :=
  match find_fn "is_escape"%string (ptable P) with
  | Some (mkFn [(x, KInt TU8); (y, KBool)] FBool [SRet (RCond body)]) =>
    eval_cond (fun _ _ => Panic) [] (mkSt [] 0 false 0) [[(x, VInt TU8 ch); (y, VBool flag)]] [] body
  | _ => Panic
  end.

(* ---- execution -------------------------------------------------------------------------------- *)
Inductive retv :=
  | RvUnit
  | RvBool (b : bool)
  | RvStr (l : bytes)                        (* Ok(&str) / Ok(&[u8]): the bytes *)
  | RvRef (borrowed : bool) (l : bytes).     (* Ok(Reference::Borrowed(l)) / Ok(Reference::Copied(l)) *)
Inductive outcome :=
  | OFall (l : locals) (buf : bytes) (s : st)          (* the statement / block completed; control goes on *)
  | ORet (r : retv) (buf : bytes) (s : st)             (* the function returned (Ok of) r *)
  | OCont (l : locals) (buf : bytes) (s : st).         (* `continue`: the innermost loop body is restarted *)

Definition exec_t := stmt -> locals -> bytes -> st -> res outcome.
Definition call_t := string -> list val -> st -> bytes -> res (retv * bytes * st).

Fixpoint exec_block (ex : exec_t) (ss : list stmt) (l : locals) (buf : bytes) (s : st) : res outcome :=
  match ss with
  | [] => Ok (OFall l buf s)
  | x :: r => let* o := ex x l buf s in
              match o with OFall l' buf' s' => exec_block ex r l' buf' s' | _ => Ok o end
  end.

(* a nested block: its own frame [fr] (empty, or holding the loop variable), popped when the block is left *)
Definition exec_scope_in (ex : exec_t) (fr : frame) (ss : list stmt) (l : locals) (buf : bytes) (s : st) : res outcome :=
  let* o := exec_block ex ss (fr :: l) buf s in
  match o with
  | OFall l' buf' s' => Ok (OFall (tl l') buf' s')
  | ORet _ _ _ => Ok o
  | OCont l' buf' s' => Ok (OCont (tl l') buf' s')
  end.
Definition exec_scope (ex : exec_t) := exec_scope_in ex [].

(* for x in <view (o, _)>.chunks_exact(k): [cnt] full chunks are left *)
Fixpoint for_chunks (ex : exec_t) (cnt : nat) (x : string) (o k : nat) (body : list stmt) (l : locals) (buf : bytes) (s : st) : res outcome :=
  match cnt with
  | O => Ok (OFall l buf s)
  | S c =>
    let* r := exec_scope_in ex [(x, VSub o k)] body l buf s in
    match r with
    | OFall l' buf' s' | OCont l' buf' s' => for_chunks ex c x (o + k) k body l' buf' s'
    | ORet _ _ _ => Ok r
    end
  end.

Definition kind_ok (k : pkind) (v : val) : bool :=
  match k, v with
  | KInt t, VInt t' _ => sty_eqb t t'
  | KBool, VBool _ => true
  | KBytes, VBytes _ => true
  | KClo, VClo _ => true
  | _, _ => false
  end.
Fixpoint bind_params (ps : list (string * pkind)) (args : list val) : option frame :=
  match ps, args with
  | [], [] => Some []
  | (x, k) :: ps', v :: args' =>
    if kind_ok k v then match bind_params ps' args' with Some fr => Some ((x, v) :: fr) | None => None end else None
  | _, _ => None
  end.

Definition call_fn (ex : exec_t) (P : prog) : call_t := fun fn args s buf =>
  match find_fn fn (ptable P) with
  | None => Panic
  | Some d =>
    match bind_params (fparams d) args with
    | None => Panic
    | Some fr =>
      let* o := exec_block ex (fbody d) [fr] buf s in
      match o with
      | ORet r buf' s' => Ok (r, buf', s')
      | OFall _ buf' s' => match fret d with FUnit => Ok (RvUnit, buf', s') | _ => Panic end
      | OCont _ _ _ => Panic
      end
    end
  end.

Fixpoint select_b (arms : list (bpat * list stmt)) (b : N) : option (list stmt) :=
  match arms with [] => None | (p, body) :: r => if ScanAst.bpat_match p b then Some body else select_b r b end.

Section WithCond.
Variable econd : locals -> bytes -> st -> cond -> res bool.
Variable slice : bytes.

Definition eval_arg (l : locals) (buf : bytes) (s : st) (a : carg) : res val :=
  match a with
  | AE e => eval_expr slice s l e
  | AC c => let* b := econd l buf s c in Ok (VBool b)
  | AClo c => Ok (VClo c)
  end.
Fixpoint eval_args (l : locals) (buf : bytes) (s : st) (args : list carg) : res (list val) :=
  match args with
  | [] => Ok []
  | a :: r => let* v := eval_arg l buf s a in let* vs := eval_args l buf s r in Ok (v :: vs)
  end.

(* a closure applied to (self, bytes) *)
Definition apply_clo (call : call_t) (c : clo) (s : st) (buf : bytes) (w : bytes) : res bytes :=
  match c with
  | CloBytes | CloUnchecked => Ok w
  | CloAsStr => let* (r, _, _) := call "as_str"%string [VBytes w] s buf in match r with RvStr t => Ok t | _ => Panic end
  end.

Definition map_ref (m : option bool) (r : retv) : res retv :=
  match m with
  | None => Ok r
  | Some b => match r with RvStr t => Ok (RvRef b t) | _ => Panic end
  end.

Definition eval_ret (call : call_t) (E : env) (r : rexpr) (l : locals) (buf : bytes) (s : st) : res outcome :=
  match r with
  | ROk | RPlain => Ok (ORet RvUnit buf s)
  | RErrAt c => error E s c
  | RCond c => let* b := econd l buf s c in Ok (ORet (RvBool b) buf s)
  | RResult m src =>
    match lookup "result"%string l with
    | Some (VClo c) =>
      let* w := match src with
                | RsScratch => Ok buf
                | RsVar x => match lookup x l with Some v => bytes_of slice v | None => Panic end
                end in
      let* t := apply_clo call c s buf w in
      let* rv := map_ref m (RvStr t) in
      Ok (ORet rv buf s)
    | _ => Panic
    end
  | RFromUtf8 x c =>
    match lookup x l with
    | Some v => let* w := bytes_of slice v in if utf8_valid w then Ok (ORet (RvStr w) buf s) else error E s c
    | None => Panic
    end
  | RCall f args m =>
    let* vs := eval_args l buf s args in
    let* (rv, buf', s') := call f vs s buf in
    let* rv' := map_ref m rv in
    Ok (ORet rv' buf' s')
  end.
End WithCond.

Fixpoint exec (fuel : nat) (E : env) (SP : StrAst.prog) (P : prog) (slice : bytes) (x : stmt) (l : locals) (buf : bytes) (s : st) {struct fuel}
  : res outcome :=
  match fuel with
  | O => OutOfFuel
  | S f =>
    let econd := fun l buf s c => eval_cond (is_escape_call P) slice s l buf c in
    match x with
    | SLet v e => let* w := eval_expr slice s l e in Ok (OFall (declare v w l) buf s)
    | SAssign v e =>
      let* w := eval_expr slice s l e in
      match assign v w l with Some l' => Ok (OFall l' buf s) | None => Panic end
    | SIndexAdd e =>
      let* k := (let* w := eval_expr slice s l e in as_usize w) in
      if in_range TUsize (N.of_nat (off s + k)) then Ok (OFall l buf (set_index slice (off s + k) s)) else Panic
    | SIndexSet e =>
      let* k := (let* w := eval_expr slice s l e in as_usize w) in
      Ok (OFall l buf (set_index slice k s))
    | SExtend e => let* w := (let* v := eval_expr slice s l e in bytes_of slice v) in Ok (OFall l (buf ++ w) s)
    | SPush e => let* b := (let* v := eval_expr slice s l e in as_u8 v) in Ok (OFall l (buf ++ [b]) s)
    | SLetNext v => let* (b, s') := Str.next_or_eof E s in Ok (OFall (declare v (VInt TU8 b) l) buf s')
    | STriParseEscape c =>
      let* v := econd l buf s c in
      let* (_, buf', s') := StrAst.run_str f E v SP "parse_escape"%string [] s buf in
      Ok (OFall l buf' s')
    | STriIgnoreEscape =>
      let* (_, buf', s') := StrAst.run_str f E true SP "ignore_escape"%string [] s buf in
      Ok (OFall l buf' s')
    | SCallSelf fn args =>
      let* vs := eval_args econd slice l buf s args in
      let* (r, buf', s') := call_fn (exec f E SP P slice) P fn vs s buf in
      match r with RvUnit => Ok (OFall l buf' s') | _ => Panic end
    | SIf c a b =>
      let* t := econd l buf s c in
      if t then exec_scope (exec f E SP P slice) a l buf s else exec_scope (exec f E SP P slice) b l buf s
    | SWhile c body =>
      let* t := econd l buf s c in
      if t then
        let* o := exec_scope (exec f E SP P slice) body l buf s in
        match o with
        | OFall l' buf' s' | OCont l' buf' s' => exec f E SP P slice (SWhile c body) l' buf' s'
        | ORet _ _ _ => Ok o
        end
      else Ok (OFall l buf s)
    | SLoop body =>
      let* o := exec_scope (exec f E SP P slice) body l buf s in
      match o with
      | OFall l' buf' s' | OCont l' buf' s' => exec f E SP P slice (SLoop body) l' buf' s'
      | ORet _ _ _ => Ok o
      end
    | SContinue => Ok (OCont l buf s)
    | SForChunks v xs step body =>
      let* k := (let* w := eval_expr slice s l step in as_usize w) in
      match lookup xs l with
      | Some (VSub o n) =>
        if (k =? 0)%nat then Panic
        else for_chunks (exec f E SP P slice) (n / k)%nat v o k body l buf s
      | _ => Panic
      end
    | SMatchByte e arms =>
      let* b := (let* v := eval_expr slice s l e in as_u8 v) in
      match select_b arms b with
      | Some body => exec_scope (exec f E SP P slice) body l buf s
      | None => Panic
      end
    | SRet r => eval_ret econd slice (call_fn (exec f E SP P slice) P) E r l buf s
    end
  end.

(* calling function [fn] of program [P] on the reader (slice, s) with arguments [args] and scratch buffer [buf];
   [SP] is the translated escape decoding (Gen/StrTables.v STR_PROG) *)
Definition run_scan (fuel : nat) (E : env) (SP : StrAst.prog) (P : prog) (slice : bytes) (fn : string) (args : list val) (s : st) (buf : bytes)
  : res (retv * bytes * st) :=
  call_fn (exec fuel E SP P slice) P fn args s buf.
