(* Model/RawM.v — src/raw.rs (feature raw_value) and the raw parts of src/de.rs, src/read.rs, src/ser.rs, src/value/ser.rs.
   Definitions only (everything here extracts and runs); lemmas live in Proofs/Raw*.v.

   A `RawValue` is a `str` (`#[repr(transparent)] struct RawValue { json: str }`); the model of a RawValue is the byte
   list of that str.  `&RawValue` and `Box<RawValue>` differ only in who owns the bytes, so one model serves both.

   Deserialisation  (`impl Deserialize for &RawValue / Box<RawValue>`, raw.rs 312-370):
     deserializer.deserialize_newtype_struct(TOKEN, visitor)
       -> de.rs 1752-1756 / 2312-2316 (MapKey): name == TOKEN  =>  Deserializer::deserialize_raw_value (de.rs 1310-1319):
            parse_whitespace; read.begin_raw_buffering; ignore_value; read.end_raw_buffering(visitor)
       -> read.rs 385-397 (IoRead: String::from_utf8 of the buffered bytes), 644-656 (SliceRead: str::from_utf8 of
          slice[start..index]), 740-747 (StrRead: &data[start..index], no check)
       -> visitor.visit_map(Owned/BorrowedRawDeserializer): next_key::<RawKey> succeeds (the key is TOKEN),
          next_value_seed(BoxedFromString / ReferenceFromString) returns the str unchanged.
     This is [DeTyped.deserialize_raw] (type program [TRaw]); nothing is re-modelled here.

   Serialisation  (`impl Serialize for RawValue`, raw.rs 301-310):
     serializer.serialize_struct(TOKEN, 1); s.serialize_field(TOKEN, &self.json); s.end()
       ser.rs 370-378   serialize_struct: name == TOKEN => Compound::RawValue { ser }   (no formatter call)
       ser.rs 704-711   SerializeStruct::serialize_field on Compound::RawValue: key == TOKEN => value.serialize(RawValueStrEmitter(ser))
       ser.rs 1402-1408 RawValueStrEmitter::serialize_str: formatter.write_raw_fragment(writer, value)
       ser.rs 1941-1946 Formatter::write_raw_fragment (trait default, not overridden by CompactFormatter / PrettyFormatter):
                        writer.write_all(fragment.as_bytes())
       ser.rs 721-722   SerializeStruct::end on Compound::RawValue => Ok(())
     so a RawValue costs exactly one write_all of its bytes and touches no formatter state.  A RawValue used as a MAP KEY
     goes to MapKeySerializer::serialize_struct (ser.rs 1131-1133) = Err(key_must_be_a_string()).
     value/ser.rs 271-279, 669-676, 688-691, 958-960: `to_value(raw)` = SerializeMap::RawValue; RawValueEmitter::serialize_str
     = `crate::from_str(value)`, i.e. the RawValue's text parsed as a `Value` through a StrRead.

   Model/Sval.v has no node for this call sequence and must not be edited, so the serializer is stated on an extension type
   [rsval]: every container / wrapper form of [sval] again, a leaf [RPlain v] for any raw-free subtree (handled by the
   existing [Ser.ser] / [ValueSer.to_value]), and the new leaf [RRaw json].  The container code below is the container code
   of Model/Ser.v and Model/ValueSer.v with the element type generalised (those loops are typed for [sval] elements). *)
From SJ Require Import Base.Bytes Base.Utf8 Gen.Tables Model.Read Model.Str Model.Num Model.Value Model.De Model.Ignore.
From SJ Require Import Model.Sval Model.Ser Model.ValueSer.
From SJ Require Import Model.Ty Model.DeTyped.
Open Scope N_scope.

(* raw::TOKEN = "$serde_json::private::RawValue" *)
Definition RAW_TOKEN : bytes :=
  [36;115;101;114;100;101;95;106;115;111;110;58;58;112;114;105;118;97;116;101;58;58;82;97;119;86;97;108;117;101].

(* ---- deserialisation ------------------------------------------------------------------------------------ *)
Definition raw_of (d : dval) : bytes := match d with DRaw b => b | _ => [] end.

(* from_trait::<_, Box<RawValue>> (from_str / from_slice / from_reader) and from_trait::<_, &RawValue> (from_str / from_slice):
   the raw deserializer, then Deserializer::end *)
Definition raw_from_input (E : env) (input : bytes) : tres bytes :=
  let+ (d, s1) := deserialize_raw E (init_st input) in
  let^ _ := de_end E s1 in
  TOk (raw_of d).

(* RawValue::from_string (raw.rs 186-192):
     let borrowed = tri!(crate::from_str::<&Self>(&json));
     if borrowed.json.len() < json.len() { return Ok(borrowed.to_owned()); }
     Ok(Self::from_owned(json.into_boxed_str()))
   The result is the text held by the returned Box<RawValue>. *)
Definition from_string (cf : cfg) (json : bytes) : tres bytes :=
  let+ borrowed := raw_from_input (mkEnv RStr TEof cf) json in
  if (length borrowed <? length json)%nat then TOk borrowed else TOk json.

(* RawValue::get *)
Definition raw_get (json : bytes) : bytes := json.

(* ---- the data model with a RawValue node ------------------------------------------------------------------ *)
Inductive rsval :=
  | RPlain (v : sval)                                    (* a subtree without RawValue: Model/Sval.v *)
  | RRaw (json : bytes)                                  (* RawValue::serialize: serialize_struct(TOKEN,1); serialize_field(TOKEN,&json); end *)
  | RSome (v : rsval)                                    (* serialize_some *)
  | RNewtypeStruct (v : rsval)                           (* serialize_newtype_struct *)
  | RNewtypeVariant (name : bytes) (v : rsval)           (* serialize_newtype_variant *)
  | RSeq (hint : option nat) (es : list rsval)           (* serialize_seq(hint); serialize_element*; end *)
  | RTuple (es : list rsval)                             (* serialize_tuple(len) *)
  | RTupleStruct (es : list rsval)                       (* serialize_tuple_struct(_, len) *)
  | RTupleVariant (name : bytes) (es : list rsval)       (* serialize_tuple_variant *)
  | RMap (hint : option nat) (kvs : list (sval * rsval)) (* serialize_map(hint); (serialize_key; serialize_value)*; end.
                                                            Keys are raw-free: a RawValue key is [raw_key_ser] below *)
  | RStruct (fs : list (bytes * rsval))                  (* serialize_struct(_, len); serialize_field*; end *)
  | RStructVariant (name : bytes) (fs : list (bytes * rsval)).

(* MapKeySerializer::serialize_struct (ser.rs 1131): what serialising a RawValue in key position does *)
Definition raw_key_ser : tr unit := tfail KeyMustBeAString.

(* ---- src/ser.rs ------------------------------------------------------------------------------------------ *)
Section RSer.
  Variable cf : cfg.
  Variable fmt32 fmt64 : N -> bytes.       (* ryu::Buffer::format_finite, as in Model/Ser.v *)
  Variable F : formatter.

  (* Formatter::write_raw_fragment *)
  Definition write_raw_fragment (fragment : bytes) : tr unit := twrite fragment.

  (* SerializeSeq::serialize_element / SerializeMap::serialize_key + serialize_value: Ser.ser_elems / Ser.ser_entries
     with the element type generalised *)
  Section Loops.
    Context {X : Type}.
    Variable serx : X -> fstate -> tr fstate.

    Fixpoint rser_elems (l : list X) (cs : cstate) (st : fstate) : tr (cstate * fstate) :=
      match l with
      | [] => tret (cs, st)
      | e :: r =>
        do* st1 := Ser.lift (begin_array_value F (is_first cs) st) in
        do* st2 := serx e st1 in
        do* st3 := Ser.lift (end_array_value F st2) in
        rser_elems r Rest st3
      end.

    Fixpoint rser_entries {K} (serkey : K -> tr unit) (l : list (K * X)) (cs : cstate) (st : fstate)
      : tr (cstate * fstate) :=
      match l with
      | [] => tret (cs, st)
      | (k, v) :: r =>
        do* st1 := Ser.lift (begin_object_key F (is_first cs) st) in
        do* _ := serkey k in
        do* st2 := Ser.lift (end_object_key F st1) in
        do* st3 := Ser.lift (begin_object_value F st2) in
        do* st4 := serx v st3 in
        do* st5 := Ser.lift (end_object_value F st4) in
        rser_entries serkey r Rest st5
      end.
  End Loops.

  Fixpoint rser (v : rsval) (st : fstate) {struct v} : tr fstate :=
    match v with
    | RPlain v0 => ser cf fmt32 fmt64 F v0 st
    | RRaw json =>
      (* Compound::RawValue; RawValueStrEmitter::serialize_str; end: one write_all, formatter untouched *)
      do* _ := write_raw_fragment json in tret st
    | RSome v1 => rser v1 st
    | RNewtypeStruct v1 => rser v1 st
    | RNewtypeVariant name v1 =>
      do* st1 := open_variant F name st in
      do* st2 := rser v1 st1 in
      close_variant F st2
    | RSeq h es =>
      do* (cs, st1) := open_seq F h st in
      do* (cs2, st2) := rser_elems rser es cs st1 in
      close_seq F cs2 st2
    | RTuple es | RTupleStruct es =>
      do* (cs, st1) := open_seq F (Some (length es)) st in
      do* (cs2, st2) := rser_elems rser es cs st1 in
      close_seq F cs2 st2
    | RTupleVariant name es =>
      do* st0 := open_variant F name st in
      do* (cs, st1) := open_seq F (Some (length es)) st0 in
      do* (cs2, st2) := rser_elems rser es cs st1 in
      do* st3 := close_seq F cs2 st2 in
      close_variant F st3
    | RMap h kvs =>
      do* (cs, st1) := open_map F h st in
      do* (cs2, st2) := rser_entries rser (key_ser fmt32 fmt64) kvs cs st1 in
      close_map F cs2 st2
    | RStruct fs =>
      do* (cs, st1) := open_map F (Some (length fs)) st in
      do* (cs2, st2) := rser_entries rser format_escaped_str fs cs st1 in
      close_map F cs2 st2
    | RStructVariant name fs =>
      do* st0 := open_variant F name st in
      do* (cs, st1) := open_map F (Some (length fs)) st0 in
      do* (cs2, st2) := rser_entries rser format_escaped_str fs cs st1 in
      do* st3 := close_map F cs2 st2 in
      close_variant F st3
    end.

  (* to_writer / to_writer_pretty, to_vec / to_string: as Ser.serialize_trace / serialize / to_vec *)
  Definition rserialize_trace (v : rsval) : tr unit := do* _ := rser v fs0 in tret tt.
  Definition rserialize (v : rsval) : res (list bytes) :=
    match rserialize_trace v with
    | (o, Ok _) => Ok o
    | (_, Err c i) => Err c i
    | (_, OutOfFuel) => OutOfFuel
    | (_, Panic) => Panic
    end.
  Definition rto_vec (v : rsval) : res bytes := rmap (@concat N) (rserialize v).
End RSer.

(* ---- src/value/ser.rs -------------------------------------------------------------------------------------- *)
Section RToValue.
  Variable cf : cfg.
  Variable fmt32 fmt64 : N -> bytes.

  (* RawValueEmitter::serialize_str = crate::from_str::<Value>(value) *)
  Definition raw_to_value (json : bytes) : res value := from_input (mkEnv RStr TEof cf) json.

  Section Loops.
    Context {X : Type}.
    Variable tvx : X -> res value.
    Fixpoint rtv_elems (l : list X) : res (list value) :=
      match l with
      | [] => Ok []
      | e :: r => let* x := tvx e in let* xs := rtv_elems r in Ok (x :: xs)
      end.
    Fixpoint rtv_entries {K} (keyf : K -> res bytes) (l : list (K * X)) (m : list (bytes * value)) : res (list (bytes * value)) :=
      match l with
      | [] => Ok m
      | (k, v) :: r =>
        let* ks := keyf k in
        let* x := tvx v in
        rtv_entries keyf r (minsert cf ks x m)
      end.
  End Loops.

  Fixpoint rto_value (v : rsval) {struct v} : res value :=
    match v with
    | RPlain v0 => to_value cf fmt32 fmt64 v0
    | RRaw json => raw_to_value json           (* SerializeMap::RawValue { out_value }; end() returns it *)
    | RSome v1 => rto_value v1
    | RNewtypeStruct v1 => rto_value v1
    | RNewtypeVariant name v1 => let* x := rto_value v1 in Ok (VObj (minsert cf name x []))
    | RSeq _ es | RTuple es | RTupleStruct es => let* xs := rtv_elems rto_value es in Ok (VArr xs)
    | RTupleVariant name es => let* xs := rtv_elems rto_value es in Ok (VObj (minsert cf name (VArr xs) []))
    | RMap _ kvs => let* m := rtv_entries rto_value (key_string fmt32 fmt64) kvs [] in Ok (VObj m)
    | RStruct fs => let* m := rtv_entries rto_value ok_key fs [] in Ok (VObj m)
    | RStructVariant name fs => let* m := rtv_entries rto_value ok_key fs [] in Ok (VObj (minsert cf name (VObj m) []))
    end.
End RToValue.

(* value::to_raw_value (raw.rs 291-297): to_string, no re-validation *)
Definition to_raw_value (cf : cfg) (fmt32 fmt64 : N -> bytes) (v : sval) : res bytes := to_vec cf fmt32 fmt64 Compact v.
