(* Model/StreamTyped.v — StreamDeserializer::next over typed items (src/de.rs): Model/Stream.v's stream_next with the
   item parser [de_typed] of Model/DeTyped.v (results in [tres]: a data error may stay unpositioned). *)
From SJ Require Import Base.Bytes Gen.Tables Model.Read Model.Str Model.Num Model.Value Model.De Model.Ignore Model.Stream
  Model.Ty Model.DeTyped.
Open Scope N_scope.

Inductive titem :=
  | TIVal (d : dval)
  | TIErr (c : ecode) (idx : nat)
  | TIUnpos (k : msgkind)          (* data error that never got a position: line 0, column 0 *)
  | TIBad.                         (* fuel / panic *)

Definition tres_item {A} (r : tres A) : titem :=
  match r with
  | TErr c i => TIErr c i
  | TUnpos k _ => TIUnpos k
  | _ => TIBad
  end.

Definition res_titem {A} (r : res A) : titem :=
  match r with Err c i => TIErr c i | _ => TIBad end.

(* one call of next() for items of type [t] *)
Definition stream_next_typed (E : env) (t : ty) (ss : sstate) : option titem * sstate :=
  if is_io E && ss_failed ss then (None, ss)
  else
    match parse_whitespace E (ss_st ss) with
    | Ok (None, s1) => (None, mkSS s1 (off s1) (ss_failed ss))
    | Ok (Some b, s1) =>
      let self_delineated := (b =? 91) || (b =? 34) || (b =? 123) in
      let ss1 := mkSS s1 (off s1) (ss_failed ss) in
      match de_typed (typed_fuel t (rest s1)) E t s1 with
      | TOk (v, s2) =>
        let ss2 := mkSS s2 (off s2) (ss_failed ss) in
        if self_delineated then (Some (TIVal v), ss2)
        else match peek_end_of_value E s2 with
             | Ok s3 => (Some (TIVal v), mkSS s3 (off s2) (ss_failed ss))
             | Err (Io k) i => (Some (TIErr (Io k) i), set_failed E ss2)    (* an I/O error while looking ahead is terminal (fix F16) *)
             | r => (Some (res_titem r), ss2)
             end
      | r => (Some (tres_item r), set_failed E ss1)
      end
    | r => (Some (res_titem r), set_failed E ss)
    end.

Fixpoint stream_run_typed (n : nat) (E : env) (t : ty) (ss : sstate) : list (option titem * nat) :=
  match n with
  | O => []
  | S n' => let '(it, ss') := stream_next_typed E t ss in (it, ss_off ss') :: stream_run_typed n' E t ss'
  end.
