(* Model/EscAst.v — the statement language tools/translate_esc.py translates the STRING ESCAPING side of src/ser.rs into, and its
   interpreter.  Definitions only.

   Translated items (Gen/EscTables.v, GENERATED on every run, holds what the source says now; Proofs/EscSrc.v proves that the hand-written
   models of Model/SerStr.v and Model/Ser.v are the interpretation of the translated bodies):
       fn format_escaped_str   fn format_escaped_str_contents                                  (free functions)
       CharEscape::from_escape_table     pub enum CharEscape                                    (the variants with their arity)
       Formatter::{begin_string, end_string, write_string_fragment, write_char_escape}          (trait defaults; not overridden by any impl)
       Serializer::{serialize_str, serialize_char}   MapKeySerializer::{serialize_str, serialize_char}
       const BB TT NN FF RR QU BS UU __ : u8      static ESCAPE: [u8; 256] = [NAME, ..]         (entries kept as the NAMES the source writes)

   The Rust subset (anything else is `BROKEN esc:<item>: <why>`):

     let [mut] x = E;                                       SLet x E          declared in the innermost block (shadowing as in Rust)
     let x = CharEscape::from_escape_table(E, ..);          SLetCall x f [E..]  f a value function of the program
     static X: [u8; N] = *b"..";                            SStatic X bytes   (a block-local static: an array value named X)
     x = E;                                                 SAssign x E       assigns the nearest enclosing declaration
     tri!(C);                                               STri C            C a Result-valued call: an Err leaves the function at once
     if E cmp E { .. } [else { .. }]                        SIf (CCmp ..) a b
     for (i, &x) in E.iter().enumerate() { .. }             SForEnum i x E body    E : &[u8]; i : usize counts from 0; x : u8
     continue;                                              SContinue
     let x = match v { V => E, V(y) => { ..; [E] } .. };    SLetMatchEnum x v arms   v : CharEscape; an arm is (variant, binders, block, tail value);
                                                                              an arm without tail value must leave the function (return)
     match v { self::K => R, .. , _ => unreachable!() }     SMatchConst v arms      v an integer; K a named const; first matching arm
     return R; / R in tail position                         SRet R            R ::= Ok(()) | C | E
     unreachable!()                                         SUnreachable      Panic
     C ::= writer.write_all(E)                              CWriteAll E       ONE buffer handed to the writer
         | f(writer, formatter, E..) | formatter.m(writer, E..) | self.m(E..) | self.ser.m(E..)        CFn name [E..]
         | C.map_err(Error::io)                             CMapErrIo C       io::Error -> serde_json::Error; both are `Err (Io kind) 0` here
     E ::= literal | x | K (const) | E as T | E + E | E - E | E & E | E `|` E | E >> k | TAB[E] | E.len() | E.as_bytes()
         | &E[E..E] | &E[E..] | b".." | [&][E, ..] | [0; n] | E.encode_utf8(&mut E) | CharEscape::V[(E..)]

   Values: typed integers (u8, usize — usize is taken to be 64 bits), `&str` (VStr) and `&[u8]` / arrays (VSlice) as byte lists, `char` as its
   code point, CharEscape values by VARIANT NAME.  `as T` wraps; + and - PANIC when the result leaves the type (overflow checks on; the equalities
   of Proofs/EscSrc.v show it never happens); `TAB[i]` and the slicings PANIC out of bounds, exactly like Rust.
   [strict]: slicing a `&str` additionally panics when an end point is not a char boundary (core::str::is_char_boundary: index 0, index
   len, or a byte that is not 0x80..=0xBF).  With strict = false a `&str` is sliced like its bytes.
   `c.encode_utf8(&mut buf)` is Base/Utf8.v utf8_encode, Panic when the buffer is too short.
   The writer: an abstract state [W] with `write_all : W -> bytes -> W * res unit`; every call hands ONE buffer over; `tri!` and the tail
   positions propagate its failure at once.  Instances (Proofs/EscSrc.v): the trace writer (W = list of buffers, never fails) gives the SEQUENCE OF
   WRITE BUFFERS of Model/SerStr.v / Model/Ser.v; Model/Ser.v's short / failing [writer] gives [run_writer].
   `use self::CharEscape::*;` (name resolution of the bare variant names in write_char_escape's patterns), the signatures, the `tri!` macro and
   the struct fields the calls go through are pinned by text in the translator.
   Calls and nested blocks take explicit fuel (a `for` does not: it recurses over the slice): [OutOfFuel] when exhausted; a stuck program is [Panic]. *)
From Coq Require Import String.
From SJ Require Import Base.Bytes Base.Utf8.
Open Scope Z_scope.

(* ---- integer types ------------------------------------------------------------------------------ *)
Inductive ity := U8 | Usize.
Definition bits (t : ity) : Z := match t with U8 => 8 | Usize => 64 end.
Definition ity_eqb (a b : ity) : bool := match a, b with U8, U8 | Usize, Usize => true | _, _ => false end.
Definition in_range (t : ity) (z : Z) : bool := (0 <=? z) && (z <? 2 ^ bits t).
Definition wrap (t : ity) (z : Z) : Z := z mod 2 ^ bits t.                 (* `as t` *)

(* ---- values ------------------------------------------------------------------------------------- *)
Inductive xval :=
  | VInt (t : ity) (z : Z)
  | VStr (s : bytes)                               (* &str *)
  | VSlice (s : bytes)                             (* &[u8], [u8; N], &[u8; N] *)
  | VChar (c : N)                                  (* char *)
  | VEnum (variant : string) (args : list xval)    (* a value of `enum CharEscape` *)
  | VUnit.
Inductive xty := TInt (t : ity) | TStr | TSlice | TChar | TEnum.
Definition has_ty (t : xty) (v : xval) : bool :=
  match t, v with
  | TInt a, VInt b _ => ity_eqb a b
  | TStr, VStr _ | TSlice, VSlice _ | TChar, VChar _ | TEnum, VEnum _ _ => true
  | _, _ => false
  end.

(* ---- syntax ------------------------------------------------------------------------------------- *)
Inductive binop := OAdd | OSub | OAnd | OOr.
Inductive expr :=
  | ELit (t : ity) (v : Z)
  | EVar (x : string)
  | EConst (c : string)                            (* a named `const` of the file *)
  | ECast (e : expr) (t : ity)
  | EBin (op : binop) (a b : expr)
  | EShr (e : expr) (k : Z)
  | EIndex (tab : string) (e : expr)               (* TAB[e]: a local array or a static of the file *)
  | ELen (e : expr)                                (* e.len() *)
  | EAsBytes (e : expr)                            (* e.as_bytes() *)
  | ESliceRange (e a b : expr)                     (* &e[a..b] *)
  | ESliceFrom (e a : expr)                        (* &e[a..] *)
  | EBytes (b : bytes)                             (* b".." *)
  | EArray (es : list expr)                        (* &[e, ..] of u8 *)
  | EZeros (n : Z)                                 (* [0; n] : [u8; n] *)
  | EEncodeUtf8 (c buf : expr)                     (* c.encode_utf8(&mut buf) *)
  | ECtor (variant : string) (args : list expr).   (* CharEscape::V / CharEscape::V(e) *)
Inductive cmpop := CLt | CLe | CGt | CGe | CEq | CNe.
Inductive cond := CCmp (op : cmpop) (a b : expr).
Inductive call :=
  | CWriteAll (e : expr)
  | CFn (f : string) (args : list expr)
  | CMapErrIo (c : call).
Inductive rexpr := ROk | RCall (c : call) | RVal (e : expr).
Inductive cpat := PConst (c : string) | PWild.
Inductive stmt :=
  | SLet (x : string) (e : expr)
  | SLetCall (x : string) (f : string) (args : list expr)
  | SStatic (x : string) (b : bytes)
  | SAssign (x : string) (e : expr)
  | STri (c : call)
  | SIf (c : cond) (a b : list stmt)
  | SForEnum (i x : string) (e : expr) (body : list stmt)
  | SContinue
  | SLetMatchEnum (x : string) (scrut : string) (arms : list (string * list string * list stmt * option expr))
  | SMatchConst (scrut : string) (arms : list (cpat * list stmt))
  | SRet (r : rexpr)
  | SUnreachable.

Inductive fkind := FIoResult | FResult | FValue.       (* -> io::Result<()>,  -> Result<()>,  -> a value *)
Record fdef := mkFn { fparams : list (string * xty); fret : fkind; fbody : list stmt }.
Record prog := mkProg {
  pfns : list (string * fdef);
  pconsts : list (string * (ity * Z));                  (* const NAME: T = v; *)
  pstatics : list (string * list expr);                 (* static NAME: [u8; N] = [entry, ..]; *)
  penum : list (string * nat) }.                        (* the variants of CharEscape: name, number of fields *)

(* ---- scoped locals --------------------------------------------------------------------------------- *)
Definition frame := list (string * xval).
Definition locals := list frame.                        (* innermost block first *)
Fixpoint assoc_s {A} (x : string) (l : list (string * A)) : option A :=
  match l with [] => None | (y, v) :: r => if String.eqb x y then Some v else assoc_s x r end.
Fixpoint lookup (x : string) (l : locals) : option xval :=
  match l with [] => None | fr :: r => match assoc_s x fr with Some v => Some v | None => lookup x r end end.
Fixpoint assign_frame (x : string) (v : xval) (fr : frame) : option frame :=
  match fr with
  | [] => None
  | (y, w) :: r => if String.eqb x y then Some ((y, v) :: r)
                   else match assign_frame x v r with Some r' => Some ((y, w) :: r') | None => None end
  end.
Fixpoint assign (x : string) (v : xval) (l : locals) : option locals :=
  match l with
  | [] => None
  | fr :: r => match assign_frame x v fr with
               | Some fr' => Some (fr' :: r)
               | None => match assign x v r with Some r' => Some (fr :: r') | None => None end
               end
  end.
Definition declare (x : string) (v : xval) (l : locals) : locals :=
  match l with fr :: r => ((x, v) :: fr) :: r | [] => [[(x, v)]] end.

(* ---- slices ---------------------------------------------------------------------------------------- *)
Definition len_z (s : bytes) : Z := Z.of_nat (length s).
(* core::str::is_char_boundary *)
Definition char_boundary (s : bytes) (i : Z) : bool :=
  (i =? 0) || (if len_z s <=? i then i =? len_z s
               else let b := nth (Z.to_nat i) s 0%N in (b <? 128)%N || (192 <=? b)%N).
Definition sub_range (s : bytes) (a b : Z) : option bytes :=
  if (0 <=? a) && (a <=? b) && (b <=? len_z s) then Some (firstn (Z.to_nat (b - a)) (skipn (Z.to_nat a) s)) else None.
Definition slice_val (strict : bool) (v : xval) (a b : Z) : res xval :=
  match v with
  | VSlice s => match sub_range s a b with Some r => Ok (VSlice r) | None => Panic end
  | VStr s => if negb strict || (char_boundary s a && char_boundary s b)
              then match sub_range s a b with Some r => Ok (VStr r) | None => Panic end else Panic
  | _ => Panic
  end.
Definition seq_len (v : xval) : option Z :=
  match v with VSlice s | VStr s => Some (len_z s) | _ => None end.

(* ---- expressions ----------------------------------------------------------------------------------- *)
Definition eval_bin (op : binop) (t : ity) (a b : Z) : res xval :=
  match op with
  | OAdd => if in_range t (a + b) then Ok (VInt t (a + b)) else Panic
  | OSub => if in_range t (a - b) then Ok (VInt t (a - b)) else Panic
  | OAnd => Ok (VInt t (Z.land a b))
  | OOr => Ok (VInt t (Z.lor a b))
  end.
Definition index_bytes (s : bytes) (i : Z) : res xval :=
  if (0 <=? i) && (i <? len_z s) then Ok (VInt U8 (Z.of_N (nth (Z.to_nat i) s 0%N))) else Panic.
Definition const_get (P : prog) (c : string) : res xval :=
  match assoc_s c (pconsts P) with Some (t, v) => if in_range t v then Ok (VInt t v) else Panic | None => Panic end.
(* an entry of a static: a const name or a literal *)
Definition entry_val (P : prog) (e : expr) : res xval :=
  match e with
  | EConst c => const_get P c
  | ELit t v => if in_range t v then Ok (VInt t v) else Panic
  | _ => Panic
  end.
Definition static_get (P : prog) (tab : string) (i : Z) : res xval :=
  match assoc_s tab (pstatics P) with
  | None => Panic
  | Some es => if (0 <=? i) && (i <? Z.of_nat (length es))
               then let* v := entry_val P (nth (Z.to_nat i) es (ELit U8 0)) in
                    match v with VInt U8 _ => Ok v | _ => Panic end
               else Panic
  end.
(* the bytes of an array literal *)
Fixpoint bytes_of_vals (vs : list xval) : res bytes :=
  match vs with
  | [] => Ok []
  | VInt U8 z :: r => let* w := bytes_of_vals r in Ok (Z.to_N z :: w)
  | _ => Panic
  end.

Section Eval.
Variable strict : bool.
Variable P : prog.

Fixpoint eval_expr (l : locals) (e : expr) {struct e} : res xval :=
  let eval_list := fix go (es : list expr) : res (list xval) :=
    match es with [] => Ok [] | x :: r => let* v := eval_expr l x in let* vs := go r in Ok (v :: vs) end in
  match e with
  | ELit t v => if in_range t v then Ok (VInt t v) else Panic
  | EVar x => match lookup x l with Some v => Ok v | None => Panic end
  | EConst c => const_get P c
  | ECast e' t => let* v := eval_expr l e' in match v with VInt _ z => Ok (VInt t (wrap t z)) | _ => Panic end
  | EBin op a b =>
    let* va := eval_expr l a in
    let* vb := eval_expr l b in
    match va, vb with
    | VInt ta za, VInt tb zb => if ity_eqb ta tb then eval_bin op ta za zb else Panic
    | _, _ => Panic
    end
  | EShr e' k => let* v := eval_expr l e' in
                 match v with VInt t z => if (0 <=? k) && (k <? bits t) then Ok (VInt t (Z.shiftr z k)) else Panic | _ => Panic end
  | EIndex tab e' =>
    let* v := eval_expr l e' in
    match v with
    | VInt Usize i => match lookup tab l with
                      | Some (VSlice s) => index_bytes s i
                      | Some _ => Panic
                      | None => static_get P tab i
                      end
    | _ => Panic
    end
  | ELen e' => let* v := eval_expr l e' in
               match seq_len v with Some n => if in_range Usize n then Ok (VInt Usize n) else Panic | None => Panic end
  | EAsBytes e' => let* v := eval_expr l e' in match v with VStr s => Ok (VSlice s) | _ => Panic end
  | ESliceRange e' a b =>
    let* v := eval_expr l e' in
    let* va := eval_expr l a in
    let* vb := eval_expr l b in
    match va, vb with VInt Usize za, VInt Usize zb => slice_val strict v za zb | _, _ => Panic end
  | ESliceFrom e' a =>
    let* v := eval_expr l e' in
    let* va := eval_expr l a in
    match va, seq_len v with VInt Usize za, Some n => slice_val strict v za n | _, _ => Panic end
  | EBytes b => Ok (VSlice b)
  | EArray es => let* vs := eval_list es in let* w := bytes_of_vals vs in Ok (VSlice w)
  | EZeros n => if 0 <=? n then Ok (VSlice (repeat 0%N (Z.to_nat n))) else Panic
  | EEncodeUtf8 c buf =>
    let* vc := eval_expr l c in
    let* vb := eval_expr l buf in
    match vc, vb with
    | VChar n, VSlice b => let w := utf8_encode n in if (length w <=? length b)%nat then Ok (VStr w) else Panic
    | _, _ => Panic
    end
  | ECtor variant args =>
    let* vs := eval_list args in
    match assoc_s variant (penum P) with
    | Some n => if Nat.eqb n (length vs) then Ok (VEnum variant vs) else Panic
    | None => Panic
    end
  end.

Fixpoint eval_args (l : locals) (es : list expr) : res (list xval) :=
  match es with [] => Ok [] | e :: r => let* v := eval_expr l e in let* vs := eval_args l r in Ok (v :: vs) end.

Definition cmp_eval (op : cmpop) (a b : Z) : bool :=
  match op with
  | CLt => a <? b | CLe => a <=? b | CGt => b <? a | CGe => b <=? a | CEq => a =? b | CNe => negb (a =? b)
  end.
Definition eval_cond (l : locals) (c : cond) : res bool :=
  match c with
  | CCmp op a b =>
    let* va := eval_expr l a in
    let* vb := eval_expr l b in
    match va, vb with
    | VInt ta za, VInt tb zb => if ity_eqb ta tb then Ok (cmp_eval op za zb) else Panic
    | _, _ => Panic
    end
  end.
End Eval.

(* ---- execution over an abstract writer ----------------------------------------------------------------- *)
Inductive outcome :=
  | OFall (l : locals)             (* the statement / block completed; control goes on *)
  | ORet (v : xval)                (* the function returned v (for a Result-valued function: Ok of v; an Err is the [res]'s Err) *)
  | OCont (l : locals).            (* `continue`: the innermost loop goes to its next element *)

Section Run.
Context {W : Type}.
Variable wall : W -> bytes -> W * res unit.          (* io::Write::write_all on the writer state *)
Variable strict : bool.
Variable P : prog.

Definition M (A : Type) : Type := W -> W * res A.
Definition mret {A} (a : A) : M A := fun w => (w, Ok a).
Definition mlift {A} (r : res A) : M A := fun w => (w, r).
Definition mbind {A B} (m : M A) (k : A -> M B) : M B := fun w =>
  match m w with
  | (w1, Ok a) => k a w1
  | (w1, Err c i) => (w1, Err c i)
  | (w1, OutOfFuel) => (w1, OutOfFuel)
  | (w1, Panic) => (w1, Panic)
  end.
Notation "'let!' x ':=' m 'in' k" := (mbind m (fun x => k)) (at level 200, x pattern, m at level 100, k at level 200, right associativity).

Definition exec_t := stmt -> locals -> M outcome.
Definition call_t := string -> list xval -> M xval.

Fixpoint exec_block (ex : exec_t) (ss : list stmt) (l : locals) : M outcome :=
  match ss with
  | [] => mret (OFall l)
  | x :: r => let! o := ex x l in
              match o with OFall l' => exec_block ex r l' | _ => mret o end
  end.

(* a nested block: its own frame [fr] (pattern bindings, if any), popped when the block is left *)
Definition exec_scope (ex : exec_t) (fr : frame) (ss : list stmt) (l : locals) : M outcome :=
  let! o := exec_block ex ss (fr :: l) in
  match o with
  | OFall l' => mret (OFall (tl l'))
  | ORet v => mret (ORet v)
  | OCont l' => mret (OCont (tl l'))
  end.

Fixpoint bind_params (ps : list (string * xty)) (args : list xval) : option frame :=
  match ps, args with
  | [], [] => Some []
  | (x, t) :: ps', v :: args' =>
    if has_ty t v then match bind_params ps' args' with Some fr => Some ((x, v) :: fr) | None => None end else None
  | _, _ => None
  end.

Definition call_fn (ex : exec_t) : call_t := fun fn args =>
  match assoc_s fn (pfns P) with
  | None => mlift Panic
  | Some d =>
    match bind_params (fparams d) args with
    | None => mlift Panic
    | Some fr =>
      let! o := exec_block ex (fbody d) [fr] in
      match o with ORet v => mret v | _ => mlift Panic end        (* every translated function ends in a value / return *)
    end
  end.

Definition is_io (c : call) : bool :=
  match c with
  | CWriteAll _ => true
  | CFn f _ => match assoc_s f (pfns P) with Some d => match fret d with FIoResult => true | _ => false end | None => false end
  | CMapErrIo _ => false
  end.

(* a Result-valued call *)
Fixpoint eval_call (ex : exec_t) (l : locals) (c : call) : M xval :=
  match c with
  | CWriteAll e =>
    let! v := mlift (eval_expr strict P l e) in
    match v with
    | VSlice b => fun w => let '(w1, r) := wall w b in (w1, rmap (fun _ => VUnit) r)
    | _ => mlift Panic
    end
  | CFn f args =>
    let! vs := mlift (eval_args strict P l args) in
    match assoc_s f (pfns P) with
    | Some d => match fret d with FValue => mlift Panic | _ => call_fn ex f vs end
    | None => mlift Panic
    end
  | CMapErrIo c' => if is_io c' then eval_call ex l c' else mlift Panic
  end.

Definition bind_names (xs : list string) (vs : list xval) : option frame :=
  if Nat.eqb (length xs) (length vs) then Some (combine xs vs) else None.
Fixpoint select_enum (arms : list (string * list string * list stmt * option expr)) (variant : string)
  : option (list string * list stmt * option expr) :=
  match arms with
  | [] => None
  | (v, xs, body, tail) :: r => if String.eqb variant v then Some (xs, body, tail) else select_enum r variant
  end.
Definition cpat_match (p : cpat) (t : ity) (z : Z) : res bool :=
  match p with
  | PWild => Ok true
  | PConst c => let* v := const_get P c in
                match v with VInt t' z' => if ity_eqb t t' then Ok (z =? z') else Panic | _ => Panic end
  end.
Fixpoint select_const (arms : list (cpat * list stmt)) (t : ity) (z : Z) : res (list stmt) :=
  match arms with
  | [] => Panic
  | (p, body) :: r => let* m := cpat_match p t z in if m then Ok body else select_const r t z
  end.

(* `for (i, &x) in bs.iter().enumerate() { body }` from index k on *)
Fixpoint for_loop (ex : exec_t) (i x : string) (body : list stmt) (bs : bytes) (k : Z) (l : locals) : M outcome :=
  match bs with
  | [] => mret (OFall l)
  | b :: r =>
    let! o := exec_scope ex [(i, VInt Usize k); (x, VInt U8 (Z.of_N b))] body l in
    match o with
    | OFall l' | OCont l' => for_loop ex i x body r (k + 1) l'
    | ORet v => mret (ORet v)
    end
  end.

Fixpoint exec (fuel : nat) (x : stmt) (l : locals) {struct fuel} : M outcome :=
  match fuel with
  | O => mlift OutOfFuel
  | S f =>
    match x with
    | SLet v e => let! w := mlift (eval_expr strict P l e) in mret (OFall (declare v w l))
    | SLetCall v fn args =>
      let! vs := mlift (eval_args strict P l args) in
      match assoc_s fn (pfns P) with
      | Some d => match fret d with
                  | FValue => let! w := call_fn (exec f) fn vs in mret (OFall (declare v w l))
                  | _ => mlift Panic
                  end
      | None => mlift Panic
      end
    | SStatic v b => mret (OFall (declare v (VSlice b) l))
    | SAssign v e =>
      let! w := mlift (eval_expr strict P l e) in
      match lookup v l with
      | Some old =>
        match old, w with
        | VInt t _, VInt t' _ => if ity_eqb t t' then match assign v w l with Some l' => mret (OFall l') | None => mlift Panic end
                                 else mlift Panic
        | _, _ => mlift Panic
        end
      | None => mlift Panic
      end
    | STri c => let! _ := eval_call (exec f) l c in mret (OFall l)
    | SIf c a b =>
      let! t := mlift (eval_cond strict P l c) in
      if t then exec_scope (exec f) [] a l else exec_scope (exec f) [] b l
    | SForEnum i v e body =>
      let! s := mlift (eval_expr strict P l e) in
      match s with
      | VSlice bs => if in_range Usize (len_z bs) then for_loop (exec f) i v body bs 0 l else mlift Panic
      | _ => mlift Panic
      end
    | SContinue => mret (OCont l)
    | SLetMatchEnum v scrut arms =>
      match lookup scrut l with
      | Some (VEnum variant args) =>
        match select_enum arms variant with
        | Some (xs, body, tail) =>
          match bind_names xs args with
          | Some fr =>
            let! o := exec_block (exec f) body (fr :: l) in
            match o, tail with
            | OFall l', Some e => let! w := mlift (eval_expr strict P l' e) in mret (OFall (declare v w (tl l')))
            | OFall _, None => mlift Panic
            | ORet r, _ => mret (ORet r)
            | OCont l', _ => mret (OCont (tl l'))
            end
          | None => mlift Panic
          end
        | None => mlift Panic
        end
      | _ => mlift Panic
      end
    | SMatchConst scrut arms =>
      match lookup scrut l with
      | Some (VInt t z) => let! body := mlift (select_const arms t z) in exec_scope (exec f) [] body l
      | _ => mlift Panic
      end
    | SRet r =>
      match r with
      | ROk => mret (ORet VUnit)
      | RCall c => let! v := eval_call (exec f) l c in mret (ORet v)
      | RVal e => let! v := mlift (eval_expr strict P l e) in mret (ORet v)
      end
    | SUnreachable => mlift Panic
    end
  end.

(* calling function [fn] of the program with arguments [args] against writer state [w] *)
Definition run_esc (fuel : nat) (fn : string) (args : list xval) (w : W) : W * res xval :=
  call_fn (exec fuel) fn args w.
End Run.
