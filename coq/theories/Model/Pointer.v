(* Model/Pointer.v — serde_json::Value lookups, function for function:
     src/value/mod.rs      parse_index, Value::pointer, Value::pointer_mut, Value::take, Value::get, Value::get_mut,
                           as_i64 / as_u64 / as_f64 / as_bool / as_str
     src/value/index.rs    Index for usize / str / String (index_into, index_into_mut, index_or_insert), ops::Index, ops::IndexMut
     src/value/partial_eq.rs  eq_i64 eq_u64 eq_f32 eq_f64 eq_bool eq_str and the partialeq_numeric! instances
     src/number.rs         Number::as_i64 / as_u64 / as_f64 / as_f32   (default build: N::PosInt(u64) | NegInt(i64) | Float(f64))
   plus the pieces of std the code relies on: str::replace, str::split, <usize as FromStr>::from_str, slice::get,
   Map::get / Map::entry().or_insert(), `as` conversions between integer and float types.
   A &mut Value obtained by a lookup is modelled by the PATH of the addressed node (child positions from the root:
   array index / position of the entry in iteration order), so that "which node is addressed" is a first-class result.
   Definitions only. *)
From SJ Require Import Base.Bytes Base.FloatB Model.Value.
From Flocq Require Import Core BinarySingleNaN.
Open Scope N_scope.

(* ---- std::str::replace(from, to), from <> "" : left-to-right, non-overlapping matches ------------------- *)
Fixpoint is_prefix (p s : bytes) : bool :=
  match p, s with
  | [], _ => true
  | a :: p', b :: s' => (a =? b) && is_prefix p' s'
  | _ :: _, [] => false
  end.

(* [skip] = number of bytes of the current match still to be dropped *)
Fixpoint replace_go (from to : bytes) (skip : nat) (s : bytes) : bytes :=
  match s with
  | [] => []
  | c :: s' =>
    match skip with
    | S k => replace_go from to k s'
    | O => if is_prefix from s then to ++ replace_go from to (length from - 1) s'
           else c :: replace_go from to 0 s'
    end
  end.
Definition replace (from to s : bytes) : bytes := replace_go from to 0 s.

Definition c_tilde : N := 126.
Definition pat_t1 : bytes := [126; 49].   (* "~1" *)
Definition pat_t0 : bytes := [126; 48].   (* "~0" *)

(* |x| x.replace("~1", "/").replace("~0", "~") *)
Definition unescape_token (x : bytes) : bytes := replace pat_t0 [126] (replace pat_t1 [47] x).

(* ---- str::split(c): always at least one piece ---------------------------------------------------------- *)
Fixpoint split (sep : N) (s : bytes) : list bytes :=
  match s with
  | [] => [[]]
  | c :: r =>
    if c =? sep then [] :: split sep r
    else match split sep r with
         | t :: ts => (c :: t) :: ts
         | [] => [[c]]
         end
  end.

(* ---- <usize as FromStr>::from_str (64-bit target): optional single leading '+', then >= 1 ASCII digits, no overflow *)
Definition usize_max : N := u64_max.
Fixpoint digits_value (s : bytes) (acc : N) : option N :=
  match s with
  | [] => Some acc
  | c :: r => if is_digit c then
                let acc' := acc * 10 + digit_val c in
                if acc' <=? usize_max then digits_value r acc' else None     (* checked_mul / checked_add *)
              else None
  end.
Definition usize_from_str (s : bytes) : option N :=
  let d := match s with
           | c :: r => if c =? 43 then r else s          (* [b'+', rest @ ..] => rest *)
           | [] => s
           end in
  match d with
  | [] => None                      (* "" , "+" *)
  | _ :: _ => digits_value d 0
  end.

(* fn parse_index(s: &str) -> Option<usize> *)
Definition parse_index (s : bytes) : option N :=
  match s with
  | [] => usize_from_str s
  | c :: r =>
    if c =? 43 then None                                     (* s.starts_with('+') *)
    else if (c =? 48) && negb (match r with [] => true | _ => false end) then None   (* s.starts_with('0') && s.len() != 1 *)
    else usize_from_str s
  end.

(* ---- slice::get(i) for a usize i (no detour through unary numbers: indices go up to 2^64-1) ------------- *)
Fixpoint get_N {A} (l : list A) (i : N) : option A :=
  match l with
  | [] => None
  | x :: r => if i =? 0 then Some x else get_N r (i - 1)
  end.
Definition in_bounds {A} (i : N) (l : list A) : bool := i <? N.of_nat (length l).

(* ---- Map::get (keys of a Map are unique; first match on the entry list) ------------------------------------ *)
Fixpoint assoc_get (k : bytes) (m : list (bytes * value)) : option value :=
  match m with
  | [] => None
  | (k', v) :: m' => if beq_bytes k k' then Some v else assoc_get k m'
  end.
Fixpoint assoc_pos (k : bytes) (m : list (bytes * value)) : option nat :=
  match m with
  | [] => None
  | (k', _) :: m' => if beq_bytes k k' then Some O else option_map S (assoc_pos k m')
  end.

(* ---- Value::pointer ------------------------------------------------------------------------------------------ *)
(* the try_fold closure *)
Definition ptr_step (target : value) (token : bytes) : option value :=
  match target with
  | VObj m => assoc_get token m
  | VArr l => match parse_index token with
              | Some x => get_N l x
              | None => None
              end
  | _ => None
  end.
Fixpoint try_fold (target : value) (tokens : list bytes) : option value :=
  match tokens with
  | [] => Some target
  | t :: ts => match ptr_step target t with
               | Some v => try_fold v ts
               | None => None
               end
  end.
Definition ptr_tokens (p : bytes) : list bytes := map unescape_token (skipn 1 (split 47 p)).
Definition pointer (v : value) (p : bytes) : option value :=
  match p with
  | [] => Some v                                              (* pointer.is_empty() *)
  | c :: _ => if c =? 47 then try_fold v (ptr_tokens p)
              else None                                       (* !pointer.starts_with('/') *)
  end.

(* ---- paths: the model of `&mut Value` into a tree -------------------------------------------------------------- *)
Definition child (v : value) (i : nat) : option value :=
  match v with
  | VArr l => nth_error l i
  | VObj m => option_map snd (nth_error m i)
  | _ => None
  end.
Fixpoint node_at (v : value) (path : list nat) : option value :=
  match path with
  | [] => Some v
  | i :: r => match child v i with Some c => node_at c r | None => None end
  end.
Fixpoint upd_nth {A} (l : list A) (i : nat) (f : A -> A) : list A :=
  match l, i with
  | [], _ => []
  | x :: r, O => f x :: r
  | x :: r, S j => x :: upd_nth r j f
  end.
(* `*r = new` for the reference r denoted by [path] *)
Fixpoint write_at (path : list nat) (new : value) (v : value) {struct path} : value :=
  match path with
  | [] => new
  | i :: r =>
    match v with
    | VArr l => VArr (upd_nth l i (write_at r new))
    | VObj m => VObj (upd_nth m i (fun kv => (fst kv, write_at r new (snd kv))))
    | _ => v
    end
  end.

(* ---- Value::pointer_mut : same walk with get_mut; result = path of the addressed node ------------------------ *)
Definition ptr_step_mut (target : value) (token : bytes) : option nat :=
  match target with
  | VObj m => assoc_pos token m
  | VArr l => match parse_index token with
              | Some x => if in_bounds x l then Some (N.to_nat x) else None
              | None => None
              end
  | _ => None
  end.
Fixpoint try_fold_mut (target : value) (tokens : list bytes) : option (list nat) :=
  match tokens with
  | [] => Some []
  | t :: ts => match ptr_step_mut target t with
               | Some i => match child target i with
                           | Some c => option_map (cons i) (try_fold_mut c ts)
                           | None => None
                           end
               | None => None
               end
  end.
Definition pointer_mut (v : value) (p : bytes) : option (list nat) :=
  match p with
  | [] => Some []
  | c :: _ => if c =? 47 then try_fold_mut v (ptr_tokens p) else None
  end.

(* ---- Value::take : mem::replace(self, Value::Null) → (returned value, new *self) ---------------------------- *)
Definition take (v : value) : value * value := (v, VNull).
(* take through a reference: (returned value, whole tree afterwards) *)
Definition take_at (root : value) (path : list nat) : option (value * value) :=
  match node_at root path with
  | Some n => Some (fst (take n), write_at path (snd (take n)) root)
  | None => None
  end.

(* ---- Index for usize / str (String and &T delegate) ------------------------------------------------------------- *)
Definition index_into_usize (i : N) (v : value) : option value :=
  match v with VArr l => get_N l i | _ => None end.
Definition index_into_str (k : bytes) (v : value) : option value :=
  match v with VObj m => assoc_get k m | _ => None end.
Definition index_into_mut_usize (i : N) (v : value) : option nat :=
  match v with VArr l => if in_bounds i l then Some (N.to_nat i) else None | _ => None end.
Definition index_into_mut_str (k : bytes) (v : value) : option nat :=
  match v with VObj m => assoc_pos k m | _ => None end.

(* Value::get / get_mut *)
Definition get_usize (v : value) (i : N) := index_into_usize i v.
Definition get_str (v : value) (k : bytes) := index_into_str k v.
Definition get_mut_usize (v : value) (i : N) := index_into_mut_usize i v.
Definition get_mut_str (v : value) (k : bytes) := index_into_mut_str k v.

(* ops::Index : index.index_into(self).unwrap_or(&NULL) *)
Definition index_usize (v : value) (i : N) : value :=
  match index_into_usize i v with Some x => x | None => VNull end.
Definition index_str (v : value) (k : bytes) : value :=
  match index_into_str k v with Some x => x | None => VNull end.

(* ops::IndexMut = index_or_insert: result = (new *self, position of the addressed child); Panic = panic!() *)
Definition index_or_insert_usize (i : N) (v : value) : res (value * nat) :=
  match v with
  | VArr l => if in_bounds i l then Ok (v, N.to_nat i) else Panic
  | _ => Panic
  end.
Definition index_or_insert_str (preserve : bool) (k : bytes) (v : value) : res (value * nat) :=
  let v1 := match v with VNull => VObj [] | _ => v end in        (* if let Value::Null = v { *v = Object(Map::new()) } *)
  match v1 with
  | VObj m =>
    match assoc_pos k m with
    | Some i => Ok (v1, i)                                          (* entry occupied *)
    | None => let m' := map_insert preserve k VNull m in            (* vacant: or_insert(Value::Null) *)
              match assoc_pos k m' with
              | Some i => Ok (VObj m', i)
              | None => Panic                                       (* unreachable *)
              end
    end
  | _ => Panic
  end.

(* ---- Number accessors (default build) -------------------------------------------------------------------------- *)
Definition i64_max : N := 9223372036854775807.
Definition b32_of_Z (z : Z) : b32 := binary_normalize 24 128 _ _ mode_NE z 0 false.

Definition num_as_i64 (n : num) : option Z :=
  match n with
  | NPos n => if n <=? i64_max then Some (Z.of_N n) else None
  | NNeg z => Some z
  | NFloat _ => None
  | NLit _ => None            (* arbitrary_precision only: outside this model *)
  end.
Definition num_as_u64 (n : num) : option N :=
  match n with
  | NPos n => Some n
  | _ => None
  end.
Definition num_as_f64 (n : num) : option b64 :=
  match n with
  | NPos n => Some (b64_of_Z (Z.of_N n))       (* n as f64 *)
  | NNeg z => Some (b64_of_Z z)
  | NFloat f => Some f
  | NLit _ => None
  end.
Definition num_as_f32 (n : num) : option b32 :=
  match n with
  | NPos n => Some (b32_of_Z (Z.of_N n))       (* n as f32 : one rounding *)
  | NNeg z => Some (b32_of_Z z)
  | NFloat f => Some (b32_of_b64 f)            (* f64 as f32 : round to nearest, overflow to infinity *)
  | NLit _ => None
  end.

Definition as_i64 (v : value) : option Z := match v with VNum n => num_as_i64 n | _ => None end.
Definition as_u64 (v : value) : option N := match v with VNum n => num_as_u64 n | _ => None end.
Definition as_f64 (v : value) : option b64 := match v with VNum n => num_as_f64 n | _ => None end.
Definition as_bool (v : value) : option bool := match v with VBool b => Some b | _ => None end.
Definition as_str (v : value) : option bytes := match v with VStr s => Some s | _ => None end.

(* ---- partial_eq.rs --------------------------------------------------------------------------------------------- *)
(* Option<T> == Some(other) with T's own ==  (IEEE == for floats: NaN unequal to everything, -0.0 == 0.0) *)
Definition eq_i64 (v : value) (other : Z) : bool :=
  match as_i64 v with Some x => (x =? other)%Z | None => false end.
Definition eq_u64 (v : value) (other : N) : bool :=
  match as_u64 v with Some x => x =? other | None => false end.
Definition eq_f32 (v : value) (other : b32) : bool :=
  match v with
  | VNum n => match num_as_f32 n with Some x => Beqb x other | None => false end
  | _ => false
  end.
Definition eq_f64 (v : value) (other : b64) : bool :=
  match as_f64 v with Some x => Beqb x other | None => false end.
Definition eq_bool (v : value) (other : bool) : bool :=
  match as_bool v with Some x => Bool.eqb x other | None => false end.
Definition eq_str (v : value) (other : bytes) : bool :=
  match as_str v with Some x => beq_bytes x other | None => false end.

(* partialeq_numeric!: `$eq(self, *other as _)`; the comparand is a mathematical integer in the range of its type,
   `as i64` / `as u64` from a narrower or equally wide type of the same signedness is the identity on values *)
Inductive ity := I8 | I16 | I32 | I64 | Isize | U8 | U16 | U32 | U64 | Usize.
Definition ity_signed (t : ity) : bool :=
  match t with I8 | I16 | I32 | I64 | Isize => true | _ => false end.
Definition ity_min (t : ity) : Z :=
  match t with
  | I8 => -128 | I16 => -32768 | I32 => -2147483648 | I64 | Isize => -9223372036854775808
  | _ => 0
  end%Z.
Definition ity_max (t : ity) : Z :=
  match t with
  | I8 => 127 | I16 => 32767 | I32 => 2147483647 | I64 | Isize => 9223372036854775807
  | U8 => 255 | U16 => 65535 | U32 => 4294967295 | U64 | Usize => 18446744073709551615
  end%Z.
Definition ity_in_range (t : ity) (z : Z) : bool := ((ity_min t <=? z) && (z <=? ity_max t))%Z.
Definition eq_int (t : ity) (v : value) (other : Z) : bool :=
  if ity_signed t then eq_i64 v other else eq_u64 v (Z.to_N other).

(* ---- bit patterns → floats (for the line protocol) ---------------------------------------------------------------- *)
Definition b64_of_bits (x : N) : b64 :=
  let s := 9223372036854775808 <=? x in
  let e := (x / 4503599627370496) mod 2048 in
  let m := x mod 4503599627370496 in
  if e =? 0 then
    if m =? 0 then B754_zero s
    else binary_normalize 53 1024 _ _ mode_NE (if s then - Z.of_N m else Z.of_N m)%Z (-1074) s
  else if e =? 2047 then (if m =? 0 then B754_infinity s else B754_nan)
  else binary_normalize 53 1024 _ _ mode_NE
         (if s then - Z.of_N (m + 4503599627370496) else Z.of_N (m + 4503599627370496))%Z (Z.of_N e - 1075)%Z s.
Definition b32_of_bits (x : N) : b32 :=
  let s := 2147483648 <=? x in
  let e := (x / 8388608) mod 256 in
  let m := x mod 8388608 in
  if e =? 0 then
    if m =? 0 then B754_zero s
    else binary_normalize 24 128 _ _ mode_NE (if s then - Z.of_N m else Z.of_N m)%Z (-149) s
  else if e =? 255 then (if m =? 0 then B754_infinity s else B754_nan)
  else binary_normalize 24 128 _ _ mode_NE
         (if s then - Z.of_N (m + 8388608) else Z.of_N (m + 8388608))%Z (Z.of_N e - 150)%Z s.
