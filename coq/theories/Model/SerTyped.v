(* Model/SerTyped.v — the universal `Serialize` of the typed harness (harness/src/bin/sjh_typed.rs, `impl Serialize for Ser`
   and `impl Serialize for KSer`, op `rt`) as a function from typed data to trees of Serializer calls (Model/Sval.v):
   each [dval] constructor, read at its [ty], issues the serde call of that type (struct -> serialize_struct, the four
   variant calls, map -> serialize_map(Some(len)), tuple -> serialize_tuple(len), Option -> serialize_some / serialize_none,
   newtype -> serialize_newtype_struct, unit struct -> serialize_unit_struct, ByteBuf -> serialize_bytes ...).
   [None] = the Rust impl returns `Err(bad(..))`: the data does not have the type (shape, integer range, str/char validity,
   tuple / struct arity, unknown variant name).  TValue and TRaw targets are not modelled here (None).

   Definitions only.  Also:
     [has_type]        structural typing judgement (implied by "sval_of_dval is Some": TypedRoundtripTxt.sval_has_type; on the universe
                       equivalent to it: has_type_sval)
     [in_universe]     the types of property C04 (key types: string / integer / bool / char and newtype wrappers of those;
                       struct field names distinct; names valid UTF-8)
     [roundtrip_safe]  the exclusions named in property C04: no `Some(x)` with x printed as `null`; &str data escape-free
     [str_safe], [norm] the same without the Option clause, and the data as it reads back then (`Some(null)` -> `None`)
     [nest]            container nesting as the deserializer's recursion budget sees it
     [float_leaves]    the f32 / f64 values of the data with the width they are read at;  [no_float] types without floats *)
From SJ Require Import Base.Bytes Base.Utf8 Base.FloatB Gen.Tables Model.Read Model.Num Model.Sval Model.Ser Model.ValueSer
  Model.Lex Model.Ty Model.DeTyped Spec.Denote.
Open Scope N_scope.

(* ---- small generic combinators (second list is the structural one: it is the data) ------------------------------- *)
Definition zipw {A B C} (f : A -> B -> C) : list A -> list B -> list C :=
  fix go (la : list A) (lb : list B) {struct lb} : list C :=
    match lb, la with
    | b :: lb', a :: la' => f a b :: go la' lb'
    | _, _ => []
    end.
Definition andl (l : list bool) : bool := forallb (fun b => b) l.

(* the integer type names of Model/Ty.v and Model/Sval.v *)
Definition sint (t : Ty.intty) : Sval.intty :=
  match t with
  | Ty.I8 => Sval.I8 | Ty.I16 => Sval.I16 | Ty.I32 => Sval.I32 | Ty.I64 => Sval.I64 | Ty.I128 => Sval.I128
  | Ty.U8 => Sval.U8 | Ty.U16 => Sval.U16 | Ty.U32 => Sval.U32 | Ty.U64 => Sval.U64 | Ty.U128 => Sval.U128
  end.

(* `f64::from_bits(b) as f32` as a bit pattern *)
Definition f32_bits_of_f64_bits (b : N) : N := bits_of_b32 (b32_of_b64 (f64_of_bits b)).
Definition is_u64 (b : N) : bool := b <? 18446744073709551616.

Definition name_index (n : bytes) (names : list bytes) : option nat :=
  match index_of n (map (fun x => (x, tt)) names) with Some (i, _) => Some i | None => None end.

(* ---- impl Serialize for KSer ---------------------------------------------------------------------------------------- *)
Fixpoint sval_of_key (k : kty) (d : dval) {struct k} : option sval :=
  match k, d with
  | KStr, DStr s _ => if utf8_valid s then Some (SStr s) else None
  | KInt it, DInt z => if in_range it z then Some (SInt (sint it) z) else None
  | KBool, DBool b => Some (SBool b)
  | KChar, DChar c => if is_scalar c then Some (SChar c) else None
  | KF32, DFloat b => if is_u64 b then Some (SF32 (f32_bits_of_f64_bits b)) else None
  | KF64, DFloat b => if is_u64 b then Some (SF64 b) else None
  | KOption _, DNone => Some SNone
  | KOption k1, DSome d1 => option_map SSome (sval_of_key k1 d1)
  | KNewtype k1, DNewtype d1 => option_map SNewtypeStruct (sval_of_key k1 d1)
  | KUnitEnum names, DVariant n _ => match name_index n names with Some _ => Some (SUnitVariant n) | None => None end
  | _, _ => None
  end.

(* ---- impl Serialize for Ser ------------------------------------------------------------------------------------------ *)
Definition mk_fields (fs : list (bytes * ty)) (svs : list sval) : list (bytes * sval) :=
  zipw (fun (f : bytes * ty) (sv : sval) => (fst f, sv)) fs svs.

Fixpoint sval_of_dval (t : ty) (d : dval) {struct d} : option sval :=
  match t, d with
  | TIgnored, _ => Some SUnit
  | TBool, DBool b => Some (SBool b)
  | TInt it, DInt z => if in_range it z then Some (SInt (sint it) z) else None
  | TF32, DFloat b => if is_u64 b then Some (SF32 (f32_bits_of_f64_bits b)) else None
  | TF64, DFloat b => if is_u64 b then Some (SF64 b) else None
  | TChar, DChar c => if is_scalar c then Some (SChar c) else None
  | TStr, DStr s _ | TBorrowedStr, DStr s _ => if utf8_valid s then Some (SStr s) else None
  | TBytes, DBytes b => if forallb (fun x => x <? 256) b then Some (SBytes b) else None
  | TUnit, DUnit => Some SUnit
  | TUnitStruct, DUnit => Some SUnitStruct
  | TOption _, DNone => Some SNone
  | TOption t1, DSome d1 => option_map SSome (sval_of_dval t1 d1)
  | TNewtype t1, DNewtype d1 => option_map SNewtypeStruct (sval_of_dval t1 d1)
  | TSeq t1, DSeq l => option_map (SSeq (Some (length l))) (sequence (map (fun x => sval_of_dval t1 x) l))
  | TTuple ts, DSeq l =>
    if Nat.eqb (length ts) (length l) then option_map STuple (sequence (zipw (fun t0 x => sval_of_dval t0 x) ts l)) else None
  | TTupleStruct ts, DSeq l =>
    if Nat.eqb (length ts) (length l) then option_map STupleStruct (sequence (zipw (fun t0 x => sval_of_dval t0 x) ts l)) else None
  | TMap k v, DMap l =>
    option_map (SMap (Some (length l)))
      (sequence (map (fun kv : dval * dval =>
                        let '(kd, vd) := kv in
                        match sval_of_key k kd, sval_of_dval v vd with
                        | Some a, Some b => Some (a, b)
                        | _, _ => None
                        end) l))
  | TStruct fs, DStruct l =>
    if Nat.eqb (length fs) (length l)
    then option_map (fun svs => SStruct (mk_fields fs svs)) (sequence (zipw (fun f x => sval_of_dval (snd f) x) fs l))
    else None
  | TEnum vs, DVariant n p =>
    match index_of n vs with
    | Some (_, VUnit) => match p with DUnit => Some (SUnitVariant n) | _ => None end
    | Some (_, VNewtype t1) => option_map (SNewtypeVariant n) (sval_of_dval t1 p)
    | Some (_, VTuple ts) =>
      match p with
      | DSeq l =>
        if Nat.eqb (length ts) (length l) then option_map (STupleVariant n) (sequence (zipw (fun t0 x => sval_of_dval t0 x) ts l)) else None
      | _ => None
      end
    | Some (_, VStruct fs) =>
      match p with
      | DStruct l =>
        if Nat.eqb (length fs) (length l)
        then option_map (fun svs => SStructVariant n (mk_fields fs svs)) (sequence (zipw (fun f x => sval_of_dval (snd f) x) fs l))
        else None
      | _ => None
      end
    | None => None
    end
  | _, _ => None
  end.

(* ---- typing judgement (structural) ---------------------------------------------------------------------------------- *)
Fixpoint key_has_type (k : kty) (d : dval) {struct k} : bool :=
  match k, d with
  | KStr, DStr s _ => utf8_valid s
  | KInt it, DInt z => in_range it z
  | KBool, DBool _ => true
  | KChar, DChar c => is_scalar c
  | KF32, DFloat b | KF64, DFloat b => is_u64 b
  | KOption _, DNone => true
  | KOption k1, DSome d1 => key_has_type k1 d1
  | KNewtype k1, DNewtype d1 => key_has_type k1 d1
  | KUnitEnum names, DVariant n _ => match name_index n names with Some _ => true | None => false end
  | _, _ => false
  end.

Fixpoint has_type (t : ty) (d : dval) {struct d} : bool :=
  match t, d with
  | TIgnored, _ => true
  | TBool, DBool _ => true
  | TInt it, DInt z => in_range it z
  | TF32, DFloat b | TF64, DFloat b => is_u64 b
  | TChar, DChar c => is_scalar c
  | TStr, DStr s _ | TBorrowedStr, DStr s _ => utf8_valid s
  | TBytes, DBytes b => forallb (fun x => x <? 256) b
  | TUnit, DUnit | TUnitStruct, DUnit => true
  | TOption _, DNone => true
  | TOption t1, DSome d1 => has_type t1 d1
  | TNewtype t1, DNewtype d1 => has_type t1 d1
  | TSeq t1, DSeq l => forallb (fun x => has_type t1 x) l
  | TTuple ts, DSeq l | TTupleStruct ts, DSeq l => Nat.eqb (length ts) (length l) && andl (zipw (fun t0 x => has_type t0 x) ts l)
  | TMap k v, DMap l => forallb (fun kv : dval * dval => let '(kd, vd) := kv in key_has_type k kd && has_type v vd) l
  | TStruct fs, DStruct l => Nat.eqb (length fs) (length l) && andl (zipw (fun f x => has_type (snd f) x) fs l)
  | TEnum vs, DVariant n p =>
    match index_of n vs with
    | Some (_, VUnit) => match p with DUnit => true | _ => false end
    | Some (_, VNewtype t1) => has_type t1 p
    | Some (_, VTuple ts) =>
      match p with DSeq l => Nat.eqb (length ts) (length l) && andl (zipw (fun t0 x => has_type t0 x) ts l) | _ => false end
    | Some (_, VStruct fs) =>
      match p with
      | DStruct l => Nat.eqb (length fs) (length l) && andl (zipw (fun f x => has_type (snd f) x) fs l)
      | _ => false
      end
    | None => false
    end
  | _, _ => false
  end.

(* ---- what property C04 excludes ---------------------------------------------------------------------------------------- *)
(* the data is printed as `null` *)
Fixpoint prints_null (t : ty) (d : dval) {struct d} : bool :=
  match t, d with
  | TUnit, DUnit | TUnitStruct, DUnit => true
  | TIgnored, _ => true
  | TOption _, DNone => true
  | TOption t1, DSome d1 => prints_null t1 d1
  | TNewtype t1, DNewtype d1 => prints_null t1 d1
  | TF32, DFloat b => negb (f32_finite_bits (f32_bits_of_f64_bits b))
  | TF64, DFloat b => negb (f64_finite_bits b)
  | _, _ => false
  end.

Definition no_escape (s : bytes) : bool := forallb (fun b => negb ((b =? 34) || (b =? 92) || (b <? 32))) s.

(* [Some x] with x printed as null reads back as None; a &str target (deserialize_str with a borrowed-only visitor)
   only accepts text without escapes *)
Fixpoint roundtrip_safe (t : ty) (d : dval) {struct d} : bool :=
  match t, d with
  | TOption t1, DSome d1 => negb (prints_null t1 d1) && roundtrip_safe t1 d1
  | TBorrowedStr, DStr s _ => no_escape s
  | TNewtype t1, DNewtype d1 => roundtrip_safe t1 d1
  | TSeq t1, DSeq l => forallb (fun x => roundtrip_safe t1 x) l
  | TTuple ts, DSeq l | TTupleStruct ts, DSeq l => andl (zipw (fun t0 x => roundtrip_safe t0 x) ts l)
  | TMap k v, DMap l => forallb (fun kv : dval * dval => let '(_, vd) := kv in roundtrip_safe v vd) l
  | TStruct fs, DStruct l => andl (zipw (fun f x => roundtrip_safe (snd f) x) fs l)
  | TEnum vs, DVariant n p =>
    match index_of n vs with
    | Some (_, VNewtype t1) => roundtrip_safe t1 p
    | Some (_, VTuple ts) => match p with DSeq l => andl (zipw (fun t0 x => roundtrip_safe t0 x) ts l) | _ => true end
    | Some (_, VStruct fs) => match p with DStruct l => andl (zipw (fun f x => roundtrip_safe (snd f) x) fs l) | _ => true end
    | _ => true
    end
  | _, _ => true
  end.

(* ---- the universe of property C04 ------------------------------------------------------------------------------------ *)
(* map keys: string / integer / bool / char, and newtype wrappers of those *)
Fixpoint key_in_universe (k : kty) : bool :=
  match k with
  | KStr | KInt _ | KBool | KChar => true
  | KNewtype k1 => key_in_universe k1
  | _ => false
  end.

Fixpoint nodupb (l : list bytes) : bool :=
  match l with
  | [] => true
  | x :: r => negb (existsb (beq_bytes x) r) && nodupb r
  end.

(* names are Rust `&'static str`: valid UTF-8; the fields of one struct have distinct names *)
Definition fields_ok (in_universe : ty -> bool) (fs : list (bytes * ty)) : bool :=
  nodupb (map fst fs) && forallb (fun f => utf8_valid (fst f) && in_universe (snd f)) fs.

Fixpoint in_universe (t : ty) : bool :=
  match t with
  | TBool | TInt _ | TF32 | TF64 | TChar | TStr | TBorrowedStr | TUnit | TUnitStruct => true
  | TOption t1 | TNewtype t1 | TSeq t1 => in_universe t1
  | TTuple ts | TTupleStruct ts => forallb in_universe ts
  | TMap k v => key_in_universe k && in_universe v
  | TStruct fs => fields_ok in_universe fs
  | TEnum vs =>
    forallb (fun p => utf8_valid (fst p) &&
                      match snd p with
                      | VUnit => true
                      | VNewtype t1 => in_universe t1
                      | VTuple ts => forallb in_universe ts
                      | VStruct fs => fields_ok in_universe fs
                      end) vs
  | TValue | TIgnored | TRaw | TBytes => false
  end.

(* ---- nesting as seen by check_recursion! (every `[` / `{` the typed deserializer enters) ----------------------------- *)
Definition maxl (l : list nat) : nat := fold_right Nat.max O l.

Fixpoint nest (t : ty) (d : dval) {struct d} : nat :=
  match t, d with
  | TOption t1, DSome d1 => nest t1 d1
  | TNewtype t1, DNewtype d1 => nest t1 d1
  | TSeq t1, DSeq l => S (maxl (map (fun x => nest t1 x) l))
  | TTuple ts, DSeq l | TTupleStruct ts, DSeq l => S (maxl (zipw (fun t0 x => nest t0 x) ts l))
  | TMap k v, DMap l => S (maxl (map (fun kv : dval * dval => let '(_, vd) := kv in nest v vd) l))
  | TStruct fs, DStruct l => S (maxl (zipw (fun f x => nest (snd f) x) fs l))
  | TEnum vs, DVariant n p =>
    match index_of n vs with
    | Some (_, VNewtype t1) => S (nest t1 p)
    | Some (_, VTuple ts) => match p with DSeq l => S (S (maxl (zipw (fun t0 x => nest t0 x) ts l))) | _ => O end
    | Some (_, VStruct fs) => match p with DStruct l => S (S (maxl (zipw (fun f x => nest (snd f) x) fs l))) | _ => O end
    | _ => O
    end
  | _, _ => O
  end.

(* ---- the floats in the data, with the width they are read at (true = f32) --------------------------------------------- *)
Fixpoint float_leaves (t : ty) (d : dval) {struct d} : list (bool * N) :=
  match t, d with
  | TF32, DFloat b => [(true, b)]
  | TF64, DFloat b => [(false, b)]
  | TOption t1, DSome d1 => float_leaves t1 d1
  | TNewtype t1, DNewtype d1 => float_leaves t1 d1
  | TSeq t1, DSeq l => concat (map (fun x => float_leaves t1 x) l)
  | TTuple ts, DSeq l | TTupleStruct ts, DSeq l => concat (zipw (fun t0 x => float_leaves t0 x) ts l)
  | TMap k v, DMap l => concat (map (fun kv : dval * dval => let '(_, vd) := kv in float_leaves v vd) l)
  | TStruct fs, DStruct l => concat (zipw (fun f x => float_leaves (snd f) x) fs l)
  | TEnum vs, DVariant n p =>
    match index_of n vs with
    | Some (_, VNewtype t1) => float_leaves t1 p
    | Some (_, VTuple ts) => match p with DSeq l => concat (zipw (fun t0 x => float_leaves t0 x) ts l) | _ => [] end
    | Some (_, VStruct fs) => match p with DStruct l => concat (zipw (fun f x => float_leaves (snd f) x) fs l) | _ => [] end
    | _ => []
    end
  | _, _ => []
  end.

(* the type program mentions neither f32 nor f64 (map keys of the universe never do) *)
Fixpoint no_float (t : ty) : bool :=
  match t with
  | TF32 | TF64 => false
  | TOption t1 | TNewtype t1 | TSeq t1 => no_float t1
  | TTuple ts | TTupleStruct ts => forallb no_float ts
  | TMap _ v => no_float v
  | TStruct fs => forallb (fun f => no_float (snd f)) fs
  | TEnum vs =>
    forallb (fun p => match snd p with
                      | VUnit => true
                      | VNewtype t1 => no_float t1
                      | VTuple ts => forallb no_float ts
                      | VStruct fs => forallb (fun f => no_float (snd f)) fs
                      end) vs
  | _ => true
  end.

(* ---- what reads back, without the exclusion ----------------------------------------------------------------------------- *)
(* [roundtrip_safe] without its Option clause: a &str target only accepts escape-free text *)
Fixpoint str_safe (t : ty) (d : dval) {struct d} : bool :=
  match t, d with
  | TOption t1, DSome d1 => str_safe t1 d1
  | TBorrowedStr, DStr s _ => no_escape s
  | TNewtype t1, DNewtype d1 => str_safe t1 d1
  | TSeq t1, DSeq l => forallb (fun x => str_safe t1 x) l
  | TTuple ts, DSeq l | TTupleStruct ts, DSeq l => andl (zipw (fun t0 x => str_safe t0 x) ts l)
  | TMap k v, DMap l => forallb (fun kv : dval * dval => let '(_, vd) := kv in str_safe v vd) l
  | TStruct fs, DStruct l => andl (zipw (fun f x => str_safe (snd f) x) fs l)
  | TEnum vs, DVariant n p =>
    match index_of n vs with
    | Some (_, VNewtype t1) => str_safe t1 p
    | Some (_, VTuple ts) => match p with DSeq l => andl (zipw (fun t0 x => str_safe t0 x) ts l) | _ => true end
    | Some (_, VStruct fs) => match p with DStruct l => andl (zipw (fun f x => str_safe (snd f) x) fs l) | _ => true end
    | _ => true
    end
  | _, _ => true
  end.

(* the data as it reads back: every `Some(x)` with x printed as `null` has become `None` *)
Fixpoint norm (t : ty) (d : dval) {struct d} : dval :=
  match t, d with
  | TOption t1, DSome d1 => if prints_null t1 d1 then DNone else DSome (norm t1 d1)
  | TNewtype t1, DNewtype d1 => DNewtype (norm t1 d1)
  | TSeq t1, DSeq l => DSeq (map (fun x => norm t1 x) l)
  | TTuple ts, DSeq l | TTupleStruct ts, DSeq l => DSeq (zipw (fun t0 x => norm t0 x) ts l)
  | TMap k v, DMap l => DMap (map (fun kv : dval * dval => let '(kd, vd) := kv in (kd, norm v vd)) l)
  | TStruct fs, DStruct l => DStruct (zipw (fun f x => norm (snd f) x) fs l)
  | TEnum vs, DVariant n p =>
    DVariant n
      match index_of n vs with
      | Some (_, VNewtype t1) => norm t1 p
      | Some (_, VTuple ts) => match p with DSeq l => DSeq (zipw (fun t0 x => norm t0 x) ts l) | _ => p end
      | Some (_, VStruct fs) => match p with DStruct l => DStruct (zipw (fun f x => norm (snd f) x) fs l) | _ => p end
      | _ => p
      end
  | _, _ => d
  end.
