(* Model/ScanAst.v — the statement language tools/translate_scan.py translates the bodies of the literal-keeping number scanners of
   src/de.rs into (scan_or_eof, scan_integer, scan_number, scan_decimal, scan_exponent — all behind `arbitrary_precision` — and
   scan_integer128), and its interpreter.

   Gen/ScanTables.v (GENERATED on every run) holds what the source says now; Proofs/ScanSrc.v proves that the hand-written models of
   Model/Num.v (the scan_... family) are the interpretation of the translated bodies, so a changed body breaks a proof obligation.
   The interpreter is the (small, trusted) semantics of the Rust subset; it runs over the SAME abstract cursor as the models
   (Model/Read.v: peek / next / peek_or_null / discard / error / peek_error) and in the same [res] monad.

     self.eat_char();                                   SEat            Read::discard
     buf.push('x');                                     SPushLit x      String::push: the UTF-8 encoding of the char is appended
     buf.push(c as char); / buf.push(e);                SPushVar c      (`u8 as char` keeps the number: U+0000..U+00FF, so a byte variable and
                                                                         the char made of it are the same value here; >= 128 pushes two bytes)
     let mut x = false;                                 SLetBool        declared in the innermost block
     x = true;                                          SSetBool        assigns the nearest enclosing declaration
     if !x { .. }                                       SIfNot
     match tri!(SCRUT) { PAT => BLOCK, .. }             SMatch          first matching arm; the arm's binder lives in the arm's own scope
     while let PAT = tri!(SCRUT) { .. }                 SWhileLet
     loop { .. }                                        SLoop           left only by `return`
     return R; / R in tail position                     SRet R          (the translator checks that a Result-valued expression without
                                                                         `return` stands in tail position of the function)
     SCRUT ::= self.peek_or_null() | self.peek() | self.next_char() | self.f(buf)        (f : .. -> Result<u8>)
     R     ::= Ok(()) | Ok(b) | Err(self.error(ErrorCode::X)) | Err(self.peek_error(ErrorCode::X)) | self.f(buf) | self.f(e as char, buf)
     PAT   ::= _ | [x @] BP | Some(_ | x | [x @] BP) | None          BP ::= b'x' | b'x'..=b'y' | BP | BP | ( BP ) | _

   Second family (tools/translate_cursor.py -> Gen/CursorTables.v, Proofs/CursorSrc.v): the buffer-less cursor functions ignore_integer /
   ignore_decimal / ignore_exponent, parse_ident, parse_whitespace, parse_object_colon, end_seq, end_map, StreamDeserializer::peek_end_of_value,
   has_next_element, has_next_key.  They never touch `buf` (the interpreter threads it through unchanged) and add:
     if let PAT = tri!(SCRUT) { .. }                    SIfLet
     for x in ident { .. }                              SFor x ident       (ident : &[u8] parameter; x : &u8, read as `*x`)
     if COND { .. }  /  if COND { .. } else { .. }      SIf / SIfElse      COND ::= x == b'c' | x != *y | <bool variable or the `first` field>
     let x = match tri!(SCRUT) { PAT => y, PAT => { ..diverges.. } };       SLetMatch
     Ok(true) / Ok(false), Ok(other)                    ROkBool, ROkVar on an Option<u8> binder
     PAT ::= .. | other (binds the whole scrutinee)  |  PAT | PAT (no binders)                PBindAny, PAlt

   Third family (tools/translate_ignore.py -> Gen/IgnoreTables.v, Proofs/IgnoreSrc.v): Deserializer::ignore_value, the iterative skip scanner.
   `self.scratch` (a Vec<u8> used as the stack of open brackets) is the interpreter's [buf] there (the cursor functions it calls leave [buf]
   alone, Proofs/CursorSrc.v).  Added for it:
     self.scratch.clear();                              SClear
     self.scratch.extend(x.take());                     SExtendTake x        (x : Option<u8>: pushed when Some, then x = None)
     let [mut] x = ME;  let (mut x, mut y) = ME;  x = ME;                    SLetM / SLetPair / SAssignM
        ME ::= None | Some(y) | y | (true|false, y) | return R
             | match MS { PAT => ME, PAT => { item* ME }, .. }               MS ::= tri!(SCRUT) | y | y.take() | self.scratch.pop()
     tri!(self.f());  tri!(self.f(b"lit"));             STry f arg           (f : .. -> Result<()>)
     tri!(self.read.ignore_str());                      SIgnoreStr           Read::ignore_str = Model/Str.v ignore_str (a primitive)
     break;                                             SBreak               leaves the innermost loop, locals kept ([OBrk])
     match tri!(SCRUT) { PAT [if COND] => .., .. }      SMatchG              guards: x == b'c' or a bool variable
     Err(self.peek_error(match x { b'c' => ErrorCode::A, .., _ => unreachable!() }))      RErrSel (no alternative matches: [Panic])

   `tri!(e)` is `match e { Ok(v) => v, Err(err) => return Err(err) }`: exactly [bind] of the [res] monad, which is how an I/O failure of the
   reader (`tm E = TFail kind`, surfacing from peek / next as `Err (Io kind) 0`) leaves every function at once.
   Loops and calls take explicit fuel: [exec] recurses on fuel only (one unit per nesting level, loop iteration and call);
   [OutOfFuel] when exhausted.  A program that is stuck (unbound variable, unknown function, no arm matches, a function body that ends
   without returning) yields [Panic]; the models never do in these functions, so the equalities of Proofs/ScanSrc.v rule that out. *)
From Coq Require Import String.
From SJ Require Import Base.Bytes Base.Utf8 Model.Read Model.Str.
Open Scope N_scope.

(* ---- syntax ----------------------------------------------------------------------------- *)
Inductive bpat := PLit (b : byte) | PRange (lo hi : byte) | POr (a b : bpat) | PWild.
Inductive pat :=
  | PByte (x : option string) (p : bpat)     (* [x @] BP     against a u8 *)
  | PSome (x : option string) (p : bpat)     (* Some([x @] BP) against an Option<u8>;  Some(x) = PSome (Some x) PWild *)
  | PNone                                    (* None *)
  | PAny                                     (* _ *)
  | PBindAny (x : string)                    (* x : binds the whole scrutinee *)
  | PAlt (a b : pat).                        (* P | Q at the top of an arm (no binders) *)
Inductive scrut := ScPeekOrNull | ScPeek | ScNext | ScCall (f : string).
Inductive rexpr :=
  | ROkUnit | ROkVar (x : string)
  | RErr (peeked : bool) (c : ecode)         (* Err(self.error(c)) : false,  Err(self.peek_error(c)) : true *)
  | RCall (f : string) (arg : option string)
  | ROkBool (b : bool)
  | RErrSel (peeked : bool) (x : string) (alts : list (byte * ecode)).
Inductive cond :=
  | CEqLit (x : string) (b : byte)           (* x == b'c' *)
  | CNeVar (x y : string)                    (* x != *y *)
  | CVar (x : string).                       (* a bool variable (the `first` field of SeqAccess / MapAccess is one) *)
Inductive stmt :=
  | SEat | SPushLit (b : byte) | SPushVar (x : string)
  | SLetBool (x : string) (v : bool) | SSetBool (x : string) (v : bool)
  | SIfNot (x : string) (body : list stmt)
  | SMatch (sc : scrut) (arms : list (pat * list stmt))
  | SWhileLet (p : pat) (sc : scrut) (body : list stmt)
  | SLoop (body : list stmt)
  | SRet (r : rexpr)
  | SIfLet (p : pat) (sc : scrut) (body : list stmt)
  | SFor (x xs : string) (body : list stmt)
  | SIf (c : cond) (body : list stmt)
  | SIfElse (c : cond) (a b : list stmt)
  | SLetMatch (x : string) (sc : scrut) (arms : list (pat * letarm))
  | SClear | SExtendTake (x : string)
  | SLetM (x : string) (e : mexpr) | SLetPair (x y : string) (e : mexpr) | SAssignM (x : string) (e : mexpr)
  | STry (f : string) (arg : option bytes) | SIgnoreStr
  | SBreak
  | SMatchG (sc : scrut) (arms : list (pat * option cond * list stmt))
with letarm :=
  | AVar (y : string)                        (* PAT => y          : the value of the match *)
  | ADiverge (body : list stmt)              (* PAT => { .. }     : a block that returns *)
with mexpr :=                                (* value expressions with `match` (third family) *)
  | MNone | MSome (y : string) | MVar (y : string) | MPair (b : bool) (y : string)
  | MRet (r : rexpr)                         (* the arm returns instead of yielding a value *)
  | MMatch (sc : mscrut) (arms : list (pat * list stmt * mexpr))       (* arm: statements, then the value; own scope *)
with mscrut :=
  | MsTri (sc : scrut)                       (* tri!(SCRUT) *)
  | MsVar (x : string)                       (* x *)
  | MsTake (x : string)                      (* x.take() *)
  | MsPop.                                   (* self.scratch.pop() *)

Record fdef := mkFn { fparam : option string; fbody : list stmt }.     (* the `buf: &mut String` parameter is implicit *)
Definition table := list (string * fdef).

(* ---- values, scoped locals -------------------------------------------------------------- *)
Inductive val := VByte (b : byte) | VBool (b : bool) | VOpt (o : option byte) | VBytes (l : bytes) | VPair (a : bool) (b : byte).
Inductive retval := RUnit | RByte (b : byte) | ROpt (o : option byte) | RBool (b : bool).
Inductive sval := SvByte (b : byte) | SvOpt (o : option byte).        (* what a scrutinee evaluates to *)

Definition frame := list (string * val).
Definition locals := list frame.                                      (* innermost block first *)

Fixpoint lookup_frame (x : string) (fr : frame) : option val :=
  match fr with [] => None | (y, v) :: r => if String.eqb x y then Some v else lookup_frame x r end.
Fixpoint lookup (x : string) (l : locals) : option val :=
  match l with [] => None | fr :: r => match lookup_frame x fr with Some v => Some v | None => lookup x r end end.
Fixpoint assign_frame (x : string) (v : val) (fr : frame) : option frame :=
  match fr with
  | [] => None
  | (y, w) :: r => if String.eqb x y then Some ((y, v) :: r)
                   else match assign_frame x v r with Some r' => Some ((y, w) :: r') | None => None end
  end.
Fixpoint assign (x : string) (v : val) (l : locals) : option locals :=
  match l with
  | [] => None
  | fr :: r => match assign_frame x v fr with
               | Some fr' => Some (fr' :: r)
               | None => match assign x v r with Some r' => Some (fr :: r') | None => None end
               end
  end.
Definition declare (x : string) (v : val) (l : locals) : locals :=
  match l with fr :: r => ((x, v) :: fr) :: r | [] => [[(x, v)]] end.

(* ---- patterns --------------------------------------------------------------------------- *)
Fixpoint bpat_match (p : bpat) (b : byte) : bool :=
  match p with
  | PLit c => b =? c
  | PRange lo hi => (lo <=? b) && (b <=? hi)
  | POr a c => bpat_match a b || bpat_match c b
  | PWild => true
  end.
Definition bind_opt (x : option string) (b : byte) : frame := match x with Some n => [(n, VByte b)] | None => [] end.
Fixpoint pat_match (p : pat) (v : sval) {struct p} : option frame :=
  match p, v with
  | PAny, _ => Some []
  | PByte x q, SvByte b => if bpat_match q b then Some (bind_opt x b) else None
  | PSome x q, SvOpt (Some b) => if bpat_match q b then Some (bind_opt x b) else None
  | PNone, SvOpt None => Some []
  | PBindAny x, SvByte b => Some [(x, VByte b)]
  | PBindAny x, SvOpt o => Some [(x, VOpt o)]
  | PAlt a c, _ => match pat_match a v with Some fr => Some fr | None => pat_match c v end
  | _, _ => None
  end.
Fixpoint select (arms : list (pat * list stmt)) (v : sval) : option (frame * list stmt) :=
  match arms with
  | [] => None
  | (p, body) :: r => match pat_match p v with Some fr => Some (fr, body) | None => select r v end
  end.

Fixpoint select_let (arms : list (pat * letarm)) (v : sval) : option (frame * letarm) :=
  match arms with
  | [] => None
  | (p, a) :: r => match pat_match p v with Some fr => Some (fr, a) | None => select_let r v end
  end.

Definition eval_cond (c : cond) (l : locals) : option bool :=
  match c with
  | CEqLit x b => match lookup x l with Some (VByte v) => Some (v =? b) | _ => None end
  | CNeVar x y => match lookup x l, lookup y l with Some (VByte v), Some (VByte w) => Some (negb (v =? w)) | _, _ => None end
  | CVar x => match lookup x l with Some (VBool v) => Some v | _ => None end
  end.

(* ---- execution -------------------------------------------------------------------------- *)
Inductive outcome :=
  | OFall (l : locals) (buf : bytes) (s : st)          (* the statement / block completed; control goes on *)
  | ORet (r : retval) (buf : bytes) (s : st)           (* the function returned Ok(r) *)
  | OBrk (l : locals) (buf : bytes) (s : st).          (* `break`: the innermost loop is left *)

Definition exec_t := stmt -> locals -> bytes -> st -> res outcome.
Definition call_t := string -> option byte -> st -> bytes -> res (retval * bytes * st).

Fixpoint exec_block (ex : exec_t) (ss : list stmt) (l : locals) (buf : bytes) (s : st) : res outcome :=
  match ss with
  | [] => Ok (OFall l buf s)
  | x :: r => let* o := ex x l buf s in
              match o with OFall l' buf' s' => exec_block ex r l' buf' s' | _ => Ok o end
  end.

(* a nested block: its own frame [fr] (the arm's binder, if any), popped when the block completes *)
Definition exec_scope (ex : exec_t) (fr : frame) (ss : list stmt) (l : locals) (buf : bytes) (s : st) : res outcome :=
  let* o := exec_block ex ss (fr :: l) buf s in
  match o with
  | OFall l' buf' s' => Ok (OFall (tl l') buf' s')
  | ORet _ _ _ => Ok o
  | OBrk l' buf' s' => Ok (OBrk (tl l') buf' s')
  end.

(* `for x in xs { body }`: one scoped run of the body per element *)
Fixpoint exec_for (ex : exec_t) (x : string) (body : list stmt) (bs : bytes) (l : locals) (buf : bytes) (s : st) : res outcome :=
  match bs with
  | [] => Ok (OFall l buf s)
  | b :: r => let* o := exec_scope ex [(x, VByte b)] body l buf s in
              match o with
              | OFall l' buf' s' => exec_for ex x body r l' buf' s'
              | ORet _ _ _ => Ok o
              | OBrk l' buf' s' => Ok (OFall l' buf' s')
              end
  end.

Fixpoint find_fn (fn : string) (T : table) : option fdef :=
  match T with [] => None | (n, d) :: r => if String.eqb fn n then Some d else find_fn fn r end.

Definition params_frame (p : option string) (a : option byte) : option frame :=
  match p, a with
  | None, None => Some []
  | Some x, Some b => Some [(x, VByte b)]
  | _, _ => None
  end.

Definition call_fn (ex : exec_t) (T : table) : call_t := fun fn arg s buf =>
  match find_fn fn T with
  | None => Panic
  | Some d =>
    match params_frame (fparam d) arg with
    | None => Panic
    | Some fr =>
      let* o := exec_block ex (fbody d) [fr] buf s in
      match o with ORet r buf' s' => Ok (r, buf', s') | _ => Panic end
    end
  end.

Definition eval_scrut (call : call_t) (E : env) (sc : scrut) (s : st) (buf : bytes) : res (sval * bytes * st) :=
  match sc with
  | ScPeekOrNull => let* (b, s') := peek_or_null E s in Ok (SvByte b, buf, s')
  | ScPeek => let* (o, s') := peek E s in Ok (SvOpt o, buf, s')
  | ScNext => let* (o, s') := next E s in Ok (SvOpt o, buf, s')
  | ScCall f => let* (r, buf', s') := call f None s buf in
                match r with
                | RByte b => Ok (SvByte b, buf', s')
                | ROpt o => Ok (SvOpt o, buf', s')
                | RUnit | RBool _ => Panic
                end
  end.

Definition eval_ret (call : call_t) (E : env) (r : rexpr) (l : locals) (buf : bytes) (s : st) : res outcome :=
  match r with
  | ROkUnit => Ok (ORet RUnit buf s)
  | ROkVar x => match lookup x l with
                | Some (VByte b) => Ok (ORet (RByte b) buf s)
                | Some (VOpt o) => Ok (ORet (ROpt o) buf s)
                | _ => Panic
                end
  | ROkBool b => Ok (ORet (RBool b) buf s)
  | RErrSel peeked x alts =>
    match lookup x l with
    | Some (VByte v) =>
      match find (fun a => v =? fst a) alts with
      | Some (_, c) => if peeked then peek_error E s c else error E s c
      | None => Panic                                   (* unreachable!() *)
      end
    | _ => Panic
    end
  | RErr false c => error E s c
  | RErr true c => peek_error E s c
  | RCall f None => let* (r, buf', s') := call f None s buf in Ok (ORet r buf' s')
  | RCall f (Some x) => match lookup x l with
                        | Some (VByte b) => let* (r, buf', s') := call f (Some b) s buf in Ok (ORet r buf' s')
                        | _ => Panic
                        end
  end.

(* ---- third family: value expressions, guarded arms ------------------------------------- *)
Definition call_v_t := string -> option val -> st -> bytes -> res (retval * bytes * st).

Definition call_fn_v (ex : exec_t) (T : table) : call_v_t := fun fn arg s buf =>
  match find_fn fn T with
  | None => Panic
  | Some d =>
    match match fparam d, arg with None, None => Some [] | Some x, Some v => Some [(x, v)] | _, _ => None end with
    | None => Panic
    | Some fr =>
      let* o := exec_block ex (fbody d) [fr] buf s in
      match o with ORet r buf' s' => Ok (r, buf', s') | _ => Panic end
    end
  end.

Inductive mres := MV (v : val) (l : locals) (buf : bytes) (s : st) | MO (o : outcome).

Fixpoint select_m (arms : list (pat * list stmt * mexpr)) (v : sval) : option (frame * list stmt * mexpr) :=
  match arms with
  | [] => None
  | (p, pre, e) :: r => match pat_match p v with Some fr => Some (fr, pre, e) | None => select_m r v end
  end.

(* first arm whose pattern matches and whose guard (read with the arm's binder in scope) holds *)
Fixpoint select_g (arms : list (pat * option cond * list stmt)) (v : sval) (l : locals) : option (frame * list stmt) :=
  match arms with
  | [] => None
  | (p, g, body) :: r =>
    match pat_match p v with
    | Some fr =>
      match g with
      | None => Some (fr, body)
      | Some c => match eval_cond c (fr :: l) with Some true => Some (fr, body) | _ => select_g r v l end
      end
    | None => select_g r v l
    end
  end.

Definition sval_of (v : val) : option sval :=
  match v with VByte b => Some (SvByte b) | VOpt o => Some (SvOpt o) | _ => None end.

Definition eval_mscrut (call : call_t) (E : env) (sc : mscrut) (l : locals) (buf : bytes) (s : st) : res (sval * locals * bytes * st) :=
  match sc with
  | MsTri sc' => let* (v, buf1, s1) := eval_scrut call E sc' s buf in Ok (v, l, buf1, s1)
  | MsVar x => match lookup x l with
               | Some w => match sval_of w with Some v => Ok (v, l, buf, s) | None => Panic end
               | None => Panic
               end
  | MsTake x => match lookup x l with
                | Some (VOpt o) => match assign x (VOpt None) l with Some l' => Ok (SvOpt o, l', buf, s) | None => Panic end
                | _ => Panic
                end
  | MsPop => match rev buf with
             | [] => Ok (SvOpt None, l, buf, s)
             | b :: r => Ok (SvOpt (Some b), l, rev r, s)
             end
  end.

Fixpoint eval_m (ex : exec_t) (call : call_t) (E : env) (n : nat) (e : mexpr) (l : locals) (buf : bytes) (s : st) {struct n} : res mres :=
  match n with
  | O => OutOfFuel
  | S n' =>
    match e with
    | MNone => Ok (MV (VOpt None) l buf s)
    | MSome y => match lookup y l with Some (VByte b) => Ok (MV (VOpt (Some b)) l buf s) | _ => Panic end
    | MVar y => match lookup y l with Some v => Ok (MV v l buf s) | None => Panic end
    | MPair a y => match lookup y l with Some (VByte b) => Ok (MV (VPair a b) l buf s) | _ => Panic end
    | MRet r => let* o := eval_ret call E r l buf s in Ok (MO o)
    | MMatch sc arms =>
      let* (v, l1, buf1, s1) := eval_mscrut call E sc l buf s in
      match select_m arms v with
      | None => Panic
      | Some (fr, pre, e') =>
        let* o := exec_block ex pre (fr :: l1) buf1 s1 in
        match o with
        | OFall l2 buf2 s2 =>
          let* r := eval_m ex call E n' e' l2 buf2 s2 in
          match r with
          | MV w l3 buf3 s3 => Ok (MV w (tl l3) buf3 s3)
          | MO (OFall l3 buf3 s3) => Ok (MO (OFall (tl l3) buf3 s3))
          | MO (OBrk l3 buf3 s3) => Ok (MO (OBrk (tl l3) buf3 s3))
          | MO (ORet _ _ _) => Ok r
          end
        | ORet _ _ _ => Ok (MO o)
        | OBrk l2 buf2 s2 => Ok (MO (OBrk (tl l2) buf2 s2))
        end
      end
    end
  end.

Fixpoint exec (fuel : nat) (E : env) (T : table) (x : stmt) (l : locals) (buf : bytes) (s : st) {struct fuel} : res outcome :=
  match fuel with
  | O => OutOfFuel
  | S f =>
    match x with
    | SEat => Ok (OFall l buf (discard s))
    | SPushLit b => Ok (OFall l (buf ++ utf8_encode b) s)
    | SPushVar v => match lookup v l with Some (VByte b) => Ok (OFall l (buf ++ utf8_encode b) s) | _ => Panic end
    | SLetBool v b => Ok (OFall (declare v (VBool b) l) buf s)
    | SSetBool v b => match assign v (VBool b) l with Some l' => Ok (OFall l' buf s) | None => Panic end
    | SIfNot v body =>
      match lookup v l with
      | Some (VBool true) => Ok (OFall l buf s)
      | Some (VBool false) => exec_scope (exec f E T) [] body l buf s
      | _ => Panic
      end
    | SMatch sc arms =>
      let* (v, buf1, s1) := eval_scrut (call_fn (exec f E T) T) E sc s buf in
      match select arms v with
      | Some (fr, body) => exec_scope (exec f E T) fr body l buf1 s1
      | None => Panic
      end
    | SWhileLet p sc body =>
      let* (v, buf1, s1) := eval_scrut (call_fn (exec f E T) T) E sc s buf in
      match pat_match p v with
      | Some fr =>
        let* o := exec_scope (exec f E T) fr body l buf1 s1 in
        match o with
        | OFall l' buf' s' => exec f E T (SWhileLet p sc body) l' buf' s'
        | ORet _ _ _ => Ok o
        | OBrk l' buf' s' => Ok (OFall l' buf' s')
        end
      | None => Ok (OFall l buf1 s1)
      end
    | SLoop body =>
      let* o := exec_scope (exec f E T) [] body l buf s in
      match o with
      | OFall l' buf' s' => exec f E T (SLoop body) l' buf' s'
      | ORet _ _ _ => Ok o
      | OBrk l' buf' s' => Ok (OFall l' buf' s')
      end
    | SRet r => eval_ret (call_fn (exec f E T) T) E r l buf s
    | SIfLet p sc body =>
      let* (v, buf1, s1) := eval_scrut (call_fn (exec f E T) T) E sc s buf in
      match pat_match p v with
      | Some fr => exec_scope (exec f E T) fr body l buf1 s1
      | None => Ok (OFall l buf1 s1)
      end
    | SFor v xs body =>
      match lookup xs l with
      | Some (VBytes bs) => exec_for (exec f E T) v body bs l buf s
      | _ => Panic
      end
    | SIf c body =>
      match eval_cond c l with
      | Some true => exec_scope (exec f E T) [] body l buf s
      | Some false => Ok (OFall l buf s)
      | None => Panic
      end
    | SIfElse c a b =>
      match eval_cond c l with
      | Some true => exec_scope (exec f E T) [] a l buf s
      | Some false => exec_scope (exec f E T) [] b l buf s
      | None => Panic
      end
    | SLetMatch v sc arms =>
      let* (w, buf1, s1) := eval_scrut (call_fn (exec f E T) T) E sc s buf in
      match select_let arms w with
      | Some (fr, AVar y) =>
        match lookup y (fr :: l) with Some u => Ok (OFall (declare v u l) buf1 s1) | None => Panic end
      | Some (fr, ADiverge body) =>
        let* o := exec_scope (exec f E T) fr body l buf1 s1 in
        match o with ORet _ _ _ => Ok o | _ => Panic end
      | None => Panic
      end
    | SClear => Ok (OFall l [] s)
    | SExtendTake v =>
      match lookup v l with
      | Some (VOpt o) =>
        match assign v (VOpt None) l with
        | Some l' => Ok (OFall l' (buf ++ match o with Some b => [b] | None => [] end) s)
        | None => Panic
        end
      | _ => Panic
      end
    | SLetM v e =>
      let* r := eval_m (exec f E T) (call_fn (exec f E T) T) E f e l buf s in
      match r with MV w l' buf' s' => Ok (OFall (declare v w l') buf' s') | MO o => Ok o end
    | SLetPair v w e =>
      let* r := eval_m (exec f E T) (call_fn (exec f E T) T) E f e l buf s in
      match r with
      | MV (VPair a b) l' buf' s' => Ok (OFall (declare w (VByte b) (declare v (VBool a) l')) buf' s')
      | MV _ _ _ _ => Panic
      | MO o => Ok o
      end
    | SAssignM v e =>
      let* r := eval_m (exec f E T) (call_fn (exec f E T) T) E f e l buf s in
      match r with
      | MV w l' buf' s' => match assign v w l' with Some l'' => Ok (OFall l'' buf' s') | None => Panic end
      | MO o => Ok o
      end
    | STry fn arg =>
      let* (r, buf', s') := call_fn_v (exec f E T) T fn (option_map VBytes arg) s buf in
      match r with RUnit => Ok (OFall l buf' s') | _ => Panic end
    | SIgnoreStr => let* s' := Str.ignore_str E s in Ok (OFall l buf s')
    | SBreak => Ok (OBrk l buf s)
    | SMatchG sc arms =>
      let* (v, buf1, s1) := eval_scrut (call_fn (exec f E T) T) E sc s buf in
      match select_g arms v l with
      | Some (fr, body) => exec_scope (exec f E T) fr body l buf1 s1
      | None => Panic
      end
    end
  end.

(* calling function [fn] of table [T] with the optional byte/char argument [arg], cursor [s] and buffer [buf] *)
Definition run_scan (fuel : nat) (E : env) (T : table) (fn : string) (arg : option byte) (s : st) (buf : bytes)
  : res (retval * bytes * st) :=
  call_fn (exec fuel E T) T fn arg s buf.

(* the same with an argument of any value kind (parse_ident takes the expected bytes, has_next_element / has_next_key the `first` flag) *)
Definition params_frame_v (p : option string) (a : option val) : option frame :=
  match p, a with
  | None, None => Some []
  | Some x, Some v => Some [(x, v)]
  | _, _ => None
  end.
Definition run_scan_v (fuel : nat) (E : env) (T : table) (fn : string) (arg : option val) (s : st) (buf : bytes)
  : res (retval * bytes * st) :=
  match find_fn fn T with
  | None => Panic
  | Some d =>
    match params_frame_v (fparam d) arg with
    | None => Panic
    | Some fr =>
      let* o := exec_block (exec fuel E T) (fbody d) [fr] buf s in
      match o with ORet r buf' s' => Ok (r, buf', s') | _ => Panic end
    end
  end.
