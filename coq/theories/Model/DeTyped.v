(* Model/DeTyped.v — typed text deserialization: `impl de::Deserializer for &mut Deserializer<R>` of src/de.rs
   (deserialize_bool .. deserialize_ignored_any), SeqAccess / MapAccess / VariantAccess / UnitVariantAccess,
   the MapKey deserializer with its deserialize_numeric_key! wrapper, peek_invalid_type, fix_position,
   do_deserialize_i128/u128, driven by the universal seed of DESIGN.md A.7 (one visitor per [ty] / [kty]).

   Data errors (serde's `de::Error::custom` family) are created WITHOUT a position (line 0) and receive one at
   the next `fix_position` on the way out — or never (e.g. `"A"` for a newtype variant: deserialize_enum has no
   fix_position).  Between creation and fix_position the parser may still move (`end_seq()` / `end_map()` are
   evaluated even when the visitor failed), so an unpositioned error carries the reader state: [TUnpos k s].
   This is the extension of [res] this file needs; [lift] embeds [res]. *)
From SJ Require Import Base.Bytes Base.Utf8 Base.FloatB Gen.Tables
  Model.Read Model.Str Model.Num Model.NumF32 Model.Value Model.De Model.Ignore Model.Ty Extract.Driver.
From Flocq Require Import Core BinarySingleNaN.
Open Scope N_scope.

Inductive tres (A : Type) :=
  | TOk (a : A)
  | TErr (c : ecode) (idx : nat)          (* positioned error, as [Err] *)
  | TUnpos (k : msgkind) (s : st)         (* data error with line = 0; [s] = reader state now *)
  | TFuel
  | TPanic.
Arguments TOk {A} a.
Arguments TErr {A} c idx.
Arguments TUnpos {A} k s.
Arguments TFuel {A}.
Arguments TPanic {A}.

Definition lift {A} (r : res A) : tres A :=
  match r with Ok a => TOk a | Err c i => TErr c i | OutOfFuel => TFuel | Panic => TPanic end.

Definition tbind {A B} (r : tres A) (f : A -> tres B) : tres B :=
  match r with
  | TOk a => f a
  | TErr c i => TErr c i
  | TUnpos k s => TUnpos k s
  | TFuel => TFuel
  | TPanic => TPanic
  end.
Notation "'let+' x ':=' r 'in' k" := (tbind r (fun x => k))
  (at level 200, x pattern, r at level 100, k at level 200, right associativity).
Notation "'let^' x ':=' r 'in' k" := (tbind (lift r) (fun x => k))
  (at level 200, x pattern, r at level 100, k at level 200, right associativity).

(* Deserializer::fix_position: `err.fix_position(|code| self.error(code))` — only errors with line == 0 change *)
Definition fix_position {A} (E : env) (r : tres A) : tres A :=
  match r with
  | TUnpos k s => TErr (Message k) (err_idx E s)
  | _ => r
  end.

(* ---- peek_invalid_type: parses the offending value to describe it; always an error ------------------- *)
Definition peek_invalid_type {A} (E : env) (s : st) : tres A :=
  let '(b, s0) := match peek_or_null E s with Ok (b, s') => (b, s') | _ => (0, s) end in
  let it (s' : st) : tres A := TErr (Message MInvalidType) (err_idx E s') in     (* invalid_type(..) then fix_position *)
  if b =? 110 then let^ s2 := parse_ident E lit_ull (discard s0) in it s2
  else if b =? 116 then let^ s2 := parse_ident E lit_rue (discard s0) in it s2
  else if b =? 102 then let^ s2 := parse_ident E lit_alse (discard s0) in it s2
  else if b =? 45 then let^ (_, s2) := parse_any_number E false (discard s0) in it s2
  else if is_digit b then let^ (_, s2) := parse_any_number E true s0 in it s2
  else if b =? 34 then let^ (_, s2) := parse_str E (discard s0) in it s2
  else if (b =? 91) || (b =? 123) then it s0
  else lift (peek_error E s0 ExpectedSomeValue).

(* ---- visitors of the universal seed (DESIGN.md A.7) --------------------------------------------------- *)
Definition b32_of_Z (z : Z) : b32 := binary_normalize 24 128 _ _ mode_NE z 0 false.
Definition dfloat (f : b64) : dval := DFloat (bits_of_b64 f).

(* serde's primitive integer visitors: visit_u64 / visit_i64 range-checked (invalid_value), visit_f64 not accepted *)
Definition visit_int (t : intty) (p : pnum) (s : st) : tres (dval * st) :=
  match p with
  | PU64 n => if in_range t (Z.of_N n) then TOk (DInt (Z.of_N n), s) else TUnpos MInvalidValue s
  | PI64 z => if in_range t z then TOk (DInt z, s) else TUnpos MInvalidValue s
  | PF64 _ => TUnpos MInvalidType s
  | PString _ => TUnpos MInvalidType s
  end.

(* f64: visit_f64, visit_u64 / visit_i64 by `as f64` *)
Definition visit_f64 (p : pnum) (s : st) : tres (dval * st) :=
  match p with
  | PF64 f => TOk (dfloat f, s)
  | PU64 n => TOk (dfloat (b64_of_Z (Z.of_N n)), s)
  | PI64 z => TOk (dfloat (b64_of_Z z), s)
  | PString _ => TUnpos MInvalidType s
  end.

(* f32: visit_f64 by `as f32`, integers by `as f32` (one rounding); reported widened to f64 *)
Definition visit_f32 (p : pnum) (s : st) : tres (dval * st) :=
  match p with
  | PF64 f => TOk (dfloat (b64_of_b32 (b32_of_b64 f)), s)
  | PU64 n => TOk (dfloat (b64_of_b32 (b32_of_Z (Z.of_N n))), s)
  | PI64 z => TOk (dfloat (b64_of_b32 (b32_of_Z z)), s)
  | PString _ => TUnpos MInvalidType s
  end.

(* a str of exactly one char (the contents are valid UTF-8) *)
Definition one_scalar (l : bytes) : option N :=
  match l with
  | [a] => if a <? 128 then Some a else None
  | [a; b] => if in_rng a 192 223 then Some ((a - 192) * 64 + (b - 128)) else None
  | [a; b; c] => if in_rng a 224 239 then Some ((a - 224) * 4096 + (b - 128) * 64 + (c - 128)) else None
  | [a; b; c; d] =>
    if in_rng a 240 247 then Some ((a - 240) * 262144 + (b - 128) * 4096 + (c - 128) * 64 + (d - 128)) else None
  | _ => None
  end.

Definition visit_string (str : bytes) (borrowed : bool) (s : st) : tres (dval * st) := TOk (DStr str borrowed, s).
Definition visit_borrowed_only (str : bytes) (borrowed : bool) (s : st) : tres (dval * st) :=
  if borrowed then TOk (DStr str true, s) else TUnpos MInvalidType s.
Definition visit_char (str : bytes) (borrowed : bool) (s : st) : tres (dval * st) :=
  match one_scalar str with
  | Some c => TOk (DChar c, s)
  | None => TUnpos MInvalidValue s
  end.

Fixpoint index_of {A} (name : bytes) (l : list (bytes * A)) : option (nat * A) :=
  match l with
  | [] => None
  | (n, a) :: l' =>
    if beq_bytes name n then Some (O, a)
    else match index_of name l' with Some (i, a') => Some (S i, a') | None => None end
  end.

(* variant identifier: visit_str looks the name up; unknown_variant otherwise *)
Definition visit_variant {A} (vs : list (bytes * A)) (str : bytes) (borrowed : bool) (s : st) : tres (bytes * A * st) :=
  match index_of str vs with
  | Some (_, a) => TOk (str, a, s)
  | None => TUnpos MUnknownVariant s
  end.

(* ---- scalar requests ----------------------------------------------------------------------------------- *)
(* Deserializer::deserialize_number *)
Definition deserialize_number (E : env) (visit : pnum -> st -> tres (dval * st)) (s : st) : tres (dval * st) :=
  let^ (o, s1) := parse_whitespace E s in
  match o with
  | None => lift (peek_error E s1 EofWhileParsingValue)
  | Some b =>
    fix_position E
      (if b =? 45 then let^ (p, s2) := parse_integer E false (discard s1) in visit p s2
       else if is_digit b then let^ (p, s2) := parse_integer E true s1 in visit p s2
       else peek_invalid_type E s1)
  end.

(* do_deserialize_f32 (float_roundtrip builds): deserialize_number with `single_precision` set *)
Definition deserialize_number_s (E : env) (visit : pnum -> st -> tres (dval * st)) (s : st) : tres (dval * st) :=
  let^ (o, s1) := parse_whitespace E s in
  match o with
  | None => lift (peek_error E s1 EofWhileParsingValue)
  | Some b =>
    fix_position E
      (if b =? 45 then let^ (p, s2) := parse_integer_s E false (discard s1) in visit p s2
       else if is_digit b then let^ (p, s2) := parse_integer_s E true s1 in visit p s2
       else peek_invalid_type E s1)
  end.

(* deserialize_f32 *)
Definition deserialize_f32 (E : env) (s : st) : tres (dval * st) :=
  if float_roundtrip (cf E) then deserialize_number_s E visit_f32 s else deserialize_number E visit_f32 s.

(* str::parse::<i128> / <u128> on the scanned buffer ([-] digits): value must fit (DESIGN.md A.8) *)
Definition parse_i128 (neg : bool) (digits : bytes) : option Z :=
  let v := digits_val digits 0 in
  let z := if neg then (- v)%Z else v in
  if all_digits digits && in_range I128 z then Some z else None.
Definition parse_u128 (digits : bytes) : option Z :=
  let v := digits_val digits 0 in
  if all_digits digits && in_range U128 v then Some v else None.

(* do_deserialize_i128 (visitor: visit_i128, accepted) *)
Definition deserialize_i128 (E : env) (s : st) : tres (dval * st) :=
  let^ (o, s1) := parse_whitespace E s in
  match o with
  | None => lift (peek_error E s1 EofWhileParsingValue)
  | Some b =>
    let neg := b =? 45 in
    let^ (buf, s2) := scan_integer128 E (if neg then discard s1 else s1) in
    match parse_i128 neg buf with
    | Some z => TOk (DInt z, s2)
    | None => lift (error E s2 NumberOutOfRange)
    end
  end.

(* do_deserialize_u128 *)
Definition deserialize_u128 (E : env) (s : st) : tres (dval * st) :=
  let^ (o, s1) := parse_whitespace E s in
  match o with
  | None => lift (peek_error E s1 EofWhileParsingValue)
  | Some b =>
    if b =? 45 then lift (peek_error E s1 NumberOutOfRange)
    else
      let^ (buf, s2) := scan_integer128 E s1 in
      match parse_u128 buf with
      | Some z => TOk (DInt z, s2)
      | None => lift (error E s2 NumberOutOfRange)
      end
  end.

Definition is_128 (t : intty) : bool := match t with I128 | U128 => true | _ => false end.

(* deserialize_i8 .. deserialize_u128 *)
Definition deserialize_int (E : env) (t : intty) (s : st) : tres (dval * st) :=
  match t with
  | I128 => deserialize_i128 E s
  | U128 => deserialize_u128 E s
  | _ => deserialize_number E (visit_int t) s
  end.

(* deserialize_bool *)
Definition deserialize_bool (E : env) (s : st) : tres (dval * st) :=
  let^ (o, s1) := parse_whitespace E s in
  match o with
  | None => lift (peek_error E s1 EofWhileParsingValue)
  | Some b =>
    fix_position E
      (if b =? 116 then let^ s2 := parse_ident E lit_rue (discard s1) in TOk (DBool true, s2)
       else if b =? 102 then let^ s2 := parse_ident E lit_alse (discard s1) in TOk (DBool false, s2)
       else peek_invalid_type E s1)
  end.

(* deserialize_str (= deserialize_string, deserialize_char, deserialize_identifier) *)
Definition deserialize_str {A} (E : env) (visit : bytes -> bool -> st -> tres A) (s : st) : tres A :=
  let^ (o, s1) := parse_whitespace E s in
  match o with
  | None => lift (peek_error E s1 EofWhileParsingValue)
  | Some b =>
    fix_position E
      (if b =? 34 then let^ (str, borrowed, s2) := parse_str E (discard s1) in visit str borrowed s2
       else peek_invalid_type E s1)
  end.

(* deserialize_unit (= deserialize_unit_struct) *)
Definition deserialize_unit (E : env) (s : st) : tres (dval * st) :=
  let^ (o, s1) := parse_whitespace E s in
  match o with
  | None => lift (peek_error E s1 EofWhileParsingValue)
  | Some b =>
    fix_position E
      (if b =? 110 then let^ s2 := parse_ident E lit_ull (discard s1) in TOk (DUnit, s2)
       else peek_invalid_type E s1)
  end.

(* deserialize_raw_value with Box<RawValue>'s visitor: the span; SliceRead/IoRead check it is UTF-8 *)
Definition deserialize_raw (E : env) (s : st) : tres (dval * st) :=
  let^ (_, s0) := parse_whitespace E s in
  let^ s1 := ignore_value E s0 in
  let span := firstn (off s1 - off s0) (rest s0) in
  match rk E with
  | RStr => TOk (DRaw span, s1)
  | _ => if utf8_valid span then TOk (DRaw span, s1) else lift (error E s1 InvalidUnicodeCodePoint)
  end.

(* ---- containers: the frame shared by `[`..`]` and `{`..`}` ---------------------------------------------- *)
Definition ws_stop (s : st) : st := advance (span_len is_ws (rest s)) s.

(* reader state in which end_seq() returns, whatever its result *)
Definition end_seq_st (E : env) (s : st) : st :=
  match parse_whitespace E s with
  | Ok (Some b, s1) =>
    if b =? 93 then discard s1
    else if b =? 44 then
      match parse_whitespace E (discard s1) with Ok (_, s2) => s2 | _ => ws_stop (discard s1) end
    else s1
  | Ok (None, s1) => s1
  | _ => ws_stop s
  end.

Definition end_map_st (E : env) (s : st) : st :=
  match parse_whitespace E s with
  | Ok (Some b, s1) => if b =? 125 then discard s1 else s1
  | Ok (None, s1) => s1
  | _ => ws_stop s
  end.

(*  check_recursion! { eat_char(); let ret = visitor.visit_xxx(..) }
    match (ret, self.end_xxx()) { (Ok(ret), Ok(())) => Ok(ret), (Err(err), _) | (_, Err(err)) => Err(err) }
    [s1] has the opening bracket peeked. *)
Definition frame {A} (E : env) (endf : env -> st -> res st) (endst : env -> st -> st)
    (body : st -> tres (A * st)) (s1 : st) : tres (A * st) :=
  let^ s2 := enter E s1 in
  match body (discard s2) with
  | TOk (a, s3) => let^ s4 := leave E s3 in let^ s5 := endf E s4 in TOk (a, s5)
  | TUnpos k s3 => let^ s4 := leave E s3 in TUnpos k (endst E s4)
  | r => r
  end.

(* deserialize_seq (= deserialize_tuple, deserialize_tuple_struct); [body] is the visitor's visit_seq *)
Definition deserialize_seq {A} (E : env) (body : st -> tres (A * st)) (s : st) : tres (A * st) :=
  let^ (o, s1) := parse_whitespace E s in
  match o with
  | None => lift (peek_error E s1 EofWhileParsingValue)
  | Some b =>
    fix_position E (if b =? 91 then frame E end_seq end_seq_st body s1 else peek_invalid_type E s1)
  end.

(* deserialize_map *)
Definition deserialize_map {A} (E : env) (body : st -> tres (A * st)) (s : st) : tres (A * st) :=
  let^ (o, s1) := parse_whitespace E s in
  match o with
  | None => lift (peek_error E s1 EofWhileParsingValue)
  | Some b =>
    fix_position E (if b =? 123 then frame E end_map end_map_st body s1 else peek_invalid_type E s1)
  end.

(* deserialize_struct: `[` positional, `{` by name *)
Definition deserialize_struct {A} (E : env) (body_seq body_map : st -> tres (A * st)) (s : st) : tres (A * st) :=
  let^ (o, s1) := parse_whitespace E s in
  match o with
  | None => lift (peek_error E s1 EofWhileParsingValue)
  | Some b =>
    fix_position E
      (if b =? 91 then frame E end_seq end_seq_st body_seq s1
       else if b =? 123 then frame E end_map end_map_st body_map s1
       else peek_invalid_type E s1)
  end.

(* deserialize_enum: `{` variant-with-payload `}` through VariantAccess, `"Variant"` through UnitVariantAccess.
   No fix_position here. *)
Definition deserialize_enum {A} (E : env) (body_map body_unit : st -> tres (A * st)) (s : st) : tres (A * st) :=
  let^ (o, s1) := parse_whitespace E s in
  match o with
  | None => lift (peek_error E s1 EofWhileParsingValue)
  | Some b =>
    if b =? 123 then
      let^ s2 := enter E s1 in
      match body_map (discard s2) with
      | TOk (a, s3) =>
        let^ s4 := leave E s3 in
        let^ (o2, s5) := parse_whitespace E s4 in
        match o2 with
        | Some c => if c =? 125 then TOk (a, discard s5) else lift (error E s5 ExpectedSomeValue)
        | None => lift (error E s5 EofWhileParsingObject)
        end
      | TUnpos k s3 => let^ s4 := leave E s3 in TUnpos k s4
      | r => r
      end
    else if b =? 34 then body_unit s1
    else lift (peek_error E s1 ExpectedSomeValue)
  end.

(* struct visitor, after the loop: missing Option fields are None, others missing_field (in declaration order) *)
Fixpoint finish_struct (fields : list (bytes * ty)) (slots : list (option dval)) (s : st) : tres (list dval) :=
  match fields, slots with
  | [], _ => TOk []
  | (_, t) :: fields', slot :: slots' =>
    match slot with
    | Some d => let+ ds := finish_struct fields' slots' s in TOk (d :: ds)
    | None =>
      match t with
      | TOption _ => let+ ds := finish_struct fields' slots' s in TOk (DNone :: ds)
      | _ => TUnpos MMissingField s
      end
    end
  | _ :: _, [] => TPanic
  end.

Fixpoint set_slot (i : nat) (d : dval) (slots : list (option dval)) : list (option dval) :=
  match i, slots with
  | O, _ :: r => Some d :: r
  | S i', x :: r => x :: set_slot i' d r
  | _, [] => []
  end.

Definition slot_filled (i : nat) (slots : list (option dval)) : bool :=
  match nth i slots None with Some _ => true | None => false end.

Definition lit_rue_q : bytes := [114; 117; 101; 34].
Definition lit_alse_q : bytes := [97; 108; 115; 101; 34].

Fixpoint u8s_of (l : list dval) : bytes :=
  match l with
  | DInt z :: r => Z.to_N z :: u8s_of r
  | _ :: r => u8s_of r
  | [] => []
  end.

Definition tmap {A B} (f : A -> B) (r : tres (A * st)) : tres (B * st) :=
  let+ (a, s) := r in TOk (f a, s).

(* deserialize_numeric_key!($method, $delegate): quote, first byte check, delegate, closing quote.
   [s] has the opening quote peeked. *)
Definition numeric_key (E : env) (delegate : st -> tres (dval * st)) (s : st) : tres (dval * st) :=
  let s0 := discard s in
  let^ (o, s1) := peek E s0 in
  match o with
  | None => lift (peek_error E s1 EofWhileParsingString)
  | Some b =>
    if is_digit b || (b =? 45) then
      let+ (d, s2) := delegate s1 in
      let^ (o2, s3) := peek E s2 in
      match o2 with
      | Some c => if c =? 34 then TOk (d, discard s3) else lift (peek_error E s3 ExpectedDoubleQuote)
      | None => lift (peek_error E s3 EofWhileParsingString)
      end
    else lift (error E s1 ExpectedNumericKey)
  end.

(* MapKey::deserialize_bool: the byte after the quote is only peeked; `t` / `f` are eaten, anything else is left
   for parse_str (so the whole key is described in the invalid_type error) *)
Definition key_bool (E : env) (s : st) : tres (dval * st) :=
  let s0 := discard s in
  let^ (o, s1) := peek E s0 in
  match o with
  | None => lift (peek_error E s1 EofWhileParsingValue)
  | Some b =>
    fix_position E
      (if b =? 116 then let^ s2 := parse_ident E lit_rue_q (discard s1) in TOk (DBool true, s2)
       else if b =? 102 then let^ s2 := parse_ident E lit_alse_q (discard s1) in TOk (DBool false, s2)
       else let^ (_, s2) := parse_str E s1 in TUnpos MInvalidType s2)
  end.

(* ---- the seed, by recursion on fuel ------------------------------------------------------------------------ *)
Fixpoint de_typed (fuel : nat) (E : env) (t : ty) (s : st) {struct fuel} : tres (dval * st) :=
  match fuel with
  | O => TFuel
  | S f =>
    match t with
    | TValue => let^ (v, s1) := parse_value f E s in TOk (DValue (show_value v), s1)
    | TIgnored => let^ s1 := ignore_value E s in TOk (DIgnored, s1)
    | TRaw => deserialize_raw E s
    | TBool => deserialize_bool E s
    | TInt it => deserialize_int E it s
    | TF32 => deserialize_f32 E s
    | TF64 => deserialize_number E visit_f64 s
    | TChar => deserialize_str E visit_char s
    | TStr => deserialize_str E visit_string s
    | TBorrowedStr => deserialize_str E visit_borrowed_only s
    | TBytes =>
      (* deserialize_bytes with ByteBuf's visitor *)
      let^ (o, s1) := parse_whitespace E s in
      match o with
      | None => lift (peek_error E s1 EofWhileParsingValue)
      | Some b =>
        fix_position E
          (if b =? 34 then let^ (str, _, s2) := parse_str_raw E (discard s1) in TOk (DBytes str, s2)
           else if b =? 91 then
             tmap (fun l => DBytes (u8s_of l)) (deserialize_seq E (fun s' => de_elems f E (TInt U8) true s') s1)
           else peek_invalid_type E s1)
      end
    | TUnit | TUnitStruct => deserialize_unit E s
    | TOption t1 =>
      let^ (o, s1) := parse_whitespace E s in
      if (match o with Some b => b =? 110 | None => false end)
      then let^ s2 := parse_ident E lit_ull (discard s1) in TOk (DNone, s2)
      else tmap DSome (de_typed f E t1 s1)
    | TNewtype t1 => tmap DNewtype (de_typed f E t1 s)
    | TSeq t1 => tmap DSeq (deserialize_seq E (fun s' => de_elems f E t1 true s') s)
    | TTuple ts | TTupleStruct ts => tmap DSeq (deserialize_seq E (fun s' => de_tuple f E ts true s') s)
    | TMap k v => tmap DMap (deserialize_map E (fun s' => de_entries f E k v true s') s)
    | TStruct fields => de_struct f E fields s
    | TEnum vs =>
      deserialize_enum E
        (fun s' =>
           (* VariantAccess::variant_seed, then the payload by variant kind *)
           let+ (name, v, s2) := deserialize_str E (visit_variant vs) s' in
           let^ s3 := parse_object_colon E s2 in
           tmap (DVariant name)
             (match v with
              | VUnit => deserialize_unit E s3
              | VNewtype t1 => de_typed f E t1 s3
              | VTuple ts => tmap DSeq (deserialize_seq E (fun s'' => de_tuple f E ts true s'') s3)
              | VStruct fields => de_struct f E fields s3
              end))
        (fun s' =>
           (* UnitVariantAccess *)
           let+ (name, v, s2) := deserialize_str E (visit_variant vs) s' in
           match v with
           | VUnit => TOk (DVariant name DUnit, s2)
           | _ => TUnpos MInvalidType s2
           end)
        s
    end
  end

(* Vec<T>'s visit_seq: next_element until None *)
with de_elems (fuel : nat) (E : env) (t : ty) (first : bool) (s : st) {struct fuel} : tres (list dval * st) :=
  match fuel with
  | O => TFuel
  | S f =>
    let^ o := has_next_element E first s in
    match o with
    | None => TOk ([], s)
    | Some s1 =>
      let+ (d, s2) := de_typed f E t s1 in
      let+ (ds, s3) := de_elems f E t false s2 in
      TOk (d :: ds, s3)
    end
  end

(* tuple / tuple struct / positional struct visit_seq: exactly one next_element per component, None => invalid_length *)
with de_tuple (fuel : nat) (E : env) (ts : list ty) (first : bool) (s : st) {struct fuel} : tres (list dval * st) :=
  match fuel with
  | O => TFuel
  | S f =>
    match ts with
    | [] => TOk ([], s)
    | t :: ts' =>
      let^ o := has_next_element E first s in
      match o with
      | None => TUnpos MInvalidLength s
      | Some s1 =>
        let+ (d, s2) := de_typed f E t s1 in
        let+ (ds, s3) := de_tuple f E ts' false s2 in
        TOk (d :: ds, s3)
      end
    end
  end

(* map visit_map: next_key_seed / next_value_seed until None *)
with de_entries (fuel : nat) (E : env) (k : kty) (v : ty) (first : bool) (s : st) {struct fuel}
    : tres (list (dval * dval) * st) :=
  match fuel with
  | O => TFuel
  | S f =>
    let^ o := has_next_key E first s in
    match o with
    | None => TOk ([], s)
    | Some s1 =>
      let+ (kd, s2) := de_key f E k s1 in
      let^ s3 := parse_object_colon E s2 in
      let+ (vd, s4) := de_typed f E v s3 in
      let+ (es, s5) := de_entries f E k v false s4 in
      TOk ((kd, vd) :: es, s5)
    end
  end

(* struct visit_map loop (serde_derive): field identifier through MapKey::deserialize_any *)
with de_fields (fuel : nat) (E : env) (fields : list (bytes * ty)) (slots : list (option dval)) (first : bool) (s : st)
    {struct fuel} : tres (list dval * st) :=
  match fuel with
  | O => TFuel
  | S f =>
    let^ o := has_next_key E first s in
    match o with
    | None => let+ ds := finish_struct fields slots s in TOk (ds, s)
    | Some s1 =>
      let^ (name, _, s2) := parse_str E (discard s1) in
      match index_of name fields with
      | Some (i, t) =>
        if slot_filled i slots then TUnpos MDuplicateField s2
        else
          let^ s3 := parse_object_colon E s2 in
          let+ (d, s4) := de_typed f E t s3 in
          de_fields f E fields (set_slot i d slots) false s4
      | None =>
        let^ s3 := parse_object_colon E s2 in
        let^ s4 := ignore_value E s3 in
        de_fields f E fields slots false s4
      end
    end
  end

with de_struct (fuel : nat) (E : env) (fields : list (bytes * ty)) (s : st) {struct fuel} : tres (dval * st) :=
  match fuel with
  | O => TFuel
  | S f =>
    tmap DStruct
      (deserialize_struct E
         (fun s' => de_tuple f E (map snd fields) true s')
         (fun s' => de_fields f E fields (map (fun _ => None) fields) true s')
         s)
  end

(* seed.deserialize(MapKey { de }): [s] has the opening quote peeked *)
with de_key (fuel : nat) (E : env) (k : kty) (s : st) {struct fuel} : tres (dval * st) :=
  match fuel with
  | O => TFuel
  | S f =>
    match k with
    | KStr => let^ (str, borrowed, s2) := parse_str E (discard s) in visit_string str borrowed s2
    | KChar => let^ (str, borrowed, s2) := parse_str E (discard s) in visit_char str borrowed s2
    | KInt it => numeric_key E (deserialize_int E it) s
    | KF32 => numeric_key E (deserialize_f32 E) s
    | KF64 => numeric_key E (deserialize_number E visit_f64) s
    | KBool => key_bool E s
    | KOption k1 => tmap DSome (de_key f E k1 s)
    | KNewtype k1 => tmap DNewtype (de_key f E k1 s)
    | KUnitEnum names =>
      let vs := map (fun n => (n, tt)) names in
      deserialize_enum E
        (fun s' => TPanic)                       (* unreachable: a key starts with a quote *)
        (fun s' => let+ (name, _, s2) := deserialize_str E (visit_variant vs) s' in TOk (DVariant name DUnit, s2))
        s
    end
  end.

(* does the type program mention f32 (whose parsing differs under float_roundtrip: Model/NumF32.v)? *)
Fixpoint kty_has_f32 (k : kty) : bool :=
  match k with
  | KF32 => true
  | KOption k1 | KNewtype k1 => kty_has_f32 k1
  | _ => false
  end.
Fixpoint ty_has_f32 (t : ty) : bool :=
  match t with
  | TF32 => true
  | TOption t1 | TNewtype t1 | TSeq t1 => ty_has_f32 t1
  | TTuple ts | TTupleStruct ts => existsb ty_has_f32 ts
  | TMap k v => kty_has_f32 k || ty_has_f32 v
  | TStruct fs => existsb (fun p => ty_has_f32 (snd p)) fs
  | TEnum vs => existsb (fun p => match snd p with
                                  | VUnit => false
                                  | VNewtype t1 => ty_has_f32 t1
                                  | VTuple ts => existsb ty_has_f32 ts
                                  | VStruct fs => existsb (fun q => ty_has_f32 (snd q)) fs
                                  end) vs
  | _ => false
  end.

(* nesting of the type program (Option / newtype chains consume fuel without consuming input) *)
Fixpoint kty_depth (k : kty) : nat :=
  match k with KOption k1 | KNewtype k1 => S (kty_depth k1) | _ => 1%nat end.
Fixpoint ty_depth (t : ty) : nat :=
  let lmax := fix lmax (l : list ty) : nat := match l with [] => O | x :: r => Nat.max (ty_depth x) (lmax r) end in
  let fmax := fix fmax (l : list (bytes * ty)) : nat := match l with [] => O | x :: r => Nat.max (ty_depth (snd x)) (fmax r) end in
  match t with
  | TOption t1 | TNewtype t1 | TSeq t1 => S (ty_depth t1)
  | TTuple ts | TTupleStruct ts => S (lmax ts)
  | TMap k v => S (Nat.max (kty_depth k) (ty_depth v))
  | TStruct fs => S (S (fmax fs))
  | TEnum vs =>
    S ((fix vmax (l : list (bytes * variant)) : nat :=
          match l with
          | [] => O
          | x :: r => Nat.max (match snd x with
                               | VUnit => 1%nat
                               | VNewtype t1 => ty_depth t1
                               | VTuple ts => S (lmax ts)
                               | VStruct fs => S (S (fmax fs))
                               end) (vmax r)
          end) vs)
  | _ => 1%nat
  end.

Definition typed_fuel (t : ty) (input : bytes) : nat := (4 * length input + 2 * ty_depth t + 8)%nat.

(* from_trait::<_, T>: seed.deserialize(&mut de), then de.end() *)
Definition from_input_typed (E : env) (t : ty) (input : bytes) : tres dval :=
  let+ (d, s1) := de_typed (typed_fuel t input) E t (init_st input) in
  let^ _ := de_end E s1 in
  TOk d.
