(* Model/DeTok.v — `from_str / from_slice / from_reader ::<Value>` INCLUDING the private-token branch of
   `ValueVisitor::visit_map` (known finding F23).  Additive: Model/De.v is untouched and is what C01 / C02 are about;
   this file says what the real code does on the documents Model/De.v gets wrong, and Proofs/DeTokProps.v ties the two.

     src/value/de.rs 121-148   ValueVisitor::visit_map:
         match visitor.next_key_seed(KeyClassifier)? {
           #[cfg(arbitrary_precision)] Some(KeyClass::Number)   => { let n: NumberFromString = visitor.next_value()?; Ok(Value::Number(n.value)) }
           #[cfg(raw_value)]           Some(KeyClass::RawValue) => { let v = visitor.next_value_seed(BoxedFromString)?;
                                                                    crate::from_str(v.get()).map_err(de::Error::custom) }
           Some(KeyClass::Map(first_key)) => { insert first_key / next_value, then next_entry until None; Ok(Value::Object(..)) }
           None => Ok(Value::Object(Map::new())) }
     src/value/de.rs 1322-1376 KeyClassifier: `deserialize_str` on the key (MapKey forwards str to deserialize_any: eat the quote,
                               parse_str), visit_str / visit_string: number::TOKEN => Number (arbitrary_precision only),
                               raw::TOKEN => RawValue (raw_value only), anything else => Map(key).  ONLY the first key is classified.
     src/number.rs 494-525     NumberFromString: `deserializer.deserialize_str(Visitor)`, visit_str(s) = `s.parse::<Number>().map_err(custom)`
                               = [NumberTarget.nfs_text] (already modelled for the Number target; reused as it is).
     src/raw.rs 433-467        BoxedFromString: `deserializer.deserialize_str(self)`, visit_str(s) = RawValue::from_owned(s): the member's
                               value must be a JSON STRING; its decoded contents become the RawValue's text WITHOUT validation.
     src/de.rs 2491-2530       crate::from_str = from_trait(StrRead): a FRESH Deserializer (remaining_depth 128, limit enabled),
                               Value::deserialize (this same function), Deserializer::end.
     src/error.rs 433-437, 483-534  de::Error::custom(e) = make_error(e.to_string()): the " at line L column C" suffix of the inner
                               error's Display is parsed back: the new error is a Message with the INNER text's line / column.
     src/de.rs 1470-1492       deserialize_any `{` arm: check_recursion! { eat_char; ret = visitor.visit_map(..) };
                               match (ret, self.end_map()) { (Ok(ret), Ok(())) => Ok(ret), (Err(err), _) | (_, Err(err)) => Err(err) }
                               then fix_position.  After a token branch visit_map has consumed ONE member; end_map then wants `}`:
                               a further member gives TrailingComma (at the comma), anything else TrailingCharacters.

   Results are [nres] (Model/NumberTarget.v): [res] plus [NAt k line col], an error positioned in ANOTHER text (the string under the
   token), plus [NUnpos] (a data error before fix_position).  [of_res] embeds the results of Model/De.v.

   [raw_on] : is the cargo feature `raw_value` enabled (the record [cfg] of Model/Read.v has no such field).
   Fuel: the four functions recurse on [fuel] exactly as Model/De.v does ([parse_obj_tok] sits where `parse_map .. true ..` is
   called); the nested `from_str` of the RawValue branch runs on the remaining fuel, which exceeds 2 * (length of the decoded
   string) + 3 because the string literal is still ahead in the input when the enclosing value was entered.
   No proofs in this file. *)
From SJ Require Import Base.Bytes Base.Utf8 Base.FloatB Gen.Tables
  Model.Read Model.Str Model.Num Model.Value Model.De Model.NumberM Model.Ty Model.DeTyped Model.ValueDe Model.NumberTarget
  Model.RawM Model.RawDe.
From Flocq Require Import Core BinarySingleNaN.
Open Scope N_scope.

(* ---- KeyClassifier ---------------------------------------------------------------------------------------------------------------- *)
Inductive keyclass := KNumber | KRaw | KMap.

(* visit_str / visit_string of KeyClassifier: the two `#[cfg]`-guarded arms in source order, then `_` *)
Definition key_class (cf : cfg) (raw_on : bool) (k : bytes) : keyclass :=
  if arbitrary_precision cf && beq_bytes k NUMBER_TOKEN_V then KNumber
  else if raw_on && beq_bytes k RAW_TOKEN then KRaw
  else KMap.

(* ---- de::Error::custom(inner error) ---------------------------------------------------------------------------------------------------- *)
(* The message kept is the inner Display text minus its position suffix, so a serde data error keeps its class
   ("invalid type: ..." stays an invalid-type message); every syntax / eof code becomes a plain custom message. *)
Definition custom_kind (c : ecode) : msgkind :=
  match c with
  | Message k => k
  | ExpectedNumericKey => MInvalidValue      (* its text starts with "invalid value: "; not reachable with a Value target *)
  | _ => MCustom
  end.

(* `crate::from_str::<Value>(text).map_err(de::Error::custom)` given the result [r] of the inner from_str; [s] = reader of the OUTER
   document now (an error without " at line " suffix — only an Io error, which a StrRead cannot produce — stays unpositioned) *)
Definition custom_of_from_str {A} (text : bytes) (s : st) (r : nres A) : nres (A * st) :=
  match r with
  | NOk v => NOk (v, s)
  | NErr c i =>
    match c with
    | Io _ => NUnpos MCustom s
    | _ => let '(line, col) := pos_of text i in NAt (custom_kind c) line col
    end
  | NAt k line col => NAt k line col
  | NUnpos k _ => NUnpos k s
  | NFuel => NFuel
  | NPanic => NPanic
  end.

(* next_value_seed(BoxedFromString): parse_object_colon is done by the caller; `de.deserialize_str(BoxedFromString)`:
   a string literal (decoded contents, either Reference) or peek_invalid_type; fix_position on the way out *)
Definition boxed_from_string_text (E : env) (s : st) : nres (bytes * st) :=
  of_tres (deserialize_str E (fun str _ s' => TOk (str, s')) s).

(* ---- deserialize_any with the Value visitor ------------------------------------------------------------------------------------------ *)
Fixpoint parse_value_tok (fuel : nat) (E : env) (raw_on : bool) (s : st) {struct fuel} : nres (value * st) :=
  match fuel with
  | O => NFuel
  | S f =>
    let% (o, s1) := of_res (parse_whitespace E s) in
    match o with
    | None => of_res (peek_error E s1 EofWhileParsingValue)
    | Some b =>
      if b =? 110 then let% s2 := of_res (parse_ident E lit_ull (discard s1)) in NOk (VNull, s2)
      else if b =? 116 then let% s2 := of_res (parse_ident E lit_rue (discard s1)) in NOk (VBool true, s2)
      else if b =? 102 then let% s2 := of_res (parse_ident E lit_alse (discard s1)) in NOk (VBool false, s2)
      else if b =? 45 then
        let% (p, s2) := of_res (parse_any_number E false (discard s1)) in NOk (visit_number_cfg E p, s2)
      else if is_digit b then
        let% (p, s2) := of_res (parse_any_number E true s1) in NOk (visit_number_cfg E p, s2)
      else if b =? 34 then
        let% (str, _, s2) := of_res (parse_str E (discard s1)) in NOk (VStr str, s2)
      else if b =? 91 then
        let% s2 := of_res (enter E s1) in
        let% (vs, s3) := parse_seq_tok f E raw_on true (discard s2) in
        let% s4 := of_res (leave E s3) in
        let% s5 := of_res (end_seq E s4) in
        NOk (VArr vs, s5)
      else if b =? 123 then
        (* check_recursion! { eat_char; visit_map }, end_map evaluated whatever visit_map said, fix_position *)
        nfix E (nframe E end_map end_map_st (parse_obj_tok f E raw_on) s1)
      else of_res (peek_error E s1 ExpectedSomeValue)
    end
  end
with parse_seq_tok (fuel : nat) (E : env) (raw_on : bool) (first : bool) (s : st) {struct fuel} : nres (list value * st) :=
  match fuel with
  | O => NFuel
  | S f =>
    let% o := of_res (has_next_element E first s) in
    match o with
    | None => NOk ([], s)
    | Some s1 =>
      let% (v, s2) := parse_value_tok f E raw_on s1 in
      let% (vs, s3) := parse_seq_tok f E raw_on false s2 in
      NOk (v :: vs, s3)
    end
  end
(* ValueVisitor::visit_map; [s]: right after the `{` *)
with parse_obj_tok (fuel : nat) (E : env) (raw_on : bool) (s : st) {struct fuel} : nres (value * st) :=
  match fuel with
  | O => NFuel
  | S f =>
    let% o := of_res (has_next_key E true s) in
    match o with
    | None => NOk (VObj (map_of_entries (preserve_order (cf E)) []), s)
    | Some s1 =>
      let% (k, _, s2) := of_res (parse_str E (discard s1)) in       (* KeyClassifier through MapKey::deserialize_any *)
      match key_class (cf E) raw_on k with
      | KNumber =>
        let% s3 := of_res (parse_object_colon E s2) in
        let% (n, s4) := nfs_text E s3 in
        NOk (VNum n, s4)
      | KRaw =>
        let% s3 := of_res (parse_object_colon E s2) in
        let% (text, s4) := boxed_from_string_text E s3 in
        let Ei := raw_env (cf E) in
        custom_of_from_str text s4
          (let% (v, t1) := parse_value_tok f Ei raw_on (init_st text) in
           let% _ := of_res (de_end Ei t1) in
           NOk v)
      | KMap =>
        let% s3 := of_res (parse_object_colon E s2) in
        let% (v, s4) := parse_value_tok f E raw_on s3 in
        let% (es, s5) := parse_map_tok f E raw_on false s4 in
        NOk (VObj (map_of_entries (preserve_order (cf E)) ((k, v) :: es)), s5)
      end
    end
  end
(* the `next_entry` loop of visit_map: Model/De.v parse_map with the values read by [parse_value_tok] *)
with parse_map_tok (fuel : nat) (E : env) (raw_on : bool) (first : bool) (s : st) {struct fuel} : nres (list (bytes * value) * st) :=
  match fuel with
  | O => NFuel
  | S f =>
    let% o := of_res (has_next_key E first s) in
    match o with
    | None => NOk ([], s)
    | Some s1 =>
      let% (k, _, s2) := of_res (parse_str E (discard s1)) in
      let% s3 := of_res (parse_object_colon E s2) in
      let% (v, s4) := parse_value_tok f E raw_on s3 in
      let% (es, s5) := parse_map_tok f E raw_on false s4 in
      NOk ((k, v) :: es, s5)
    end
  end.

(* from_trait::<_, Value> *)
Definition from_input_tok (E : env) (raw_on : bool) (input : bytes) : nres value :=
  let% (v, s1) := parse_value_tok (value_fuel input) E raw_on (init_st input) in
  let% _ := of_res (de_end E s1) in
  NOk v.

(* line / column as reported ([NumberTarget.vres_of_nres]) *)
Definition from_input_tok_v (E : env) (raw_on : bool) (input : bytes) : vres value :=
  vres_of_nres input (from_input_tok E raw_on input).
