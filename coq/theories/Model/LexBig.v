(* Model/LexBig.v — the big-integer arithmetic of src/lexical AT LIMB LEVEL (math.rs, bignum.rs, the parts of bhcomp.rs
   that drive it), for the configuration `cfg(fast_arithmetic = "64")`:  Limb = u64, Wide = u128.

   Model/Lex.v abstracts `Bigint` to [Z].  This file is the other side of that abstraction: a limb is an [N] (< 2^64 on
   every path the code can take), a big integer is a [list N] in little-endian order (the `Vec<Limb>` of `Bigint`), and
   every function of math.rs that bhcomp.rs can reach is mirrored with its wrapping / carry arithmetic written out:

     u64 `+`, `-` that wrap            `wrap64 ..` (= `.. mod LB`, LB = 2^64)
     `overflowing_add/sub`             (wrap64 sum, carry flag)
     u128 `Wide` products              computed under `wrap128` (= mod 2^128), then split into  lo = wrap64 z,  hi = wrap64 (z >> 64)
     `<<` on a u64                     `wrap64 (N.shiftl ..)`

   PANICS.  Every Rust operation that can panic is an explicit failure ([None]):
     * indexing `x[i]`, `&x[a..]`, `&x[..b]` out of bounds                      (nth_error / set_nth / explicit length tests),
     * usize subtractions that would underflow (`x.len() - xstart`, `len - rindex`, `self.len() - 2`): with
       overflow checks they panic; without, the next slice operation panics — so [None] in both builds,
     * `debug_assert!`s (u64_to_hi64_1/2: r0 != 0; ishl_bits: n < 64; ishl_limbs: n != 0; imul_pow5: bit_length <= 13;
       isub: x >= y; isub_impl's precondition).  The harness is built with debug assertions, so these are part of the
       behaviour the model is compared with; each is marked `debug_assert` below, with what a release build would do.
     * `Option::unwrap` of `to_digit` in parse_mantissa.
   Loops over iterators (`for xi in &mut *x`, `zip`) cannot index out of bounds and are structural recursions on the
   lists; `while` loops with explicit indices use `nth_error`/`set_nth` and a fuel that is the obvious bound on the
   number of iterations (running out of fuel is also [None]; Proofs/LexBigRefine.v shows that neither happens).

   Proofs/LexBigRefine*.v prove that each operation computes the [Z] operation that Model/Lex.v uses in its place.

   Definitions only. *)
From Coq Require Import NArith ZArith List Bool Arith.
From SJ Require Import Gen.LexTables Model.Lex.
Import ListNotations.
Open Scope N_scope.

(* ------------------------------------------------------------------------------------------------ *)
(** * Limb = u64, Wide = u128, usize = 64 bits *)
Definition LB : N := 18446744073709551616.                             (* 2^64 *)
Definition WB : N := 340282366920938463463374607431768211456.          (* 2^128 *)
Definition LIMB_BITS : N := 64.                                        (* mem::size_of::<Limb>() * 8 *)

(* truncation to 64 / 128 bits (`as_limb`, wrapping u64 / u128 arithmetic):  wrap64 z = z mod 2^64, wrap128 z = z mod 2^128
   (Proofs/LexBigRefine.v: wrap64_mod, wrap128_mod).  Written with a mask rather than [N.modulo] only because the mask is
   linear in the size of z where the binary long division of [N.modulo] is quadratic — the extracted model runs these
   for every limb.  Likewise `z >> 64` is [N.shiftr z 64] = z / 2^64 (shiftr64_div). *)
Definition wrap64 (z : N) : N := N.land z 18446744073709551615.
Definition wrap128 (z : N) : N := N.land z 340282366920938463463374607431768211455.

Definition obind {A B : Type} (o : option A) (f : A -> option B) : option B :=
  match o with Some a => f a | None => None end.
Notation "'let?' x ':=' e 'in' f" := (obind e (fun x => f)) (at level 200, x pattern, e at level 100, f at level 200).

(* `x[i] = v` *)
Fixpoint set_nth (x : list N) (i : nat) (v : N) : option (list N) :=
  match x, i with
  | [], _ => None
  | _ :: r, O => Some (v :: r)
  | a :: r, S j => match set_nth r j v with Some r' => Some (a :: r') | None => None end
  end.

(* `Vec::resize(n, v)` (truncates when shorter) *)
Definition resize (x : list N) (n : nat) (v : N) : list N :=
  if (n <=? length x)%nat then firstn n x else x ++ repeat v (n - length x).

(* u64::leading_zeros (64 for 0) *)
Definition clz (x : N) : N := 64 - N.size x.

(* ------------------------------------------------------------------------------------------------ *)
(** * mod scalar *)
(* add: x.overflowing_add(y) *)
Definition scalar_add (x y : N) : N * bool := (wrap64 (x + y), LB <=? x + y).
(* iadd(&mut x, y) -> bool : the pair is (new *x, returned flag) *)
Definition scalar_iadd (x y : N) : N * bool := let t := scalar_add x y in (fst t, snd t).
(* sub: x.overflowing_sub(y) *)
Definition scalar_sub (x y : N) : N * bool := (wrap64 (x + LB - y), x <? y).
Definition scalar_isub (x y : N) : N * bool := let t := scalar_sub x y in (fst t, snd t).
(* mul: z: Wide = as_wide(x) * as_wide(y) + as_wide(carry);  (as_limb(z), as_limb(z >> 64)) *)
Definition scalar_mul (x y carry : N) : N * N :=
  let z := wrap128 (wrap128 (x * y) + carry) in
  (wrap64 z, wrap64 (N.shiftr z LIMB_BITS)).
(* imul(&mut x, y, carry) -> Limb : (new *x, returned carry) *)
Definition scalar_imul (x y carry : N) : N * N := let t := scalar_mul x y carry in (fst t, snd t).

(* ------------------------------------------------------------------------------------------------ *)
(** * mod small *)
(* the loop of small::iadd_impl:  while carry && size < x.len() { carry = scalar::iadd(&mut x[size], 1); size += 1; } *)
Fixpoint iadd_ripple (fuel : nat) (x : list N) (carry : bool) (size : nat) : option (list N * bool) :=
  if carry && (size <? length x)%nat then
    match fuel with
    | O => None
    | S f =>
      let? xi := nth_error x size in
      let '(v, c) := scalar_iadd xi 1 in
      let? x1 := set_nth x size v in
      iadd_ripple f x1 c (S size)
    end
  else Some (x, carry).

Definition small_iadd_impl (x : list N) (y : N) (xstart : nat) : option (list N) :=
  if (length x <=? xstart)%nat then Some (x ++ [y])
  else
    let? x0 := nth_error x xstart in
    let '(v, c) := scalar_iadd x0 y in
    let? x1 := set_nth x xstart v in
    let? (x2, carry) := iadd_ripple (length x) x1 c (S xstart) in
    Some (if carry then x2 ++ [1] else x2).

Definition small_iadd (x : list N) (y : N) : option (list N) := small_iadd_impl x y 0.

(* small::normalize:  while x.last() == Some(&0) { x.pop(); } *)
Fixpoint normalize (x : list N) : list N :=
  match x with
  | [] => []
  | a :: r => match normalize r with
              | [] => if a =? 0 then [] else [a]
              | r' => a :: r'
              end
  end.

(* the loop of small::isub_impl *)
Fixpoint isub_ripple (fuel : nat) (x : list N) (carry : bool) (size : nat) : option (list N * bool) :=
  if carry && (size <? length x)%nat then
    match fuel with
    | O => None
    | S f =>
      let? xi := nth_error x size in
      let '(v, c) := scalar_isub xi 1 in
      let? x1 := set_nth x size v in
      isub_ripple f x1 c (S size)
    end
  else Some (x, carry).

Definition small_isub_impl (x : list N) (y : N) (xstart : nat) : option (list N) :=
  let? x0 := nth_error x xstart in                                     (* x[xstart]; also the first conjunct of the debug_assert *)
  if negb ((y <=? x0) || (xstart + 1 <? length x)%nat) then None       (* debug_assert (release: the subtraction wraps) *)
  else
    let '(v, c) := scalar_isub x0 y in
    let? x1 := set_nth x xstart v in
    let? (x2, _) := isub_ripple (length x) x1 c (S xstart) in
    Some (normalize x2).

(* small::imul:  for xi in &mut *x { carry = scalar::imul(xi, y, carry); }  ->  (new x, final carry) *)
Fixpoint small_imul_loop (x : list N) (y carry : N) : list N * N :=
  match x with
  | [] => ([], carry)
  | xi :: r =>
    let '(lo, hi) := scalar_imul xi y carry in
    let '(r', c) := small_imul_loop r y hi in
    (lo :: r', c)
  end.
Definition small_imul (x : list N) (y : N) : list N :=
  let '(x', carry) := small_imul_loop x y 0 in
  if carry =? 0 then x' else x' ++ [carry].
Definition small_mul (x : list N) (y : N) : list N := small_imul x y.

(* leading_zeros, bit_length *)
Definition small_leading_zeros (x : list N) : N :=
  match last (map Some x) None with None => 0 | Some l => clz l end.
Definition small_bit_length (x : list N) : N :=
  let nlz := small_leading_zeros x in
  let v := LIMB_BITS * N.of_nat (length x) in
  if LB <=? v then LB - 1                                              (* checked_mul overflowed: usize::max_value() *)
  else v - nlz.

(* ishl_bits: the loop  for xi in &mut *x { tmp = *xi; *xi <<= lshift; *xi |= prev >> rshift; prev = tmp; }  ->  (new x, last prev) *)
Fixpoint ishl_bits_loop (x : list N) (lshift rshift prev : N) : list N * N :=
  match x with
  | [] => ([], prev)
  | xi :: r =>
    let v := N.lor (wrap64 (N.shiftl xi lshift)) (N.shiftr prev rshift) in
    let '(r', p) := ishl_bits_loop r lshift rshift xi in
    (v :: r', p)
  end.
Definition small_ishl_bits (x : list N) (n : N) : option (list N) :=
  if LIMB_BITS <=? n then None                                         (* debug_assert!(n < bits) (release: `bits - n` underflows) *)
  else if n =? 0 then Some x
  else
    let rshift := LIMB_BITS - n in
    let lshift := n in
    let '(x', prev) := ishl_bits_loop x lshift rshift 0 in
    let carry := N.shiftr prev rshift in
    Some (if carry =? 0 then x' else x' ++ [carry]).

Definition small_ishl_limbs (x : list N) (n : nat) : option (list N) :=
  if (n =? 0)%nat then None                                            (* debug_assert!(n != 0) (release: no-op) *)
  else Some (match x with [] => [] | _ => repeat 0 n ++ x end).

Definition small_ishl (x : list N) (n : N) : option (list N) :=
  let rem := n mod LIMB_BITS in
  let div := n / LIMB_BITS in
  let? x1 := small_ishl_bits x rem in
  if div =? 0 then Some x1 else small_ishl_limbs x1 (N.to_nat div).

(* ------------------------------------------------------------------------------------------------ *)
(** * mod large *)
(* compare: equal lengths, from the most significant limb down *)
Fixpoint compare_loop (xr yr : list N) : comparison :=           (* xr, yr : the reversed vectors, zipped *)
  match xr, yr with
  | xi :: xt, yi :: yt => if yi <? xi then Gt else if xi <? yi then Lt else compare_loop xt yt
  | _, _ => Eq
  end.
Definition large_compare (x y : list N) : comparison :=
  if (length y <? length x)%nat then Gt
  else if (length x <? length y)%nat then Lt
  else compare_loop (rev x) (rev y).
Definition large_less (x y : list N) : bool := match large_compare x y with Lt => true | _ => false end.
Definition large_greater_equal (x y : list N) : bool := negb (large_less x y).

(* iadd_impl: the loop over  x[xstart..].iter_mut().zip(y.iter())  ->  (new x[xstart..], carry) *)
Fixpoint large_iadd_loop (xs ys : list N) (carry : bool) : list N * bool :=
  match xs, ys with
  | xi :: xr, yi :: yr =>
    let '(v, c1) := scalar_iadd xi yi in
    let '(v', tmp) := if carry then (let '(v2, c2) := scalar_iadd v 1 in (v2, c1 || c2)) else (v, c1) in
    let '(r, c) := large_iadd_loop xr yr tmp in
    (v' :: r, c)
  | _, _ => (xs, carry)
  end.
Definition large_iadd_impl (x y : list N) (xstart : nat) : option (list N) :=
  if (length x <? xstart)%nat then None                                (* `x.len() - xstart` / `x[xstart..]` *)
  else
    let x1 := if (length x - xstart <? length y)%nat then resize x (length y + xstart) 0 else x in
    let '(t, carry) := large_iadd_loop (skipn xstart x1) y false in
    let x2 := firstn xstart x1 ++ t in
    if carry then small_iadd_impl x2 1 (length y + xstart) else Some x2.
Definition large_iadd (x y : list N) : option (list N) := large_iadd_impl x y 0.
Definition large_add (x y : list N) : option (list N) := large_iadd x y.

(* isub: the loop over x.iter_mut().zip(y.iter()) *)
Fixpoint large_isub_loop (xs ys : list N) (carry : bool) : list N * bool :=
  match xs, ys with
  | xi :: xr, yi :: yr =>
    let '(v, c1) := scalar_isub xi yi in
    let '(v', tmp) := if carry then (let '(v2, c2) := scalar_isub v 1 in (v2, c1 || c2)) else (v, c1) in
    let '(r, c) := large_isub_loop xr yr tmp in
    (v' :: r, c)
  | _, _ => (xs, carry)
  end.
Definition large_isub (x y : list N) : option (list N) :=
  if negb (large_greater_equal x y) then None                          (* debug_assert!(greater_equal(x, y)) (release: wraps) *)
  else
    let '(x1, carry) := large_isub_loop x y false in
    if carry then small_isub_impl x1 1 (length y) else Some (normalize x1).

(* long_mul *)
Fixpoint long_mul_loop (z x ys : list N) (i : nat) : option (list N) :=     (* for (i, &yi) in y[1..].iter().enumerate() *)
  match ys with
  | [] => Some z
  | yi :: r =>
    let zi := small_mul x yi in
    let? z1 := large_iadd_impl z zi (i + 1) in
    long_mul_loop z1 x r (S i)
  end.
Definition long_mul (x y : list N) : option (list N) :=
  let? y0 := nth_error y 0 in                                          (* y[0] *)
  let z := resize (small_mul x y0) (length x + length y) 0 in
  let? z1 := long_mul_loop z x (skipn 1 y) 0 in                        (* y[1..] is in range once y[0] was *)
  Some (normalize z1).

(* karatsuba_split: (&z[..m], &z[m..]) *)
Definition karatsuba_split (z : list N) (m : nat) : option (list N * list N) :=
  if (length z <? m)%nat then None else Some (firstn m z, skipn m z).

(* the loop of karatsuba_uneven_mul, over the multiplication it calls *)
Fixpoint uneven_loop (mulf : list N -> list N -> option (list N)) (lfuel : nat)
         (result x y : list N) (start : nat) : option (list N) :=
  match y with
  | [] => Some result
  | _ :: _ =>
    match lfuel with
    | O => None
    | S lf =>
      let m := Nat.min (length x) (length y) in
      let? (yl, yh) := karatsuba_split y m in
      let? prod := mulf x yl in
      let? r := large_iadd_impl result prod start in
      uneven_loop mulf lf r x yh (start + m)
    end
  end.

(* karatsuba_mul and karatsuba_uneven_mul (mutually recursive in Rust; the fuel bounds the recursion depth) *)
Fixpoint karatsuba_mul (fuel : nat) (x y : list N) : option (list N) :=
  match fuel with
  | O => None
  | S f =>
    if (length y <=? KARATSUBA_CUTOFF)%nat then long_mul x y
    else if (length x <? length y / 2)%nat then
      (* karatsuba_uneven_mul(x, y) *)
      let result := resize [] (length x + length y) 0 in
      let? r := uneven_loop (karatsuba_mul f) (S (length y)) result x y 0 in
      Some (normalize r)
    else
      let m := (length y / 2)%nat in
      let? (xl, xh) := karatsuba_split x m in
      let? (yl, yh) := karatsuba_split y m in
      let? sumx := large_add xl xh in
      let? sumy := large_add yl yh in
      let? z0 := karatsuba_mul f xl yl in
      let? z1 := karatsuba_mul f sumx sumy in
      let? z2 := karatsuba_mul f xh yh in
      let? z1a := large_isub z1 z2 in
      let? z1b := large_isub z1a z0 in
      (* len = z0.len().max(m + z1.len()).max(2*m + z2.len());  result.reserve_exact(len - result.len()): len >= z0.len() *)
      let? r1 := large_iadd_impl z0 z1b m in
      large_iadd_impl r1 z2 (2 * m)
  end.
Definition karatsuba_uneven_mul (fuel : nat) (x y : list N) : option (list N) :=
  let result := resize [] (length x + length y) 0 in
  let? r := uneven_loop (karatsuba_mul fuel) (S (length y)) result x y 0 in
  Some (normalize r).

(* recursion depth: every level at least halves y.len() (up to one limb); 2 * (bits of the length) + 4 is ample *)
Definition karatsuba_fuel (x y : list N) : nat := (2 * (length x + length y) + 4)%nat.

Definition karatsuba_mul_fwd (x y : list N) : option (list N) :=
  if (length x <? length y)%nat then karatsuba_mul (karatsuba_fuel x y) x y
  else karatsuba_mul (karatsuba_fuel x y) y x.

Definition large_imul (x y : list N) : option (list N) :=
  if (length y =? 1)%nat then (let? y0 := nth_error y 0 in Some (small_imul x y0))
  else karatsuba_mul_fwd x y.

(* ------------------------------------------------------------------------------------------------ *)
(** * small::imul_pow5 (uses large::imul, so it comes after it) *)
Definition POW5_LIMB : list N := POW5_64.
Definition POW10_LIMB : list N := POW10_64.

(* while n >= step { imul(x, power); n -= step; } *)
Fixpoint pow5_small_loop (fuel : nat) (x : list N) (power : N) (n step : nat) : option (list N * nat) :=
  if (step <=? n)%nat then
    match fuel with
    | O => None
    | S f => pow5_small_loop f (small_imul x power) power (n - step) step
    end
  else Some (x, n).

(* while n != 0 { if n & bit != 0 { large::imul(x, large_powers[idx]); n ^= bit; } idx += 1; bit <<= 1; } *)
Fixpoint pow5_large_loop (fuel : nat) (x : list N) (idx : nat) (bit n : N) : option (list N) :=
  if n =? 0 then Some x
  else
    match fuel with
    | O => None
    | S f =>
      if negb (N.land n bit =? 0) then
        let? lp := nth_error LARGE_POW5_LIMBS idx in                   (* large_powers[idx] (and its debug_assert) *)
        let? x1 := large_imul x lp in
        pow5_large_loop f x1 (S idx) (wrap64 (bit * 2)) (N.lxor n bit)
      else pow5_large_loop f x (S idx) (wrap64 (bit * 2)) n
    end.

Definition small_imul_pow5 (x : list N) (n : N) : option (list N) :=    (* n : u32 *)
  if n =? 0 then Some x
  else
    let bit_length := N.to_nat (N.size n) in                           (* 32 - n.leading_zeros() *)
    (* debug_assert!(bit_length != 0 && bit_length <= large_powers.len());  large_powers[bit_length - 1] *)
    let? lp := nth_error LARGE_POW5_LIMBS (bit_length - 1) in
    if (length x + length lp <? 2 * KARATSUBA_CUTOFF)%nat then
      let step := (length POW5_LIMB - 1)%nat in
      let? power := nth_error POW5_LIMB step in
      let? (x1, n1) := pow5_small_loop (N.to_nat n) x power (N.to_nat n) step in
      let? p := nth_error POW5_LIMB n1 in
      Some (small_imul x1 p)
    else pow5_large_loop 64 x 0 1 n.

(* ------------------------------------------------------------------------------------------------ *)
(** * hi64 (impl Hi64<u64> for [u64]) *)
(* nonzero(x, rindex):  x[..len - rindex].iter().rev().any(|&x| x != 0) *)
Definition nonzero (x : list N) (rindex : nat) : option bool :=
  if (length x <? rindex)%nat then None
  else Some (existsb (fun v => negb (v =? 0)) (rev (firstn (length x - rindex) x))).

Definition u64_to_hi64_1 (r0 : N) : option (N * bool) :=
  if r0 =? 0 then None                                                 (* debug_assert!(r0 != 0) (release: `r0 << 64`) *)
  else let ls := clz r0 in Some (wrap64 (N.shiftl r0 ls), false).

Definition u64_to_hi64_2 (r0 r1 : N) : option (N * bool) :=
  if r0 =? 0 then None                                                 (* debug_assert!(r0 != 0) *)
  else
    let ls := clz r0 in
    let rs := 64 - ls in
    let v := if ls =? 0 then r0 else N.lor (wrap64 (N.shiftl r0 ls)) (N.shiftr r1 rs) in
    let n := negb (wrap64 (N.shiftl r1 ls) =? 0) in
    Some (v, n).

Definition hi64_1 (x : list N) : option (N * bool) :=
  let? r0 := nth_error x 0 in u64_to_hi64_1 r0.
Definition hi64_2 (x : list N) : option (N * bool) :=
  if (length x <? 2)%nat then None                                     (* self.len() - 2 *)
  else
    let? r0 := nth_error x (length x - 1) in
    let? r1 := nth_error x (length x - 2) in
    let? (v, n) := u64_to_hi64_2 r0 r1 in
    let? nz := nonzero x 2 in
    Some (v, n || nz).
Definition hi64_3 (x : list N) : option (N * bool) := hi64_2 x.
Definition hi64 (x : list N) : option (N * bool) :=
  match length x with
  | 0%nat => Some (0, false)
  | 1%nat => hi64_1 x
  | 2%nat => hi64_2 x
  | _ => hi64_3 x
  end.

(* ------------------------------------------------------------------------------------------------ *)
(** * trait Math (for Bigint { data: Vec<Limb> }) *)
Definition big_compare (x y : list N) : comparison := large_compare x y.
Definition bit_length (x : list N) : N := small_bit_length x.
Definition from_u64 (x : N) : list N := normalize [x].                 (* split_u64(x) = [as_limb(x)] *)
Definition iadd_small (x : list N) (y : N) : option (list N) := small_iadd x y.
Definition imul_small (x : list N) (y : N) : list N := small_imul x y.
Definition ishl (x : list N) (n : N) : option (list N) := small_ishl x n.
Definition imul_pow2 (x : list N) (n : N) : option (list N) := ishl x n.              (* n : u32, `n as usize` *)
Definition imul_pow5 (x : list N) (n : N) : option (list N) := small_imul_pow5 x n.
Definition imul_pow10 (x : list N) (n : N) : option (list N) :=
  let? x1 := imul_pow5 x n in imul_pow2 x1 n.

(* ------------------------------------------------------------------------------------------------ *)
(** * bhcomp.rs at limb level *)
Definition to_digit (c : N) : option N := if (48 <=? c) && (c <=? 57) then Some (c - 48) else None.

(* the state of the digit loop of parse_mantissa *)
Record pm_state := mkPM { pm_counter : nat; pm_value : N; pm_i : nat; pm_result : list N }.

(* for &digit in integer.iter().chain(fraction) { ... if i == max_digits { break; } } *)
Fixpoint pm_loop (ds : list N) (step max_digits : nat) (s : pm_state) : option pm_state :=
  match ds with
  | [] => Some s
  | digit :: r =>
    let? s1 :=
      if (pm_counter s =? step)%nat then
        let? p := nth_error POW10_LIMB (pm_counter s) in               (* small_powers[counter] *)
        let? r1 := iadd_small (imul_small (pm_result s) p) (pm_value s) in
        Some (mkPM 0 0 (pm_i s) r1)
      else Some s in
    let? d := to_digit digit in                                        (* to_digit(digit).unwrap() *)
    let value := wrap64 (wrap64 (pm_value s1 * 10) + d) in             (* value *= 10; value += as_limb(d) *)
    let s2 := mkPM (S (pm_counter s1)) value (S (pm_i s1)) (pm_result s1) in
    if (pm_i s2 =? max_digits)%nat then Some s2 else pm_loop r step max_digits s2
  end.

Definition parse_mantissa_l (k : fkind) (integer fraction : list N) : option (list N) :=
  let step := (length POW10_LIMB - 2)%nat in
  let max_digits := (MAX_DIGITS k - 1)%nat in
  let ds := integer ++ fraction in
  let? s := pm_loop ds step max_digits (mkPM 0 0 0 []) in
  let? r1 :=
    if negb (pm_counter s =? 0)%nat then
      let? p := nth_error POW10_LIMB (pm_counter s) in
      iadd_small (imul_small (pm_result s) p) (pm_value s)
    else Some (pm_result s) in
  if (pm_i s <? length integer + length fraction)%nat then
    let r2 := imul_small r1 10 in
    if existsb (fun d => negb (d =? 48)) (skipn (pm_i s) ds) then iadd_small r2 1 else Some r2
  else Some r1.

(* large_atof: the exponent is `exponent as u32` of an i32 that is >= 0 on this path *)
Definition large_atof_l (k : fkind) (mantissa : list N) (exponent : Z) : option N :=
  let? bigmant := imul_pow10 mantissa (Z.to_N exponent) in
  let? (m, is_truncated) := hi64 bigmant in
  let e := (Z.of_N (bit_length bigmant) - 64)%Z in
  Some (into_float_bits k (round_to_native k (bh_round_nearest_tie_even is_truncated) (mkEF m e))).

Definition small_atof_l (k : fkind) (mantissa : list N) (exponent : Z) (f : N) : option N :=
  let theor := bh_extended k f in
  let theor_digits := from_u64 (mant theor) in
  let binary_exp := (exp theor - exponent)%Z in
  let halfradix_exp := (- exponent)%Z in
  let? theor_digits :=
    if negb (halfradix_exp =? 0)%Z then imul_pow5 theor_digits (Z.to_N halfradix_exp) else Some theor_digits in
  (* radix_exp = 0: `if radix_exp != 0 { imul_pow10 }` is dead *)
  let? (real_digits, theor_digits) :=
    if (0 <? binary_exp)%Z then (let? t := imul_pow2 theor_digits (Z.to_N binary_exp) in Some (mantissa, t))
    else if (binary_exp <? 0)%Z then (let? r := imul_pow2 mantissa (Z.to_N (- binary_exp)) in Some (r, theor_digits))
    else Some (mantissa, theor_digits) in
  Some (match big_compare real_digits theor_digits with
        | Gt => f_next_positive f
        | Lt => f
        | Eq => f_round_positive_even k f
        end).

Definition bhcomp_l (k : fkind) (b : N) (integer fraction : list N) (exponent : Z) : option N :=
  let integer_digits := length integer in
  let fraction_digits := length fraction in
  let digits_start := match integer_digits with O => count_leading_zeros fraction | S _ => O end in
  let fraction1 := skipn digits_start fraction in
  let sci_exp := scientific_exponent exponent integer_digits digits_start in
  let count := Nat.min (MAX_DIGITS k) (integer_digits + fraction_digits - digits_start) in
  let scaled_exponent := (sci_exp + 1 - Z.of_nat count)%Z in
  let? mantissa := parse_mantissa_l k integer fraction1 in
  if (0 <=? scaled_exponent)%Z then large_atof_l k mantissa scaled_exponent
  else small_atof_l k mantissa scaled_exponent b.
