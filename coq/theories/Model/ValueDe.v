(* Model/ValueDe.v — deserialising FROM a Value: src/value/de.rs and the Deserializer impls of src/number.rs.

     src/value/de.rs   impl Deserializer for Value               -> [de_value_owned]
                       impl Deserializer for &'de Value          -> [de_value_ref]
                       (the two impls are written separately in the crate and are modelled separately here, function for
                        function: visit_array / visit_array_ref, Map::deserialize_any / &Map::deserialize_any,
                        Map::deserialize_enum / &Map::deserialize_enum, EnumDeserializer + VariantDeserializer /
                        EnumRefDeserializer + VariantRefDeserializer, SeqDeserializer / SeqRefDeserializer,
                        MapDeserializer / MapRefDeserializer; their agreement is a theorem: Proofs/ValueDeRef.v)
                       MapKeyDeserializer { key: Cow<str> } (ONE impl in the crate, used by both map deserializers with
                        Cow::Owned / Cow::Borrowed)             -> [de_value_key]
                       deserialize_numeric_key!                  -> [vkey_numeric]
                       BorrowedCowStrDeserializer, UnitOnly, KeyClassifier, impl Deserialize for Value (ValueVisitor)
     src/number.rs     impl Deserializer for Number / &Number: deserialize_any!, deserialize_number!
                       (default build: by variant; arbitrary_precision: the text is parsed)  -> [number_any], [number_de_*]
                       NumberDeserializer, NumberFieldDeserializer, NumberFromString, impl Deserialize for Number's visitor
                       where the Value visitor reaches them

   The visitor side is the universal seed of DESIGN.md A.7, i.e. the SAME visitor definitions as Model/DeTyped.v
   ([visit_int], [visit_f64], [visit_f32], [visit_char], [visit_string], [visit_borrowed_only], [visit_variant], [index_of],
   [finish_struct], [set_slot], [slot_filled], [u8s_of] are used from there, with a dummy reader state).

   Errors.  Everything `serde::de::Error::custom/invalid_type/...` builds has line = column = 0 ([VErr (Message k) 0 0]); so have the
   `Error::syntax(code, 0, 0)` errors of deserialize_numeric_key! (ExpectedNumericKey) and of number.rs (InvalidNumber).
   The only positioned errors come from the text deserializer that deserialize_numeric_key! runs on the key:
   their line/column are relative to the key text.

   ASSUMED std behaviour (as in Model/NumberM.v): str::parse::<iN/uN/f64/f32>; `f64::to_string` and ryu are parameters ([fenv]):
   their texts are input data of the model (only `Value::deserialize` of an arbitrary_precision Number looks at them).
   raw_value is not a configuration of this model: [TRaw] yields what the seed yields without that feature (a custom error). *)
From SJ Require Import Base.Bytes Base.Utf8 Base.FloatB Gen.Tables
  Model.Read Model.Str Model.Num Model.NumF32 Model.Value Model.De Model.Ignore Model.Ty Model.NumberM Model.DeTyped.
From Flocq Require Import Core BinarySingleNaN.
Open Scope N_scope.

(* ---- results ------------------------------------------------------------------------------------------------------------- *)
Inductive vres (A : Type) :=
  | VOk (a : A)
  | VErr (c : ecode) (line col : N)
  | VFuel
  | VPanic.
Arguments VOk {A} a.
Arguments VErr {A} c line col.
Arguments VFuel {A}.
Arguments VPanic {A}.

Definition vbind {A B} (r : vres A) (f : A -> vres B) : vres B :=
  match r with
  | VOk a => f a
  | VErr c l k => VErr c l k
  | VFuel => VFuel
  | VPanic => VPanic
  end.
Notation "'let&' x ':=' r 'in' k" := (vbind r (fun x => k))
  (at level 200, x pattern, r at level 100, k at level 200, right associativity).

Definition vmap {A B} (f : A -> B) (r : vres A) : vres B := let& a := r in VOk (f a).

(* serde::de::Error::{invalid_type, invalid_value, invalid_length, ...}: a data error without position *)
Definition verr {A} (k : msgkind) : vres A := VErr (Message k) 0 0.

(* ryu::Buffer::format_finite and <f64 as Display>::fmt, on bit patterns *)
Record fenv := mkFenv { ryu64 : N -> bytes; disp64 : N -> bytes }.

(* ---- the visitors of Model/DeTyped.v, called outside a reader ------------------------------------------------------------- *)
Definition st0 : st := init_st [].

Definition of_visit {A} (r : tres (A * st)) : vres A :=
  match r with
  | TOk (a, _) => VOk a
  | TUnpos k _ => verr k
  | TErr c _ => VErr c 0 0          (* the visitors never build positioned errors *)
  | TFuel => VFuel
  | TPanic => VPanic
  end.

Definition of_visit1 {A} (r : tres A) : vres A :=
  match r with
  | TOk a => VOk a
  | TUnpos k _ => verr k
  | TErr c _ => VErr c 0 0
  | TFuel => VFuel
  | TPanic => VPanic
  end.

(* a result of the TEXT deserializer run on [text] (deserialize_numeric_key!): positions are relative to [text] *)
Definition of_text {A} (text : bytes) (r : tres A) : vres A :=
  match r with
  | TOk a => VOk a
  | TUnpos k _ => verr k
  | TErr c i => match c with
                | Io _ => VErr c 0 0
                | _ => let '(line, col) := pos_of text i in VErr c line col
                end
  | TFuel => VFuel
  | TPanic => VPanic
  end.

(* ---- src/number.rs -------------------------------------------------------------------------------------------------------- *)
Definition itoa_z (z : Z) : bytes := if (z <? 0)%Z then 45 :: itoa (Z.to_N (- z)) else itoa (Z.to_N z).

Definition NUMBER_TOKEN_V : bytes :=      (* "$serde_json::private::Number" *)
  [36;115;101;114;100;101;95;106;115;111;110;58;58;112;114;105;118;97;116;101;58;58;78;117;109;98;101;114].

(* what a visitor does with the numeric visits Number::deserialize_any can make *)
Record numvis (A : Type) := mkNumvis {
  nv_u64 : N -> vres A;
  nv_i64 : Z -> vres A;
  nv_u128 : Z -> vres A;
  nv_i128 : Z -> vres A;
  nv_f64 : b64 -> vres A;
  nv_number_map : bytes -> vres A       (* visit_map(NumberDeserializer { number: Some(text) }) *)
}.
Arguments mkNumvis {A}.
Arguments nv_u64 {A}. Arguments nv_i64 {A}. Arguments nv_u128 {A}. Arguments nv_i128 {A}. Arguments nv_f64 {A}. Arguments nv_number_map {A}.

(* `s.parse::<f64>()` without the finiteness filter (overflow gives an infinity) *)
Definition std_parse_f64 (l : bytes) : option b64 :=
  let '(neg, r) := strip_sign l in
  match dec_parts r with
  | None => None
  | Some (ip, fp, ex) =>
    let f := rne_decimal (digits_val (ip ++ fp) 0) (ex - Z.of_nat (length fp)) in
    Some (if neg then b64_neg f else f)
  end.

Definition b32_neg (x : b32) : b32 := Bopp x.

(* `s.parse::<f32>()` *)
Definition std_parse_f32 (l : bytes) : option b32 :=
  let '(neg, r) := strip_sign l in
  match dec_parts r with
  | None => None
  | Some (ip, fp, ex) =>
    let f := rne_decimal32 (digits_val (ip ++ fp) 0) (ex - Z.of_nat (length fp)) in
    Some (if neg then b32_neg f else f)
  end.

(* deserialize_any! : default build by variant, arbitrary_precision by what the text parses as.
   (owned: `self.n`, ref: `self.n.clone()` — the same text) *)
Definition number_any {A} (cf : cfg) (fx : fenv) (n : num) (V : numvis A) : vres A :=
  if arbitrary_precision cf then
    let s := number_text n in
    match ap_as_u64 s with
    | Some u => nv_u64 V (Z.to_N u)
    | None =>
      match ap_as_i64 s with
      | Some i => nv_i64 V i
      | None =>
        match ap_as_u128 s with
        | Some u => nv_u128 V u
        | None =>
          match ap_as_i128 s with
          | Some i => nv_i128 V i
          | None =>
            match ap_as_f64 s with
            | Some f =>
              if beq_bytes (ryu64 fx (bits_of_b64 f)) s || beq_bytes (disp64 fx (bits_of_b64 f)) s
              then nv_f64 V f
              else nv_number_map V s
            | None => nv_number_map V s
            end
          end
        end
      end
    end
  else
    match n with
    | NPos u => nv_u64 V u
    | NNeg i => nv_i64 V i
    | NFloat f => nv_f64 V f
    | NLit _ => VPanic                   (* no such Number in this build *)
    end.

Definition int_signed (t : intty) : bool :=
  match t with I8 | I16 | I32 | I64 | I128 => true | _ => false end.

(* the numeric visitors of the seed: IntV / F64V / F32V (serde's primitive impls) *)
Definition intv (t : intty) : numvis dval :=
  mkNumvis
    (fun u => of_visit (visit_int t (PU64 u) st0))
    (fun i => of_visit (visit_int t (PI64 i) st0))
    (fun u => if in_range t u then VOk (DInt u) else verr MInvalidValue)      (* visit_u128 *)
    (fun i => if in_range t i then VOk (DInt i) else verr MInvalidValue)      (* visit_i128 *)
    (fun f => of_visit (visit_int t (PF64 f) st0))
    (fun _ => verr MInvalidType).
Definition f64v : numvis dval :=
  mkNumvis
    (fun u => of_visit (visit_f64 (PU64 u) st0))
    (fun i => of_visit (visit_f64 (PI64 i) st0))
    (fun _ => verr MInvalidType) (fun _ => verr MInvalidType)
    (fun f => of_visit (visit_f64 (PF64 f) st0))
    (fun _ => verr MInvalidType).
Definition f32v : numvis dval :=
  mkNumvis
    (fun u => of_visit (visit_f32 (PU64 u) st0))
    (fun i => of_visit (visit_f32 (PI64 i) st0))
    (fun _ => verr MInvalidType) (fun _ => verr MInvalidType)
    (fun f => of_visit (visit_f32 (PF64 f) st0))
    (fun _ => verr MInvalidType).

(* deserialize_number!(deserialize_i8 => visit_i8) ... : default build = deserialize_any; arbitrary_precision:
   `visitor.$visit(self.n.parse().map_err(|_| invalid_number())?)` — the parsed value is in the target's range, so the
   seed's visitor accepts it; the f32 / f64 arms (`finite`) reject a parse result that is not finite *)
Definition number_de_int (cf : cfg) (fx : fenv) (t : intty) (n : num) : vres dval :=
  if arbitrary_precision cf then
    match std_parse_int (int_signed t) (int_min t) (int_max t) (number_text n) with
    | Some z => VOk (DInt z)
    | None => VErr InvalidNumber 0 0
    end
  else number_any cf fx n (intv t).

Definition number_de_f64 (cf : cfg) (fx : fenv) (n : num) : vres dval :=
  if arbitrary_precision cf then
    match std_parse_f64 (number_text n) with
    | Some f => if b64_is_finite f then VOk (dfloat f)
                else VErr NumberOutOfRange 0 0      (* "never produce an infinite float": Error::syntax(NumberOutOfRange, 0, 0) *)
    | None => VErr InvalidNumber 0 0
    end
  else number_any cf fx n f64v.

Definition number_de_f32 (cf : cfg) (fx : fenv) (n : num) : vres dval :=
  if arbitrary_precision cf then
    match std_parse_f32 (number_text n) with
    | Some f => if b64_is_finite (b64_of_b32 f) then VOk (dfloat (b64_of_b32 f))         (* visit_f32: widened *)
                else VErr NumberOutOfRange 0 0
    | None => VErr InvalidNumber 0 0
    end
  else number_any cf fx n f32v.

(* ---- impl Deserialize for Value: ValueVisitor ------------------------------------------------------------------------------ *)
(* From<u64> / From<i64> for Number *)
Definition number_of_u64 (cf : cfg) (u : N) : num := if arbitrary_precision cf then NLit (itoa u) else NPos u.
Definition number_of_i64 (cf : cfg) (i : Z) : num :=
  if arbitrary_precision cf then NLit (itoa_z i) else if (i <? 0)%Z then NNeg i else NPos (Z.to_N i).

(* NumberFromString: `s.parse::<Number>().map_err(de::Error::custom)` *)
Definition number_from_string (cf : cfg) (s : bytes) : vres value :=
  match number_from_str cf s with
  | Ok n => VOk (VNum n)
  | Err _ i => let '(line, col) := pos_of s i in VErr (Message MCustom) line col   (* Error::custom re-reads " at line L column C" of the inner error (error.rs make_error) *)
  | OutOfFuel => VFuel
  | Panic => VPanic
  end.

Definition valuev (cf : cfg) (fx : fenv) : numvis value :=
  mkNumvis
    (fun u => VOk (VNum (number_of_u64 cf u)))
    (fun i => VOk (VNum (number_of_i64 cf i)))
    (* visit_u128 / visit_i128: Number::deserialize(U128Deserializer) -> Number::from_u128 *)
    (fun u => if arbitrary_precision cf then VOk (VNum (NLit (itoa_z u)))
              else if (u <=? U64_MAX)%Z then VOk (VNum (NPos (Z.to_N u))) else verr MCustom)
    (fun i => if arbitrary_precision cf then VOk (VNum (NLit (itoa_z i)))
              else if (0 <=? i)%Z && (i <=? U64_MAX)%Z then VOk (VNum (NPos (Z.to_N i)))
              else if (I64_MIN <=? i)%Z && (i <? 0)%Z then VOk (VNum (NNeg i)) else verr MCustom)
    (* visit_f64: Number::from_f64(f).map_or(Null, Number) *)
    (fun f => if b64_is_finite f
              then VOk (VNum (if arbitrary_precision cf then NLit (ryu64 fx (bits_of_b64 f)) else NFloat f))
              else VOk VNull)
    (* visit_map over NumberDeserializer: KeyClassifier sees TOKEN -> next_value::<NumberFromString>() *)
    (fun s => if arbitrary_precision cf then number_from_string cf s else VPanic).

(* Value::deserialize(value) for a Value deserializer: deserialize_any(ValueVisitor).
   The Value visitor turns visit_string / visit_borrowed_str / visit_str into the same String, so the owned and the
   by-reference deserializers drive it identically; both use this function.
   visit_seq: next_element until None (nothing remains for visit_array's length check);
   visit_map: KeyClassifier on the first key, then insert every entry into a fresh Map. *)
Fixpoint value_of_value (cf : cfg) (fx : fenv) (v : value) {struct v} : vres value :=
  match v with
  | VNull => VOk VNull
  | VBool b => VOk (VBool b)
  | VNum n => number_any cf fx n (valuev cf fx)
  | VStr s => VOk (VStr s)
  | VArr l =>
    let& xs := (fix go (l : list value) : vres (list value) :=
                  match l with
                  | [] => VOk []
                  | x :: r => let& y := value_of_value cf fx x in let& ys := go r in VOk (y :: ys)
                  end) l in
    VOk (VArr xs)
  | VObj l =>
    match l with
    | [] => VOk (VObj [])
    | (k0, x0) :: r0 =>
      if arbitrary_precision cf && beq_bytes k0 NUMBER_TOKEN_V then
        (* KeyClass::Number: `let number: NumberFromString = visitor.next_value()?` — deserialize_str on the member value *)
        let& nv := (match x0 with VStr s => number_from_string cf s | _ => verr MInvalidType end) in
        match r0 with [] => VOk nv | _ => verr MInvalidLength end          (* "fewer elements in map" *)
      else
        let& es := (fix go (l : list (bytes * value)) : vres (list (bytes * value)) :=
                      match l with
                      | [] => VOk []
                      | (k, x) :: r => let& y := value_of_value cf fx x in let& ys := go r in VOk ((k, y) :: ys)
                      end) l in
        VOk (VObj (map_of_entries (preserve_order cf) es))
    end
  end.

(* ---- MapKeyDeserializer ---------------------------------------------------------------------------------------------------- *)
(* deserialize_numeric_key!($method, $using): a text Deserializer over the key *)
Definition vkey_numeric (cf : cfg) (delegate : env -> st -> tres (dval * st)) (key : bytes) : vres dval :=
  let E := mkEnv RStr TEof cf in
  match peek E (init_st key) with
  | Ok (Some b, s1) =>
    if is_digit b || (b =? 45) then
      let& (d, s2) := of_text key (delegate E s1) in
      match peek E s2 with
      | Ok (Some _, _) => VErr ExpectedNumericKey 0 0
      | Ok (None, _) => VOk d
      | Err c _ => VErr c 0 0
      | OutOfFuel => VFuel
      | Panic => VPanic
      end
    else VErr ExpectedNumericKey 0 0
  | Ok (None, _) => VErr ExpectedNumericKey 0 0
  | Err c _ => VErr c 0 0
  | OutOfFuel => VFuel
  | Panic => VPanic
  end.

Definition lit_true_k : bytes := [116; 114; 117; 101].
Definition lit_false_k : bytes := [102; 97; 108; 115; 101].

(* seed.deserialize(MapKeyDeserializer { key }) for the key seeds.  [borrowed]: Cow::Borrowed (MapRefDeserializer) /
   Cow::Owned (MapDeserializer): BorrowedCowStrDeserializer::deserialize_any calls visit_borrowed_str / visit_string. *)
Fixpoint de_value_key (cf : cfg) (borrowed : bool) (k : kty) (key : bytes) {struct k} : vres dval :=
  match k with
  | KStr => of_visit (visit_string key borrowed st0)
  | KChar => of_visit (visit_char key borrowed st0)
  | KInt it => vkey_numeric cf (fun E => deserialize_int E it) key
  | KF32 => vkey_numeric cf deserialize_f32 key
  | KF64 => vkey_numeric cf (fun E => deserialize_number E visit_f64) key
  | KBool =>
    if beq_bytes key lit_true_k then VOk (DBool true)
    else if beq_bytes key lit_false_k then VOk (DBool false)
    else verr MInvalidType
  | KOption k1 => vmap DSome (de_value_key cf borrowed k1 key)         (* visit_some(self) *)
  | KNewtype k1 => vmap DNewtype (de_value_key cf borrowed k1 key)     (* visit_newtype_struct(self) *)
  | KUnitEnum names =>
    (* self.key.into_deserializer().deserialize_enum(..): serde's CowStrDeserializer, unit variants only *)
    let vs := map (fun n => (n, tt)) names in
    let& (name, _, _) := of_visit1 (visit_variant vs key false st0) in
    VOk (DVariant name DUnit)
  end.

(* ---- pieces shared by the two Deserializer impls (visitor side) --------------------------------------------------------------- *)
Definition pnum_of_num (n : num) : option pnum :=
  match n with NPos u => Some (PU64 u) | NNeg i => Some (PI64 i) | NFloat f => Some (PF64 f) | NLit _ => None end.

(* Vec<T>'s visit_seq over a Seq(Ref)Deserializer: next_element_seed until None; returns what remains in the iterator *)
Fixpoint seq_all (elem : value -> vres dval) (l : list value) : vres (list dval * list value) :=
  match l with
  | [] => VOk ([], [])
  | x :: r => let& d := elem x in let& (ds, rem) := seq_all elem r in VOk (d :: ds, rem)
  end.

(* TupV's visit_seq: one next_element_seed per component, None => invalid_length *)
Fixpoint seq_tuple (elem : ty -> value -> vres dval) (ts : list ty) (l : list value) : vres (list dval * list value) :=
  match ts with
  | [] => VOk ([], l)
  | t :: ts' =>
    match l with
    | [] => verr MInvalidLength
    | x :: r => let& d := elem t x in let& (ds, rem) := seq_tuple elem ts' r in VOk (d :: ds, rem)
    end
  end.

(* MapV's visit_map over a Map(Ref)Deserializer: next_key_seed / next_value_seed until None *)
Fixpoint map_all (keyf : bytes -> vres dval) (elem : value -> vres dval) (l : list (bytes * value))
    : vres (list (dval * dval) * list (bytes * value)) :=
  match l with
  | [] => VOk ([], [])
  | (k, x) :: r =>
    let& kd := keyf k in
    let& vd := elem x in
    let& (es, rem) := map_all keyf elem r in
    VOk ((kd, vd) :: es, rem)
  end.

(* StructV's visit_map: field identifier (MapKeyDeserializer::deserialize_identifier -> visit_string / visit_borrowed_str ->
   FieldSeed::visit_str), duplicate check, next_value_seed / next_value::<IgnoredAny>() (deserialize_ignored_any: visit_unit) *)
Fixpoint map_fields (elem : ty -> value -> vres dval) (fields : list (bytes * ty)) (slots : list (option dval))
    (l : list (bytes * value)) : vres (list dval * list (bytes * value)) :=
  match l with
  | [] => let& ds := of_visit1 (finish_struct fields slots st0) in VOk (ds, [])
  | (k, x) :: r =>
    match index_of k fields with
    | Some (i, t) =>
      if slot_filled i slots then verr MDuplicateField
      else let& d := elem t x in map_fields elem fields (set_slot i d slots) r
    | None => map_fields elem fields slots r
    end
  end.

Definition empty_slots (fields : list (bytes * ty)) : list (option dval) := map (fun _ => None) fields.

(* a numeric visitor (IntV / F64V / F32V) driven by Value::deserialize_any on a value that is not a number
   (arbitrary_precision builds: `_ => self.deserialize_any(visitor)`): visit_unit / visit_bool / visit_string /
   visit_seq / visit_map are all serde's defaults => invalid_type *)
Definition numeric_visitor_on_non_number : vres dval := verr MInvalidType.

(* ================================================================================================================================
   impl<'de> Deserializer<'de> for Value           (by value)
   ================================================================================================================================ *)
(* visit_array(array, visitor): the visitor's visit_seq, then `deserializer.iter.len() == 0` or invalid_length *)
Definition visit_array_owned {A} (array : list value) (visit_seq : list value -> vres (A * list value)) : vres A :=
  let& (a, rem) := visit_seq array in
  match rem with [] => VOk a | _ :: _ => verr MInvalidLength end.

(* impl Deserializer for Map<String, Value>: deserialize_any *)
Definition map_any_owned {A} (m : list (bytes * value)) (visit_map : list (bytes * value) -> vres (A * list (bytes * value))) : vres A :=
  let& (a, rem) := visit_map m in
  match rem with [] => VOk a | _ :: _ => verr MInvalidLength end.

(* Map::deserialize_enum: exactly one entry *)
Definition map_enum_owned {A} (m : list (bytes * value)) (visit_enum : bytes -> option value -> vres A) : vres A :=
  match m with
  | [] => verr MInvalidValue
  | (variant, value) :: rest =>
    match rest with
    | _ :: _ => verr MInvalidValue
    | [] => visit_enum variant (Some value)
    end
  end.

(* deserialize_number!(deserialize_$t) of value/de.rs *)
Definition value_number_owned (cf : cfg) (v : value) (on_number : num -> vres dval) : vres dval :=
  match v with
  | VNum n => on_number n
  | _ => if arbitrary_precision cf then numeric_visitor_on_non_number else verr MInvalidType
  end.

(* VariantDeserializer { value }: unit_variant / newtype_variant_seed / tuple_variant / struct_variant *)
Definition variant_payload_owned (rec : ty -> value -> vres dval) (vr : variant) (value : option value) : vres dval :=
  match vr with
  | VUnit =>                                   (* unit_variant: Some(value) => <()>::deserialize(value) *)
    match value with
    | Some x => match x with VNull => VOk DUnit | _ => verr MInvalidType end
    | None => VOk DUnit
    end
  | VNewtype t1 =>                             (* newtype_variant_seed *)
    match value with
    | Some x => rec t1 x
    | None => verr MInvalidType
    end
  | VTuple ts =>                               (* tuple_variant *)
    match value with
    | Some (VArr l) =>
      match l with
      | [] => verr MInvalidType                (* visitor.visit_unit(): TupV does not accept it *)
      | _ :: _ => vmap DSeq (visit_array_owned l (seq_tuple rec ts))
      end
    | Some _ => verr MInvalidType
    | None => verr MInvalidType
    end
  | VStruct fields =>                          (* struct_variant *)
    match value with
    | Some (VObj m) => vmap DStruct (map_any_owned m (map_fields rec fields (empty_slots fields)))
    | Some _ => verr MInvalidType
    | None => verr MInvalidType
    end
  end.

(* visitor.visit_enum(EnumDeserializer { variant, value }): variant_seed (the name through serde's StringDeserializer),
   then the payload by variant kind *)
Definition visit_enum_owned (rec : ty -> value -> vres dval) (vs : list (bytes * variant)) (variant : bytes) (value : option value) : vres dval :=
  let& (name, vr, _) := of_visit1 (visit_variant vs variant false st0) in
  vmap (DVariant name) (variant_payload_owned rec vr value).

Fixpoint de_value_owned (fuel : nat) (cf : cfg) (fx : fenv) (t : ty) (v : value) {struct fuel} : vres dval :=
  match fuel with
  | O => VFuel
  | S f =>
    let rec := de_value_owned f cf fx in
    match t with
    | TValue => vmap (fun x => DValue (Extract.Driver.show_value x)) (value_of_value cf fx v)
    | TIgnored => VOk DIgnored                     (* deserialize_ignored_any: drop(self); visit_unit *)
    | TRaw => verr MCustom                         (* the seed without the raw_value feature *)
    | TBool => match v with VBool b => VOk (DBool b) | _ => verr MInvalidType end
    | TInt it => value_number_owned cf v (number_de_int cf fx it)
    | TF32 => value_number_owned cf v (number_de_f32 cf fx)
    | TF64 => value_number_owned cf v (number_de_f64 cf fx)
    (* deserialize_char / deserialize_str / deserialize_identifier -> deserialize_string: visit_string(v) *)
    | TChar => match v with VStr s => of_visit (visit_char s false st0) | _ => verr MInvalidType end
    | TStr => match v with VStr s => of_visit (visit_string s false st0) | _ => verr MInvalidType end
    | TBorrowedStr => match v with VStr s => of_visit (visit_borrowed_only s false st0) | _ => verr MInvalidType end
    (* deserialize_bytes -> deserialize_byte_buf *)
    | TBytes =>
      match v with
      | VStr s => VOk (DBytes s)
      | VArr l => vmap (fun ds => DBytes (u8s_of ds)) (visit_array_owned l (seq_all (rec (TInt U8))))
      | _ => verr MInvalidType
      end
    | TUnit | TUnitStruct => match v with VNull => VOk DUnit | _ => verr MInvalidType end
    | TOption t1 => match v with VNull => VOk DNone | _ => vmap DSome (rec t1 v) end
    | TNewtype t1 => vmap DNewtype (rec t1 v)
    | TSeq t1 => match v with VArr l => vmap DSeq (visit_array_owned l (seq_all (rec t1))) | _ => verr MInvalidType end
    | TTuple ts | TTupleStruct ts =>
      match v with VArr l => vmap DSeq (visit_array_owned l (seq_tuple rec ts)) | _ => verr MInvalidType end
    | TMap k t1 =>
      match v with
      | VObj m => vmap DMap (map_any_owned m (map_all (de_value_key cf false k) (rec t1)))
      | _ => verr MInvalidType
      end
    | TStruct fields =>
      match v with
      | VArr l => vmap DStruct (visit_array_owned l (seq_tuple rec (map snd fields)))
      | VObj m => vmap DStruct (map_any_owned m (map_fields rec fields (empty_slots fields)))
      | _ => verr MInvalidType
      end
    | TEnum vs =>
      match v with
      | VObj m => map_enum_owned m (visit_enum_owned rec vs)
      | VStr s => visit_enum_owned rec vs s None
      | _ => verr MInvalidType
      end
    end
  end.

(* ================================================================================================================================
   impl<'de> Deserializer<'de> for &'de Value      (by reference)
   ================================================================================================================================ *)
Definition visit_array_ref {A} (array : list value) (visit_seq : list value -> vres (A * list value)) : vres A :=
  let& (a, rem) := visit_seq array in
  match rem with [] => VOk a | _ :: _ => verr MInvalidLength end.

Definition map_any_ref {A} (m : list (bytes * value)) (visit_map : list (bytes * value) -> vres (A * list (bytes * value))) : vres A :=
  let& (a, rem) := visit_map m in
  match rem with [] => VOk a | _ :: _ => verr MInvalidLength end.

Definition map_enum_ref {A} (m : list (bytes * value)) (visit_enum : bytes -> option value -> vres A) : vres A :=
  match m with
  | [] => verr MInvalidValue
  | (variant, value) :: rest =>
    match rest with
    | _ :: _ => verr MInvalidValue
    | [] => visit_enum variant (Some value)
    end
  end.

(* deserialize_value_ref_number! (and deserialize_number! for the 128-bit requests) *)
Definition value_number_ref (cf : cfg) (v : value) (on_number : num -> vres dval) : vres dval :=
  match v with
  | VNum n => on_number n
  | _ => if arbitrary_precision cf then numeric_visitor_on_non_number else verr MInvalidType
  end.

(* VariantRefDeserializer { value }: unit_variant / newtype_variant_seed / tuple_variant / struct_variant *)
Definition variant_payload_ref (rec : ty -> value -> vres dval) (vr : variant) (value : option value) : vres dval :=
  match vr with
  | VUnit =>                                   (* unit_variant: Some(value) => <()>::deserialize(value) *)
    match value with
    | Some x => match x with VNull => VOk DUnit | _ => verr MInvalidType end
    | None => VOk DUnit
    end
  | VNewtype t1 =>                             (* newtype_variant_seed *)
    match value with
    | Some x => rec t1 x
    | None => verr MInvalidType
    end
  | VTuple ts =>                               (* tuple_variant *)
    match value with
    | Some (VArr l) =>
      match l with
      | [] => verr MInvalidType                (* visitor.visit_unit(): TupV does not accept it *)
      | _ :: _ => vmap DSeq (visit_array_ref l (seq_tuple rec ts))
      end
    | Some _ => verr MInvalidType
    | None => verr MInvalidType
    end
  | VStruct fields =>                          (* struct_variant *)
    match value with
    | Some (VObj m) => vmap DStruct (map_any_ref m (map_fields rec fields (empty_slots fields)))
    | Some _ => verr MInvalidType
    | None => verr MInvalidType
    end
  end.

(* visitor.visit_enum(EnumRefDeserializer { variant, value }): variant_seed (the name through serde's StrDeserializer),
   then the payload by variant kind *)
Definition visit_enum_ref (rec : ty -> value -> vres dval) (vs : list (bytes * variant)) (variant : bytes) (value : option value) : vres dval :=
  let& (name, vr, _) := of_visit1 (visit_variant vs variant false st0) in
  vmap (DVariant name) (variant_payload_ref rec vr value).

Fixpoint de_value_ref (fuel : nat) (cf : cfg) (fx : fenv) (t : ty) (v : value) {struct fuel} : vres dval :=
  match fuel with
  | O => VFuel
  | S f =>
    let rec := de_value_ref f cf fx in
    match t with
    | TValue => vmap (fun x => DValue (Extract.Driver.show_value x)) (value_of_value cf fx v)
    | TIgnored => VOk DIgnored
    | TRaw => verr MCustom
    | TBool => match v with VBool b => VOk (DBool b) | _ => verr MInvalidType end
    | TInt it => value_number_ref cf v (number_de_int cf fx it)
    | TF32 => value_number_ref cf v (number_de_f32 cf fx)
    | TF64 => value_number_ref cf v (number_de_f64 cf fx)
    (* deserialize_char / deserialize_string / deserialize_identifier -> deserialize_str: visit_borrowed_str(v) *)
    | TChar => match v with VStr s => of_visit (visit_char s true st0) | _ => verr MInvalidType end
    | TStr => match v with VStr s => of_visit (visit_string s true st0) | _ => verr MInvalidType end
    | TBorrowedStr => match v with VStr s => of_visit (visit_borrowed_only s true st0) | _ => verr MInvalidType end
    (* deserialize_byte_buf -> deserialize_bytes: visit_borrowed_str / visit_array_ref *)
    | TBytes =>
      match v with
      | VStr s => VOk (DBytes s)
      | VArr l => vmap (fun ds => DBytes (u8s_of ds)) (visit_array_ref l (seq_all (rec (TInt U8))))
      | _ => verr MInvalidType
      end
    | TUnit | TUnitStruct => match v with VNull => VOk DUnit | _ => verr MInvalidType end
    | TOption t1 => match v with VNull => VOk DNone | _ => vmap DSome (rec t1 v) end
    | TNewtype t1 => vmap DNewtype (rec t1 v)
    | TSeq t1 => match v with VArr l => vmap DSeq (visit_array_ref l (seq_all (rec t1))) | _ => verr MInvalidType end
    | TTuple ts | TTupleStruct ts =>
      match v with VArr l => vmap DSeq (visit_array_ref l (seq_tuple rec ts)) | _ => verr MInvalidType end
    | TMap k t1 =>
      match v with
      | VObj m => vmap DMap (map_any_ref m (map_all (de_value_key cf true k) (rec t1)))
      | _ => verr MInvalidType
      end
    | TStruct fields =>
      match v with
      | VArr l => vmap DStruct (visit_array_ref l (seq_tuple rec (map snd fields)))
      | VObj m => vmap DStruct (map_any_ref m (map_fields rec fields (empty_slots fields)))
      | _ => verr MInvalidType
      end
    | TEnum vs =>
      match v with
      | VObj m => map_enum_ref m (visit_enum_ref rec vs)
      | VStr s => visit_enum_ref rec vs s None
      | _ => verr MInvalidType
      end
    end
  end.

(* ---- entry points ------------------------------------------------------------------------------------------------------------ *)
(* every recursive call is on a component of the type program (ByteBuf's elements: one more level): its nesting bounds the recursion *)
Definition value_de_fuel (t : ty) : nat := S (ty_depth t).

(* from_value::<T>(v)  =  T::deserialize(v) *)
Definition from_value_owned (cf : cfg) (fx : fenv) (t : ty) (v : value) : vres dval :=
  de_value_owned (value_de_fuel t) cf fx t v.
(* T::deserialize(&v) *)
Definition from_value_ref (cf : cfg) (fx : fenv) (t : ty) (v : value) : vres dval :=
  de_value_ref (value_de_fuel t) cf fx t v.
