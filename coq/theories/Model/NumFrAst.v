(* Model/NumFrAst.v — the statement + typed-expression language tools/translate_numfr.py translates the `float_roundtrip` twins and the
   long-literal paths of the number parser of src/de.rs into, and its interpreter:

       parse_long_integer (fr)  parse_long_decimal  parse_long_exponent  parse_decimal_overflow (fr)  f64_long_from_parts
       f64_from_parts (fr)      parse_exponent_overflow (no twin; called by parse_long_exponent)      (+ the `overflow!` macro, expanded)

   Gen/NumFrTables.v (GENERATED on every run) holds what the source says now; Proofs/NumFrSrc.v proves that the hand-written models
   (Model/Num.v `float_roundtrip (cf E) = true` branches; Model/NumF32.v for `single_precision`) are the interpretation of the translated
   bodies.  This is Model/NumParseAst.v EXTENDED; everything that language has keeps its meaning literally (the integer / f64 operations
   are NumParseAst's own functions [eval_bin], [eval_cmp], [eval_cast], [eval_m1], [eval_m2], [eval_neg], applied under [XV]).  New:

     machine state      besides the reader cursor [st]: `self.scratch : Vec<u8>` as a [bytes] value THREADED through every statement and call
                        (it is an input of every function and part of every outcome), and the read-only field `self.single_precision`.
     values             XV v (a NumParseAst value: integers with widths, f64, bool) | XS b (a `&str` / `&[u8]`: its bytes)
                        | XF32 f (f32 = Flocq binary32) | XBuf (an `itoa::Buffer`) | XO t o (an `Option<int of width t>`)
     self.single_precision                              XSingle
     self.scratch.len()                                 XScratchLen     usize; a length that does not fit usize is a [Panic] (std: <= isize::MAX)
     &self.scratch[..n]   &self.scratch[n..]            XScratchTo n / XScratchFrom n     slice indexing: n > len -> [Panic]
     self.scratch.iter().all(|&x| e)                    XScratchAll x e                    (short-circuit, left to right)
     itoa::Buffer::new()                                XBufNew
     buf.format(e)                                      XFormat buf e   e : u64;  the decimal digits of e, no sign, no leading zero = [Num.itoa]
                                                                        (itoa is an external crate: its documented behaviour is assumed)
     s.as_bytes()   s.len()                             XAsBytes s / XLen s
     a.checked_sub(b)                                   XCheckedSub a b : None when a - b leaves the type
     e as f64  with e : f32                             XCast e TF64 = [b64_of_b32] (exact)
     lexical::parse_concise_float::<F>(m, e)            XConcise F m e      m : u64, e : i32      EXTERNAL (src/lexical): given its specification,
     lexical::parse_truncated_float::<F>(i, f, e)       XTruncated F i f e  i, f : &[u8], e : i32 the correctly rounded value ([rne_decimal],
                                                        [Num.lexical_truncated], [rne_decimal32]) — exactly what Model/Num.v / Model/NumF32.v use;
                                                        Properties/C07.v (C07_concise, C07_concise32, C07_truncated, C07_truncated32) relates the
                                                        algorithm of src/lexical to this specification.
     self.scratch.clear();                              XSClear
     self.scratch.push(e);                              XSPush e                e : u8
     self.scratch.extend_from_slice(e);                 XSExtend e              e : &[u8]
     self.scratch.extend(iter::repeat(b).take(n));      XSExtendRepeat b n      b : u8, n : usize
     self.scratch.resize(n, b);                         XSResize n b            truncate to n / pad with b up to n   (not used by the current source)
     if let Some(x) = e { .. } [else { .. }]            XSIfLetSome x e a b     e : Option<int>
   and as in NumParseAst: XSEat, XSLet, XSAssign, XSIf, XSMatch, XSLetMatch, XSWhileLet, XSLoop, XSBreak, XSRet
   (R ::= Ok(e) | Err(self.error(c)) | Err(self.peek_error(c)) | self.f(e, ..)); all functions here return Result<f64>.

   Slices borrowed from `self.scratch` are values (copies): Rust's borrow checker guarantees that the vector is not modified while they live.
   Loops and calls take explicit fuel; a stuck program yields [Panic]. *)
From Coq Require Import String ZArith.
From SJ Require Import Base.Bytes Base.FloatB Model.Read Model.Num Model.NumF32 Model.NumParseAst.
From Flocq Require Import Core BinarySingleNaN.
Open Scope Z_scope.

(* ---- syntax ----------------------------------------------------------------------------- *)
Inductive fk := KF32 | KF64.            (* the F of lexical::parse_..._float::<F> *)

Inductive xexpr :=
  | XVar (x : string)
  | XInt (t : ity) (z : Z)
  | XBool (b : bool)
  | XFloat (m e : Z)
  | XBin (op : binop) (a b : xexpr)
  | XCmp (op : cmpop) (a b : xexpr)
  | XAnd (a b : xexpr)
  | XOr (a b : xexpr)
  | XNot (a : xexpr)
  | XNeg (a : xexpr)
  | XCast (a : xexpr) (t : cty)
  | XM1 (m : meth1) (a : xexpr)
  | XM2 (m : meth2) (a b : xexpr)
  | XIf (c a b : xexpr)
  | XLet (x : string) (a body : xexpr)
  | XSingle
  | XScratchLen
  | XScratchTo (n : xexpr)
  | XScratchFrom (n : xexpr)
  | XScratchAll (x : string) (body : xexpr)
  | XBufNew
  | XFormat (buf a : xexpr)
  | XAsBytes (a : xexpr)
  | XLen (a : xexpr)
  | XCheckedSub (a b : xexpr)
  | XConcise (k : fk) (m e : xexpr)
  | XTruncated (k : fk) (i f e : xexpr).

Inductive xrexpr :=
  | XROk (e : xexpr)
  | XRErr (peeked : bool) (c : ecode)         (* Err(self.error(c)) : false,  Err(self.peek_error(c)) : true *)
  | XRCall (f : string) (args : list xexpr).  (* self.f(args) *)

Inductive xstmt :=
  | XSEat
  | XSLet (x : string) (e : xexpr)
  | XSAssign (x : string) (e : xexpr)
  | XSIf (c : xexpr) (a b : list xstmt)
  | XSIfLetSome (x : string) (e : xexpr) (a b : list xstmt)
  | XSMatch (sc : scrut) (arms : list (pat * list xstmt))
  | XSLetMatch (x : string) (sc : scrut) (arms : list (pat * (list xstmt * option xexpr)))
  | XSWhileLet (p : pat) (sc : scrut) (body : list xstmt)
  | XSLoop (body : list xstmt)
  | XSBreak
  | XSClear
  | XSPush (e : xexpr)
  | XSExtend (e : xexpr)
  | XSExtendRepeat (b n : xexpr)
  | XSResize (n b : xexpr)
  | XSRet (r : xrexpr).

Record xfdef := mkXFn { xfparams : list string; xfbody : list xstmt }.
Definition xprog := list (string * xfdef).

(* ---- values, scoped locals -------------------------------------------------------------- *)
Inductive xval := XV (v : val) | XS (b : bytes) | XF32 (f : b32) | XBuf | XO (t : ity) (o : option Z).

Definition xframe := list (string * xval).
Definition xlocals := list xframe.                                      (* innermost block first *)

Fixpoint xlookup_frame (x : string) (fr : xframe) : option xval :=
  match fr with [] => None | (y, v) :: r => if String.eqb x y then Some v else xlookup_frame x r end.
Fixpoint xlookup (x : string) (l : xlocals) : option xval :=
  match l with [] => None | fr :: r => match xlookup_frame x fr with Some v => Some v | None => xlookup x r end end.
Fixpoint xassign_frame (x : string) (v : xval) (fr : xframe) : option xframe :=
  match fr with
  | [] => None
  | (y, w) :: r => if String.eqb x y then Some ((y, v) :: r)
                   else match xassign_frame x v r with Some r' => Some ((y, w) :: r') | None => None end
  end.
Fixpoint xassign (x : string) (v : xval) (l : xlocals) : option xlocals :=
  match l with
  | [] => None
  | fr :: r => match xassign_frame x v fr with
               | Some fr' => Some (fr' :: r)
               | None => match xassign x v r with Some r' => Some (fr :: r') | None => None end
               end
  end.
Definition xdeclare (x : string) (v : xval) (l : xlocals) : xlocals :=
  match l with fr :: r => ((x, v) :: fr) :: r | [] => [[(x, v)]] end.
Definition xframe_of (fr : frame) : xframe := map (fun p => (fst p, XV (snd p))) fr.

(* ---- expressions ------------------------------------------------------------------------ *)
Definition lift1 (f : val -> res val) (a : xval) : res xval :=
  match a with XV v => let* r := f v in Ok (XV r) | _ => Panic end.
Definition lift2 (f : val -> val -> res val) (a b : xval) : res xval :=
  match a, b with XV v, XV w => let* r := f v w in Ok (XV r) | _, _ => Panic end.

Definition xcast (a : xval) (t : cty) : res xval :=
  match a, t with
  | XV v, _ => let* r := eval_cast v t in Ok (XV r)
  | XF32 f, TF64 => Ok (XV (VF (b64_of_b32 f)))
  | _, _ => Panic
  end.

Definition usize_of_nat (n : nat) : res xval := let* v := checked Usize (Z.of_nat n) in Ok (XV v).

Definition checked_sub (a b : xval) : res xval :=
  match a, b with
  | XV (VInt t x), XV (VInt u y) =>
    if ity_eqb t u then Ok (XO t (if in_range t (x - y) then Some (x - y) else None)) else Panic
  | _, _ => Panic
  end.

(* lexical::parse_truncated_float::<f32>, as specified (Model/NumF32.v f64_long_from_parts_s) *)
Definition lexical_truncated32 (integer fraction : bytes) (e : Z) : b32 :=
  let fr := strip_trailing_zeros fraction in
  rne_decimal32 (digits_val (integer ++ fr) 0) (e - Z.of_nat (length fr)).

Definition concise (k : fk) (m e : xval) : res xval :=
  match m, e with
  | XV (VInt U64 sig), XV (VInt I32 x) =>
    match k with
    | KF64 => Ok (XV (VF (rne_decimal sig x)))
    | KF32 => Ok (XF32 (rne_decimal32 sig x))
    end
  | _, _ => Panic
  end.
Definition truncated (k : fk) (i f e : xval) : res xval :=
  match i, f, e with
  | XS integer, XS fraction, XV (VInt I32 x) =>
    match k with
    | KF64 => Ok (XV (VF (lexical_truncated integer fraction x)))
    | KF32 => Ok (XF32 (lexical_truncated32 integer fraction x))
    end
  | _, _, _ => Panic
  end.

Fixpoint xeval (sp : bool) (scr : bytes) (e : xexpr) (l : xlocals) {struct e} : res xval :=
  match e with
  | XVar x => match xlookup x l with Some v => Ok v | None => Panic end
  | XInt t z => let* v := checked t z in Ok (XV v)
  | XBool b => Ok (XV (VB b))
  | XFloat m x => Ok (XV (VF (rne_decimal m x)))
  | XBin op a b => let* v := xeval sp scr a l in let* w := xeval sp scr b l in lift2 (eval_bin op) v w
  | XCmp op a b => let* v := xeval sp scr a l in let* w := xeval sp scr b l in lift2 (eval_cmp op) v w
  | XAnd a b => let* v := xeval sp scr a l in
                match v with
                | XV (VB false) => Ok (XV (VB false))
                | XV (VB true) => let* w := xeval sp scr b l in match w with XV (VB c) => Ok (XV (VB c)) | _ => Panic end
                | _ => Panic
                end
  | XOr a b => let* v := xeval sp scr a l in
               match v with
               | XV (VB true) => Ok (XV (VB true))
               | XV (VB false) => let* w := xeval sp scr b l in match w with XV (VB c) => Ok (XV (VB c)) | _ => Panic end
               | _ => Panic
               end
  | XNot a => let* v := xeval sp scr a l in match v with XV (VB c) => Ok (XV (VB (negb c))) | _ => Panic end
  | XNeg a => let* v := xeval sp scr a l in lift1 eval_neg v
  | XCast a t => let* v := xeval sp scr a l in xcast v t
  | XM1 m a => let* v := xeval sp scr a l in lift1 (eval_m1 m) v
  | XM2 m a b => let* v := xeval sp scr a l in let* w := xeval sp scr b l in lift2 (eval_m2 m) v w
  | XIf c a b => let* v := xeval sp scr c l in
                 match v with XV (VB true) => xeval sp scr a l | XV (VB false) => xeval sp scr b l | _ => Panic end
  | XLet x a body => let* v := xeval sp scr a l in xeval sp scr body ([(x, v)] :: l)
  | XSingle => Ok (XV (VB sp))
  | XScratchLen => usize_of_nat (length scr)
  | XScratchTo n => let* v := xeval sp scr n l in
                    match v with
                    | XV (VInt Usize z) => if z <=? Z.of_nat (length scr) then Ok (XS (firstn (Z.to_nat z) scr)) else Panic
                    | _ => Panic
                    end
  | XScratchFrom n => let* v := xeval sp scr n l in
                      match v with
                      | XV (VInt Usize z) => if z <=? Z.of_nat (length scr) then Ok (XS (skipn (Z.to_nat z) scr)) else Panic
                      | _ => Panic
                      end
  | XScratchAll x body =>
    (fix go (bs : bytes) : res xval :=
       match bs with
       | [] => Ok (XV (VB true))
       | c :: r => let* v := xeval sp scr body ([(x, XV (VInt U8 (Z.of_N c)))] :: l) in
                   match v with XV (VB true) => go r | XV (VB false) => Ok (XV (VB false)) | _ => Panic end
       end) scr
  | XBufNew => Ok XBuf
  | XFormat buf a => let* b := xeval sp scr buf l in let* v := xeval sp scr a l in
                     match b, v with XBuf, XV (VInt U64 z) => Ok (XS (itoa (Z.to_N z))) | _, _ => Panic end
  | XAsBytes a => let* v := xeval sp scr a l in match v with XS b => Ok (XS b) | _ => Panic end
  | XLen a => let* v := xeval sp scr a l in match v with XS b => usize_of_nat (length b) | _ => Panic end
  | XCheckedSub a b => let* v := xeval sp scr a l in let* w := xeval sp scr b l in checked_sub v w
  | XConcise k m x => let* v := xeval sp scr m l in let* w := xeval sp scr x l in concise k v w
  | XTruncated k i f x => let* u := xeval sp scr i l in let* v := xeval sp scr f l in let* w := xeval sp scr x l in truncated k u v w
  end.

Fixpoint xeval_args (sp : bool) (scr : bytes) (es : list xexpr) (l : xlocals) : res (list xval) :=
  match es with
  | [] => Ok []
  | e :: r => let* v := xeval sp scr e l in let* vs := xeval_args sp scr r l in Ok (v :: vs)
  end.

(* ---- execution -------------------------------------------------------------------------- *)
Inductive xoutcome :=
  | XFall (l : xlocals) (s : st) (scr : bytes)     (* the statement / block completed; control goes on *)
  | XRetO (v : xval) (s : st) (scr : bytes)        (* the function returned Ok(v) *)
  | XBrk (l : xlocals) (s : st) (scr : bytes).     (* `break`: the innermost loop is left *)

Definition xexec_t := xstmt -> xlocals -> st -> bytes -> res xoutcome.
Definition xcall_t := string -> list xval -> st -> bytes -> res (xval * st * bytes).

Fixpoint xexec_block (ex : xexec_t) (ss : list xstmt) (l : xlocals) (s : st) (scr : bytes) : res xoutcome :=
  match ss with
  | [] => Ok (XFall l s scr)
  | x :: r => let* o := ex x l s scr in
              match o with XFall l' s' scr' => xexec_block ex r l' s' scr' | _ => Ok o end
  end.

Definition xexec_scope (ex : xexec_t) (fr : xframe) (ss : list xstmt) (l : xlocals) (s : st) (scr : bytes) : res xoutcome :=
  let* o := xexec_block ex ss (fr :: l) s scr in
  match o with
  | XFall l' s' scr' => Ok (XFall (tl l') s' scr')
  | XRetO _ _ _ => Ok o
  | XBrk l' s' scr' => Ok (XBrk (tl l') s' scr')
  end.

Fixpoint xfind_fn (fn : string) (T : xprog) : option xfdef :=
  match T with [] => None | (n, d) :: r => if String.eqb fn n then Some d else xfind_fn fn r end.

Fixpoint xparams_frame (ps : list string) (vs : list xval) : option xframe :=
  match ps, vs with
  | [], [] => Some []
  | p :: ps', v :: vs' => match xparams_frame ps' vs' with Some fr => Some ((p, v) :: fr) | None => None end
  | _, _ => None
  end.

Definition xcall_fn (ex : xexec_t) (P : xprog) : xcall_t := fun fn args s scr =>
  match xfind_fn fn P with
  | None => Panic
  | Some d =>
    match xparams_frame (xfparams d) args with
    | None => Panic
    | Some fr =>
      let* o := xexec_block ex (xfbody d) [fr] s scr in
      match o with XRetO v s' scr' => Ok (v, s', scr') | _ => Panic end
    end
  end.

Definition xeval_scrut (E : env) (sc : scrut) (l : xlocals) (s : st) : res (sval * st) :=
  match sc with
  | ScPeekOrNull => let* (b, s') := peek_or_null E s in Ok (SvByte b, s')
  | ScPeek => let* (o, s') := peek E s in Ok (SvOpt o, s')
  | ScNext => let* (o, s') := next E s in Ok (SvOpt o, s')
  | ScVar x => match xlookup x l with Some (XV (VInt U8 z)) => Ok (SvByte (Z.to_N z), s) | _ => Panic end
  end.

Definition xselect {A} (arms : list (pat * A)) (v : sval) : option (xframe * A) :=
  match select arms v with Some (fr, a) => Some (xframe_of fr, a) | None => None end.

Definition xeval_ret (call : xcall_t) (E : env) (sp : bool) (r : xrexpr) (l : xlocals) (s : st) (scr : bytes) : res xoutcome :=
  match r with
  | XROk e => let* v := xeval sp scr e l in Ok (XRetO v s scr)
  | XRErr false c => error E s c
  | XRErr true c => peek_error E s c
  | XRCall f args =>
    let* vs := xeval_args sp scr args l in
    let* (v, s', scr') := call f vs s scr in Ok (XRetO v s' scr')
  end.

Fixpoint xexec (fuel : nat) (E : env) (sp : bool) (P : xprog) (x : xstmt) (l : xlocals) (s : st) (scr : bytes) {struct fuel}
  : res xoutcome :=
  match fuel with
  | O => OutOfFuel
  | S f =>
    match x with
    | XSEat => Ok (XFall l (discard s) scr)
    | XSLet v e => let* w := xeval sp scr e l in Ok (XFall (xdeclare v w l) s scr)
    | XSAssign v e => let* w := xeval sp scr e l in
                      match xassign v w l with Some l' => Ok (XFall l' s scr) | None => Panic end
    | XSIf c a b =>
      let* w := xeval sp scr c l in
      match w with
      | XV (VB true) => xexec_scope (xexec f E sp P) [] a l s scr
      | XV (VB false) => xexec_scope (xexec f E sp P) [] b l s scr
      | _ => Panic
      end
    | XSIfLetSome v e a b =>
      let* w := xeval sp scr e l in
      match w with
      | XO t (Some z) => xexec_scope (xexec f E sp P) [(v, XV (VInt t z))] a l s scr
      | XO t None => xexec_scope (xexec f E sp P) [] b l s scr
      | _ => Panic
      end
    | XSMatch sc arms =>
      let* (v, s1) := xeval_scrut E sc l s in
      match xselect arms v with
      | Some (fr, body) => xexec_scope (xexec f E sp P) fr body l s1 scr
      | None => Panic
      end
    | XSLetMatch v sc arms =>
      let* (w, s1) := xeval_scrut E sc l s in
      match xselect arms w with
      | Some (fr, (pre, val)) =>
        let* o := xexec_block (xexec f E sp P) pre (fr :: l) s1 scr in
        match o with
        | XFall l2 s2 scr2 =>
          match val with
          | Some e => let* u := xeval sp scr2 e l2 in Ok (XFall (xdeclare v u (tl l2)) s2 scr2)
          | None => Panic
          end
        | XRetO _ _ _ => Ok o
        | XBrk l2 s2 scr2 => Ok (XBrk (tl l2) s2 scr2)
        end
      | None => Panic
      end
    | XSWhileLet p sc body =>
      let* (v, s1) := xeval_scrut E sc l s in
      match pat_match p v with
      | Some fr =>
        let* o := xexec_scope (xexec f E sp P) (xframe_of fr) body l s1 scr in
        match o with
        | XFall l' s' scr' => xexec f E sp P (XSWhileLet p sc body) l' s' scr'
        | XRetO _ _ _ => Ok o
        | XBrk l' s' scr' => Ok (XFall l' s' scr')
        end
      | None => Ok (XFall l s1 scr)
      end
    | XSLoop body =>
      let* o := xexec_scope (xexec f E sp P) [] body l s scr in
      match o with
      | XFall l' s' scr' => xexec f E sp P (XSLoop body) l' s' scr'
      | XRetO _ _ _ => Ok o
      | XBrk l' s' scr' => Ok (XFall l' s' scr')
      end
    | XSBreak => Ok (XBrk l s scr)
    | XSClear => Ok (XFall l s [])
    | XSPush e => let* w := xeval sp scr e l in
                  match w with XV (VInt U8 z) => Ok (XFall l s (scr ++ [Z.to_N z])) | _ => Panic end
    | XSExtend e => let* w := xeval sp scr e l in
                    match w with XS b => Ok (XFall l s (scr ++ b)) | _ => Panic end
    | XSExtendRepeat b n =>
      let* w := xeval sp scr b l in let* k := xeval sp scr n l in
      match w, k with
      | XV (VInt U8 z), XV (VInt Usize c) => Ok (XFall l s (scr ++ repeat (Z.to_N z) (Z.to_nat c)))
      | _, _ => Panic
      end
    | XSResize n b =>
      let* k := xeval sp scr n l in let* w := xeval sp scr b l in
      match k, w with
      | XV (VInt Usize c), XV (VInt U8 z) =>
        Ok (XFall l s (firstn (Z.to_nat c) scr ++ repeat (Z.to_N z) (Z.to_nat c - length scr)))
      | _, _ => Panic
      end
    | XSRet r => xeval_ret (xcall_fn (xexec f E sp P) P) E sp r l s scr
    end
  end.

(* calling function [fn] of program [P] with arguments [args] at cursor [s], scratch buffer [scr], `self.single_precision` = [sp] *)
Definition xrun (fuel : nat) (E : env) (sp : bool) (P : xprog) (fn : string) (args : list xval) (s : st) (scr : bytes)
  : res (xval * st * bytes) :=
  xcall_fn (xexec fuel E sp P) P fn args s scr.

(* what the caller of the number parser observes: the value and the cursor (the scratch buffer is an internal work area) *)
Definition observe (r : res (xval * st * bytes)) : res (xval * st) :=
  match r with Ok (v, s, _) => Ok (v, s) | Err c i => Err c i | OutOfFuel => OutOfFuel | Panic => Panic end.
