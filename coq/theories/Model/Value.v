(* Model/Value.v — serde_json::Value / Number / Map as data.
   An object is the list of its entries in iteration order (BTreeMap: ascending byte-lexicographic keys;
   IndexMap under preserve_order: insertion order). *)
From SJ Require Import Base.Bytes Base.FloatB.
Open Scope N_scope.

Inductive num :=
  | NPos (n : N)          (* N::PosInt(u64) *)
  | NNeg (z : Z)          (* N::NegInt(i64), always negative *)
  | NFloat (f : b64)      (* N::Float(f64), always finite *)
  | NLit (s : bytes).     (* arbitrary_precision: the literal *)

Inductive value :=
  | VNull
  | VBool (b : bool)
  | VNum (n : num)
  | VStr (s : bytes)
  | VArr (l : list value)
  | VObj (l : list (bytes * value)).

(* BTreeMap<String, Value>::insert on a sorted association list: replace in place or insert in order *)
Fixpoint bt_insert {A} (k : bytes) (v : A) (m : list (bytes * A)) : list (bytes * A) :=
  match m with
  | [] => [(k, v)]
  | (k', v') :: m' =>
    if beq_bytes k k' then (k, v) :: m'
    else if bytes_ltb k k' then (k, v) :: (k', v') :: m'
    else (k', v') :: bt_insert k v m'
  end.

(* IndexMap::insert: replace the value in place (keeping the slot) or push at the end *)
Fixpoint ix_insert {A} (k : bytes) (v : A) (m : list (bytes * A)) : list (bytes * A) :=
  match m with
  | [] => [(k, v)]
  | (k', v') :: m' => if beq_bytes k k' then (k', v) :: m' else (k', v') :: ix_insert k v m'
  end.

Definition map_insert {A} (preserve : bool) (k : bytes) (v : A) (m : list (bytes * A)) :=
  if preserve then ix_insert k v m else bt_insert k v m.

(* the Value visitor's visit_map: insert the entries in arrival order into an empty Map *)
Definition map_of_entries {A} (preserve : bool) (es : list (bytes * A)) : list (bytes * A) :=
  fold_left (fun m kv => map_insert preserve (fst kv) (snd kv) m) es [].
