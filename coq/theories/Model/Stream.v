(* Model/Stream.v — StreamDeserializer::next over Value items (src/de.rs).
   State: the deserializer cursor, `offset`, `failed`.  For SliceRead/StrRead `set_failed` truncates
   the input at the current index (so later reads see EOF); for IoRead it sets the flag which
   `next` checks first (should_early_return_if_failed). *)
From SJ Require Import Base.Bytes Gen.Tables Model.Read Model.Str Model.Num Model.Value Model.De Model.Ignore.
Open Scope N_scope.

Inductive item := IVal (v : value) | IErr (c : ecode) (idx : nat) | IBad (* fuel/panic *).

Record sstate := mkSS { ss_st : st; ss_off : nat; ss_failed : bool }.

Definition is_delim (b : byte) : bool := existsb (N.eqb b) DELIM_SET.

(* peek_end_of_value *)
Definition peek_end_of_value (E : env) (s : st) : res st :=
  let* (o, s1) := peek E s in
  match o with
  | None => Ok s1
  | Some b => if is_delim b then Ok s1 else peek_error E s1 TrailingCharacters
  end.

Definition set_failed (E : env) (ss : sstate) : sstate :=
  if is_io E then mkSS (ss_st ss) (ss_off ss) true
  else let s := ss_st ss in mkSS (mkSt [] (off s) (pk s) (depth s)) (ss_off ss) (ss_failed ss).

Definition res_item {A} (r : res A) : item :=
  match r with Err c i => IErr c i | _ => IBad end.

(* one call of next(): (Some item | None, new state).  [itemp] parses one item (Value or IgnoredAny). *)
Definition stream_next (E : env) (itemp : env -> st -> res (value * st)) (ss : sstate) : option item * sstate :=
  if is_io E && ss_failed ss then (None, ss)
  else
    match parse_whitespace E (ss_st ss) with
    | Ok (None, s1) => (None, mkSS s1 (off s1) (ss_failed ss))
    | Ok (Some b, s1) =>
      let self_delineated := (b =? 91) || (b =? 34) || (b =? 123) in
      let ss1 := mkSS s1 (off s1) (ss_failed ss) in
      match itemp E s1 with
      | Ok (v, s2) =>
        let ss2 := mkSS s2 (off s2) (ss_failed ss) in
        if self_delineated then (Some (IVal v), ss2)
        else match peek_end_of_value E s2 with
             | Ok s3 => (Some (IVal v), mkSS s3 (off s2) (ss_failed ss))
             | Err (Io k) i => (Some (IErr (Io k) i), set_failed E ss2)    (* an I/O error while looking ahead is terminal *)
             | r => (Some (res_item r), ss2)
             end
      | r => (Some (res_item r), set_failed E ss1)
      end
    | r => (Some (res_item r), set_failed E ss)
    end.

Definition value_item (E : env) (s : st) : res (value * st) := parse_value (value_fuel (rest s)) E s.
Definition ignored_item (E : env) (s : st) : res (value * st) :=
  let* s1 := ignore_value E s in Ok (VNull, s1).

(* a history of n calls: each observation is (item option, byte_offset() after the call) *)
Fixpoint stream_run (n : nat) (E : env) (itemp : env -> st -> res (value * st)) (ss : sstate) : list (option item * nat) :=
  match n with
  | O => []
  | S n' => let '(it, ss') := stream_next E itemp ss in (it, ss_off ss') :: stream_run n' E itemp ss'
  end.

Definition stream_init (input : bytes) : sstate := mkSS (init_st input) 0 false.
