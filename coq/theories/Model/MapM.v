(* Model/MapM.v — serde_json::Map<String, Value> (src/map.rs) over its two backing stores, as data.

   A map is the list of its entries in ITERATION order ([mapstate]).
     default configuration : alloc::collections::BTreeMap<String, Value>   (entries ascending by key, byte-lexicographic)
     preserve_order        : indexmap::IndexMap<String, Value>             (entries in insertion order)
   The two stores are external crates: their operations are MODELLED here from their documentation
   (bt_* / ix_* below) and checked against the real crates by the correspondence check; what is mirrored
   function for function is the wrapper src/map.rs, i.e. WHICH backing operation each public method
   chooses per feature ([step]), plus the hand-written `Hash for Map`, `Number`'s PartialEq / Hash
   (src/number.rs) and the derived PartialEq / Hash of `Value` and `Value::sort_all_objects`
   (src/value/mod.rs).
   Definitions only. *)
From SJ Require Import Base.Bytes Base.FloatB Model.Value.
From SJ Require Export Spec.Dict.
From Flocq Require Import Core BinarySingleNaN.
Open Scope N_scope.

Definition mapstate := list (bytes * value).
Definition m_init : mapstate := [].

(* ------------------------------------------------------------------ lookups (both stores) *)
Fixpoint al_get {A} (k : bytes) (m : list (bytes * A)) : option A :=
  match m with
  | [] => None
  | (k', v) :: m' => if beq_bytes k k' then Some v else al_get k m'
  end.
Definition al_mem {A} (k : bytes) (m : list (bytes * A)) : bool :=
  match al_get k m with Some _ => true | None => false end.
(* get_mut / IndexMut / OccupiedEntry::get_mut: rewrite the value stored under k, in place *)
Fixpoint al_update {A} (k : bytes) (g : A -> A) (m : list (bytes * A)) : list (bytes * A) :=
  match m with
  | [] => []
  | (k', v) :: m' => if beq_bytes k k' then (k', g v) :: m' else (k', v) :: al_update k g m'
  end.

(* ------------------------------------------------------------------ BTreeMap *)
(* insert: Model.Value.bt_insert *)
Fixpoint bt_remove {A} (k : bytes) (m : list (bytes * A)) : list (bytes * A) :=
  match m with
  | [] => []
  | (k', v) :: m' => if beq_bytes k k' then m' else (k', v) :: bt_remove k m'
  end.
(* BTreeMap::append: "if a key from other is already present in self, the respective value from self
   will be overwritten with the respective value from other" *)
Definition bt_append {A} (m other : list (bytes * A)) : list (bytes * A) :=
  fold_left (fun acc kv => bt_insert (fst kv) (snd kv) acc) other m.
Definition bt_extend {A} (m : list (bytes * A)) (es : list (bytes * A)) : list (bytes * A) :=
  fold_left (fun acc kv => bt_insert (fst kv) (snd kv) acc) es m.

(* ------------------------------------------------------------------ IndexMap *)
(* insert: Model.Value.ix_insert *)
(* swap_remove: like Vec::swap_remove, the last entry takes the place of the removed one *)
Fixpoint ix_swap_remove {A} (k : bytes) (m : list (bytes * A)) : list (bytes * A) :=
  match m with
  | [] => []
  | (k', v) :: m' =>
    if beq_bytes k k' then
      match m' with
      | [] => []
      | _ :: _ => last m' (k', v) :: removelast m'
      end
    else (k', v) :: ix_swap_remove k m'
  end.
(* shift_remove: like Vec::remove *)
Fixpoint ix_shift_remove {A} (k : bytes) (m : list (bytes * A)) : list (bytes * A) :=
  match m with
  | [] => []
  | (k', v) :: m' => if beq_bytes k k' then m' else (k', v) :: ix_shift_remove k m'
  end.
(* shift_insert (indexmap 2.x): an existing key gets the new value and is MOVED to `index` (index < len
   asserted); a new key is inserted at `index` (index <= len asserted).  None = the assertion panics,
   before anything is modified. *)
Definition ix_shift_insert {A} (i : nat) (k : bytes) (v : A) (m : list (bytes * A)) : option (list (bytes * A)) :=
  if al_mem k m then
    if Nat.ltb i (length m) then
      let m' := ix_shift_remove k m in Some (firstn i m' ++ (k, v) :: skipn i m')
    else None
  else
    if Nat.leb i (length m) then Some (firstn i m ++ (k, v) :: skipn i m) else None.
Definition ix_extend {A} (m : list (bytes * A)) (es : list (bytes * A)) : list (bytes * A) :=
  fold_left (fun acc kv => ix_insert (fst kv) (snd kv) acc) es m.
(* sort_unstable_keys, and the `kv.sort_unstable_by(|a, b| a.0.cmp(b.0))` of `Hash for Map`:
   keys are distinct, so every sort gives the same answer; insertion sort *)
Fixpoint sort_ins {A} (kv : bytes * A) (l : list (bytes * A)) : list (bytes * A) :=
  match l with
  | [] => [kv]
  | x :: r => if bytes_ltb (fst x) (fst kv) then x :: sort_ins kv r else kv :: x :: r
  end.
Definition sort_by_key {A} (l : list (bytes * A)) : list (bytes * A) := fold_right sort_ins [] l.

(* ------------------------------------------------------------------ src/map.rs: the wrapper *)
(* Map::insert -> self.map.insert *)
Definition m_insert (po : bool) (k : bytes) (v : value) (m : mapstate) : mapstate := map_insert po k v m.
(* Map::remove / remove_entry: swap_remove under preserve_order, BTreeMap::remove otherwise *)
Definition m_remove (po : bool) (k : bytes) (m : mapstate) : mapstate :=
  if po then ix_swap_remove k m else bt_remove k m.
(* Map::append: preserve_order -> self.map.extend(mem::replace(&mut other.map, ..)); otherwise BTreeMap::append *)
Definition m_append (po : bool) (m other : mapstate) : mapstate :=
  if po then ix_extend m other else bt_append m other.
Definition m_extend (po : bool) (m : mapstate) (es : list (bytes * value)) : mapstate :=
  if po then ix_extend m es else bt_extend m es.
(* FromIterator: Model.Value.map_of_entries *)
(* Map::sort_keys: sort_unstable_keys under preserve_order, nothing otherwise *)
Definition m_sort_keys (po : bool) (m : mapstate) : mapstate := if po then sort_by_key m else m.
(* retain: both stores visit the entries in iteration order and keep that order *)
Definition m_retain (f : bytes -> value -> bool) (m : mapstate) : mapstate :=
  filter (fun e => f (fst e) (snd e)) m.
Definition m_map_values (g : bytes -> value -> value) (m : mapstate) : mapstate :=
  map (fun e => (fst e, g (fst e) (snd e))) m.

Definition opt_pair (k : bytes) (o : option value) : option (bytes * value) :=
  match o with Some v => Some (k, v) | None => None end.

(* OccupiedEntry methods: remove/remove_entry choose swap_remove under preserve_order *)
Definition step_occ (po : bool) (k : bytes) (v0 : value) (m : mapstate) (a : occ_act) : mapstate * obs :=
  match a with
  | OaGet => (m, OVal v0)
  | OaModify g => (al_update k g m, OVal v0)
  | OaInsert v => (al_update k (fun _ => v) m, OVal v0)
  | OaRemove => (m_remove po k m, OVal v0)
  | OaSwapRemove => (ix_swap_remove k m, OVal v0)
  | OaShiftRemove => (ix_shift_remove k m, OVal v0)
  | OaRemoveEntry => (m_remove po k m, OKV (k, v0))
  | OaSwapRemoveEntry => (ix_swap_remove k m, OKV (k, v0))
  | OaShiftRemoveEntry => (ix_shift_remove k m, OKV (k, v0))
  end.
(* VacantEntry::insert: BTreeMap puts the key in order, IndexMap appends *)
Definition step_vac (po : bool) (k : bytes) (m : mapstate) (a : vac_act) : mapstate * obs :=
  match a with
  | VaKey => (m, OUnit)
  | VaInsert v => (m_insert po k v m, OVal v)
  end.

Definition step_do (po : bool) (m : mapstate) (o : op) : mapstate * obs :=
  match o with
  | Clear => ([], OUnit)
  | Get k => (m, OOptV (al_get k m))
  | ContainsKey k => (m, OBool (al_mem k m))
  | GetKeyValue k => (m, OOptKV (opt_pair k (al_get k m)))
  | GetMut k g => (al_update k g m, OOptV (al_get k m))
  | Insert k v => (m_insert po k v m, OOptV (al_get k m))
  | ShiftInsert i k v =>
    match ix_shift_insert i k v m with
    | Some m' => (m', OOptV (al_get k m))
    | None => (m, OPanic)
    end
  | Remove k => (m_remove po k m, OOptV (al_get k m))
  | RemoveEntry k => (m_remove po k m, OOptKV (opt_pair k (al_get k m)))
  | SwapRemove k => (ix_swap_remove k m, OOptV (al_get k m))
  | SwapRemoveEntry k => (ix_swap_remove k m, OOptKV (opt_pair k (al_get k m)))
  | ShiftRemove k => (ix_shift_remove k m, OOptV (al_get k m))
  | ShiftRemoveEntry k => (ix_shift_remove k m, OOptKV (opt_pair k (al_get k m)))
  | Append es => (m_append po m (map_of_entries po es), OUnit)
  | Extend es => (m_extend po m es, OUnit)
  | FromIter es => (map_of_entries po es, OUnit)
  | EntryKey k => (m, OKeys [k])
  | EntryOrInsert k v =>
    match al_get k m with
    | Some v0 => (m, OVal v0)
    | None => (m_insert po k v m, OVal v)
    end
  | EntryOrInsertWith k v =>
    match al_get k m with
    | Some v0 => (m, OCalled false v0)
    | None => (m_insert po k v m, OCalled true v)
    end
  | EntryAndModify k g =>
    match al_get k m with
    | Some _ => (al_update k g m, OBool true)
    | None => (m, OBool false)
    end
  | EntryAndModifyOrInsert k g v =>
    match al_get k m with
    | Some v0 => (al_update k g m, OVal (g v0))
    | None => (m_insert po k v m, OVal v)
    end
  | EntryMatch k va oa =>
    match al_get k m with
    | Some v0 => let '(m', r) := step_occ po k v0 m oa in (m', OEntry true k r)
    | None => let '(m', r) := step_vac po k m va in (m', OEntry false k r)
    end
  | Len => (m, ONat (length m))
  | IsEmpty => (m, OBool (match m with [] => true | _ => false end))
  | Iter | IntoIter => (m, OEntries m)
  | IterRev => (m, OEntries (rev m))
  | Keys => (m, OKeys (map fst m))
  | KeysRev => (m, OKeys (rev (map fst m)))
  | Values | IntoValues => (m, OVals (map snd m))
  | ValuesRev => (m, OVals (rev (map snd m)))
  | IterMut g => (m_map_values g m, OUnit)
  | ValuesMut g => (m_map_values (fun _ => g) m, OUnit)
  | Retain f => (m_retain f m, OKeys (map fst m))
  | SortKeys => (m_sort_keys po m, OUnit)
  | Index k => match al_get k m with Some v => (m, OVal v) | None => (m, OPanic) end
  | IndexMut k v => match al_get k m with Some _ => (al_update k (fun _ => v) m, OUnit) | None => (m, OPanic) end
  end.

(* one call on a Map in configuration po (true = preserve_order): new state and what the caller sees *)
Definition step (po : bool) (m : mapstate) (o : op) : mapstate * obs :=
  if avail po o then step_do po m o else (m, ONa).

Fixpoint run (po : bool) (m : mapstate) (ops : list op) : mapstate * list obs :=
  match ops with
  | [] => (m, [])
  | o :: r => let '(m1, ob) := step po m o in let '(m2, obs) := run po m1 r in (m2, ob :: obs)
  end.

(* observation functions *)
Definition m_iter (m : mapstate) : list (bytes * value) := m.
Definition m_iter_rev (m : mapstate) : list (bytes * value) := rev m.
Definition m_keys (m : mapstate) : list bytes := map fst m.
Definition m_values (m : mapstate) : list value := map snd m.
Definition m_len (m : mapstate) : nat := length m.
(* abstraction to the reference dictionary: the entries, read as an association list *)
Definition abs (m : mapstate) : dict value := m.

(* ------------------------------------------------------------------ Number: PartialEq (src/number.rs:36-46) *)
Definition num_eq (a b : num) : bool :=
  match a, b with
  | NPos x, NPos y => x =? y
  | NNeg x, NNeg y => (x =? y)%Z
  | NFloat x, NFloat y => Beqb x y            (* f64 == *)
  | NLit x, NLit y => beq_bytes x y           (* arbitrary_precision: String == *)
  | _, _ => false
  end.

(* ------------------------------------------------------------------ Value: derived PartialEq; Map: PartialEq delegates to the store *)
(* BTreeMap ==: same length and equal entry by entry in iteration order.
   IndexMap ==: same length and every entry of self is found in other with an equal value. *)
Fixpoint veq (po : bool) (a b : value) {struct a} : bool :=
  match a, b with
  | VNull, VNull => true
  | VBool x, VBool y => Bool.eqb x y
  | VNum x, VNum y => num_eq x y
  | VStr x, VStr y => beq_bytes x y
  | VArr la, VArr lb =>
    (fix go (la lb : list value) {struct la} : bool :=
       match la, lb with
       | [], [] => true
       | x :: la', y :: lb' => veq po x y && go la' lb'
       | _, _ => false
       end) la lb
  | VObj ma, VObj mb =>
    Nat.eqb (length ma) (length mb) &&
    (if po then
       (fix all (ma : list (bytes * value)) : bool :=
          match ma with
          | [] => true
          | (k, v) :: ma' => (match al_get k mb with Some w => veq po v w | None => false end) && all ma'
          end) ma
     else
       (fix go (ma mb : list (bytes * value)) {struct ma} : bool :=
          match ma, mb with
          | [], [] => true
          | (k, v) :: ma', (k', w) :: mb' => beq_bytes k k' && veq po v w && go ma' mb'
          | _, _ => false
          end) ma mb)
  | _, _ => false
  end.

(* ------------------------------------------------------------------ Hash: the sequence of Hasher::write_* calls *)
Inductive hcall :=
  | HIsize (z : Z)         (* write_isize: enum discriminant *)
  | HUsize (n : N)         (* write_usize: length prefix of Vec / BTreeMap / slice *)
  | HU8 (n : N)            (* write_u8: bool; the 0xff terminator of str *)
  | HU64 (n : N)           (* write_u64 *)
  | HI64 (z : Z)           (* write_i64 *)
  | HBytes (b : bytes).    (* write(&[u8]): str contents *)

Definition hash_str (s : bytes) : list hcall := [HBytes s; HU8 255].

(* src/number.rs:52-70: no discriminant; floats by bit pattern with -0.0 hashed as +0.0 *)
Definition hash_num (n : num) : list hcall :=
  match n with
  | NPos x => [HU64 x]
  | NNeg z => [HI64 z]
  | NFloat f => if Beqb f (B754_zero false) then [HU64 0] else [HU64 (bits_of_b64 f)]
  | NLit s => hash_str s
  end.

(* derived Hash for Value: discriminant, then the fields.  Map: under preserve_order the entries are
   sorted by key first (src/map.rs:418-432), then hashed like a slice of (key, value) pairs — the same
   calls BTreeMap::hash makes: length prefix, then key and value of every entry. *)
Fixpoint hash_feed (po : bool) (v : value) : list hcall :=
  match v with
  | VNull => [HIsize 0]
  | VBool b => [HIsize 1; HU8 (if b then 1 else 0)]
  | VNum n => HIsize 2 :: hash_num n
  | VStr s => HIsize 3 :: hash_str s
  | VArr l =>
    HIsize 4 :: HUsize (N.of_nat (length l)) ::
    (fix go (l : list value) : list hcall :=
       match l with [] => [] | x :: r => hash_feed po x ++ go r end) l
  | VObj m =>
    (* every entry's own calls (key, then value), computed entry by entry; under preserve_order the
       entries are then arranged by key — the arrangement and the per-entry calls are independent *)
    let per_entry :=
      (fix go (l : list (bytes * value)) : list (bytes * list hcall) :=
         match l with [] => [] | (k, x) :: r => (k, hash_str k ++ hash_feed po x) :: go r end) m in
    HIsize 5 :: HUsize (N.of_nat (length m)) ::
    concat (map snd (if po then sort_by_key per_entry else per_entry))
  end.

(* ------------------------------------------------------------------ Value::sort_all_objects (src/value/mod.rs:875-889) *)
(* preserve_order: sort this object's keys, then recurse into the values; arrays: recurse; default: no-op *)
Fixpoint sort_all (v : value) : value :=
  match v with
  | VArr l => VArr (map sort_all l)
  | VObj m =>
    (* the code sorts the keys first and then visits the values; the two steps commute (the arrangement
       depends on keys only), and doing the values first keeps the recursion structural *)
    VObj (sort_by_key ((fix go (l : list (bytes * value)) : list (bytes * value) :=
                          match l with [] => [] | (k, x) :: r => (k, sort_all x) :: go r end) m))
  | _ => v
  end.
Definition sort_all_objects (po : bool) (v : value) : value := if po then sort_all v else v.
