(* Model/Ser.v — src/ser.rs: `Serializer<W, F>`, `Compound::Map { state }`, the seven `Serialize*` impls,
   `MapKeySerializer`, `collect_str`, `format_escaped_str(_contents)`, the `Formatter` defaults,
   `CompactFormatter`, `PrettyFormatter { current_indent, has_value, indent }`, `indent()`;
   and std's `Write::write_all` over a short / failing writer (C13, writer half).

   Output is modelled as a TRACE: the list of buffers handed to `io::Write::write_all`, one list element per call,
   in order (empty buffers included: `indent` with an empty indent string still calls write_all with an empty slice).
   [tr A] = (buffers written so far, outcome): on an error (`KeyMustBeAString`, ...) the buffers written before the
   error are kept, because the real writer has received them.

   Floats: `ryu::Buffer::format_finite` is an external crate; its text is a parameter [fmt32]/[fmt64] (bits -> text).
   In the correspondence check the text printed by the real ryu is handed to the model in the case line. *)
From SJ Require Import Base.Bytes Base.Utf8 Gen.Tables Model.Read Model.Num Model.Sval.
Open Scope N_scope.

(* ---- the trace monad ------------------------------------------------------------------------ *)
Definition tr (A : Type) : Type := (list bytes * res A)%type.
Definition tret {A} (a : A) : tr A := ([], Ok a).
Definition tbind {A B} (m : tr A) (k : A -> tr B) : tr B :=
  match m with
  | (o, Ok a) => let '(o2, r) := k a in (o ++ o2, r)
  | (o, Err c i) => (o, Err c i)
  | (o, OutOfFuel) => (o, OutOfFuel)
  | (o, Panic) => (o, Panic)
  end.
Notation "'do*' x ':=' r 'in' k" := (tbind r (fun x => k))
  (at level 200, x pattern, r at level 100, k at level 200, right associativity).
Definition twrite (b : bytes) : tr unit := ([b], Ok tt).              (* writer.write_all(b).map_err(Error::io) *)
Definition tfail {A} (c : ecode) : tr A := ([], Err c O).               (* Error::syntax(code, 0, 0) *)
Definition tpanic {A} : tr A := ([], Panic).
(* a Formatter method: buffers and the new formatter state; never fails by itself *)
Definition lift {S} (p : list bytes * S) : tr S := (fst p, Ok (snd p)).

(* ---- formatters ----------------------------------------------------------------------------- *)
Inductive formatter := Compact | Pretty (indent : bytes).

(* PrettyFormatter's mutable fields (CompactFormatter has none; it carries the state along unchanged).
   current_indent is a usize; it is incremented by begin_array/begin_object and decremented by the matching end_*,
   so it is bounded by the nesting depth and never decremented at 0 in a well-formed call sequence. *)
Record fstate := mkFs { cur : nat; hasv : bool }.
Definition fs0 : fstate := mkFs 0 false.

(* fn indent(wr, n, s): n calls of write_all(s) *)
Definition indent_bufs (n : nat) (s : bytes) : list bytes := repeat s n.

Definition lit_null : bytes := [110; 117; 108; 108].
Definition lit_true : bytes := [116; 114; 117; 101].
Definition lit_false : bytes := [102; 97; 108; 115; 101].

Definition begin_array (F : formatter) (st : fstate) : list bytes * fstate :=
  match F with
  | Compact => ([[91]], st)
  | Pretty _ => ([[91]], mkFs (S (cur st)) false)
  end.
Definition end_array (F : formatter) (st : fstate) : list bytes * fstate :=
  match F with
  | Compact => ([[93]], st)
  | Pretty ind =>
    let c := pred (cur st) in
    ((if hasv st then [10] :: indent_bufs c ind else []) ++ [[93]], mkFs c (hasv st))
  end.
Definition begin_array_value (F : formatter) (first : bool) (st : fstate) : list bytes * fstate :=
  match F with
  | Compact => (if first then [] else [[44]], st)
  | Pretty ind => ((if first then [10] else [44; 10]) :: indent_bufs (cur st) ind, st)
  end.
Definition end_array_value (F : formatter) (st : fstate) : list bytes * fstate :=
  match F with
  | Compact => ([], st)
  | Pretty _ => ([], mkFs (cur st) true)
  end.
Definition begin_object (F : formatter) (st : fstate) : list bytes * fstate :=
  match F with
  | Compact => ([[123]], st)
  | Pretty _ => ([[123]], mkFs (S (cur st)) false)
  end.
Definition end_object (F : formatter) (st : fstate) : list bytes * fstate :=
  match F with
  | Compact => ([[125]], st)
  | Pretty ind =>
    let c := pred (cur st) in
    ((if hasv st then [10] :: indent_bufs c ind else []) ++ [[125]], mkFs c (hasv st))
  end.
Definition begin_object_key (F : formatter) (first : bool) (st : fstate) : list bytes * fstate :=
  match F with
  | Compact => (if first then [] else [[44]], st)
  | Pretty ind => ((if first then [10] else [44; 10]) :: indent_bufs (cur st) ind, st)
  end.
Definition end_object_key (F : formatter) (st : fstate) : list bytes * fstate := ([], st).
Definition begin_object_value (F : formatter) (st : fstate) : list bytes * fstate :=
  match F with
  | Compact => ([[58]], st)
  | Pretty _ => ([[58; 32]], st)
  end.
Definition end_object_value (F : formatter) (st : fstate) : list bytes * fstate :=
  match F with
  | Compact => ([], st)
  | Pretty _ => ([], mkFs (cur st) true)
  end.

(* scalars: the same for both formatters (trait defaults) *)
Definition write_null : tr unit := twrite lit_null.
Definition write_bool (b : bool) : tr unit := twrite (if b then lit_true else lit_false).
(* itoa::Buffer::format for every integer type: optional '-' and the minimal decimal digits *)
Definition itoa_z (z : Z) : bytes := if (z <? 0)%Z then 45 :: itoa (Z.to_N (- z)) else itoa (Z.to_N z).
Definition write_int (z : Z) : tr unit := twrite (itoa_z z).
Definition begin_string : tr unit := twrite [34].
Definition end_string : tr unit := twrite [34].

(* f64::classify / is_finite on the bit pattern *)
Definition f64_finite_bits (b : N) : bool := negb ((b / 4503599627370496) mod 2048 =? 2047).
Definition f32_finite_bits (b : N) : bool := negb ((b / 8388608) mod 256 =? 255).

(* ---- strings -------------------------------------------------------------------------------- *)
Definition hex_lower (n : N) : N := if n <? 10 then 48 + n else 87 + n.        (* HEX_DIGITS: 0123456789abcdef *)

(* CharEscape::from_escape_table followed by Formatter::write_char_escape: the bytes of one escape;
   None = unreachable!() *)
Definition char_escape (escape byte : N) : option bytes :=
  if escape =? 98 then Some [92; 98]               (* BB -> Backspace: backslash b *)
  else if escape =? 116 then Some [92; 116]        (* TT -> Tab *)
  else if escape =? 110 then Some [92; 110]        (* NN -> LineFeed *)
  else if escape =? 102 then Some [92; 102]        (* FF -> FormFeed *)
  else if escape =? 114 then Some [92; 114]        (* RR -> CarriageReturn *)
  else if escape =? 34 then Some [92; 34]          (* QU -> Quote: backslash quote *)
  else if escape =? 92 then Some [92; 92]          (* BS -> ReverseSolidus: two backslashes *)
  else if escape =? 117 then                       (* UU -> AsciiControl(byte) -> \u00XX *)
    Some [92; 117; 48; 48; hex_lower (N.shiftr byte 4); hex_lower (N.land byte 15)]
  else None.

(* format_escaped_str_contents: [frag] is value[start..i] (reversed); one write_string_fragment per maximal
   unescaped run, one write_char_escape per escaped byte *)
Definition flush_frag (frag : bytes) : list bytes := match frag with [] => [] | _ => [rev frag] end.
Fixpoint esc_loop (l : bytes) (frag : bytes) : tr unit :=
  match l with
  | [] => (flush_frag frag, Ok tt)
  | b :: r =>
    let escape := nth (N.to_nat b) ESCAPE_TABLE 0 in
    if escape =? 0 then esc_loop r (b :: frag)
    else
      match char_escape escape b with
      | Some e => do* _ := (flush_frag frag ++ [e], Ok tt) in esc_loop r []
      | None => (flush_frag frag, Panic)
      end
  end.
Definition format_escaped_str_contents (s : bytes) : tr unit := esc_loop s [].
Definition format_escaped_str (s : bytes) : tr unit :=
  do* _ := begin_string in
  do* _ := format_escaped_str_contents s in
  end_string.

(* Serializer::collect_str: begin_string; one format_escaped_str_contents per write_str of the Display impl; end_string *)
Fixpoint collect_chunks (chunks : list bytes) : tr unit :=
  match chunks with
  | [] => tret tt
  | c :: r => do* _ := format_escaped_str_contents c in collect_chunks r
  end.
Definition collect_str (chunks : list bytes) : tr unit :=
  do* _ := begin_string in
  do* _ := collect_chunks chunks in
  end_string.

(* number::TOKEN: $serde_json::private::Number *)
Definition NUMBER_TOKEN : bytes :=
  [36;115;101;114;100;101;95;106;115;111;110;58;58;112;114;105;118;97;116;101;58;58;78;117;109;98;101;114].

(* Compound::Map { state } *)
Inductive cstate := Empty | First | Rest.
Definition is_first (c : cstate) : bool := match c with First => true | _ => false end.
Definition is_some0 (h : option nat) : bool := match h with Some O => true | _ => false end.   (* len == Some(0) *)

Section Serializer.
  Variable cf : cfg.                       (* only arbitrary_precision matters here *)
  Variable fmt32 fmt64 : N -> bytes.       (* ryu::Buffer::format_finite *)
  Variable F : formatter.

  (* Formatter::write_f32 / write_f64 *)
  Definition write_f32 (bits : N) : tr unit := twrite (fmt32 bits).
  Definition write_f64 (bits : N) : tr unit := twrite (fmt64 bits).

  (* Formatter::write_byte_array *)
  Fixpoint byte_array_loop (l : bytes) (first : bool) (st : fstate) : tr fstate :=
    match l with
    | [] => tret st
    | b :: r =>
      do* st1 := lift (begin_array_value F first st) in
      do* _ := write_int (Z.of_N b) in
      do* st2 := lift (end_array_value F st1) in
      byte_array_loop r false st2
    end.
  Definition write_byte_array (l : bytes) (st : fstate) : tr fstate :=
    do* st1 := lift (begin_array F st) in
    do* st2 := byte_array_loop l true st1 in
    lift (end_array F st2).

  (* ---- MapKeySerializer ---- *)
  Definition quoted (m : tr unit) : tr unit :=
    do* _ := begin_string in do* _ := m in end_string.

  Fixpoint key_ser (k : sval) : tr unit :=
    match k with
    | SStr s => format_escaped_str s
    | SUnitVariant name => format_escaped_str name
    | SNewtypeStruct v => key_ser v
    | SBool b => quoted (write_bool b)
    | SInt _ z => quoted (write_int z)
    | SF32 bits => if f32_finite_bits bits then quoted (write_f32 bits) else tfail FloatKeyMustBeFinite
    | SF64 bits => if f64_finite_bits bits then quoted (write_f64 bits) else tfail FloatKeyMustBeFinite
    | SChar c => format_escaped_str (utf8_encode c)
    | SBytes _ => tfail KeyMustBeAString
    | SUnit => tfail KeyMustBeAString
    | SUnitStruct => tfail KeyMustBeAString
    | SNewtypeVariant _ _ => tfail KeyMustBeAString
    | SNone => tfail KeyMustBeAString
    | SSome v => key_ser v
    | SSeq _ _ | STuple _ | STupleStruct _ | STupleVariant _ _ => tfail KeyMustBeAString
    | SMap _ _ | SStruct _ | SStructVariant _ _ => tfail KeyMustBeAString
    | SNumLit _ => tfail KeyMustBeAString            (* serialize_struct *)
    | SCollectStr chunks => collect_str chunks
    end.

  (* ---- element / entry loops (SerializeSeq::serialize_element, SerializeMap::serialize_key + serialize_value) ---- *)
  Section Loops.
    Variable ser : sval -> fstate -> tr fstate.

    Fixpoint ser_elems (l : list sval) (cs : cstate) (st : fstate) : tr (cstate * fstate) :=
      match l with
      | [] => tret (cs, st)
      | e :: r =>
        do* st1 := lift (begin_array_value F (is_first cs) st) in
        (* *state = State::Rest *)
        do* st2 := ser e st1 in
        do* st3 := lift (end_array_value F st2) in
        ser_elems r Rest st3
      end.

    Fixpoint ser_entries {K} (serkey : K -> tr unit) (l : list (K * sval)) (cs : cstate) (st : fstate)
      : tr (cstate * fstate) :=
      match l with
      | [] => tret (cs, st)
      | (k, v) :: r =>
        (* serialize_key *)
        do* st1 := lift (begin_object_key F (is_first cs) st) in
        do* _ := serkey k in
        do* st2 := lift (end_object_key F st1) in
        (* serialize_value *)
        do* st3 := lift (begin_object_value F st2) in
        do* st4 := ser v st3 in
        do* st5 := lift (end_object_value F st4) in
        ser_entries serkey r Rest st5
      end.
  End Loops.

  (* Serializer::serialize_seq / serialize_map: the opening call *)
  Definition open_seq (h : option nat) (st : fstate) : tr (cstate * fstate) :=
    do* st1 := lift (begin_array F st) in
    if is_some0 h then do* st2 := lift (end_array F st1) in tret (Empty, st2)
    else tret (First, st1).
  Definition open_map (h : option nat) (st : fstate) : tr (cstate * fstate) :=
    do* st1 := lift (begin_object F st) in
    if is_some0 h then do* st2 := lift (end_object F st1) in tret (Empty, st2)
    else tret (First, st1).
  (* SerializeSeq::end / SerializeMap::end *)
  Definition close_seq (cs : cstate) (st : fstate) : tr fstate :=
    match cs with Empty => tret st | _ => lift (end_array F st) end.
  Definition close_map (cs : cstate) (st : fstate) : tr fstate :=
    match cs with Empty => tret st | _ => lift (end_object F st) end.
  (* the front of serialize_newtype_variant / serialize_tuple_variant / serialize_struct_variant *)
  Definition open_variant (name : bytes) (st : fstate) : tr fstate :=
    do* st1 := lift (begin_object F st) in
    do* st2 := lift (begin_object_key F true st1) in
    do* _ := format_escaped_str name in
    do* st3 := lift (end_object_key F st2) in
    lift (begin_object_value F st3).
  (* the tail of SerializeTupleVariant::end / SerializeStructVariant::end and of serialize_newtype_variant *)
  Definition close_variant (st : fstate) : tr fstate :=
    do* st1 := lift (end_object_value F st) in
    lift (end_object F st1).

  Fixpoint ser (v : sval) (st : fstate) {struct v} : tr fstate :=
    match v with
    | SBool b => do* _ := write_bool b in tret st
    | SInt _ z => do* _ := write_int z in tret st
    | SF32 bits => do* _ := (if f32_finite_bits bits then write_f32 bits else write_null) in tret st
    | SF64 bits => do* _ := (if f64_finite_bits bits then write_f64 bits else write_null) in tret st
    | SChar c => do* _ := format_escaped_str (utf8_encode c) in tret st
    | SStr s => do* _ := format_escaped_str s in tret st
    | SBytes s => write_byte_array s st
    | SNone | SUnit | SUnitStruct => do* _ := write_null in tret st
    | SSome v => ser v st
    | SUnitVariant name => do* _ := format_escaped_str name in tret st
    | SNewtypeStruct v => ser v st
    | SNewtypeVariant name v =>
      do* st1 := open_variant name st in
      do* st2 := ser v st1 in
      close_variant st2
    | SSeq h es =>
      do* (cs, st1) := open_seq h st in
      do* (cs2, st2) := ser_elems ser es cs st1 in
      close_seq cs2 st2
    | STuple es | STupleStruct es =>
      do* (cs, st1) := open_seq (Some (length es)) st in
      do* (cs2, st2) := ser_elems ser es cs st1 in
      close_seq cs2 st2
    | STupleVariant name es =>
      do* st0 := open_variant name st in
      do* (cs, st1) := open_seq (Some (length es)) st0 in
      do* (cs2, st2) := ser_elems ser es cs st1 in
      do* st3 := close_seq cs2 st2 in
      close_variant st3
    | SMap h kvs =>
      do* (cs, st1) := open_map h st in
      do* (cs2, st2) := ser_entries ser key_ser kvs cs st1 in
      close_map cs2 st2
    | SStruct fs =>
      do* (cs, st1) := open_map (Some (length fs)) st in
      do* (cs2, st2) := ser_entries ser format_escaped_str fs cs st1 in
      close_map cs2 st2
    | SStructVariant name fs =>
      do* st0 := open_variant name st in
      do* (cs, st1) := open_map (Some (length fs)) st0 in
      do* (cs2, st2) := ser_entries ser format_escaped_str fs cs st1 in
      do* st3 := close_map cs2 st2 in
      close_variant st3
    | SCollectStr chunks => do* _ := collect_str chunks in tret st
    | SNumLit lit =>
      if arbitrary_precision cf then
        (* Compound::Number; NumberStrEmitter::serialize_str -> write_number_str *)
        do* _ := twrite lit in tret st
      else
        (* without the feature the token is an ordinary struct name *)
        do* (cs, st1) := open_map (Some 1%nat) st in
        do* st2 := lift (begin_object_key F (is_first cs) st1) in
        do* _ := format_escaped_str NUMBER_TOKEN in
        do* st3 := lift (end_object_key F st2) in
        do* st4 := lift (begin_object_value F st3) in
        do* _ := format_escaped_str lit in
        do* st5 := lift (end_object_value F st4) in
        close_map Rest st5
    end.

  (* to_writer / to_writer_pretty with a fresh formatter: the trace and the outcome *)
  Definition serialize_trace (v : sval) : tr unit := do* _ := ser v fs0 in tret tt.

  (* the buffers of a successful run *)
  Definition serialize (v : sval) : res (list bytes) :=
    match serialize_trace v with
    | (o, Ok _) => Ok o
    | (_, Err c i) => Err c i
    | (_, OutOfFuel) => OutOfFuel
    | (_, Panic) => Panic
    end.

  (* to_vec / to_string: the bytes *)
  Definition to_vec (v : sval) : res bytes := rmap (@concat N) (serialize v).
End Serializer.

(* ---- std::io::Write::write_all over a short / interrupted / failing writer ------------------- *)
(* A writer accepts bytes in chunks: [sched] lists the sizes it is willing to take on successive `write` calls
   (0 = this call returns ErrorKind::Interrupted; when the schedule is exhausted it takes everything offered);
   once [k] bytes have been accepted every `write` fails with error kind [kind] ([fail_at = Some (k, kind)]). *)
Record writer := mkW { accepted : bytes; sched : list nat; fail_at : option (nat * N) }.

Inductive wres := WOk (n : nat) | WInterrupted | WErr (kind : N).

Definition KIND_WRITE_ZERO : N := 0.

(* one call of Write::write(buf), buf non-empty *)
Definition write_once (w : writer) (buf : bytes) : writer * wres :=
  let '(want0, sched') := match sched w with [] => (Some (length buf), []) | c :: r => ((if Nat.eqb c 0 then None else Some c), r) end in
  match want0 with
  | None => (mkW (accepted w) sched' (fail_at w), WInterrupted)
  | Some want =>
    match fail_at w with
    | Some (k, kind) =>
      if Nat.leb k (length (accepted w)) then (mkW (accepted w) sched' (fail_at w), WErr kind)
      else
        let n := Nat.min (Nat.min want (k - length (accepted w))) (length buf) in
        (mkW (accepted w ++ firstn n buf) sched' (fail_at w), WOk n)
    | None =>
      let n := Nat.min want (length buf) in
      (mkW (accepted w ++ firstn n buf) sched' (fail_at w), WOk n)
    end
  end.

(* std's default write_all:
     while !buf.is_empty() { match self.write(buf) { Ok(0) => return Err(WriteZero), Ok(n) => buf = &buf[n..],
                                                     Err(e) if e.is_interrupted() => {}, Err(e) => return Err(e) } } Ok(()) *)
Fixpoint write_all_loop (fuel : nat) (w : writer) (buf : bytes) : writer * res unit :=
  match buf with
  | [] => (w, Ok tt)
  | _ :: _ =>
    match fuel with
    | O => (w, OutOfFuel)
    | S f =>
      match write_once w buf with
      | (w1, WOk O) => (w1, Err (Io KIND_WRITE_ZERO) O)
      | (w1, WOk n) => write_all_loop f w1 (skipn n buf)
      | (w1, WInterrupted) => write_all_loop f w1 buf
      | (w1, WErr kind) => (w1, Err (Io kind) O)
      end
    end
  end.
Definition write_all (w : writer) (buf : bytes) : writer * res unit :=
  write_all_loop (S (length (sched w) + length buf)) w buf.

(* the serializer against such a writer: every write_all result is propagated at once (`tri!` + `map_err(Error::io)`),
   so the run is the fault-free trace fed buffer by buffer until the first failure, then the trace's own outcome *)
Fixpoint feed (w : writer) (bufs : list bytes) : writer * res unit :=
  match bufs with
  | [] => (w, Ok tt)
  | b :: r =>
    match write_all w b with
    | (w1, Ok _) => feed w1 r
    | (w1, e) => (w1, e)
    end
  end.
Definition run_writer {A} (w : writer) (t : tr A) : writer * res A :=
  match feed w (fst t) with
  | (w1, Ok _) => (w1, snd t)
  | (w1, Err c i) => (w1, Err c i)
  | (w1, OutOfFuel) => (w1, OutOfFuel)
  | (w1, Panic) => (w1, Panic)
  end.
