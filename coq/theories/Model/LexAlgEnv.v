(* Model/LexAlgEnv.v — the two environments the translated control logic of src/lexical (Gen/LexAlgTables.v, interpreter Model/LexAlgAst.v)
   is interpreted in: `F = f64` and `F = f32`.  The trait constants and the static tables are those of Gen/LexTables.v (regenerated from
   the source by tools/translate_lex.py), `type Unsigned` those of Gen/LexAlgTables.v; the one function that is called but not translated,
   bhcomp (big-integer comparison), is the hand model Model/Lex.bhcomp on bit patterns.

   Definitions only. *)
From Coq Require Import String ZArith NArith List.
From SJ Require Import Base.Bytes Base.FloatB Gen.LexTables Model.Lex Model.LexAlgAst Gen.LexAlgTables.
Import ListNotations.
Open Scope Z_scope.
Local Open Scope string_scope.

Definition lex_traits (k : fkind) : ftraits := {|
  ft_kind := k;
  ft_unsigned := match k with F64 => LA_F64_UNSIGNED | F32 => LA_F32_UNSIGNED end;
  ft_MANTISSA_SIZE := MANTISSA_SIZE k; ft_EXPONENT_BIAS := EXPONENT_BIAS k; ft_DENORMAL_EXPONENT := DENORMAL_EXPONENT k;
  ft_MAX_EXPONENT := MAX_EXPONENT k; ft_DEFAULT_SHIFT := DEFAULT_SHIFT k;
  ft_CARRY_MASK := CARRY_MASK k;
  ft_EXPONENT_MASK := EXPONENT_MASK k; ft_HIDDEN_BIT_MASK := HIDDEN_BIT_MASK k; ft_MANTISSA_MASK := MANTISSA_MASK k;
  ft_INFINITY_BITS := INFINITY_BITS k;
  ft_exp_limit_min := EXP_LIMIT_MIN k; ft_exp_limit_max := EXP_LIMIT_MAX k; ft_mantissa_limit := MANTISSA_LIMIT k;
  ft_POW10 := match k with F64 => F64_POW10 | F32 => F32_POW10 end
|}.

(* bhcomp(b, integer, fraction, exponent): NOT translated (bignum arithmetic); the hand model *)
Definition lex_ext (k : fkind) (fn : string) (args : list val) : res val :=
  match args with
  | [VF b; VBytes integer; VBytes fraction; VInt I32 exponent] =>
    if String.eqb fn "bhcomp" then Ok (VF (FBits (Z.of_N (bhcomp k (Z.to_N (fl_bits b)) integer fraction exponent)))) else Panic
  | _ => Panic
  end.

Definition lex_genv (k : fkind) : genv := {|
  g_tr := lex_traits k;
  g_POW10_64 := POW10_64;
  g_small_mant := BASE10_SMALL_MANTISSA; g_small_exp := BASE10_SMALL_EXPONENT;
  g_large_mant := BASE10_LARGE_MANTISSA; g_large_exp := BASE10_LARGE_EXPONENT;
  g_small_int := BASE10_SMALL_INT_POWERS;
  g_step := BASE10_STEP; g_bias := BASE10_BIAS;
  g_ext := lex_ext k
|}.
