(* Model/VaccAst.v — the expression language tools/translate_vacc.py translates the `Value` accessors and in-place lookups into
     src/value/mod.rs    Value::{get, get_mut, is_object, as_object, as_object_mut, is_array, as_array, as_array_mut, is_string, as_str, is_number,
                         as_number, is_i64, is_u64, is_f64, as_i64, as_u64, as_f64, is_boolean, as_bool, is_null, as_null, take}
     src/value/index.rs  impl Index for usize / str  (index_into, index_into_mut, index_or_insert),
                         impl ops::Index<I> for Value (index: the `static NULL` fallback), impl ops::IndexMut<I> for Value (index_mut)
   its interpreter, and the one-line hand models of the accessors that had none (v_is_object ... v_as_null; the other five — as_i64 as_u64 as_f64
   as_bool as_str — and get / index / index_or_insert / take are in Model/Pointer.v).
   Gen/VaccTables.v (GENERATED on every run) holds what the source says now; Proofs/VaccSrc.v proves the hand models equal to it.

   Every translated function works on ONE `Value` place through `&self` / `&mut self` (impl Value, ops::Index, IndexMut) or `v: &Value` / `v: &mut Value`
   (impl Index for usize / str): [EPlace].  The interpreter threads the content of that place: a body maps (place, index argument) to
   [Done result place'] (mutation = the new content of the place), [Panicked] (panic!), or [Stuck] (the program is outside the meaning given here:
   wrongly typed operand, unbound name, unknown callee, no arm matches, out of fuel) — no hand model is ever equal to [Stuck].
   References follow Model/Pointer.v: a `&Value` / `&Map` / `&Vec` / `&str` / `&Number` is denoted by what it points to; a `&mut Value` INTO the
   place by the position of the addressed child ([DMutChild i]: array index / position of the entry in iteration order).

   Source form                                                              AST
     self (impl Value, ops::Index, IndexMut) / v (impl Index for T)                  EPlace       (as an expression: its current content)
     index (impl Value, ops::Index, IndexMut) / self, *self (impl Index for T)       EIndex
     x (pattern binder, let, static)                                        EVar "x"
     true false None Some(e) () &e                                          ETrue EFalse ENone (ESome e) EUnit (ERef e)
     Value::Null  Value::Object(e)  Map::new()                              EValueNull (EValueObject e) EMapNew
     match self|*self|v { P => e, .. }                                      EMatchPlace [(P, e); ..]       first matching arm
     if let P = v { e; } rest                                               ESeq (EIfLetPlace P e) rest
     *v = e                                                                 EAssignPlace e
     mem::replace(self, e)                                                  EMemReplacePlace e             returns the old content
     let x = e; rest  /  static X: Value = e; rest                          ELet "x" e rest / EStatic "X" e rest
     { a; b }                                                               ESeq a b
     self.f()               (f one of the translated Value methods)         ECallSelf Value_f              the callee's translated body, same place
     index.m(self)          (m a method of trait Index)                     ECallIndex m                   the body of `impl Index for usize|str`
                                                                                                          chosen by the run-time index
     e.m(a, ..)             (std / Map / Number method)                     EMethod e M_m [a; ..]          [apply_method]
     e.unwrap_or_else(|| b)                                                 EUnwrapOrElse e b              b only runs on None
     panic!("fmt", ..)                                                      EPanic "fmt"                   the message is carried, not interpreted

   Trusted besides the interpreter: the meaning [apply_method] gives to Vec::get/get_mut/len, Map::get/get_mut/entry, Entry::or_insert
   (Pointer.v's get_N / in_bounds / assoc_get / assoc_pos, Value.v's map_insert), Option::is_some/unwrap_or, str::to_owned, and to the six
   `Number` methods the bodies delegate to ([nm_is_i64] .. / Pointer.v num_as_i64 ..; src/number.rs is translated separately by translate_num.py,
   Proofs/VaccSrc.v links the two).  `impl Index for String` / `&T` (pure delegations) are pinned by exact text in the translator. *)
From Coq Require Import String.
From SJ Require Import Base.Bytes Base.FloatB Model.Value Model.Pointer.
Open Scope N_scope.

(* ---- names of the translated functions ------------------------------------------------------------------------ *)
Inductive imeth := index_into | index_into_mut | index_or_insert.
Inductive ikind := KUsize | KStr.
Inductive fname :=
  | Value_get | Value_get_mut
  | Value_is_object | Value_as_object | Value_as_object_mut
  | Value_is_array | Value_as_array | Value_as_array_mut
  | Value_is_string | Value_as_str
  | Value_is_number | Value_as_number
  | Value_is_i64 | Value_is_u64 | Value_is_f64 | Value_as_i64 | Value_as_u64 | Value_as_f64
  | Value_is_boolean | Value_as_bool
  | Value_is_null | Value_as_null
  | Value_take
  | Ops_index | Ops_index_mut                      (* impl ops::Index<I> for Value / impl ops::IndexMut<I> for Value *)
  | Index_for (k : ikind) (m : imeth).             (* impl Index for usize / impl Index for str *)

Definition imeth_eqb (a b : imeth) : bool :=
  match a, b with index_into, index_into | index_into_mut, index_into_mut | index_or_insert, index_or_insert => true | _, _ => false end.
Definition ikind_eqb (a b : ikind) : bool := match a, b with KUsize, KUsize | KStr, KStr => true | _, _ => false end.
Definition fname_eqb (a b : fname) : bool :=
  match a, b with
  | Value_get, Value_get | Value_get_mut, Value_get_mut
  | Value_is_object, Value_is_object | Value_as_object, Value_as_object | Value_as_object_mut, Value_as_object_mut
  | Value_is_array, Value_is_array | Value_as_array, Value_as_array | Value_as_array_mut, Value_as_array_mut
  | Value_is_string, Value_is_string | Value_as_str, Value_as_str
  | Value_is_number, Value_is_number | Value_as_number, Value_as_number
  | Value_is_i64, Value_is_i64 | Value_is_u64, Value_is_u64 | Value_is_f64, Value_is_f64
  | Value_as_i64, Value_as_i64 | Value_as_u64, Value_as_u64 | Value_as_f64, Value_as_f64
  | Value_is_boolean, Value_is_boolean | Value_as_bool, Value_as_bool
  | Value_is_null, Value_is_null | Value_as_null, Value_as_null
  | Value_take, Value_take | Ops_index, Ops_index | Ops_index_mut, Ops_index_mut => true
  | Index_for k m, Index_for k' m' => ikind_eqb k k' && imeth_eqb m m'
  | _, _ => false
  end.

(* ---- the AST ----------------------------------------------------------------------------------------------------- *)
(* patterns over the place; the binder "_" binds nothing *)
Inductive pat :=
  | PNull | PBool (x : string) | PNumber (x : string) | PString (x : string) | PArray (x : string) | PObject (x : string) | PWild.

Inductive meth :=
  | M_is_some | M_unwrap_or                                   (* Option *)
  | M_get | M_get_mut | M_len                                 (* Vec<Value> (get, get_mut, len) / Map<String, Value> (get, get_mut) *)
  | M_entry | M_or_insert                                     (* Map::entry, Entry::or_insert *)
  | M_to_owned                                                (* str::to_owned *)
  | M_is_i64 | M_is_u64 | M_is_f64 | M_as_i64 | M_as_u64 | M_as_f64.   (* Number *)

Inductive expr :=
  | EPlace | EIndex | EVar (x : string)
  | ETrue | EFalse | ENone | ESome (e : expr) | EUnit | ERef (e : expr)
  | EValueNull | EValueObject (e : expr) | EMapNew
  | EMatchPlace (arms : list (pat * expr))
  | EIfLetPlace (p : pat) (body : expr)
  | EAssignPlace (e : expr)
  | EMemReplacePlace (e : expr)
  | ELet (x : string) (e body : expr)
  | EStatic (x : string) (e body : expr)
  | ESeq (a b : expr)
  | ECallSelf (f : fname)
  | ECallIndex (m : imeth)
  | EMethod (recv : expr) (m : meth) (args : list expr)
  | EUnwrapOrElse (e closure_body : expr)
  | EPanic (msg : string).

Definition program := list (fname * expr).
Fixpoint lookup_fn (f : fname) (p : program) : option expr :=
  match p with
  | [] => None
  | (g, b) :: r => if fname_eqb f g then Some b else lookup_fn f r
  end.

(* ---- values the bodies compute with ---------------------------------------------------------------------------- *)
Inductive dv :=
  | DUnit
  | DBool (b : bool)
  | DUsize (n : N)
  | DStr (s : bytes)                         (* &str / String *)
  | DNum (n : num)                           (* &Number *)
  | DI64 (z : Z) | DU64 (n : N) | DF64 (f : b64)
  | DVec (l : list value)                    (* &Vec<Value> / &mut Vec<Value> : the payload of the place *)
  | DMap (m : list (bytes * value))          (* &Map / &mut Map / Map *)
  | DVal (v : value)                         (* Value / &Value *)
  | DMutChild (i : nat)                      (* &mut Value: child [i] of the place *)
  | DEntry (k : bytes)                       (* map::Entry of the place's map for key k *)
  | DOpt (o : option dv).

Inductive idx := IUsize (i : N) | IStr (k : bytes).        (* the index argument: usize, or str (String and &T delegate) *)
Definition ikind_of (i : idx) : ikind := match i with IUsize _ => KUsize | IStr _ => KStr end.
Definition dv_of_idx (i : idx) : dv := match i with IUsize n => DUsize n | IStr k => DStr k end.

Inductive outcome :=
  | Done (r : dv) (place' : value)
  | Panicked
  | Stuck.

(* ---- Number methods the bodies delegate to (src/number.rs; default representation; NLit = arbitrary_precision, outside the model) ---- *)
Definition nm_is_i64 (n : num) : bool := match n with NPos v => v <=? i64_max | NNeg _ => true | _ => false end.
Definition nm_is_u64 (n : num) : bool := match n with NPos _ => true | _ => false end.
Definition nm_is_f64 (n : num) : bool := match n with NFloat _ => true | _ => false end.

(* ---- hand models of the accessors (one line each, function for function) ------------------------------------- *)
Definition v_is_object (v : value) : bool := match v with VObj _ => true | _ => false end.
Definition v_as_object (v : value) : option (list (bytes * value)) := match v with VObj m => Some m | _ => None end.
Definition v_as_object_mut (v : value) : option (list (bytes * value)) := match v with VObj m => Some m | _ => None end.
Definition v_is_array (v : value) : bool := match v with VArr _ => true | _ => false end.
Definition v_as_array (v : value) : option (list value) := match v with VArr l => Some l | _ => None end.
Definition v_as_array_mut (v : value) : option (list value) := match v with VArr l => Some l | _ => None end.
Definition v_is_string (v : value) : bool := match v with VStr _ => true | _ => false end.
Definition v_is_number (v : value) : bool := match v with VNum _ => true | _ => false end.
Definition v_as_number (v : value) : option num := match v with VNum n => Some n | _ => None end.
Definition v_is_i64 (v : value) : bool := match v with VNum n => nm_is_i64 n | _ => false end.
Definition v_is_u64 (v : value) : bool := match v with VNum n => nm_is_u64 n | _ => false end.
Definition v_is_f64 (v : value) : bool := match v with VNum n => nm_is_f64 n | _ => false end.
Definition v_is_boolean (v : value) : bool := match v with VBool _ => true | _ => false end.
Definition v_is_null (v : value) : bool := match v with VNull => true | _ => false end.
Definition v_as_null (v : value) : option unit := match v with VNull => Some tt | _ => None end.

(* ---- the interpreter -------------------------------------------------------------------------------------------- *)
Definition env := list (string * dv).
Fixpoint env_get (x : string) (e : env) : option dv :=
  match e with
  | [] => None
  | (y, d) :: r => if String.eqb x y then Some d else env_get x r
  end.
Definition bind1 (x : string) (d : dv) : env := if String.eqb x "_" then [] else [(x, d)].

(* Some bindings when the place's content matches the pattern *)
Definition match_pat (p : pat) (v : value) : option env :=
  match p, v with
  | PWild, _ => Some []
  | PNull, VNull => Some []
  | PBool x, VBool b => Some (bind1 x (DBool b))
  | PNumber x, VNum n => Some (bind1 x (DNum n))
  | PString x, VStr s => Some (bind1 x (DStr s))
  | PArray x, VArr l => Some (bind1 x (DVec l))
  | PObject x, VObj m => Some (bind1 x (DMap m))
  | _, _ => None
  end.

(* Entry::or_insert on the place's map: the occupied entry, or the new entry after Map::insert; [preserve] = feature preserve_order *)
Definition entry_or_insert (preserve : bool) (k : bytes) (d : value) (place : value) : outcome :=
  match place with
  | VObj m =>
    match assoc_pos k m with
    | Some i => Done (DMutChild i) place
    | None => let m' := map_insert preserve k d m in
              match assoc_pos k m' with
              | Some i => Done (DMutChild i) (VObj m')
              | None => Stuck
              end
    end
  | _ => Stuck
  end.

(* receiver.m(args) for the std / Map / Number methods; [place] is only read by or_insert *)
Definition apply_method (preserve : bool) (m : meth) (recv : dv) (args : list dv) (place : value) : outcome :=
  match m, recv, args with
  | M_is_some, DOpt o, [] => Done (DBool (match o with Some _ => true | None => false end)) place
  | M_unwrap_or, DOpt o, [d] => Done (match o with Some x => x | None => d end) place
  | M_get, DVec l, [DUsize i] => Done (DOpt (option_map DVal (get_N l i))) place
  | M_get, DMap mp, [DStr k] => Done (DOpt (option_map DVal (assoc_get k mp))) place
  | M_get_mut, DVec l, [DUsize i] => Done (DOpt (if in_bounds i l then Some (DMutChild (N.to_nat i)) else None)) place
  | M_get_mut, DMap mp, [DStr k] => Done (DOpt (option_map DMutChild (assoc_pos k mp))) place
  | M_len, DVec l, [] => Done (DUsize (N.of_nat (length l))) place
  | M_entry, DMap _, [DStr k] => Done (DEntry k) place
  | M_or_insert, DEntry k, [DVal d] => entry_or_insert preserve k d place
  | M_to_owned, DStr s, [] => Done (DStr s) place
  | M_is_i64, DNum n, [] => Done (DBool (nm_is_i64 n)) place
  | M_is_u64, DNum n, [] => Done (DBool (nm_is_u64 n)) place
  | M_is_f64, DNum n, [] => Done (DBool (nm_is_f64 n)) place
  | M_as_i64, DNum n, [] => Done (DOpt (option_map DI64 (num_as_i64 n))) place
  | M_as_u64, DNum n, [] => Done (DOpt (option_map DU64 (num_as_u64 n))) place
  | M_as_f64, DNum n, [] => Done (DOpt (option_map DF64 (num_as_f64 n))) place
  | _, _, _ => Stuck
  end.

Section Eval.
  Variable prog : program.
  Variable preserve : bool.

  (* [ix]: the index argument if the function has one.  Structural on [fuel]: every sub-evaluation and every call costs one. *)
  Fixpoint eval (fuel : nat) (ix : option idx) (e : expr) (en : env) (place : value) {struct fuel} : outcome :=
    match fuel with
    | O => Stuck
    | S f =>
      let ev := eval f ix in
      match e with
      | EPlace => Done (DVal place) place
      | EIndex => match ix with Some i => Done (dv_of_idx i) place | None => Stuck end
      | EVar x => match env_get x en with Some d => Done d place | None => Stuck end
      | ETrue => Done (DBool true) place
      | EFalse => Done (DBool false) place
      | ENone => Done (DOpt None) place
      | ESome a => match ev a en place with Done d p => Done (DOpt (Some d)) p | o => o end
      | EUnit => Done DUnit place
      | ERef a => ev a en place
      | EValueNull => Done (DVal VNull) place
      | EValueObject a => match ev a en place with Done (DMap m) p => Done (DVal (VObj m)) p | Done _ _ => Stuck | o => o end
      | EMapNew => Done (DMap []) place
      | EMatchPlace arms =>
        (fix first_arm (l : list (pat * expr)) : outcome :=
           match l with
           | [] => Stuck
           | (p, body) :: r => match match_pat p place with
                               | Some b => ev body (b ++ en) place
                               | None => first_arm r
                               end
           end) arms
      | EIfLetPlace p body =>
        match match_pat p place with
        | Some b => match ev body (b ++ en) place with Done _ p' => Done DUnit p' | o => o end
        | None => Done DUnit place
        end
      | EAssignPlace a => match ev a en place with Done (DVal v) _ => Done DUnit v | Done _ _ => Stuck | o => o end
      | EMemReplacePlace a => match ev a en place with Done (DVal v) p => Done (DVal p) v | Done _ _ => Stuck | o => o end
      | ELet x a body | EStatic x a body =>
        match ev a en place with Done d p => ev body ((x, d) :: en) p | o => o end
      | ESeq a b => match ev a en place with Done _ p => ev b en p | o => o end
      | ECallSelf g => match lookup_fn g prog with Some body => eval f None body [] place | None => Stuck end
      | ECallIndex m =>
        match ix with
        | Some i => match lookup_fn (Index_for (ikind_of i) m) prog with Some body => ev body [] place | None => Stuck end
        | None => Stuck
        end
      | EMethod recv m args =>
        match ev recv en place with
        | Done r p =>
          (fix eval_args (l : list expr) (acc : list dv) (p : value) : outcome :=
             match l with
             | [] => apply_method preserve m r (rev acc) p
             | a :: l' => match ev a en p with Done d p' => eval_args l' (d :: acc) p' | o => o end
             end) args [] p
        | o => o
        end
      | EUnwrapOrElse a body =>
        match ev a en place with
        | Done (DOpt (Some d)) p => Done d p
        | Done (DOpt None) p => ev body en p
        | Done _ _ => Stuck
        | o => o
        end
      | EPanic _ => Panicked
      end
    end.

  Definition FUEL : nat := 64.
  Definition run (f : fname) (ix : option idx) (v : value) : outcome :=
    match lookup_fn f prog with
    | Some body => eval FUEL ix body [] v
    | None => Stuck
    end.
End Eval.
