(* Model/WriterMachine.v — C13 (writer half), EXECUTABLE: a writer as a state machine, and the fault-injecting writer of
   the test harness (harness/src/rw.rs `ChunkWriter`) as such a machine, mirrored statement by statement.
   Definitions only (everything here extracts and runs); the theorems are in Proofs/WriterMachineProps.v.

   Model/WriterGen.v describes an arbitrary writer as an ORACLE (history of offered buffers -> answer): good for theorems
   about all writers, never executed against the crate.  Here:
   * [wmachine St]: initial state + `write` as a step function.  [oracle_of_machine] replays the machine over the history,
     so that every theorem of Proofs/WriterGenProps.v (the C13g_ theorems) applies to every machine;
   * [mwrite_all_loop] / [mfeed] / [mrun]: std's write_all and the serializer's error propagation with the machine state
     THREADED through (no history kept) — this is what the extracted driver runs (Extract/Driver_wgen.v);
     Proofs/WriterMachineProps.v `mrun_is_grun`: it computes what `grun_writer (oracle_of_machine m)` describes;
   * [cw_write]: `impl Write for ChunkWriter { fn write }`, all four modes of the harness op `wf`
     (`-`, `<k>` persistent failure, `o<k>` one-shot failure, `b<cap>` all-or-nothing bounded sink). *)
From SJ Require Import Base.Bytes Base.Utf8 Gen.Tables Model.Read Model.Num Model.Sval Model.Ser Model.WriterGen.
Open Scope nat_scope.

(* ---- a writer as a state machine ---------------------------------------------------------------- *)
(* [wm_step s buf] = one call `write(buf)` in state [s]: the answer (Model/WriterGen.v [wresp]) and the next state *)
Record wmachine (St : Type) := mkWM { wm_init : St; wm_step : St -> bytes -> wresp * St }.
Arguments mkWM {St} _ _.
Arguments wm_init {St} _.
Arguments wm_step {St} _ _ _.

(* the state after the `write` calls of [hist] (most recent first, as in Model/WriterGen.v) *)
Fixpoint mreplay {St} (m : wmachine St) (hist : list bytes) : St :=
  match hist with
  | [] => wm_init m
  | b :: h => snd (wm_step m (mreplay m h) b)
  end.

(* every machine is an oracle *)
Definition oracle_of_machine {St} (m : wmachine St) : oracle :=
  fun hist buf => fst (wm_step m (mreplay m hist) buf).

(* ---- the direct runner: the machine state threaded through write_all and the serializer ---------- *)
(* std's write_all loop (cf. Model/WriterGen.v [gwrite_all_loop]); [acc] = the bytes write_all has seen accepted
   (the first n bytes of the buffer of every call answered Ok(n)); result: (machine state, acc, outcome) *)
Fixpoint mwrite_all_loop {St} (fuel : nat) (m : wmachine St) (s : St) (acc : bytes) (buf : bytes) : St * bytes * res unit :=
  match buf with
  | [] => (s, acc, Ok tt)
  | _ :: _ =>
    match fuel with
    | O => (s, acc, OutOfFuel)
    | S f =>
      match wm_step m s buf with
      | (RAccept O, s1) => (s1, acc, Err (Io KIND_WRITE_ZERO) O)
      | (RAccept n, s1) =>
        if Nat.ltb (length buf) n then (s1, acc, Panic)
        else mwrite_all_loop f m s1 (acc ++ firstn n buf) (skipn n buf)
      | (RInterrupted, s1) => mwrite_all_loop f m s1 acc buf
      | (RFail kind, s1) => (s1, acc, Err (Io kind) O)
      end
    end
  end.

(* the serializer: the buffers of the fault-free trace handed to write_all one by one, until the FIRST failing write_all
   (`tri!` / `.map_err(Error::io)`: see the header of Model/WriterGen.v) *)
Fixpoint mfeed {St} (fuel : nat) (m : wmachine St) (s : St) (acc : bytes) (bufs : list bytes) : St * bytes * res unit :=
  match bufs with
  | [] => (s, acc, Ok tt)
  | b :: r =>
    match mwrite_all_loop fuel m s acc b with
    | (s1, acc1, Ok _) => mfeed fuel m s1 acc1 r
    | (s1, acc1, e) => (s1, acc1, e)
    end
  end.

(* the outcome of the run: the trace's own outcome if every write_all succeeded, the writer's error otherwise *)
Definition mlift {A} (t : tr A) (r : res unit) : res A :=
  match r with Ok _ => snd t | Err c i => Err c i | OutOfFuel => OutOfFuel | Panic => Panic end.

Definition mrun {A St} (fuel : nat) (m : wmachine St) (t : tr A) : St * bytes * res A :=
  match mfeed fuel m (wm_init m) [] (fst t) with
  | (s1, acc1, r) => (s1, acc1, mlift t r)
  end.

(* ---- harness/src/rw.rs: ChunkWriter ---------------------------------------------------------------- *)
(* the fields that `write` only reads *)
Record cwp := mkCWP {
  p_chunk : nat;              (* chunk: usize          0 = accept everything *)
  p_sched : list nat;         (* sched: Vec<usize>     cyclic; 0 = this call returns Interrupted *)
  p_fail_at : option nat;     (* fail_at: Option<usize> *)
  p_kind : N;                 (* fail_kind: io::ErrorKind (opaque id, canon.rs KINDS) *)
  p_one_shot : bool;          (* one_shot *)
  p_cap : option nat          (* cap: Option<usize> *)
}.
(* the fields that `write` updates *)
Record cws := mkCWS {
  c_accepted : bytes;         (* accepted: Vec<u8> *)
  c_buffers : list bytes;     (* buffers: Vec<Vec<u8>>, MOST RECENT FIRST (Rust pushes at the end) *)
  c_si : nat;                 (* si *)
  c_fired : bool;             (* fired *)
  c_after : nat               (* calls_after_failure *)
}.
(* ChunkWriter::new: accepted: vec![], buffers: vec![], si: 0, fired: false, calls_after_failure: 0 *)
Definition cw_init : cws := mkCWS [] [] 0 false 0.

(* fn write(&mut self, buf: &[u8]) -> io::Result<usize>     (rw.rs lines 92-127)
     self.buffers.push(buf.to_vec());
     if self.fired { self.calls_after_failure += 1; }
     if let Some(c) = self.cap {
         if self.accepted.len() + buf.len() > c { self.fired = true; return Err(io::Error::new(self.fail_kind, "sink full")); }
         self.accepted.extend_from_slice(buf);
         return Ok(buf.len());
     }
     let mut want = if self.sched.is_empty() {
         if self.chunk == 0 { buf.len() } else { self.chunk }
     } else {
         let w = self.sched[self.si % self.sched.len()];
         self.si += 1;
         if w == 0 { return Err(io::Error::new(io::ErrorKind::Interrupted, "interrupted")); }
         w
     };
     if let Some(k) = self.fail_at {
         if !(self.one_shot && self.fired) {
             if self.accepted.len() >= k { self.fired = true; return Err(io::Error::new(self.fail_kind, "injected")); }
             want = want.min(k - self.accepted.len());
         }
     }
     let n = want.min(buf.len());
     self.accepted.extend_from_slice(&buf[..n]);
     Ok(n)
   Remarks (behaviour mirrored as it is):
   * the `cap` branch returns before the schedule is looked at: with `cap` set, `sched`, `chunk`, `fail_at` and `one_shot`
     are all ignored, `si` does not advance and no call is ever Interrupted;
   * the Interrupted return comes BEFORE the fail_at test: a call whose schedule entry is 0 is Interrupted even when
     k bytes have been accepted already (and it consumes the schedule entry);
   * in one-shot mode, once fired, `want` is no longer clamped to k - accepted (that subtraction would underflow);
   * `calls_after_failure` counts the calls made while `fired` was already set at entry, so the failing call itself
     is not counted; `fired` is set in the persistent mode too (the harness just does not print it there). *)
Definition cw_write (p : cwp) (s : cws) (buf : bytes) : wresp * cws :=
  let buffers1 := buf :: c_buffers s in
  let after1 := if c_fired s then S (c_after s) else c_after s in
  match p_cap p with
  | Some c =>
    if Nat.ltb c (length (c_accepted s) + length buf)
    then (RFail (p_kind p), mkCWS (c_accepted s) buffers1 (c_si s) true after1)
    else (RAccept (length buf), mkCWS (c_accepted s ++ buf) buffers1 (c_si s) (c_fired s) after1)
  | None =>
    match (match p_sched p with
           | [] => (Some (if Nat.eqb (p_chunk p) 0 then length buf else p_chunk p), c_si s)
           | _ :: _ => let w := nth (c_si s mod length (p_sched p)) (p_sched p) 0 in
                       ((if Nat.eqb w 0 then None else Some w), S (c_si s))
           end) with
    | (None, si1) => (RInterrupted, mkCWS (c_accepted s) buffers1 si1 (c_fired s) after1)
    | (Some want, si1) =>
      let take := fun want' : nat =>
        let n := Nat.min want' (length buf) in
        (RAccept n, mkCWS (c_accepted s ++ firstn n buf) buffers1 si1 (c_fired s) after1) in
      match p_fail_at p with
      | Some k =>
        if negb (p_one_shot p && c_fired s) then
          if Nat.leb k (length (c_accepted s))
          then (RFail (p_kind p), mkCWS (c_accepted s) buffers1 si1 true after1)
          else take (Nat.min want (k - length (c_accepted s)))
        else take want
      | None => take want
      end
    end
  end.

Definition cw_machine (p : cwp) : wmachine cws := mkWM cw_init (cw_write p).

(* what the harness op `wf` reads off the writer after `to_writer` returned *)
Record cwresult (A : Type) := mkCR { cr_accepted : bytes; cr_result : res A; cr_after : nat; cr_fired : bool }.
Arguments mkCR {A} _ _ _ _.
Arguments cr_accepted {A} _.
Arguments cr_result {A} _.
Arguments cr_after {A} _.
Arguments cr_fired {A} _.

Definition cw_run {A} (p : cwp) (fuel : nat) (t : tr A) : cwresult A :=
  match mrun fuel (cw_machine p) t with
  | (s, _, r) => mkCR (c_accepted s) r (c_after s) (c_fired s)
  end.

(* a number of `write` calls per write_all that is always enough for a schedule that is not all zeros
   (Proofs/WriterMachineProps.v `cw_total`): at most |sched| Interrupted answers in a row, at least one byte otherwise *)
Definition maxlen (bufs : list bytes) : nat := fold_right (fun b m => Nat.max (length b) m) 0 bufs.
Definition cw_fuel (p : cwp) (bufs : list bytes) : nat := S (length (p_sched p)) * maxlen bufs.

(* the schedules the harness accepts: empty, or not all zeros *)
Definition sched_ok (sc : list nat) : bool :=
  match sc with [] => true | _ :: _ => negb (forallb (fun n => Nat.eqb n 0) sc) end.

(* ---- the writers of Model/Ser.v as machines -------------------------------------------------------- *)
Definition old_machine (w : writer) : wmachine writer :=
  mkWM w (fun w1 buf => (resp_of_wres (snd (write_once w1 buf)), fst (write_once w1 buf))).
