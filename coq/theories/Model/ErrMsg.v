(* Model/ErrMsg.v — the text side of serde_json::Error (src/error.rs, lines 399-541):
     impl Display for Error / ErrorImpl          [display]
     fn make_error(mut msg: String) -> Error      [make_error]      (= <Error as de::Error>::custom, <Error as ser::Error>::custom)
     fn parse_line_col(msg: &mut String)          [parse_line_col_chk] (literal, with the slicing panics) and [parse_line_col]
     fn starts_with_digit(slice: &str)            [starts_with_digit]
     Error::fix_position(self, f)                 [fix_position]
   plus the std functions the code calls, as far as they matter here:
     str::rfind(&str)            [rfind]            greatest byte index at which the pattern matches
     str::starts_with(&str)      [starts_with]
     str::is_char_boundary       [is_char_boundary] (core/src/str/mod.rs)
     &s[i..], &s[i..j]           [slice_from], [slice]   panic unless the indices are ordered char boundaries
     String::truncate            [truncate]         panics unless new_len is a char boundary (when new_len <= len)
     usize::from_str             [usize_from_str]   core/src/num/mod.rs from_str_radix, radix 10, unsigned, usize = 64 bit
     <usize as Display>::fmt     [itoa] of Model/Num.v (minimal decimal digits)

   A String is a list of bytes that is valid UTF-8; all indices are BYTE indices, as in the Rust code.
   An Error is reduced to what this code looks at: the Display text of its ErrorCode (for ErrorCode::Message(m) that is m),
   line, column.

   Two renderings of parse_line_col:
     [parse_line_col_chk]  statement by statement, indices and while-loops as written, every slice checked for char
                           boundaries ([Panic] otherwise) — this is what the extracted driver runs against the real code;
     [parse_line_col]      the same function without the checks and with the two loops written as [count_digits].
   Proofs/ErrMsgProps.v proves  utf8_valid s = true -> parse_line_col_chk s = Ok (parse_line_col s)  (no slice can panic
   on a String) and states the properties about [parse_line_col].
   Definitions only; everything extracts. *)
From SJ Require Import Base.Bytes Base.Utf8 Model.Num.
Open Scope N_scope.

(* " at line "  and  " column " *)
Definition MARK : bytes := [32;97;116;32;108;105;110;101;32].
Definition COLM : bytes := [32;99;111;108;117;109;110;32].

(* usize is 64 bits wide *)
Definition usize_max : N := u64_max.

(* ---- std: pattern matching on str --------------------------------------------------------------------------- *)
(* s.starts_with(p) *)
Fixpoint starts_with (s p : bytes) : bool :=
  match p, s with
  | [], _ => true
  | x :: p', y :: s' => (x =? y) && starts_with s' p'
  | _ :: _, [] => false
  end.

(* s.rfind(p) for a str pattern: the greatest byte index i with s[i..].starts_with(p).
   [rfind_aux p s k]: s is the part of the haystack that starts at byte index k. *)
Fixpoint rfind_aux (p s : bytes) (k : nat) : option nat :=
  match s with
  | [] => if starts_with [] p then Some k else None
  | _ :: s' =>
    match rfind_aux p s' (S k) with
    | Some j => Some j
    | None => if starts_with s p then Some k else None
    end
  end.
Definition rfind (s p : bytes) : option nat := rfind_aux p s O.

(* ---- std: char boundaries, slicing, truncate ---------------------------------------------------------------- *)
(* str::is_char_boundary:  index == 0 || (index >= len ? index == len : (bytes[index] as i8) >= -0x40) *)
Definition is_char_boundary (s : bytes) (i : nat) : bool :=
  match i with
  | O => true
  | _ => match nth_error s i with
         | None => (i =? length s)%nat
         | Some b => negb (in_rng b 128 191)
         end
  end.

(* &s[i..] *)
Definition slice_from (s : bytes) (i : nat) : res bytes :=
  if is_char_boundary s i then Ok (skipn i s) else Panic.
(* &s[i..j] *)
Definition slice (s : bytes) (i j : nat) : res bytes :=
  if (i <=? j)%nat && is_char_boundary s i && is_char_boundary s j then Ok (firstn (j - i) (skipn i s)) else Panic.
(* s.truncate(n): if n <= len { assert!(is_char_boundary(n)); len = n } *)
Definition truncate (s : bytes) (n : nat) : res bytes :=
  if (n <=? length s)%nat then (if is_char_boundary s n then Ok (firstn n s) else Panic) else Ok s.

(* ---- std: usize::from_str ------------------------------------------------------------------------------------ *)
(* digits of from_str_radix (radix 10, positive): checked_mul(10) then checked_add(digit); an overflow in either is
   PosOverflow, a non-digit InvalidDigit.  (The short-input fast path of core computes the same value.) *)
Fixpoint from_digits (s : bytes) (acc : N) : option N :=
  match s with
  | [] => Some acc
  | c :: r =>
    if is_digit c then
      let acc' := acc * 10 + digit_val c in
      if acc' <=? usize_max then from_digits r acc' else None
    else None
  end.
(* "" -> Empty; "+" / "-" alone -> InvalidDigit; a leading '+' is skipped; '-' is not (unsigned type): InvalidDigit *)
Definition usize_from_str (s : bytes) : option N :=
  match s with
  | [] => None
  | [43] => None
  | [45] => None
  | 43 :: r => from_digits r 0
  | _ => from_digits s 0
  end.

(* ---- error.rs ------------------------------------------------------------------------------------------------- *)
(* fn starts_with_digit(slice: &str) -> bool *)
Definition starts_with_digit (s : bytes) : bool :=
  match s with
  | [] => false
  | b :: _ => (48 <=? b) && (b <=? 57)
  end.

(* `while starts_with_digit(&msg[e..]) { e += 1; }` — the loop runs at most len - e + 1 times; fuel = len + 1 at the call *)
Fixpoint scan_digits_chk (fuel : nat) (msg : bytes) (e : nat) : res nat :=
  match fuel with
  | O => OutOfFuel
  | S f =>
    let* t := slice_from msg e in
    if starts_with_digit t then scan_digits_chk f msg (S e) else Ok e
  end.

(* fn parse_line_col(msg: &mut String) -> Option<(usize, usize)>; the third component is msg afterwards
   (only the Some branch changes it). *)
Definition parse_line_col_chk (msg : bytes) : res (option (N * N * bytes)) :=
  match rfind msg MARK with
  | None => Ok None
  | Some start_of_suffix =>
    let start_of_line := (start_of_suffix + length MARK)%nat in
    let* end_of_line := scan_digits_chk (S (length msg)) msg start_of_line in
    let* t := slice_from msg end_of_line in
    if negb (starts_with t COLM) then Ok None else
    let start_of_column := (end_of_line + length COLM)%nat in
    let* end_of_column := scan_digits_chk (S (length msg)) msg start_of_column in
    if (end_of_column <? length msg)%nat then Ok None else
    let* tl := slice msg start_of_line end_of_line in
    match usize_from_str tl with
    | None => Ok None
    | Some line =>
      let* tc := slice msg start_of_column end_of_column in
      match usize_from_str tc with
      | None => Ok None
      | Some column =>
        let* m := truncate msg start_of_suffix in
        Ok (Some (line, column, m))
      end
    end
  end.

(* the same without the boundary checks; the loops as a count *)
Fixpoint count_digits (s : bytes) : nat :=
  match s with
  | b :: r => if (48 <=? b) && (b <=? 57) then S (count_digits r) else O
  | [] => O
  end.

Definition parse_line_col (msg : bytes) : option (N * N * bytes) :=
  match rfind msg MARK with
  | None => None
  | Some start_of_suffix =>
    let start_of_line := (start_of_suffix + length MARK)%nat in
    let end_of_line := (start_of_line + count_digits (skipn start_of_line msg))%nat in
    if negb (starts_with (skipn end_of_line msg) COLM) then None else
    let start_of_column := (end_of_line + length COLM)%nat in
    let end_of_column := (start_of_column + count_digits (skipn start_of_column msg))%nat in
    if (end_of_column <? length msg)%nat then None else
    match usize_from_str (firstn (end_of_line - start_of_line) (skipn start_of_line msg)) with
    | None => None
    | Some line =>
      match usize_from_str (firstn (end_of_column - start_of_column) (skipn start_of_column msg)) with
      | None => None
      | Some column => Some (line, column, firstn start_of_suffix msg)
      end
    end
  end.

(* Error, reduced to (Display text of err.code, err.line, err.column) *)
Record error := mkError { e_msg : bytes; e_line : N; e_col : N }.

(* impl Display for ErrorImpl *)
Definition display (e : error) : bytes :=
  if e_line e =? 0 then e_msg e
  else e_msg e ++ MARK ++ itoa (e_line e) ++ COLM ++ itoa (e_col e).

(* fn make_error(mut msg: String) -> Error   (code = ErrorCode::Message(msg)) *)
Definition make_error (msg : bytes) : error :=
  match parse_line_col msg with
  | Some (line, column, m) => mkError m line column
  | None => mkError msg 0 0
  end.
Definition make_error_chk (msg : bytes) : res error :=
  let* r := parse_line_col_chk msg in
  match r with
  | Some (line, column, m) => Ok (mkError m line column)
  | None => Ok (mkError msg 0 0)
  end.

(* Error::fix_position(self, f): f receives self.err.code (here: its text) *)
Definition fix_position (e : error) (f : bytes -> error) : error :=
  if e_line e =? 0 then f (e_msg e) else e.
