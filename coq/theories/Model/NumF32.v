(* Model/NumF32.v — number parsing with `single_precision = true` (src/de.rs do_deserialize_f32, float_roundtrip
   builds only): the same control flow as Model/Num.v's float_roundtrip paths, but f64_from_parts /
   f64_long_from_parts ask lexical for an f32 (`parse_concise_float::<f32>` / `parse_truncated_float::<f32>`, as
   specified: the correctly rounded binary32 value) and widen it to f64.  Used by Model/DeTyped.v for f32 targets. *)
From SJ Require Import Base.Bytes Base.FloatB Gen.Tables Model.Read Model.Num.
From Flocq Require Import Core BinarySingleNaN.
Open Scope N_scope.

(* correctly rounded binary32 value of m * 10^e (m >= 0); same construction as FloatB.rne_decimal *)
Definition rne_decimal32 (m : Z) (e : Z) : b32 :=
  (if m <=? 0 then B754_zero false
   else if 400 <? e then B754_infinity false
   else if e <? - (400 + Z.log2 m) then B754_zero false
   else if 0 <=? e then binary_normalize 24 128 _ _ mode_NE (m * 10 ^ e) 0 false
   else
     let d := 10 ^ (- e) in
     let k := Z.max 0 (70 + Z.log2_up d - Z.log2 m) in
     let n := m * 2 ^ k in
     let q := n / d in
     let r := n mod d in
     let q' := if r =? 0 then q else if Z.even q then q + 1 else q in
     binary_normalize 24 128 _ _ mode_NE q' (- k) false)%Z.

Definition b32_is_inf (x : b32) : bool := match x with B754_infinity _ => true | _ => false end.

Definition finish_s (E : env) (positive : bool) (f : b32) (s : st) : res (b64 * st) :=
  if b32_is_inf f then peek_error E s NumberOutOfRange
  else let w := b64_of_b32 f in Ok (if positive then w else b64_neg w, s).

(* f64_from_parts, single precision *)
Definition f64_from_parts_s (E : env) (positive : bool) (sig : N) (e : Z) (s : st) : res (b64 * st) :=
  finish_s E positive (rne_decimal32 (Z.of_N sig) e) s.

(* f64_long_from_parts, single precision *)
Definition f64_long_from_parts_s (E : env) (positive : bool) (integer fraction : bytes) (e : Z) (s : st) : res (b64 * st) :=
  let fr := strip_trailing_zeros fraction in
  finish_s E positive (rne_decimal32 (digits_val (integer ++ fr) 0) (e - Z.of_nat (length fr))) s.

Definition parse_exponent_s (E : env) (positive : bool) (sig : N) (starting_exp : Z) (s : st) : res (b64 * st) :=
  let* (positive_exp, (e, ov), s1) := exponent_front E s in
  if ov then parse_exponent_overflow E positive (sig =? 0) positive_exp s1
  else
    let* (_, s2) := peek_or_null E s1 in
    let final_exp := if positive_exp then i32_sat (starting_exp + Z.of_N e) else i32_sat (starting_exp - Z.of_N e) in
    f64_from_parts_s E positive sig final_exp s2.

Definition parse_long_exponent_s (E : env) (positive : bool) (integer fraction : bytes) (s : st) : res (b64 * st) :=
  let* (positive_exp, (e, ov), s1) := exponent_front E s in
  if ov then parse_exponent_overflow E positive (forallb (N.eqb 48) (integer ++ fraction)) positive_exp s1
  else
    let* (_, s2) := peek_or_null E s1 in
    let final_exp := if positive_exp then Z.of_N e else (- Z.of_N e)%Z in
    f64_long_from_parts_s E positive integer fraction final_exp s2.

Definition parse_long_decimal_s (E : env) (positive : bool) (integer fraction0 : bytes) (s : st) : res (b64 * st) :=
  let n := span_len is_digit (rest s) in
  let fraction := fraction0 ++ firstn n (rest s) in
  let* (c, s1) := peek_or_null E (advance n s) in
  match fraction with
  | [] =>
    let* (o, s2) := peek E s1 in
    match o with
    | Some _ => peek_error E s2 InvalidNumber
    | None => peek_error E s2 EofWhileParsingValue
    end
  | _ :: _ =>
    if (c =? 101) || (c =? 69) then parse_long_exponent_s E positive integer fraction s1
    else f64_long_from_parts_s E positive integer fraction 0 s1
  end.

(* parse_decimal_overflow (float_roundtrip version) *)
Definition parse_decimal_overflow_s (E : env) (positive : bool) (sig : N) (e : Z) (s : st) : res (b64 * st) :=
  let sd := itoa sig in
  let fraction_digits := Z.to_nat (- e) in
  let scratch := (if Nat.leb (S (length sd)) fraction_digits
                  then repeat 48 (S (fraction_digits - S (length sd))) else []) ++ sd in
  let integer_end := (length scratch - fraction_digits)%nat in
  parse_long_decimal_s E positive (firstn integer_end scratch) (skipn integer_end scratch) s.

Definition parse_decimal_s (E : env) (positive : bool) (sig : N) (exp_before : Z) (s : st) : res (b64 * st) :=
  let s0 := discard s in
  let '(n, sg, ov) := sig_loop (rest s0) sig in
  let exp_after := (- Z.of_nat n)%Z in
  let* (c, s1) := peek_or_null E (advance n s0) in
  if ov then parse_decimal_overflow_s E positive sg (exp_before + exp_after) s1
  else if Nat.eqb n 0 then
    let* (o, s2) := peek E s1 in
    match o with
    | Some _ => peek_error E s2 InvalidNumber
    | None => peek_error E s2 EofWhileParsingValue
    end
  else
    let e := (exp_before + exp_after)%Z in
    if (c =? 101) || (c =? 69) then parse_exponent_s E positive sg e s1
    else f64_from_parts_s E positive sg e s1.

(* parse_long_integer (float_roundtrip version) *)
Definition parse_long_integer_s (E : env) (positive : bool) (sig : N) (s : st) : res (b64 * st) :=
  let n := span_len is_digit (rest s) in
  let* (c, s1) := peek_or_null E (advance n s) in
  let integer := itoa sig ++ firstn n (rest s) in
  if c =? 46 then parse_long_decimal_s E positive integer [] (discard s1)
  else if (c =? 101) || (c =? 69) then parse_long_exponent_s E positive integer [] s1
  else f64_long_from_parts_s E positive integer [] 0 s1.

Definition parse_number_s (E : env) (positive : bool) (sig : N) (s : st) : res (pnum * st) :=
  let* (c, s1) := peek_or_null E s in
  if c =? 46 then let* (f, s2) := parse_decimal_s E positive sig 0 s1 in Ok (PF64 f, s2)
  else if (c =? 101) || (c =? 69) then let* (f, s2) := parse_exponent_s E positive sig 0 s1 in Ok (PF64 f, s2)
  else if positive then Ok (PU64 sig, s1)
  else
    let as_i64 := wrap_i64 (Z.of_N sig) in
    let neg := wrap_i64 (- as_i64) in
    (* negated_u64_as_float with single_precision: -(significand as f32) as f64, one rounding *)
    if (0 <=? neg)%Z then Ok (PF64 (b64_neg (b64_of_b32 (binary_normalize 24 128 _ _ mode_NE (Z.of_N sig) 0 false))), s1)
    else Ok (PI64 neg, s1).

Definition parse_integer_s (E : env) (positive : bool) (s : st) : res (pnum * st) :=
  let* (o, s1) := next E s in
  match o with
  | None => error E s1 EofWhileParsingValue
  | Some c =>
    if c =? 48 then
      let* (c2, s2) := peek_or_null E s1 in
      if is_digit c2 then peek_error E s2 InvalidNumber else parse_number_s E positive 0 s2
    else if is_digit19 c then
      let '(n, sg, ov) := sig_loop (rest s1) (digit_val c) in
      let* (_, s2) := peek_or_null E (advance n s1) in
      if ov then let* (f, s3) := parse_long_integer_s E positive sg s2 in Ok (PF64 f, s3)
      else parse_number_s E positive sg s2
    else error E s1 InvalidNumber
  end.
