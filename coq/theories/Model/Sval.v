(* Model/Sval.v — the serde data model as a tree of Serializer calls.
   A well-formed program driving the `serde::Serializer` API *is* such a tree: every constructor names the
   one `serialize_*` call it stands for (containers: the opening call, one `serialize_element` / `serialize_field` /
   `serialize_key`+`serialize_value` per child, `end`).  Length hints of sequences and maps are carried by the node
   (`None` or `Some n`; the serde contract says `Some` is exact; tuples, structs and the variant forms always pass
   their exact length).  Names (variants, struct fields) and strings are UTF-8 byte lists (`&str`).
   Floats are IEEE bit patterns (f32: 32 bits, f64: 64 bits). *)
From SJ Require Import Base.Bytes.
Open Scope N_scope.

Inductive intty := I8 | I16 | I32 | I64 | I128 | U8 | U16 | U32 | U64 | U128.

Inductive sval :=
  | SBool (b : bool)                                   (* serialize_bool *)
  | SInt (ty : intty) (z : Z)                          (* serialize_i8 .. serialize_u128 *)
  | SF32 (bits : N)                                    (* serialize_f32 *)
  | SF64 (bits : N)                                    (* serialize_f64 *)
  | SChar (c : N)                                      (* serialize_char, a Unicode scalar value *)
  | SStr (s : bytes)                                   (* serialize_str *)
  | SBytes (s : bytes)                                 (* serialize_bytes *)
  | SNone                                              (* serialize_none *)
  | SSome (v : sval)                                   (* serialize_some *)
  | SUnit                                              (* serialize_unit *)
  | SUnitStruct                                        (* serialize_unit_struct *)
  | SUnitVariant (name : bytes)                        (* serialize_unit_variant *)
  | SNewtypeStruct (v : sval)                          (* serialize_newtype_struct *)
  | SNewtypeVariant (name : bytes) (v : sval)          (* serialize_newtype_variant *)
  | SSeq (hint : option nat) (es : list sval)          (* serialize_seq(hint); serialize_element*; end *)
  | STuple (es : list sval)                            (* serialize_tuple(len) *)
  | STupleStruct (es : list sval)                      (* serialize_tuple_struct(_, len) *)
  | STupleVariant (name : bytes) (es : list sval)      (* serialize_tuple_variant(_, _, name, len) *)
  | SMap (hint : option nat) (kvs : list (sval * sval))(* serialize_map(hint); (serialize_key; serialize_value)*; end *)
  | SStruct (fs : list (bytes * sval))                 (* serialize_struct(_, len); serialize_field*; end *)
  | SStructVariant (name : bytes) (fs : list (bytes * sval))
  | SCollectStr (chunks : list bytes)                  (* collect_str(&d) where d's Display makes one write_str per chunk *)
  | SNumLit (lit : bytes).                             (* arbitrary_precision only: what `Serialize for Number` does —
                                                          serialize_struct(TOKEN, 1); serialize_field(TOKEN, &lit); end *)

(* ranges of the twelve integer types *)
Definition int_lo (ty : intty) : Z :=
  match ty with
  | I8 => -128 | I16 => -32768 | I32 => -2147483648 | I64 => -9223372036854775808
  | I128 => -170141183460469231731687303715884105728
  | _ => 0
  end%Z.
Definition int_hi (ty : intty) : Z :=
  match ty with
  | I8 => 127 | I16 => 32767 | I32 => 2147483647 | I64 => 9223372036854775807
  | I128 => 170141183460469231731687303715884105727
  | U8 => 255 | U16 => 65535 | U32 => 4294967295 | U64 => 18446744073709551615
  | U128 => 340282366920938463463374607431768211455
  end%Z.
Definition int_in_range (ty : intty) (z : Z) : bool := (int_lo ty <=? z)%Z && (z <=? int_hi ty)%Z.
