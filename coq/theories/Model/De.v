(* Model/De.v — `Value::deserialize(&mut Deserializer)`: deserialize_any with the Value visitor
   (src/de.rs deserialize_any, SeqAccess/MapAccess::has_next_*, MapKey::deserialize_any,
   parse_object_colon, end_seq, end_map, check_recursion!; src/value/de.rs ValueVisitor),
   `Deserializer::end`, `from_trait`. *)
From SJ Require Import Base.Bytes Base.FloatB Gen.Tables Model.Read Model.Str Model.Num Model.Value.
From Flocq Require Import Core BinarySingleNaN.
Open Scope N_scope.

(* ParserNumber::visit with the Value visitor (visit_u64 / visit_i64 / visit_f64 / Number from string) *)
Definition visit_number (p : pnum) : value :=
  match p with
  | PU64 n => VNum (NPos n)
  | PI64 z => VNum (NNeg z)
  | PF64 f => if b64_is_finite f then VNum (NFloat f) else VNull   (* Number::from_f64(..).map_or(Null, ..) *)
  | PString s => VNum (NLit s)
  end.

(* under arbitrary_precision every Number holds its text; integers are printed by itoa *)
Definition ap_lit_of (p : pnum) : bytes :=
  match p with
  | PU64 n => itoa n
  | PI64 z => 45 :: itoa (Z.to_N (- z))
  | PString s => s
  | PF64 _ => []
  end.

Definition visit_number_cfg (E : env) (p : pnum) : value :=
  if arbitrary_precision (cf E) then VNum (NLit (ap_lit_of p)) else visit_number p.

Definition parse_object_colon (E : env) (s : st) : res st :=
  let* (o, s1) := parse_whitespace E s in
  match o with
  | Some b => if b =? 58 then Ok (discard s1) else peek_error E s1 ExpectedColon
  | None => peek_error E s1 EofWhileParsingObject
  end.

Definition end_seq (E : env) (s : st) : res st :=
  let* (o, s1) := parse_whitespace E s in
  match o with
  | Some b =>
    if b =? 93 then Ok (discard s1)
    else if b =? 44 then
      let* (o2, s2) := parse_whitespace E (discard s1) in
      match o2 with
      | Some b2 => if b2 =? 93 then peek_error E s2 TrailingComma else peek_error E s2 TrailingCharacters
      | None => peek_error E s2 TrailingCharacters
      end
    else peek_error E s1 TrailingCharacters
  | None => peek_error E s1 EofWhileParsingList
  end.

Definition end_map (E : env) (s : st) : res st :=
  let* (o, s1) := parse_whitespace E s in
  match o with
  | Some b =>
    if b =? 125 then Ok (discard s1)
    else if b =? 44 then peek_error E s1 TrailingComma
    else peek_error E s1 TrailingCharacters
  | None => peek_error E s1 EofWhileParsingObject
  end.

(* SeqAccess::has_next_element: Ok None = `]` seen (not consumed); Ok (Some s) = an element starts at s *)
Definition has_next_element (E : env) (first : bool) (s : st) : res (option st) :=
  let* (o, s1) := parse_whitespace E s in
  match o with
  | None => peek_error E s1 EofWhileParsingList
  | Some b =>
    if b =? 93 then Ok None
    else if first then Ok (Some s1)
    else if b =? 44 then
      let* (o2, s2) := parse_whitespace E (discard s1) in
      match o2 with
      | Some b2 => if b2 =? 93 then peek_error E s2 TrailingComma else Ok (Some s2)
      | None => peek_error E s2 EofWhileParsingValue
      end
    else peek_error E s1 ExpectedListCommaOrEnd
  end.

(* MapAccess::has_next_key *)
Definition has_next_key (E : env) (first : bool) (s : st) : res (option st) :=
  let* (o, s1) := parse_whitespace E s in
  match o with
  | None => peek_error E s1 EofWhileParsingObject
  | Some b =>
    if b =? 125 then Ok None
    else if first then
      if b =? 34 then Ok (Some s1) else peek_error E s1 KeyMustBeAString
    else if b =? 44 then
      let* (o2, s2) := parse_whitespace E (discard s1) in
      match o2 with
      | Some b2 =>
        if b2 =? 34 then Ok (Some s2)
        else if b2 =? 125 then peek_error E s2 TrailingComma
        else peek_error E s2 KeyMustBeAString
      | None => peek_error E s2 EofWhileParsingValue
      end
    else peek_error E s1 ExpectedObjectCommaOrEnd
  end.

Definition lit_ull : bytes := [117; 108; 108].
Definition lit_rue : bytes := [114; 117; 101].
Definition lit_alse : bytes := [97; 108; 115; 101].

(* deserialize_any with the Value visitor; visit_seq / visit_map loops.  All three recurse on [fuel]. *)
Fixpoint parse_value (fuel : nat) (E : env) (s : st) {struct fuel} : res (value * st) :=
  match fuel with
  | O => OutOfFuel
  | S f =>
    let* (o, s1) := parse_whitespace E s in
    match o with
    | None => peek_error E s1 EofWhileParsingValue
    | Some b =>
      if b =? 110 then let* s2 := parse_ident E lit_ull (discard s1) in Ok (VNull, s2)
      else if b =? 116 then let* s2 := parse_ident E lit_rue (discard s1) in Ok (VBool true, s2)
      else if b =? 102 then let* s2 := parse_ident E lit_alse (discard s1) in Ok (VBool false, s2)
      else if b =? 45 then
        let* (p, s2) := parse_any_number E false (discard s1) in Ok (visit_number_cfg E p, s2)
      else if is_digit b then
        let* (p, s2) := parse_any_number E true s1 in Ok (visit_number_cfg E p, s2)
      else if b =? 34 then
        let* (str, _, s2) := parse_str E (discard s1) in Ok (VStr str, s2)
      else if b =? 91 then
        let* s2 := enter E s1 in
        let* (vs, s3) := parse_seq f E true (discard s2) in
        let* s4 := leave E s3 in
        let* s5 := end_seq E s4 in
        Ok (VArr vs, s5)
      else if b =? 123 then
        let* s2 := enter E s1 in
        let* (es, s3) := parse_map f E true (discard s2) in
        let* s4 := leave E s3 in
        let* s5 := end_map E s4 in
        Ok (VObj (map_of_entries (preserve_order (cf E)) es), s5)
      else peek_error E s1 ExpectedSomeValue
    end
  end
with parse_seq (fuel : nat) (E : env) (first : bool) (s : st) {struct fuel} : res (list value * st) :=
  match fuel with
  | O => OutOfFuel
  | S f =>
    let* o := has_next_element E first s in
    match o with
    | None => Ok ([], s)
    | Some s1 =>
      let* (v, s2) := parse_value f E s1 in
      let* (vs, s3) := parse_seq f E false s2 in
      Ok (v :: vs, s3)
    end
  end
with parse_map (fuel : nat) (E : env) (first : bool) (s : st) {struct fuel} : res (list (bytes * value) * st) :=
  match fuel with
  | O => OutOfFuel
  | S f =>
    let* o := has_next_key E first s in
    match o with
    | None => Ok ([], s)
    | Some s1 =>
      let* (k, _, s2) := parse_str E (discard s1) in       (* MapKey::deserialize_any *)
      let* s3 := parse_object_colon E s2 in
      let* (v, s4) := parse_value f E s3 in
      let* (es, s5) := parse_map f E false s4 in
      Ok ((k, v) :: es, s5)
    end
  end.

(* Deserializer::end *)
Definition de_end (E : env) (s : st) : res st :=
  let* (o, s1) := parse_whitespace E s in
  match o with
  | Some _ => peek_error E s1 TrailingCharacters
  | None => Ok s1
  end.

Definition value_fuel (input : bytes) : nat := S (S (S (2 * length input))).

(* from_trait::<_, Value> *)
Definition from_input (E : env) (input : bytes) : res value :=
  let* (v, s1) := parse_value (value_fuel input) E (init_st input) in
  let* _ := de_end E s1 in
  Ok v.
