(* Model/VdeAst.v — the decision structures tools/translate_vde.py translates src/value/de.rs into (`Value` as a serde Deserializer: the code
   behind `from_value::<T>(v)` and `T::deserialize(&v)`), and their meaning over [value] and a visitor.  DEFINITIONS ONLY.

   Gen/VdeTables.v (GENERATED on every run) holds what the source says now; Proofs/VdeSrc.v proves that the hand-written
   Model/ValueDe.v ([de_value_owned], [de_value_ref], [value_of_value], [de_value_key], the visitor loops) equals the meaning of the
   translated tables, and that the owned and the by-reference tables agree method by method up to the Ref twins.

   (1) impl Deserializer for Value / for &'de Value: per method a body
         match self | *self { [#[cfg(..)]] Value::X(b) => ACTION, .. , _ | other => ACTION }        BMatch
         ACTION (one tail expression; `drop(self);` before it is accepted in the owned impl)          BDo
         #[cfg(feature = "raw_value")] { if name == crate::raw::TOKEN { return A; } } let _ = name; B BRawGate
       ACTION ::= visitor.visit_unit() | visit_none() | visit_bool(b) | visit_string(b) | visit_borrowed_str(b) | visit_some(self)
                | visit_newtype_struct(self) | n.deserialize_any(visitor) | n.$method(visitor) | visit_array(b, visitor)
                | visit_array_ref(b, visitor) | b.deserialize_any(visitor) [b a Map] | b.deserialize_enum(name, variants, visitor)
                | visitor.visit_enum(Enum[Ref]Deserializer { variant, value: None }) | Err(self.invalid_type(&visitor))
                | Err(serde::de::Error::invalid_type(other.unexpected(), &"..")) | self.deserialize_M(visitor) | unreachable!()
                | visitor.visit_map(crate::raw::OwnedRawDeserializer { raw_value: Some(self.to_string()) })
       The translator checks the typing the interpreter relies on (a payload is used only in the arm whose pattern binds it, with the type
       the action needs); a wrongly typed action yields [VPanic] here.
       The macros deserialize_number! / deserialize_value_ref_number! are translated once each (two cfg-gated bodies) and instantiated.
   (h) visit_array / visit_array_ref / Map::deserialize_any / &Map::deserialize_any:  [helper]
         let len = X.len(); let mut deserializer = D::new(X); let r = tri!(visitor.visit_seq|visit_map(&mut deserializer));
         let remaining = deserializer.iter.len(); if remaining == 0 { Ok(r) } else { Err(invalid_length(len, &"..")) }   (or just Ok(r))
       Map::deserialize_enum (exact text): exactly one entry, else invalid_value.
   (2) EnumDeserializer::variant_seed (exact text) and the four VariantAccess methods of Variant[Ref]Deserializer:
         match self.value { Some(value) | Some(Value::Array(v)) | Some(Value::Object(v)) | Some(other) | None => XACTION }
   (3) Seq[Ref]Deserializer / Map[Ref]Deserializer: next_element_seed, next_key_seed, next_value_seed, size_hint by exact text -> a class;
       the meaning is a step function of the access state, and the visitors' loops of the universal seed run on it.
   (4) MapKeyDeserializer: per method a class (deserialize_numeric_key! instances with their `$using`, exact bodies otherwise).

   Trusted besides these meanings: the visitors of the universal seed ([seed_visitor]: one record per [ty]; the SAME helper functions as
   Model/ValueDe.v, so the comparison is about DISPATCH), `impl Deserializer for Number` (Model/ValueDe.v: [number_any], [number_de_*]),
   serde's StringDeserializer / StrDeserializer / CowStrDeserializer (identifier of a variant), forward_to_deserialize_any!. *)
From SJ Require Import Base.Bytes Base.Utf8 Base.FloatB Gen.Tables
  Model.Read Model.Str Model.Num Model.NumF32 Model.Value Model.De Model.Ignore Model.Ty Model.NumberM Model.DeTyped Model.ValueDe.
Open Scope N_scope.

(* ---- the 31 methods of serde::Deserializer ------------------------------------------------------------------------------------ *)
Inductive vmethod :=
  | d_any | d_bool | d_i8 | d_i16 | d_i32 | d_i64 | d_i128 | d_u8 | d_u16 | d_u32 | d_u64 | d_u128 | d_f32 | d_f64
  | d_char | d_str | d_string | d_bytes | d_byte_buf | d_option | d_unit | d_unit_struct | d_newtype_struct
  | d_seq | d_tuple | d_tuple_struct | d_map | d_struct | d_enum | d_identifier | d_ignored_any.

Definition vmethod_idx (m : vmethod) : nat :=
  match m with
  | d_any => 0 | d_bool => 1 | d_i8 => 2 | d_i16 => 3 | d_i32 => 4 | d_i64 => 5 | d_i128 => 6 | d_u8 => 7 | d_u16 => 8 | d_u32 => 9
  | d_u64 => 10 | d_u128 => 11 | d_f32 => 12 | d_f64 => 13 | d_char => 14 | d_str => 15 | d_string => 16 | d_bytes => 17
  | d_byte_buf => 18 | d_option => 19 | d_unit => 20 | d_unit_struct => 21 | d_newtype_struct => 22 | d_seq => 23 | d_tuple => 24
  | d_tuple_struct => 25 | d_map => 26 | d_struct => 27 | d_enum => 28 | d_identifier => 29 | d_ignored_any => 30
  end%nat.
Definition vmethod_eqb (a b : vmethod) : bool := Nat.eqb (vmethod_idx a) (vmethod_idx b).

Definition int_vmethod (t : intty) : vmethod :=
  match t with I8 => d_i8 | I16 => d_i16 | I32 => d_i32 | I64 => d_i64 | I128 => d_i128
             | U8 => d_u8 | U16 => d_u16 | U32 => d_u32 | U64 => d_u64 | U128 => d_u128 end.

(* ---- (1) syntax ----------------------------------------------------------------------------------------------------------------- *)
Inductive vpat := PNull | PBool | PNumber | PString | PArray | PObject | PWild.      (* Value::X(..) / `_` / `other` *)
Inductive vcfg :=
  | CAlways
  | CAlloc | CNoAlloc            (* #[cfg(any(feature = "std", feature = "alloc"))] / #[cfg(not(any(..)))]; lib.rs: compile_error! without either *)
  | CAp | CNotAp                 (* #[cfg(feature = "arbitrary_precision")] / #[cfg(not(feature = "arbitrary_precision"))] *)
  | CFr | CNotFr.                (* #[cfg(feature = "float_roundtrip")] / not *)
Inductive seq_helper := HVisitArray | HVisitArrayRef.
Inductive enum_twin := EnumOwned | EnumRef.                   (* EnumDeserializer / EnumRefDeserializer *)

Inductive vaction :=
  | AVisitUnit | AVisitNone
  | AVisitBool | AVisitString | AVisitBorrowedStr               (* the payload of the Bool / String arm *)
  | AVisitSome | AVisitNewtype                                  (* visitor.visit_some(self) / visit_newtype_struct(self) *)
  | ANumberAny | ANumberSame                                    (* n.deserialize_any(visitor) / n.$method(visitor) *)
  | AVisitArray (h : seq_helper)
  | AMapAny | AMapEnum
  | AVisitEnumUnit (e : enum_twin)
  | AInvalidType | AInvalidTypeExp
  | ASelfMethod (m : vmethod)
  | AVisitRawMap
  | AUnreachable.

Inductive vbody :=
  | BMatch (arms : list (vcfg * vpat * vaction))
  | BDo (a : vaction)
  | BRawGate (a : vaction) (rest : vbody).

(* ---- (h) the helpers -------------------------------------------------------------------------------------------------------------- *)
Inductive access := AccSeq | AccSeqRef | AccMap | AccMapRef.   (* SeqDeserializer / SeqRefDeserializer / MapDeserializer / MapRefDeserializer *)
Inductive vvisit := VisitSeq | VisitMap.
Inductive leftover := LeftoverIsInvalidLength | LeftoverIgnored.
Record helper := mkHelper { h_access : access; h_visit : vvisit; h_leftover : leftover }.
(* Map::deserialize_enum, by exact text: `iter.next()` None => invalid_value; a second `iter.next().is_some()` => invalid_value;
   visitor.visit_enum(Enum[Ref]Deserializer { variant, value: Some(value) }) *)
Inductive map_enum_class := MapEnumSingleEntry (e : enum_twin).

(* ---- (2) Variant[Ref]Deserializer --------------------------------------------------------------------------------------------------- *)
Inductive vamethod := va_unit_variant | va_newtype_variant_seed | va_tuple_variant | va_struct_variant.
Inductive opat := OSomeAny | OSomeArray | OSomeObject | ONone.     (* Some(value) | Some(other) / Some(Value::Array(v)) / Some(Value::Object(v)) / None *)
Inductive xaction :=
  | XUnitFromValue                 (* Deserialize::deserialize(value)          at type () *)
  | XOkUnit                        (* Ok(()) *)
  | XSeed                          (* seed.deserialize(value) *)
  | XInvalidType                   (* Err(serde::de::Error::invalid_type(Unexpected::UnitVariant | other.unexpected(), &"..")) *)
  | XEmptyUnitElseArray (h : seq_helper)   (* { if v.is_empty() { visitor.visit_unit() } else { visit_array[_ref](v, visitor) } } *)
  | XMapAny.                       (* v.deserialize_any(visitor) *)
Inductive variant_twin := VariantOwned | VariantRef.               (* VariantDeserializer / VariantRefDeserializer *)
(* Enum[Ref]Deserializer::variant_seed, by exact text:
     let variant = self.variant.into_deserializer(); let visitor = Variant[Ref]Deserializer { value: self.value };
     seed.deserialize(variant).map(|v| (v, visitor)) *)
Inductive variant_seed_class := VariantSeedIntoDeserializer (t : variant_twin).

(* ---- (3) Seq / Map access ---------------------------------------------------------------------------------------------------------- *)
Inductive cow := CowOwned | CowBorrowed.
Inductive access_class :=
  | NextElementFromIter            (* match self.iter.next() { Some(value) => seed.deserialize(value).map(Some), None => Ok(None) } *)
  | NextKeyFromIter (c : cow)      (* match self.iter.next() { Some((key, value)) => { self.value = Some(value);
                                        let key_de = MapKeyDeserializer { key: Cow::Owned(key) | Cow::Borrowed(&**key) };
                                        seed.deserialize(key_de).map(Some) } None => Ok(None) } *)
  | NextValueTake                  (* match self.value.take() { Some(value) => seed.deserialize(value), None => Err(custom("value is missing")) } *)
  | SizeHintExact.                 (* match self.iter.size_hint() { (lower, Some(upper)) if lower == upper => Some(upper), _ => None } *)
Inductive amethod := a_next_element_seed | a_next_key_seed | a_next_value_seed | a_size_hint.

(* ---- (4) MapKeyDeserializer --------------------------------------------------------------------------------------------------------- *)
Inductive keyusing := UsingNumber | UsingF32 | UsingI128 | UsingU128.   (* deserialize_number / do_deserialize_f32 / do_deserialize_i128 / do_deserialize_u128 *)
Inductive kclass :=
  | KAnyCow                        (* BorrowedCowStrDeserializer::new(self.key).deserialize_any(visitor) *)
  | KNumericKey (u : keyusing)        (* deserialize_numeric_key!($method, $using) *)
  | KBoolText                      (* "true" / "false" / invalid_type(Unexpected::Str(&self.key), &visitor) *)
  | KSome                          (* visitor.visit_some(self) *)
  | KNewtypeSelf                   (* visitor.visit_newtype_struct(self) *)
  | KEnumIntoDeserializer          (* self.key.into_deserializer().deserialize_enum(name, variants, visitor) *)
  | KForwardAny.                   (* forward_to_deserialize_any! *)
(* BorrowedCowStrDeserializer::deserialize_any, by exact text: Cow::Borrowed(s) => visit_borrowed_str(s), Cow::Owned(s) => visit_string(s) *)
Inductive cow_any_class := CowAnyByKind.

(* ---- the translated source ----------------------------------------------------------------------------------------------------------- *)
Definition method_table : Type := list (vmethod * vcfg * vbody).
Definition variant_table : Type := list (vamethod * list (opat * xaction)).
Definition access_table : Type := list (amethod * access_class).

Record vde_source := mkSource {
  s_owned : method_table;                      (* impl<'de> serde::Deserializer<'de> for Value *)
  s_ref : method_table;                        (* impl<'de> serde::Deserializer<'de> for &'de Value *)
  s_visit_array : helper;
  s_visit_array_ref : helper;
  s_map_any : helper;                          (* <Map<String, Value> as Deserializer>::deserialize_any *)
  s_map_any_ref : helper;                      (* <&'de Map<String, Value> as Deserializer>::deserialize_any *)
  s_map_enum : map_enum_class;
  s_map_enum_ref : map_enum_class;
  s_raw_token : bytes;                         (* crate::raw::TOKEN *)
  s_variant_seed : variant_seed_class;         (* EnumDeserializer::variant_seed *)
  s_variant_seed_ref : variant_seed_class;     (* EnumRefDeserializer::variant_seed *)
  s_variant : variant_table;                   (* impl VariantAccess for VariantDeserializer *)
  s_variant_ref : variant_table;               (* impl VariantAccess for VariantRefDeserializer *)
  s_seq_access : access_table;                 (* impl SeqAccess for SeqDeserializer *)
  s_seq_access_ref : access_table;
  s_map_access : access_table;                 (* impl MapAccess for MapDeserializer *)
  s_map_access_ref : access_table;
  s_key : list (vmethod * vcfg * kclass);      (* impl Deserializer for MapKeyDeserializer *)
  s_cow_any : cow_any_class                    (* BorrowedCowStrDeserializer::deserialize_any *)
}.

(* ---- visitors ------------------------------------------------------------------------------------------------------------------------ *)
(* what a Visitor does with each visit the Value deserializers can make.  The deserializer arguments of visit_some / visit_newtype_struct /
   visit_seq / visit_map / visit_enum are the Value (list, entries, variant + payload) they were built from: what the visitor does with
   them is a function of that data (for the impl the record was made for). *)
Record visitor (A : Type) := mkVisitor {
  v_unit : vres A;
  v_none : vres A;
  v_bool : bool -> vres A;
  v_num : numvis A;                                                        (* the numeric visits Number::deserialize_any can make *)
  v_number_same : num -> vres A;                                           (* Number::deserialize_<the request's own method>(this visitor) *)
  v_string : bytes -> vres A;
  v_borrowed_str : bytes -> vres A;
  v_some : value -> vres A;
  v_newtype : value -> vres A;
  v_seq : list value -> vres (A * list value);                             (* the value, and what it left in the iterator *)
  v_map : list (bytes * value) -> vres (A * list (bytes * value));
  v_enum : bytes -> option value -> vres A;
  v_raw : value -> vres A                                                  (* visit_map(OwnedRawDeserializer { raw_value: Some(self.to_string()) }) *)
}.
Arguments mkVisitor {A}.
Arguments v_unit {A}. Arguments v_none {A}. Arguments v_bool {A}. Arguments v_num {A}. Arguments v_number_same {A}. Arguments v_string {A}.
Arguments v_borrowed_str {A}. Arguments v_some {A}. Arguments v_newtype {A}. Arguments v_seq {A}. Arguments v_map {A}. Arguments v_enum {A}.
Arguments v_raw {A}.

(* ---- (1) meaning ---------------------------------------------------------------------------------------------------------------------- *)
Definition pat_matches (p : vpat) (v : value) : bool :=
  match p, v with
  | PNull, VNull | PBool, VBool _ | PNumber, VNum _ | PString, VStr _ | PArray, VArr _ | PObject, VObj _ | PWild, _ => true
  | _, _ => false
  end.

(* [ap] / [fr]: features arbitrary_precision / float_roundtrip.  std-or-alloc is always on (lib.rs refuses to compile otherwise; pinned). *)
Definition cfg_on (ap fr : bool) (c : vcfg) : bool :=
  match c with
  | CAlways | CAlloc => true
  | CNoAlloc => false
  | CAp => ap | CNotAp => negb ap
  | CFr => fr | CNotFr => negb fr
  end.

Fixpoint lookup_body {B} (ap fr : bool) (t : list (vmethod * vcfg * B)) (m : vmethod) : option B :=
  match t with
  | [] => None
  | (m', c, b) :: r => if vmethod_eqb m' m && cfg_on ap fr c then Some b else lookup_body ap fr r m
  end.

(* `let r = tri!(visitor.visit_seq(&mut deserializer)); let remaining = deserializer.iter.len(); if remaining == 0 { Ok(r) } else { Err(..) }` *)
Definition run_helper {A X} (h : helper) (visit : list X -> vres (A * list X)) (input : list X) : vres A :=
  let& (a, rem) := visit input in
  match h_leftover h with
  | LeftoverIsInvalidLength => match rem with [] => VOk a | _ :: _ => verr MInvalidLength end
  | LeftoverIgnored => VOk a
  end.

Definition run_map_enum {A} (c : map_enum_class) (visit_enum : bytes -> option value -> vres A) (m : list (bytes * value)) : vres A :=
  match c with
  | MapEnumSingleEntry _ =>
    match m with
    | [] => verr MInvalidValue
    | (variant, value) :: rest =>
      match rest with
      | _ :: _ => verr MInvalidValue
      | [] => visit_enum variant (Some value)
      end
    end
  end.

Definition VDE_FUEL : nat := 4.     (* the longest chain of `self.deserialize_M(visitor)` forwards is 2 *)

Section Interp.
  Variable S : vde_source.
  Variable side : bool.                  (* false: impl for Value, true: impl for &'de Value *)
  Variable ap rv : bool.                 (* features arbitrary_precision, raw_value *)
  Variable cf : cfg.
  Variable fx : fenv.
  Variable name : bytes.                 (* the `name` argument of deserialize_newtype_struct *)

  Definition methods_of_side : method_table := if side then s_ref S else s_owned S.
  Definition map_any_of_side : helper := if side then s_map_any_ref S else s_map_any S.
  Definition map_enum_of_side : map_enum_class := if side then s_map_enum_ref S else s_map_enum S.
  Definition seq_helper_of (h : seq_helper) : helper := match h with HVisitArray => s_visit_array S | HVisitArrayRef => s_visit_array_ref S end.

  Section Body.
    Context {A : Type}.
    Variable V : visitor A.
    Variable self_call : vmethod -> value -> vres A.          (* self.deserialize_M(visitor) *)

    Definition run_action (a : vaction) (v : value) : vres A :=
      match a with
      | AVisitUnit => v_unit V
      | AVisitNone => v_none V
      | AVisitBool => match v with VBool b => v_bool V b | _ => VPanic end
      | AVisitString => match v with VStr s => v_string V s | _ => VPanic end
      | AVisitBorrowedStr => match v with VStr s => v_borrowed_str V s | _ => VPanic end
      | AVisitSome => v_some V v
      | AVisitNewtype => v_newtype V v
      | ANumberAny => match v with VNum n => number_any cf fx n (v_num V) | _ => VPanic end
      | ANumberSame => match v with VNum n => v_number_same V n | _ => VPanic end
      | AVisitArray h =>
        match v with
        | VArr l => match h_visit (seq_helper_of h) with VisitSeq => run_helper (seq_helper_of h) (v_seq V) l | VisitMap => VPanic end
        | _ => VPanic
        end
      | AMapAny =>
        match v with
        | VObj m => match h_visit map_any_of_side with VisitMap => run_helper map_any_of_side (v_map V) m | VisitSeq => VPanic end
        | _ => VPanic
        end
      | AMapEnum => match v with VObj m => run_map_enum map_enum_of_side (v_enum V) m | _ => VPanic end
      | AVisitEnumUnit _ => match v with VStr s => v_enum V s None | _ => VPanic end
      | AInvalidType | AInvalidTypeExp => verr MInvalidType
      | ASelfMethod m => self_call m v
      | AVisitRawMap => v_raw V v
      | AUnreachable => VPanic
      end.

    Fixpoint run_arms (arms : list (vcfg * vpat * vaction)) (v : value) : vres A :=
      match arms with
      | [] => VPanic
      | (c, p, a) :: r => if cfg_on ap false c && pat_matches p v then run_action a v else run_arms r v
      end.

    Fixpoint run_body (b : vbody) (v : value) : vres A :=
      match b with
      | BMatch arms => run_arms arms v
      | BDo a => run_action a v
      | BRawGate a rest => if rv && beq_bytes name (s_raw_token S) then run_action a v else run_body rest v
      end.
  End Body.

  Fixpoint run_method {A} (V : visitor A) (fuel : nat) (m : vmethod) (v : value) {struct fuel} : vres A :=
    match fuel with
    | O => VFuel
    | Datatypes.S f =>
      match lookup_body ap false methods_of_side m with
      | Some b => run_body V (run_method V f) b v
      | None => VPanic
      end
    end.

  (* ---- (2) meaning: VariantAccess ------------------------------------------------------------------------------------------------ *)
  Definition opat_matches (p : opat) (o : option value) : bool :=
    match p, o with
    | OSomeAny, Some _ | OSomeArray, Some (VArr _) | OSomeObject, Some (VObj _) | ONone, None => true
    | _, _ => false
    end.

  Definition variant_of_side : variant_table := if side then s_variant_ref S else s_variant S.
  Definition variant_seed_of_side : variant_seed_class := if side then s_variant_seed_ref S else s_variant_seed S.

  Definition vamethod_eqb (a b : vamethod) : bool :=
    match a, b with
    | va_unit_variant, va_unit_variant | va_newtype_variant_seed, va_newtype_variant_seed | va_tuple_variant, va_tuple_variant
    | va_struct_variant, va_struct_variant => true
    | _, _ => false
    end.
  Fixpoint lookup_variant (t : variant_table) (m : vamethod) : option (list (opat * xaction)) :=
    match t with
    | [] => None
    | (m', b) :: r => if vamethod_eqb m' m then Some b else lookup_variant r m
    end.

  (* what the caller of a VariantAccess method supplies: [c_unit] is `<() as Deserialize>::deserialize(value)`, [c_seed] the seed of
     newtype_variant_seed, [c_visitor] the visitor of tuple_variant / struct_variant *)
  Record vclient (A : Type) := mkClient { c_unit : value -> vres A; c_ok : A; c_seed : value -> vres A; c_visitor : visitor A }.
  Arguments mkClient {A}. Arguments c_unit {A}. Arguments c_ok {A}. Arguments c_seed {A}. Arguments c_visitor {A}.

  Definition run_xaction {A} (C : vclient A) (a : xaction) (o : option value) : vres A :=
    match a with
    | XUnitFromValue => match o with Some x => c_unit C x | None => VPanic end
    | XOkUnit => VOk (c_ok C)
    | XSeed => match o with Some x => c_seed C x | None => VPanic end
    | XInvalidType => verr MInvalidType
    | XEmptyUnitElseArray h =>
      match o with
      | Some (VArr l) =>
        match l with
        | [] => v_unit (c_visitor C)
        | _ :: _ => match h_visit (seq_helper_of h) with VisitSeq => run_helper (seq_helper_of h) (v_seq (c_visitor C)) l | VisitMap => VPanic end
        end
      | _ => VPanic
      end
    | XMapAny =>
      match o with
      | Some (VObj m) => match h_visit map_any_of_side with VisitMap => run_helper map_any_of_side (v_map (c_visitor C)) m | VisitSeq => VPanic end
      | _ => VPanic
      end
    end.

  Fixpoint run_oarms {A} (C : vclient A) (arms : list (opat * xaction)) (o : option value) : vres A :=
    match arms with
    | [] => VPanic
    | (p, a) :: r => if opat_matches p o then run_xaction C a o else run_oarms C r o
    end.

  Definition run_variant {A} (C : vclient A) (m : vamethod) (o : option value) : vres A :=
    match lookup_variant variant_of_side m with
    | Some arms => run_oarms C arms o
    | None => VPanic
    end.
End Interp.
Arguments mkClient {A}. Arguments c_unit {A}. Arguments c_ok {A}. Arguments c_seed {A}. Arguments c_visitor {A}.

(* ---- the visitors of the universal seed (harness/src/bin/sjh_fv.rs `impl DeserializeSeed for Seed`), one per [ty] ------------------------ *)
Definition bad {A} : vres A := verr MInvalidType.          (* every visit_* a Visitor does not override: serde's default, invalid_type *)

Definition default_visitor {A} : visitor A :=
  mkVisitor bad bad (fun _ => bad) (mkNumvis (fun _ => bad) (fun _ => bad) (fun _ => bad) (fun _ => bad) (fun _ => bad) (fun _ => bad))
    (fun _ => VPanic) (fun _ => bad) (fun _ => bad) (fun _ => bad) (fun _ => bad) (fun _ => bad) (fun _ => bad) (fun _ _ => bad) (fun _ => bad).

Definition with_seq {A} (V : visitor A) (f : list value -> vres (A * list value)) : visitor A :=
  mkVisitor (v_unit V) (v_none V) (v_bool V) (v_num V) (v_number_same V) (v_string V) (v_borrowed_str V) (v_some V) (v_newtype V)
    f (v_map V) (v_enum V) (v_raw V).
Definition with_map {A} (V : visitor A) (f : list (bytes * value) -> vres (A * list (bytes * value))) : visitor A :=
  mkVisitor (v_unit V) (v_none V) (v_bool V) (v_num V) (v_number_same V) (v_string V) (v_borrowed_str V) (v_some V) (v_newtype V)
    (v_seq V) f (v_enum V) (v_raw V).
Definition with_strings {A} (V : visitor A) (owned borrowed : bytes -> vres A) : visitor A :=
  mkVisitor (v_unit V) (v_none V) (v_bool V) (v_num V) (v_number_same V) owned borrowed (v_some V) (v_newtype V)
    (v_seq V) (v_map V) (v_enum V) (v_raw V).
Definition with_unit {A} (V : visitor A) (u : vres A) : visitor A :=
  mkVisitor u (v_none V) (v_bool V) (v_num V) (v_number_same V) (v_string V) (v_borrowed_str V) (v_some V) (v_newtype V)
    (v_seq V) (v_map V) (v_enum V) (v_raw V).
Definition with_num {A} (V : visitor A) (nv : numvis A) (same : num -> vres A) : visitor A :=
  mkVisitor (v_unit V) (v_none V) (v_bool V) nv same (v_string V) (v_borrowed_str V) (v_some V) (v_newtype V)
    (v_seq V) (v_map V) (v_enum V) (v_raw V).

(* a visit_seq / visit_map result re-wrapped *)
Definition wrap {A B X} (f : A -> B) (r : vres (A * list X)) : vres (B * list X) := let& (a, rem) := r in VOk (f a, rem).

Section Seed.
  Variable cf : cfg.
  Variable fx : fenv.
  Variable rec : ty -> value -> vres dval.                     (* Seed(t).deserialize(<a child Value, same impl>) *)
  Variable keyf : kty -> bytes -> vres dval.                   (* KSeed(k).deserialize(MapKeyDeserializer { key }) *)
  Variable enumf : list (bytes * variant) -> bytes -> option value -> vres dval.    (* EnumV::visit_enum(Enum[Ref]Deserializer { variant, value }) *)

  (* TupV / StructV, also used by tuple_variant / struct_variant *)
  Definition tuple_visitor (ts : list ty) : visitor dval := with_seq default_visitor (fun l => wrap DSeq (seq_tuple rec ts l)).
  Definition struct_visitor (fields : list (bytes * ty)) : visitor dval :=
    with_map (with_seq default_visitor (fun l => wrap DStruct (seq_tuple rec (map snd fields) l)))
             (fun m => wrap DStruct (map_fields rec fields (empty_slots fields) m)).
  Definition unit_visitor : visitor dval := with_unit default_visitor (VOk DUnit).

  Definition seed_visitor (t : ty) : visitor dval :=
    match t with
    | TValue | TRaw => default_visitor                          (* not requests of this record: see [seed_meaning] *)
    | TIgnored => with_unit default_visitor (VOk DIgnored)      (* IgnoredAny::visit_unit *)
    | TBool => mkVisitor bad bad (fun b => VOk (DBool b)) (v_num default_visitor) (fun _ => VPanic) (fun _ => bad) (fun _ => bad)
                 (fun _ => bad) (fun _ => bad) (fun _ => bad) (fun _ => bad) (fun _ _ => bad) (fun _ => bad)
    | TInt it => with_num default_visitor (intv it) (number_de_int cf fx it)
    | TF32 => with_num default_visitor f32v (number_de_f32 cf fx)
    | TF64 => with_num default_visitor f64v (number_de_f64 cf fx)
    | TChar => with_strings default_visitor (fun s => of_visit (visit_char s false st0)) (fun s => of_visit (visit_char s true st0))
    | TStr => with_strings default_visitor (fun s => of_visit (visit_string s false st0)) (fun s => of_visit (visit_string s true st0))
    | TBorrowedStr =>
      with_strings default_visitor (fun s => of_visit (visit_borrowed_only s false st0)) (fun s => of_visit (visit_borrowed_only s true st0))
    | TBytes =>                                                 (* serde_bytes::ByteBuf: visit_str / visit_string / visit_seq of u8 *)
      with_seq (with_strings default_visitor (fun s => VOk (DBytes s)) (fun s => VOk (DBytes s)))
               (fun l => wrap (fun ds => DBytes (u8s_of ds)) (seq_all (rec (TInt U8)) l))
    | TUnit | TUnitStruct => unit_visitor
    | TOption t1 =>                                             (* OptV: visit_none, visit_unit, visit_some *)
      mkVisitor (VOk DNone) (VOk DNone) (fun _ => bad) (v_num default_visitor) (fun _ => VPanic) (fun _ => bad) (fun _ => bad)
        (fun x => vmap DSome (rec t1 x)) (fun _ => bad) (fun _ => bad) (fun _ => bad) (fun _ _ => bad) (fun _ => bad)
    | TNewtype t1 =>
      mkVisitor bad bad (fun _ => bad) (v_num default_visitor) (fun _ => VPanic) (fun _ => bad) (fun _ => bad)
        (fun _ => bad) (fun x => vmap DNewtype (rec t1 x)) (fun _ => bad) (fun _ => bad) (fun _ _ => bad) (fun _ => bad)
    | TSeq t1 => with_seq default_visitor (fun l => wrap DSeq (seq_all (rec t1) l))
    | TTuple ts | TTupleStruct ts => tuple_visitor ts
    | TMap k t1 => with_map default_visitor (fun m => wrap DMap (map_all (keyf k) (rec t1) m))
    | TStruct fields => struct_visitor fields
    | TEnum vs =>
      mkVisitor bad bad (fun _ => bad) (v_num default_visitor) (fun _ => VPanic) (fun _ => bad) (fun _ => bad)
        (fun _ => bad) (fun _ => bad) (fun _ => bad) (fun _ => bad) (enumf vs) (fun _ => bad)
    end.

  (* the deserialize_* request Seed(t).deserialize(d) makes *)
  Definition seed_method (t : ty) : vmethod :=
    match t with
    | TValue => d_any | TIgnored => d_ignored_any | TRaw => d_newtype_struct
    | TBool => d_bool | TInt it => int_vmethod it | TF32 => d_f32 | TF64 => d_f64
    | TChar => d_char | TStr => d_string | TBorrowedStr => d_str | TBytes => d_byte_buf
    | TUnit => d_unit | TUnitStruct => d_unit_struct | TOption _ => d_option | TNewtype _ => d_newtype_struct
    | TSeq _ => d_seq | TTuple _ => d_tuple | TTupleStruct _ => d_tuple_struct | TMap _ _ => d_map | TStruct _ => d_struct | TEnum _ => d_enum
    end.
End Seed.

(* ---- impl Deserialize for Value: ValueVisitor (pinned by exact text in the translator) --------------------------------------------------- *)
Fixpoint values_all (rec : value -> vres value) (l : list value) : vres (list value) :=
  match l with
  | [] => VOk []
  | x :: r => let& y := rec x in let& ys := values_all rec r in VOk (y :: ys)
  end.
Fixpoint entries_all (rec : value -> vres value) (l : list (bytes * value)) : vres (list (bytes * value)) :=
  match l with
  | [] => VOk []
  | (k, x) :: r => let& y := rec x in let& ys := entries_all rec r in VOk ((k, y) :: ys)
  end.

(* [rec]: Value::deserialize(<a child Value, same impl>) *)
Definition value_visitor (cf : cfg) (fx : fenv) (rec : value -> vres value) : visitor value :=
  mkVisitor (VOk VNull) (VOk VNull) (fun b => VOk (VBool b)) (valuev cf fx) (fun _ => VPanic)
    (fun s => VOk (VStr s)) (fun s => VOk (VStr s))              (* visit_borrowed_str -> visit_str -> visit_string(String::from(..)) *)
    rec                                                          (* visit_some: Deserialize::deserialize(deserializer) *)
    (fun _ => bad)
    (* visit_seq: next_element until None *)
    (fun l => let& xs := values_all rec l in VOk (VArr xs, []))
    (* visit_map: KeyClassifier on the first key (deserialize_str on MapKeyDeserializer: visit_string / visit_borrowed_str of the key) *)
    (fun m =>
       match m with
       | [] => VOk (VObj [], [])
       | (k0, x0) :: r0 =>
         if arbitrary_precision cf && beq_bytes k0 NUMBER_TOKEN_V then
           let& nv := (match x0 with VStr s => number_from_string cf s | _ => verr MInvalidType end) in VOk (nv, r0)
         else
           let& es := entries_all rec m in VOk (VObj (map_of_entries (preserve_order cf) es), [])
       end)
    (fun _ _ => bad) (fun _ => bad).

(* ---- Seed(t).deserialize(d) for d a Value deserializer of the given side, as the translated source has it ---------------------------------- *)
Definition seed_meaning (S : vde_source) (side : bool) (cf : cfg) (fx : fenv) (name : bytes)
    (rec : ty -> value -> vres dval) (vrec : value -> vres value) (keyf : kty -> bytes -> vres dval)
    (enumf : list (bytes * variant) -> bytes -> option value -> vres dval) (t : ty) (v : value) : vres dval :=
  match t with
  | TValue =>
    vmap (fun x => DValue (Extract.Driver.show_value x))
         (run_method S side (arbitrary_precision cf) false cf fx name (value_visitor cf fx vrec) VDE_FUEL d_any v)
  | TRaw => verr MCustom                  (* without the raw_value feature the seed makes no request: Err(custom(..)) *)
  | _ => run_method S side (arbitrary_precision cf) false cf fx name (seed_visitor cf fx rec keyf enumf t) VDE_FUEL (seed_method t) v
  end.

(* EnumV::visit_enum(Enum[Ref]Deserializer { variant, value }): variant_seed (VariantSeed through serde's String / Str deserializer:
   [visit_variant]), then the VariantAccess method the variant's shape asks for *)
Definition enum_meaning (S : vde_source) (side : bool) (cf : cfg) (fx : fenv) (name : bytes)
    (rec : ty -> value -> vres dval) (vs : list (bytes * variant)) (variant : bytes) (value : option value) : vres dval :=
  match (if side then s_variant_seed_ref S else s_variant_seed S) with
  | VariantSeedIntoDeserializer _ =>
    let& (vname, vr, _) := of_visit1 (visit_variant vs variant false st0) in
    let unit_of x := run_method S side (arbitrary_precision cf) false cf fx name (unit_visitor) VDE_FUEL d_unit x in
    let client V sd := mkClient unit_of DUnit sd V in
    vmap (DVariant vname)
      (match vr with
       | VUnit => run_variant S side (client default_visitor (fun _ => VPanic)) va_unit_variant value
       | VNewtype t1 => run_variant S side (client default_visitor (rec t1)) va_newtype_variant_seed value
       | VTuple ts => run_variant S side (client (tuple_visitor rec ts) (fun _ => VPanic)) va_tuple_variant value
       | VStruct fields => run_variant S side (client (struct_visitor rec fields) (fun _ => VPanic)) va_struct_variant value
       end)
  end.

(* ---- agreement of the two impls up to the Ref twins ---------------------------------------------------------------------------------- *)
Definition norm_action (a : vaction) : vaction :=
  match a with
  | AVisitBorrowedStr => AVisitString
  | AVisitArray _ => AVisitArray HVisitArray
  | AVisitEnumUnit _ => AVisitEnumUnit EnumOwned
  | a => a
  end.
Inductive nbody := NMatch (arms : list (vpat * vaction)) | NDo (a : vaction) | NRawGate (a : vaction) (rest : nbody) | NMissing.
Fixpoint norm_arms (ap : bool) (arms : list (vcfg * vpat * vaction)) : list (vpat * vaction) :=
  match arms with
  | [] => []
  | (c, p, a) :: r => if cfg_on ap false c then (p, norm_action a) :: norm_arms ap r else norm_arms ap r
  end.
Fixpoint norm_body (ap : bool) (b : vbody) : nbody :=
  match b with
  | BMatch arms => NMatch (norm_arms ap arms)
  | BDo a => NDo (norm_action a)
  | BRawGate a rest => NRawGate (norm_action a) (norm_body ap rest)
  end.
(* follow `self.deserialize_M(visitor)` bodies to the method that does the work *)
Fixpoint resolve (ap : bool) (t : method_table) (fuel : nat) (m : vmethod) : option vbody :=
  match fuel with
  | O => None
  | Datatypes.S f =>
    match lookup_body ap false t m with
    | Some (BDo (ASelfMethod m')) => resolve ap t f m'
    | o => o
    end
  end.
Definition norm_method (ap : bool) (t : method_table) (m : vmethod) : nbody :=
  match resolve ap t VDE_FUEL m with Some b => norm_body ap b | None => NMissing end.

Definition norm_access (a : access) : access := match a with AccSeqRef => AccSeq | AccMapRef => AccMap | a => a end.
Definition norm_helper (h : helper) : helper := mkHelper (norm_access (h_access h)) (h_visit h) (h_leftover h).
Definition norm_xaction (a : xaction) : xaction := match a with XEmptyUnitElseArray _ => XEmptyUnitElseArray HVisitArray | a => a end.
Definition norm_variant (t : variant_table) : variant_table :=
  map (fun e => (fst e, map (fun pa => (fst pa, norm_xaction (snd pa))) (snd e))) t.
Definition norm_access_class (c : access_class) : access_class := match c with NextKeyFromIter _ => NextKeyFromIter CowOwned | c => c end.
Definition norm_access_table (t : access_table) : access_table := map (fun e => (fst e, norm_access_class (snd e))) t.

(* ---- (3) meaning: SeqAccess / MapAccess as step functions of the access state ------------------------------------------------------------ *)
Definition amethod_eqb (a b : amethod) : bool :=
  match a, b with
  | a_next_element_seed, a_next_element_seed | a_next_key_seed, a_next_key_seed | a_next_value_seed, a_next_value_seed
  | a_size_hint, a_size_hint => true
  | _, _ => false
  end.
Fixpoint lookup_access (t : access_table) (m : amethod) : option access_class :=
  match t with
  | [] => None
  | (m', c) :: r => if amethod_eqb m' m then Some c else lookup_access r m
  end.

(* Seq[Ref]Deserializer { iter }: the state is what the iterator still holds *)
Definition seq_next {A} (T : access_table) (seed : value -> vres A) (it : list value) : vres (option A * list value) :=
  match lookup_access T a_next_element_seed with
  | Some NextElementFromIter =>
    match it with
    | [] => VOk (None, [])
    | x :: r => let& a := seed x in VOk (Some a, r)
    end
  | _ => VPanic
  end.
Definition access_size_hint {X} (T : access_table) (it : list X) : option (option nat) :=
  match lookup_access T a_size_hint with
  | Some SizeHintExact => Some (Some (length it))          (* vec::IntoIter / slice::Iter / the map iterators are exact-size *)
  | _ => None
  end.

(* Map[Ref]Deserializer { iter, value } *)
Definition map_state : Type := (list (bytes * value) * option value)%type.
Definition map_next_key {K} (T : access_table) (keyseed : cow -> bytes -> vres K) (st : map_state) : vres (option K * map_state) :=
  match lookup_access T a_next_key_seed with
  | Some (NextKeyFromIter c) =>
    match fst st with
    | [] => VOk (None, ([], snd st))
    | (k, x) :: r => let& kd := keyseed c k in VOk (Some kd, (r, Some x))       (* self.value = Some(value) comes first; an error ends the run *)
    end
  | _ => VPanic
  end.
Definition map_next_value {A} (T : access_table) (seed : value -> vres A) (st : map_state) : vres (A * map_state) :=
  match lookup_access T a_next_value_seed with
  | Some NextValueTake =>
    match snd st with
    | Some x => let& a := seed x in VOk (a, (fst st, None))
    | None => verr MCustom                                   (* "value is missing" *)
    end
  | _ => VPanic
  end.

(* the visitors' loops of the universal seed (harness/src/bin/sjh_fv.rs), over such an access; [fuel] bounds the number of iterations *)
(* SeqV / ByteBuf: next_element_seed until None *)
Fixpoint seqv_loop {A} (fuel : nat) (next : list value -> vres (option A * list value)) (it : list value) : vres (list A * list value) :=
  match fuel with
  | O => VFuel
  | Datatypes.S f =>
    let& (o, it1) := next it in
    match o with
    | None => VOk ([], it1)
    | Some d => let& (ds, it2) := seqv_loop f next it1 in VOk (d :: ds, it2)
    end
  end.
(* TupV: one next_element_seed per component, None => invalid_length *)
Fixpoint tupv_loop (next : ty -> list value -> vres (option dval * list value)) (ts : list ty) (it : list value) : vres (list dval * list value) :=
  match ts with
  | [] => VOk ([], it)
  | t :: ts' =>
    let& (o, it1) := next t it in
    match o with
    | None => verr MInvalidLength
    | Some d => let& (ds, it2) := tupv_loop next ts' it1 in VOk (d :: ds, it2)
    end
  end.
(* MapV: next_key_seed, then next_value_seed, until None *)
Fixpoint mapv_loop (fuel : nat) (next_key : map_state -> vres (option dval * map_state)) (next_value : map_state -> vres (dval * map_state))
    (st : map_state) : vres (list (dval * dval) * map_state) :=
  match fuel with
  | O => VFuel
  | Datatypes.S f =>
    let& (o, st1) := next_key st in
    match o with
    | None => VOk ([], st1)
    | Some kd =>
      let& (vd, st2) := next_value st1 in
      let& (es, st3) := mapv_loop f next_key next_value st2 in
      VOk ((kd, vd) :: es, st3)
    end
  end.
(* StructV: next_key_seed(FieldSeed) -> Some(index) / None (unknown field); duplicate check; next_value_seed / next_value::<IgnoredAny>() *)
Fixpoint structv_loop (fuel : nat) (fields : list (bytes * ty))
    (next_field : map_state -> vres (option (option (nat * ty)) * map_state))
    (next_value : ty -> map_state -> vres (dval * map_state)) (next_ignored : map_state -> vres (dval * map_state))
    (slots : list (option dval)) (st : map_state) : vres (list dval * map_state) :=
  match fuel with
  | O => VFuel
  | Datatypes.S f =>
    let& (o, st1) := next_field st in
    match o with
    | None => let& ds := of_visit1 (finish_struct fields slots st0) in VOk (ds, st1)
    | Some (Some (i, t)) =>
      if slot_filled i slots then verr MDuplicateField
      else let& (d, st2) := next_value t st1 in structv_loop f fields next_field next_value next_ignored (set_slot i d slots) st2
    | Some None => let& (_, st2) := next_ignored st1 in structv_loop f fields next_field next_value next_ignored slots st2
    end
  end.

(* ---- (4) meaning: MapKeyDeserializer ------------------------------------------------------------------------------------------------------ *)
Definition kseed_method (k : kty) : vmethod :=
  match k with
  | KStr => d_string | KInt it => int_vmethod it | KBool => d_bool | KChar => d_char | KF32 => d_f32 | KF64 => d_f64
  | KOption _ => d_option | KNewtype _ => d_newtype_struct | KUnitEnum _ => d_enum
  end.

(* the class of a method, `forward_to_deserialize_any!` followed to deserialize_any *)
Definition key_class (S : vde_source) (fr : bool) (m : vmethod) : option kclass :=
  match lookup_body false fr (s_key S) m with
  | Some KForwardAny => lookup_body false fr (s_key S) d_any
  | o => o
  end.

(* a string visitor on the key: BorrowedCowStrDeserializer::deserialize_any — visit_borrowed_str for Cow::Borrowed, visit_string for Cow::Owned *)
Definition key_str_meaning {A} (S : vde_source) (fr : bool) (m : vmethod) (c : cow) (visit_string visit_borrowed : bytes -> vres A) (key : bytes) : vres A :=
  match key_class S fr m with
  | Some KAnyCow => match s_cow_any S with CowAnyByKind => match c with CowBorrowed => visit_borrowed key | CowOwned => visit_string key end end
  | Some _ => bad                                  (* visit_bool / visit_some / .. : not visits of a string visitor *)
  | None => VPanic
  end.

(* `de.$using(visitor)` on the text deserializer over the key, for the numeric visitor of [k] *)
Definition numeric_visit (k : kty) : pnum -> st -> tres (dval * st) :=
  match k with KInt it => visit_int it | KF32 => visit_f32 | KF64 => visit_f64 | _ => fun _ _ => TPanic end.
Definition key_delegate (u : keyusing) (k : kty) (E : env) : st -> tres (dval * st) :=
  match u with
  | UsingNumber => deserialize_number E (numeric_visit k)
  | UsingF32 => deserialize_number_s E (numeric_visit k)
  | UsingI128 => deserialize_i128 E
  | UsingU128 => deserialize_u128 E
  end.

Definition cow_borrowed (c : cow) : bool := match c with CowBorrowed => true | CowOwned => false end.

(* KSeed(k).deserialize(MapKeyDeserializer { key: Cow::c(key) }) *)
Fixpoint key_meaning (S : vde_source) (cf : cfg) (c : cow) (k : kty) (key : bytes) {struct k} : vres dval :=
  let fr := float_roundtrip cf in
  match key_class S fr (kseed_method k) with
  | None => VPanic
  | Some KAnyCow =>
    match k with
    | KStr => key_str_meaning S fr d_string c (fun s => of_visit (visit_string s false st0)) (fun s => of_visit (visit_string s true st0)) key
    | KChar => key_str_meaning S fr d_char c (fun s => of_visit (visit_char s false st0)) (fun s => of_visit (visit_char s true st0)) key
    | _ => bad
    end
  | Some (KNumericKey u) => vkey_numeric cf (key_delegate u k) key
  | Some KBoolText =>
    if beq_bytes key lit_true_k then match k with KBool => VOk (DBool true) | _ => bad end
    else if beq_bytes key lit_false_k then match k with KBool => VOk (DBool false) | _ => bad end
    else verr MInvalidType
  | Some KSome => match k with KOption k1 => vmap DSome (key_meaning S cf c k1 key) | _ => bad end
  | Some KNewtypeSelf => match k with KNewtype k1 => vmap DNewtype (key_meaning S cf c k1 key) | _ => bad end
  | Some KEnumIntoDeserializer =>
    (* serde's CowStrDeserializer: visit_enum with unit variants only *)
    match k with
    | KUnitEnum names =>
      let& (vname, _, _) := of_visit1 (visit_variant (map (fun n => (n, tt)) names) key false st0) in VOk (DVariant vname DUnit)
    | _ => bad
    end
  | Some KForwardAny => VPanic
  end.

(* FieldSeed (serde_derive's field identifier): deserialize_identifier; visit_str looks the name up *)
Definition field_key_meaning (S : vde_source) (cf : cfg) (fields : list (bytes * ty)) (c : cow) (key : bytes) : vres (option (nat * ty)) :=
  key_str_meaning S (float_roundtrip cf) d_identifier c (fun s => VOk (index_of s fields)) (fun s => VOk (index_of s fields)) key.
