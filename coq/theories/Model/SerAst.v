(* Model/SerAst.v — the statement language tools/translate_ser.py translates the CONTROL LOGIC of the text serializer into
   (src/ser.rs: the 31 methods of `impl ser::Serializer for &'a mut Serializer<W, F>` and the 15 methods of the seven
   `impl ser::Serialize{Seq,Tuple,TupleStruct,TupleVariant,Map,Struct,StructVariant} for Compound<'a, W, F>`), its interpreter, and the
   serde call protocol that says which method sequence a node of the call tree (Model/Sval.v) stands for.

   Gen/SerTables.v (GENERATED on every run) holds what the source says now; Proofs/SerSrc.v proves that the hand-written `Ser.ser` of
   Model/Ser.v is the interpretation of the translated methods composed according to the protocol, so a changed body breaks a proof.
   The interpreter is the (small, trusted) semantics of the Rust subset.  It runs on the model's own primitives: the formatter functions
   `begin_array F st` .. of Model/Ser.v (proved equal to the translated `Formatter` bodies in Proofs/SerFmt.v), the scalar writers
   (`write_bool`, `write_int`, `write_f32/64`, `write_byte_array`, `format_escaped_str`, `collect_str`; their Rust bodies are pinned by
   exact text in the translator), and the [tr] trace monad.

     [tri!](R.formatter.m(&mut R.writer [, ARG]).map_err(Error::io))          XCall (Fc.. )      R = self (Serializer methods) / ser (Compound)
            ARG ::= true | false | *state == State::X | value                 FEConst / FEStateIs X / the `value` parameter
     [tri!](format_escaped_str(&mut self.writer, &mut self.formatter, value).map_err(Error::io))       XCall FcFormatEscapedStr
     *state = State::X;                                                       XSetState X
     [tri!](value.serialize(self | &mut *self | &mut **ser))                  XChild PValue ViaSer      the child's own call sequence: [rec]
     [tri!](key.serialize(MapKeySerializer { ser: *ser }))                    XChild PKey ViaMapKey     [keyser] (Proofs/SerKeys.v)
     value.serialize(NumberStrEmitter(ser)) / RawValueStrEmitter(ser)         XChild PValue ViaNumberEmitter / ViaRawEmitter
     [tri!](self.serialize_m(ARGS))                                           XCallM (MSer m) [param := ARG ..]     sibling method
     ser::SerializeT::m(self [, key] [, value])                               XCallM (MComp T m) [..]               sibling impl
            ARGS ::= value | key | variant | Some(len) | value.encode_utf8(&mut buf)       (bound to the callee's parameter NAMES)
     match state { State::Empty => .., _ => .. }                              XMatchState          first matching arm
     match self / *self { Compound::Map { .. } => .., #[cfg(feature = "arbitrary_precision")] Compound::Number { .. } => ..,
                          #[cfg(feature = "raw_value")] Compound::RawValue { .. } => .. }          XMatchSelf: arms tagged with their cfg
     match name { #[cfg(..)] crate::number::TOKEN => .., #[cfg(..)] crate::raw::TOKEN => .., _ => .. }     XMatchName
     if key == crate::number::TOKEN { .. } else { .. }                        XIfKeyIs
     if len == Some(n) { .. } else { .. }                                     XIfLenIs n
     match value.classify() { FpCategory::Nan | FpCategory::Infinite => A, _ => B }                XIfNonFinite A B
     Ok(Compound::Map { ser: self, state: State::X }) / Ok(Compound::Number { ser: self }) / ..    XRetCompound
     Ok(())                                                                   XOk
     Err(f())   with  fn f() -> Error { Error::syntax(ErrorCode::C, 0, 0) }   XErr C
     unreachable!()                                                           XUnreachable  ([Panic])
     the whole body of Serializer::collect_str (pinned by exact text)         XCollectStr
     `let mut buf = [0; 4];` (serialize_char) is accepted and translates to nothing: four bytes hold any char's UTF-8 encoding.

   `tri!(e)` is `match e { Ok(v) => v, Err(err) => return Err(err) }`: [tbind] of the trace monad.  A formatter call fails only when
   the writer does; the trace model keeps every buffer and lets the writer model cut the trace (header of Model/FmtAst.v; Proofs/SerWriter.v),
   so `tri!(c.map_err(Error::io))` is just the call.  The translator checks the typing the interpreter relies on: a Result-valued
   expression stands either under tri! or in tail position; `return` does not occur; `state` / `ser` are used only where the enclosing
   `Compound::Map { ser, state }` pattern binds them.
   Machine state: the formatter's mutable fields [fstate] and the Compound the method runs on ([None] inside a Serializer method until it
   returns one).  Stuck programs (wrongly typed argument, unbound parameter, unknown method, no arm matches) yield [Panic]; calls take
   fuel (one unit per nested call; [OutOfFuel] when exhausted).

   Trusted besides the interpreter: [protocol] below (the serde contract: which calls a `Serialize` impl makes for each node — already
   the reading of Model/Sval.v), `impl Serialize for str` = serialize_str ([node_of]), and serde's PROVIDED method
   `SerializeMap::serialize_entry(k, v) = { tri!(self.serialize_key(k)); self.serialize_value(v) }` ([default_entry]; the translator
   reports BROKEN if the impl overrides it), `Serializer::collect_str` default of NumberStrEmitter = `self.serialize_str(&value.to_string())`. *)
From SJ Require Import Base.Bytes Base.Utf8 Model.Read Model.Num Model.Sval Model.Ser Model.KeyAst.
Open Scope N_scope.

(* ---- method names ---------------------------------------------------------------------------- *)
Inductive ctrait := TSeq | TTuple | TTupleStruct | TTupleVariant | TMap | TStruct | TStructVariant.
Inductive cfn := Celement | Cfield | Ckey | Cvalue | Centry | Cend.
Inductive smeth :=
  | MSer (m : kmethod)                   (* Serializer::serialize_<m> / collect_str (the 31 names of Model/KeyAst.v) *)
  | MComp (t : ctrait) (f : cfn).        (* <Compound as ser::Serialize<t>>::<f> *)

Definition ctrait_eqb (a b : ctrait) : bool :=
  match a, b with
  | TSeq, TSeq | TTuple, TTuple | TTupleStruct, TTupleStruct | TTupleVariant, TTupleVariant | TMap, TMap | TStruct, TStruct
  | TStructVariant, TStructVariant => true
  | _, _ => false
  end.
Definition cfn_eqb (a b : cfn) : bool :=
  match a, b with
  | Celement, Celement | Cfield, Cfield | Ckey, Ckey | Cvalue, Cvalue | Centry, Centry | Cend, Cend => true
  | _, _ => false
  end.
Definition smeth_eqb (a b : smeth) : bool :=
  match a, b with
  | MSer x, MSer y => kmethod_eqb x y
  | MComp t f, MComp u g => ctrait_eqb t u && cfn_eqb f g
  | _, _ => false
  end.

(* ---- syntax ------------------------------------------------------------------------------------ *)
Inductive pname := PValue | PKey | PVariant | PName | PLen.          (* the parameter names the bodies use *)
Inductive aexpr :=
  | AEVar (p : pname)                    (* value / key / variant *)
  | AESomeLen                            (* Some(len)                        len : usize *)
  | AEEncodeUtf8.                        (* value.encode_utf8(&mut buf)      value : char *)
Inductive firstexp := FEConst (b : bool) | FEStateIs (s : cstate).   (* true / false / *state == State::s *)
Inductive fcall :=
  | FcBeginArray | FcEndArray | FcBeginArrayValue (e : firstexp) | FcEndArrayValue
  | FcBeginObject | FcEndObject | FcBeginObjectKey (e : firstexp) | FcEndObjectKey | FcBeginObjectValue | FcEndObjectValue
  | FcWriteNull | FcWriteBool | FcWriteInt (ty : intty) | FcWriteF32 | FcWriteF64 | FcWriteByteArray
  | FcFormatEscapedStr.
Inductive cfgtag := CfgAlways | CfgAP | CfgRV.      (* no attribute / #[cfg(feature = "arbitrary_precision")] / #[cfg(feature = "raw_value")] *)
Inductive cpat := CPMap | CPNumber | CPRawValue.    (* Compound::Map { .. } / Compound::Number { .. } / Compound::RawValue { .. } *)
Inductive stpat := StP (s : cstate) | StPAny.       (* State::s / _ *)
Inductive tokpat := TokNumber | TokRaw | TokAny.    (* crate::number::TOKEN / crate::raw::TOKEN / _ *)
Inductive via := ViaSer | ViaMapKey | ViaNumberEmitter | ViaRawEmitter.
Inductive cexpr := CEMap (s : cstate) | CENumber | CERawValue.

Inductive sstmt :=
  | XCall (c : fcall)
  | XSetState (s : cstate)
  | XChild (x : pname) (v : via)
  | XCallM (m : smeth) (args : list (pname * aexpr))
  | XMatchState (arms : list (stpat * list sstmt))
  | XMatchSelf (arms : list (cfgtag * cpat * list sstmt))
  | XMatchName (arms : list (cfgtag * tokpat * list sstmt))
  | XIfKeyIs (t : tokpat) (a b : list sstmt)
  | XIfLenIs (n : nat) (a b : list sstmt)
  | XIfNonFinite (a b : list sstmt)
  | XRetCompound (c : cexpr)
  | XOk
  | XErr (c : ecode)
  | XUnreachable
  | XCollectStr.

(* what the 31 methods of NumberStrEmitter / RawValueStrEmitter do *)
Inductive eclass :=
  | EReject (c : ecode)                  (* Err(invalid_number()) *)
  | ERejectCustom                        (* Err(ser::Error::custom("expected RawValue")) *)
  | EWriteNumberStr                      (* serializer.formatter.write_number_str(&mut serializer.writer, value) *)
  | EWriteRawFragment                    (* serializer.formatter.write_raw_fragment(&mut serializer.writer, value) *)
  | EToStringThenStr.                    (* self.serialize_str(&value.to_string())   (written out, or serde's default collect_str) *)

Record ser_source := mkSrc {
  src_methods : list (smeth * list sstmt);
  src_number_token : bytes;                          (* crate::number::TOKEN *)
  src_raw_token : bytes;                             (* crate::raw::TOKEN *)
  src_number_emitter : list (kmethod * eclass);
  src_raw_emitter : list (kmethod * eclass)
}.

Fixpoint lookup_meth (t : list (smeth * list sstmt)) (m : smeth) : option (list sstmt) :=
  match t with
  | [] => None
  | (m', b) :: r => if smeth_eqb m' m then Some b else lookup_meth r m
  end.
Fixpoint elookup (t : list (kmethod * eclass)) (m : kmethod) : option eclass :=
  match t with
  | [] => None
  | (m', c) :: r => if kmethod_eqb m' m then Some c else elookup r m
  end.

(* ---- values ------------------------------------------------------------------------------------ *)
Inductive aval :=
  | ANone                                (* parameter not passed *)
  | ABool (b : bool) | AInt (ty : intty) (z : Z) | AF32 (bits : N) | AF64 (bits : N) | AChar (c : N)
  | AStr (s : bytes)                     (* &str *)
  | ABytes (s : bytes)                   (* &[u8] *)
  | AChunks (l : list bytes)             (* &T, T: Display making one write_str per chunk *)
  | ANode (v : sval)                     (* &T, T: Serialize: the call tree it makes *)
  | AUsize (n : nat) | AOptUsize (o : option nat).
Record margs := mkArgs { a_value : aval; a_key : aval; a_variant : aval; a_name : aval; a_len : aval }.
Definition no_args : margs := mkArgs ANone ANone ANone ANone ANone.
Definition get_arg (p : pname) (a : margs) : aval :=
  match p with PValue => a_value a | PKey => a_key a | PVariant => a_variant a | PName => a_name a | PLen => a_len a end.
Definition set_arg (p : pname) (v : aval) (a : margs) : margs :=
  match p with
  | PValue => mkArgs v (a_key a) (a_variant a) (a_name a) (a_len a)
  | PKey => mkArgs (a_value a) v (a_variant a) (a_name a) (a_len a)
  | PVariant => mkArgs (a_value a) (a_key a) v (a_name a) (a_len a)
  | PName => mkArgs (a_value a) (a_key a) (a_variant a) v (a_len a)
  | PLen => mkArgs (a_value a) (a_key a) (a_variant a) (a_name a) v
  end.

(* the call tree of a `&T: Serialize` argument; `impl Serialize for str` is `serializer.serialize_str(self)` *)
Definition node_of (a : aval) : option sval :=
  match a with ANode v => Some v | AStr s => Some (SStr s) | _ => None end.

Inductive comp := CMap (s : cstate) | CNumber | CRawValue.            (* enum Compound (the `ser` field is the machine itself) *)
Definition mstate : Type := (fstate * option comp)%type.

Definition cstate_eqb (a b : cstate) : bool :=                        (* #[derive(Eq, PartialEq)] enum State *)
  match a, b with Empty, Empty | First, First | Rest, Rest => true | _, _ => false end.
Definition intty_eqb (a b : intty) : bool :=
  match a, b with
  | I8, I8 | I16, I16 | I32, I32 | I64, I64 | I128, I128 | U8, U8 | U16, U16 | U32, U32 | U64, U64 | U128, U128 => true
  | _, _ => false
  end.
Definition comp_of (c : cexpr) : comp := match c with CEMap s => CMap s | CENumber => CNumber | CERawValue => CRawValue end.
Definition cpat_matches (p : cpat) (c : comp) : bool :=
  match p, c with CPMap, CMap _ | CPNumber, CNumber | CPRawValue, CRawValue => true | _, _ => false end.
Definition stpat_matches (p : stpat) (s : cstate) : bool := match p with StP x => cstate_eqb s x | StPAny => true end.

(* serde's provided SerializeMap::serialize_entry *)
Definition default_entry : list sstmt :=
  [XCallM (MComp TMap Ckey) [(PKey, AEVar PKey)]; XCallM (MComp TMap Cvalue) [(PValue, AEVar PValue)]].

(* ---- the emitters (what `value.serialize(NumberStrEmitter(ser))` does for the node `value` is) ---- *)
Definition emit_str (c : option eclass) (s : bytes) : tr unit :=
  match c with
  | Some (EReject e) => tfail e
  | Some ERejectCustom => tfail (Message MCustom)
  | Some EWriteNumberStr => twrite s               (* Formatter::write_number_str: writer.write_all(value.as_bytes()) *)
  | Some EWriteRawFragment => twrite s             (* Formatter::write_raw_fragment *)
  | _ => tpanic
  end.
Definition emit_meaning (t : list (kmethod * eclass)) (v : sval) : tr unit :=
  match elookup t (method_of v) with
  | Some (EReject e) => tfail e
  | Some ERejectCustom => tfail (Message MCustom)
  | Some EToStringThenStr => match v with SCollectStr chunks => emit_str (elookup t m_str) (concat chunks) | _ => tpanic end
  | c => match v with SStr s => emit_str c s | _ => tpanic end
  end.

(* ---- interpreter ------------------------------------------------------------------------------- *)
Section Interp.
  Variable src : ser_source.
  Variable ap rv : bool.                       (* features arbitrary_precision, raw_value *)
  Variable fmt32 fmt64 : N -> bytes.           (* ryu *)
  Variable F : formatter.
  Variable rec : sval -> fstate -> tr fstate.  (* value.serialize(&mut *ser): the child's own call sequence *)
  Variable keyser : sval -> tr unit.           (* key.serialize(MapKeySerializer { ser }) *)

  Definition cfg_on (c : cfgtag) : bool := match c with CfgAlways => true | CfgAP => ap | CfgRV => rv end.
  Definition tok_matches (p : tokpat) (s : bytes) : bool :=
    match p with
    | TokNumber => beq_bytes s (src_number_token src)
    | TokRaw => beq_bytes s (src_raw_token src)
    | TokAny => true
    end.

  Definition eval_first (e : firstexp) (c : option comp) : option bool :=
    match e with
    | FEConst b => Some b
    | FEStateIs s => match c with Some (CMap cs) => Some (cstate_eqb cs s) | _ => None end
    end.

  Definition eval_aexpr (e : aexpr) (a : margs) : option aval :=
    match e with
    | AEVar p => match get_arg p a with ANone => None | v => Some v end
    | AESomeLen => match a_len a with AUsize n => Some (AOptUsize (Some n)) | _ => None end
    | AEEncodeUtf8 => match a_value a with AChar c => Some (AStr (utf8_encode c)) | _ => None end
    end.
  Fixpoint bind_args (l : list (pname * aexpr)) (a : margs) (acc : margs) : option margs :=
    match l with
    | [] => Some acc
    | (p, e) :: r => match eval_aexpr e a with Some v => bind_args r a (set_arg p v acc) | None => None end
    end.

  (* a formatter method: buffers, the new formatter state *)
  Definition fm (cp : option comp) (p : list bytes * fstate) : tr mstate := (fst p, Ok (snd p, cp)).
  (* a scalar writer: buffers only *)
  Definition sc (ms : mstate) (m : tr unit) : tr mstate := do* _ := m in tret ms.

  Definition run_fcall (c : fcall) (a : margs) (ms : mstate) : tr mstate :=
    let '(st, cp) := ms in
    match c with
    | FcBeginArray => fm cp (begin_array F st)
    | FcEndArray => fm cp (end_array F st)
    | FcBeginArrayValue e => match eval_first e cp with Some b => fm cp (begin_array_value F b st) | None => tpanic end
    | FcEndArrayValue => fm cp (end_array_value F st)
    | FcBeginObject => fm cp (begin_object F st)
    | FcEndObject => fm cp (end_object F st)
    | FcBeginObjectKey e => match eval_first e cp with Some b => fm cp (begin_object_key F b st) | None => tpanic end
    | FcEndObjectKey => fm cp (end_object_key F st)
    | FcBeginObjectValue => fm cp (begin_object_value F st)
    | FcEndObjectValue => fm cp (end_object_value F st)
    | FcWriteNull => sc ms write_null
    | FcWriteBool => match a_value a with ABool b => sc ms (write_bool b) | _ => tpanic end
    | FcWriteInt ty => match a_value a with AInt ty' z => if intty_eqb ty ty' then sc ms (write_int z) else tpanic | _ => tpanic end
    | FcWriteF32 => match a_value a with AF32 bits => sc ms (write_f32 fmt32 bits) | _ => tpanic end
    | FcWriteF64 => match a_value a with AF64 bits => sc ms (write_f64 fmt64 bits) | _ => tpanic end
    | FcWriteByteArray => match a_value a with ABytes l => do* st1 := write_byte_array F l st in tret (st1, cp) | _ => tpanic end
    | FcFormatEscapedStr => match a_value a with AStr s => sc ms (format_escaped_str s) | _ => tpanic end
    end.

  Definition run_child (x : pname) (v : via) (a : margs) (ms : mstate) : tr mstate :=
    match node_of (get_arg x a) with
    | None => tpanic
    | Some n =>
      match v with
      | ViaSer => do* st1 := rec n (fst ms) in tret (st1, snd ms)
      | ViaMapKey => sc ms (keyser n)
      | ViaNumberEmitter => sc ms (emit_meaning (src_number_emitter src) n)
      | ViaRawEmitter => sc ms (emit_meaning (src_raw_emitter src) n)
      end
    end.

  Section Exec.
    Variable call : smeth -> margs -> mstate -> tr mstate.      (* a nested call (one unit of fuel less) *)
    Variable a : margs.                                         (* the parameters of the running method *)

    Fixpoint exec_stmt (s : sstmt) (ms : mstate) {struct s} : tr mstate :=
      let exec_list := fix go (l : list sstmt) (ms : mstate) {struct l} : tr mstate :=
        match l with
        | [] => tret ms
        | s :: r => do* ms1 := exec_stmt s ms in go r ms1
        end in
      match s with
      | XCall c => run_fcall c a ms
      | XSetState s' => match snd ms with Some (CMap _) => tret (fst ms, Some (CMap s')) | _ => tpanic end
      | XChild x v => run_child x v a ms
      | XCallM m args => match bind_args args a no_args with Some a' => call m a' ms | None => tpanic end
      | XMatchState arms =>
        match snd ms with
        | Some (CMap cs) =>
          (fix pick (l : list (stpat * list sstmt)) : tr mstate :=
             match l with
             | [] => tpanic
             | (p, body) :: r => if stpat_matches p cs then exec_list body ms else pick r
             end) arms
        | _ => tpanic
        end
      | XMatchSelf arms =>
        match snd ms with
        | Some c =>
          (fix pick (l : list (cfgtag * cpat * list sstmt)) : tr mstate :=
             match l with
             | [] => tpanic
             | (g, p, body) :: r => if cfg_on g && cpat_matches p c then exec_list body ms else pick r
             end) arms
        | None => tpanic
        end
      | XMatchName arms =>
        match a_name a with
        | AStr n =>
          (fix pick (l : list (cfgtag * tokpat * list sstmt)) : tr mstate :=
             match l with
             | [] => tpanic
             | (g, p, body) :: r => if cfg_on g && tok_matches p n then exec_list body ms else pick r
             end) arms
        | _ => tpanic
        end
      | XIfKeyIs t x y =>
        match a_key a with AStr k => if tok_matches t k then exec_list x ms else exec_list y ms | _ => tpanic end
      | XIfLenIs n x y =>
        match a_len a with
        | AOptUsize o => if (match o with Some k => Nat.eqb k n | None => false end) then exec_list x ms else exec_list y ms
        | _ => tpanic
        end
      | XIfNonFinite x y =>
        match a_value a with
        | AF32 bits => if f32_finite_bits bits then exec_list y ms else exec_list x ms
        | AF64 bits => if f64_finite_bits bits then exec_list y ms else exec_list x ms
        | _ => tpanic
        end
      | XRetCompound c => tret (fst ms, Some (comp_of c))
      | XOk => tret ms
      | XErr c => tfail c
      | XUnreachable => tpanic
      | XCollectStr => match a_value a with AChunks l => sc ms (collect_str l) | _ => tpanic end
      end.

    Fixpoint exec_list (l : list sstmt) (ms : mstate) : tr mstate :=
      match l with
      | [] => tret ms
      | s :: r => do* ms1 := exec_stmt s ms in exec_list r ms1
      end.
  End Exec.

  Fixpoint run (fuel : nat) (m : smeth) (a : margs) (ms : mstate) {struct fuel} : tr mstate :=
    match fuel with
    | O => ([], OutOfFuel)
    | S f =>
      match (match m with MComp TMap Centry => Some default_entry | _ => lookup_meth (src_methods src) m end) with
      | Some body => exec_list (run f) a body ms
      | None => tpanic
      end
    end.

  (* ---- the serde call protocol: the method sequence a node stands for (Model/Sval.v) ---------- *)
  Inductive pcall := PCall (m : smeth) (a : margs).
  Definition with_value (v : aval) : margs := set_arg PValue v no_args.
  Definition with_variant (name : bytes) (a : margs) : margs := set_arg PVariant (AStr name) a.
  Definition with_len (l : aval) (a : margs) : margs := set_arg PLen l a.
  Definition elem_call (t : ctrait) (f : cfn) (e : sval) : pcall := PCall (MComp t f) (with_value (ANode e)).
  Definition field_call (t : ctrait) (kv : bytes * sval) : pcall :=
    PCall (MComp t Cfield) (set_arg PKey (AStr (fst kv)) (with_value (ANode (snd kv)))).
  Definition entry_calls (kv : sval * sval) : list pcall :=
    [PCall (MComp TMap Ckey) (set_arg PKey (ANode (fst kv)) no_args); PCall (MComp TMap Cvalue) (with_value (ANode (snd kv)))].

  (* [sname]: the `name` an ordinary struct passes to serialize_struct (Model/Sval.v does not carry it; the theorem quantifies over
     every name that is not one of the two private tokens) *)
  Definition protocol (sname : bytes) (v : sval) : list pcall :=
    match v with
    | SBool b => [PCall (MSer m_bool) (with_value (ABool b))]
    | SInt ty z => [PCall (MSer (int_method ty)) (with_value (AInt ty z))]
    | SF32 bits => [PCall (MSer m_f32) (with_value (AF32 bits))]
    | SF64 bits => [PCall (MSer m_f64) (with_value (AF64 bits))]
    | SChar c => [PCall (MSer m_char) (with_value (AChar c))]
    | SStr s => [PCall (MSer m_str) (with_value (AStr s))]
    | SBytes s => [PCall (MSer m_bytes) (with_value (ABytes s))]
    | SNone => [PCall (MSer m_none) no_args]
    | SSome x => [PCall (MSer m_some) (with_value (ANode x))]
    | SUnit => [PCall (MSer m_unit) no_args]
    | SUnitStruct => [PCall (MSer m_unit_struct) no_args]
    | SUnitVariant name => [PCall (MSer m_unit_variant) (with_variant name no_args)]
    | SNewtypeStruct x => [PCall (MSer m_newtype_struct) (with_value (ANode x))]
    | SNewtypeVariant name x => [PCall (MSer m_newtype_variant) (with_variant name (with_value (ANode x)))]
    | SSeq h es =>
      PCall (MSer m_seq) (with_len (AOptUsize h) no_args) :: map (elem_call TSeq Celement) es ++ [PCall (MComp TSeq Cend) no_args]
    | STuple es =>
      PCall (MSer m_tuple) (with_len (AUsize (length es)) no_args) :: map (elem_call TTuple Celement) es
        ++ [PCall (MComp TTuple Cend) no_args]
    | STupleStruct es =>
      PCall (MSer m_tuple_struct) (with_len (AUsize (length es)) no_args) :: map (elem_call TTupleStruct Cfield) es
        ++ [PCall (MComp TTupleStruct Cend) no_args]
    | STupleVariant name es =>
      PCall (MSer m_tuple_variant) (with_variant name (with_len (AUsize (length es)) no_args))
        :: map (elem_call TTupleVariant Cfield) es ++ [PCall (MComp TTupleVariant Cend) no_args]
    | SMap h kvs =>
      PCall (MSer m_map) (with_len (AOptUsize h) no_args) :: flat_map entry_calls kvs ++ [PCall (MComp TMap Cend) no_args]
    | SStruct fs =>
      PCall (MSer m_struct) (set_arg PName (AStr sname) (with_len (AUsize (length fs)) no_args))
        :: map (field_call TStruct) fs ++ [PCall (MComp TStruct Cend) no_args]
    | SStructVariant name fs =>
      PCall (MSer m_struct_variant) (with_variant name (with_len (AUsize (length fs)) no_args))
        :: map (field_call TStructVariant) fs ++ [PCall (MComp TStructVariant Cend) no_args]
    | SCollectStr chunks => [PCall (MSer m_collect_str) (with_value (AChunks chunks))]
    | SNumLit lit =>            (* number.rs, `impl Serialize for Number`: serialize_struct(TOKEN, 1); serialize_field(TOKEN, &self.n); end *)
      [PCall (MSer m_struct) (set_arg PName (AStr (src_number_token src)) (with_len (AUsize 1) no_args));
       field_call TStruct (src_number_token src, SStr lit);
       PCall (MComp TStruct Cend) no_args]
    end.

  (* the two private struct names `serialize_struct` treats specially *)
  Definition is_private_token (n : bytes) : bool := beq_bytes n (src_number_token src) || beq_bytes n (src_raw_token src).

  Definition SER_FUEL : nat := 6.      (* the deepest chain: StructVariant::serialize_field -> Struct::serialize_field -> serialize_entry -> serialize_key *)

  Fixpoint run_calls (l : list pcall) (ms : mstate) : tr mstate :=
    match l with
    | [] => tret ms
    | PCall m a :: r => do* ms1 := run SER_FUEL m a ms in run_calls r ms1
    end.
  Definition run_protocol (sname : bytes) (v : sval) (st : fstate) : tr fstate :=
    do* ms := run_calls (protocol sname v) (st, None) in tret (fst ms).
End Interp.
