(* Model/Ignore.v — Deserializer::ignore_value (src/de.rs): the iterative skip scanner used for
   IgnoredAny, unknown struct fields and RawValue.  `scratch` (a Vec<u8> of open brackets) together
   with the local `enclosing: Option<u8>` is one stack, modelled as a list with the top first
   (`enclosing`, when Some, is its top element).  No recursion on nesting: depth is data. *)
From SJ Require Import Base.Bytes Gen.Tables Model.Read Model.Str Model.Num Model.De.
Open Scope N_scope.

Fixpoint ig_outer (fuel : nat) (E : env) (stk : bytes) (s : st) {struct fuel} : res st :=
  match fuel with
  | O => OutOfFuel
  | S f =>
    let* (o, s1) := parse_whitespace E s in
    match o with
    | None => peek_error E s1 EofWhileParsingValue
    | Some b =>
      let scalar (r : res st) : res st :=
        let* s2 := r in
        match stk with
        | [] => Ok s2
        | frame :: stk' => ig_inner f E true frame stk' s2
        end in
      if b =? 110 then scalar (parse_ident E lit_ull (discard s1))
      else if b =? 116 then scalar (parse_ident E lit_rue (discard s1))
      else if b =? 102 then scalar (parse_ident E lit_alse (discard s1))
      else if b =? 45 then scalar (ignore_integer E (discard s1))
      else if is_digit b then scalar (ignore_integer E s1)
      else if b =? 34 then scalar (ignore_str E (discard s1))
      else if (b =? 91) || (b =? 123) then ig_inner f E false b stk (discard s1)
      else peek_error E s1 ExpectedSomeValue
    end
  end
with ig_inner (fuel : nat) (E : env) (accept_comma : bool) (frame : byte) (stk : bytes) (s : st) {struct fuel} : res st :=
  match fuel with
  | O => OutOfFuel
  | S f =>
    (* after the inner loop `break`s: for an object read `"key" :`, then push the frame and scan a value *)
    let continue_outer (s2 : st) : res st :=
      if frame =? 123 then
        let* (o, s3) := parse_whitespace E s2 in
        match o with
        | None => peek_error E s3 EofWhileParsingObject
        | Some q =>
          if q =? 34 then
            let* s4 := ignore_str E (discard s3) in
            let* (o2, s5) := parse_whitespace E s4 in
            match o2 with
            | None => peek_error E s5 EofWhileParsingObject
            | Some c => if c =? 58 then ig_outer f E (frame :: stk) (discard s5) else peek_error E s5 ExpectedColon
            end
          else peek_error E s3 KeyMustBeAString
        end
      else ig_outer f E (frame :: stk) s2 in
    let* (o, s1) := parse_whitespace E s in
    match o with
    | None => peek_error E s1 (if frame =? 91 then EofWhileParsingList else EofWhileParsingObject)
    | Some b =>
      if (b =? 44) && accept_comma then continue_outer (discard s1)
      else if ((b =? 93) && (frame =? 91)) || ((b =? 125) && (frame =? 123)) then
        match stk with
        | [] => Ok (discard s1)
        | frame' :: stk' => ig_inner f E true frame' stk' (discard s1)
        end
      else if accept_comma then
        peek_error E s1 (if frame =? 91 then ExpectedListCommaOrEnd else ExpectedObjectCommaOrEnd)
      else continue_outer s1
    end
  end.

Definition ignore_fuel (s : st) : nat := S (S (S (2 * length (rest s)))).

Definition ignore_value (E : env) (s : st) : res st := ig_outer (ignore_fuel s) E [] s.

(* from_trait::<_, IgnoredAny>  (deserialize_ignored_any then end) *)
Definition ignored_from_input (E : env) (input : bytes) : res unit :=
  let* s1 := ignore_value E (init_st input) in
  let* _ := de_end E s1 in
  Ok tt.

(* deserialize_raw_value: skip whitespace, start buffering, ignore_value, stop buffering.
   Result: (start offset, end offset) of the captured span; the bytes are input[start..end].
   SliceRead / IoRead validate the span as UTF-8 (InvalidUnicodeCodePoint), StrRead does not. *)
Definition raw_value (E : env) (s : st) : res (nat * nat * st) :=
  let* (_, s0) := parse_whitespace E s in
  let* s1 := ignore_value E s0 in
  Ok (off s0, off s1, s1).
