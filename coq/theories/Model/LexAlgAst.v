(* Model/LexAlgAst.v — the statement + typed-expression language tools/translate_lexalg.py translates the CONTROL LOGIC of the
   correctly-rounded float parser src/lexical (cargo feature float_roundtrip) into, and its interpreter.  Translated functions
   (Gen/LexAlgTables.v, GENERATED on every run):

       exponent.rs   into_i32  scientific_exponent  mantissa_exponent
       digit.rs      to_digit  add_digit
       shift.rs      shr  overflowing_shr  shl
       rounding.rs   nth_bit  lower_n_mask  lower_n_halfway  internal_n_mask  round_nearest  tie_even  round_nearest_tie_even
                     round_toward  downard  round_downward  round_to_float  avoid_overflow  round_to_native
       float.rs      ExtendedFloat::{mul, imul, normalize, round_to_native, into_float, into_downward_float}  into_float
       errors.rs     nearest_error_is_accurate   u64::{error_scale, error_halfscale, error_is_accurate}
       num.rs        Float::is_special
       algorithm.rs  fast_path  multiply_exponent_extended  moderate_path  fallback_path

   Same conventions as Model/NumParseAst.v (machine integers with explicit widths, CHECKED arithmetic = [Panic] on overflow: the harness is
   built with overflow-checks and debug-assertions; explicit wrapping / saturating / overflowing / checked methods; [res] monad; fuel for
   calls and nesting), but the functions are PURE (no reader cursor) and the language has what lexical needs in addition:

     values    VInt t z        t : u8 | u32 | u64 | i32 | usize;   invariant lo t <= z <= hi t
               VB b  VUnit     bool, ()
               VF f            a float of the type F the generic code is instantiated at:  FB64 / FB32 (a Flocq float: the result of
                               `F::as_cast(x)` and of `pow10`)  or  FBits z (the result of `F::from_bits`, `F::ZERO`); [fl_bits] is its bit pattern
               VEF m e         ExtendedFloat { mant: u64, exp: i32 }
               VTup a b        (a, b)          VOpt o     Option         VFn f   a function item passed as the `Algorithm` argument
               VTab n          a static table (POW10_64, the cached powers BASE10_POWERS)          VBytes l   a `&[u8]` (only handed on)
               VUninit         `let x: T;` before its initialisation
     generics  `F: Float` is a field of the global environment [genv]: the trait constants [ftraits] of the instance (EConst), the kind
               (binary64 / binary32) for the two float operations, F::Unsigned for `F::Unsigned::as_cast` / `F::from_bits`.  The generic body is
               translated ONCE; Model/LexAlgEnv.v builds the f64 and the f32 environment from Gen/LexTables.v.
     &mut      a call passes `&mut ExtendedFloat` by copy-in / copy-out: [AMut x] names the caller's variable, the callee's final value of the
               parameter is written back to it (the translator checks that a call has at most one `&mut` argument: no aliasing).  Calls with a
               `&mut` argument are statements ([SCall]); calls inside expressions ([ECall]) take values only.
     a << b, a >> b      on an UNSIGNED a (any integer b): a shift amount outside 0 .. bits-1 is [Panic] (overflow-checks); bits shifted out of
                         `<<` are dropped.        a & b, a | b, a ^ b   on unsigned operands of the same type (through N.land / N.lor / N.lxor)
     x.leading_zeros()   of a u64 (64 for zero)    x.min(y)    x.checked_mul(y) / checked_add : Option    x.overflowing_mul(y) / _add : (wrapped, bool)
     (c as char).to_digit(10)      MToDigit10, of a u8
     F::as_cast(x)       ECast x CFloat: u64 -> F, round to nearest even         f.pow10(n)   MPow10 (num.rs, pinned by text): debug_assert on the
                         exponent limits, then `f * POW10[n as usize]` (n > 0) or `f / POW10[-n as usize]`, IEEE round to nearest even
     F::from_bits(u) f.to_bits()   MFromBits / MToBits           F::Unsigned::as_cast(x)   ECast x CUnsignedF          x.as_u64()   ECast x (CInt U64)
     TAB[i], powers.get_small_int(i), powers.get_small(i), powers.get_large(i)     ETabGet: slice indexing, out of bounds = [Panic]
     powers.bias, powers.step, powers.large.len()                                  ETabField
     debug_assert!(c)    SDebugAssert: [Panic] when c is false
     let p = e;  let x: T;  lv = e; (lv ::= x | x.mant | x.exp | *x ; compound assignments written out)   if / else   match e { p => .. }
     let x = match e { p => e', p => return r, .. };         return e; / tail expression        (a body that falls off its end returns ())
   The one function the bodies call that is NOT translated (bhcomp: big-integer arithmetic) is the [g_ext] field of the environment.

   Definitions only. *)
From Coq Require Import String ZArith NArith List.
From SJ Require Import Base.Bytes Base.FloatB Model.Lex.      (* of Model/Lex.v only: fkind, b32_of_Z, bits_of_b32 *)
From Flocq Require Import Core BinarySingleNaN.
Import ListNotations.
Open Scope Z_scope.

(* ---- machine integer types -------------------------------------------------------------- *)
Inductive ity := U8 | U32 | U64 | I32 | Usize.

Definition ity_eqb (a b : ity) : bool :=
  match a, b with U8, U8 | U32, U32 | U64, U64 | I32, I32 | Usize, Usize => true | _, _ => false end.
Definition ity_lo (t : ity) : Z := match t with I32 => -2147483648 | _ => 0 end.
Definition ity_hi (t : ity) : Z :=
  match t with U8 => 255 | U32 => 4294967295 | U64 | Usize => 18446744073709551615 | I32 => 2147483647 end.
Definition ity_mod (t : ity) : Z :=
  match t with U8 => 256 | U32 | I32 => 4294967296 | U64 | Usize => 18446744073709551616 end.
Definition ity_bits (t : ity) : Z := match t with U8 => 8 | U32 | I32 => 32 | U64 | Usize => 64 end.
Definition ity_unsigned (t : ity) : bool := match t with I32 => false | _ => true end.
Definition in_range (t : ity) (z : Z) : bool := (ity_lo t <=? z) && (z <=? ity_hi t).
Definition wrap (t : ity) (z : Z) : Z := (z - ity_lo t) mod ity_mod t + ity_lo t.
Definition sat (t : ity) (z : Z) : Z := Z.max (ity_lo t) (Z.min (ity_hi t) z).

(* ---- syntax ----------------------------------------------------------------------------- *)
Inductive binop := OAdd | OSub | OMul | ODiv | ORem | OAnd | OOr | OXor | OShl | OShr.
Inductive cmpop := CEq | CNe | CLt | CLe | CGt | CGe.
Inductive meth1 := MLeadingZeros | MToDigit10 | MFromBits | MToBits.
Inductive meth2 := MSaturatingAdd | MSaturatingSub | MWrappingAdd | MWrappingSub | MMin
                 | MCheckedMul | MCheckedAdd | MOverflowingMul | MOverflowingAdd | MPow10.
Inductive cty := CInt (t : ity) | CUnsignedF | CFloat.
Inductive field := FMant | FExp.
(* the constants / constant functions of `F: Float` *)
Inductive fconst := KZero | KMantissaSize | KExponentBias | KDenormalExponent | KMaxExponent | KDefaultShift | KCarryMask
                  | KExponentMask | KHiddenBitMask | KMantissaMask | KInfinityBits | KExponentLimit | KMantissaLimit.

Inductive expr :=
  | EVar (x : string)
  | EInt (t : ity) (z : Z)
  | EBool (b : bool)
  | EUnit
  | EBin (op : binop) (a b : expr)
  | ECmp (op : cmpop) (a b : expr)
  | EAnd (a b : expr)
  | EOr (a b : expr)
  | ENot (a : expr)
  | ENeg (a : expr)
  | ECast (a : expr) (t : cty)
  | EM1 (m : meth1) (a : expr)
  | EM2 (m : meth2) (a b : expr)
  | EField (a : expr) (f : field)              (* a.mant / a.exp *)
  | EProj (a : expr) (second : bool)           (* a.0 / a.1 *)
  | EStruct (m e : expr)                       (* ExtendedFloat { mant: m, exp: e } *)
  | ETuple (a b : expr)
  | ESome (a : expr)
  | ENone
  | EFn (f : string)                           (* a function item as a value *)
  | EConst (c : fconst)                        (* F::MANTISSA_SIZE .. F::exponent_limit() *)
  | ESizeOf (t : ity)                          (* mem::size_of::<T>() : usize *)
  | ETab (n : string)                          (* a static table / the handle ExtendedFloat::get_powers() *)
  | ETabField (t : expr) (f : string)          (* powers.bias  powers.step  powers.large.len() *)
  | ETabGet (t : expr) (f : string) (i : expr) (* TAB[i]  powers.get_small_int(i)  powers.get_small(i)  powers.get_large(i) *)
  | EIf (c a b : expr)
  | ECall (f : string) (args : list expr).     (* a call whose arguments are all passed by value *)

Inductive pat := PWild | PVar (x : string) | PTup (p q : pat) | PBool (b : bool) | PSome (p : pat) | PNone.
Inductive lval := LVar (x : string) | LField (x : string) (f : field) | LDeref (x : string).
Inductive arg := AVal (e : expr) | AMut (x : string).
Inductive callee := CFn (f : string) | CVar (x : string).     (* CVar: the `algorithm` parameter *)

Inductive stmt :=
  | SLet (p : pat) (e : expr)
  | SDeclUninit (x : string)
  | SAssign (lv : lval) (e : expr)
  | SCall (p : pat) (c : callee) (args : list arg)        (* let p = c(args);   c(args); is SCall PWild *)
  | SIf (c : expr) (a b : list stmt)
  | SMatch (e : expr) (arms : list (pat * list stmt))
  | SLetMatch (x : string) (e : expr) (arms : list (pat * (list stmt * option expr)))
  | SDebugAssert (e : expr)
  | SRet (e : expr).

Inductive pmode := ByVal | ByMut.
Record fdef := mkFn { fparams : list (string * pmode); fbody : list stmt }.
Definition prog := list (string * fdef).

(* ---- values ----------------------------------------------------------------------------- *)
Inductive flv := FB64 (f : b64) | FB32 (f : b32) | FBits (z : Z).
Definition fl_bits (f : flv) : Z :=
  match f with FB64 x => Z.of_N (bits_of_b64 x) | FB32 x => Z.of_N (bits_of_b32 x) | FBits z => z end.

Inductive val :=
  | VInt (t : ity) (z : Z) | VB (b : bool) | VUnit | VUninit
  | VF (f : flv)
  | VEF (m e : Z)
  | VTup (a b : val)
  | VOpt (o : option val)
  | VFn (f : string)
  | VTab (n : string)
  | VBytes (l : list N).

(* ---- the instance of `F: Float` and the static tables ------------------------------------ *)
Record ftraits := mkTraits {
  ft_kind : fkind;
  ft_unsigned : ity;                              (* type Unsigned *)
  ft_MANTISSA_SIZE : Z; ft_EXPONENT_BIAS : Z; ft_DENORMAL_EXPONENT : Z; ft_MAX_EXPONENT : Z; ft_DEFAULT_SHIFT : Z;      (* i32 *)
  ft_CARRY_MASK : N;                              (* u64 *)
  ft_EXPONENT_MASK : N; ft_HIDDEN_BIT_MASK : N; ft_MANTISSA_MASK : N; ft_INFINITY_BITS : N;                            (* Unsigned *)
  ft_exp_limit_min : Z; ft_exp_limit_max : Z; ft_mantissa_limit : Z;                                                  (* i32 *)
  ft_POW10 : list Z                               (* F32_POW10 / F64_POW10: the literals 1.0, 10.0, .. as the integers they denote *)
}.
Record genv := mkGenv {
  g_tr : ftraits;
  g_POW10_64 : list N;
  g_small_mant : list N; g_small_exp : list Z; g_large_mant : list N; g_large_exp : list Z; g_small_int : list N;
  g_step : Z; g_bias : Z;
  g_ext : string -> list val -> res val           (* functions called but not translated *)
}.

Definition checked (t : ity) (z : Z) : res val := if in_range t z then Ok (VInt t z) else Panic.

Definition const_val (G : genv) (c : fconst) : res val :=
  let T := g_tr G in
  match c with
  | KZero => Ok (VF (FBits 0))
  | KMantissaSize => checked I32 (ft_MANTISSA_SIZE T)
  | KExponentBias => checked I32 (ft_EXPONENT_BIAS T)
  | KDenormalExponent => checked I32 (ft_DENORMAL_EXPONENT T)
  | KMaxExponent => checked I32 (ft_MAX_EXPONENT T)
  | KDefaultShift => checked I32 (ft_DEFAULT_SHIFT T)
  | KCarryMask => checked U64 (Z.of_N (ft_CARRY_MASK T))
  | KExponentMask => checked (ft_unsigned T) (Z.of_N (ft_EXPONENT_MASK T))
  | KHiddenBitMask => checked (ft_unsigned T) (Z.of_N (ft_HIDDEN_BIT_MASK T))
  | KMantissaMask => checked (ft_unsigned T) (Z.of_N (ft_MANTISSA_MASK T))
  | KInfinityBits => checked (ft_unsigned T) (Z.of_N (ft_INFINITY_BITS T))
  | KExponentLimit => let* a := checked I32 (ft_exp_limit_min T) in let* b := checked I32 (ft_exp_limit_max T) in Ok (VTup a b)
  | KMantissaLimit => checked I32 (ft_mantissa_limit T)
  end.

(* slice indexing: bounds checked *)
Definition idx {A} (l : list A) (i : Z) : option A :=
  if (0 <=? i) && (i <? Z.of_nat (length l)) then nth_error l (Z.to_nat i) else None.

Definition tab_field (G : genv) (tab f : string) : res val :=
  if String.eqb tab "BASE10_POWERS" then
    if String.eqb f "bias" then checked I32 (g_bias G)
    else if String.eqb f "step" then checked I32 (g_step G)
    else if String.eqb f "large.len" then checked Usize (Z.of_nat (length (g_large_mant G)))      (* ExtendedFloatArray::len = self.mant.len() *)
    else Panic
  else Panic.

Definition ef_at (ms : list N) (es : list Z) (i : Z) : res val :=      (* get_extended_float: self.mant[index], self.exp[index] *)
  match idx ms i, idx es i with
  | Some m, Some e => if in_range U64 (Z.of_N m) && in_range I32 e then Ok (VEF (Z.of_N m) e) else Panic
  | _, _ => Panic
  end.
Definition u64_at (l : list N) (i : Z) : res val :=
  match idx l i with Some m => checked U64 (Z.of_N m) | None => Panic end.

Definition tab_get (G : genv) (tab f : string) (i : Z) : res val :=
  if String.eqb tab "POW10_64" then (if String.eqb f "" then u64_at (g_POW10_64 G) i else Panic)
  else if String.eqb tab "BASE10_POWERS" then
    if String.eqb f "small_int" then u64_at (g_small_int G) i
    else if String.eqb f "small" then ef_at (g_small_mant G) (g_small_exp G) i
    else if String.eqb f "large" then ef_at (g_large_mant G) (g_large_exp G) i
    else Panic
  else Panic.

(* ---- scoped locals (as Model/NumParseAst.v) ---------------------------------------------- *)
Definition frame := list (string * val).
Definition locals := list frame.                                      (* innermost block first *)

Fixpoint lookup_frame (x : string) (fr : frame) : option val :=
  match fr with [] => None | (y, v) :: r => if String.eqb x y then Some v else lookup_frame x r end.
Fixpoint lookup (x : string) (l : locals) : option val :=
  match l with [] => None | fr :: r => match lookup_frame x fr with Some v => Some v | None => lookup x r end end.
Fixpoint assign_frame (x : string) (v : val) (fr : frame) : option frame :=
  match fr with
  | [] => None
  | (y, w) :: r => if String.eqb x y then Some ((y, v) :: r)
                   else match assign_frame x v r with Some r' => Some ((y, w) :: r') | None => None end
  end.
Fixpoint assign (x : string) (v : val) (l : locals) : option locals :=
  match l with
  | [] => None
  | fr :: r => match assign_frame x v fr with
               | Some fr' => Some (fr' :: r)
               | None => match assign x v r with Some r' => Some (fr :: r') | None => None end
               end
  end.
Definition declare (fr : frame) (l : locals) : locals :=
  match l with f0 :: r => (fr ++ f0) :: r | [] => [fr] end.

(* ---- operations ------------------------------------------------------------------------- *)
Definition nbits (op : binop) (a b : Z) : Z :=
  match op with
  | OAnd => Z.of_N (N.land (Z.to_N a) (Z.to_N b))
  | OOr => Z.of_N (N.lor (Z.to_N a) (Z.to_N b))
  | _ => Z.of_N (N.lxor (Z.to_N a) (Z.to_N b))
  end.

Definition int_bin (op : binop) (t : ity) (a b : Z) : res val :=
  match op with
  | OAdd => checked t (a + b)
  | OSub => checked t (a - b)
  | OMul => checked t (a * b)
  | ODiv => if b =? 0 then Panic else checked t (Z.quot a b)
  | ORem => if b =? 0 then Panic else if (b =? -1) && (a =? ity_lo t) then Panic else checked t (Z.rem a b)
  | OAnd | OOr | OXor => if ity_unsigned t then Ok (VInt t (nbits op a b)) else Panic
  | OShl | OShr => Panic
  end.
(* a << b, a >> b: the amount may have any integer type *)
Definition int_shift (op : binop) (t : ity) (a b : Z) : res val :=
  if ity_unsigned t && (0 <=? b) && (b <? ity_bits t) then
    match op with
    | OShl => Ok (VInt t (Z.of_N (N.shiftl (Z.to_N a) (Z.to_N b)) mod ity_mod t))
    | _ => Ok (VInt t (Z.of_N (N.shiftr (Z.to_N a) (Z.to_N b))))
    end
  else Panic.
Definition int_cmp (op : cmpop) (a b : Z) : bool :=
  match op with
  | CEq => a =? b | CNe => negb (a =? b) | CLt => a <? b | CLe => a <=? b | CGt => b <? a | CGe => b <=? a
  end.
Definition eval_bin (op : binop) (v w : val) : res val :=
  match v, w with
  | VInt t a, VInt u b =>
    match op with
    | OShl | OShr => int_shift op t a b
    | _ => if ity_eqb t u then int_bin op t a b else Panic
    end
  | _, _ => Panic
  end.
Definition eval_cmp (op : cmpop) (v w : val) : res val :=
  match v, w with
  | VInt t a, VInt u b => if ity_eqb t u then Ok (VB (int_cmp op a b)) else Panic
  | _, _ => Panic
  end.
Definition eval_cast (G : genv) (v : val) (t : cty) : res val :=
  match v, t with
  | VInt _ z, CInt u => Ok (VInt u (wrap u z))
  | VInt _ z, CUnsignedF => let u := ft_unsigned (g_tr G) in Ok (VInt u (wrap u z))
  | VInt U64 z, CFloat => Ok (VF (match ft_kind (g_tr G) with F64 => FB64 (b64_of_Z z) | F32 => FB32 (b32_of_Z z) end))
  | _, _ => Panic
  end.
Definition clz64 (z : Z) : Z := if z =? 0 then 64 else 63 - Z.of_N (N.log2 (Z.to_N z)).
Definition eval_m1 (G : genv) (m : meth1) (v : val) : res val :=
  match m, v with
  | MLeadingZeros, VInt U64 z => Ok (VInt U32 (clz64 z))
  | MToDigit10, VInt U8 c => Ok (VOpt (if (48 <=? c) && (c <=? 57) then Some (VInt U32 (c - 48)) else None))
  | MFromBits, VInt t z => if ity_eqb t (ft_unsigned (g_tr G)) then Ok (VF (FBits z)) else Panic
  | MToBits, VF f => checked (ft_unsigned (g_tr G)) (fl_bits f)
  | _, _ => Panic
  end.

(* f.pow10(n): `debug_assert!({ let (min, max) = Self::exponent_limit(); n >= min && n <= max });
                if n > 0 { self * POW10[n as usize] } else { self / POW10[-n as usize] }` *)
Definition pow10 (G : genv) (f : flv) (n : Z) : res val :=
  let T := g_tr G in
  if (ft_exp_limit_min T <=? n) && (n <=? ft_exp_limit_max T) then
    match idx (ft_POW10 T) (Z.abs n), f with
    | Some p, FB64 x => Ok (VF (FB64 (if 0 <? n then Bmult mode_NE x (b64_of_Z p) else Bdiv mode_NE x (b64_of_Z p))))
    | Some p, FB32 x => Ok (VF (FB32 (if 0 <? n then Bmult mode_NE x (b32_of_Z p) else Bdiv mode_NE x (b32_of_Z p))))
    | _, _ => Panic
    end
  else Panic.

Definition eval_m2 (G : genv) (m : meth2) (v w : val) : res val :=
  match v, w with
  | VInt t a, VInt u b =>
    if ity_eqb t u then
      match m with
      | MSaturatingAdd => Ok (VInt t (sat t (a + b)))
      | MSaturatingSub => Ok (VInt t (sat t (a - b)))
      | MWrappingAdd => Ok (VInt t (wrap t (a + b)))
      | MWrappingSub => Ok (VInt t (wrap t (a - b)))
      | MMin => Ok (VInt t (Z.min a b))
      | MCheckedMul => Ok (VOpt (if in_range t (a * b) then Some (VInt t (a * b)) else None))
      | MCheckedAdd => Ok (VOpt (if in_range t (a + b) then Some (VInt t (a + b)) else None))
      | MOverflowingMul => Ok (VTup (VInt t (wrap t (a * b))) (VB (negb (in_range t (a * b)))))
      | MOverflowingAdd => Ok (VTup (VInt t (wrap t (a + b))) (VB (negb (in_range t (a + b)))))
      | MPow10 => Panic
      end
    else Panic
  | VF f, VInt I32 n => match m with MPow10 => pow10 G f n | _ => Panic end
  | _, _ => Panic
  end.
Definition eval_neg (v : val) : res val :=
  match v with
  | VInt I32 z => checked I32 (- z)
  | _ => Panic
  end.

Definition pcall_t := string -> list val -> res val.          (* a call by value *)

Fixpoint eval (G : genv) (call : pcall_t) (e : expr) (l : locals) {struct e} : res val :=
  match e with
  | EVar x => match lookup x l with Some v => Ok v | None => Panic end
  | EInt t z => checked t z
  | EBool b => Ok (VB b)
  | EUnit => Ok VUnit
  | EBin op a b => let* v := eval G call a l in let* w := eval G call b l in eval_bin op v w
  | ECmp op a b => let* v := eval G call a l in let* w := eval G call b l in eval_cmp op v w
  | EAnd a b => let* v := eval G call a l in
                match v with
                | VB false => Ok (VB false)
                | VB true => let* w := eval G call b l in match w with VB c => Ok (VB c) | _ => Panic end
                | _ => Panic
                end
  | EOr a b => let* v := eval G call a l in
               match v with
               | VB true => Ok (VB true)
               | VB false => let* w := eval G call b l in match w with VB c => Ok (VB c) | _ => Panic end
               | _ => Panic
               end
  | ENot a => let* v := eval G call a l in match v with VB c => Ok (VB (negb c)) | _ => Panic end
  | ENeg a => let* v := eval G call a l in eval_neg v
  | ECast a t => let* v := eval G call a l in eval_cast G v t
  | EM1 m a => let* v := eval G call a l in eval_m1 G m v
  | EM2 m a b => let* v := eval G call a l in let* w := eval G call b l in eval_m2 G m v w
  | EField a f => let* v := eval G call a l in
                  match v, f with
                  | VEF m _, FMant => Ok (VInt U64 m)
                  | VEF _ x, FExp => Ok (VInt I32 x)
                  | _, _ => Panic
                  end
  | EProj a second => let* v := eval G call a l in
                      match v with VTup x y => Ok (if second then y else x) | _ => Panic end
  | EStruct m x => let* v := eval G call m l in let* w := eval G call x l in
                   match v, w with VInt U64 a, VInt I32 b => Ok (VEF a b) | _, _ => Panic end
  | ETuple a b => let* v := eval G call a l in let* w := eval G call b l in Ok (VTup v w)
  | ESome a => let* v := eval G call a l in Ok (VOpt (Some v))
  | ENone => Ok (VOpt None)
  | EFn f => Ok (VFn f)
  | EConst c => const_val G c
  | ESizeOf t => checked Usize (ity_bits t / 8)
  | ETab n => Ok (VTab n)
  | ETabField t f => let* v := eval G call t l in match v with VTab n => tab_field G n f | _ => Panic end
  | ETabGet t f i => let* v := eval G call t l in let* w := eval G call i l in
                     match v, w with VTab n, VInt Usize z => tab_get G n f z | _, _ => Panic end
  | EIf c a b => let* v := eval G call c l in
                 match v with VB true => eval G call a l | VB false => eval G call b l | _ => Panic end
  | ECall f args =>
      let* vs := (fix go (es : list expr) : res (list val) :=
                    match es with
                    | [] => Ok []
                    | x :: r => let* v := eval G call x l in let* vs := go r in Ok (v :: vs)
                    end) args in
      call f vs
  end.

(* ---- patterns --------------------------------------------------------------------------- *)
Fixpoint bind_pat (p : pat) (v : val) : option frame :=
  match p, v with
  | PWild, _ => Some []
  | PVar x, _ => Some [(x, v)]
  | PTup p1 p2, VTup a b => match bind_pat p1 a, bind_pat p2 b with Some f1, Some f2 => Some (f2 ++ f1) | _, _ => None end
  | PBool b, VB c => if Bool.eqb b c then Some [] else None
  | PSome q, VOpt (Some a) => bind_pat q a
  | PNone, VOpt None => Some []
  | _, _ => None
  end.
Fixpoint select {A} (arms : list (pat * A)) (v : val) : option (frame * A) :=
  match arms with
  | [] => None
  | (p, a) :: r => match bind_pat p v with Some fr => Some (fr, a) | None => select r v end
  end.

(* ---- execution -------------------------------------------------------------------------- *)
Inductive outcome :=
  | OFall (l : locals)                   (* the statement / block completed; control goes on *)
  | ORet (v : val) (l : locals).         (* `return v` / the tail value; the locals hold the final values of the `&mut` parameters *)

Definition exec_t := stmt -> locals -> res outcome.
Definition call_t := string -> list val -> res (val * list val).      (* result, final values of the ByMut parameters *)

Fixpoint exec_block (ex : exec_t) (ss : list stmt) (l : locals) : res outcome :=
  match ss with
  | [] => Ok (OFall l)
  | x :: r => let* o := ex x l in
              match o with OFall l' => exec_block ex r l' | _ => Ok o end
  end.

Definition exec_scope (ex : exec_t) (fr : frame) (ss : list stmt) (l : locals) : res outcome :=
  let* o := exec_block ex ss (fr :: l) in
  match o with
  | OFall l' => Ok (OFall (tl l'))
  | ORet v l' => Ok (ORet v (tl l'))
  end.

Fixpoint find_fn (fn : string) (T : prog) : option fdef :=
  match T with [] => None | (n, d) :: r => if String.eqb fn n then Some d else find_fn fn r end.

Fixpoint params_frame (ps : list (string * pmode)) (vs : list val) : option frame :=
  match ps, vs with
  | [], [] => Some []
  | (p, _) :: ps', v :: vs' => match params_frame ps' vs' with Some fr => Some ((p, v) :: fr) | None => None end
  | _, _ => None
  end.
Fixpoint mut_outs (ps : list (string * pmode)) (fr : frame) : option (list val) :=
  match ps with
  | [] => Some []
  | (p, ByVal) :: r => mut_outs r fr
  | (p, ByMut) :: r => match lookup_frame p fr, mut_outs r fr with Some v, Some vs => Some (v :: vs) | _, _ => None end
  end.

(* the body runs in its own frame above the parameter frame, so that a `let` of the body never replaces a parameter *)
Definition call_fn (ex : exec_t) (P : prog) : call_t := fun fn args =>
  match find_fn fn P with
  | None => Panic
  | Some d =>
    match params_frame (fparams d) args with
    | None => Panic
    | Some fr =>
      let* o := exec_block ex (fbody d) [[]; fr] in
      let '(v, l') := match o with ORet v l' => (v, l') | OFall l' => (VUnit, l') end in
      match mut_outs (fparams d) (last l' []) with
      | Some outs => Ok (v, outs)
      | None => Panic
      end
    end
  end.

(* a call inside an expression: by value (no `&mut` parameter); a function that is not in the table is external *)
Definition pcall_of (G : genv) (P : prog) (call : call_t) : pcall_t := fun fn args =>
  match find_fn fn P with
  | None => g_ext G fn args
  | Some _ => let* (v, outs) := call fn args in match outs with [] => Ok v | _ => Panic end
  end.

Fixpoint eval_args (G : genv) (pc : pcall_t) (args : list arg) (l : locals) : res (list val) :=
  match args with
  | [] => Ok []
  | AVal e :: r => let* v := eval G pc e l in let* vs := eval_args G pc r l in Ok (v :: vs)
  | AMut x :: r => match lookup x l with
                   | Some v => let* vs := eval_args G pc r l in Ok (v :: vs)
                   | None => Panic
                   end
  end.
Fixpoint write_back (args : list arg) (outs : list val) (l : locals) : option locals :=
  match args, outs with
  | [], [] => Some l
  | AVal _ :: r, _ => write_back r outs l
  | AMut x :: r, v :: vs => match assign x v l with Some l' => write_back r vs l' | None => None end
  | _, _ => None
  end.

Definition assign_lval (lv : lval) (v : val) (l : locals) : option locals :=
  match lv with
  | LVar x | LDeref x => assign x v l
  | LField x f =>
    match lookup x l, f, v with
    | Some (VEF _ e), FMant, VInt U64 z => assign x (VEF z e) l
    | Some (VEF m _), FExp, VInt I32 z => assign x (VEF m z) l
    | _, _, _ => None
    end
  end.

Fixpoint exec (fuel : nat) (G : genv) (P : prog) (x : stmt) (l : locals) {struct fuel} : res outcome :=
  match fuel with
  | O => OutOfFuel
  | S f =>
    let call := call_fn (exec f G P) P in
    let pc := pcall_of G P call in
    match x with
    | SLet p e => let* w := eval G pc e l in
                  match bind_pat p w with Some fr => Ok (OFall (declare fr l)) | None => Panic end
    | SDeclUninit v => Ok (OFall (declare [(v, VUninit)] l))
    | SAssign lv e => let* w := eval G pc e l in
                      match assign_lval lv w l with Some l' => Ok (OFall l') | None => Panic end
    | SCall p c args =>
      let* fn := match c with
                 | CFn g => Ok g
                 | CVar v => match lookup v l with Some (VFn g) => Ok g | _ => Panic end
                 end in
      let* vs := eval_args G pc args l in
      let* (v, outs) := call fn vs in
      match write_back args outs l with
      | Some l' => match bind_pat p v with Some fr => Ok (OFall (declare fr l')) | None => Panic end
      | None => Panic
      end
    | SIf c a b =>
      let* w := eval G pc c l in
      match w with
      | VB true => exec_scope (exec f G P) [] a l
      | VB false => exec_scope (exec f G P) [] b l
      | _ => Panic
      end
    | SMatch e arms =>
      let* v := eval G pc e l in
      match select arms v with
      | Some (fr, body) => exec_scope (exec f G P) fr body l
      | None => Panic
      end
    | SLetMatch v e arms =>
      let* w := eval G pc e l in
      match select arms w with
      | Some (fr, (pre, val)) =>
        let* o := exec_block (exec f G P) pre (fr :: l) in
        match o with
        | OFall l2 =>
          match val with
          | Some e' => let* u := eval G pc e' l2 in Ok (OFall (declare [(v, u)] (tl l2)))
          | None => Panic
          end
        | ORet r l2 => Ok (ORet r (tl l2))
        end
      | None => Panic
      end
    | SDebugAssert e =>
      let* w := eval G pc e l in
      match w with VB true => Ok (OFall l) | _ => Panic end
    | SRet e => let* v := eval G pc e l in Ok (ORet v l)
    end
  end.

(* calling function [fn] of program [P] with arguments [args]: (result, final values of its `&mut` parameters) *)
Definition run (fuel : nat) (G : genv) (P : prog) (fn : string) (args : list val) : res (val * list val) :=
  call_fn (exec fuel G P) P fn args.
