(* Model/NumParseAst.v — the statement + typed-expression language tools/translate_numparse.py translates the VALUE-PATH number parser
   of src/de.rs (default build: no float_roundtrip, no arbitrary_precision) into, and its interpreter:

       parse_integer  parse_number  parse_decimal  parse_exponent  parse_long_integer
       parse_decimal_overflow  parse_exponent_overflow  f64_from_parts        (+ the `overflow!` macro, expanded at every use,
                                                                                 + negated_u64_as_float, inlined at its call)

   Gen/NumParseTables.v (GENERATED on every run) holds what the source says now; Proofs/NumParseSrc.v proves that the hand-written
   models of Model/Num.v are the interpretation of the translated bodies, so a changed body breaks a proof obligation.
   The interpreter is the (small, trusted) semantics of the Rust subset.  Cursor part: as Model/ScanAst.v (same abstract cursor,
   Model/Read.v, same [res] monad; `tri!(e)` is [bind]).  New here: ARITHMETIC on machine integers with explicit widths.

     values        VInt t z   (t : u8 | u64 | i32 | i64 | usize, z : Z, invariant lo t <= z <= hi t)
                   VF f       (f64 = Flocq binary64, Base/FloatB.v)     VB b     VPN p  (ParserNumber)
     a + b, a - b, a * b      CHECKED: the harness builds with overflow-checks on, so a result outside the type is a panic -> [Panic]
                              (the equalities of Proofs/NumParseSrc.v show the models never get there: this is the content of `overflow!`)
     a / b, a % b             truncated division; division by zero and MIN / -1 -> [Panic]
     f * g, f / g             IEEE-754 binary64, round to nearest even ([b64_mul], [b64_div])
     == != < <= > >=          on two integers of the same type; on two f64 (IEEE comparison: [Beqb] ..)
     && || !                  short-circuit, on bool
     -e                       f64 negation; checked negation of a signed integer
     e as T                   integer -> integer: wraps to T (two's complement); integer -> f64: nearest even ([b64_of_Z])
     x.wrapping_neg()  x.wrapping_abs()  x.wrapping_add(y) ..   wrap;     x.saturating_add(y)  x.saturating_sub(y)   clamp
     f.is_infinite()          [b64_is_inf]
     if c { a } else { b }    EIf          match C { c => e }  (the shape of `overflow!`)   ELet c C e
     ParserNumber::F64(e) / U64(e) / I64(e)     EPn
     10, b'0', u64::MAX, i32::MAX               EInt t z : the translator infers the width of every literal
     0.0, 1e308                                 EFloat m e = the f64 nearest to m * 10^e (rustc's literal parsing is trusted to round
                                                correctly, as for the POW10 table in Model/Num.v)

     self.eat_char();                                   SEat
     let [mut] x = e;                                   SLet            declared in the innermost block
     x = e;   x += e;  x -= e;  x *= e;  x /= e;        SAssign         (compound assignment is written out by the translator)
     if c { .. } [else { .. }]                          SIf
     match SCRUT { PAT => BLOCK, .. }                   SMatch          SCRUT ::= tri!(self.peek_or_null()) | tri!(self.peek())
     let [mut] x = match SCRUT { PAT => { item* e }, PAT => { ..returns.. } };     SLetMatch                | tri!(self.next_char()) | x
     while let PAT = SCRUT { .. }                       SWhileLet
     loop { .. }   break;                               SLoop / SBreak
     match TAB.get(e) { Some(&x) => BLOCK, None => BLOCK }      SMatchGet   (TAB a `static [f64; n]`, e : usize; slice::get = bounds check)
     return R; / R in tail position                     SRet R
        R ::= Ok(e) | Err(self.error(ErrorCode::X)) | Err(self.peek_error(ErrorCode::X)) | self.f(e, ..)
            | Ok(ParserNumber::F64(tri!(self.f(e, ..))))        RCall f args (Some KF64)
   `Ok(match .. { P => e, .. })`, `Ok(if c { a } else { b })` and block-valued arms in tail position are distributed by the translator
   (Ok(match x { P => e }) = match x { P => Ok(e) }), so that every function body is statements ending in returns.

   Loops and calls take explicit fuel: [exec] recurses on fuel only.  A stuck program (unbound variable, ill-typed operation, no arm
   matches, a body that ends without returning) yields [Panic]. *)
From Coq Require Import String ZArith.
From SJ Require Import Base.Bytes Base.FloatB Model.Read Model.Num.
From Flocq Require Import Core BinarySingleNaN.
Open Scope Z_scope.

(* ---- machine integer types -------------------------------------------------------------- *)
Inductive ity := U8 | U64 | I32 | I64 | Usize.

Definition ity_eqb (a b : ity) : bool :=
  match a, b with U8, U8 | U64, U64 | I32, I32 | I64, I64 | Usize, Usize => true | _, _ => false end.
Definition ity_lo (t : ity) : Z :=
  match t with U8 | U64 | Usize => 0 | I32 => -2147483648 | I64 => -9223372036854775808 end.
Definition ity_hi (t : ity) : Z :=
  match t with U8 => 255 | U64 | Usize => 18446744073709551615 | I32 => 2147483647 | I64 => 9223372036854775807 end.
Definition ity_mod (t : ity) : Z :=
  match t with U8 => 256 | U64 | Usize | I64 => 18446744073709551616 | I32 => 4294967296 end.
Definition in_range (t : ity) (z : Z) : bool := (ity_lo t <=? z) && (z <=? ity_hi t).
Definition wrap (t : ity) (z : Z) : Z := (z - ity_lo t) mod ity_mod t + ity_lo t.
Definition sat (t : ity) (z : Z) : Z := Z.max (ity_lo t) (Z.min (ity_hi t) z).

(* ---- syntax ----------------------------------------------------------------------------- *)
Inductive binop := OAdd | OSub | OMul | ODiv | ORem.
Inductive cmpop := CEq | CNe | CLt | CLe | CGt | CGe.
Inductive meth1 := MWrappingNeg | MWrappingAbs | MIsInfinite.
Inductive meth2 := MSaturatingAdd | MSaturatingSub | MWrappingAdd | MWrappingSub | MWrappingMul.
Inductive cty := TInt (t : ity) | TF64.
Inductive pnk := KF64 | KU64 | KI64.

Inductive expr :=
  | EVar (x : string)
  | EInt (t : ity) (z : Z)
  | EBool (b : bool)
  | EFloat (m e : Z)
  | EBin (op : binop) (a b : expr)
  | ECmp (op : cmpop) (a b : expr)
  | EAnd (a b : expr)
  | EOr (a b : expr)
  | ENot (a : expr)
  | ENeg (a : expr)
  | ECast (a : expr) (t : cty)
  | EM1 (m : meth1) (a : expr)
  | EM2 (m : meth2) (a b : expr)
  | EIf (c a b : expr)
  | ELet (x : string) (a body : expr)
  | EPn (k : pnk) (a : expr).

Inductive bpat := PLit (b : byte) | PRange (lo hi : byte) | POr (a b : bpat) | PWild.
Inductive pat :=
  | PByte (x : option string) (p : bpat)     (* [x @] BP     against a u8 *)
  | PSome (x : option string) (p : bpat)     (* Some([x @] BP) against an Option<u8>;  Some(x) = PSome (Some x) PWild *)
  | PNone                                    (* None *)
  | PAny.                                    (* _ *)
Inductive scrut := ScPeekOrNull | ScPeek | ScNext | ScVar (x : string).

Inductive rexpr :=
  | ROk (e : expr)
  | RErr (peeked : bool) (c : ecode)         (* Err(self.error(c)) : false,  Err(self.peek_error(c)) : true *)
  | RCall (f : string) (args : list expr) (w : option pnk).      (* self.f(args)  /  Ok(ParserNumber::K(tri!(self.f(args)))) *)

Inductive stmt :=
  | SEat
  | SLet (x : string) (e : expr)
  | SAssign (x : string) (e : expr)
  | SIf (c : expr) (a b : list stmt)
  | SMatch (sc : scrut) (arms : list (pat * list stmt))
  | SLetMatch (x : string) (sc : scrut) (arms : list (pat * (list stmt * option expr)))
        (* arm: statements, then the value ([None]: the statements return) ; the arm's binder and declarations live in its own scope *)
  | SWhileLet (p : pat) (sc : scrut) (body : list stmt)
  | SLoop (body : list stmt)
  | SBreak
  | SMatchGet (tab : string) (idx : expr) (x : string) (some none : list stmt)
  | SRet (r : rexpr).

Record fdef := mkFn { fparams : list string; fbody : list stmt }.
Record prog := mkProg {
  fns : list (string * fdef);
  ftabs : list (string * list (Z * Z))        (* static f64 tables: entries as decimal literals m * 10^e *)
}.

(* ---- values, scoped locals -------------------------------------------------------------- *)
Inductive val := VInt (t : ity) (z : Z) | VF (f : b64) | VB (b : bool) | VPN (p : pnum).
Inductive sval := SvByte (b : byte) | SvOpt (o : option byte).        (* what a scrutinee evaluates to *)

Definition frame := list (string * val).
Definition locals := list frame.                                      (* innermost block first *)

Fixpoint lookup_frame (x : string) (fr : frame) : option val :=
  match fr with [] => None | (y, v) :: r => if String.eqb x y then Some v else lookup_frame x r end.
Fixpoint lookup (x : string) (l : locals) : option val :=
  match l with [] => None | fr :: r => match lookup_frame x fr with Some v => Some v | None => lookup x r end end.
Fixpoint assign_frame (x : string) (v : val) (fr : frame) : option frame :=
  match fr with
  | [] => None
  | (y, w) :: r => if String.eqb x y then Some ((y, v) :: r)
                   else match assign_frame x v r with Some r' => Some ((y, w) :: r') | None => None end
  end.
Fixpoint assign (x : string) (v : val) (l : locals) : option locals :=
  match l with
  | [] => None
  | fr :: r => match assign_frame x v fr with
               | Some fr' => Some (fr' :: r)
               | None => match assign x v r with Some r' => Some (fr :: r') | None => None end
               end
  end.
Definition declare (x : string) (v : val) (l : locals) : locals :=
  match l with fr :: r => ((x, v) :: fr) :: r | [] => [[(x, v)]] end.

(* ---- expressions ------------------------------------------------------------------------ *)
Definition checked (t : ity) (z : Z) : res val := if in_range t z then Ok (VInt t z) else Panic.

Definition int_bin (op : binop) (t : ity) (a b : Z) : res val :=
  match op with
  | OAdd => checked t (a + b)
  | OSub => checked t (a - b)
  | OMul => checked t (a * b)
  | ODiv => if b =? 0 then Panic else checked t (Z.quot a b)
  | ORem => if b =? 0 then Panic else if (b =? -1) && (a =? ity_lo t) then Panic else checked t (Z.rem a b)
  end.
Definition f64_bin (op : binop) (a b : b64) : res val :=
  match op with
  | OMul => Ok (VF (b64_mul a b))
  | ODiv => Ok (VF (b64_div a b))
  | _ => Panic                                   (* f64 + - % : not in the subset *)
  end.
Definition int_cmp (op : cmpop) (a b : Z) : bool :=
  match op with
  | CEq => a =? b | CNe => negb (a =? b) | CLt => a <? b | CLe => a <=? b | CGt => b <? a | CGe => b <=? a
  end.
Definition f64_cmp (op : cmpop) (a b : b64) : bool :=
  match op with
  | CEq => Beqb a b | CNe => negb (Beqb a b) | CLt => Bltb a b | CLe => Bleb a b | CGt => Bltb b a | CGe => Bleb b a
  end.
Definition eval_bin (op : binop) (v w : val) : res val :=
  match v, w with
  | VInt t a, VInt u b => if ity_eqb t u then int_bin op t a b else Panic
  | VF a, VF b => f64_bin op a b
  | _, _ => Panic
  end.
Definition eval_cmp (op : cmpop) (v w : val) : res val :=
  match v, w with
  | VInt t a, VInt u b => if ity_eqb t u then Ok (VB (int_cmp op a b)) else Panic
  | VF a, VF b => Ok (VB (f64_cmp op a b))
  | _, _ => Panic
  end.
Definition eval_cast (v : val) (t : cty) : res val :=
  match v, t with
  | VInt _ z, TInt u => Ok (VInt u (wrap u z))
  | VInt _ z, TF64 => Ok (VF (b64_of_Z z))
  | _, _ => Panic
  end.
Definition eval_m1 (m : meth1) (v : val) : res val :=
  match m, v with
  | MWrappingNeg, VInt t z => Ok (VInt t (wrap t (- z)))
  | MWrappingAbs, VInt t z => Ok (VInt t (wrap t (Z.abs z)))
  | MIsInfinite, VF f => Ok (VB (b64_is_inf f))
  | _, _ => Panic
  end.
Definition eval_m2 (m : meth2) (v w : val) : res val :=
  match v, w with
  | VInt t a, VInt u b =>
    if ity_eqb t u then
      match m with
      | MSaturatingAdd => Ok (VInt t (sat t (a + b)))
      | MSaturatingSub => Ok (VInt t (sat t (a - b)))
      | MWrappingAdd => Ok (VInt t (wrap t (a + b)))
      | MWrappingSub => Ok (VInt t (wrap t (a - b)))
      | MWrappingMul => Ok (VInt t (wrap t (a * b)))
      end
    else Panic
  | _, _ => Panic
  end.
Definition eval_neg (v : val) : res val :=
  match v with
  | VF f => Ok (VF (b64_neg f))
  | VInt t z => if ity_lo t <? 0 then checked t (- z) else Panic
  | _ => Panic
  end.
Definition mk_pn (k : pnk) (v : val) : res val :=
  match k, v with
  | KF64, VF f => Ok (VPN (PF64 f))
  | KU64, VInt U64 z => Ok (VPN (PU64 (Z.to_N z)))
  | KI64, VInt I64 z => Ok (VPN (PI64 z))
  | _, _ => Panic
  end.

Fixpoint eval (e : expr) (l : locals) {struct e} : res val :=
  match e with
  | EVar x => match lookup x l with Some v => Ok v | None => Panic end
  | EInt t z => checked t z
  | EBool b => Ok (VB b)
  | EFloat m x => Ok (VF (rne_decimal m x))
  | EBin op a b => let* v := eval a l in let* w := eval b l in eval_bin op v w
  | ECmp op a b => let* v := eval a l in let* w := eval b l in eval_cmp op v w
  | EAnd a b => let* v := eval a l in
                match v with
                | VB false => Ok (VB false)
                | VB true => let* w := eval b l in match w with VB c => Ok (VB c) | _ => Panic end
                | _ => Panic
                end
  | EOr a b => let* v := eval a l in
               match v with
               | VB true => Ok (VB true)
               | VB false => let* w := eval b l in match w with VB c => Ok (VB c) | _ => Panic end
               | _ => Panic
               end
  | ENot a => let* v := eval a l in match v with VB c => Ok (VB (negb c)) | _ => Panic end
  | ENeg a => let* v := eval a l in eval_neg v
  | ECast a t => let* v := eval a l in eval_cast v t
  | EM1 m a => let* v := eval a l in eval_m1 m v
  | EM2 m a b => let* v := eval a l in let* w := eval b l in eval_m2 m v w
  | EIf c a b => let* v := eval c l in
                 match v with VB true => eval a l | VB false => eval b l | _ => Panic end
  | ELet x a body => let* v := eval a l in eval body ([(x, v)] :: l)
  | EPn k a => let* v := eval a l in mk_pn k v
  end.

Fixpoint eval_args (es : list expr) (l : locals) : res (list val) :=
  match es with
  | [] => Ok []
  | e :: r => let* v := eval e l in let* vs := eval_args r l in Ok (v :: vs)
  end.

(* ---- patterns --------------------------------------------------------------------------- *)
Fixpoint bpat_match (p : bpat) (b : byte) : bool :=
  match p with
  | PLit c => (b =? c)%N
  | PRange lo hi => ((lo <=? b) && (b <=? hi))%N
  | POr a c => bpat_match a b || bpat_match c b
  | PWild => true
  end.
Definition bind_opt (x : option string) (b : byte) : frame :=
  match x with Some n => [(n, VInt U8 (Z.of_N b))] | None => [] end.
Definition pat_match (p : pat) (v : sval) : option frame :=
  match p, v with
  | PAny, _ => Some []
  | PByte x q, SvByte b => if bpat_match q b then Some (bind_opt x b) else None
  | PSome x q, SvOpt (Some b) => if bpat_match q b then Some (bind_opt x b) else None
  | PNone, SvOpt None => Some []
  | _, _ => None
  end.
Fixpoint select {A} (arms : list (pat * A)) (v : sval) : option (frame * A) :=
  match arms with
  | [] => None
  | (p, a) :: r => match pat_match p v with Some fr => Some (fr, a) | None => select r v end
  end.

(* ---- execution -------------------------------------------------------------------------- *)
Inductive outcome :=
  | OFall (l : locals) (s : st)          (* the statement / block completed; control goes on *)
  | ORet (v : val) (s : st)              (* the function returned Ok(v) *)
  | OBrk (l : locals) (s : st).          (* `break`: the innermost loop is left *)

Definition exec_t := stmt -> locals -> st -> res outcome.
Definition call_t := string -> list val -> st -> res (val * st).

Fixpoint exec_block (ex : exec_t) (ss : list stmt) (l : locals) (s : st) : res outcome :=
  match ss with
  | [] => Ok (OFall l s)
  | x :: r => let* o := ex x l s in
              match o with OFall l' s' => exec_block ex r l' s' | _ => Ok o end
  end.

(* a nested block: its own frame [fr] (the arm's binder, if any), popped when the block completes *)
Definition exec_scope (ex : exec_t) (fr : frame) (ss : list stmt) (l : locals) (s : st) : res outcome :=
  let* o := exec_block ex ss (fr :: l) s in
  match o with
  | OFall l' s' => Ok (OFall (tl l') s')
  | ORet _ _ => Ok o
  | OBrk l' s' => Ok (OBrk (tl l') s')
  end.

Fixpoint find_fn (fn : string) (T : list (string * fdef)) : option fdef :=
  match T with [] => None | (n, d) :: r => if String.eqb fn n then Some d else find_fn fn r end.
Fixpoint find_tab (tab : string) (T : list (string * list (Z * Z))) : option (list (Z * Z)) :=
  match T with [] => None | (n, d) :: r => if String.eqb tab n then Some d else find_tab tab r end.

Fixpoint params_frame (ps : list string) (vs : list val) : option frame :=
  match ps, vs with
  | [], [] => Some []
  | p :: ps', v :: vs' => match params_frame ps' vs' with Some fr => Some ((p, v) :: fr) | None => None end
  | _, _ => None
  end.

Definition call_fn (ex : exec_t) (P : prog) : call_t := fun fn args s =>
  match find_fn fn (fns P) with
  | None => Panic
  | Some d =>
    match params_frame (fparams d) args with
    | None => Panic
    | Some fr =>
      let* o := exec_block ex (fbody d) [fr] s in
      match o with ORet v s' => Ok (v, s') | _ => Panic end
    end
  end.

(* slice::get on a static table: None when the index is out of bounds *)
Definition tab_get (tab : list (Z * Z)) (i : Z) : option (Z * Z) :=
  if (0 <=? i) && (i <? Z.of_nat (length tab)) then nth_error tab (Z.to_nat i) else None.

Definition eval_scrut (E : env) (sc : scrut) (l : locals) (s : st) : res (sval * st) :=
  match sc with
  | ScPeekOrNull => let* (b, s') := peek_or_null E s in Ok (SvByte b, s')
  | ScPeek => let* (o, s') := peek E s in Ok (SvOpt o, s')
  | ScNext => let* (o, s') := next E s in Ok (SvOpt o, s')
  | ScVar x => match lookup x l with Some (VInt U8 z) => Ok (SvByte (Z.to_N z), s) | _ => Panic end
  end.

Definition eval_ret (call : call_t) (E : env) (r : rexpr) (l : locals) (s : st) : res outcome :=
  match r with
  | ROk e => let* v := eval e l in Ok (ORet v s)
  | RErr false c => error E s c
  | RErr true c => peek_error E s c
  | RCall f args w =>
    let* vs := eval_args args l in
    let* (v, s') := call f vs s in
    match w with
    | None => Ok (ORet v s')
    | Some k => let* v' := mk_pn k v in Ok (ORet v' s')
    end
  end.

Fixpoint exec (fuel : nat) (E : env) (P : prog) (x : stmt) (l : locals) (s : st) {struct fuel} : res outcome :=
  match fuel with
  | O => OutOfFuel
  | S f =>
    match x with
    | SEat => Ok (OFall l (discard s))
    | SLet v e => let* w := eval e l in Ok (OFall (declare v w l) s)
    | SAssign v e => let* w := eval e l in
                     match assign v w l with Some l' => Ok (OFall l' s) | None => Panic end
    | SIf c a b =>
      let* w := eval c l in
      match w with
      | VB true => exec_scope (exec f E P) [] a l s
      | VB false => exec_scope (exec f E P) [] b l s
      | _ => Panic
      end
    | SMatch sc arms =>
      let* (v, s1) := eval_scrut E sc l s in
      match select arms v with
      | Some (fr, body) => exec_scope (exec f E P) fr body l s1
      | None => Panic
      end
    | SLetMatch v sc arms =>
      let* (w, s1) := eval_scrut E sc l s in
      match select arms w with
      | Some (fr, (pre, val)) =>
        let* o := exec_block (exec f E P) pre (fr :: l) s1 in
        match o with
        | OFall l2 s2 =>
          match val with
          | Some e => let* u := eval e l2 in Ok (OFall (declare v u (tl l2)) s2)
          | None => Panic
          end
        | ORet _ _ => Ok o
        | OBrk l2 s2 => Ok (OBrk (tl l2) s2)
        end
      | None => Panic
      end
    | SWhileLet p sc body =>
      let* (v, s1) := eval_scrut E sc l s in
      match pat_match p v with
      | Some fr =>
        let* o := exec_scope (exec f E P) fr body l s1 in
        match o with
        | OFall l' s' => exec f E P (SWhileLet p sc body) l' s'
        | ORet _ _ => Ok o
        | OBrk l' s' => Ok (OFall l' s')
        end
      | None => Ok (OFall l s1)
      end
    | SLoop body =>
      let* o := exec_scope (exec f E P) [] body l s in
      match o with
      | OFall l' s' => exec f E P (SLoop body) l' s'
      | ORet _ _ => Ok o
      | OBrk l' s' => Ok (OFall l' s')
      end
    | SBreak => Ok (OBrk l s)
    | SMatchGet tab idx v some none =>
      let* w := eval idx l in
      match w, find_tab tab (ftabs P) with
      | VInt Usize i, Some t =>
        match tab_get t i with
        | Some (m, e) => exec_scope (exec f E P) [(v, VF (rne_decimal m e))] some l s
        | None => exec_scope (exec f E P) [] none l s
        end
      | _, _ => Panic
      end
    | SRet r => eval_ret (call_fn (exec f E P) P) E r l s
    end
  end.

(* calling function [fn] of program [P] with arguments [args] at cursor [s] *)
Definition run (fuel : nat) (E : env) (P : prog) (fn : string) (args : list val) (s : st) : res (val * st) :=
  call_fn (exec fuel E P) P fn args s.
