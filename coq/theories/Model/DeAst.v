(* Model/DeAst.v — the statement language tools/translate_de.py translates the TYPED ENTRY POINTS of src/de.rs into
   (`impl<'de, R: Read<'de>> de::Deserializer<'de> for &mut Deserializer<R>`: deserialize_any .. deserialize_ignored_any, the
   `deserialize_number!` instances; and of `impl Deserializer<R>`: end, peek_invalid_type, deserialize_number, do_deserialize_f32 / _i128 / _u128,
   deserialize_raw_value), and its interpreter.  Definitions only; Gen/DeTables.v (GENERATED) holds what the source says now, Proofs/DeSrc.v proves
   the hand-written models (Model/De.v, Model/DeTyped.v) equal to the interpretation of the generated bodies.

   A sibling of Model/ScanAst.v: same conventions (fuel-indexed interpreter, one unit per nesting level and call; stuck programs are [Panic]),
   byte / Option<u8> patterns are ScanAst's [bpat] / [pat] with ScanAst's matcher, and the cursor functions these bodies call
   (parse_whitespace, parse_ident, end_seq, end_map; scan_integer128) are NOT primitives: they are run by ScanAst's interpreter over the
   translated cursor tables ([CT] = Gen/CursorTables.v, [ST] = Gen/ScanTables.v) with a fuel computed from the state (they terminate;
   Proofs/CursorSrc.v / ScanSrc.v show any fuel above `length (rest s) + 12` gives the same answer).

   What is new in this family:
   * VISITOR CALLS ARE ABSTRACT.  `visitor.visit_unit()`, `visit_bool(b)`, `visit_seq(SeqAccess::new(self))`, `visit_some(self)` .. are the
     expression [XVisit]; its meaning is the parameter [V : vcall -> st -> tres (A * st)] (what the visitor does to the reader and what it
     answers), exactly as Model/DeTyped.v takes `body` / `visit` arguments.
   * Result VALUES.  `let ret = visitor.visit_seq(..)` keeps a Result in a local while `self.end_seq()` runs; `match (ret, self.end_seq())`
     looks at both.  A Result value is [RvOk a | RvUnit | RvErr e]; an error is positioned ([EPos c idx], built by error / peek_error) or not
     ([EUnpos k], serde's de::Error::custom family, line = 0) — `fix_position` turns the latter into [EPos (Message k) (err_idx now)].
   * UNKNOWN reader state.  The models ([res], [tres]) do not say where the reader stands after a positioned error ([Err c i] / [TErr c i] carry
     no state) — rightly, no caller may depend on it.  The interpreter makes that a CHECK instead of an assumption: after a positioned error of a
     callee the reader state is [None]; every operation that needs the state is stuck on it ([Panic]), `self.end_seq()` on it yields the unknown
     Result [RvUnk], and a pattern match is decided only if the known components decide it (three-valued [m3]).  So
     `(Err(err), _) | (_, Err(err)) => Err(err)` returns the visitor's error whatever end_seq() said, while the swapped or-pattern is stuck.
     (The one assumption: `remaining_depth += 1` does not overflow in that situation — [DLeave] leaves an unknown state unknown.)
   * The reader state after a FAILING end_seq() / end_map() (needed when the visitor's unpositioned error is positioned afterwards) is
     Model/DeTyped.v's [end_seq_st] / [end_map_st]: ScanAst's interpreter, like [res], drops the state on errors.

   Primitives (semantics taken from the hand models, each tied to the source elsewhere): Read.peek_or_null / discard / enter / leave / error /
   peek_error (pinned one-liners, check_recursion! pinned by shape), Num.parse_integer / NumF32.parse_integer_s (by the `single_precision` flag) /
   Num.parse_any_number (Proofs/NumParseSrc.v), Str.parse_str / parse_str_raw, Ignore.ignore_value (Proofs/IgnoreSrc.v), `str::parse::<i128/u128>`
   ([str_parse_int], DESIGN.md A.8), Read::begin_raw_buffering / end_raw_buffering ([DBeginRaw] / [XEndRaw], as Model/DeTyped.v deserialize_raw).

     let x = match tri!(self.parse_whitespace()) { Some(b) => b, None => { return R; } };     DLetWs x R
     let x = R;  /  let x = tri!(R);  /  let err = <Error-valued R>;                          DLet / DLetTri / DLetErr
     check_recursion! { items }                                                               DEnter; items; DLeave
     self.eat_char();  tri!(self.parse_ident(b".."));  tri!(self.parse_whitespace());  tri!(self.ignore_value());
     self.single_precision = b;  let mut buf = String::new();  buf.push('c');  tri!(self.scan_integer128(&mut buf));
     self.read.begin_raw_buffering();  if name == crate::raw::TOKEN { .. }  (cfg raw_value: assumed on, as in the model)
     match tri!(self.parse_whitespace()) { PAT => { items } .. }                              DMatchWs (statement)
     if let Err(err) = self.parse_ident(b"..") { items }                                      DIfLetErr
     return R; / R in tail position                                                           DRet
     R ::= visitor.visit_xxx(..) | Ok(x) | Ok(()) | Err(err) | Err(self.fix_position(err)) | Err(self.error(C)) | Err(self.peek_error(C))
         | Err(self.peek_invalid_type(&visitor)) | self.f(visitor) | x | { items R } | return R
         | self.scratch.clear(); match tri!(self.read.parse_str[_raw](&mut self.scratch)) { Reference::Borrowed(s) => visitor.m(s), Reference::Copied(s) => visitor.m'(s) }
         | tri!(self.parse_integer(b)).visit(visitor) | tri!(self.parse_any_number(b)).visit(visitor)
         | match x { BP => R .. } | match x { Ok(v) => R, Err(e) => R } | match (x, self.end_seq()) { PP => R .. }
         | match tri!(self.parse_whitespace()) { PAT => R .. } | match buf.parse() { Ok(int) => R, Err(_) => R }
         | self.read.end_raw_buffering(visitor)
     and, in the Error-valued peek_invalid_type:  de::Error::invalid_type(..) | n.invalid_type(exp) | self.peek_error(C) | self.fix_position(err) | err
         | match self.peek_or_null().unwrap_or(b'\x00') { BP => R .. } | match self.f(..) { Ok(x) => R, Err(err) => R } *)
From Coq Require Import String List ZArith.
From SJ Require Import Base.Bytes Base.Utf8 Model.Read Model.Str Model.Num Model.NumF32 Model.Ignore Model.Ty Model.DeTyped.
Require SJ.Model.ScanAst.
Import ListNotations.
Local Open Scope string_scope.
Local Open Scope list_scope.
Open Scope N_scope.

(* ---- the visitor interface --------------------------------------------------------------------------- *)
Inductive vcall :=
  | VcUnit | VcBool (b : bool) | VcNone
  | VcSome                                 (* visit_some(self) *)
  | VcNewtype                              (* visit_newtype_struct(self) *)
  | VcSeq                                  (* visit_seq(SeqAccess::new(self)) *)
  | VcMap                                  (* visit_map(MapAccess::new(self)) *)
  | VcEnumMap                              (* visit_enum(VariantAccess::new(self)) *)
  | VcEnumUnit                             (* visit_enum(UnitVariantAccess::new(self)) *)
  | VcStr (str : bytes) (borrowed : bool)  (* visit_borrowed_str / visit_str *)
  | VcBytes (b : bytes) (borrowed : bool)  (* visit_borrowed_bytes / visit_bytes *)
  | VcNum (p : pnum)                       (* ParserNumber::visit: visit_f64 / visit_u64 / visit_i64 / visit_map(NumberDeserializer) *)
  | VcI128 (z : Z) | VcU128 (z : Z)
  | VcRaw (span : bytes).                  (* visit_map(Borrowed/OwnedRawDeserializer) *)
Definition visitor (A : Type) := vcall -> st -> tres (A * st).

(* ---- syntax -------------------------------------------------------------------------------------------- *)
Inductive vmeth := VmBorrowedStr | VmStr | VmBorrowedBytes | VmBytes.
Inductive vform :=
  | FUnit | FBool (b : bool) | FNone | FSome | FNewtype | FSeq | FMap | FEnumMap | FEnumUnit
  | FI128 (x : string) | FU128 (x : string).
Inductive numfn := NInteger | NAnyNumber.
Inductive endfn := EndSeq | EndMap.
(* a Result pattern: Ok(x) / Ok(()) / Ok(_), Err(x) / Err(_), _ *)
Inductive rpat := RpOk (x : option string) | RpErr (x : option string) | RpAny.
Inductive ppat := PPair (a b : rpat) | PPOr (p q : ppat).
(* calls whose Result is looked at (not tri!-ed) in peek_invalid_type *)
Inductive pcall := PcIdent (lit : bytes) | PcAnyNumber (positive : bool) | PcParseStr.

Inductive rx :=
  | XVisit (f : vform)
  | XStrVisit (raw : bool) (mb mc : vmeth)
  | XNumVisit (fn : numfn) (positive : bool)
  | XOk (x : string) | XOkUnit
  | XErr (x : string)                                  (* Err(err) *)
  | XErrFix (x : string)                               (* Err(self.fix_position(err)) *)
  | XErrCode (peeked : bool) (c : ecode)               (* Err(self.error(c)) : false, Err(self.peek_error(c)) : true *)
  | XErrPit                                            (* Err(self.peek_invalid_type(&visitor)) *)
  | XCall (f : string)                                 (* self.f(visitor) *)
  | XVar (x : string)
  | XBlock (ss : list dstmt) (e : rx)
  | XRet (e : rx)
  | XMatchByte (x : string) (arms : list (ScanAst.bpat * rx))
  | XMatchRes (x : string) (arms : list (rpat * rx))
  | XMatchPair (x : string) (e : endfn) (arms : list (ppat * rx))
  | XMatchWs (arms : list (ScanAst.pat * rx))
  | XMatchParse (signed : bool) (x : string) (ok err : rx)
  | XEndRaw
  (* Error-valued expressions (peek_invalid_type returns an Error, represented as the Result value Err(e)) *)
  | XeInvalidType                                      (* de::Error::invalid_type(Unexpected::.., exp) / n.invalid_type(exp) *)
  | XeCode (peeked : bool) (c : ecode)                 (* self.error(c) / self.peek_error(c) *)
  | XeFix (x : string)                                 (* self.fix_position(err) *)
  | XeVar (x : string)                                 (* err *)
  | XMatchPon (arms : list (ScanAst.bpat * rx))        (* match self.peek_or_null().unwrap_or(b'\x00') { .. } *)
  | XMatchCall (c : pcall) (okx : option string) (ok : rx) (errx : string) (err : rx)
with dstmt :=
  | DEat
  | DTryIdent (lit : bytes) | DTryWs | DTryIgnore | DTryScan128
  | DLetWs (x : string) (none : rx)
  | DLet (x : string) (e : rx)
  | DLetTri (x : string) (e : rx)
  | DLetErr (x : string) (e : rx)                      (* let err = <Error-valued expression>; *)
  | DEnter | DLeave
  | DSetSingle (b : bool)
  | DNewBuf | DPushBuf (b : byte)
  | DBeginRaw
  | DIfToken (body : list dstmt)
  | DIfRoundtrip (a b : list dstmt)                    (* the two cfg(float_roundtrip) instances of one item *)
  | DMatchWs (arms : list (ScanAst.pat * list dstmt))
  | DIfLetErr (c : pcall) (x : string) (body : list dstmt)
  | DRet (e : rx).

Record dfn := mkD { dbody : list dstmt }.
Definition dtable := list (string * dfn).

(* ---- values -------------------------------------------------------------------------------------------- *)
Inductive everr := EPos (c : ecode) (i : nat) | EUnpos (k : msgkind).

Section I.
Context {A : Type}.

Inductive rval := RvOk (a : A) | RvUnit | RvErr (e : everr) | RvUnk.
Inductive lval := LByte (b : byte) | LRes (r : rval) | LVal (a : A) | LErr (e : everr) | LNum (p : pnum) | LInt (z : Z) | LStr (s : bytes) | LNil.
Definition dlocals := list (string * lval).

Fixpoint dlookup (x : string) (l : dlocals) : option lval :=
  match l with [] => None | (y, v) :: r => if String.eqb x y then Some v else dlookup x r end.
Definition bind_o (x : option string) (v : lval) : dlocals := match x with Some n => [(n, v)] | None => [] end.

(* the machine: reader state (None = unknown), the `single_precision` field, the local `buf: String`, the raw-buffering start *)
Record mach := mkMach { mst : option st; msingle : bool; mbuf : bytes; mraw : option st }.
Definition set_st (m : mach) (s : st) : mach := mkMach (Some s) (msingle m) (mbuf m) (mraw m).
Definition lose_st (m : mach) : mach := mkMach None (msingle m) (mbuf m) (mraw m).

Inductive out :=
  | OV (r : rval) (m : mach)               (* an expression's value *)
  | OR (r : rval) (m : mach)               (* the function returned *)
  | OF (l : dlocals) (m : mach).           (* a statement completed *)

Definition known {X} (m : mach) (k : st -> res X) : res X := match mst m with Some s => k s | None => Panic end.

(* tri!(callee): a positioned error of the callee leaves the function; where the reader stands then is unknown *)
Definition tri_prim {X} (m : mach) (r : res X) (k : X -> res out) : res out :=
  match r with
  | Ok x => k x
  | Err c i => Ok (OR (RvErr (EPos c i)) (lose_st m))
  | OutOfFuel => OutOfFuel
  | Panic => Panic
  end.

(* ---- patterns ------------------------------------------------------------------------------------------ *)
Inductive m3 := M3Yes (fr : dlocals) | M3No | M3Unk.

Definition rpat_match (p : rpat) (r : rval) : m3 :=
  match p, r with
  | RpAny, _ => M3Yes []
  | RpOk x, RvOk a => M3Yes (bind_o x (LVal a))
  | RpOk x, RvUnit => M3Yes (bind_o x LNil)
  | RpOk _, RvErr _ => M3No
  | RpErr x, RvErr e => M3Yes (bind_o x (LErr e))
  | RpErr _, (RvOk _ | RvUnit) => M3No
  | _, RvUnk => M3Unk
  end.
Fixpoint ppat_match (p : ppat) (r1 r2 : rval) : m3 :=
  match p with
  | PPair a b =>
    match rpat_match a r1 with
    | M3No => M3No
    | M3Yes f1 => match rpat_match b r2 with M3Yes f2 => M3Yes (f2 ++ f1) | M3No => M3No | M3Unk => M3Unk end
    | M3Unk => match rpat_match b r2 with M3No => M3No | _ => M3Unk end
    end
  | PPOr p1 p2 =>                                        (* alternatives are tried left to right *)
    match ppat_match p1 r1 r2 with M3Yes f => M3Yes f | M3No => ppat_match p2 r1 r2 | M3Unk => M3Unk end
  end.

Fixpoint select_b (arms : list (ScanAst.bpat * rx)) (b : byte) : option rx :=
  match arms with [] => None | (p, e) :: r => if ScanAst.bpat_match p b then Some e else select_b r b end.
Fixpoint select_r (arms : list (rpat * rx)) (v : rval) : option (dlocals * rx) :=
  match arms with
  | [] => None
  | (p, e) :: r => match rpat_match p v with M3Yes fr => Some (fr, e) | M3No => select_r r v | M3Unk => None end
  end.
Fixpoint select_p (arms : list (ppat * rx)) (v1 v2 : rval) : option (dlocals * rx) :=
  match arms with
  | [] => None
  | (p, e) :: r => match ppat_match p v1 v2 with M3Yes fr => Some (fr, e) | M3No => select_p r v1 v2 | M3Unk => None end
  end.
(* ScanAst's matcher on Option<u8>; its frames bind bytes only here *)
Fixpoint conv_frame (fr : ScanAst.frame) : option dlocals :=
  match fr with
  | [] => Some []
  | (x, ScanAst.VByte b) :: r => match conv_frame r with Some l => Some ((x, LByte b) :: l) | None => None end
  | _ :: _ => None
  end.
Fixpoint select_o {B} (arms : list (ScanAst.pat * B)) (o : option byte) : option (dlocals * B) :=
  match arms with
  | [] => None
  | (p, e) :: r =>
    match ScanAst.pat_match p (ScanAst.SvOpt o) with
    | Some fr => match conv_frame fr with Some l => Some (l, e) | None => None end
    | None => select_o r o
    end
  end.

(* ---- callees run by ScanAst's interpreter ---------------------------------------------------------------- *)
Variable E : env.
Variables CT ST : ScanAst.table.

Definition cfuel (s : st) : nat := (length (rest s) + 12)%nat.
Definition cur_ws (s : st) : res (option byte * st) :=
  let* (r, _, s') := ScanAst.run_scan (cfuel s) E CT "parse_whitespace" None s [] in
  match r with ScanAst.ROpt o => Ok (o, s') | _ => Panic end.
Definition cur_unit (fn : string) (arg : option ScanAst.val) (s : st) : res st :=
  let* (r, _, s') := ScanAst.run_scan_v (cfuel s) E CT fn arg s [] in
  match r with ScanAst.RUnit => Ok s' | _ => Panic end.
Definition cur_scan128 (s : st) (buf : bytes) : res (bytes * st) :=
  let* (r, buf', s') := ScanAst.run_scan (cfuel s) E ST "scan_integer128" None s buf in
  match r with ScanAst.RUnit => Ok (buf', s') | _ => Panic end.

Definition end_name (e : endfn) : string := match e with EndSeq => "end_seq" | EndMap => "end_map" end.
Definition end_st (e : endfn) (s : st) : st := match e with EndSeq => end_seq_st E s | EndMap => end_map_st E s end.

(* ---- primitives ---------------------------------------------------------------------------------------- *)
(* str::parse::<i128> / <u128> (DESIGN.md A.8): optional `+` (or `-` when signed), one or more ASCII digits, the value must fit *)
Definition str_parse_int (signed : bool) (text : bytes) : option Z :=
  let t := if signed then I128 else U128 in
  let digits (neg : bool) (ds : bytes) : option Z :=
    let v := digits_val ds 0 in
    let z := if neg then (- v)%Z else v in
    if all_digits ds && in_range t z then Some z else None in
  match text with
  | 43 :: ds => digits false ds
  | 45 :: ds => if signed then digits true ds else None
  | _ => digits false text
  end.

(* parse_any_number under `single_precision` is not modelled: stuck *)
Definition numcall (fn : numfn) (positive single : bool) (s : st) : res (pnum * st) :=
  match fn with
  | NInteger => if single then parse_integer_s E positive s else parse_integer E positive s
  | NAnyNumber => if single then Panic else parse_any_number E positive s
  end.

Definition fixpos (e : everr) (m : mach) : res everr :=
  match e with
  | EPos _ _ => Ok e
  | EUnpos k => known m (fun s => Ok (EPos (Message k) (err_idx E s)))
  end.

Definition meth_call (v : vmeth) (str : bytes) : vcall :=
  match v with
  | VmBorrowedStr => VcStr str true | VmStr => VcStr str false
  | VmBorrowedBytes => VcBytes str true | VmBytes => VcBytes str false
  end.

Variable V : visitor A.
Variable tok : bool.                        (* `name == crate::raw::TOKEN` of deserialize_newtype_struct *)

Definition do_visit (c : vcall) (m : mach) : res out :=
  known m (fun s =>
    match V c s with
    | TOk (a, s') => Ok (OV (RvOk a) (set_st m s'))
    | TErr c' i => Ok (OV (RvErr (EPos c' i)) (lose_st m))
    | TUnpos k s' => Ok (OV (RvErr (EUnpos k)) (set_st m s'))
    | TFuel => OutOfFuel
    | TPanic => Panic
    end).

Definition vcall_of (f : vform) (l : dlocals) : option vcall :=
  match f with
  | FUnit => Some VcUnit | FBool b => Some (VcBool b) | FNone => Some VcNone | FSome => Some VcSome | FNewtype => Some VcNewtype
  | FSeq => Some VcSeq | FMap => Some VcMap | FEnumMap => Some VcEnumMap | FEnumUnit => Some VcEnumUnit
  | FI128 x => match dlookup x l with Some (LInt z) => Some (VcI128 z) | _ => None end
  | FU128 x => match dlookup x l with Some (LInt z) => Some (VcU128 z) | _ => None end
  end.

(* a looked-at call of peek_invalid_type: payload and new state, or the positioned error *)
Definition pcall_run (c : pcall) (single : bool) (s : st) : res (lval * st) :=
  match c with
  | PcIdent lit => let* s' := cur_unit "parse_ident" (Some (ScanAst.VBytes lit)) s in Ok (LNil, s')
  | PcAnyNumber positive => let* (p, s') := numcall NAnyNumber positive single s in Ok (LNum p, s')
  | PcParseStr => let* (str, _, s') := parse_str E s in Ok (LStr str, s')
  end.

(* ---- execution ------------------------------------------------------------------------------------------ *)
Definition dexec_t := dstmt -> dlocals -> mach -> res out.

Fixpoint dblock (ex : dexec_t) (ss : list dstmt) (l : dlocals) (m : mach) : res out :=
  match ss with
  | [] => Ok (OF l m)
  | x :: r => let* o := ex x l m in
              match o with OF l' m' => dblock ex r l' m' | _ => Ok o end
  end.
(* a nested block: its declarations end with it *)
Definition dscope (ex : dexec_t) (ss : list dstmt) (l : dlocals) (m : mach) : res out :=
  let* o := dblock ex ss l m in
  match o with OF _ m' => Ok (OF l m') | _ => Ok o end.

Fixpoint dfind (fn : string) (T : dtable) : option dfn :=
  match T with [] => None | (n, d) :: r => if String.eqb fn n then Some d else dfind fn r end.

Definition dcall_t := string -> mach -> res (rval * mach).
Definition dcall_fn (ex : dexec_t) (T : dtable) : dcall_t := fun fn m =>
  match dfind fn T with
  | None => Panic
  | Some d => let* o := dblock ex (dbody d) [] m in
              match o with OR r m' => Ok (r, m') | _ => Panic end
  end.

Definition ret_of (o : out) : res out := match o with OV r m => Ok (OR r m) | OR _ _ => Ok o | OF _ _ => Panic end.

Variable DT : dtable.

Fixpoint deval (fuel : nat) (e : rx) (l : dlocals) (m : mach) {struct fuel} : res out :=
  match fuel with
  | O => OutOfFuel
  | S f =>
    match e with
    | XVisit fm => match vcall_of fm l with Some c => do_visit c m | None => Panic end
    | XStrVisit raw mb mc =>
      known m (fun s =>
        tri_prim m ((if raw then parse_str_raw else parse_str) E s) (fun '(str, borrowed, s') =>
          do_visit (meth_call (if borrowed then mb else mc) str) (set_st m s')))
    | XNumVisit fn positive =>
      known m (fun s =>
        tri_prim m (numcall fn positive (msingle m) s) (fun '(p, s') => do_visit (VcNum p) (set_st m s')))
    | XOk x => match dlookup x l with Some (LVal a) => Ok (OV (RvOk a) m) | _ => Panic end
    | XOkUnit => Ok (OV RvUnit m)
    | XErr x | XeVar x => match dlookup x l with Some (LErr e') => Ok (OV (RvErr e') m) | _ => Panic end
    | XErrFix x | XeFix x =>
      match dlookup x l with
      | Some (LErr e') => let* e2 := fixpos e' m in Ok (OV (RvErr e2) m)
      | _ => Panic
      end
    | XErrCode peeked c | XeCode peeked c =>
      known m (fun s => Ok (OV (RvErr (EPos c (if peeked then peek_err_idx E s else err_idx E s))) m))
    | XErrPit =>
      let* (r, m') := dcall_fn (dexec f) DT "peek_invalid_type" m in
      match r with RvErr e' => Ok (OV (RvErr e') m') | _ => Panic end
    | XCall fn => let* (r, m') := dcall_fn (dexec f) DT fn m in Ok (OV r m')
    | XVar x => match dlookup x l with Some (LRes r) => Ok (OV r m) | _ => Panic end
    | XBlock ss e' =>
      let* o := dblock (dexec f) ss l m in
      match o with OF l' m' => deval f e' l' m' | _ => Ok o end
    | XRet e' => let* o := deval f e' l m in ret_of o
    | XMatchByte x arms =>
      match dlookup x l with
      | Some (LByte b) => match select_b arms b with Some e' => deval f e' l m | None => Panic end
      | _ => Panic
      end
    | XMatchRes x arms =>
      match dlookup x l with
      | Some (LRes r) => match select_r arms r with Some (fr, e') => deval f e' (fr ++ l) m | None => Panic end
      | _ => Panic
      end
    | XMatchPair x en arms =>
      match dlookup x l with
      | Some (LRes r1) =>
        (* the tuple's second component: self.end_seq() / self.end_map() *)
        let* (r2, m2) :=
          match mst m with
          | None => Ok (RvUnk, m)
          | Some s =>
            match cur_unit (end_name en) None s with
            | Ok s' => Ok (RvUnit, set_st m s')
            | Err c i => Ok (RvErr (EPos c i), set_st m (end_st en s))
            | OutOfFuel => OutOfFuel
            | Panic => Panic
            end
          end in
        match select_p arms r1 r2 with Some (fr, e') => deval f e' (fr ++ l) m2 | None => Panic end
      | _ => Panic
      end
    | XMatchWs arms =>
      known m (fun s =>
        tri_prim m (cur_ws s) (fun '(o, s') =>
          match select_o arms o with Some (fr, e') => deval f e' (fr ++ l) (set_st m s') | None => Panic end))
    | XMatchParse signed x ok err =>
      match str_parse_int signed (mbuf m) with
      | Some z => deval f ok ((x, LInt z) :: l) m
      | None => deval f err l m
      end
    | XEndRaw =>
      known m (fun s1 =>
        match mraw m with
        | None => Panic
        | Some s0 =>
          let span := firstn (off s1 - off s0) (rest s0) in
          match rk E with
          | RStr => do_visit (VcRaw span) m
          | _ => if utf8_valid span then do_visit (VcRaw span) m
                 else Ok (OV (RvErr (EPos InvalidUnicodeCodePoint (err_idx E s1))) m)
          end
        end)
    | XeInvalidType => Ok (OV (RvErr (EUnpos MInvalidType)) m)
    | XMatchPon arms =>
      known m (fun s =>
        match peek_or_null E s with
        | Ok (b, s') => match select_b arms b with Some e' => deval f e' l (set_st m s') | None => Panic end
        | Err _ _ => match select_b arms 0 with Some e' => deval f e' l m | None => Panic end      (* .unwrap_or(b'\x00') *)
        | OutOfFuel => OutOfFuel
        | Panic => Panic
        end)
    | XMatchCall c okx ok errx err =>
      known m (fun s =>
        match pcall_run c (msingle m) s with
        | Ok (v, s') => deval f ok (bind_o okx v ++ l) (set_st m s')
        | Err c' i => deval f err ((errx, LErr (EPos c' i)) :: l) (lose_st m)
        | OutOfFuel => OutOfFuel
        | Panic => Panic
        end)
    end
  end

with dexec (fuel : nat) (x : dstmt) (l : dlocals) (m : mach) {struct fuel} : res out :=
  match fuel with
  | O => OutOfFuel
  | S f =>
    match x with
    | DEat => known m (fun s => Ok (OF l (set_st m (discard s))))
    | DTryIdent lit =>
      known m (fun s => tri_prim m (cur_unit "parse_ident" (Some (ScanAst.VBytes lit)) s) (fun s' => Ok (OF l (set_st m s'))))
    | DTryWs => known m (fun s => tri_prim m (cur_ws s) (fun '(_, s') => Ok (OF l (set_st m s'))))
    | DTryIgnore => known m (fun s => tri_prim m (ignore_value E s) (fun s' => Ok (OF l (set_st m s'))))
    | DTryScan128 =>
      known m (fun s => tri_prim m (cur_scan128 s (mbuf m)) (fun '(buf', s') =>
        Ok (OF l (mkMach (Some s') (msingle m) buf' (mraw m)))))
    | DLetWs v none =>
      known m (fun s =>
        tri_prim m (cur_ws s) (fun '(o, s') =>
          match o with
          | Some b => Ok (OF ((v, LByte b) :: l) (set_st m s'))
          | None => let* o' := deval f none l (set_st m s') in ret_of o'             (* `return none` *)
          end))
    | DLet v e =>
      let* o := deval f e l m in
      match o with OV r m' => Ok (OF ((v, LRes r) :: l) m') | OR _ _ => Ok o | OF _ _ => Panic end
    | DLetTri v e =>
      let* o := deval f e l m in
      match o with
      | OV (RvOk a) m' => Ok (OF ((v, LVal a) :: l) m')
      | OV (RvErr e') m' => Ok (OR (RvErr e') m')
      | OV _ _ => Panic
      | OR _ _ => Ok o
      | OF _ _ => Panic
      end
    | DLetErr v e =>
      let* o := deval f e l m in
      match o with
      | OV (RvErr e') m' => Ok (OF ((v, LErr e') :: l) m')
      | OV _ _ => Panic
      | OR _ _ => Ok o
      | OF _ _ => Panic
      end
    | DEnter =>
      known m (fun s =>
        match enter E s with
        | Ok s' => Ok (OF l (set_st m s'))
        | Err c i => Ok (OR (RvErr (EPos c i)) (lose_st m))
        | OutOfFuel => OutOfFuel
        | Panic => Panic
        end)
    | DLeave =>
      match mst m with
      | None => Ok (OF l m)
      | Some s => match leave E s with Ok s' => Ok (OF l (set_st m s')) | _ => Panic end
      end
    | DSetSingle b => Ok (OF l (mkMach (mst m) b (mbuf m) (mraw m)))
    | DNewBuf => Ok (OF l (mkMach (mst m) (msingle m) [] (mraw m)))
    | DPushBuf b => Ok (OF l (mkMach (mst m) (msingle m) (mbuf m ++ [b]) (mraw m)))
    | DBeginRaw => known m (fun s => Ok (OF l (mkMach (mst m) (msingle m) (mbuf m) (Some s))))
    | DIfToken body => if tok then dscope (dexec f) body l m else Ok (OF l m)
    | DIfRoundtrip a b => dscope (dexec f) (if float_roundtrip (cf E) then a else b) l m
    | DMatchWs arms =>
      known m (fun s =>
        tri_prim m (cur_ws s) (fun '(o, s') =>
          match select_o arms o with
          | Some (fr, body) =>
            let* o' := dblock (dexec f) body (fr ++ l) (set_st m s') in
            match o' with OF _ m' => Ok (OF l m') | _ => Ok o' end
          | None => Panic
          end))
    | DIfLetErr c v body =>
      known m (fun s =>
        match pcall_run c (msingle m) s with
        | Ok (_, s') => Ok (OF l (set_st m s'))
        | Err c' i =>
          let* o' := dblock (dexec f) body ((v, LErr (EPos c' i)) :: l) (lose_st m) in
          match o' with OF _ m' => Ok (OF l m') | _ => Ok o' end
        | OutOfFuel => OutOfFuel
        | Panic => Panic
        end)
    | DRet e => let* o := deval f e l m in ret_of o
    end
  end.

Definition init_mach (s : st) : mach := mkMach (Some s) false [] None.

(* calling entry point [fn] on reader state [s] *)
Definition interp (fuel : nat) (fn : string) (s : st) : res (rval * mach) :=
  dcall_fn (dexec fuel) DT fn (init_mach s).

(* what the caller sees: a Result<V::Value> as Model/DeTyped.v writes it.  `single_precision` must be off again on every way out. *)
Definition as_tres (r : res (rval * mach)) : tres (A * st) :=
  match r with
  | Ok (v, m) =>
    if msingle m then TPanic
    else match v with
         | RvOk a => match mst m with Some s => TOk (a, s) | None => TPanic end
         | RvErr (EPos c i) => TErr c i
         | RvErr (EUnpos k) => match mst m with Some s => TUnpos k s | None => TPanic end
         | RvUnit | RvUnk => TPanic
         end
  | Err _ _ => TPanic
  | OutOfFuel => TFuel
  | Panic => TPanic
  end.
(* a Result<()> (Deserializer::end) as Model/De.v writes it *)
Definition as_unit (r : res (rval * mach)) : res st :=
  match r with
  | Ok (RvUnit, m) => match mst m with Some s => Ok s | None => Panic end
  | Ok (RvErr (EPos c i), _) => Err c i
  | Ok _ => Panic
  | Err _ _ => Panic
  | OutOfFuel => OutOfFuel
  | Panic => Panic
  end.
End I.

Arguments rval : clear implicits.
Arguments lval : clear implicits.
Arguments out : clear implicits.
