(* Model/Num.v — number parsing of src/de.rs:
     overflow!, ParserNumber, parse_integer, parse_number, parse_decimal, parse_exponent,
     parse_long_integer, parse_decimal_overflow, parse_exponent_overflow, f64_from_parts (default build),
     the float_roundtrip twins (parse_long_integer/decimal/exponent, f64_long_from_parts; lexical itself is
     represented by its specification: the correctly rounded value — see Model/Lex*.v for the algorithm),
     scan_integer/number/decimal/exponent/scan_or_eof + parse_any_number (arbitrary_precision),
     scan_integer128, ignore_integer/decimal/exponent. *)
From SJ Require Import Base.Bytes Base.FloatB Gen.Tables Model.Read.
From Flocq Require Import Core BinarySingleNaN.
Open Scope N_scope.

Definition two64 : N := 18446744073709551616.
Definition i32_max : N := 2147483647.

(* overflow!(a * 10 + b, c)  ==  a >= c / 10 && (a > c / 10 || b > c % 10) *)
Definition overflow_mac (a b c : N) : bool :=
  (c / 10 <=? a) && ((c / 10 <? a) || (c mod 10 <? b)).

(* u64 arithmetic `significand * 10 + digit`, wrap written out *)
Definition mul10add (a d : N) : N := (a * 10 + d) mod two64.

Inductive pnum := PF64 (f : b64) | PU64 (n : N) | PI64 (z : Z) | PString (s : bytes).

(* POW10 table: entry i is the f64 literal 1e<i>; rustc's literal parsing is trusted to round correctly *)
Definition pow10_tab (i : Z) : option b64 :=
  if (i <? 0)%Z || (1000 <? i)%Z then None
  else match nth_error POW10_EXPS (Z.to_nat i) with
       | Some e => Some (rne_decimal 1 e)
       | None => None
       end.

(* f64_from_parts, default build.  The loop runs at most 3 times (fuel 4 is proved sufficient). *)
Fixpoint f64_loop (fuel : nat) (f : b64) (e : Z) : res (option b64) :=   (* None = number out of range *)
  match fuel with
  | O => OutOfFuel
  | S fu =>
    match pow10_tab (Z.abs e) with
    | Some p =>
      if (0 <=? e)%Z then
        let f' := b64_mul f p in
        if b64_is_inf f' then Ok None else Ok (Some f')
      else Ok (Some (b64_div f p))
    | None =>
      if b64_is_zero f then Ok (Some f)
      else if (0 <=? e)%Z then Ok None
      else f64_loop fu (b64_div f (rne_decimal 1 308)) (e + 308)
    end
  end.

(* float_roundtrip build: lexical::parse_concise_float(significand, exponent), as specified *)
Definition f64_fr (sig : N) (e : Z) : option b64 :=
  let f := rne_decimal (Z.of_N sig) e in
  if b64_is_inf f then None else Some f.

Definition f64_from_parts (E : env) (positive : bool) (sig : N) (e : Z) (s : st) : res (b64 * st) :=
  let* o := (if float_roundtrip (cf E) then Ok (f64_fr sig e) else f64_loop 4 (b64_of_Z (Z.of_N sig)) e) in
  match o with
  | None => peek_error E s NumberOutOfRange
  | Some f => Ok (if positive then f else b64_neg f, s)
  end.

(* parse_exponent_overflow *)
Definition parse_exponent_overflow (E : env) (positive zero_sig positive_exp : bool) (s : st) : res (b64 * st) :=
  if negb zero_sig && positive_exp then error E s NumberOutOfRange
  else
    let* (_, s1) := skip_digits E s in
    Ok (if positive then B754_zero false else B754_zero true, s1).

(* exponent digit loop: `while let c @ digit = peek_or_null() { eat_char(); if overflow!(exp*10+d, i32::MAX) {..}; exp = exp*10+d }`
   returns (digits consumed, exp, overflowed) — on overflow the overflowing digit has been consumed *)
Fixpoint exp_loop (l : bytes) (exp : N) : nat * N * bool :=
  match l with
  | c :: r =>
    if is_digit c then
      let d := digit_val c in
      if overflow_mac exp d i32_max then (1%nat, exp, true)
      else let '(n, e, o) := exp_loop r (exp * 10 + d) in (S n, e, o)
    else (O, exp, false)
  | [] => (O, exp, false)
  end.

Definition i32_sat (z : Z) : Z := Z.max (-2147483648) (Z.min 2147483647 z).

(* shared front of parse_exponent / parse_long_exponent: `e`, sign, first digit, digit loop *)
Definition exponent_front (E : env) (s : st) : res (bool * (N * bool) * st) :=   (* positive_exp, (exp, overflowed), state *)
  let s0 := discard s in
  let* (c, s1) := peek_or_null E s0 in
  let '(positive_exp, s2) :=
    if c =? 43 then (true, discard s1) else if c =? 45 then (false, discard s1) else (true, s1) in
  let* (o, s3) := next E s2 in
  match o with
  | None => error E s3 EofWhileParsingValue
  | Some c1 =>
    if is_digit c1 then
      let '(n, e, ov) := exp_loop (rest s3) (digit_val c1) in
      Ok (positive_exp, (e, ov), advance n s3)
    else error E s3 InvalidNumber
  end.

Definition parse_exponent (E : env) (positive : bool) (sig : N) (starting_exp : Z) (s : st) : res (b64 * st) :=
  let* (positive_exp, (e, ov), s1) := exponent_front E s in
  if ov then parse_exponent_overflow E positive (sig =? 0) positive_exp s1
  else
    let* (_, s2) := peek_or_null E s1 in
    let final_exp := if positive_exp then i32_sat (starting_exp + Z.of_N e) else i32_sat (starting_exp - Z.of_N e) in
    f64_from_parts E positive sig final_exp s2.

(* significand digit loop with the u64 overflow guard:
   (digits consumed, significand, stopped-because-next-digit-would-overflow) *)
Fixpoint sig_loop (l : bytes) (sig : N) : nat * N * bool :=
  match l with
  | c :: r =>
    if is_digit c then
      let d := digit_val c in
      if overflow_mac sig d u64_max then (O, sig, true)
      else let '(n, sg, o) := sig_loop r (mul10add sig d) in (S n, sg, o)
    else (O, sig, false)
  | [] => (O, sig, false)
  end.

(* ---- float_roundtrip long paths: digits are collected in scratch ------------------- *)
Fixpoint dec_digits_aux (fuel : nat) (n : N) (acc : bytes) : bytes :=
  match fuel with
  | O => acc
  | S f => if n <? 10 then (48 + n) :: acc else dec_digits_aux f (n / 10) ((48 + n mod 10) :: acc)
  end.
(* itoa: minimal decimal digits *)
Definition itoa (n : N) : bytes := dec_digits_aux 40 n [].

Fixpoint digits_val (l : bytes) (acc : Z) : Z :=
  match l with [] => acc | c :: r => digits_val r (acc * 10 + Z.of_N (digit_val c)) end.

Fixpoint strip_trailing_zeros_rev (l : bytes) : bytes :=
  match l with 48 :: r => strip_trailing_zeros_rev r | _ => l end.
Definition strip_trailing_zeros (l : bytes) : bytes := rev (strip_trailing_zeros_rev (rev l)).

(* lexical::parse_truncated_float(integer, fraction, exponent), as specified:
   the correctly rounded value of  integer.fraction * 10^exponent *)
Definition lexical_truncated (integer fraction : bytes) (e : Z) : b64 :=
  let fr := strip_trailing_zeros fraction in
  rne_decimal (digits_val (integer ++ fr) 0) (e - Z.of_nat (length fr)).

Definition f64_long_from_parts (E : env) (positive : bool) (integer fraction : bytes) (e : Z) (s : st) : res (b64 * st) :=
  let f := lexical_truncated integer fraction e in
  if b64_is_inf f then peek_error E s NumberOutOfRange
  else Ok (if positive then f else b64_neg f, s).

Definition parse_long_exponent (E : env) (positive : bool) (integer fraction : bytes) (s : st) : res (b64 * st) :=
  let* (positive_exp, (e, ov), s1) := exponent_front E s in
  if ov then parse_exponent_overflow E positive (forallb (N.eqb 48) (integer ++ fraction)) positive_exp s1
  else
    let* (_, s2) := peek_or_null E s1 in
    let final_exp := if positive_exp then Z.of_N e else (- Z.of_N e)%Z in
    f64_long_from_parts E positive integer fraction final_exp s2.

(* parse_long_decimal: scratch = integer ++ fraction0 on entry; more fraction digits follow *)
Definition parse_long_decimal (E : env) (positive : bool) (integer fraction0 : bytes) (s : st) : res (b64 * st) :=
  let n := span_len is_digit (rest s) in
  let fraction := fraction0 ++ firstn n (rest s) in
  let* (c, s1) := peek_or_null E (advance n s) in
  match fraction with
  | [] =>
    let* (o, s2) := peek E s1 in
    match o with
    | Some _ => peek_error E s2 InvalidNumber
    | None => peek_error E s2 EofWhileParsingValue
    end
  | _ :: _ =>
    if (c =? 101) || (c =? 69) then parse_long_exponent E positive integer fraction s1
    else f64_long_from_parts E positive integer fraction 0 s1
  end.

(* parse_decimal_overflow *)
Definition parse_decimal_overflow (E : env) (positive : bool) (sig : N) (e : Z) (s : st) : res (b64 * st) :=
  if float_roundtrip (cf E) then
    (* rebuild the digit string of significand * 10^e (e <= 0) and continue in the long path *)
    let sd := itoa sig in
    let fraction_digits := Z.to_nat (- e) in
    let scratch := (if Nat.leb (S (length sd)) fraction_digits
                    then repeat 48 (S (fraction_digits - S (length sd))) else []) ++ sd in
    let integer_end := (length scratch - fraction_digits)%nat in
    parse_long_decimal E positive (firstn integer_end scratch) (skipn integer_end scratch) s
  else
    let* (c, s1) := skip_digits E s in
    if (c =? 101) || (c =? 69) then parse_exponent E positive sig e s1
    else f64_from_parts E positive sig e s1.

(* parse_decimal: the '.' is peeked, not yet consumed *)
Definition parse_decimal (E : env) (positive : bool) (sig : N) (exp_before : Z) (s : st) : res (b64 * st) :=
  let s0 := discard s in
  let '(n, sg, ov) := sig_loop (rest s0) sig in
  let exp_after := (- Z.of_nat n)%Z in
  let* (c, s1) := peek_or_null E (advance n s0) in
  if ov then parse_decimal_overflow E positive sg (exp_before + exp_after) s1
  else if Nat.eqb n 0 then
    let* (o, s2) := peek E s1 in
    match o with
    | Some _ => peek_error E s2 InvalidNumber
    | None => peek_error E s2 EofWhileParsingValue
    end
  else
    let e := (exp_before + exp_after)%Z in
    if (c =? 101) || (c =? 69) then parse_exponent E positive sg e s1
    else f64_from_parts E positive sg e s1.

(* parse_long_integer: reached when the next integer digit would overflow u64 *)
Definition parse_long_integer (E : env) (positive : bool) (sig : N) (s : st) : res (b64 * st) :=
  let n := span_len is_digit (rest s) in
  let* (c, s1) := peek_or_null E (advance n s) in
  if float_roundtrip (cf E) then
    let integer := itoa sig ++ firstn n (rest s) in
    if c =? 46 then parse_long_decimal E positive integer [] (discard s1)
    else if (c =? 101) || (c =? 69) then parse_long_exponent E positive integer [] s1
    else f64_long_from_parts E positive integer [] 0 s1
  else
    let e := Z.of_nat n in
    if c =? 46 then parse_decimal E positive sig e s1
    else if (c =? 101) || (c =? 69) then parse_exponent E positive sig e s1
    else f64_from_parts E positive sig e s1.

Definition wrap_i64 (z : Z) : Z := ((z + 9223372036854775808) mod 18446744073709551616 - 9223372036854775808)%Z.

(* parse_number *)
Definition parse_number (E : env) (positive : bool) (sig : N) (s : st) : res (pnum * st) :=
  let* (c, s1) := peek_or_null E s in
  if c =? 46 then let* (f, s2) := parse_decimal E positive sig 0 s1 in Ok (PF64 f, s2)
  else if (c =? 101) || (c =? 69) then let* (f, s2) := parse_exponent E positive sig 0 s1 in Ok (PF64 f, s2)
  else if positive then Ok (PU64 sig, s1)
  else
    let as_i64 := wrap_i64 (Z.of_N sig) in
    let neg := wrap_i64 (- as_i64) in
    if (0 <=? neg)%Z then Ok (PF64 (b64_neg (b64_of_Z (Z.of_N sig))), s1)
    else Ok (PI64 neg, s1).

(* parse_integer *)
Definition parse_integer (E : env) (positive : bool) (s : st) : res (pnum * st) :=
  let* (o, s1) := next E s in
  match o with
  | None => error E s1 EofWhileParsingValue
  | Some c =>
    if c =? 48 then
      let* (c2, s2) := peek_or_null E s1 in
      if is_digit c2 then peek_error E s2 InvalidNumber else parse_number E positive 0 s2
    else if is_digit19 c then
      let '(n, sg, ov) := sig_loop (rest s1) (digit_val c) in
      let* (_, s2) := peek_or_null E (advance n s1) in
      if ov then let* (f, s3) := parse_long_integer E positive sg s2 in Ok (PF64 f, s3)
      else parse_number E positive sg s2
    else error E s1 InvalidNumber
  end.

(* ---- arbitrary_precision: scan_* keep the literal ------------------------------------ *)
Definition scan_or_eof (E : env) (s : st) : res (byte * st) :=
  let* (o, s1) := next E s in
  match o with Some b => Ok (b, s1) | None => error E s1 EofWhileParsingValue end.

Definition scan_exponent (E : env) (e : byte) (s : st) : res (bytes * st) :=
  let s0 := discard s in
  let* (c, s1) := peek_or_null E s0 in
  let '(sgn, s2) := if c =? 43 then ([43], discard s1) else if c =? 45 then ([45], discard s1) else ([], s1) in
  let* (d, s3) := scan_or_eof E s2 in
  if is_digit d then
    let n := span_len is_digit (rest s3) in
    let* (_, s4) := peek_or_null E (advance n s3) in
    Ok (e :: sgn ++ d :: firstn n (rest s3), s4)
  else error E s3 InvalidNumber.

Definition scan_decimal (E : env) (s : st) : res (bytes * st) :=
  let s0 := discard s in
  let n := span_len is_digit (rest s0) in
  let ds := firstn n (rest s0) in
  let* (c, s1) := peek_or_null E (advance n s0) in
  if Nat.eqb n 0 then
    let* (o, s2) := peek E s1 in
    match o with
    | Some _ => peek_error E s2 InvalidNumber
    | None => peek_error E s2 EofWhileParsingValue
    end
  else if (c =? 101) || (c =? 69) then
    let* (ex, s2) := scan_exponent E c s1 in Ok (46 :: ds ++ ex, s2)
  else Ok (46 :: ds, s1).

Definition scan_number (E : env) (s : st) : res (bytes * st) :=
  let* (c, s1) := peek_or_null E s in
  if c =? 46 then scan_decimal E s1
  else if (c =? 101) || (c =? 69) then scan_exponent E c s1
  else Ok ([], s1).

Definition scan_integer (E : env) (s : st) : res (bytes * st) :=
  let* (c, s1) := scan_or_eof E s in
  if c =? 48 then
    let* (c2, s2) := peek_or_null E s1 in
    if is_digit c2 then peek_error E s2 InvalidNumber
    else let* (t, s3) := scan_number E s2 in Ok (48 :: t, s3)
  else if is_digit19 c then
    let n := span_len is_digit (rest s1) in
    let* (_, s2) := peek_or_null E (advance n s1) in
    let* (t, s3) := scan_number E s2 in Ok (c :: firstn n (rest s1) ++ t, s3)
  else error E s1 InvalidNumber.

(* std str::parse::<u64>/<i64> on a buffer known to be [-]digits... : all digits and in range *)
Definition all_digits (l : bytes) : bool := match l with [] => false | _ => forallb is_digit l end.

Definition parse_any_number (E : env) (positive : bool) (s : st) : res (pnum * st) :=
  if arbitrary_precision (cf E) then
    let* (buf, s1) := scan_integer E s in
    if all_digits buf then
      let v := digits_val buf 0 in
      if positive then
        if (v <=? Z.of_N u64_max)%Z then Ok (PU64 (Z.to_N v), s1) else Ok (PString buf, s1)
      else
        if (v <=? Z.of_N i64_min_abs)%Z && negb (v =? 0)%Z then Ok (PI64 (- v), s1) else Ok (PString (45 :: buf), s1)
    else Ok (PString (if positive then buf else 45 :: buf), s1)
  else parse_integer E positive s.

(* ---- scan_integer128 --------------------------------------------------------------- *)
Definition scan_integer128 (E : env) (s : st) : res (bytes * st) :=
  let* (o, s1) := next E s in
  match o with
  | None => error E s1 EofWhileParsingValue
  | Some c =>
    if c =? 48 then
      let* (c2, s2) := peek_or_null E s1 in
      if is_digit c2 then peek_error E s2 InvalidNumber else Ok ([48], s2)
    else if is_digit19 c then
      let n := span_len is_digit (rest s1) in
      let* (_, s2) := peek_or_null E (advance n s1) in
      Ok (c :: firstn n (rest s1), s2)
    else error E s1 InvalidNumber
  end.

(* ---- ignore_integer / ignore_decimal / ignore_exponent ------------------------------- *)
Definition ignore_exponent (E : env) (s : st) : res st :=
  let s0 := discard s in
  let* (c, s1) := peek_or_null E s0 in
  let s2 := if (c =? 43) || (c =? 45) then discard s1 else s1 in
  let* (o, s3) := next E s2 in
  match o with
  | None => error E s3 EofWhileParsingValue
  | Some d =>
    if is_digit d then let* (_, s4) := skip_digits E s3 in Ok s4
    else error E s3 InvalidNumber
  end.

Definition ignore_decimal (E : env) (s : st) : res st :=
  let s0 := discard s in
  let n := span_len is_digit (rest s0) in
  let* (c, s1) := peek_or_null E (advance n s0) in
  if Nat.eqb n 0 then
    let* (o, s2) := peek E s1 in
    match o with
    | Some _ => peek_error E s2 InvalidNumber
    | None => peek_error E s2 EofWhileParsingValue
    end
  else if (c =? 101) || (c =? 69) then ignore_exponent E s1
  else Ok s1.

Definition ignore_integer (E : env) (s : st) : res st :=
  let* (o, s1) := next E s in
  match o with
  | None => error E s1 EofWhileParsingValue
  | Some c =>
    let* (c2, s2) :=
      (if c =? 48 then
         let* (c2, s2) := peek_or_null E s1 in
         if is_digit c2 then peek_error E s2 InvalidNumber else Ok (c2, s2)
       else if is_digit19 c then skip_digits E s1
       else error E s1 InvalidNumber) in
    if c2 =? 46 then ignore_decimal E s2
    else if (c2 =? 101) || (c2 =? 69) then ignore_exponent E s2
    else Ok s2
  end.
