(* Model/NumAst.v — the expression language tools/translate_num.py translates the default-representation `match self.n { .. }` of the eight `Number`
   accessors of src/number.rs into (is_i64 is_u64 is_f64 as_i64 as_u64 as_f64 as_i128 as_u128), and its interpreter.
   Gen/NumTables.v (GENERATED on every run) holds what the source says now; Proofs/NumAccSrc.v proves the hand-written accessor models equal to it.
   The interpreter is the (small, trusted) semantics of the subset; `as` casts are written out with their wrap-around (Rust `as` between integer types
   truncates / sign-extends, integer -> float rounds to nearest even); casts the accessors do not use (float -> integer) are [RUnsupported], so that a
   source that starts using one breaks the proof instead of being given a made-up meaning. *)
From SJ Require Import Base.Bytes Base.FloatB Model.Value Model.Pointer.
Open Scope Z_scope.

Inductive ncast := CastNone | CastI64 | CastU64 | CastF64 | CastI128 | CastU128.
Inductive nexpr := NTrue | NFalse | NLeI64Max | NSome (c : ncast) | NNone | NIfLeI64Max (a b : nexpr).
Record nacc := mkNacc { on_pos : nexpr; on_neg : nexpr; on_float : nexpr }.

(* a typed scalar: the payload of the matched constructor, or the result of a cast *)
Inductive nval := VU64 (n : N) | VI64 (z : Z) | VF64 (f : b64) | VI128 (z : Z) | VU128 (z : Z).
Inductive nresult := RB (b : bool) | RO (o : option nval) | RUnsupported.

Definition wrap_signed (bits : Z) (z : Z) : Z :=
  let m := z mod 2 ^ bits in if m <? 2 ^ (bits - 1) then m else m - 2 ^ bits.

Definition cast (c : ncast) (v : nval) : option nval :=
  match c, v with
  | CastNone, _ => Some v
  | CastI64, VU64 n => Some (VI64 (wrap_signed 64 (Z.of_N n)))
  | CastI64, VI64 z => Some (VI64 z)
  | CastU64, VU64 n => Some (VU64 n)
  | CastU64, VI64 z => Some (VU64 (Z.to_N (z mod 2 ^ 64)))
  | CastF64, VU64 n => Some (VF64 (b64_of_Z (Z.of_N n)))
  | CastF64, VI64 z => Some (VF64 (b64_of_Z z))
  | CastF64, VF64 f => Some (VF64 f)
  | CastI128, VU64 n => Some (VI128 (Z.of_N n))
  | CastI128, VI64 z => Some (VI128 z)
  | CastU128, VU64 n => Some (VU128 (Z.of_N n))
  | CastU128, VI64 z => Some (VU128 (z mod 2 ^ 128))
  | _, _ => None                      (* float -> integer and casts of 128-bit values: not used by the accessors *)
  end.

Definition le_i64max (v : nval) : option bool :=
  match v with VU64 n => Some (N.leb n i64_max) | _ => None end.

Fixpoint eval (e : nexpr) (v : nval) : nresult :=
  match e with
  | NTrue => RB true
  | NFalse => RB false
  | NLeI64Max => match le_i64max v with Some b => RB b | None => RUnsupported end
  | NSome c => match cast c v with Some w => RO (Some w) | None => RUnsupported end
  | NNone => RO None
  | NIfLeI64Max a b => match le_i64max v with Some true => eval a v | Some false => eval b v | None => RUnsupported end
  end.

(* the accessor on a Number of the default representation (NLit belongs to arbitrary_precision: outside this match) *)
Definition run_acc (a : nacc) (n : num) : nresult :=
  match n with
  | NPos u => eval (on_pos a) (VU64 u)
  | NNeg z => eval (on_neg a) (VI64 z)
  | NFloat f => eval (on_float a) (VF64 f)
  | NLit _ => RUnsupported
  end.
