(* Base/Bytes.v — bytes, byte strings, the error/result vocabulary shared by all models.
   Definitions only (everything here extracts and runs); lemmas live in Proofs/. *)
From Coq Require Export List NArith ZArith Bool Arith Lia.
Export ListNotations.
Open Scope N_scope.

Notation byte := N (only parsing).
Notation bytes := (list N) (only parsing).

(* ASCII constants used by the models (kept as notations so that they unify with literals). *)
Notation c_tab := 9 (only parsing).
Notation c_lf := 10 (only parsing).
Notation c_cr := 13 (only parsing).
Notation c_sp := 32 (only parsing).
Notation c_quote := 34 (only parsing).
Notation c_plus := 43 (only parsing).
Notation c_comma := 44 (only parsing).
Notation c_minus := 45 (only parsing).
Notation c_dot := 46 (only parsing).
Notation c_slash := 47 (only parsing).
Notation c_0 := 48 (only parsing).
Notation c_9 := 57 (only parsing).
Notation c_colon := 58 (only parsing).
Notation c_E := 69 (only parsing).
Notation c_lbrack := 91 (only parsing).
Notation c_bslash := 92 (only parsing).
Notation c_rbrack := 93 (only parsing).
Notation c_e := 101 (only parsing).
Notation c_lbrace := 123 (only parsing).
Notation c_rbrace := 125 (only parsing).

Definition is_digit (b : byte) : bool := (48 <=? b) && (b <=? 57).
Definition is_digit19 (b : byte) : bool := (49 <=? b) && (b <=? 57).
Definition digit_val (b : byte) : N := b - 48.

Fixpoint beq_bytes (a b : bytes) : bool :=
  match a, b with
  | [], [] => true
  | x :: a', y :: b' => (x =? y) && beq_bytes a' b'
  | _, _ => false
  end.

(* byte-lexicographic order: what Ord for String / str is *)
Fixpoint bytes_ltb (a b : bytes) : bool :=
  match a, b with
  | [], [] => false
  | [], _ :: _ => true
  | _ :: _, [] => false
  | x :: a', y :: b' => if x <? y then true else if y <? x then false else bytes_ltb a' b'
  end.

(* Error codes: mirrors `ErrorCode` of src/error.rs, one constructor per variant.
   `Message k` carries a coarse class of serde `de::Error` messages; `Io k` a reader/writer fault kind. *)
Inductive msgkind := MInvalidType | MInvalidValue | MInvalidLength | MUnknownVariant | MUnknownField
                   | MMissingField | MDuplicateField | MCustom.

Inductive ecode :=
  | Message (k : msgkind)
  | Io (kind : N)
  | EofWhileParsingList | EofWhileParsingObject | EofWhileParsingString | EofWhileParsingValue
  | ExpectedColon | ExpectedListCommaOrEnd | ExpectedObjectCommaOrEnd | ExpectedSomeIdent
  | ExpectedSomeValue | ExpectedDoubleQuote | InvalidEscape | InvalidNumber | NumberOutOfRange
  | InvalidUnicodeCodePoint | ControlCharacterWhileParsingString | KeyMustBeAString
  | ExpectedNumericKey | FloatKeyMustBeFinite | LoneLeadingSurrogateInHexEscape
  | TrailingComma | TrailingCharacters | UnexpectedEndOfHexEscape | RecursionLimitExceeded.

Inductive cat := CatIo | CatSyntax | CatData | CatEof.

(* Outcome of every modelled function.
   [Err c i]: error code [c] positioned at byte index [i] (line/column = [pos_of input i]);
   Io errors carry index 0 (the code builds them with line 0, column 0).
   [OutOfFuel]: the explicit fuel ran out (excluded by every theorem through a fuel bound).
   [Panic]: stands for unwrap/unreachable!/index/arithmetic-overflow in the modelled code. *)
Inductive res (A : Type) :=
  | Ok (a : A)
  | Err (c : ecode) (idx : nat)
  | OutOfFuel
  | Panic.
Arguments Ok {A} a.
Arguments Err {A} c idx.
Arguments OutOfFuel {A}.
Arguments Panic {A}.

Definition bind {A B} (r : res A) (f : A -> res B) : res B :=
  match r with
  | Ok a => f a
  | Err c i => Err c i
  | OutOfFuel => OutOfFuel
  | Panic => Panic
  end.
Notation "'let*' x ':=' r 'in' k" := (bind r (fun x => k))
  (at level 200, x pattern, r at level 100, k at level 200, right associativity).

Definition rmap {A B} (f : A -> B) (r : res A) : res B := bind r (fun a => Ok (f a)).

(* line / column of a byte index: the function both SliceRead::position_of_index and
   LineColIterator must compute.  line = 1 + number of '\n' among the first i bytes,
   column = number of bytes after the last of those '\n'. *)
Fixpoint pos_go (l : bytes) (i : nat) (line col : N) : N * N :=
  match i, l with
  | O, _ => (line, col)
  | S i', [] => (line, col)
  | S i', b :: l' => if b =? 10 then pos_go l' i' (line + 1) 0 else pos_go l' i' line (col + 1)
  end.
Definition pos_of (input : bytes) (i : nat) : N * N := pos_go input i 1 0.

Definition u64_max : N := 18446744073709551615.
Definition i64_min_abs : N := 9223372036854775808.
