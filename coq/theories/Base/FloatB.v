(* Base/FloatB.v — IEEE-754 binary64/binary32 as Flocq BinarySingleNaN floats; executable. *)
From Coq Require Import ZArith NArith List Bool Lia.
From Flocq Require Import Core BinarySingleNaN.
Open Scope Z_scope.

#[export] Instance prec53_gt_0 : Prec_gt_0 53. Proof. reflexivity. Qed.
#[export] Instance prec53_lt_emax : Prec_lt_emax 53 1024. Proof. reflexivity. Qed.
#[export] Instance prec24_gt_0 : Prec_gt_0 24. Proof. reflexivity. Qed.
#[export] Instance prec24_lt_emax : Prec_lt_emax 24 128. Proof. reflexivity. Qed.

Definition b64 := binary_float 53 1024.
Definition b32 := binary_float 24 128.

Definition b64_of_Z (z : Z) : b64 := binary_normalize 53 1024 _ _ mode_NE z 0 false.
Definition b64_mul (x y : b64) : b64 := Bmult mode_NE x y.
Definition b64_div (x y : b64) : b64 := Bdiv mode_NE x y.
Definition b64_neg (x : b64) : b64 := Bopp x.
Definition b64_is_inf (x : b64) : bool := match x with B754_infinity _ => true | _ => false end.
Definition b64_is_zero (x : b64) : bool := match x with B754_zero _ => true | _ => false end.
Definition b64_is_finite (x : b64) : bool := is_finite x.

(* IEEE-754 binary64 bit pattern (NaN canonicalised to the quiet NaN 0x7ff8…) *)
Definition bits_of_b64 (x : b64) : N :=
  match x with
  | B754_zero s => if s then 9223372036854775808%N else 0%N
  | B754_infinity s => ((if s then 9223372036854775808 else 0) + 9218868437227405312)%N
  | B754_nan => 9221120237041090560%N
  | B754_finite s m e _ =>
      let sb := (if s then 9223372036854775808 else 0)%N in
      if (Zpos m <? 4503599627370496) then (sb + Npos m)%N
      else (sb + Z.to_N (e + 1075) * 4503599627370496 + (Npos m - 4503599627370496))%N
  end.

(* correctly rounded (nearest, ties to even) binary64 value of m * 10^e, m >= 0:
   exact big-integer arithmetic, quotient with >= 66 significant bits made odd when inexact
   (round to odd), then one rounding to nearest even. *)
Definition rne_decimal (m : Z) (e : Z) : b64 :=
  if m <=? 0 then B754_zero false
  else if 400 <? e then B754_infinity false
  else if e <? - (400 + Z.log2 m) then B754_zero false
  else if 0 <=? e then binary_normalize 53 1024 _ _ mode_NE (m * 10 ^ e) 0 false
  else
    let d := 10 ^ (- e) in
    let k := Z.max 0 (70 + Z.log2_up d - Z.log2 m) in
    let n := m * 2 ^ k in
    let q := n / d in
    let r := n mod d in
    let q' := if r =? 0 then q else if Z.even q then q + 1 else q in
    binary_normalize 53 1024 _ _ mode_NE q' (- k) false.

Definition b32_of_b64 (x : b64) : b32 :=
  match x with
  | B754_zero s => B754_zero s
  | B754_infinity s => B754_infinity s
  | B754_nan => B754_nan
  | B754_finite s m e _ => binary_normalize 24 128 _ _ mode_NE (if s then Zneg m else Zpos m) e s
  end.
Definition b64_of_b32 (x : b32) : b64 :=
  match x with
  | B754_zero s => B754_zero s
  | B754_infinity s => B754_infinity s
  | B754_nan => B754_nan
  | B754_finite s m e _ => binary_normalize 53 1024 _ _ mode_NE (if s then Zneg m else Zpos m) e s
  end.
