(* Base/Utf8.v — UTF-8 well-formedness (Unicode Table 3-7), what core::str::from_utf8 checks. *)
From SJ Require Import Base.Bytes.
Open Scope N_scope.

Definition in_rng (b lo hi : N) : bool := (lo <=? b) && (b <=? hi).
Definition is_cont (b : N) : bool := in_rng b 128 191.

Fixpoint utf8_valid (l : bytes) : bool :=
  match l with
  | [] => true
  | b0 :: r0 =>
    if b0 <? 128 then utf8_valid r0
    else match r0 with
    | [] => false
    | b1 :: r1 =>
      if in_rng b0 194 223 then is_cont b1 && utf8_valid r1
      else match r1 with
      | [] => false
      | b2 :: r2 =>
        if b0 =? 224 then in_rng b1 160 191 && is_cont b2 && utf8_valid r2
        else if in_rng b0 225 236 || in_rng b0 238 239 then is_cont b1 && is_cont b2 && utf8_valid r2
        else if b0 =? 237 then in_rng b1 128 159 && is_cont b2 && utf8_valid r2
        else match r2 with
        | [] => false
        | b3 :: r3 =>
          if b0 =? 240 then in_rng b1 144 191 && is_cont b2 && is_cont b3 && utf8_valid r3
          else if in_rng b0 241 243 then is_cont b1 && is_cont b2 && is_cont b3 && utf8_valid r3
          else if b0 =? 244 then in_rng b1 128 143 && is_cont b2 && is_cont b3 && utf8_valid r3
          else false
        end
      end
    end
  end.

(* UTF-8 encoding of a Unicode scalar value (used by specs). *)
Definition utf8_encode (n : N) : bytes :=
  if n <? 128 then [n]
  else if n <? 2048 then [N.lor (N.shiftr n 6) 192; N.lor (N.land n 63) 128]
  else if n <? 65536 then [N.lor (N.shiftr n 12) 224; N.lor (N.land (N.shiftr n 6) 63) 128; N.lor (N.land n 63) 128]
  else [N.lor (N.shiftr n 18) 240; N.lor (N.land (N.shiftr n 12) 63) 128;
        N.lor (N.land (N.shiftr n 6) 63) 128; N.lor (N.land n 63) 128].

Definition is_scalar (n : N) : bool := (n <? 55296) || ((57343 <? n) && (n <? 1114112)).
