(* Proofs/MapMStep.v — C17, histories: every operation of the Map model refines the reference dictionary
   (Spec/Dict.v), keeps keys distinct, keeps them ascending in the default configuration, and under
   preserve_order moves keys exactly as the order specification says. *)
From SJ Require Import Base.Bytes Model.Value Spec.Dict Model.MapM Proofs.MapMBase.
From Coq Require Import Sorting.Permutation Sorting.Sorted Lia.
Open Scope N_scope.

Notation keys := (map fst).

(* the invariant of the model state, and the simulation relation with the reference dictionary *)
Definition inv (po : bool) (m : mapstate) : Prop := NoDup (keys m) /\ (po = false -> ascending (keys m)).
Definition R (po : bool) (m : mapstate) (d : dict value) : Prop := inv po m /\ dict_wf d /\ dict_eq m d.

Lemma inv_of_ascending : forall po m, ascending (keys m) -> inv po m.
Proof. intros. split; auto. apply ascending_NoDup. assumption. Qed.
Lemma inv_po : forall m, NoDup (keys m) -> inv true m.
Proof. intros. split; auto. discriminate. Qed.

Lemma R_nil : forall po, R po [] [].
Proof. intro. split; [|split]. - split; [constructor|intros; constructor]. - constructor. - intro; reflexivity. Qed.

Lemma R_perm : forall po m d, R po m d -> Permutation m d.
Proof. intros po m d [[ND _] [W E]]. apply dict_eq_Permutation; assumption. Qed.
Lemma R_len : forall po m d, R po m d -> length m = length d.
Proof. intros. apply Permutation_length. eapply R_perm; eassumption. Qed.
Lemma R_get : forall po m d k, R po m d -> dict_get k m = dict_get k d.
Proof. intros po m d k [_ [_ E]]. apply E. Qed.

(* ---- insert *)
Lemma get_m_insert : forall po k v k' m,
  dict_get k' (m_insert po k v m) = if beq_bytes k' k then Some v else dict_get k' m.
Proof. intros. unfold m_insert, map_insert. destruct po; [apply get_ix_insert|apply get_bt_insert]. Qed.
Lemma inv_m_insert : forall po k v m, inv po m -> inv po (m_insert po k v m).
Proof.
  intros po k v m [ND A]. unfold m_insert, map_insert. destruct po.
  - apply inv_po. rewrite keys_ix_insert. apply NoDup_ord_insert. exact ND.
  - apply inv_of_ascending. apply ascending_bt_insert. auto.
Qed.
Lemma R_insert : forall po k v m d, R po m d -> R po (m_insert po k v m) (dict_insert k v d).
Proof.
  intros po k v m d [I [W E]]. split; [|split].
  - apply inv_m_insert. exact I.
  - apply dict_wf_insert. exact W.
  - intro k'.  rewrite get_m_insert, dict_get_insert. rewrite (E k'). reflexivity.
Qed.

(* ---- in-place update *)
Lemma R_update : forall po k g v0 m d, R po m d -> dict_get k d = Some v0 ->
  R po (al_update k g m) (dict_insert k (g v0) d).
Proof.
  intros po k g v0 m d [[ND A] [W E]] G. split; [|split].
  - split; rewrite keys_al_update; assumption.
  - apply dict_wf_insert. exact W.
  - intro k'.  rewrite get_al_update, dict_get_insert. rewrite (E k), G. cbn. rewrite (E k'). reflexivity.
Qed.

(* ---- removal *)
Lemma R_bt_remove : forall po k m d, R po m d -> R po (bt_remove k m) (dict_remove k d).
Proof.
  intros po k m d [[ND A] [W E]]. split; [|split].
  - split.
    + apply NoDup_keys_bt_remove. exact ND.
    + intro P. rewrite keys_bt_remove by exact ND. apply StronglySorted_filter. apply A. exact P.
  - apply dict_wf_remove. exact W.
  - intro k'.  rewrite get_bt_remove by exact ND. rewrite dict_get_remove. rewrite (E k'). reflexivity.
Qed.
Lemma R_ix_shift_remove : forall po k m d, R po m d -> R po (ix_shift_remove k m) (dict_remove k d).
Proof. intros. rewrite ix_shift_remove_bt_remove. apply R_bt_remove. assumption. Qed.
Lemma R_ix_swap_remove : forall k m d, R true m d -> R true (ix_swap_remove k m) (dict_remove k d).
Proof.
  intros k m d [[ND A] [W E]]. split; [|split].
  - apply inv_po. apply NoDup_keys_ix_swap_remove. exact ND.
  - apply dict_wf_remove. exact W.
  - intro k'.  rewrite get_ix_swap_remove by exact ND. rewrite dict_get_remove. rewrite (E k'). reflexivity.
Qed.
Lemma R_m_remove : forall po k m d, R po m d -> R po (m_remove po k m) (dict_remove k d).
Proof. intros. unfold m_remove. destruct po; [apply R_ix_swap_remove|apply R_bt_remove]; assumption. Qed.

(* ---- shift_insert *)
Lemma R_shift_insert : forall i k v m d, R true m d ->
  match ix_shift_insert i k v m with
  | Some m' => Nat.leb i (dict_size (dict_remove k d)) = true /\ R true m' (dict_insert k v d)
  | None => Nat.leb i (dict_size (dict_remove k d)) = false
  end.
Proof.
  intros i k v m d HR. pose proof HR as [[ND A] [W E]].
  pose proof (ix_shift_insert_spec _ i k v m ND) as S.
  assert (L : length (ord_shift_remove k (keys m)) = dict_size (dict_remove k d)).
  { rewrite <- keys_bt_remove by exact ND. rewrite map_length. unfold dict_size.
    eapply R_len. apply R_bt_remove. exact HR. }
  unfold ord_shift_insert_ok in S. rewrite L in S.
  destruct (ix_shift_insert i k v m) as [m'|]; [|exact S].
  destruct S as [S1 [S2 S3]]. split; [exact S1|].
  assert (NDr : NoDup (keys ((k, v) :: bt_remove k m))).
  { cbn. constructor; [|apply NoDup_keys_bt_remove; exact ND].
    rewrite keys_bt_remove by exact ND. rewrite In_ord_shift_remove. tauto. }
  assert (ND' : NoDup (keys m')).
  { eapply Permutation_NoDup; [apply Permutation_sym, Permutation_map; exact S3|exact NDr]. }
  split; [|split].
  - apply inv_po. exact ND'.
  - apply dict_wf_insert. exact W.
  - intro k'.  rewrite (Permutation_dict_eq _ _ _ ND' S3 k'). cbn [dict_get].
    rewrite dict_get_insert. destruct (beq_bytes k' k) eqn:B; auto.
    rewrite get_bt_remove by exact ND. rewrite B. apply E.
Qed.

(* ---- extend / append / collect *)
Lemma R_extend : forall po es m d, R po m d -> R po (m_extend po m es) (dict_insert_all es d).
Proof.
  intros po es. unfold m_extend, dict_insert_all.
  assert (G : forall m d, R po m d ->
            R po (fold_left (fun acc kv => m_insert po (fst kv) (snd kv) acc) es m)
                 (fold_left (fun acc e => dict_insert (fst e) (snd e) acc) es d)).
  { induction es as [|[k v] es IH]; intros m d H; cbn; auto. apply IH. apply R_insert. exact H. }
  intros m d H. specialize (G m d H). destruct po; exact G.
Qed.
Lemma map_of_entries_extend : forall po es, map_of_entries po es = m_extend po [] es.
Proof. intros. unfold map_of_entries, m_extend, ix_extend, bt_extend, map_insert. destruct po; reflexivity. Qed.
Lemma R_from_iter : forall po es, R po (map_of_entries po es) (dict_insert_all es []).
Proof. intros. rewrite map_of_entries_extend. apply R_extend. apply R_nil. Qed.

(* inserting a list of bindings: the last binding of a key wins *)
Lemma get_insert_all : forall A es (d : dict A) k,
  dict_get k (dict_insert_all es d) = match dict_get k (rev es) with Some v => Some v | None => dict_get k d end.
Proof.
  intros A es. unfold dict_insert_all. induction es as [|[k1 v1] es IH]; intros d k; cbn [fold_left rev fst snd]; auto.
  rewrite IH. rewrite dict_get_insert.
  assert (X : forall (l : dict A), dict_get k (l ++ [(k1, v1)]) = match dict_get k l with Some v => Some v | None => if beq_bytes k k1 then Some v1 else None end).
  { induction l as [|[k2 v2] l IHl]; cbn; auto. destruct (beq_bytes k k2); auto. }
  rewrite X. destruct (dict_get k (rev es)); auto. destruct (beq_bytes k k1); auto.
Qed.
Lemma R_append : forall po es m d, R po m d -> R po (m_append po m (map_of_entries po es)) (dict_insert_all es d).
Proof.
  intros po es m d H.
  assert (E : m_append po m (map_of_entries po es) = m_extend po m (map_of_entries po es)).
  { unfold m_append, m_extend, bt_append, bt_extend. destruct po; reflexivity. }
  rewrite E. pose proof (R_extend po (map_of_entries po es) m d H) as [I [W X]].
  split; [exact I|]. split.
  - clear -H. destruct H as [_ [W _]]. revert d W. unfold dict_insert_all.
    induction es as [|[k v] es IH]; intros d W; cbn; auto. apply IH. apply dict_wf_insert. exact W.
  - intro k. rewrite (X k). rewrite !get_insert_all.
    pose proof (R_from_iter po es) as RF. pose proof (R_perm _ _ _ RF) as P.
    destruct RF as [[ND _] [W0 E0]].
    assert (G : dict_get k (rev (map_of_entries po es)) = dict_get k (dict_insert_all es [])).
    { rewrite <- (E0 k).  symmetry. apply Permutation_dict_eq; [exact ND|apply Permutation_rev]. }
    rewrite G. rewrite get_insert_all. cbn [dict_get]. destruct (dict_get k (rev es)); reflexivity.
Qed.

(* ---- values_mut / iter_mut, retain, sort_keys *)
Lemma R_map_values : forall po g m d, R po m d -> R po (m_map_values g m) (dict_map g d).
Proof.
  intros po g m d [[ND A] [W E]]. split; [|split].
  - split; rewrite keys_m_map_values; assumption.
  - unfold dict_wf. rewrite keys_dict_map. exact W.
  - intro k.  change (m_map_values g m) with (dict_map g m). rewrite !dict_get_map. rewrite (E k). reflexivity.
Qed.
Lemma R_retain : forall po f m d, R po m d -> R po (m_retain f m) (dict_filter f d).
Proof.
  intros po f m d [[ND A] [W E]]. split; [|split].
  - split.
    + apply keys_filter. exact ND.
    + intro P. rewrite keys_m_retain by exact ND. apply StronglySorted_filter. apply A. exact P.
  - apply dict_wf_filter. exact W.
  - intro k.  change (m_retain f m) with (dict_filter f m).
    rewrite dict_get_filter by exact ND. rewrite dict_get_filter by exact W. rewrite (E k). reflexivity.
Qed.
Lemma R_sort : forall po m d, R po m d -> R po (m_sort_keys po m) d.
Proof.
  intros po m d H. unfold m_sort_keys. destruct po; [|exact H]. destruct H as [[ND A] [W E]].
  assert (ND' : NoDup (keys (sort_by_key m))).
  { eapply Permutation_NoDup; [apply Permutation_sym, Permutation_map, sort_by_key_perm|exact ND]. }
  split; [apply inv_po; exact ND'|]. split; [exact W|].
  intro k.  rewrite (Permutation_dict_eq _ _ _ ND' (sort_by_key_perm _ m) k). apply E.
Qed.

(* ------------------------------------------------------------------ one step *)
Lemma obs_agree_refl : forall o, obs_agree o o.
Proof. apply oa_same. Qed.
#[local] Hint Resolve obs_agree_refl R_insert R_update R_m_remove R_bt_remove R_ix_shift_remove R_ix_swap_remove
  R_extend R_append R_from_iter R_map_values R_retain R_sort R_nil : c17.

Lemma opt_pair_kv : forall k o, opt_pair k o = opt_kv k o.
Proof. reflexivity. Qed.

Lemma step_occ_sim : forall po k v0 m d oa, R po m d -> dict_get k d = Some v0 -> occ_avail po oa = true ->
  R po (fst (step_occ po k v0 m oa)) (fst (ref_occ k v0 d oa)) /\ snd (step_occ po k v0 m oa) = snd (ref_occ k v0 d oa).
Proof.
  intros po k v0 m d oa H G Av. destruct oa; cbn [step_occ ref_occ fst snd occ_avail] in *; subst; split; auto with c17.
  all: try (eapply R_update in H; [|exact G]; exact H).
Qed.
Lemma step_vac_sim : forall po k m d va, R po m d ->
  R po (fst (step_vac po k m va)) (fst (ref_vac k d va)) /\ snd (step_vac po k m va) = snd (ref_vac k d va).
Proof. intros po k m d va H. destruct va; cbn; split; auto with c17. Qed.

Lemma is_empty_len : forall A (m : list A), (match m with [] => true | _ => false end) = Nat.eqb (length m) 0.
Proof. destruct m; reflexivity. Qed.

Lemma step_sim : forall po m d o, R po m d ->
  R po (fst (step po m o)) (fst (ref_step po d o)) /\ obs_agree (snd (step po m o)) (snd (ref_step po d o)).
Proof.
  intros po m d o H. unfold step, ref_step. destruct (avail po o) eqn:Av; [|cbn; auto with c17].
  pose proof (R_perm _ _ _ H) as P. pose proof (R_len _ _ _ H) as L.
  destruct o; cbn [step_do ref_do avail] in *;
    rewrite ?al_get_dict_get, ?al_mem_dict_mem, ?opt_pair_kv; unfold dict_mem;
    try match goal with k : list N |- _ => rewrite ?(R_get po m d k H) end;
    try (cbn [fst snd]; split; auto with c17; fail).
  - (* GetMut *) destruct (dict_get k d) eqn:G; cbn [fst snd]; split; auto with c17.
    assert (E : al_update k g m = m).
    { clear -H G. destruct H as [_ [_ E]]. specialize (E k). rewrite G in E. clear G.
      induction m as [|[k1 v1] m IH]; cbn in *; auto. destruct (beq_bytes k k1); [discriminate|]. f_equal. auto. }
    rewrite E. exact H.
  - (* ShiftInsert *) subst po. pose proof (R_shift_insert i k v m d H) as S.
    destruct (ix_shift_insert i k v m) as [m'|].
    + destruct S as [S1 S2]. rewrite S1. cbn [fst snd]. split; auto with c17.
    + rewrite S. cbn [fst snd]. split; auto with c17.
  - (* SwapRemove *) subst po. cbn [fst snd]. split; auto with c17.
  - (* SwapRemoveEntry *) subst po. cbn [fst snd]. split; auto with c17.
  - (* EntryOrInsert *) destruct (dict_get k d) eqn:G; cbn [fst snd]; split; auto with c17.
  - (* EntryOrInsertWith *) destruct (dict_get k d) eqn:G; cbn [fst snd]; split; auto with c17.
  - (* EntryAndModify *) destruct (dict_get k d) eqn:G; cbn [fst snd]; split; auto with c17.
    all: try (eapply R_update in H; [|exact G]; exact H).
  - (* EntryAndModifyOrInsert *) destruct (dict_get k d) eqn:G; cbn [fst snd]; split; auto with c17.
    all: try (eapply R_update in H; [|exact G]; exact H).
  - (* EntryMatch *) destruct (dict_get k d) eqn:G.
    + pose proof (step_occ_sim po k v m d oa H G Av) as [S1 S2].
      destruct (step_occ po k v m oa) as [m' r]. destruct (ref_occ k v d oa) as [d' r']. cbn [fst snd] in *. subst. split; auto with c17.
    + pose proof (step_vac_sim po k m d va H) as [S1 S2].
      destruct (step_vac po k m va) as [m' r]. destruct (ref_vac k d va) as [d' r']. cbn [fst snd] in *. subst. split; auto with c17.
  - (* Len *) cbn [fst snd]. split; auto. unfold dict_size. rewrite L. apply oa_same.
  - (* IsEmpty *) cbn [fst snd]. split; auto. unfold dict_size. rewrite is_empty_len, L. apply oa_same.
  - (* Iter *) cbn [fst snd]. split; auto. apply oa_entries. exact P.
  - (* IterRev *) cbn [fst snd]. split; auto. apply oa_entries. eapply Permutation_trans; [apply Permutation_sym, Permutation_rev|exact P].
  - (* Keys *) cbn [fst snd]. split; auto. apply oa_keys. apply Permutation_map. exact P.
  - (* KeysRev *) cbn [fst snd]. split; auto. apply oa_keys. eapply Permutation_trans; [apply Permutation_sym, Permutation_rev|apply Permutation_map; exact P].
  - (* Values *) cbn [fst snd]. split; auto. apply oa_vals. apply Permutation_map. exact P.
  - (* ValuesRev *) cbn [fst snd]. split; auto. apply oa_vals. eapply Permutation_trans; [apply Permutation_sym, Permutation_rev|apply Permutation_map; exact P].
  - (* IntoIter *) cbn [fst snd]. split; auto. apply oa_entries. exact P.
  - (* IntoValues *) cbn [fst snd]. split; auto. apply oa_vals. apply Permutation_map. exact P.
  - (* Retain *) cbn [fst snd]. split; auto with c17. apply oa_keys. apply Permutation_map. exact P.
  - (* Index *) destruct (dict_get k d) eqn:G; cbn [fst snd]; split; auto with c17.
  - (* IndexMut *) destruct (dict_get k d) eqn:G; cbn [fst snd]; split; auto with c17.
    all: try (eapply (R_update po k (fun _ => v)) in H; [|exact G]; exact H).
Qed.

(* ------------------------------------------------------------------ histories *)
Lemma run_cons : forall po m o ops,
  run po m (o :: ops) = (fst (run po (fst (step po m o)) ops), snd (step po m o) :: snd (run po (fst (step po m o)) ops)).
Proof. intros. cbn [run]. destruct (step po m o) as [m1 ob]. cbn [fst snd]. destruct (run po m1 ops). reflexivity. Qed.
Lemma ref_run_cons : forall po d o ops,
  ref_run po d (o :: ops) = (fst (ref_run po (fst (ref_step po d o)) ops), snd (ref_step po d o) :: snd (ref_run po (fst (ref_step po d o)) ops)).
Proof. intros. cbn [ref_run]. destruct (ref_step po d o) as [d1 ob]. cbn [fst snd]. destruct (ref_run po d1 ops). reflexivity. Qed.

Lemma run_sim : forall po ops m d, R po m d ->
  R po (fst (run po m ops)) (fst (ref_run po d ops)) /\ Forall2 obs_agree (snd (run po m ops)) (snd (ref_run po d ops)).
Proof.
  induction ops as [|o ops IH]; intros m d H.
  - cbn. split; [exact H|constructor].
  - rewrite run_cons, ref_run_cons. cbn [fst snd]. destruct (step_sim po m d o H) as [H1 H2].
    destruct (IH _ _ H1) as [H3 H4]. split; [exact H3|]. constructor; assumption.
Qed.

(* C17_refines: after any history, in both configurations, the Map's contents are the reference dictionary's
   (same answer to every lookup, same length, the entries a permutation of the dictionary's bindings), and every
   operation returned what the dictionary says (entry sequences compared as sets: [obs_agree]). *)
Theorem refines : forall po ops,
  dict_eq (abs (fst (run po m_init ops))) (fst (ref_run po [] ops))
  /\ m_len (fst (run po m_init ops)) = dict_size (fst (ref_run po [] ops))
  /\ Permutation (m_iter (fst (run po m_init ops))) (fst (ref_run po [] ops))
  /\ Forall2 obs_agree (snd (run po m_init ops)) (snd (ref_run po [] ops)).
Proof.
  intros po ops. destruct (run_sim po ops m_init [] (R_nil po)) as [H1 H2].
  split; [apply H1|]. split; [eapply R_len; exact H1|]. split; [eapply R_perm; exact H1|exact H2].
Qed.

Theorem no_dup : forall po ops, NoDup (m_keys (fst (run po m_init ops))).
Proof. intros po ops. destruct (run_sim po ops m_init [] (R_nil po)) as [[[ND _] _] _]. exact ND. Qed.

Theorem order_sorted : forall po ops, po = false -> ascending (m_keys (fst (run po m_init ops))).
Proof. intros po ops E. destruct (run_sim po ops m_init [] (R_nil po)) as [[[_ A] _] _]. apply A. exact E. Qed.

(* ------------------------------------------------------------------ order under preserve_order *)
Lemma ord_insert_present : forall k ks, In k ks -> ord_insert k ks = ks.
Proof. intros. unfold ord_insert. apply key_mem_In in H. rewrite H. reflexivity. Qed.
Lemma keys_ix_extend : forall es (m : mapstate), keys (ix_extend m es) = ord_insert_all (keys es) (keys m).
Proof.
  unfold ix_extend, ord_insert_all. induction es as [|[k v] es IH]; intro m; cbn [fold_left map fst snd]; auto.
  rewrite IH. rewrite keys_ix_insert. reflexivity.
Qed.
Lemma In_ord_insert : forall k x ks, In x ks -> In x (ord_insert k ks).
Proof. intros. unfold ord_insert. destruct (key_mem k ks); auto. apply in_or_app. left. assumption. Qed.
Lemma In_ord_insert_all : forall l x ks, In x ks -> In x (ord_insert_all l ks).
Proof.
  unfold ord_insert_all. induction l as [|k l IH]; intros x ks H; cbn; auto. apply IH. apply In_ord_insert. exact H.
Qed.
Lemma ord_insert_all_app : forall l1 l2 ks, ord_insert_all (l1 ++ l2) ks = ord_insert_all l2 (ord_insert_all l1 ks).
Proof. intros. unfold ord_insert_all. apply fold_left_app. Qed.
Lemma ord_insert_all_insert : forall x acc ks,
  ord_insert_all (ord_insert x acc) ks = ord_insert x (ord_insert_all acc ks).
Proof.
  intros x acc ks. unfold ord_insert at 1. destruct (key_mem x acc) eqn:M.
  - symmetry. apply ord_insert_present.
    assert (G : forall l ks', In x l -> In x (ord_insert_all l ks')).
    { unfold ord_insert_all. induction l as [|y l IHl]; intros ks' H; cbn; [contradiction|].
      destruct H as [->|H]; [|apply IHl; exact H].
      apply In_ord_insert_all. unfold ord_insert. destruct (key_mem x ks') eqn:M2.
      - apply key_mem_In. exact M2.
      - apply in_or_app. right. left. reflexivity. }
    apply G. apply key_mem_In. exact M.
  - rewrite ord_insert_all_app. reflexivity.
Qed.
(* inserting the keys of a list, or the keys of the Map collected from that list, has the same effect *)
Lemma ord_insert_all_dedup : forall l acc ks,
  ord_insert_all (ord_insert_all l acc) ks = ord_insert_all l (ord_insert_all acc ks).
Proof.
  induction l as [|x l IH]; intros acc ks; [reflexivity|].
  change (ord_insert_all (x :: l) acc) with (ord_insert_all l (ord_insert x acc)).
  change (ord_insert_all (x :: l) (ord_insert_all acc ks)) with (ord_insert_all l (ord_insert x (ord_insert_all acc ks))).
  rewrite IH. rewrite ord_insert_all_insert. reflexivity.
Qed.
Lemma keys_map_of_entries_po : forall es : list (bytes * value), keys (map_of_entries true es) = ord_insert_all (keys es) [].
Proof. intro es. rewrite map_of_entries_extend. unfold m_extend. apply (keys_ix_extend es []). Qed.

Lemma ord_occ_step : forall k v0 m oa, NoDup (keys m) ->
  keys (fst (step_occ true k v0 m oa)) = ord_occ k (keys m) oa.
Proof.
  intros k v0 m oa ND. destruct oa; cbn [step_occ ord_occ fst m_remove];
    rewrite ?keys_al_update, ?keys_ix_swap_remove, ?ix_shift_remove_bt_remove, ?keys_bt_remove by exact ND; reflexivity.
Qed.

Lemma step_ord : forall m d o, R true m d -> keys (fst (step true m o)) = ord_step d (keys m) o.
Proof.
  intros m d o H. pose proof H as [[ND _] [W E]]. unfold step.
  assert (Av : avail true o = true) by (destruct o; try reflexivity; cbn; destruct oa; reflexivity).
  rewrite Av.
  destruct o; cbn [step_do ord_step fst m_insert m_remove m_append m_extend m_sort_keys map_insert];
    rewrite ?al_get_dict_get, ?keys_al_update, ?keys_ix_insert, ?keys_ix_swap_remove, ?ix_shift_remove_bt_remove,
            ?keys_ix_extend, ?keys_m_map_values, ?keys_sort_by_key;
    try reflexivity.
  - (* ShiftInsert *) pose proof (ix_shift_insert_spec _ i k v m ND) as S.
    destruct (ix_shift_insert i k v m) as [m'|].
    + destruct S as [S1 [S2 _]]. rewrite S1. exact S2.
    + rewrite S. reflexivity.
  - (* ShiftRemove *) apply keys_bt_remove. exact ND.
  - (* ShiftRemoveEntry *) apply keys_bt_remove. exact ND.
  - (* Append *) rewrite keys_map_of_entries_po. rewrite ord_insert_all_dedup. reflexivity.
  - (* FromIter *) apply keys_map_of_entries_po.
  - (* EntryOrInsert *) destruct (dict_get k m) eqn:G; cbn [fst m_insert map_insert].
    + symmetry. apply ord_insert_present. apply dict_get_In in G. apply (in_map fst) in G. exact G.
    + apply keys_ix_insert.
  - (* EntryOrInsertWith *) destruct (dict_get k m) eqn:G; cbn [fst m_insert map_insert].
    + symmetry. apply ord_insert_present. apply dict_get_In in G. apply (in_map fst) in G. exact G.
    + apply keys_ix_insert.
  - (* EntryAndModify *) destruct (dict_get k m); cbn [fst]; rewrite ?keys_al_update; reflexivity.
  - (* EntryAndModifyOrInsert *) destruct (dict_get k m) eqn:G; cbn [fst m_insert map_insert].
    + rewrite keys_al_update. symmetry. apply ord_insert_present. apply dict_get_In in G. apply (in_map fst) in G. exact G.
    + apply keys_ix_insert.
  - (* EntryMatch *) rewrite <- dict_mem_key_mem. unfold dict_mem. destruct (dict_get k m) eqn:G.
    + pose proof (ord_occ_step k v m oa ND) as X. destruct (step_occ true k v m oa) as [m' r]. exact X.
    + destruct va; cbn [step_vac fst m_insert map_insert]; [reflexivity|apply keys_ix_insert].
  - (* Retain *) rewrite keys_m_retain by exact ND. apply filter_ext. intro k. rewrite (E k). reflexivity.
  - (* Index *) destruct (dict_get k m); reflexivity.
  - (* IndexMut *) destruct (dict_get k m); cbn [fst]; rewrite ?keys_al_update; reflexivity.
Qed.

Lemma run_ord : forall ops m d, R true m d -> keys (fst (run true m ops)) = ord_run d (keys m) ops.
Proof.
  induction ops as [|o ops IH]; intros m d H; [reflexivity|].
  rewrite run_cons. cbn [fst ord_run]. destruct (step_sim true m d o H) as [H1 _].
  rewrite (IH _ _ H1). rewrite (step_ord m d o H). reflexivity.
Qed.

(* C17_order_insertion: under preserve_order the iteration order after any history is the one the order
   specification computes from the key sequence alone: insertion order, an existing key keeps its slot,
   swap removals move the last key into the hole, shift removals / shift_insert shift, sort_keys sorts. *)
Theorem order_insertion : forall ops, m_keys (fst (run true m_init ops)) = ord_run [] [] ops.
Proof. intro ops. apply (run_ord ops m_init [] (R_nil true)). Qed.

(* the entries are the reference dictionary's bindings read in that order *)
Theorem order_insertion_entries : forall ops,
  m_iter (fst (run true m_init ops))
  = map (fun k => (k, match dict_get k (fst (ref_run true [] ops)) with Some v => v | None => VNull end)) (ord_run [] [] ops).
Proof.
  intro ops. rewrite <- order_insertion. destruct (run_sim true ops m_init [] (R_nil true)) as [[[ND _] [_ E]] _].
  unfold m_iter, m_keys. set (m := fst (run true m_init ops)) in *. set (d := fst (ref_run true [] ops)) in *.
  rewrite map_map. rewrite <- (map_id m) at 1. apply map_ext_in. intros [k v] Hin. cbn [fst].
  rewrite <- (E k). rewrite (In_dict_get _ k v m ND Hin). reflexivity.
Qed.

Print Assumptions refines.
Print Assumptions no_dup.
Print Assumptions order_sorted.
Print Assumptions order_insertion.
Print Assumptions order_insertion_entries.
