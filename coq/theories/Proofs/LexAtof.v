(* Proofs/LexAtof.v — the two exact big-integer procedures of bhcomp.rs, large_atof and small_atof (Model/Lex.v, both float
   kinds), reduced to "the encoding of the float below plus the rounding decision":

     rne_bits k x M E  :=  min (encZ k M E + dec, INFINITY_BITS k)   with dec decided by comparing x with (2M+1) * 2^(E-1)

     large_atof_spec   large_atof k mantissa s  (s >= 0)  =  rne_bits k x q E  for a canonical bracket (q, E) of x = mantissa * 10^s
     small_atof_spec   small_atof k mantissa s b  (s < 0) =  rne_bits k x M E  for (M, E) the significand/exponent of b,
                       WITHOUT any hypothesis relating b to x: small_atof only looks at the halfway point above b

   The link from rne_bits to the oracle (rne_decimal) is made in LexBh.v through LexRnd.oracle64_bracket. *)
From Coq Require Import ZArith NArith Reals Lia Lra List Bool Psatz.
From Flocq Require Import Core BinarySingleNaN.
From SJ Require Import Base.Bytes Base.FloatB Gen.LexTables Model.Read Model.Num Model.Lex.
From SJ Require Import Proofs.FloatDefault Proofs.FloatOracle Proofs.LexExt Proofs.LexRnd Proofs.LexBits.
Open Scope Z_scope.

Ltac Zify.zify_post_hook ::= Z.to_euclidean_division_equations.

(* ------------------------------------------------------------------ *)
(** * brackets over the reals *)
Definition in_ulp (x : R) (m e : Z) : Prop := (IZR m * bpow radix2 e <= x < IZR (m + 1) * bpow radix2 e)%R.

Lemma bpow_plus_IZR (e s : Z) : 0 <= s -> bpow radix2 (e + s) = (IZR (2 ^ s) * bpow radix2 e)%R.
Proof. intros Hs. rewrite bpow_plus, (bpow_IZR s) by exact Hs. ring. Qed.

Lemma in_ulp_coarsen (x : R) (m e s : Z) : 0 <= s -> in_ulp x m e -> in_ulp x (m / 2 ^ s) (e + s).
Proof.
  intros Hs (Hlo & Hhi). unfold in_ulp. rewrite bpow_plus_IZR by exact Hs.
  assert (Hp : 0 < 2 ^ s) by (apply pow2_pos; exact Hs).
  pose proof (bpow_gt_0 radix2 e) as Hb.
  rewrite <- !Rmult_assoc, <- !mult_IZR. split.
  - apply Rle_trans with (2 := Hlo). apply Rmult_le_compat_r; [lra|]. apply IZR_le.
    pose proof (Z.mul_div_le m (2 ^ s) Hp). lia.
  - apply Rlt_le_trans with (1 := Hhi). apply Rmult_le_compat_r; [lra|]. apply IZR_le.
    pose proof (Z.mul_succ_div_gt m (2 ^ s) Hp). lia.
Qed.

(* the halfway test on the s dropped bits, with a sticky flag for what lies below m *)
Lemma mid_compare (x : R) (m e s : Z) (sticky : bool) : 1 <= s -> in_ulp x m e ->
  (sticky = false <-> x = (IZR m * bpow radix2 e)%R) ->
  let q := m / 2 ^ s in let r := m mod 2 ^ s in
  Rcompare x (IZR (2 * q + 1) * bpow radix2 (e + s - 1)) =
  match Z.compare r (2 ^ (s - 1)) with Lt => Lt | Gt => Gt | Eq => if sticky then Gt else Eq end.
Proof.
  intros Hs (Hlo & Hhi) Hst q r.
  replace (e + s - 1) with (e + (s - 1)) by lia. rewrite bpow_plus_IZR by lia.
  rewrite <- Rmult_assoc, <- mult_IZR.
  assert (Hp : 0 < 2 ^ s) by (apply pow2_pos; lia).
  assert (H2 : 2 ^ s = 2 * 2 ^ (s - 1)) by (rewrite <- Z.pow_succ_r by lia; f_equal; lia).
  assert (Hm : (2 * q + 1) * 2 ^ (s - 1) = m - r + 2 ^ (s - 1)).
  { unfold q, r. pose proof (Z.div_mod m (2 ^ s) ltac:(lia)). lia. }
  rewrite Hm. pose proof (bpow_gt_0 radix2 e) as Hb.
  destruct (Z.compare_spec r (2 ^ (s - 1))) as [Hc|Hc|Hc].
  - rewrite Hc. replace (m - 2 ^ (s - 1) + 2 ^ (s - 1)) with m by lia.
    destruct sticky.
    + apply Rcompare_Gt. destruct (Req_dec x (IZR m * bpow radix2 e)) as [He|He]; [|lra].
      apply Hst in He. discriminate He.
    + apply Rcompare_Eq. apply Hst. reflexivity.
  - apply Rcompare_Lt. apply Rlt_le_trans with (1 := Hhi). apply Rmult_le_compat_r; [lra|]. apply IZR_le. lia.
  - apply Rcompare_Gt. apply Rlt_le_trans with (2 := Hlo). apply Rmult_lt_compat_r; [lra|]. apply IZR_lt. lia.
Qed.

(* ------------------------------------------------------------------ *)
(** * the specification value *)
Definition rne_bits (k : fkind) (x : R) (M E : Z) : N :=
  Z.to_N (Z.min (encZ k M E + dec_of (Rcompare x (IZR (2 * M + 1) * bpow radix2 (E - 1))) M) (Z.of_N (INFINITY_BITS k))).

(* ------------------------------------------------------------------ *)
(** * normalize on a normalised value *)
Lemma ef_normalize_id (m : N) (e : Z) : (9223372036854775808 <= m < two64N)%N -> ef_normalize (mkEF m e) = (mkEF m e, 0).
Proof.
  intros Hm. unfold ef_normalize. cbn [mant].
  replace (N.eqb m 0) with false by (symmetry; apply N.eqb_neq; lia).
  assert (Hl : N.log2 m = 63%N).
  { unfold two64N in Hm. apply N.log2_unique; [lia|]. change (2 ^ 63)%N with 9223372036854775808%N.
    change (2 ^ N.succ 63)%N with 18446744073709551616%N. lia. }
  unfold clz64. rewrite Hl. change (63 - Z.of_N 63) with 0. unfold shl. cbn [mant exp].
  change (Z.to_N 0) with 0%N. rewrite N.shiftl_0_r. rewrite N.mod_small by lia. f_equal. f_equal. lia.
Qed.

Lemma round_to_float_carry (k : fkind) (alg : efloat -> Z -> efloat) (fp : efloat) :
  round_to_float k alg fp =
  carry_fix k (if exp fp + DEFAULT_SHIFT k <? DENORMAL_EXPONENT k
               then (if DENORMAL_EXPONENT k - exp fp <=? 64 then alg fp (DENORMAL_EXPONENT k - exp fp) else mkEF 0%N 0)
               else alg fp (DEFAULT_SHIFT k)).
Proof. reflexivity. Qed.

(* ------------------------------------------------------------------ *)
(** * the custom rounding of large_atof *)
Lemma bh_round_spec (sticky : bool) (m : N) (e s : Z) : (m < two64N)%N -> 1 <= s <= 64 ->
  let q := Z.of_N m / 2 ^ s in let r := Z.of_N m mod 2 ^ s in
  let c := match Z.compare r (2 ^ (s - 1)) with Lt => Lt | Gt => Gt | Eq => if sticky then Gt else Eq end in
  bh_round_nearest_tie_even sticky (mkEF m e) s = mkEF (Z.to_N (q + dec_of c q)) (e + s).
Proof.
  intros Hm Hs q r c. unfold bh_round_nearest_tie_even.
  rewrite round_nearest_spec by (cbn [mant]; lia). cbn [mant exp].
  set (qn := (m / 2 ^ Z.to_N s)%N). set (rn := (m mod 2 ^ Z.to_N s)%N). set (hn := (2 ^ Z.to_N (s - 1))%N).
  assert (Hq : Z.of_N qn = q).
  { unfold qn, q. rewrite N2Z.inj_div, N2Z.inj_pow, Z2N.id by lia. reflexivity. }
  assert (Hr : Z.of_N rn = r).
  { unfold rn, r. rewrite N2Z.inj_mod, N2Z.inj_pow, Z2N.id by lia. reflexivity. }
  assert (Hh : Z.of_N hn = 2 ^ (s - 1)).
  { unfold hn. rewrite N2Z.inj_pow, Z2N.id by lia. reflexivity. }
  assert (Hq0 : 0 <= q) by (apply Z.div_pos; [lia|apply pow2_pos; lia]).
  rewrite !tie_even_spec. cbn [mant exp]. rewrite Hq.
  unfold c, dec_of. rewrite <- Hr, <- Hh. rewrite <- Z.negb_even.
  clear c. clearbody qn rn hn q r. clear Hr Hh Hm Hs.
  destruct (Z.compare_spec (Z.of_N rn) (Z.of_N hn)) as [Hc|Hc|Hc].
  - replace (rn =? hn)%N with true by (symmetry; apply N.eqb_eq; lia).
    replace (hn <? rn)%N with false by (symmetry; apply N.ltb_ge; lia).
    destruct sticky; cbn [andb orb].
    + f_equal. lia.
    + rewrite andb_true_r. destruct (Z.even q); cbn [negb]; f_equal; lia.
  - replace (rn =? hn)%N with false by (symmetry; apply N.eqb_neq; lia).
    replace (hn <? rn)%N with false by (symmetry; apply N.ltb_ge; lia).
    cbn [andb orb]. rewrite andb_false_r. f_equal. lia.
  - replace (rn =? hn)%N with false by (symmetry; apply N.eqb_neq; lia).
    replace (hn <? rn)%N with true by (symmetry; apply N.ltb_lt; lia).
    cbn [andb orb]. f_equal. lia.
Qed.

(* ------------------------------------------------------------------ *)
(** * large_atof *)
Lemma big_hi64_real (z : Z) : 0 < z ->
  let m := fst (big_hi64 z) in let sticky := snd (big_hi64 z) in let e := big_bit_length z - 64 in
  (9223372036854775808 <= m < two64N)%N /\ -63 <= e /\
  in_ulp (IZR z) (Z.of_N m) e /\ (sticky = false <-> IZR z = (IZR (Z.of_N m) * bpow radix2 e)%R).
Proof.
  intros Hz. pose proof (big_hi64_spec z Hz) as H. destruct (big_hi64 z) as (m, sticky). cbn [fst snd]. cbv zeta in H.
  destruct H as (Hm & Hsmall & Hbig).
  set (bl := big_bit_length z) in *.
  assert (Hbl : 1 <= bl).
  { unfold bl, big_bit_length. replace (z =? 0) with false by (symmetry; apply Z.eqb_neq; lia).
    pose proof (Z.log2_nonneg z). lia. }
  split; [unfold two64N; change (2 ^ 63) with 9223372036854775808 in Hm; change (2 ^ 64) with 18446744073709551616 in Hm; lia|].
  split; [lia|].
  destruct (Z.le_gt_cases bl 64) as [Hle|Hgt].
  - destruct (Hsmall Hle) as (Hv & Hs).
    assert (HR : IZR z = (IZR (Z.of_N m) * bpow radix2 (bl - 64))%R).
    { rewrite Hv, mult_IZR, <- (bpow_IZR (64 - bl)) by lia. rewrite Rmult_assoc, <- bpow_plus.
      replace (64 - bl + (bl - 64)) with 0 by lia. cbn [bpow]. ring. }
    split.
    + unfold in_ulp. rewrite <- HR. split; [apply Rle_refl|].
      rewrite plus_IZR, Rmult_plus_distr_r, <- HR. pose proof (bpow_gt_0 radix2 (bl - 64)). lra.
    + split; [intros _; exact HR|intros _; exact Hs].
  - destruct (Hbig Hgt) as (Hv & Hs). set (kk := bl - 64) in *.
    assert (Hp : 0 < 2 ^ kk) by (apply pow2_pos; lia).
    pose proof (Z.div_mod z (2 ^ kk) ltac:(lia)) as Hdm.
    pose proof (Z.mod_pos_bound z (2 ^ kk) Hp) as Hrb.
    split.
    + unfold in_ulp. rewrite (bpow_IZR kk) by lia. rewrite <- !mult_IZR. split; [apply IZR_le|apply IZR_lt]; rewrite Hv; lia.
    + rewrite (bpow_IZR kk) by lia. rewrite <- mult_IZR. rewrite Hs. split.
      * intros H0. f_equal. rewrite Hv. lia.
      * intros H0. apply eq_IZR in H0. rewrite Hv in H0. lia.
Qed.

Theorem large_atof_spec : forall (k : fkind) (mantissa s : Z), 0 < mantissa -> 0 <= s ->
  exists q E : Z,
    let x := IZR (mantissa * 10 ^ s) in
    2 ^ MANTISSA_SIZE k <= q < 2 ^ prec k /\ DENORMAL_EXPONENT k <= E /\ in_ulp x q E /\
    large_atof k mantissa s = rne_bits k x q E.
Proof.
  intros k mantissa s Hm Hs.
  assert (Hz : 0 < mantissa * 10 ^ s) by (pose proof (pow10_pos s Hs); nia).
  set (z := mantissa * 10 ^ s) in *.
  pose proof (big_hi64_real z Hz) as H. cbv zeta in H. destruct H as (Hmr & He & Hin & Hst).
  unfold large_atof. fold z. destruct (big_hi64 z) as (m, sticky) eqn:Hbh. cbn [fst snd] in *.
  set (e := big_bit_length z - 64) in *.
  destruct (masks_shape k) as (_ & _ & _ & _ & _ & HDS & _ & _).
  set (ds := DEFAULT_SHIFT k) in *.
  assert (Hds : 1 <= ds <= 64 /\ ds = 64 - prec k /\ DENORMAL_EXPONENT k <= -63 + ds) by (unfold ds; destruct k; kconst; lia).
  destruct Hds as (Hds & Hdp & Hde).
  exists (Z.of_N m / 2 ^ ds), (e + ds). cbv zeta.
  assert (Hq : 2 ^ MANTISSA_SIZE k <= Z.of_N m / 2 ^ ds < 2 ^ prec k).
  { unfold two64N in Hmr. unfold ds. destruct k; kconst;
      change (2 ^ 11) with 2048; change (2 ^ 40) with 1099511627776;
      change (2 ^ 52) with 4503599627370496; change (2 ^ (52 + 1)) with 9007199254740992;
      change (2 ^ 23) with 8388608; change (2 ^ (23 + 1)) with 16777216; lia. }
  split; [exact Hq|]. split; [lia|]. split; [apply in_ulp_coarsen; [lia|exact Hin]|].
  unfold round_to_native. rewrite ef_normalize_id by exact Hmr. cbn [fst].
  rewrite round_to_float_carry. cbn [exp]. fold ds.
  replace (e + ds <? DENORMAL_EXPONENT k) with false by (symmetry; apply Z.ltb_ge; lia).
  rewrite bh_round_spec by (unfold two64N in *; lia). cbv zeta.
  rewrite <- (mid_compare (IZR z) (Z.of_N m) e ds sticky ltac:(lia) Hin Hst).
  set (d := dec_of (Rcompare (IZR z) (IZR (2 * (Z.of_N m / 2 ^ ds) + 1) * bpow radix2 (e + ds - 1))) (Z.of_N m / 2 ^ ds)).
  assert (Hd : 0 <= d <= 1) by apply dec_of_range.
  set (q := Z.of_N m / 2 ^ ds) in *.
  rewrite finish_spec.
  - unfold rne_bits. fold d. rewrite Z2N.id by lia. f_equal. f_equal.
    unfold encZ. destruct (Z.ltb_spec q (2 ^ MANTISSA_SIZE k)); destruct (Z.ltb_spec (q + d) (2 ^ MANTISSA_SIZE k)); lia.
  - rewrite Z2N.id by lia. lia.
  - lia.
  - right. rewrite Z2N.id by lia. lia.
Qed.

(* ------------------------------------------------------------------ *)
(** * small_atof *)
Lemma round_positive_even_spec (k : fkind) (b : N) :
  f_round_positive_even k b = (b + if Z.even (Z.of_N (f_mantissa k b)) then 0 else 1)%N.
Proof.
  unfold f_round_positive_even, f_next_positive. rewrite land_1_odd, <- Z.negb_even.
  destruct (Z.even (Z.of_N (f_mantissa k b))); cbn [negb]; lia.
Qed.

(* the integer comparison of small_atof is the comparison of the reals *)
Lemma small_compare (mantissa s T E' : Z) : s < 0 ->
  Z.compare (mantissa * 2 ^ Z.max 0 (s - E')) (T * 5 ^ (- s) * 2 ^ Z.max 0 (E' - s)) =
  Rcompare (IZR mantissa * powerRZ 10 s) (IZR T * bpow radix2 E').
Proof.
  intros Hs. rewrite dcmp_spec. unfold dcmp.
  rewrite (Z.max_r s 0) by lia. rewrite (Z.max_l (- s) 0) by lia. change (10 ^ 0) with 1.
  replace (10 ^ (- s)) with (5 ^ (- s) * 2 ^ (- s)) by (rewrite <- Z.pow_mul_l; reflexivity).
  set (n := - s) in *. assert (Hn : 0 < n) by lia.
  (* both comparisons are the same inequality, the second one multiplied by 2^t *)
  set (t := Z.max (- E') 0 - Z.max 0 (s - E')).
  assert (Ht : 0 <= t) by (unfold t; lia).
  assert (HC : 2 ^ Z.max (- E') 0 = 2 ^ Z.max 0 (s - E') * 2 ^ t).
  { rewrite <- Z.pow_add_r by lia. f_equal. unfold t. lia. }
  assert (HD : 2 ^ Z.max E' 0 * 2 ^ n = 2 ^ Z.max 0 (E' - s) * 2 ^ t).
  { rewrite <- !Z.pow_add_r by lia. f_equal. unfold t, n. lia. }
  set (A := 2 ^ Z.max 0 (s - E')) in *. set (B := 2 ^ Z.max 0 (E' - s)) in *.
  set (F := 5 ^ n). set (P := 2 ^ n) in *.
  replace (mantissa * 1 * 2 ^ Z.max (- E') 0) with (mantissa * A * 2 ^ t) by (rewrite HC; ring).
  replace (T * 2 ^ Z.max E' 0 * (F * P)) with (T * F * B * 2 ^ t)
    by (replace (T * 2 ^ Z.max E' 0 * (F * P)) with (T * F * (2 ^ Z.max E' 0 * P)) by ring; rewrite HD; ring).
  apply Zmult_compare_compat_r. pose proof (pow2_pos t Ht). lia.
Qed.

Theorem small_atof_spec : forall (k : fkind) (mantissa s : Z) (b : N),
  s < 0 -> 0 <= mantissa -> (b < INFINITY_BITS k)%N ->
  small_atof k mantissa s b =
  rne_bits k (IZR mantissa * powerRZ 10 s) (Z.of_N (f_mantissa k b)) (f_exponent k b).
Proof.
  intros k mantissa s b Hs Hm Hb.
  destruct (fbits_decode k b Hb) as (HM & HE & Hcan & Henc & _).
  rewrite small_atof_decides by assumption. cbv zeta.
  unfold bh_extended, b_extended, ef_from_float. cbn [mant exp].
  set (M := Z.of_N (f_mantissa k b)) in *. set (E := f_exponent k b) in *.
  replace (Z.of_N (f_mantissa k b * 2 + 1)) with (2 * M + 1) by (unfold M; lia).
  rewrite small_compare by exact Hs.
  unfold rne_bits. rewrite Henc.
  set (c := Rcompare (IZR mantissa * powerRZ 10 s) (IZR (2 * M + 1) * bpow radix2 (E - 1))).
  assert (Hd : 0 <= dec_of c M <= 1) by apply dec_of_range.
  rewrite Z.min_l by lia.
  unfold dec_of in *. destruct c.
  - rewrite round_positive_even_spec. fold M. destruct (Z.even M); lia.
  - lia.
  - unfold f_next_positive. lia.
Qed.

Print Assumptions large_atof_spec.
Print Assumptions small_atof_spec.
