(* Proofs/SerWriter.v — writer half of C13: std's write_all loop over a writer that takes short writes, is interrupted,
   and fails with an error kind once k bytes were accepted.  Whatever the chunking, the bytes the writer accepted are
   a prefix of the fault-free output; if the writer never fails the outcome is the fault-free one and everything was
   accepted; if it fails the outcome is Err (Io kind) with the writer's kind. *)
From SJ Require Import Base.Bytes Base.Utf8 Model.Read Model.Sval Model.Ser.
From Coq Require Import Lia.
Open Scope nat_scope.

Definition wr_ok (w w' : writer) (buf p s : bytes) (r : res unit) : Prop :=
  buf = p ++ s /\ accepted w' = accepted w ++ p /\ fail_at w' = fail_at w
  /\ ((r = Ok tt /\ s = [])
      \/ (exists k kind, fail_at w = Some (k, kind) /\ r = Err (Io kind) O /\ k <= length (accepted w'))).

Lemma write_all_loop_spec (fuel : nat) : forall w buf, length (sched w) + length buf < fuel ->
  exists p s, wr_ok w (fst (write_all_loop fuel w buf)) buf p s (snd (write_all_loop fuel w buf)).
Proof.
  induction fuel as [|f IH]; intros w buf Hm; [lia|].
  destruct buf as [|b0 r0].
  { exists [], []. cbn [write_all_loop fst snd]. unfold wr_ok. cbn [app]. rewrite app_nil_r. repeat split; auto. }
  cbn [write_all_loop].
  assert (Hbl : 1 <= length (b0 :: r0)) by (cbn [length]; lia).
  remember (b0 :: r0) as buf eqn:Ebuf. clear Ebuf b0 r0.
  unfold write_once.
  (* the size this call is willing to take *)
  destruct (sched w) as [|c rs] eqn:Es.
  - (* schedule exhausted: takes everything offered *)
    destruct (fail_at w) as [[k kind]|] eqn:Ef.
    + destruct (Nat.leb k (length (accepted w))) eqn:Ek.
      * apply Nat.leb_le in Ek. exists [], buf. cbn [fst snd]. unfold wr_ok. cbn [accepted fail_at]. rewrite app_nil_r.
        repeat split; auto. right. exists k, kind. auto.
      * apply Nat.leb_gt in Ek.
        set (n := Nat.min (Nat.min (length buf) (k - length (accepted w))) (length buf)).
        assert (Hn : 1 <= n <= length buf) by (unfold n; lia).
        destruct n as [|n'] eqn:En; [lia|]. rewrite <- En in *.
        set (w1 := mkW (accepted w ++ firstn n buf) [] (Some (k, kind))).
        destruct (IH w1 (skipn n buf)) as [p' [s' H']].
        { unfold w1. cbn [sched length]. rewrite skipn_length. try rewrite Es in Hm. cbn [length] in Hm. lia. }
        exists (firstn n buf ++ p'), s'. destruct H' as [E1 [E2 [E3 E4]]]. unfold wr_ok.
        split; [rewrite <- app_assoc, <- E1; symmetry; apply firstn_skipn|].
        split; [rewrite E2; unfold w1; cbn [accepted]; rewrite app_assoc; reflexivity|].
        split; [rewrite E3; unfold w1; cbn [fail_at]; congruence|].
        destruct E4 as [E4|[k' [kind' [F1 [F2 F3]]]]]; [left; exact E4|]. right. exists k', kind'.
        unfold w1 in F1. cbn [fail_at] in F1. repeat split; [congruence | exact F2 | exact F3].
    + set (n := Nat.min (length buf) (length buf)).
      assert (Hn : 1 <= n <= length buf) by (unfold n; lia).
      destruct n as [|n'] eqn:En; [lia|]. rewrite <- En in *.
      set (w1 := mkW (accepted w ++ firstn n buf) [] None).
      destruct (IH w1 (skipn n buf)) as [p' [s' H']].
      { unfold w1. cbn [sched length]. rewrite skipn_length. try rewrite Es in Hm. cbn [length] in Hm. lia. }
      exists (firstn n buf ++ p'), s'. destruct H' as [E1 [E2 [E3 E4]]]. unfold wr_ok.
      split; [rewrite <- app_assoc, <- E1; symmetry; apply firstn_skipn|].
      split; [rewrite E2; unfold w1; cbn [accepted]; rewrite app_assoc; reflexivity|].
      split; [rewrite E3; unfold w1; cbn [fail_at]; congruence|].
      destruct E4 as [E4|[k' [kind' [F1 _]]]]; [left; exact E4|]. unfold w1 in F1. cbn [fail_at] in F1. discriminate F1.
  - try rewrite Es in Hm. cbn [length] in Hm.
    destruct (Nat.eqb c 0) eqn:Ec.
    + (* Interrupted: retried *)
      set (w1 := mkW (accepted w) rs (fail_at w)).
      destruct (IH w1 buf) as [p' [s' H']]; [unfold w1; cbn [sched]; lia|].
      exists p', s'. destruct H' as [E1 [E2 [E3 E4]]]. unfold wr_ok. repeat split; auto.
    + apply Nat.eqb_neq in Ec.
      destruct (fail_at w) as [[k kind]|] eqn:Ef.
      * destruct (Nat.leb k (length (accepted w))) eqn:Ek.
        -- apply Nat.leb_le in Ek. exists [], buf. cbn [fst snd]. unfold wr_ok. cbn [accepted fail_at]. rewrite app_nil_r.
           repeat split; auto. right. exists k, kind. auto.
        -- apply Nat.leb_gt in Ek.
           set (n := Nat.min (Nat.min c (k - length (accepted w))) (length buf)).
           assert (Hn : 1 <= n <= length buf) by (unfold n; lia).
           destruct n as [|n'] eqn:En; [lia|]. rewrite <- En in *.
           set (w1 := mkW (accepted w ++ firstn n buf) rs (Some (k, kind))).
           destruct (IH w1 (skipn n buf)) as [p' [s' H']].
           { unfold w1. cbn [sched length]. rewrite skipn_length. lia. }
           exists (firstn n buf ++ p'), s'. destruct H' as [E1 [E2 [E3 E4]]]. unfold wr_ok.
           split; [rewrite <- app_assoc, <- E1; symmetry; apply firstn_skipn|].
           split; [rewrite E2; unfold w1; cbn [accepted]; rewrite app_assoc; reflexivity|].
           split; [rewrite E3; unfold w1; cbn [fail_at]; congruence|].
           destruct E4 as [E4|[k' [kind' [F1 [F2 F3]]]]]; [left; exact E4|]. right. exists k', kind'.
           unfold w1 in F1. cbn [fail_at] in F1. repeat split; [congruence | exact F2 | exact F3].
      * set (n := Nat.min c (length buf)).
        assert (Hn : 1 <= n <= length buf) by (unfold n; lia).
        destruct n as [|n'] eqn:En; [lia|]. rewrite <- En in *.
        set (w1 := mkW (accepted w ++ firstn n buf) rs None).
        destruct (IH w1 (skipn n buf)) as [p' [s' H']].
        { unfold w1. cbn [sched length]. rewrite skipn_length. lia. }
        exists (firstn n buf ++ p'), s'. destruct H' as [E1 [E2 [E3 E4]]]. unfold wr_ok.
        split; [rewrite <- app_assoc, <- E1; symmetry; apply firstn_skipn|].
        split; [rewrite E2; unfold w1; cbn [accepted]; rewrite app_assoc; reflexivity|].
        split; [rewrite E3; unfold w1; cbn [fail_at]; congruence|].
        destruct E4 as [E4|[k' [kind' [F1 _]]]]; [left; exact E4|]. unfold w1 in F1. cbn [fail_at] in F1. discriminate F1.
Qed.

Theorem write_all_spec w buf : exists p s, wr_ok w (fst (write_all w buf)) buf p s (snd (write_all w buf)).
Proof. unfold write_all. apply write_all_loop_spec. lia. Qed.

(* feeding a sequence of buffers *)
Lemma feed_spec (bufs : list bytes) : forall w, exists p s,
  concat bufs = p ++ s /\ accepted (fst (feed w bufs)) = accepted w ++ p /\ fail_at (fst (feed w bufs)) = fail_at w
  /\ ((snd (feed w bufs) = Ok tt /\ s = [])
      \/ (exists k kind, fail_at w = Some (k, kind) /\ snd (feed w bufs) = Err (Io kind) O /\ k <= length (accepted (fst (feed w bufs))))).
Proof.
  induction bufs as [|b r IH]; intros w.
  - exists [], []. cbn [feed fst snd concat app]. rewrite app_nil_r. repeat split; auto.
  - cbn [feed concat]. destruct (write_all_spec w b) as [p1 [s1 [E1 [E2 [E3 E4]]]]].
    destruct (write_all w b) as [w1 r1]. cbn [fst snd] in *.
    destruct E4 as [[-> ->]|[k [kind [F1 [-> F3]]]]].
    + destruct (IH w1) as [p2 [s2 [G1 [G2 [G3 G4]]]]]. exists (p1 ++ p2), s2.
      rewrite app_nil_r in E1. subst b.
      split; [rewrite G1, app_assoc; reflexivity|].
      split; [rewrite G2, E2, app_assoc; reflexivity|].
      split; [rewrite G3; exact E3|].
      destruct G4 as [G4|[k [kind [H1 [H2 H3]]]]]; [left; exact G4|]. right. exists k, kind. rewrite E3 in H1. auto.
    + exists p1, (s1 ++ concat r). cbn [fst snd].
      split; [rewrite E1, app_assoc; reflexivity|]. split; [exact E2|]. split; [exact E3|].
      right. exists k, kind. auto.
Qed.

Definition is_prefix (p l : bytes) : Prop := exists s, l = p ++ s.

(* C13 (writer half), on the trace of any run: fault-free output = concat (fst t), fault-free outcome = snd t *)
Theorem C13_write_prefix_main {A} (w : writer) (t : tr A) : accepted w = [] ->
  let w' := fst (run_writer w t) in
  let r := snd (run_writer w t) in
  is_prefix (accepted w') (concat (fst t))
  /\ ((r = snd t /\ accepted w' = concat (fst t))
      \/ (exists k kind, fail_at w = Some (k, kind) /\ r = Err (Io kind) O /\ k <= length (accepted w'))).
Proof.
  intros Hw. unfold run_writer. destruct (feed_spec (fst t) w) as [p [s [E1 [E2 [E3 E4]]]]].
  destruct (feed w (fst t)) as [w1 r1]. cbn [fst snd] in *. rewrite Hw in E2. cbn [app] in E2.
  destruct E4 as [[-> ->]|[k [kind [F1 [-> F3]]]]]; cbn [fst snd].
  - rewrite app_nil_r in E1. split; [exists []; rewrite E2, app_nil_r; exact E1|]. left. split; [reflexivity|]. rewrite E2, E1. reflexivity.
  - split; [exists s; rewrite E2; exact E1|]. right. exists k, kind. auto.
Qed.

(* a writer that never fails gives the fault-free run, whatever its chunking and interruptions *)
Corollary C13_no_fault_main {A} (w : writer) (t : tr A) : accepted w = [] -> fail_at w = None ->
  snd (run_writer w t) = snd t /\ accepted (fst (run_writer w t)) = concat (fst t).
Proof.
  intros Hw Hf. destruct (C13_write_prefix_main w t Hw) as [_ [H|[k [kind [F _]]]]]; [exact H|]. rewrite Hf in F. discriminate.
Qed.

Print Assumptions C13_write_prefix_main.
