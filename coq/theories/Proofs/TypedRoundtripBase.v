(* Proofs/TypedRoundtripBase.v — C04 (typed half), part 2: the leaves.
   The typed deserializer (slice reader, end-of-input terminated) reads back what the serializer printed for
   bool, the twelve integer types, unit, char, strings, and for map keys of string / integer / bool / char type;
   the container frames ([frame], [deserialize_enum]) and the calculus of "either out of fuel or the right answer" ([okf]).

   Every statement is on [rest] / [depth] of the cursor only: [off] and [pk] never influence a slice-reader run. *)
From SJ Require Import Base.Bytes Base.Utf8 Base.FloatB Gen.Tables Model.Read Model.Str Model.Num Model.NumF32 Model.Value Model.De
  Model.Ignore Model.Sval Model.Ser Model.Ty Model.SerTyped Spec.Syntax Spec.Denote Spec.Layout
  Proofs.NumInt Proofs.GrammarStr Proofs.GrammarValueBase Proofs.SerUtf8 Proofs.SerBase Proofs.SerRender Proofs.SerWf Proofs.SerDenote
  Proofs.TypedInt Proofs.TypedRk Proofs.TypedRoundtripTxt.
From SJ Require Import Model.DeTyped.   (* last: [lift] / [tbind] below are the typed deserializer's *)
From Coq Require Import Lia ZifyBool ZifyNat ZifyN.
Open Scope N_scope.

(* ------------------------------------------------------------------------------------------ *)
(** * 1. "out of fuel, or Ok with ..." *)
Definition okf {A} (r : tres A) (Q : A -> Prop) : Prop := r = TFuel \/ exists a, r = TOk a /\ Q a.

Lemma okf_ok {A} (r : tres A) a (Q : A -> Prop) : r = TOk a -> Q a -> okf r Q.
Proof. intros H HQ. right. exists a. auto. Qed.

Lemma okf_tbind {A B} (r : tres A) (f : A -> tres B) (P : A -> Prop) (Q : B -> Prop) :
  okf r P -> (forall a, P a -> okf (f a) Q) -> okf (tbind r f) Q.
Proof.
  intros [->|(a & -> & Ha)] Hf; [left; reflexivity|]. cbn [tbind]. apply Hf, Ha.
Qed.

Lemma okf_lift_bind {A B} (r : res A) a (f : A -> tres B) (Q : B -> Prop) :
  r = Ok a -> okf (f a) Q -> okf (tbind (lift r) f) Q.
Proof. intros -> H. exact H. Qed.

Lemma okf_tmap {A B} (g : A -> B) (r : tres (A * st)) (Q : B * st -> Prop) :
  okf r (fun p => Q (g (fst p), snd p)) -> okf (tmap g r) Q.
Proof.
  intros [->|([a s] & -> & Ha)]; [left; reflexivity|]. right. exists (g a, s). split; [reflexivity|exact Ha].
Qed.

Lemma okf_fix {A} E (r : tres A) (Q : A -> Prop) : okf r Q -> okf (fix_position E r) Q.
Proof. intros [->|(a & -> & Ha)]; [left; reflexivity|]. right. exists a. split; [reflexivity|exact Ha]. Qed.

Lemma okf_weaken {A} (r : tres A) (Q Q' : A -> Prop) : okf r Q -> (forall a, Q a -> Q' a) -> okf r Q'.
Proof. intros [->|(a & -> & Ha)] H; [left; reflexivity|]. right. exists a. auto. Qed.

Lemma okf_not_fuel {A} (r : tres A) (Q : A -> Prop) : okf r Q -> r <> TFuel -> exists a, r = TOk a /\ Q a.
Proof. intros [->|H] Hn; [contradiction|exact H]. Qed.

(* what a successfully read value looks like: the data modulo the borrowed flag, the cursor right behind the text,
   the recursion budget restored *)
Definition vpost (d : dval) (s : st) (tl : bytes) (p : dval * st) : Prop :=
  unb (fst p) = unb d /\ rest (snd p) = tl /\ depth (snd p) = depth s.

Definition reads (r : tres (dval * st)) (d : dval) (s : st) (tl : bytes) : Prop :=
  exists d' s', r = TOk (d', s') /\ unb d' = unb d /\ rest s' = tl /\ depth s' = depth s.

Lemma reads_okf r d s tl : reads r d s tl -> okf r (vpost d s tl).
Proof. intros (d' & s' & -> & H). right. exists (d', s'). split; [reflexivity|exact H]. Qed.

(* the byte after a value in compact output: end of text, `,`, `]` or `}` *)
Definition tfollow (tl : bytes) : Prop :=
  match tl with [] => True | c :: _ => c = 44 \/ c = 93 \/ c = 125 end.

Lemma tfollow_stops tl : tfollow tl -> stops_number tl.
Proof. destruct tl as [|c r]; cbn [tfollow stops_number]; [trivial|]. unfold is_digit. lia. Qed.
Lemma tfollow_not_digit tl : tfollow tl -> not_digit_next tl.
Proof. destruct tl as [|c r]; cbn [tfollow not_digit_next]; [trivial|]. unfold is_digit. lia. Qed.

Section Leaves.
  Variable cf : cfg.
  Notation E := (mkEnv RSlice TEof cf).

  (* ------------------------------------------------------------------------------------------ *)
  (** * 2. Cursor steps *)
  Lemma pw_head (s : st) (b : N) (r : bytes) : rest s = b :: r -> ws_byte b = false ->
    exists s1, parse_whitespace E s = Ok (Some b, s1) /\ rest s1 = b :: r /\ depth s1 = depth s.
  Proof.
    intros Hr Hb. destruct (pw_spec cf s) as (s1 & Hpw & Hr1 & Hd1).
    rewrite Hr, (skipws_head b r Hb) in Hr1. exists s1. rewrite Hpw, Hr1. auto.
  Qed.

  Lemma peek_head (s : st) (b : N) (r : bytes) : rest s = b :: r ->
    exists s1, peek E s = Ok (Some b, s1) /\ rest s1 = b :: r /\ depth s1 = depth s.
  Proof. intros Hr. unfold peek. rewrite Hr. eexists. split; [reflexivity|]. cbn [rest depth]. auto. Qed.

  (* ------------------------------------------------------------------------------------------ *)
  (** * 3. bool, unit, null *)
  Lemma read_bool (s : st) (b : bool) (tl : bytes) : rest s = (if b then lit_true else lit_false) ++ tl ->
    reads (deserialize_bool E s) (DBool b) s tl.
  Proof.
    intros Hr. unfold deserialize_bool. destruct b.
    - change (lit_true ++ tl) with (116 :: lit_rue ++ tl) in Hr.
      destruct (pw_head s _ _ Hr eq_refl) as (s1 & Hpw & Hr1 & Hd1). rewrite Hpw. cbn [lift tbind].
      change (116 =? 116) with true. cbv iota.
      destruct (parse_ident_fwd cf lit_rue (discard s1) tl) as (s2 & Hid & Hr2 & Hd2).
      { rewrite discard_rest, Hr1. reflexivity. }
      rewrite Hid. cbn [lift tbind fix_position]. exists (DBool true), s2. rewrite Hd2, discard_depth. auto.
    - change (lit_false ++ tl) with (102 :: lit_alse ++ tl) in Hr.
      destruct (pw_head s _ _ Hr eq_refl) as (s1 & Hpw & Hr1 & Hd1). rewrite Hpw. cbn [lift tbind].
      change (102 =? 116) with false. change (102 =? 102) with true. cbv iota.
      destruct (parse_ident_fwd cf lit_alse (discard s1) tl) as (s2 & Hid & Hr2 & Hd2).
      { rewrite discard_rest, Hr1. reflexivity. }
      rewrite Hid. cbn [lift tbind fix_position]. exists (DBool false), s2. rewrite Hd2, discard_depth. auto.
  Qed.

  Lemma read_unit s tl : rest s = lit_null ++ tl -> reads (deserialize_unit E s) DUnit s tl.
  Proof.
    intros Hr. unfold deserialize_unit. change (lit_null ++ tl) with (110 :: lit_ull ++ tl) in Hr.
    destruct (pw_head s _ _ Hr eq_refl) as (s1 & Hpw & Hr1 & Hd1). rewrite Hpw. cbn [lift tbind].
    change (110 =? 110) with true. cbv iota.
    destruct (parse_ident_fwd cf lit_ull (discard s1) tl) as (s2 & Hid & Hr2 & Hd2).
    { rewrite discard_rest, Hr1. reflexivity. }
    rewrite Hid. cbn [lift tbind fix_position]. exists DUnit, s2. rewrite Hd2, discard_depth. auto.
  Qed.

  (* Option: `null` *)
  Lemma read_none f t1 s tl : rest s = lit_null ++ tl -> reads (de_typed (S f) E (TOption t1) s) DNone s tl.
  Proof.
    intros Hr. cbn [de_typed]. change (lit_null ++ tl) with (110 :: lit_ull ++ tl) in Hr.
    destruct (pw_head s _ _ Hr eq_refl) as (s1 & Hpw & Hr1 & Hd1). rewrite Hpw. cbn [lift tbind].
    change (110 =? 110) with true. cbv iota.
    destruct (parse_ident_fwd cf lit_ull (discard s1) tl) as (s2 & Hid & Hr2 & Hd2).
    { rewrite discard_rest, Hr1. reflexivity. }
    rewrite Hid. cbn [lift tbind]. exists DNone, s2. rewrite Hd2, discard_depth. auto.
  Qed.

  (* Option: anything that does not start with `n` is handed to the inner type *)
  Lemma option_some_step f t1 s b r : rest s = b :: r -> ws_byte b = false -> b <> 110 ->
    exists s1, rest s1 = rest s /\ depth s1 = depth s /\
               de_typed (S f) E (TOption t1) s = tmap DSome (de_typed f E t1 s1).
  Proof.
    intros Hr Hb Hn. destruct (pw_head s _ _ Hr Hb) as (s1 & Hpw & Hr1 & Hd1).
    exists s1. split; [congruence|]. split; [exact Hd1|]. cbn [de_typed]. rewrite Hpw. cbn [lift tbind].
    apply N.eqb_neq in Hn. rewrite Hn. reflexivity.
  Qed.

  (* ------------------------------------------------------------------------------------------ *)
  (** * 4. Integers *)
  Definition zneg (z : Z) : bool := (z <? 0)%Z.
  Definition zdigits (z : Z) : bytes := itoa (Z.to_N (if (z <? 0)%Z then - z else z)).

  Lemma itoa_z_lit z : itoa_z z = int_lit (zneg z) (zdigits z).
  Proof. unfold itoa_z, int_lit, zneg, zdigits. destruct (z <? 0)%Z; reflexivity. Qed.

  Lemma in_range_sint it z : in_range it z = true -> int_in_range (sint it) z = true.
  Proof. unfold in_range, int_in_range. destruct it; cbn [sint int_min int_max int_lo int_hi]; intros H; exact H. Qed.

  Lemma zdigits_ok it z : in_range it z = true ->
    int_ok (zdigits z) = true /\ int_lit_val (zneg z) (zdigits z) = z /\ is_neg_zero (zneg z) (zdigits z) = false.
  Proof.
    intros H. pose proof (int_range_abs (sint it) z (in_range_sint it z H)) as Hlt.
    unfold zdigits, int_lit_val, is_neg_zero, zneg. split; [apply itoa_int_ok, Hlt|].
    rewrite (itoa_val _ Hlt). destruct (z <? 0)%Z eqn:Hz; cbn [andb]; split; try reflexivity; lia.
  Qed.

  Lemma read_int f it z s tl : in_range it z = true -> rest s = itoa_z z ++ tl -> tfollow tl ->
    reads (de_typed (S f) E (TInt it) s) (DInt z) s tl.
  Proof.
    intros Hin Hr Hfol. destruct (zdigits_ok it z Hin) as (Hok & Hval & Hnz). rewrite itoa_z_lit in Hr.
    destruct s as [rs o p dp]. cbn [rest depth] in *. subst rs.
    destruct (is_128 it) eqn:H128.
    - destruct it; try discriminate H128.
      + pose proof (C06_text_i128 f E (zneg z) (zdigits z) tl o p dp eq_refl Hok (tfollow_not_digit tl Hfol)) as H.
        cbv zeta in H. rewrite Hval, Hin in H. rewrite H. eexists _, _. split; [reflexivity|]. cbn [rest depth st_after]. auto.
      + pose proof (C06_text_u128 f E (zneg z) (zdigits z) tl o p dp eq_refl Hok (tfollow_not_digit tl Hfol)) as H.
        cbv zeta in H. rewrite Hval, Hin in H.
        assert (Hn : zneg z = false) by (unfold zneg, in_range in *; cbn [int_min] in Hin; lia).
        rewrite Hn in H. rewrite Hn. rewrite H. eexists _, _. split; [reflexivity|]. cbn [rest depth st_after]. auto.
    - pose proof (C06_text_64 f E it (zneg z) (zdigits z) tl o p dp eq_refl H128 Hok (tfollow_stops tl Hfol)) as H.
      cbv zeta in H. rewrite Hval, Hin, Hnz in H. cbn [andb negb] in H. rewrite H.
      eexists _, _. split; [reflexivity|]. cbn [rest depth st_after]. auto.
  Qed.

  (* ------------------------------------------------------------------------------------------ *)
  (** * 5. Strings and chars *)
  Lemma raw_flag str : forallb is_byte str = true -> no_escape str = true ->
    forallb (fun p => match p with PRaw _ => true | _ => false end) (SerRender.pieces_of str) = true.
  Proof.
    unfold no_escape, SerRender.pieces_of, is_byte. induction str as [|b r IH]; [reflexivity|]. cbn [forallb map]. intros HB HN.
    apply andb_prop in HB as [Hb HB]. apply andb_prop in HN as [Hn HN]. rewrite (IH HB HN), andb_true_r.
    pose proof (all_bytes (fun b => ((b =? 34) || (b =? 92) || (b <? 32))
                                    || match SerRender.piece_of b with PRaw _ => true | _ => false end) eq_refl b) as H.
    cbn beta in H. assert (Hlt : b < 256) by lia. specialize (H Hlt).
    destruct ((b =? 34) || (b =? 92) || (b <? 32)); [discriminate Hn|exact H].
  Qed.

  Lemma parse_str_esc s0 str tl : utf8_valid str = true -> rest s0 = esc str ++ 34 :: tl ->
    exists fl s2, parse_str E s0 = Ok (str, fl, s2) /\ rest s2 = tl /\ depth s2 = depth s0 /\ (no_escape str = true -> fl = true).
  Proof.
    intros Hv Hr. destruct s0 as [rs o p dp]. cbn [rest depth] in *. subst rs. unfold esc.
    pose proof (utf8_valid_bytes str Hv) as HB.
    rewrite (parse_str_complete_strong cf (SerRender.pieces_of str) str tl o p dp (pieces_of_ok str HB) (str_text_pieces str Hv)).
    eexists _, _. split; [reflexivity|]. cbn [rest depth]. split; [reflexivity|]. split; [reflexivity|]. apply raw_flag, HB.
  Qed.

  Lemma qstr_app str tl : qstr str ++ tl = 34 :: esc str ++ 34 :: tl.
  Proof. unfold qstr. cbn [app]. rewrite <- app_assoc. reflexivity. Qed.
  Lemma quote_app t tl : quote t ++ tl = 34 :: t ++ 34 :: tl.
  Proof. unfold quote. cbn [app]. rewrite <- app_assoc. reflexivity. Qed.

  Lemma deserialize_str_read {A} (visit : bytes -> bool -> st -> tres A) s str tl :
    utf8_valid str = true -> rest s = qstr str ++ tl ->
    exists fl s2, deserialize_str E visit s = fix_position E (visit str fl s2) /\ rest s2 = tl /\ depth s2 = depth s
                  /\ (no_escape str = true -> fl = true).
  Proof.
    intros Hv Hr. rewrite qstr_app in Hr. destruct (pw_head s _ _ Hr eq_refl) as (s1 & Hpw & Hr1 & Hd1).
    destruct (parse_str_esc (discard s1) str tl Hv) as (fl & s2 & Hps & Hr2 & Hd2 & Hfl).
    { rewrite discard_rest, Hr1. reflexivity. }
    exists fl, s2. unfold deserialize_str. rewrite Hpw. cbn [lift tbind]. change (34 =? 34) with true. cbv iota.
    rewrite Hps. cbn [lift tbind]. rewrite Hd2, discard_depth. auto.
  Qed.

  Lemma read_str f s str b0 tl : utf8_valid str = true -> rest s = qstr str ++ tl ->
    reads (de_typed (S f) E TStr s) (DStr str b0) s tl.
  Proof.
    intros Hv Hr. destruct (deserialize_str_read visit_string s str tl Hv Hr) as (fl & s2 & Heq & Hr2 & Hd2 & _).
    cbn [de_typed]. rewrite Heq. unfold visit_string. cbn [fix_position]. exists (DStr str fl), s2. auto.
  Qed.

  Lemma read_borrowed_str f s str b0 tl : utf8_valid str = true -> no_escape str = true -> rest s = qstr str ++ tl ->
    reads (de_typed (S f) E TBorrowedStr s) (DStr str b0) s tl.
  Proof.
    intros Hv Hn Hr. destruct (deserialize_str_read visit_borrowed_only s str tl Hv Hr) as (fl & s2 & Heq & Hr2 & Hd2 & Hfl).
    cbn [de_typed]. rewrite Heq. unfold visit_borrowed_only. rewrite (Hfl Hn). cbn [fix_position]. exists (DStr str true), s2. auto.
  Qed.

  (* decoding the one-char string of a scalar value *)
  Lemma lor_128 x : x < 64 -> N.lor x 128 = x + 128.
  Proof.
    intros H. pose proof (all_bytes (fun x => negb (x <? 64) || (N.lor x 128 =? x + 128)) eq_refl x) as A.
    cbn beta in A. assert (Hlt : x < 256) by lia. specialize (A Hlt). lia.
  Qed.
  Lemma lor_192 x : x < 32 -> N.lor x 192 = x + 192.
  Proof.
    intros H. pose proof (all_bytes (fun x => negb (x <? 32) || (N.lor x 192 =? x + 192)) eq_refl x) as A.
    cbn beta in A. assert (Hlt : x < 256) by lia. specialize (A Hlt). lia.
  Qed.
  Lemma lor_224 x : x < 16 -> N.lor x 224 = x + 224.
  Proof.
    intros H. pose proof (all_bytes (fun x => negb (x <? 16) || (N.lor x 224 =? x + 224)) eq_refl x) as A.
    cbn beta in A. assert (Hlt : x < 256) by lia. specialize (A Hlt). lia.
  Qed.
  Lemma lor_240 x : x < 8 -> N.lor x 240 = x + 240.
  Proof.
    intros H. pose proof (all_bytes (fun x => negb (x <? 8) || (N.lor x 240 =? x + 240)) eq_refl x) as A.
    cbn beta in A. assert (Hlt : x < 256) by lia. specialize (A Hlt). lia.
  Qed.
  Lemma land_63 x : N.land x 63 = x mod 64.
  Proof. change 63 with (N.ones 6). rewrite N.land_ones. reflexivity. Qed.
  Lemma shiftr_div x n : N.shiftr x n = x / 2 ^ n.
  Proof. apply N.shiftr_div_pow2. Qed.

  Lemma one_scalar_encode c : is_scalar c = true -> one_scalar (utf8_encode c) = Some c.
  Proof.
    intros Hs. assert (Hc : c < 1114112) by (unfold is_scalar in Hs; lia). unfold utf8_encode.
    destruct (c <? 128) eqn:H1; [cbn [one_scalar]; rewrite H1; reflexivity|].
    rewrite !land_63, !shiftr_div.
    change (2 ^ 6) with 64. change (2 ^ 12) with 4096. change (2 ^ 18) with 262144.
    pose proof (N.div_mod c 64 ltac:(lia)) as D0. pose proof (N.mod_lt c 64 ltac:(lia)) as M0.
    destruct (c <? 2048) eqn:H2.
    - assert (Hq : c / 64 < 32) by (apply N.div_lt_upper_bound; lia).
      rewrite (lor_192 _ Hq), (lor_128 _ M0). cbn [one_scalar]. unfold in_rng.
      replace ((192 <=? c / 64 + 192) && (c / 64 + 192 <=? 223)) with true by lia. f_equal. lia.
    - pose proof (N.div_mod (c / 64) 64 ltac:(lia)) as D1. pose proof (N.mod_lt (c / 64) 64 ltac:(lia)) as M1.
      assert (E12 : c / 4096 = c / 64 / 64) by (rewrite N.div_div by lia; reflexivity).
      destruct (c <? 65536) eqn:H3.
      + assert (Hq : c / 4096 < 16) by (apply N.div_lt_upper_bound; lia).
        rewrite (lor_224 _ Hq), (lor_128 _ M1), (lor_128 _ M0). cbn [one_scalar]. unfold in_rng.
        replace ((224 <=? c / 4096 + 224) && (c / 4096 + 224 <=? 239)) with true by lia. f_equal. lia.
      + pose proof (N.div_mod (c / 4096) 64 ltac:(lia)) as D2. pose proof (N.mod_lt (c / 4096) 64 ltac:(lia)) as M2.
        assert (E18 : c / 262144 = c / 4096 / 64) by (rewrite N.div_div by lia; reflexivity).
        assert (Hq : c / 262144 < 8) by (apply N.div_lt_upper_bound; lia).
        rewrite (lor_240 _ Hq), (lor_128 _ M2), (lor_128 _ M1), (lor_128 _ M0). cbn [one_scalar]. unfold in_rng.
        replace ((240 <=? c / 262144 + 240) && (c / 262144 + 240 <=? 247)) with true by lia. f_equal. lia.
  Qed.

  Lemma read_char f s c tl : is_scalar c = true -> rest s = qstr (utf8_encode c) ++ tl ->
    reads (de_typed (S f) E TChar s) (DChar c) s tl.
  Proof.
    intros Hs Hr.
    destruct (deserialize_str_read visit_char s _ tl (utf8_encode_valid c Hs) Hr) as (fl & s2 & Heq & Hr2 & Hd2 & _).
    cbn [de_typed]. rewrite Heq. unfold visit_char. rewrite (one_scalar_encode c Hs). cbn [fix_position]. exists (DChar c), s2. auto.
  Qed.

  (* ------------------------------------------------------------------------------------------ *)
  (** * 6. Map keys (MapKey deserializer; the opening quote has been peeked) *)
  Lemma key_txt_head fmt32 fmt64 : forall k d, key_in_universe k = true -> key_has_type k d = true ->
    exists r, key_txt fmt32 fmt64 k d = 34 :: r.
  Proof.
    induction k as [| it | | | | |k1 IH|k1 IH|names]; intros d HU HT; cbn [key_in_universe] in HU; try discriminate HU;
      destruct d; cbn [key_has_type] in HT; try discriminate HT; cbn [key_txt]; try (eexists; reflexivity).
    exact (IH d HU HT).
  Qed.

  Lemma read_key_bool (b : bool) s tl : rest s = quote (if b then lit_true else lit_false) ++ tl ->
    reads (key_bool E s) (DBool b) s tl.
  Proof.
    intros Hr. rewrite quote_app in Hr. unfold key_bool. destruct b.
    - change (34 :: lit_true ++ 34 :: tl) with (34 :: 116 :: lit_rue_q ++ tl) in Hr.
      destruct (peek_head (discard s) 116 (lit_rue_q ++ tl)) as (s1 & Hpk & Hr1 & Hd1).
      { rewrite discard_rest, Hr. reflexivity. }
      rewrite Hpk. cbn [lift tbind]. change (116 =? 116) with true. cbv iota.
      destruct (parse_ident_fwd cf lit_rue_q (discard s1) tl) as (s2 & Hid & Hr2 & Hd2).
      { rewrite discard_rest, Hr1. reflexivity. }
      rewrite Hid. cbn [lift tbind fix_position]. exists (DBool true), s2. rewrite Hd2, discard_depth, Hd1, discard_depth. auto.
    - change (34 :: lit_false ++ 34 :: tl) with (34 :: 102 :: lit_alse_q ++ tl) in Hr.
      destruct (peek_head (discard s) 102 (lit_alse_q ++ tl)) as (s1 & Hpk & Hr1 & Hd1).
      { rewrite discard_rest, Hr. reflexivity. }
      rewrite Hpk. cbn [lift tbind]. change (102 =? 116) with false. change (102 =? 102) with true. cbv iota.
      destruct (parse_ident_fwd cf lit_alse_q (discard s1) tl) as (s2 & Hid & Hr2 & Hd2).
      { rewrite discard_rest, Hr1. reflexivity. }
      rewrite Hid. cbn [lift tbind fix_position]. exists (DBool false), s2. rewrite Hd2, discard_depth, Hd1, discard_depth. auto.
  Qed.

  Lemma read_key_int f it z s tl : in_range it z = true -> rest s = quote (itoa_z z) ++ tl ->
    reads (de_key (S f) E (KInt it) s) (DInt z) s tl.
  Proof.
    intros Hin Hr. destruct (zdigits_ok it z Hin) as (Hok & Hval & Hnz). rewrite quote_app, itoa_z_lit in Hr.
    destruct s as [rs o p dp]. cbn [rest depth] in *. subst rs.
    destruct (is_128 it) eqn:H128.
    - destruct it; try discriminate H128.
      + pose proof (C06_key_i128 f E (zneg z) (zdigits z) tl o p dp eq_refl Hok) as H.
        cbv zeta in H. rewrite Hval, Hin in H. rewrite H. eexists _, _. split; [reflexivity|]. cbn [rest depth st_key_end]. auto.
      + pose proof (C06_key_u128 f E (zneg z) (zdigits z) tl o p dp eq_refl Hok) as H.
        cbv zeta in H. rewrite Hval, Hin in H.
        assert (Hn : zneg z = false) by (unfold zneg, in_range in *; cbn [int_min] in Hin; lia).
        rewrite Hn in H. rewrite Hn. rewrite H. eexists _, _. split; [reflexivity|]. cbn [rest depth st_key_end]. auto.
    - pose proof (C06_key_64 f E it (zneg z) (zdigits z) tl o p dp eq_refl H128 Hok) as H.
      cbv zeta in H. rewrite Hval, Hin, Hnz in H. cbn [andb negb] in H. rewrite H.
      eexists _, _. split; [reflexivity|]. cbn [rest depth st_key_end]. auto.
  Qed.

  Lemma read_key fmt32 fmt64 : forall k d f s tl, key_in_universe k = true -> key_has_type k d = true ->
    rest s = key_txt fmt32 fmt64 k d ++ tl -> okf (de_key f E k s) (vpost d s tl).
  Proof.
    induction k as [| it | | | | |k1 IH|k1 IH|names]; intros d f s tl HU HT Hr; cbn [key_in_universe] in HU; try discriminate HU;
      (destruct f as [|f]; [left; reflexivity|]);
      destruct d as [v| |sp|b|z|bits|c|str bw|bs| | |d1|d1|l|l|l|n p]; cbn [key_has_type] in HT; try discriminate HT; cbn [key_txt] in Hr.
    - (* String *)
      rewrite qstr_app in Hr. destruct (parse_str_esc (discard s) str tl HT) as (fl & s2 & Hps & Hr2 & Hd2 & _).
      { rewrite discard_rest, Hr. reflexivity. }
      cbn [de_key]. rewrite Hps. cbn [lift tbind]. apply reads_okf. exists (DStr str fl), s2. rewrite Hd2, discard_depth. auto.
    - (* integers *) apply reads_okf. apply read_key_int; assumption.
    - (* bool *) apply reads_okf. cbn [de_key]. apply read_key_bool. exact Hr.
    - (* char *)
      rewrite qstr_app in Hr.
      destruct (parse_str_esc (discard s) (utf8_encode c) tl (utf8_encode_valid c HT)) as (fl & s2 & Hps & Hr2 & Hd2 & _).
      { rewrite discard_rest, Hr. reflexivity. }
      cbn [de_key]. rewrite Hps. cbn [lift tbind]. unfold visit_char. rewrite (one_scalar_encode c HT).
      apply reads_okf. exists (DChar c), s2. rewrite Hd2, discard_depth. auto.
    - (* newtype *)
      cbn [de_key]. apply okf_tmap. eapply okf_weaken; [apply (IH d1 f s tl HU HT Hr)|].
      intros [d' s'] (H1 & H2 & H3). cbn [fst snd] in *. unfold vpost. cbn [fst snd unb]. rewrite H1. auto.
  Qed.

  (* ------------------------------------------------------------------------------------------ *)
  (** * 7. Container frames *)
  Definition end_spec (endf : env -> st -> res st) (close : N) : Prop :=
    forall s rst, rest s = close :: rst -> exists s', endf E s = Ok s' /\ rest s' = rst /\ depth s' = depth s.

  Lemma end_seq_spec : end_spec end_seq 93.
  Proof. intros s rst H. apply end_seq_fwd. rewrite H. apply skipws_head. reflexivity. Qed.
  Lemma end_map_spec : end_spec end_map 125.
  Proof. intros s rst H. apply end_map_fwd. rewrite H. apply skipws_head. reflexivity. Qed.

  Definition cpost {A} (P : A -> Prop) (s : st) (tl : bytes) (p : A * st) : Prop :=
    P (fst p) /\ rest (snd p) = tl /\ depth (snd p) = depth s.

  Lemma okf_frame {A} endf endst (body : st -> tres (A * st)) s1 (P : A -> Prop) (c0 close : N) r tl n :
    end_spec endf close -> rest s1 = c0 :: r -> dbudget cf (S n) (depth s1) ->
    (forall s2, rest s2 = r -> dbudget cf n (depth s2) -> okf (body s2) (cpost P s2 (close :: tl))) ->
    okf (frame E endf endst body s1) (cpost P s1 tl).
  Proof.
    intros Hend Hr1 Hb Hbody. unfold frame.
    destruct (enter_fwd cf s1) as (s2 & Hen & Hr2 & Hd2).
    { intros Hl. specialize (Hb Hl). lia. }
    rewrite Hen. cbn [lift tbind].
    destruct (Hbody (discard s2)) as [Hf|([a s3] & Heq & HP & Hr3 & Hd3)].
    { rewrite discard_rest, Hr2, Hr1. reflexivity. }
    { rewrite discard_depth, Hd2. intros Hl. specialize (Hb Hl). rewrite Hl. lia. }
    { rewrite Hf. left. reflexivity. }
    rewrite Heq. cbn [fst snd] in *. rewrite discard_depth in Hd3.
    destruct (leave_fwd cf s3) as (s4 & Hlv & Hr4 & Hd4).
    { intros Hl. specialize (Hb Hl). rewrite Hd3, Hd2, Hl. lia. }
    rewrite Hlv. cbn [lift tbind].
    destruct (Hend s4 tl) as (s5 & He & Hr5 & Hd5); [congruence|].
    rewrite He. cbn [lift tbind]. right. exists (a, s5). split; [reflexivity|]. split; [exact HP|]. split; [exact Hr5|].
    cbn [snd]. rewrite Hd5, Hd4, Hd3, Hd2. unfold dbudget in Hb. destruct (limit_disabled cf); [reflexivity|].
    specialize (Hb eq_refl). lia.
  Qed.

  Lemma cpost_depth {A} (P : A -> Prop) s s' tl p : depth s = depth s' -> cpost P s tl p -> cpost P s' tl p.
  Proof. unfold cpost. intros <-. auto. Qed.

  Lemma okf_deserialize_seq {A} (body : st -> tres (A * st)) s (P : A -> Prop) r tl n :
    rest s = 91 :: r -> dbudget cf (S n) (depth s) ->
    (forall s2, rest s2 = r -> dbudget cf n (depth s2) -> okf (body s2) (cpost P s2 (93 :: tl))) ->
    okf (deserialize_seq E body s) (cpost P s tl).
  Proof.
    intros Hr Hb Hbody. destruct (pw_head s _ _ Hr eq_refl) as (s1 & Hpw & Hr1 & Hd1).
    unfold deserialize_seq. rewrite Hpw. cbn [lift tbind]. change (91 =? 91) with true. cbv iota. apply okf_fix.
    eapply okf_weaken; [apply (okf_frame end_seq end_seq_st body s1 P 91 93 r tl n end_seq_spec Hr1)|].
    - rewrite Hd1. exact Hb.
    - exact Hbody.
    - intros p. apply cpost_depth, Hd1.
  Qed.

  Lemma okf_deserialize_map {A} (body : st -> tres (A * st)) s (P : A -> Prop) r tl n :
    rest s = 123 :: r -> dbudget cf (S n) (depth s) ->
    (forall s2, rest s2 = r -> dbudget cf n (depth s2) -> okf (body s2) (cpost P s2 (125 :: tl))) ->
    okf (deserialize_map E body s) (cpost P s tl).
  Proof.
    intros Hr Hb Hbody. destruct (pw_head s _ _ Hr eq_refl) as (s1 & Hpw & Hr1 & Hd1).
    unfold deserialize_map. rewrite Hpw. cbn [lift tbind]. change (123 =? 123) with true. cbv iota. apply okf_fix.
    eapply okf_weaken; [apply (okf_frame end_map end_map_st body s1 P 123 125 r tl n end_map_spec Hr1)|].
    - rewrite Hd1. exact Hb.
    - exact Hbody.
    - intros p. apply cpost_depth, Hd1.
  Qed.

  Lemma okf_deserialize_struct_map {A} (body_seq body : st -> tres (A * st)) s (P : A -> Prop) r tl n :
    rest s = 123 :: r -> dbudget cf (S n) (depth s) ->
    (forall s2, rest s2 = r -> dbudget cf n (depth s2) -> okf (body s2) (cpost P s2 (125 :: tl))) ->
    okf (deserialize_struct E body_seq body s) (cpost P s tl).
  Proof.
    intros Hr Hb Hbody. destruct (pw_head s _ _ Hr eq_refl) as (s1 & Hpw & Hr1 & Hd1).
    unfold deserialize_struct. rewrite Hpw. cbn [lift tbind]. change (123 =? 91) with false. change (123 =? 123) with true.
    cbv iota. apply okf_fix.
    eapply okf_weaken; [apply (okf_frame end_map end_map_st body s1 P 123 125 r tl n end_map_spec Hr1)|].
    - rewrite Hd1. exact Hb.
    - exact Hbody.
    - intros p. apply cpost_depth, Hd1.
  Qed.

  (* deserialize_enum on `{` ... `}` *)
  Lemma okf_enum_map {A} (body_map body_unit : st -> tres (A * st)) s (P : A -> Prop) r tl n :
    rest s = 123 :: r -> dbudget cf (S n) (depth s) ->
    (forall s2, rest s2 = r -> dbudget cf n (depth s2) -> okf (body_map s2) (cpost P s2 (125 :: tl))) ->
    okf (deserialize_enum E body_map body_unit s) (cpost P s tl).
  Proof.
    intros Hr Hb Hbody. destruct (pw_head s _ _ Hr eq_refl) as (s1 & Hpw & Hr1 & Hd1).
    unfold deserialize_enum. rewrite Hpw. cbn [lift tbind]. change (123 =? 123) with true. cbv iota.
    rewrite <- Hd1 in Hb.
    destruct (enter_fwd cf s1) as (s2 & Hen & Hr2 & Hd2).
    { intros Hl. specialize (Hb Hl). lia. }
    rewrite Hen. cbn [lift tbind].
    destruct (Hbody (discard s2)) as [Hf|([a s3] & Heq & HP & Hr3 & Hd3)].
    { rewrite discard_rest, Hr2, Hr1. reflexivity. }
    { rewrite discard_depth, Hd2. intros Hl. specialize (Hb Hl). rewrite Hl. lia. }
    { rewrite Hf. left. reflexivity. }
    rewrite Heq. cbn [fst snd] in *. rewrite discard_depth in Hd3.
    destruct (leave_fwd cf s3) as (s4 & Hlv & Hr4 & Hd4).
    { intros Hl. specialize (Hb Hl). rewrite Hd3, Hd2, Hl. lia. }
    rewrite Hlv. cbn [lift tbind].
    destruct (pw_head s4 125 tl) as (s5 & Hpw5 & Hr5 & Hd5); [congruence|reflexivity|].
    rewrite Hpw5. cbn [lift tbind]. change (125 =? 125) with true. cbv iota.
    right. exists (a, discard s5). split; [reflexivity|]. split; [exact HP|]. cbn [snd].
    split; [rewrite discard_rest, Hr5; reflexivity|].
    rewrite discard_depth, Hd5, Hd4, Hd3, Hd2, <- Hd1. unfold dbudget in Hb. destruct (limit_disabled cf); [reflexivity|].
    specialize (Hb eq_refl). lia.
  Qed.

  (* deserialize_enum on `"Variant"` *)
  Lemma enum_unit_step {A} (body_map body_unit : st -> tres (A * st)) s r : rest s = 34 :: r ->
    exists s1, rest s1 = rest s /\ depth s1 = depth s /\ deserialize_enum E body_map body_unit s = body_unit s1.
  Proof.
    intros Hr. destruct (pw_head s _ _ Hr eq_refl) as (s1 & Hpw & Hr1 & Hd1). exists s1.
    split; [congruence|]. split; [exact Hd1|]. unfold deserialize_enum. rewrite Hpw. cbn [lift tbind]. reflexivity.
  Qed.

  (* the variant identifier *)
  Lemma read_variant_id {A} (vs : list (bytes * A)) s n i v tl : utf8_valid n = true -> index_of n vs = Some (i, v) ->
    rest s = qstr n ++ tl ->
    exists s2, deserialize_str E (visit_variant vs) s = TOk (n, v, s2) /\ rest s2 = tl /\ depth s2 = depth s.
  Proof.
    intros Hv Hi Hr. destruct (deserialize_str_read (visit_variant vs) s n tl Hv Hr) as (fl & s2 & Heq & Hr2 & Hd2 & _).
    exists s2. rewrite Heq. unfold visit_variant. rewrite Hi. cbn [fix_position]. auto.
  Qed.
End Leaves.

Print Assumptions read_int.
Print Assumptions read_char.
Print Assumptions read_key.
Print Assumptions okf_frame.
