(* Proofs/RawNested.v — C19, part 3: RawValue inside containers, typed text deserializer (Model/DeTyped.v), every reader kind.

   Target types: Vec<RawValue> (TSeq TRaw), tuples / tuple structs of RawValues (TTuple, TTupleStruct), maps with RawValue
   values (TMap KStr TRaw), structs whose fields are RawValues (TStruct; named form `{..}` and positional form `[..]`).
   On the text of an array / object written with arbitrary RFC 8259 whitespace, whose element / member values are
   arbitrary well-formed values c_i, the result holds exactly `render c_i` — no surrounding whitespace, in order.

   The container texts are given as lists of [elm] / [mem] records (whitespace, value tree, whitespace ...) and turned
   into the syntax trees of Spec/Syntax.v by [elems_of] / [members_of]. *)
From SJ Require Import Base.Bytes Base.Utf8 Gen.Tables Model.Read Model.Str Model.Num Model.Value Model.De Model.Ignore Spec.Syntax.
From SJ Require Import Model.Ty Model.DeTyped Model.RawM.
From SJ Require Import Proofs.GrammarStr Proofs.StrRefine Proofs.StrEscapeUtf8 Proofs.Utf8Lemmas Proofs.Total Proofs.TypedTotal Proofs.MapMBase.
From SJ Require Import Proofs.GrammarIgnore Proofs.RawDe.
Require Import Lia ZifyBool ZifyNat ZifyN.
Open Scope N_scope.

Ltac rnorm := repeat (rewrite <- app_assoc || cbn [app]).

(* ------------------------------------------------------------------------------------------ *)
(** * 1. Texts of containers as lists *)

Record elm := mkElm { e_w1 : list N; e_c : cst; e_w2 : list N }.
Record mem := mkMem { m_w1 : list N; m_k : list strpiece; m_w2 : list N; m_w3 : list N; m_c : cst; m_w4 : list N }.

Definition elems_of (l : list elm) : elems := fold_right (fun x r => ECons (e_w1 x) (e_c x) (e_w2 x) r) ENil l.
Definition members_of (l : list mem) : members :=
  fold_right (fun m r => MCons (m_w1 m) (m_k m) (m_w2 m) (m_w3 m) (m_c m) (m_w4 m) r) MNil l.

Definition espans (l : list elm) : list (list N) := map (fun x => render (e_c x)) l.
Definition mspans (l : list mem) : list (list N) := map (fun m => render (m_c m)) l.

(* the array / object with these elements / members; [w0] is the inside of an empty one *)
Definition arr_of (w0 : list N) (l : list elm) : cst := CArr w0 (elems_of l).
Definition obj_of (w0 : list N) (l : list mem) : cst := CObj w0 (members_of l).

(* text from just after a value ([w] = the whitespace that follows it) to the end of the container, then [rst] *)
Fixpoint etail (w : list N) (l : list elm) (rst : list N) : list N :=
  match l with
  | [] => w ++ 93 :: rst
  | x :: l' => (w ++ 44 :: e_w1 x) ++ render (e_c x) ++ etail (e_w2 x) l' rst
  end.

Fixpoint mtail (w : list N) (l : list mem) (rst : list N) : list N :=
  match l with
  | [] => w ++ 125 :: rst
  | m :: l' => (w ++ 44 :: m_w1 m) ++ render_str (m_k m) ++ m_w2 m ++ 58 :: m_w3 m ++ render (m_c m) ++ mtail (m_w4 m) l' rst
  end.

Lemma etail_eq (l : list elm) : forall w rst, etail w l rst = w ++ more_elems (elems_of l) ++ 93 :: rst.
Proof.
  induction l as [|x l IH]; intros w rst; cbn [etail elems_of fold_right more_elems]; [reflexivity|].
  fold (elems_of l). rewrite render_elems_cons, IH. rnorm. reflexivity.
Qed.

Lemma mtail_eq (l : list mem) : forall w rst, mtail w l rst = w ++ more_members (members_of l) ++ 125 :: rst.
Proof.
  induction l as [|m l IH]; intros w rst; cbn [mtail members_of fold_right more_members]; [reflexivity|].
  fold (members_of l). rewrite render_members_cons, IH. rnorm. reflexivity.
Qed.

Definition arr_body (w0 : list N) (l : list elm) (rst : list N) : list N :=
  match l with
  | [] => w0 ++ 93 :: rst
  | x :: l' => e_w1 x ++ render (e_c x) ++ etail (e_w2 x) l' rst
  end.
Definition obj_body (w0 : list N) (l : list mem) (rst : list N) : list N :=
  match l with
  | [] => w0 ++ 125 :: rst
  | m :: l' => m_w1 m ++ render_str (m_k m) ++ m_w2 m ++ 58 :: m_w3 m ++ render (m_c m) ++ mtail (m_w4 m) l' rst
  end.

(* the text of the whole array / object *)
Lemma render_arr_of (w0 : list N) (l : list elm) (rst : list N) :
  render (arr_of w0 l) ++ rst =
  91 :: arr_body w0 l rst.
Proof.
  unfold arr_of, arr_body. rewrite render_arr. destruct l as [|x l]; cbn [elems_of fold_right]; rnorm; [reflexivity|].
  fold (elems_of l). rewrite render_elems_cons, etail_eq. rnorm. reflexivity.
Qed.

Lemma render_obj_of (w0 : list N) (l : list mem) (rst : list N) :
  render (obj_of w0 l) ++ rst =
  123 :: obj_body w0 l rst.
Proof.
  unfold obj_of, obj_body. rewrite render_obj. destruct l as [|m l]; cbn [members_of fold_right]; rnorm; [reflexivity|].
  fold (members_of l). rewrite render_members_cons, mtail_eq. rnorm. reflexivity.
Qed.

(* well-formedness, element by element *)
Definition elm_ok (x : elm) : Prop := ws_ok (e_w1 x) = true /\ wfb (e_c x) = true /\ ws_ok (e_w2 x) = true.
Definition mem_ok (m : mem) : Prop :=
  ws_ok (m_w1 m) = true /\ str_ok (m_k m) = true /\ ws_ok (m_w2 m) = true /\ ws_ok (m_w3 m) = true
  /\ wfb (m_c m) = true /\ ws_ok (m_w4 m) = true.

Lemma wfb_elems_of (l : list elm) : wfb_elems (elems_of l) = true <-> Forall elm_ok l.
Proof.
  induction l as [|x l IH]; cbn [elems_of fold_right wfb_elems].
  - split; [constructor|reflexivity].
  - fold (elems_of l). rewrite !andb_true_iff, IH. split.
    + intros (((H1 & H2) & H3) & H4). constructor; [repeat split; assumption|exact H4].
    + intros H. inversion H as [|? ? (H1 & H2 & H3) H4]; subst. auto.
Qed.

Lemma wfb_members_of (l : list mem) : wfb_members (members_of l) = true <-> Forall mem_ok l.
Proof.
  induction l as [|m l IH]; cbn [members_of fold_right wfb_members].
  - split; [constructor|reflexivity].
  - fold (members_of l). rewrite !andb_true_iff, IH. split.
    + intros ((((((H1 & H2) & H3) & H4) & H5) & H6) & H7). constructor; [repeat split; assumption|exact H7].
    + intros H. inversion H as [|? ? (H1 & H2 & H3 & H4 & H5 & H6) H7]; subst. repeat split; assumption.
Qed.

Lemma wfb_arr_of (w0 : list N) (l : list elm) : wfb (arr_of w0 l) = true <-> ws_ok w0 = true /\ Forall elm_ok l.
Proof. unfold arr_of. cbn [wfb]. now rewrite andb_true_iff, wfb_elems_of. Qed.
Lemma wfb_obj_of (w0 : list N) (l : list mem) : wfb (obj_of w0 l) = true <-> ws_ok w0 = true /\ Forall mem_ok l.
Proof. unfold obj_of. cbn [wfb]. now rewrite andb_true_iff, wfb_members_of. Qed.

(* what follows a value inside a container cannot continue a number *)
Lemma vf_after (w : list N) (b : N) (y : list N) :
  ws_ok w = true -> b = 44 \/ b = 93 \/ b = 125 -> val_follow (w ++ b :: y).
Proof.
  intros Hw Hb. unfold val_follow. destruct w as [|a w]; cbn [app].
  - unfold is_digit. repeat split; lia.
  - unfold ws_ok in Hw. cbn [forallb] in Hw. apply andb_prop in Hw as [Ha _]. unfold ws_byte in Ha. unfold is_digit.
    repeat split; lia.
Qed.

Lemma vf_etail (w : list N) (l : list elm) (rst : list N) : ws_ok w = true -> val_follow (etail w l rst).
Proof. intros Hw. destruct l as [|x l]; cbn [etail]; rnorm; apply vf_after; auto. Qed.
Lemma vf_mtail (w : list N) (l : list mem) (rst : list N) : ws_ok w = true -> val_follow (mtail w l rst).
Proof. intros Hw. destruct l as [|m l]; cbn [mtail]; rnorm; apply vf_after; auto. Qed.

(* a rendered value starts with a byte that is neither whitespace nor a closing bracket *)
Definition starts_val (x : list N) : Prop := exists b y, x = b :: y /\ is_ws b = false /\ (b =? 93) = false.

Lemma starts_val_render (c : cst) (z : list N) : wfb c = true -> starts_val (render c ++ z).
Proof.
  intros Hc. destruct (render_head c Hc) as (b & r & Hr & Hb & _ & H93 & _).
  exists b, (r ++ z). rewrite Hr. auto.
Qed.

(* ------------------------------------------------------------------------------------------ *)
(** * 2. Reader steps for any reader kind *)
Section Steps.
Variable k : rkind.
Variable cf : cfg.
Notation E := (mkEnv k TEof cf).

Lemma pwE (w : list N) (b : N) (r : list N) (o : nat) (p : bool) (d : N) :
  ws_ok w = true -> is_ws b = false ->
  parse_whitespace E (mkSt (w ++ b :: r) o p d) = Ok (Some b, mkSt (b :: r) (o + length w) true d).
Proof. intros Hw Hb. rewrite pw_any. apply pw_complete; assumption. Qed.

Lemma hne_close (first : bool) (w y : list N) (o : nat) (p : bool) (d : N) :
  ws_ok w = true -> has_next_element E first (mkSt (w ++ 93 :: y) o p d) = Ok None.
Proof. intros Hw. unfold has_next_element. rewrite pwE by (auto; reflexivity). reflexivity. Qed.

Lemma hne_first (w x : list N) (o : nat) (p : bool) (d : N) :
  ws_ok w = true -> starts_val x ->
  exists o', has_next_element E true (mkSt (w ++ x) o p d) = Ok (Some (mkSt x o' true d)).
Proof.
  intros Hw (b & y & -> & Hb & H93). unfold has_next_element. rewrite pwE by assumption. cbn [bind]. rewrite H93. eauto.
Qed.

Lemma hne_comma (w w1 x : list N) (o : nat) (p : bool) (d : N) :
  ws_ok w = true -> ws_ok w1 = true -> starts_val x ->
  exists o', has_next_element E false (mkSt ((w ++ 44 :: w1) ++ x) o p d) = Ok (Some (mkSt x o' true d)).
Proof.
  intros Hw Hw1 (b & y & -> & Hb & H93). unfold has_next_element. rnorm. rewrite pwE by (auto; reflexivity). cbn [bind].
  change (44 =? 93) with false. change (44 =? 44) with true. cbv iota.
  unfold discard. cbn [rest tl off depth]. rewrite pwE by assumption. cbn [bind]. rewrite H93. eauto.
Qed.

Lemma hnk_close (first : bool) (w y : list N) (o : nat) (p : bool) (d : N) :
  ws_ok w = true -> has_next_key E first (mkSt (w ++ 125 :: y) o p d) = Ok None.
Proof. intros Hw. unfold has_next_key. rewrite pwE by (auto; reflexivity). reflexivity. Qed.

Lemma hnk_first (w y : list N) (o : nat) (p : bool) (d : N) :
  ws_ok w = true ->
  exists o', has_next_key E true (mkSt (w ++ 34 :: y) o p d) = Ok (Some (mkSt (34 :: y) o' true d)).
Proof.
  intros Hw. unfold has_next_key. rewrite pwE by (auto; reflexivity). cbn [bind].
  change (34 =? 125) with false. change (34 =? 34) with true. cbv iota. eauto.
Qed.

Lemma hnk_comma (w w1 y : list N) (o : nat) (p : bool) (d : N) :
  ws_ok w = true -> ws_ok w1 = true ->
  exists o', has_next_key E false (mkSt ((w ++ 44 :: w1) ++ 34 :: y) o p d) = Ok (Some (mkSt (34 :: y) o' true d)).
Proof.
  intros Hw Hw1. unfold has_next_key. rnorm. rewrite pwE by (auto; reflexivity). cbn [bind].
  change (44 =? 125) with false. change (44 =? 44) with true. cbv iota.
  unfold discard. cbn [rest tl off depth]. rewrite pwE by (auto; reflexivity). cbn [bind].
  change (34 =? 34) with true. cbv iota. eauto.
Qed.

Lemma colonE (w y : list N) (o : nat) (p : bool) (d : N) :
  ws_ok w = true -> exists o', parse_object_colon E (mkSt (w ++ 58 :: y) o p d) = Ok (mkSt y o' false d).
Proof.
  intros Hw. unfold parse_object_colon. rewrite pwE by (auto; reflexivity). cbn [bind]. change (58 =? 58) with true. cbv iota.
  unfold discard. cbn [rest tl off depth]. eauto.
Qed.

Lemma end_seqE (w y : list N) (o : nat) (p : bool) (d : N) :
  ws_ok w = true -> exists o', end_seq E (mkSt (w ++ 93 :: y) o p d) = Ok (mkSt y o' false d).
Proof.
  intros Hw. unfold end_seq. rewrite pwE by (auto; reflexivity). cbn [bind]. change (93 =? 93) with true. cbv iota.
  unfold discard. cbn [rest tl off depth]. eauto.
Qed.

Lemma end_mapE (w y : list N) (o : nat) (p : bool) (d : N) :
  ws_ok w = true -> exists o', end_map E (mkSt (w ++ 125 :: y) o p d) = Ok (mkSt y o' false d).
Proof.
  intros Hw. unfold end_map. rewrite pwE by (auto; reflexivity). cbn [bind]. change (125 =? 125) with true. cbv iota.
  unfold discard. cbn [rest tl off depth]. eauto.
Qed.

(* recursion budget: one level must be available *)
Definition depth_avail (d : N) : Prop := limit_disabled cf = true \/ (2 <= d <= 255).

Lemma enter_leaveE (l : list N) (o : nat) (p : bool) (d : N) :
  depth_avail d ->
  exists d', enter E (mkSt l o p d) = Ok (mkSt l o p d')
          /\ forall l' o' p', leave E (mkSt l' o' p' d') = Ok (mkSt l' o' p' d).
Proof.
  intros [Hl|Hd]; unfold enter, leave; cbn [Read.cf depth rest off pk].
  - rewrite Hl. exists d. split; [reflexivity|]. intros. reflexivity.
  - destruct (limit_disabled cf); [exists d; split; [reflexivity|intros; reflexivity]|].
    exists (d - 1). replace (d =? 0) with false by lia. replace (d - 1 =? 0) with false by lia. split; [reflexivity|].
    intros l' o' p'. replace (255 <=? d - 1) with false by lia. replace (d - 1 + 1) with d by lia. reflexivity.
Qed.

(* `[` body `]` : deserialize_seq around a visitor that stops in front of the closing bracket; [X] is the text after `[` *)
Lemma deserialize_seq_ok {A} (body : st -> tres (A * st)) (P : A -> Prop) (w X rst : list N) (o : nat) (p : bool) (d : N) :
  ws_ok w = true -> depth_avail d ->
  (forall o1 p1 d1, exists a s3 w', body (mkSt X o1 p1 d1) = TOk (a, s3) /\ P a
                               /\ ws_ok w' = true /\ rest s3 = w' ++ 93 :: rst /\ depth s3 = d1) ->
  exists a o' p', deserialize_seq E body (mkSt (w ++ 91 :: X) o p d) = TOk (a, mkSt rst o' p' d) /\ P a.
Proof.
  intros Hw Hd Hbody. unfold deserialize_seq. rewrite pwE by (auto; reflexivity). cbn [lift tbind].
  change (91 =? 91) with true. cbv iota. unfold frame.
  destruct (enter_leaveE (91 :: X) (o + length w) true d Hd) as (d' & -> & Hleave). cbn [lift tbind].
  unfold discard. cbn [rest tl off depth].
  destruct (Hbody (S (o + length w)) false d') as (a & [l3 o3 p3 d3] & w' & -> & HP & Hw' & Hr3 & Hd3).
  cbn [rest depth] in Hr3, Hd3. subst l3 d3.
  rewrite Hleave. cbn [lift tbind].
  destruct (end_seqE w' rst o3 p3 d Hw') as (o' & ->). cbn [lift tbind fix_position]. eauto.
Qed.

Lemma deserialize_map_ok {A} (body : st -> tres (A * st)) (P : A -> Prop) (w X rst : list N) (o : nat) (p : bool) (d : N) :
  ws_ok w = true -> depth_avail d ->
  (forall o1 p1 d1, exists a s3 w', body (mkSt X o1 p1 d1) = TOk (a, s3) /\ P a
                               /\ ws_ok w' = true /\ rest s3 = w' ++ 125 :: rst /\ depth s3 = d1) ->
  exists a o' p', deserialize_map E body (mkSt (w ++ 123 :: X) o p d) = TOk (a, mkSt rst o' p' d) /\ P a.
Proof.
  intros Hw Hd Hbody. unfold deserialize_map. rewrite pwE by (auto; reflexivity). cbn [lift tbind].
  change (123 =? 123) with true. cbv iota. unfold frame.
  destruct (enter_leaveE (123 :: X) (o + length w) true d Hd) as (d' & -> & Hleave). cbn [lift tbind].
  unfold discard. cbn [rest tl off depth].
  destruct (Hbody (S (o + length w)) false d') as (a & [l3 o3 p3 d3] & w' & -> & HP & Hw' & Hr3 & Hd3).
  cbn [rest depth] in Hr3, Hd3. subst l3 d3.
  rewrite Hleave. cbn [lift tbind].
  destruct (end_mapE w' rst o3 p3 d Hw') as (o' & ->). cbn [lift tbind fix_position]. eauto.
Qed.

(* deserialize_struct: the two forms *)
Lemma deserialize_struct_seq_ok {A} (body_seq body_map : st -> tres (A * st)) (P : A -> Prop) (w X rst : list N) (o : nat) (p : bool) (d : N) :
  ws_ok w = true -> depth_avail d ->
  (forall o1 p1 d1, exists a s3 w', body_seq (mkSt X o1 p1 d1) = TOk (a, s3) /\ P a
                               /\ ws_ok w' = true /\ rest s3 = w' ++ 93 :: rst /\ depth s3 = d1) ->
  exists a o' p', deserialize_struct E body_seq body_map (mkSt (w ++ 91 :: X) o p d) = TOk (a, mkSt rst o' p' d) /\ P a.
Proof.
  intros Hw Hd Hbody.
  destruct (deserialize_seq_ok body_seq P w X rst o p d Hw Hd Hbody) as (a & o' & p' & H & HP). exists a, o', p'. split; [|exact HP].
  revert H. unfold deserialize_struct, deserialize_seq. rewrite pwE by (auto; reflexivity). cbn [lift tbind].
  change (91 =? 91) with true. cbv iota. auto.
Qed.

Lemma deserialize_struct_map_ok {A} (body_seq body_map : st -> tres (A * st)) (P : A -> Prop) (w X rst : list N) (o : nat) (p : bool) (d : N) :
  ws_ok w = true -> depth_avail d ->
  (forall o1 p1 d1, exists a s3 w', body_map (mkSt X o1 p1 d1) = TOk (a, s3) /\ P a
                               /\ ws_ok w' = true /\ rest s3 = w' ++ 125 :: rst /\ depth s3 = d1) ->
  exists a o' p', deserialize_struct E body_seq body_map (mkSt (w ++ 123 :: X) o p d) = TOk (a, mkSt rst o' p' d) /\ P a.
Proof.
  intros Hw Hd Hbody.
  destruct (deserialize_map_ok body_map P w X rst o p d Hw Hd Hbody) as (a & o' & p' & H & HP). exists a, o', p'. split; [|exact HP].
  revert H. unfold deserialize_struct, deserialize_map. rewrite pwE by (auto; reflexivity). cbn [lift tbind].
  change (123 =? 91) with false. change (123 =? 123) with true. cbv iota. auto.
Qed.

(* the span check of SliceRead / IoRead *)
Definition span_utf8 (c : cst) : Prop := k = RStr \/ utf8_valid (render c) = true.

(* a RawValue at a value position: [x] is what has_next_element / parse_object_colon left in front of it *)
Lemma raw_at (f : nat) (w : list N) (c : cst) (z : list N) (o : nat) (p : bool) (d : N) :
  ws_ok w = true -> wfb c = true -> val_follow z -> span_utf8 c ->
  exists o' p', de_typed (S f) E TRaw (mkSt (w ++ render c ++ z) o p d) = TOk (DRaw (render c), mkSt z o' p' d).
Proof.
  intros Hw Hc Hz Hu. rewrite de_typed_raw.
  destruct (deserialize_raw_complete k cf w c z o p d Hw Hc Hz Hu) as (p' & ->). eauto.
Qed.

(* a key: any reader kind returns the decoded text *)
Lemma parse_str_key (ks : list strpiece) (kb rst : list N) (o : nat) (p : bool) (d : N) :
  str_ok ks = true -> str_text ks = Some kb ->
  exists bw o', parse_str E (mkSt (flat_map render_piece ks ++ 34 :: rst) o p d) = Ok (kb, bw, mkSt rst o' false d).
Proof.
  intros Hok Ht. destruct (parse_str_complete cf ks kb rst o p d Hok Ht) as (bw & Hsl).
  destruct k.
  - eauto.
  - apply slice_ok_str in Hsl. eauto.
  - pose proof (parse_str_io_slice cf (mkSt (flat_map render_piece ks ++ 34 :: rst) o p d)) as Hio.
    rewrite Hsl in Hio. cbn [StrRefine.drop_flag] in Hio.
    destruct (parse_str (mkEnv RIo TEof cf) (mkSt (flat_map render_piece ks ++ 34 :: rst) o p d)) as [[[b bw'] s']|c i| |];
      cbn [StrRefine.drop_flag] in Hio; try discriminate Hio.
    injection Hio as -> ->. eauto.
Qed.

(* ------------------------------------------------------------------------------------------ *)
(** * 3. Sequences and tuples of RawValues *)

Definition elm_utf8 (x : elm) : Prop := span_utf8 (e_c x).
Definition mem_utf8 (m : mem) : Prop := span_utf8 (m_c m).

Lemma de_elems_raws_rest (l : list elm) : Forall elm_ok l -> Forall elm_utf8 l ->
  forall fuel w rst o p d, ws_ok w = true -> (length l + 2 <= fuel)%nat ->
  exists s3 w', de_elems fuel E TRaw false (mkSt (etail w l rst) o p d) = TOk (map DRaw (espans l), s3)
             /\ ws_ok w' = true /\ rest s3 = w' ++ 93 :: rst /\ depth s3 = d.
Proof.
  induction 1 as [|x l (Hw1 & Hc & Hw2) Hl IH]; intros Hu fuel w rst o p d Hw Hfuel.
  - destruct fuel as [|f]; [cbn [length] in Hfuel; lia|]. cbn [etail]. rewrite de_elems_S, hne_close by exact Hw. cbn [lift tbind].
    eexists _, w. cbn [espans map rest depth]. auto.
  - inversion Hu as [|? ? Hux Hul]; subst.
    destruct fuel as [|[|f]]; [cbn [length] in Hfuel; lia|cbn [length] in Hfuel; lia|]. cbn [etail]. rewrite de_elems_S.
    destruct (hne_comma w (e_w1 x) (render (e_c x) ++ etail (e_w2 x) l rst) o p d Hw Hw1
                (starts_val_render _ _ Hc)) as (o1 & ->). cbn [lift tbind].
    destruct (raw_at f [] (e_c x) (etail (e_w2 x) l rst) o1 true d eq_refl Hc (vf_etail _ _ _ Hw2) Hux) as (o2 & p2 & Hraw).
    cbn [app] in Hraw. rewrite Hraw. cbn [tbind].
    destruct (IH Hul (S f) (e_w2 x) rst o2 p2 d Hw2 ltac:(cbn [length] in Hfuel; lia)) as (s3 & w' & -> & Hw' & Hr & Hd).
    cbn [tbind]. exists s3, w'. cbn [espans map]. auto.
Qed.

(* from just after `[` *)
Lemma de_elems_raws_first (w0 : list N) (l : list elm) : ws_ok w0 = true -> Forall elm_ok l -> Forall elm_utf8 l ->
  forall fuel rst o p d, (length l + 2 <= fuel)%nat ->
  exists s3 w', de_elems fuel E TRaw true
                  (mkSt (arr_body w0 l rst) o p d)
                = TOk (map DRaw (espans l), s3)
             /\ ws_ok w' = true /\ rest s3 = w' ++ 93 :: rst /\ depth s3 = d.
Proof.
  intros Hw0 Hok Hu fuel rst o p d Hfuel. unfold arr_body. destruct l as [|x l].
  - destruct fuel as [|f]; [lia|]. rewrite de_elems_S, hne_close by exact Hw0. cbn [lift tbind].
    eexists _, w0. cbn [espans map rest depth]. auto.
  - inversion Hok as [|? ? (Hw1 & Hc & Hw2) Hl]; subst. inversion Hu as [|? ? Hux Hul]; subst.
    destruct fuel as [|[|f]]; [cbn [length] in Hfuel; lia|cbn [length] in Hfuel; lia|]. rewrite de_elems_S.
    destruct (hne_first (e_w1 x) (render (e_c x) ++ etail (e_w2 x) l rst) o p d Hw1 (starts_val_render _ _ Hc)) as (o1 & ->).
    cbn [lift tbind].
    destruct (raw_at f [] (e_c x) (etail (e_w2 x) l rst) o1 true d eq_refl Hc (vf_etail _ _ _ Hw2) Hux) as (o2 & p2 & Hraw).
    cbn [app] in Hraw. rewrite Hraw. cbn [tbind].
    destruct (de_elems_raws_rest l Hl Hul (S f) (e_w2 x) rst o2 p2 d Hw2 ltac:(cbn [length] in Hfuel; lia))
      as (s3 & w' & -> & Hw' & Hr & Hd).
    cbn [tbind]. exists s3, w'. cbn [espans map]. auto.
Qed.

(* tuples: one component per element, all of them RawValues *)
Lemma de_tuple_raws_rest (l : list elm) : Forall elm_ok l -> Forall elm_utf8 l ->
  forall fuel w rst o p d, ws_ok w = true -> (length l + 2 <= fuel)%nat ->
  exists s3 w', de_tuple fuel E (repeat TRaw (length l)) false (mkSt (etail w l rst) o p d) = TOk (map DRaw (espans l), s3)
             /\ ws_ok w' = true /\ rest s3 = w' ++ 93 :: rst /\ depth s3 = d.
Proof.
  induction 1 as [|x l (Hw1 & Hc & Hw2) Hl IH]; intros Hu fuel w rst o p d Hw Hfuel.
  - destruct fuel as [|f]; [cbn [length] in Hfuel; lia|]. cbn [etail length repeat]. rewrite de_tuple_nil.
    eexists _, w. cbn [espans map rest depth]. auto.
  - inversion Hu as [|? ? Hux Hul]; subst.
    destruct fuel as [|[|f]]; [cbn [length] in Hfuel; lia|cbn [length] in Hfuel; lia|]. cbn [etail length repeat]. rewrite de_tuple_cons.
    destruct (hne_comma w (e_w1 x) (render (e_c x) ++ etail (e_w2 x) l rst) o p d Hw Hw1
                (starts_val_render _ _ Hc)) as (o1 & ->). cbn [lift tbind].
    destruct (raw_at f [] (e_c x) (etail (e_w2 x) l rst) o1 true d eq_refl Hc (vf_etail _ _ _ Hw2) Hux) as (o2 & p2 & Hraw).
    cbn [app] in Hraw. rewrite Hraw. cbn [tbind].
    destruct (IH Hul (S f) (e_w2 x) rst o2 p2 d Hw2 ltac:(cbn [length] in Hfuel; lia)) as (s3 & w' & -> & Hw' & Hr & Hd).
    cbn [tbind]. exists s3, w'. cbn [espans map]. auto.
Qed.

Lemma de_tuple_raws_first (w0 : list N) (l : list elm) : ws_ok w0 = true -> Forall elm_ok l -> Forall elm_utf8 l ->
  forall fuel rst o p d, (length l + 2 <= fuel)%nat ->
  exists s3 w', de_tuple fuel E (repeat TRaw (length l)) true
                  (mkSt (arr_body w0 l rst) o p d)
                = TOk (map DRaw (espans l), s3)
             /\ ws_ok w' = true /\ rest s3 = w' ++ 93 :: rst /\ depth s3 = d.
Proof.
  intros Hw0 Hok Hu fuel rst o p d Hfuel. unfold arr_body. destruct l as [|x l].
  - destruct fuel as [|f]; [lia|]. cbn [length repeat]. rewrite de_tuple_nil.
    eexists _, w0. cbn [espans map rest depth]. auto.
  - inversion Hok as [|? ? (Hw1 & Hc & Hw2) Hl]; subst. inversion Hu as [|? ? Hux Hul]; subst.
    destruct fuel as [|[|f]]; [cbn [length] in Hfuel; lia|cbn [length] in Hfuel; lia|]. cbn [length repeat]. rewrite de_tuple_cons.
    destruct (hne_first (e_w1 x) (render (e_c x) ++ etail (e_w2 x) l rst) o p d Hw1 (starts_val_render _ _ Hc)) as (o1 & ->).
    cbn [lift tbind].
    destruct (raw_at f [] (e_c x) (etail (e_w2 x) l rst) o1 true d eq_refl Hc (vf_etail _ _ _ Hw2) Hux) as (o2 & p2 & Hraw).
    cbn [app] in Hraw. rewrite Hraw. cbn [tbind].
    destruct (de_tuple_raws_rest l Hl Hul (S f) (e_w2 x) rst o2 p2 d Hw2 ltac:(cbn [length] in Hfuel; lia))
      as (s3 & w' & -> & Hw' & Hr & Hd).
    cbn [tbind]. exists s3, w'. cbn [espans map]. auto.
Qed.

(* ------------------------------------------------------------------------------------------ *)
(** * 4. Maps with RawValue values *)

Definition entry_is (e : dval * dval) (ks : list N * list N) : Prop := exists bw, e = (DStr (fst ks) bw, DRaw (snd ks)).
Definition key_is (m : mem) (kb : list N) : Prop := str_text (m_k m) = Some kb.

(* the text of one member, from its opening quote *)
Definition member_text (m : mem) (Z : list N) : list N :=
  34 :: flat_map render_piece (m_k m) ++ 34 :: m_w2 m ++ 58 :: m_w3 m ++ render (m_c m) ++ Z.

Lemma member_text_eq (m : mem) (Z : list N) :
  render_str (m_k m) ++ m_w2 m ++ 58 :: m_w3 m ++ render (m_c m) ++ Z = member_text m Z.
Proof. unfold member_text, render_str. rnorm. reflexivity. Qed.

(* one iteration of the map visitor, after has_next_key found the key *)
Lemma de_entries_step (f : nat) (first : bool) (pre : list N) (m : mem) (kb Z : list N) (o : nat) (p : bool) (d : N) (o1 : nat) :
  mem_ok m -> mem_utf8 m -> key_is m kb -> val_follow Z ->
  has_next_key E first (mkSt (pre ++ member_text m Z) o p d) = Ok (Some (mkSt (member_text m Z) o1 true d)) ->
  exists bw o2 p2,
    de_entries (S (S f)) E KStr TRaw first (mkSt (pre ++ member_text m Z) o p d)
    = (let+ (es, s5) := de_entries (S f) E KStr TRaw false (mkSt Z o2 p2 d) in
       TOk ((DStr kb bw, DRaw (render (m_c m))) :: es, s5)).
Proof.
  intros (Hw1 & Hk & Hw2 & Hw3 & Hc & Hw4) Hu Hkey HZ Hhnk.
  rewrite de_entries_S, Hhnk. cbn [lift tbind]. rewrite de_key_str.
  unfold member_text at 1. unfold discard. cbn [rest tl off depth].
  destruct (parse_str_key (m_k m) kb (m_w2 m ++ 58 :: m_w3 m ++ render (m_c m) ++ Z) (S o1) false d Hk Hkey) as (bw & o3 & ->).
  cbn [lift tbind visit_string].
  destruct (colonE (m_w2 m) (m_w3 m ++ render (m_c m) ++ Z) o3 false d Hw2) as (o4 & ->). cbn [lift tbind].
  destruct (raw_at f (m_w3 m) (m_c m) Z o4 false d Hw3 Hc HZ Hu) as (o5 & p5 & ->). cbn [tbind].
  exists bw, o5, p5. reflexivity.
Qed.

Lemma de_entries_raws_rest (l : list mem) : Forall mem_ok l -> Forall mem_utf8 l ->
  forall keys, Forall2 key_is l keys ->
  forall fuel w rst o p d, ws_ok w = true -> (length l + 2 <= fuel)%nat ->
  exists es s3 w', de_entries fuel E KStr TRaw false (mkSt (mtail w l rst) o p d) = TOk (es, s3)
             /\ Forall2 entry_is es (combine keys (mspans l))
             /\ ws_ok w' = true /\ rest s3 = w' ++ 125 :: rst /\ depth s3 = d.
Proof.
  induction 1 as [|m l Hm Hl IH]; intros Hu keys Hkeys fuel w rst o p d Hw Hfuel.
  - inversion Hkeys; subst.
    destruct fuel as [|f]; [cbn [length] in Hfuel; lia|]. cbn [mtail]. rewrite de_entries_S, hnk_close by exact Hw. cbn [lift tbind].
    eexists [], _, w. cbn [mspans map combine rest depth]. repeat split; auto.
  - inversion Hu as [|? ? Hum Hul]; subst. inversion Hkeys as [|? kb ? keys' Hkb Hkeys']; subst.
    destruct fuel as [|[|f]]; [cbn [length] in Hfuel; lia|cbn [length] in Hfuel; lia|]. cbn [mtail].
    rewrite member_text_eq.
    pose proof Hm as (Hw1 & Hk & Hw2 & Hw3 & Hc & Hw4).
    destruct (hnk_comma w (m_w1 m) (tl (member_text m (mtail (m_w4 m) l rst))) o p d Hw Hw1) as (o1 & Hhnk).
    change (34 :: tl (member_text m (mtail (m_w4 m) l rst))) with (member_text m (mtail (m_w4 m) l rst)) in Hhnk.
    destruct (de_entries_step f false _ m kb _ o p d o1 Hm Hum Hkb (vf_mtail _ _ _ Hw4) Hhnk) as (bw & o2 & p2 & ->).
    destruct (IH Hul keys' Hkeys' (S f) (m_w4 m) rst o2 p2 d Hw4 ltac:(cbn [length] in Hfuel; lia))
      as (es & s3 & w' & -> & Hes & Hw' & Hr & Hd).
    cbn [tbind]. eexists _, s3, w'. split; [reflexivity|]. cbn [mspans map combine]. repeat split; auto.
    constructor; [exists bw; reflexivity|exact Hes].
Qed.

Lemma de_entries_raws_first (w0 : list N) (l : list mem) : ws_ok w0 = true -> Forall mem_ok l -> Forall mem_utf8 l ->
  forall keys, Forall2 key_is l keys ->
  forall fuel rst o p d, (length l + 2 <= fuel)%nat ->
  exists es s3 w', de_entries fuel E KStr TRaw true
                  (mkSt (obj_body w0 l rst) o p d) = TOk (es, s3)
             /\ Forall2 entry_is es (combine keys (mspans l))
             /\ ws_ok w' = true /\ rest s3 = w' ++ 125 :: rst /\ depth s3 = d.
Proof.
  intros Hw0 Hok Hu keys Hkeys fuel rst o p d Hfuel. unfold obj_body. destruct l as [|m l].
  - inversion Hkeys; subst. destruct fuel as [|f]; [lia|]. rewrite de_entries_S, hnk_close by exact Hw0. cbn [lift tbind].
    eexists [], _, w0. cbn [mspans map combine rest depth]. repeat split; auto.
  - inversion Hok as [|? ? Hm Hl]; subst. inversion Hu as [|? ? Hum Hul]; subst.
    inversion Hkeys as [|? kb ? keys' Hkb Hkeys']; subst.
    destruct fuel as [|[|f]]; [cbn [length] in Hfuel; lia|cbn [length] in Hfuel; lia|].
    rewrite member_text_eq.
    pose proof Hm as (Hw1 & Hk & Hw2 & Hw3 & Hc & Hw4).
    destruct (hnk_first (m_w1 m) (tl (member_text m (mtail (m_w4 m) l rst))) o p d Hw1) as (o1 & Hhnk).
    change (34 :: tl (member_text m (mtail (m_w4 m) l rst))) with (member_text m (mtail (m_w4 m) l rst)) in Hhnk.
    destruct (de_entries_step f true _ m kb _ o p d o1 Hm Hum Hkb (vf_mtail _ _ _ Hw4) Hhnk) as (bw & o2 & p2 & ->).
    destruct (de_entries_raws_rest l Hl Hul keys' Hkeys' (S f) (m_w4 m) rst o2 p2 d Hw4 ltac:(cbn [length] in Hfuel; lia))
      as (es & s3 & w' & -> & Hes & Hw' & Hr & Hd).
    cbn [tbind]. eexists _, s3, w'. split; [reflexivity|]. cbn [mspans map combine]. repeat split; auto.
    constructor; [exists bw; reflexivity|exact Hes].
Qed.

(* ------------------------------------------------------------------------------------------ *)
(** * 5. Structs whose fields are RawValues, named form *)

Definition mkfields (names : list (list N)) : list (list N * ty) := map (fun n => (n, TRaw)) names.

Lemma index_of_mk (ndone : list (list N)) (n : list N) (ntodo : list (list N)) :
  ~ In n ndone -> index_of n (mkfields (ndone ++ n :: ntodo)) = Some (length ndone, TRaw).
Proof.
  induction ndone as [|a ndone IH]; intros Hn; cbn [mkfields app map index_of length].
  - rewrite beq_bytes_refl. reflexivity.
  - assert (Hna : beq_bytes n a = false). { apply beq_bytes_false_iff. intros ->. apply Hn. left. reflexivity. }
    rewrite Hna. fold (mkfields (ndone ++ n :: ntodo)). rewrite IH; [reflexivity|]. intros Hin. apply Hn. right. exact Hin.
Qed.

Lemma slot_filled_next (ds : list dval) (r : list (option dval)) : slot_filled (length ds) (map Some ds ++ None :: r) = false.
Proof.
  unfold slot_filled. rewrite app_nth2 by (rewrite map_length; lia). rewrite map_length, Nat.sub_diag. reflexivity.
Qed.

Lemma set_slot_next (ds : list dval) (x : dval) (r : list (option dval)) :
  set_slot (length ds) x (map Some ds ++ None :: r) = map Some (ds ++ [x]) ++ r.
Proof. induction ds as [|a ds IH]; cbn [length map app set_slot]; [reflexivity|]. now rewrite IH. Qed.

Lemma finish_all (names : list (list N)) : forall (ds : list dval) (s : st), length ds = length names ->
  finish_struct (mkfields names) (map Some ds) s = TOk ds.
Proof.
  induction names as [|n names IH]; intros ds s Hlen; destruct ds as [|x ds]; try discriminate Hlen.
  - reflexivity.
  - cbn [mkfields map finish_struct]. fold (mkfields names). rewrite IH by (cbn [length] in Hlen; lia). reflexivity.
Qed.

Definition none_slots (names : list (list N)) : list (option dval) := map (fun _ => None) names.

Lemma de_fields_step (f : nat) (first : bool) (pre : list N) (m : mem) (n : list N) (ndone ntodo : list (list N))
    (ddone : list dval) (Z : list N) (o : nat) (p : bool) (d : N) (o1 : nat) :
  mem_ok m -> mem_utf8 m -> key_is m n -> val_follow Z -> ~ In n ndone -> length ddone = length ndone ->
  has_next_key E first (mkSt (pre ++ member_text m Z) o p d) = Ok (Some (mkSt (member_text m Z) o1 true d)) ->
  exists o2 p2,
    de_fields (S (S f)) E (mkfields (ndone ++ n :: ntodo)) (map Some ddone ++ none_slots (n :: ntodo)) first
      (mkSt (pre ++ member_text m Z) o p d)
    = de_fields (S f) E (mkfields (ndone ++ n :: ntodo)) (map Some (ddone ++ [DRaw (render (m_c m))]) ++ none_slots ntodo) false
        (mkSt Z o2 p2 d).
Proof.
  intros (Hw1 & Hk & Hw2 & Hw3 & Hc & Hw4) Hu Hkey HZ Hnin Hlen Hhnk.
  rewrite de_fields_S, Hhnk. cbn [lift tbind].
  unfold member_text at 1. unfold discard. cbn [rest tl off depth].
  destruct (parse_str_key (m_k m) n (m_w2 m ++ 58 :: m_w3 m ++ render (m_c m) ++ Z) (S o1) false d Hk Hkey) as (bw & o3 & ->).
  cbn [lift tbind]. rewrite index_of_mk by exact Hnin. cbn [none_slots map]. rewrite <- Hlen, slot_filled_next.
  destruct (colonE (m_w2 m) (m_w3 m ++ render (m_c m) ++ Z) o3 false d Hw2) as (o4 & ->). cbn [lift tbind].
  destruct (raw_at f (m_w3 m) (m_c m) Z o4 false d Hw3 Hc HZ Hu) as (o5 & p5 & ->). cbn [tbind].
  rewrite set_slot_next. exists o5, p5. reflexivity.
Qed.

Lemma app_cons_assoc {A} (a : list A) (x : A) (b : list A) : a ++ x :: b = (a ++ [x]) ++ b.
Proof. now rewrite <- app_assoc. Qed.

Lemma de_fields_raws_rest (l : list mem) : Forall mem_ok l -> Forall mem_utf8 l ->
  forall ntodo, Forall2 key_is l ntodo ->
  forall ndone ddone, length ddone = length ndone -> NoDup (ndone ++ ntodo) ->
  forall fuel w rst o p d, ws_ok w = true -> (length l + 2 <= fuel)%nat ->
  exists s3 w', de_fields fuel E (mkfields (ndone ++ ntodo)) (map Some ddone ++ none_slots ntodo) false (mkSt (mtail w l rst) o p d)
                = TOk (ddone ++ map DRaw (mspans l), s3)
             /\ ws_ok w' = true /\ rest s3 = w' ++ 125 :: rst /\ depth s3 = d.
Proof.
  induction 1 as [|m l Hm Hl IH]; intros Hu ntodo Hkeys ndone ddone Hlen Hnd fuel w rst o p d Hw Hfuel.
  - inversion Hkeys; subst.
    destruct fuel as [|f]; [cbn [length] in Hfuel; lia|]. cbn [mtail]. rewrite de_fields_S, hnk_close by exact Hw. cbn [lift tbind].
    cbn [none_slots map]. rewrite !app_nil_r. rewrite finish_all by exact Hlen. cbn [tbind].
    eexists _, w. cbn [mspans map rest depth]. rewrite ?app_nil_r. auto.
  - inversion Hu as [|? ? Hum Hul]; subst. inversion Hkeys as [|? n ? ntodo' Hkn Hkeys']; subst.
    destruct fuel as [|[|f]]; [cbn [length] in Hfuel; lia|cbn [length] in Hfuel; lia|]. cbn [mtail].
    rewrite member_text_eq.
    pose proof Hm as (Hw1 & Hk & Hw2 & Hw3 & Hc & Hw4).
    assert (Hnin : ~ In n ndone).
    { intros Hin. apply NoDup_remove_2 in Hnd. apply Hnd. apply in_or_app. left. exact Hin. }
    destruct (hnk_comma w (m_w1 m) (tl (member_text m (mtail (m_w4 m) l rst))) o p d Hw Hw1) as (o1 & Hhnk).
    change (34 :: tl (member_text m (mtail (m_w4 m) l rst))) with (member_text m (mtail (m_w4 m) l rst)) in Hhnk.
    destruct (de_fields_step f false _ m n ndone ntodo' ddone _ o p d o1 Hm Hum Hkn (vf_mtail _ _ _ Hw4) Hnin Hlen Hhnk)
      as (o2 & p2 & ->).
    rewrite (app_cons_assoc ndone n ntodo').
    destruct (IH Hul ntodo' Hkeys' (ndone ++ [n]) (ddone ++ [DRaw (render (m_c m))])
                ltac:(rewrite !app_length; cbn [length]; lia)
                ltac:(rewrite <- app_cons_assoc; exact Hnd)
                (S f) (m_w4 m) rst o2 p2 d Hw4 ltac:(cbn [length] in Hfuel; lia))
      as (s3 & w' & -> & Hw' & Hr & Hd).
    exists s3, w'. cbn [mspans map]. rewrite <- app_assoc. cbn [app]. auto.
Qed.

Lemma de_fields_raws_first (w0 : list N) (l : list mem) : ws_ok w0 = true -> Forall mem_ok l -> Forall mem_utf8 l ->
  forall names, Forall2 key_is l names -> NoDup names ->
  forall fuel rst o p d, (length l + 2 <= fuel)%nat ->
  exists s3 w', de_fields fuel E (mkfields names) (map (fun _ => None) (mkfields names)) true
                  (mkSt (obj_body w0 l rst) o p d) = TOk (map DRaw (mspans l), s3)
             /\ ws_ok w' = true /\ rest s3 = w' ++ 125 :: rst /\ depth s3 = d.
Proof.
  intros Hw0 Hok Hu names Hkeys Hnd fuel rst o p d Hfuel.
  assert (Hslots : map (fun _ : list N * ty => @None dval) (mkfields names) = map Some [] ++ none_slots names).
  { unfold mkfields, none_slots. rewrite map_map. reflexivity. }
  rewrite Hslots. clear Hslots. unfold obj_body.
  destruct l as [|m l].
  - inversion Hkeys; subst. destruct fuel as [|f]; [lia|]. rewrite de_fields_S, hnk_close by exact Hw0. cbn [lift tbind].
    cbn [none_slots map app mkfields finish_struct tbind]. eexists _, w0. cbn [mspans map rest depth]. auto.
  - inversion Hok as [|? ? Hm Hl]; subst. inversion Hu as [|? ? Hum Hul]; subst.
    inversion Hkeys as [|? n ? names' Hkn Hkeys']; subst.
    destruct fuel as [|[|f]]; [cbn [length] in Hfuel; lia|cbn [length] in Hfuel; lia|].
    rewrite member_text_eq.
    pose proof Hm as (Hw1 & Hk & Hw2 & Hw3 & Hc & Hw4).
    destruct (hnk_first (m_w1 m) (tl (member_text m (mtail (m_w4 m) l rst))) o p d Hw1) as (o1 & Hhnk).
    change (34 :: tl (member_text m (mtail (m_w4 m) l rst))) with (member_text m (mtail (m_w4 m) l rst)) in Hhnk.
    destruct (de_fields_step f true _ m n [] names' [] _ o p d o1 Hm Hum Hkn (vf_mtail _ _ _ Hw4) (fun H => H) eq_refl Hhnk)
      as (o2 & p2 & Hstep).
    cbn [app] in Hstep. rewrite Hstep.
    destruct (de_fields_raws_rest l Hl Hul names' Hkeys' [n] [DRaw (render (m_c m))] eq_refl Hnd
                (S f) (m_w4 m) rst o2 p2 d Hw4 ltac:(cbn [length] in Hfuel; lia))
      as (s3 & w' & Heq & Hw' & Hr & Hd).
    cbn [app] in Heq. rewrite Heq. exists s3, w'. cbn [mspans map]. auto.
Qed.

End Steps.

(* ------------------------------------------------------------------------------------------ *)
(** * 6. From the validity of the whole text to the validity of every captured span *)

Lemma etail_utf8 (k : rkind) (l : list elm) : Forall elm_ok l ->
  forall A w rst, utf8_valid (A ++ etail w l rst) = true -> Forall (elm_utf8 k) l.
Proof.
  induction 1 as [|x l (Hw1 & Hc & Hw2) Hl IH]; intros A w rst Hv; constructor.
  - right. cbn [etail] in Hv. rewrite app_assoc in Hv. exact (render_utf8_mid _ _ _ Hc Hv).
  - cbn [etail] in Hv. rewrite !app_assoc in Hv. exact (IH _ _ _ Hv).
Qed.

Lemma mtail_utf8 (k : rkind) (l : list mem) : Forall mem_ok l ->
  forall A w rst, utf8_valid (A ++ mtail w l rst) = true -> Forall (mem_utf8 k) l.
Proof.
  induction 1 as [|m l (Hw1 & Hk & Hw2 & Hw3 & Hc & Hw4) Hl IH]; intros A w rst Hv; constructor.
  - right. cbn [mtail] in Hv.
    replace (A ++ (w ++ 44 :: m_w1 m) ++ render_str (m_k m) ++ m_w2 m ++ 58 :: m_w3 m ++ render (m_c m) ++ mtail (m_w4 m) l rst)
      with ((A ++ (w ++ 44 :: m_w1 m) ++ render_str (m_k m) ++ m_w2 m ++ 58 :: m_w3 m) ++ render (m_c m) ++ mtail (m_w4 m) l rst) in Hv
      by (rnorm; reflexivity).
    exact (render_utf8_mid _ _ _ Hc Hv).
  - cbn [mtail] in Hv.
    replace (A ++ (w ++ 44 :: m_w1 m) ++ render_str (m_k m) ++ m_w2 m ++ 58 :: m_w3 m ++ render (m_c m) ++ mtail (m_w4 m) l rst)
      with ((A ++ (w ++ 44 :: m_w1 m) ++ render_str (m_k m) ++ m_w2 m ++ 58 :: m_w3 m ++ render (m_c m)) ++ mtail (m_w4 m) l rst) in Hv
      by (rnorm; reflexivity).
    exact (IH _ _ _ Hv).
Qed.

Lemma arr_utf8 (k : rkind) (A w0 : list N) (l : list elm) (rst : list N) : Forall elm_ok l ->
  (k = RStr \/ utf8_valid (A ++ render (arr_of w0 l) ++ rst) = true) -> Forall (elm_utf8 k) l.
Proof.
  intros Hok [->|Hv]; [apply Forall_forall; intros x _; left; reflexivity|].
  rewrite render_arr_of in Hv. unfold arr_body in Hv. destruct l as [|x l]; [constructor|].
  inversion Hok as [|? ? (Hw1 & Hc & Hw2) Hl]; subst. constructor.
  - right. replace (A ++ 91 :: e_w1 x ++ render (e_c x) ++ etail (e_w2 x) l rst)
      with ((A ++ 91 :: e_w1 x) ++ render (e_c x) ++ etail (e_w2 x) l rst) in Hv by (rnorm; reflexivity).
    exact (render_utf8_mid _ _ _ Hc Hv).
  - replace (A ++ 91 :: e_w1 x ++ render (e_c x) ++ etail (e_w2 x) l rst)
      with ((A ++ 91 :: e_w1 x ++ render (e_c x)) ++ etail (e_w2 x) l rst) in Hv by (rnorm; reflexivity).
    exact (etail_utf8 k l Hl _ _ _ Hv).
Qed.

Lemma obj_utf8 (k : rkind) (A w0 : list N) (l : list mem) (rst : list N) : Forall mem_ok l ->
  (k = RStr \/ utf8_valid (A ++ render (obj_of w0 l) ++ rst) = true) -> Forall (mem_utf8 k) l.
Proof.
  intros Hok [->|Hv]; [apply Forall_forall; intros x _; left; reflexivity|].
  rewrite render_obj_of in Hv. unfold obj_body in Hv. destruct l as [|m l]; [constructor|].
  inversion Hok as [|? ? (Hw1 & Hk & Hw2 & Hw3 & Hc & Hw4) Hl]; subst. constructor.
  - right.
    replace (A ++ 123 :: m_w1 m ++ render_str (m_k m) ++ m_w2 m ++ 58 :: m_w3 m ++ render (m_c m) ++ mtail (m_w4 m) l rst)
      with ((A ++ 123 :: m_w1 m ++ render_str (m_k m) ++ m_w2 m ++ 58 :: m_w3 m) ++ render (m_c m) ++ mtail (m_w4 m) l rst) in Hv
      by (rnorm; reflexivity).
    exact (render_utf8_mid _ _ _ Hc Hv).
  - replace (A ++ 123 :: m_w1 m ++ render_str (m_k m) ++ m_w2 m ++ 58 :: m_w3 m ++ render (m_c m) ++ mtail (m_w4 m) l rst)
      with ((A ++ 123 :: m_w1 m ++ render_str (m_k m) ++ m_w2 m ++ 58 :: m_w3 m ++ render (m_c m)) ++ mtail (m_w4 m) l rst) in Hv
      by (rnorm; reflexivity).
    exact (mtail_utf8 k l Hl _ _ _ Hv).
Qed.

(* fuel: a container text is at least as long as its number of elements *)
Lemma etail_len (l : list elm) : forall w rst, (length l <= length (etail w l rst))%nat.
Proof.
  induction l as [|x l IH]; intros w rst; cbn [etail length]; [lia|].
  rewrite !app_length. cbn [length]. specialize (IH (e_w2 x) rst). lia.
Qed.
Lemma mtail_len (l : list mem) : forall w rst, (length l <= length (mtail w l rst))%nat.
Proof.
  induction l as [|m l IH]; intros w rst; cbn [mtail length]; [lia|].
  repeat (rewrite app_length || cbn [length]). specialize (IH (m_w4 m) rst). lia.
Qed.
Lemma arr_len (w0 : list N) (l : list elm) (rst : list N) : (length l <= length (render (arr_of w0 l) ++ rst))%nat.
Proof.
  rewrite render_arr_of. unfold arr_body. destruct l as [|x l]; cbn [length]; [lia|]. rewrite !app_length. pose proof (etail_len l (e_w2 x) rst). lia.
Qed.
Lemma obj_len (w0 : list N) (l : list mem) (rst : list N) : (length l <= length (render (obj_of w0 l) ++ rst))%nat.
Proof.
  rewrite render_obj_of. unfold obj_body. destruct l as [|m l]; cbn [length]; [lia|]. repeat (rewrite app_length || cbn [length]).
  pose proof (mtail_len l (m_w4 m) rst). lia.
Qed.

Lemma depth0_avail (cf : cfg) : depth_avail cf DEPTH0.
Proof. right. rewrite DEPTH0_val. lia. Qed.

Lemma snd_mkfields (names : list (list N)) : map snd (mkfields names) = repeat TRaw (length names).
Proof. induction names as [|n names IH]; cbn [mkfields map snd length repeat]; [reflexivity|]. fold (mkfields names). now rewrite IH. Qed.

(* ------------------------------------------------------------------------------------------ *)
(** * 7. The theorems: whole inputs, through from_str / from_slice / from_reader and Deserializer::end *)
Section Top.
Variable k : rkind.
Variable cf : cfg.
Notation E := (mkEnv k TEof cf).

(* the input is valid UTF-8 (always, for a &str; needed for the span check of the other two sources) *)
Definition input_ok (bs : list N) : Prop := k = RStr \/ utf8_valid bs = true.

Ltac fuel_split f Hf :=
  unfold typed_fuel;
  match goal with |- context [(4 * ?L + 2 * ?D + 8)%nat] =>
    replace (4 * L + 2 * D + 8)%nat with (S (S (S (4 * L + 2 * D + 5)))) by lia;
    set (f := (4 * L + 2 * D + 5)%nat);
    assert (Hf : (L + 5 <= f)%nat) by (unfold f; lia)
  end.

(* Vec<Box<RawValue>> / Vec<&RawValue> *)
Theorem seq_of_raws : forall w1 w0 l w2,
  ws_ok w1 = true -> ws_ok w2 = true -> wfb (arr_of w0 l) = true -> input_ok (w1 ++ render (arr_of w0 l) ++ w2) ->
  from_input_typed E (TSeq TRaw) (w1 ++ render (arr_of w0 l) ++ w2) = TOk (DSeq (map DRaw (espans l))).
Proof.
  intros w1 w0 l w2 Hw1 Hw2 Hwf Hin. apply wfb_arr_of in Hwf as [Hw0 Hok].
  pose proof (arr_utf8 k w1 w0 l w2 Hok Hin) as Hu.
  pose proof (arr_len w0 l w2) as Hlen.
  unfold from_input_typed, init_st. fuel_split f Hf. rewrite app_length in Hf.
  rewrite de_typed_seq. rewrite render_arr_of.
  destruct (deserialize_seq_ok k cf (fun s' => de_elems (S (S f)) E TRaw true s') (eq (map DRaw (espans l))) w1 (arr_body w0 l w2) w2 0 false DEPTH0
              Hw1 (depth0_avail cf)) as (a & o' & p' & -> & <-).
  { intros o1 p1 d1.
    destruct (de_elems_raws_first k cf w0 l Hw0 Hok Hu (S (S f)) w2 o1 p1 d1 ltac:(lia)) as (s3 & w' & H1 & H2 & H3 & H4).
    exists (map DRaw (espans l)), s3, w'. auto. }
  unfold tmap. cbn [tbind].
  destruct (de_end_ws_any k cf w2 o' p' DEPTH0 Hw2) as (s' & ->). reflexivity.
Qed.

(* (RawValue, .., RawValue) and tuple structs *)
Lemma tuple_frame : forall w1 w0 l w2 f,
  ws_ok w1 = true -> ws_ok w0 = true -> Forall elm_ok l -> Forall (elm_utf8 k) l -> (length l + 2 <= f)%nat ->
  exists o' p', deserialize_seq E (fun s' => de_tuple f E (repeat TRaw (length l)) true s')
                  (mkSt (w1 ++ render (arr_of w0 l) ++ w2) 0 false DEPTH0)
                = TOk (map DRaw (espans l), mkSt w2 o' p' DEPTH0).
Proof.
  intros w1 w0 l w2 f Hw1 Hw0 Hok Hu Hf. rewrite render_arr_of.
  destruct (deserialize_seq_ok k cf (fun s' => de_tuple f E (repeat TRaw (length l)) true s') (eq (map DRaw (espans l))) w1 (arr_body w0 l w2) w2 0 false DEPTH0
              Hw1 (depth0_avail cf)) as (a & o' & p' & -> & <-).
  { intros o1 p1 d1.
    destruct (de_tuple_raws_first k cf w0 l Hw0 Hok Hu f w2 o1 p1 d1 Hf) as (s3 & w' & H1 & H2 & H3 & H4).
    exists (map DRaw (espans l)), s3, w'. auto. }
  eauto.
Qed.

Theorem tuple_of_raws : forall w1 w0 l w2,
  ws_ok w1 = true -> ws_ok w2 = true -> wfb (arr_of w0 l) = true -> input_ok (w1 ++ render (arr_of w0 l) ++ w2) ->
  from_input_typed E (TTuple (repeat TRaw (length l))) (w1 ++ render (arr_of w0 l) ++ w2) = TOk (DSeq (map DRaw (espans l))).
Proof.
  intros w1 w0 l w2 Hw1 Hw2 Hwf Hin. apply wfb_arr_of in Hwf as [Hw0 Hok].
  pose proof (arr_utf8 k w1 w0 l w2 Hok Hin) as Hu.
  pose proof (arr_len w0 l w2) as Hlen.
  unfold from_input_typed, init_st. fuel_split f Hf. rewrite app_length in Hf.
  rewrite de_typed_tuple.
  destruct (tuple_frame w1 w0 l w2 (S (S f)) Hw1 Hw0 Hok Hu ltac:(lia)) as (o' & p' & ->).
  unfold tmap. cbn [tbind].
  destruct (de_end_ws_any k cf w2 o' p' DEPTH0 Hw2) as (s' & ->). reflexivity.
Qed.

Theorem tuple_struct_of_raws : forall w1 w0 l w2,
  ws_ok w1 = true -> ws_ok w2 = true -> wfb (arr_of w0 l) = true -> input_ok (w1 ++ render (arr_of w0 l) ++ w2) ->
  from_input_typed E (TTupleStruct (repeat TRaw (length l))) (w1 ++ render (arr_of w0 l) ++ w2) = TOk (DSeq (map DRaw (espans l))).
Proof.
  intros w1 w0 l w2 Hw1 Hw2 Hwf Hin. apply wfb_arr_of in Hwf as [Hw0 Hok].
  pose proof (arr_utf8 k w1 w0 l w2 Hok Hin) as Hu.
  pose proof (arr_len w0 l w2) as Hlen.
  unfold from_input_typed, init_st. fuel_split f Hf. rewrite app_length in Hf.
  rewrite de_typed_tuple_struct.
  destruct (tuple_frame w1 w0 l w2 (S (S f)) Hw1 Hw0 Hok Hu ltac:(lia)) as (o' & p' & ->).
  unfold tmap. cbn [tbind].
  destruct (de_end_ws_any k cf w2 o' p' DEPTH0 Hw2) as (s' & ->). reflexivity.
Qed.

(* HashMap<String, Box<RawValue>> etc.: keys decoded, values verbatim, in source order *)
Theorem map_of_raws : forall w1 w0 l w2 keys,
  ws_ok w1 = true -> ws_ok w2 = true -> wfb (obj_of w0 l) = true -> Forall2 key_is l keys ->
  input_ok (w1 ++ render (obj_of w0 l) ++ w2) ->
  exists es, from_input_typed E (TMap KStr TRaw) (w1 ++ render (obj_of w0 l) ++ w2) = TOk (DMap es)
          /\ Forall2 entry_is es (combine keys (mspans l)).
Proof.
  intros w1 w0 l w2 keys Hw1 Hw2 Hwf Hkeys Hin. apply wfb_obj_of in Hwf as [Hw0 Hok].
  pose proof (obj_utf8 k w1 w0 l w2 Hok Hin) as Hu.
  pose proof (obj_len w0 l w2) as Hlen.
  unfold from_input_typed, init_st. fuel_split f Hf. rewrite app_length in Hf.
  rewrite de_typed_map. rewrite render_obj_of.
  destruct (deserialize_map_ok k cf (fun s' => de_entries (S (S f)) E KStr TRaw true s')
              (fun es => Forall2 entry_is es (combine keys (mspans l))) w1 (obj_body w0 l w2) w2 0 false DEPTH0
              Hw1 (depth0_avail cf)) as (es & o' & p' & -> & Hes).
  { intros o1 p1 d1.
    destruct (de_entries_raws_first k cf w0 l Hw0 Hok Hu keys Hkeys (S (S f)) w2 o1 p1 d1 ltac:(lia))
      as (es & s3 & w' & H1 & H2 & H3 & H4 & H5).
    exists es, s3, w'. auto. }
  exists es. split; [|exact Hes].
  unfold tmap. cbn [tbind].
  destruct (de_end_ws_any k cf w2 o' p' DEPTH0 Hw2) as (s' & ->). reflexivity.
Qed.

(* struct S { f1: RawValue, .., fn: RawValue } from `{ "f1": v1, .., "fn": vn }` (members in declaration order) *)
Theorem struct_of_raws : forall w1 w0 l w2 names,
  ws_ok w1 = true -> ws_ok w2 = true -> wfb (obj_of w0 l) = true -> Forall2 key_is l names -> NoDup names ->
  input_ok (w1 ++ render (obj_of w0 l) ++ w2) ->
  from_input_typed E (TStruct (mkfields names)) (w1 ++ render (obj_of w0 l) ++ w2) = TOk (DStruct (map DRaw (mspans l))).
Proof.
  intros w1 w0 l w2 names Hw1 Hw2 Hwf Hkeys Hnd Hin. apply wfb_obj_of in Hwf as [Hw0 Hok].
  pose proof (obj_utf8 k w1 w0 l w2 Hok Hin) as Hu.
  pose proof (obj_len w0 l w2) as Hlen.
  unfold from_input_typed, init_st. fuel_split f Hf. rewrite app_length in Hf.
  rewrite de_typed_struct, de_struct_S. rewrite render_obj_of.
  destruct (deserialize_struct_map_ok k cf
              (fun s' => de_tuple (S f) E (map snd (mkfields names)) true s')
              (fun s' => de_fields (S f) E (mkfields names) (map (fun _ => None) (mkfields names)) true s')
              (eq (map DRaw (mspans l))) w1 (obj_body w0 l w2) w2 0 false DEPTH0
              Hw1 (depth0_avail cf)) as (a & o' & p' & -> & <-).
  { intros o1 p1 d1.
    destruct (de_fields_raws_first k cf w0 l Hw0 Hok Hu names Hkeys Hnd (S f) w2 o1 p1 d1 ltac:(lia))
      as (s3 & w' & H1 & H2 & H3 & H4).
    exists (map DRaw (mspans l)), s3, w'. auto. }
  unfold tmap. cbn [tbind].
  destruct (de_end_ws_any k cf w2 o' p' DEPTH0 Hw2) as (s' & ->). reflexivity.
Qed.

(* the same struct from the positional form `[ v1, .., vn ]` *)
Theorem struct_of_raws_positional : forall w1 w0 l w2 names,
  ws_ok w1 = true -> ws_ok w2 = true -> wfb (arr_of w0 l) = true -> length names = length l ->
  input_ok (w1 ++ render (arr_of w0 l) ++ w2) ->
  from_input_typed E (TStruct (mkfields names)) (w1 ++ render (arr_of w0 l) ++ w2) = TOk (DStruct (map DRaw (espans l))).
Proof.
  intros w1 w0 l w2 names Hw1 Hw2 Hwf Hnames Hin. apply wfb_arr_of in Hwf as [Hw0 Hok].
  pose proof (arr_utf8 k w1 w0 l w2 Hok Hin) as Hu.
  pose proof (arr_len w0 l w2) as Hlen.
  unfold from_input_typed, init_st. fuel_split f Hf. rewrite app_length in Hf.
  rewrite de_typed_struct, de_struct_S. rewrite render_arr_of. rewrite snd_mkfields, Hnames.
  destruct (deserialize_struct_seq_ok k cf
              (fun s' => de_tuple (S f) E (repeat TRaw (length l)) true s')
              (fun s' => de_fields (S f) E (mkfields names) (map (fun _ => None) (mkfields names)) true s')
              (eq (map DRaw (espans l))) w1 (arr_body w0 l w2) w2 0 false DEPTH0
              Hw1 (depth0_avail cf)) as (a & o' & p' & -> & <-).
  { intros o1 p1 d1.
    destruct (de_tuple_raws_first k cf w0 l Hw0 Hok Hu (S f) w2 o1 p1 d1 ltac:(lia)) as (s3 & w' & H1 & H2 & H3 & H4).
    exists (map DRaw (espans l)), s3, w'. auto. }
  unfold tmap. cbn [tbind].
  destruct (de_end_ws_any k cf w2 o' p' DEPTH0 Hw2) as (s' & ->). reflexivity.
Qed.

End Top.

(* ------------------------------------------------------------------------------------------ *)
(** * 8. Example:  ` [ {"a" : 1} ,\n"x\u00e9" , -0.5e+3 ] `  as Vec<Box<RawValue>>, three reader kinds *)
Definition ex_input : list N :=
  [32; 91; 32; 123;34;97;34;32;58;32;49;125; 32; 44; 10; 34;120;92;117;48;48;101;57;34; 32; 44; 32; 45;48;46;53;101;43;51; 32; 93; 32].
Example nested_example : forall k,
  from_input_typed (mkEnv k TEof (mkCfg false false false false)) (TSeq TRaw) ex_input
  = TOk (DSeq [DRaw [123;34;97;34;32;58;32;49;125]; DRaw [34;120;92;117;48;48;101;57;34]; DRaw [45;48;46;53;101;43;51]]).
Proof. intros k. destruct k; vm_compute; reflexivity. Qed.

Print Assumptions seq_of_raws.
Print Assumptions tuple_of_raws.
Print Assumptions map_of_raws.
Print Assumptions struct_of_raws.
Print Assumptions struct_of_raws_positional.
