(* Proofs/LexBigMul.v — refinement of the limb-level big integers of Model/LexBig.v, part 2:
   the `large` operations: iadd_impl (with offset), isub, long_mul, Karatsuba, large::imul.

   long_mul is total (for a non-empty y) and computes the product.
   karatsuba_mul can fail (see LexBigRefine.v for witnesses); what is proved is that WHENEVER it returns a vector,
   that vector is the normalized product (partial correctness, for every fuel), and that it is total and equal to
   long_mul when the longer operand has at most KARATSUBA_CUTOFF limbs. *)
From Coq Require Import NArith ZArith List Bool Arith Lia ZifyBool ZifyNat ZifyN.
From SJ Require Import Gen.LexTables Model.Lex Model.LexBig Proofs.LexBigBase.
Import ListNotations.
Open Scope Z_scope.

Arguments N.mul : simpl never.
Arguments N.add : simpl never.
Arguments N.sub : simpl never.
Arguments Z.mul : simpl never.
Arguments Z.add : simpl never.
Arguments Z.sub : simpl never.
Arguments Z.pow : simpl never.
Arguments Z.of_N : simpl never.

Notation len x := (Z.of_nat (length x)).

(* ------------------------------------------------------------------------------------------------ *)
(** * large::iadd_impl *)
Lemma large_iadd_loop_spec : forall (ys xs : list N) (carry : bool),
  limbs_ok xs -> limbs_ok ys -> (length ys <= length xs)%nat ->
  let r := large_iadd_loop xs ys carry in
  val (fst r) + W ^ len ys * b2z (snd r) = val xs + val ys + b2z carry
  /\ limbs_ok (fst r) /\ length (fst r) = length xs.
Proof.
  induction ys as [|yi yr IH]; intros xs carry Hx Hy Hl.
  - assert (E : large_iadd_loop xs [] carry = (xs, carry)) by (destruct xs; reflexivity).
    rewrite E. cbn [fst snd val length]. rewrite Z.pow_0_r. repeat split; [lia|exact Hx].
  - destruct xs as [|xi xr]; [cbn [length] in Hl; lia|].
    apply limbs_ok_cons in Hx. apply limbs_ok_cons in Hy. destruct Hx as (Hxi & Hxr). destruct Hy as (Hyi & Hyr).
    cbn [large_iadd_loop]. rewrite scalar_iadd_eq.
    destruct (scalar_add_spec xi yi Hxi Hyi) as (Hv & Hvb).
    destruct (scalar_add xi yi) as (v, c1). cbn [fst snd] in Hv, Hvb.
    assert (Hstep : exists v' tmp, (if carry then let '(v2, c2) := scalar_iadd v 1 in (v2, c1 || c2) else (v, c1)) = (v', tmp)
               /\ Z.of_N v' + W * b2z tmp = Z.of_N xi + Z.of_N yi + b2z carry /\ (v' < LB)%N).
    { destruct carry.
      - rewrite scalar_iadd_eq. destruct (scalar_add_spec v 1 Hvb ltac:(reflexivity)) as (Hv2 & Hv2b).
        destruct (scalar_add v 1) as (v2, c2). cbn [fst snd] in Hv2, Hv2b.
        exists v2, (c1 || c2). split; [reflexivity|]. split; [|exact Hv2b].
        change (Z.of_N 1) with 1 in Hv2. unfold LB in *. unfold W in *. destruct c1, c2; cbn [orb b2z] in *; lia.
      - exists v, c1. split; [reflexivity|]. split; [cbn [b2z]; lia|exact Hvb]. }
    destruct Hstep as (v' & tmp & -> & Hs & Hsb).
    specialize (IH xr tmp Hxr Hyr ltac:(cbn [length] in Hl; lia)).
    destruct (large_iadd_loop xr yr tmp) as (r, c). cbn [fst snd] in *.
    destruct IH as (Hval & Hok & Hlen).
    split; [|split; [apply limbs_ok_cons; tauto|cbn [length]; lia]].
    cbn [val length]. rewrite Nat2Z.inj_succ, <- Z.add_1_r, Wpow_succ by lia. nia.
Qed.

Lemma resize_grow (x : list N) (n : nat) : (length x <= n)%nat -> resize x n 0 = x ++ repeat 0%N (n - length x).
Proof.
  intros H. unfold resize. destruct (Nat.leb_spec n (length x)) as [H1|H1]; [|reflexivity].
  assert (n = length x) by lia. subst n. rewrite firstn_all, Nat.sub_diag. cbn [repeat]. rewrite app_nil_r. reflexivity.
Qed.

Lemma val_resize_grow (x : list N) (n : nat) : (length x <= n)%nat -> val (resize x n 0) = val x.
Proof. intros H. rewrite resize_grow by exact H. rewrite val_app, val_repeat0. ring. Qed.
Lemma limbs_ok_resize (x : list N) (n : nat) : limbs_ok x -> limbs_ok (resize x n 0).
Proof.
  intros H. unfold resize. destruct (n <=? length x)%nat; [apply limbs_ok_firstn; exact H|].
  apply limbs_ok_app. split; [exact H|apply limbs_ok_repeat0].
Qed.
Lemma length_resize (x : list N) (n : nat) : length (resize x n 0) = n.
Proof.
  unfold resize. destruct (Nat.leb_spec n (length x)) as [H|H]; [apply firstn_length_le; exact H|].
  rewrite app_length, repeat_length. lia.
Qed.

(* a sum of the right length is normalized *)
Lemma sum_normalized (x y z : list N) (xstart : nat) :
  limbs_ok z -> normalized x -> normalized y -> val z = val x + val y * W ^ Z.of_nat xstart ->
  length z = Nat.max (length x) (length y + xstart) -> (xstart <= length x)%nat -> normalized z.
Proof.
  intros Hz Hnx Hny Hv Hl Hs.
  destruct z as [|c0 zr]; [exact normalized_nil|].
  apply lower_normalized; [exact Hz|discriminate|]. rewrite Hl, Hv.
  pose proof (val_nonneg x) as Hx0. pose proof (val_nonneg y) as Hy0. pose proof (Wpow_pos (Z.of_nat xstart) ltac:(lia)) as HWs.
  destruct (Nat.le_gt_cases (length y + xstart) (length x)) as [Hc|Hc].
  - rewrite Nat.max_l by exact Hc.
    destruct x as [|a0 xr]; [cbn [length] in *; lia|].
    pose proof (normalized_lower _ Hnx ltac:(discriminate)) as Hlox. nia.
  - rewrite Nat.max_r by lia.
    destruct y as [|b0 yr]; [cbn [length] in Hc; lia|].
    pose proof (normalized_lower _ Hny ltac:(discriminate)) as Hloy.
    replace (Z.of_nat (length (b0 :: yr) + xstart) - 1) with ((len (b0 :: yr) - 1) + Z.of_nat xstart) by lia.
    rewrite Z.pow_add_r by (cbn [length]; lia). nia.
Qed.

Lemma large_iadd_impl_spec (x y : list N) (xstart : nat) :
  limbs_ok x -> limbs_ok y -> (xstart <= length x)%nat ->
  exists z, large_iadd_impl x y xstart = Some z /\ val z = val x + val y * W ^ Z.of_nat xstart /\ limbs_ok z
    /\ (Nat.max (length x) (length y + xstart) <= length z <= Nat.max (length x) (length y + xstart) + 1)%nat
    /\ (normalized x -> normalized y -> normalized z).
Proof.
  intros Hx Hy Hs. unfold large_iadd_impl.
  replace (length x <? xstart)%nat with false by (symmetry; apply Nat.ltb_ge; exact Hs).
  set (x1 := if (length x - xstart <? length y)%nat then resize x (length y + xstart) 0 else x).
  assert (Hx1 : val x1 = val x /\ limbs_ok x1 /\ length x1 = Nat.max (length x) (length y + xstart)).
  { subst x1. destruct (Nat.ltb_spec (length x - xstart) (length y)) as [H|H].
    - rewrite val_resize_grow by lia. split; [reflexivity|]. split; [apply limbs_ok_resize; exact Hx|rewrite length_resize; lia].
    - split; [reflexivity|]. split; [exact Hx|lia]. }
  destruct Hx1 as (Hv1 & Hok1 & Hl1).
  assert (Hsplit : x1 = firstn xstart x1 ++ skipn xstart x1) by (symmetry; apply firstn_skipn).
  set (p := firstn xstart x1) in *. set (s := skipn xstart x1) in *.
  assert (Hp : length p = xstart) by (subst p; apply firstn_length_le; lia).
  assert (Hsl : length s = (length x1 - xstart)%nat) by (subst s; apply skipn_length).
  assert (Hpok : limbs_ok p) by (subst p; apply limbs_ok_firstn; exact Hok1).
  assert (Hsok : limbs_ok s) by (subst s; apply limbs_ok_skipn; exact Hok1).
  destruct (large_iadd_loop_spec y s false Hsok Hy ltac:(lia)) as (Hval & Hokt & Hlt).
  destruct (large_iadd_loop s y false) as (t, carry). cbn [fst snd b2z] in *.
  assert (Hx2 : val (p ++ t) + W ^ Z.of_nat (length y + xstart) * b2z carry = val x + val y * W ^ Z.of_nat xstart).
  { rewrite <- Hv1, Hsplit, !val_app, Hp. rewrite Nat2Z.inj_add, Z.pow_add_r by lia. nia. }
  assert (Hok2 : limbs_ok (p ++ t)) by (apply limbs_ok_app; tauto).
  assert (Hl2 : length (p ++ t) = length x1) by (rewrite app_length; lia).
  destruct carry; cbn [b2z] in Hx2.
  - destruct (small_iadd_impl_spec (p ++ t) 1 (length y + xstart) Hok2 ltac:(reflexivity) ltac:(lia)) as (z & E & Hvz & Hokz & Hlz & _ & Hpush).
    exists z. split; [exact E|]. change (Z.of_N 1) with 1 in Hvz. split; [lia|]. split; [exact Hokz|]. split; [lia|].
    intros Hnx Hny.
    destruct (Nat.eq_dec (length z) (length x1)) as [Heq|Hneq].
    + apply (sum_normalized x y z xstart); try assumption; lia.
    + apply Hpush; [lia|discriminate].
  - exists (p ++ t). split; [reflexivity|]. split; [lia|]. split; [exact Hok2|]. split; [lia|].
    intros Hnx Hny. apply (sum_normalized x y (p ++ t) xstart); try assumption; lia.
Qed.

(* a returned vector means the start index was in range *)
Lemma large_iadd_impl_some (x y : list N) (xstart : nat) (z : list N) :
  large_iadd_impl x y xstart = Some z -> (xstart <= length x)%nat.
Proof.
  unfold large_iadd_impl. destruct (Nat.ltb_spec (length x) xstart) as [H|H]; [discriminate|intros _; exact H].
Qed.

(* ------------------------------------------------------------------------------------------------ *)
(** * long_mul *)
Lemma long_mul_loop_spec (x : list N) : limbs_ok x -> forall (ys z : list N) (i : nat),
  limbs_ok ys -> limbs_ok z -> (i + length ys <= length z)%nat ->
  exists z', long_mul_loop z x ys i = Some z' /\ val z' = val z + val x * val ys * W ^ (Z.of_nat i + 1) /\ limbs_ok z'.
Proof.
  intros Hx. induction ys as [|yi yr IH]; intros z i Hys Hz Hl.
  - exists z. split; [reflexivity|]. cbn [val]. split; [ring|exact Hz].
  - apply limbs_ok_cons in Hys. destruct Hys as (Hyi & Hyr). cbn [long_mul_loop]. unfold small_mul.
    destruct (small_imul_spec x yi Hx Hyi) as (Hv & Hok & _).
    cbn [length] in Hl.
    destruct (large_iadd_impl_spec z (small_imul x yi) (i + 1) Hz Hok ltac:(lia)) as (z1 & E & Hv1 & Hok1 & Hl1 & _).
    rewrite E. cbn [obind].
    destruct (IH z1 (S i) Hyr Hok1 ltac:(lia)) as (z' & E' & Hv' & Hok').
    exists z'. split; [exact E'|]. split; [|exact Hok'].
    rewrite Hv', Hv1, Hv. cbn [val]. rewrite Nat2Z.inj_succ, Nat2Z.inj_add. change (Z.of_nat 1) with 1.
    unfold Z.succ. rewrite (Wpow_succ (Z.of_nat i + 1)) by lia. ring.
Qed.

Theorem long_mul_refines (x y : list N) : limbs_ok x -> limbs_ok y -> y <> [] ->
  exists z, long_mul x y = Some z /\ val z = val x * val y /\ limbs_ok z /\ normalized z /\ (length z <= length x + length y)%nat.
Proof.
  intros Hx Hy Hne. destruct y as [|y0 yt]; [congruence|].
  apply limbs_ok_cons in Hy. destruct Hy as (Hy0 & Hyt).
  unfold long_mul. cbn [nth_error obind skipn]. unfold small_mul.
  destruct (small_imul_spec x y0 Hx Hy0) as (Hv & Hok & Hl).
  set (z := resize (small_imul x y0) (length x + length (y0 :: yt)) 0).
  assert (Hzl : length z = (length x + length (y0 :: yt))%nat) by (subst z; apply length_resize).
  assert (Hzv : val z = val x * Z.of_N y0) by (subst z; rewrite val_resize_grow by (cbn [length]; lia); exact Hv).
  assert (Hzok : limbs_ok z) by (subst z; apply limbs_ok_resize; exact Hok).
  destruct (long_mul_loop_spec x Hx yt z 0 Hyt Hzok ltac:(rewrite Hzl; cbn [length]; lia)) as (z' & E & Hv' & Hok').
  rewrite E. cbn [obind]. exists (normalize z'). split; [reflexivity|]. rewrite normalize_val.
  split; [rewrite Hv', Hzv; cbn [val]; change (Z.of_nat 0 + 1) with 1; rewrite Z.pow_1_r; ring|].
  split; [apply normalize_ok; exact Hok'|]. split; [apply normalize_normalized|].
  (* the length: normalized and below W^(len x + len y) *)
  assert (Hb : val (normalize z') < W ^ (len x + len (y0 :: yt))).
  { rewrite normalize_val, Hv', Hzv.
    replace (val x * Z.of_N y0 + val x * val yt * W ^ (Z.of_nat 0 + 1)) with (val x * val (y0 :: yt))
      by (cbn [val]; change (Z.of_nat 0 + 1) with 1; rewrite Z.pow_1_r; ring).
    rewrite Z.pow_add_r by lia.
    pose proof (val_bound x Hx). pose proof (val_bound (y0 :: yt) ltac:(apply limbs_ok_cons; tauto)).
    pose proof (val_nonneg x). pose proof (val_nonneg (y0 :: yt)). nia. }
  destruct (normalize z') as [|c0 zr] eqn:En; [cbn [length]; lia|].
  pose proof (normalized_lower (c0 :: zr) ltac:(rewrite <- En; apply normalize_normalized) ltac:(discriminate)) as Hlo.
  destruct (Nat.le_gt_cases (length (c0 :: zr)) (length x + length (y0 :: yt))) as [Hc|Hc]; [exact Hc|exfalso].
  assert (W ^ (len x + len (y0 :: yt)) <= W ^ (len (c0 :: zr) - 1)) by (apply Z.pow_le_mono_r; [exact W_pos|lia]). lia.
Qed.

(* a normalized vector below W^n has at most n limbs *)
Lemma normalized_length_le (z : list N) (n : nat) : normalized z -> val z < W ^ Z.of_nat n -> (length z <= n)%nat.
Proof.
  intros Hn Hb. destruct z as [|c0 zr]; [cbn [length]; lia|].
  pose proof (normalized_lower (c0 :: zr) Hn ltac:(discriminate)) as Hlo.
  destruct (Nat.le_gt_cases (length (c0 :: zr)) n) as [Hc|Hc]; [exact Hc|exfalso].
  assert (W ^ Z.of_nat n <= W ^ (len (c0 :: zr) - 1)) by (apply Z.pow_le_mono_r; [exact W_pos|lia]). lia.
Qed.

(* ------------------------------------------------------------------------------------------------ *)
(** * subtraction (used by Karatsuba only) *)
Lemma isub_ripple_spec : forall (s p : list N) (fuel : nat) (carry : bool),
  limbs_ok s -> (length s <= fuel)%nat ->
  exists s' c', isub_ripple fuel (p ++ s) carry (length p) = Some (p ++ s', c')
    /\ val s' - W ^ len s * b2z c' = val s - b2z carry /\ length s' = length s /\ limbs_ok s'.
Proof.
  induction s as [|a t IH]; intros p fuel carry Hok Hf.
  - exists [], carry. rewrite app_nil_r.
    assert (E : isub_ripple fuel p carry (length p) = Some (p, carry)).
    { destruct fuel; cbn [isub_ripple]; rewrite Nat.ltb_irrefl, andb_false_r; reflexivity. }
    rewrite E. cbn [val length]. rewrite Z.pow_0_r. repeat split; [lia|constructor].
  - destruct carry.
    2:{ exists (a :: t), false.
        assert (E : isub_ripple fuel (p ++ a :: t) false (length p) = Some (p ++ a :: t, false)) by (destruct fuel; reflexivity).
        rewrite E. cbn [b2z]. repeat split; [lia|exact Hok]. }
    apply limbs_ok_cons in Hok. destruct Hok as (Ha & Ht).
    destruct fuel as [|f]; [cbn [length] in Hf; lia|].
    cbn [isub_ripple]. rewrite app_length. cbn [length].
    replace (length p <? length p + S (length t))%nat with true by (symmetry; apply Nat.ltb_lt; lia).
    cbn [andb]. rewrite nth_error_app_len. cbn [obind]. rewrite scalar_isub_eq.
    destruct (scalar_sub_spec a 1 Ha ltac:(reflexivity)) as (Hv & Hvb).
    destruct (scalar_sub a 1) as (v, c). cbn [fst snd] in Hv, Hvb.
    rewrite set_nth_app_len. cbn [obind].
    specialize (IH (p ++ [v]) f c Ht ltac:(cbn [length] in Hf; lia)).
    destruct IH as (s' & c' & E & Hval & Hlen & Hok').
    rewrite (app_length p [v]) in E. cbn [length] in E. rewrite Nat.add_1_r in E. rewrite <- !app_assoc in E. cbn [app] in E.
    exists (v :: s'), c'. rewrite E. split; [reflexivity|]. split; [|split; [cbn [length]; lia|apply limbs_ok_cons; tauto]].
    cbn [val length b2z] in *. rewrite Nat2Z.inj_succ, <- Z.add_1_r, Wpow_succ by lia.
    change (Z.of_N 1) with 1 in Hv. nia.
Qed.

Lemma small_isub_impl_spec (x : list N) (y : N) (xstart : nat) (z : list N) :
  limbs_ok x -> (y < LB)%N -> small_isub_impl x y xstart = Some z -> Z.of_N y * W ^ Z.of_nat xstart <= val x ->
  val z = val x - Z.of_N y * W ^ Z.of_nat xstart /\ limbs_ok z /\ normalized z.
Proof.
  intros Hok Hy E Hge. unfold small_isub_impl in E.
  destruct (nth_error x xstart) as [x0|] eqn:En; cbn [obind] in E; [|discriminate].
  destruct (nth_error_split x xstart En) as (p & t & -> & Hp). subst xstart.
  destruct (negb ((y <=? x0)%N || (length p + 1 <? length (p ++ x0 :: t))%nat)); [discriminate|].
  apply limbs_ok_app in Hok. destruct Hok as (Hpok & Hat). apply limbs_ok_cons in Hat. destruct Hat as (Ha & Ht).
  rewrite scalar_isub_eq in E.
  destruct (scalar_sub_spec x0 y Ha Hy) as (Hv & Hvb).
  destruct (scalar_sub x0 y) as (v, c). cbn [fst snd] in Hv, Hvb.
  rewrite set_nth_app_len in E. cbn [obind] in E.
  destruct (isub_ripple_spec t (p ++ [v]) (length (p ++ x0 :: t)) c Ht) as (s' & c' & E' & Hval & Hlen & Hok').
  { rewrite app_length. cbn [length]. lia. }
  rewrite (app_length p [v]) in E'. cbn [length] in E'. rewrite Nat.add_1_r in E'. rewrite <- !app_assoc in E'. cbn [app] in E'.
  rewrite E' in E. cbn [obind] in E. injection E as <-.
  assert (Hokz : limbs_ok (p ++ v :: s')) by (apply limbs_ok_app; split; [exact Hpok|apply limbs_ok_cons; tauto]).
  assert (Hbase : val (p ++ v :: s') - W ^ len (p ++ x0 :: t) * b2z c' = val (p ++ x0 :: t) - Z.of_N y * W ^ len p).
  { rewrite !val_app. cbn [val]. rewrite app_length. cbn [length].
    replace (Z.of_nat (length p + S (length t))) with (len p + (len t + 1)) by lia.
    rewrite Z.pow_add_r, Wpow_succ by lia. nia. }
  assert (Hc0 : c' = false).
  { destruct c'; [exfalso|reflexivity]. cbn [b2z] in Hbase. pose proof (val_bound _ Hokz) as Hb.
    replace (len (p ++ v :: s')) with (len (p ++ x0 :: t)) in Hb by (rewrite !app_length; cbn [length]; lia). lia. }
  subst c'. cbn [b2z] in Hbase.
  rewrite normalize_val. split; [lia|]. split; [apply normalize_ok; exact Hokz|apply normalize_normalized].
Qed.

Lemma large_isub_loop_spec : forall (ys xs : list N) (carry : bool),
  limbs_ok xs -> limbs_ok ys -> (length ys <= length xs)%nat ->
  let r := large_isub_loop xs ys carry in
  val (fst r) - W ^ len ys * b2z (snd r) = val xs - val ys - b2z carry
  /\ limbs_ok (fst r) /\ length (fst r) = length xs.
Proof.
  induction ys as [|yi yr IH]; intros xs carry Hx Hy Hl.
  - assert (E : large_isub_loop xs [] carry = (xs, carry)) by (destruct xs; reflexivity).
    rewrite E. cbn [fst snd val length]. rewrite Z.pow_0_r. repeat split; [lia|exact Hx].
  - destruct xs as [|xi xr]; [cbn [length] in Hl; lia|].
    apply limbs_ok_cons in Hx. apply limbs_ok_cons in Hy. destruct Hx as (Hxi & Hxr). destruct Hy as (Hyi & Hyr).
    cbn [large_isub_loop]. rewrite scalar_isub_eq.
    destruct (scalar_sub_spec xi yi Hxi Hyi) as (Hv & Hvb).
    destruct (scalar_sub xi yi) as (v, c1). cbn [fst snd] in Hv, Hvb.
    assert (Hstep : exists v' tmp, (if carry then let '(v2, c2) := scalar_isub v 1 in (v2, c1 || c2) else (v, c1)) = (v', tmp)
               /\ Z.of_N v' - W * b2z tmp = Z.of_N xi - Z.of_N yi - b2z carry /\ (v' < LB)%N).
    { destruct carry.
      - rewrite scalar_isub_eq. destruct (scalar_sub_spec v 1 Hvb ltac:(reflexivity)) as (Hv2 & Hv2b).
        destruct (scalar_sub v 1) as (v2, c2). cbn [fst snd] in Hv2, Hv2b.
        exists v2, (c1 || c2). split; [reflexivity|]. split; [|exact Hv2b].
        change (Z.of_N 1) with 1 in Hv2. unfold LB in *. unfold W in *. destruct c1, c2; cbn [orb b2z] in *; lia.
      - exists v, c1. split; [reflexivity|]. split; [cbn [b2z]; lia|exact Hvb]. }
    destruct Hstep as (v' & tmp & -> & Hs & Hsb).
    specialize (IH xr tmp Hxr Hyr ltac:(cbn [length] in Hl; lia)).
    destruct (large_isub_loop xr yr tmp) as (r, c). cbn [fst snd] in *.
    destruct IH as (Hval & Hok & Hlen).
    split; [|split; [apply limbs_ok_cons; tauto|cbn [length]; lia]].
    cbn [val length]. rewrite Nat2Z.inj_succ, <- Z.add_1_r, Wpow_succ by lia. nia.
Qed.

Lemma large_isub_spec (x y z : list N) : limbs_ok x -> limbs_ok y -> normalized x -> normalized y ->
  large_isub x y = Some z -> val y <= val x /\ val z = val x - val y /\ limbs_ok z /\ normalized z.
Proof.
  intros Hx Hy Nx Ny E. unfold large_isub, large_greater_equal, large_less in E.
  pose proof (compare_refines x y Hx Hy Nx Ny) as Hc. unfold big_compare in Hc. rewrite Hc in E.
  destruct (Z.compare_spec (val x) (val y)) as [Hxy|Hxy|Hxy]; cbn [negb] in E; try discriminate.
  - assert (Hle : val y <= val x) by lia. clear Hxy.
    assert (Hl : (length y <= length x)%nat).
    { destruct (Nat.le_gt_cases (length y) (length x)) as [H|H]; [exact H|]. pose proof (normalized_len_lt x y Hx Ny H). lia. }
    destruct (large_isub_loop_spec y x false Hx Hy Hl) as (Hval & Hok1 & Hl1).
    destruct (large_isub_loop x y false) as (x1, carry). cbn [fst snd b2z] in *.
    destruct carry; cbn [b2z] in Hval.
    + destruct (small_isub_impl_spec x1 1 (length y) z Hok1 ltac:(reflexivity) E) as (Hvz & Hokz & Hnz).
      { change (Z.of_N 1) with 1. lia. }
      change (Z.of_N 1) with 1 in Hvz. split; [exact Hle|]. split; [lia|]. tauto.
    + injection E as <-. rewrite normalize_val. split; [exact Hle|]. split; [lia|]. split; [apply normalize_ok; exact Hok1|apply normalize_normalized].
  - assert (Hle : val y <= val x) by lia. clear Hxy.
    assert (Hl : (length y <= length x)%nat).
    { destruct (Nat.le_gt_cases (length y) (length x)) as [H|H]; [exact H|]. pose proof (normalized_len_lt x y Hx Ny H). lia. }
    destruct (large_isub_loop_spec y x false Hx Hy Hl) as (Hval & Hok1 & Hl1).
    destruct (large_isub_loop x y false) as (x1, carry). cbn [fst snd b2z] in *.
    destruct carry; cbn [b2z] in Hval.
    + destruct (small_isub_impl_spec x1 1 (length y) z Hok1 ltac:(reflexivity) E) as (Hvz & Hokz & Hnz).
      { change (Z.of_N 1) with 1. lia. }
      change (Z.of_N 1) with 1 in Hvz. split; [exact Hle|]. split; [lia|]. tauto.
    + injection E as <-. rewrite normalize_val. split; [exact Hle|]. split; [lia|]. split; [apply normalize_ok; exact Hok1|apply normalize_normalized].
Qed.

(* ------------------------------------------------------------------------------------------------ *)
(** * Karatsuba: whenever it returns, it returns the normalized product *)
Lemma obind_some {A B : Type} (o : option A) (f : A -> option B) (b : B) :
  obind o f = Some b -> exists a, o = Some a /\ f a = Some b.
Proof. destruct o as [a|]; cbn [obind]; [intros H; exists a; split; [reflexivity|exact H]|discriminate]. Qed.

Definition mul_ok (mulf : list N -> list N -> option (list N)) : Prop :=
  forall a b c, limbs_ok a -> limbs_ok b -> mulf a b = Some c -> val c = val a * val b /\ limbs_ok c /\ normalized c.

Lemma karatsuba_split_spec (z : list N) (m : nat) (lo hi : list N) : limbs_ok z -> karatsuba_split z m = Some (lo, hi) ->
  val z = val lo + W ^ Z.of_nat m * val hi /\ limbs_ok lo /\ limbs_ok hi /\ length lo = m /\ (m <= length z)%nat /\ z = lo ++ hi.
Proof.
  intros Hz E. unfold karatsuba_split in E. destruct (Nat.ltb_spec (length z) m) as [H|H]; [discriminate|].
  injection E as <- <-.
  assert (Hl : length (firstn m z) = m) by (apply firstn_length_le; exact H).
  split; [rewrite <- (firstn_skipn m z) at 1; rewrite val_app, Hl; reflexivity|].
  split; [apply limbs_ok_firstn; exact Hz|]. split; [apply limbs_ok_skipn; exact Hz|]. split; [exact Hl|].
  split; [exact H|symmetry; apply firstn_skipn].
Qed.

Lemma large_add_spec (x y z : list N) : limbs_ok x -> limbs_ok y -> large_add x y = Some z ->
  val z = val x + val y /\ limbs_ok z.
Proof.
  intros Hx Hy E. unfold large_add, large_iadd in E.
  destruct (large_iadd_impl_spec x y 0 Hx Hy ltac:(lia)) as (z' & E' & Hv & Hok & _).
  rewrite E in E'. injection E' as <-. change (Z.of_nat 0) with 0 in Hv. rewrite Z.pow_0_r in Hv. split; [lia|exact Hok].
Qed.

Lemma large_iadd_impl_partial (x y z : list N) (xstart : nat) : limbs_ok x -> limbs_ok y -> large_iadd_impl x y xstart = Some z ->
  val z = val x + val y * W ^ Z.of_nat xstart /\ limbs_ok z /\ (normalized x -> normalized y -> normalized z).
Proof.
  intros Hx Hy E. pose proof (large_iadd_impl_some x y xstart z E) as Hs.
  destruct (large_iadd_impl_spec x y xstart Hx Hy Hs) as (z' & E' & Hv & Hok & _ & Hn).
  rewrite E in E'. injection E' as <-. tauto.
Qed.

Lemma uneven_loop_spec (mulf : list N -> list N -> option (list N)) : mul_ok mulf ->
  forall (lfuel : nat) (y result x : list N) (start : nat) (r : list N),
  limbs_ok result -> limbs_ok x -> limbs_ok y ->
  uneven_loop mulf lfuel result x y start = Some r ->
  val r = val result + val x * val y * W ^ Z.of_nat start /\ limbs_ok r.
Proof.
  intros Hm. induction lfuel as [|lf IH]; intros y result x start r Hr Hx Hy E.
  - destruct y as [|y0 yt]; cbn [uneven_loop] in E; [|discriminate]. injection E as <-. cbn [val]. split; [ring|exact Hr].
  - destruct y as [|y0 yt]; cbn [uneven_loop] in E; [injection E as <-; cbn [val]; split; [ring|exact Hr]|].
    set (y := y0 :: yt) in *. set (m := Nat.min (length x) (length y)) in *.
    apply obind_some in E. destruct E as ((yl, yh) & Es & E).
    destruct (karatsuba_split_spec y m yl yh Hy Es) as (Hvy & Hyl & Hyh & Hlm & _ & _).
    apply obind_some in E. destruct E as (prod & Ep & E).
    destruct (Hm x yl prod Hx Hyl Ep) as (Hvp & Hokp & _).
    apply obind_some in E. destruct E as (r1 & Ea & E).
    destruct (large_iadd_impl_partial result prod r1 start Hr Hokp Ea) as (Hv1 & Hok1 & _).
    destruct (IH yh r1 x (start + m)%nat r Hok1 Hx Hyh E) as (Hvr & Hokr).
    split; [|exact Hokr]. rewrite Hvr, Hv1, Hvp, Hvy. rewrite Nat2Z.inj_add, Z.pow_add_r by lia. ring.
Qed.

Theorem karatsuba_mul_partial : forall fuel : nat, mul_ok (karatsuba_mul fuel).
Proof.
  induction fuel as [|f IH]; intros x y c Hx Hy E; [discriminate|].
  cbn [karatsuba_mul] in E.
  destruct (length y <=? KARATSUBA_CUTOFF)%nat.
  { (* long_mul *)
    assert (Hne : y <> []) by (intros ->; discriminate).
    destruct (long_mul_refines x y Hx Hy Hne) as (z & E' & Hv & Hok & Hn & _).
    rewrite E in E'. injection E' as <-. tauto. }
  destruct (length x <? length y / 2)%nat.
  { (* karatsuba_uneven_mul *)
    apply obind_some in E. destruct E as (r & Er & E). injection E as <-.
    destruct (uneven_loop_spec (karatsuba_mul f) IH _ y _ x 0%nat r (limbs_ok_resize [] _ limbs_ok_nil) Hx Hy Er) as (Hv & Hok).
    rewrite normalize_val. split; [|split; [apply normalize_ok; exact Hok|apply normalize_normalized]].
    rewrite Hv, val_resize_grow by (cbn [length]; lia). cbn [val]. change (Z.of_nat 0) with 0. rewrite Z.pow_0_r. ring. }
  (* the three multiplications *)
  set (m := (length y / 2)%nat) in *.
  apply obind_some in E. destruct E as ((xl, xh) & Esx & E).
  apply obind_some in E. destruct E as ((yl, yh) & Esy & E).
  destruct (karatsuba_split_spec x m xl xh Hx Esx) as (Hvx & Hxl & Hxh & _).
  destruct (karatsuba_split_spec y m yl yh Hy Esy) as (Hvy & Hyl & Hyh & _).
  apply obind_some in E. destruct E as (sumx & Eax & E).
  apply obind_some in E. destruct E as (sumy & Eay & E).
  destruct (large_add_spec xl xh sumx Hxl Hxh Eax) as (Hvsx & Hsx).
  destruct (large_add_spec yl yh sumy Hyl Hyh Eay) as (Hvsy & Hsy).
  apply obind_some in E. destruct E as (z0 & E0 & E).
  apply obind_some in E. destruct E as (z1 & E1 & E).
  apply obind_some in E. destruct E as (z2 & E2 & E).
  destruct (IH xl yl z0 Hxl Hyl E0) as (Hv0 & Hok0 & Hn0).
  destruct (IH sumx sumy z1 Hsx Hsy E1) as (Hv1 & Hok1 & Hn1).
  destruct (IH xh yh z2 Hxh Hyh E2) as (Hv2 & Hok2 & Hn2).
  apply obind_some in E. destruct E as (z1a & Ea & E).
  apply obind_some in E. destruct E as (z1b & Eb & E).
  destruct (large_isub_spec z1 z2 z1a Hok1 Hok2 Hn1 Hn2 Ea) as (_ & Hva & Hoka & Hna).
  destruct (large_isub_spec z1a z0 z1b Hoka Hok0 Hna Hn0 Eb) as (_ & Hvb & Hokb & Hnb).
  apply obind_some in E. destruct E as (r1 & Er1 & E).
  destruct (large_iadd_impl_partial z0 z1b r1 m Hok0 Hokb Er1) as (Hvr1 & Hokr1 & Hnr1).
  destruct (large_iadd_impl_partial r1 z2 c (2 * m) Hokr1 Hok2 E) as (Hvc & Hokc & Hnc).
  split; [|split; [exact Hokc|apply Hnc; [apply Hnr1; assumption|exact Hn2]]].
  rewrite Hvc, Hvr1, Hvb, Hva, Hv0, Hv1, Hv2, Hvsx, Hvsy, Hvx, Hvy.
  replace (Z.of_nat (2 * m)) with (Z.of_nat m + Z.of_nat m) by lia. rewrite Z.pow_add_r by lia. ring.
Qed.

Lemma karatsuba_mul_fwd_partial : mul_ok karatsuba_mul_fwd.
Proof.
  intros x y c Hx Hy E. unfold karatsuba_mul_fwd in E.
  destruct (length x <? length y)%nat.
  - exact (karatsuba_mul_partial _ x y c Hx Hy E).
  - destruct (karatsuba_mul_partial _ y x c Hy Hx E) as (Hv & H). split; [rewrite Hv; ring|exact H].
Qed.

(* large::imul: partial correctness everywhere *)
Lemma large_imul_partial (x y c : list N) : limbs_ok x -> limbs_ok y -> normalized x -> normalized y -> y <> [] ->
  large_imul x y = Some c -> val c = val x * val y /\ limbs_ok c /\ normalized c.
Proof.
  intros Hx Hy Nx Ny Hne E. unfold large_imul in E.
  destruct (Nat.eqb_spec (length y) 1) as [H1|H1].
  - destruct y as [|y0 [|y1 yt]]; cbn [length] in H1; try lia. cbn [nth_error obind] in E. injection E as <-.
    apply limbs_ok_cons in Hy. destruct Hy as (Hy0 & _). apply (proj1 (normalized_single y0)) in Ny.
    destruct (small_imul_spec x y0 Hx Hy0) as (Hv & Hok & _).
    rewrite val_single. split; [exact Hv|]. split; [exact Hok|apply small_imul_normalized; assumption].
  - exact (karatsuba_mul_fwd_partial x y c Hx Hy E).
Qed.

(* large::imul is total, and long multiplication, while both operands have at most KARATSUBA_CUTOFF limbs *)
Lemma large_imul_total (x y : list N) : limbs_ok x -> limbs_ok y -> normalized x -> normalized y -> y <> [] ->
  (length x <= KARATSUBA_CUTOFF)%nat -> (length y <= KARATSUBA_CUTOFF)%nat -> x <> [] ->
  exists c, large_imul x y = Some c /\ val c = val x * val y /\ limbs_ok c /\ normalized c.
Proof.
  intros Hx Hy Nx Ny Hne Hlx Hly Hnex.
  assert (Hsome : exists c, large_imul x y = Some c).
  { unfold large_imul. destruct (Nat.eqb_spec (length y) 1) as [H1|H1].
    - destruct y as [|y0 [|y1 yt]]; cbn [length] in H1; try lia. cbn [nth_error obind]. eexists; reflexivity.
    - unfold karatsuba_mul_fwd, karatsuba_fuel.
      destruct (length x <? length y)%nat.
      + replace (2 * (length x + length y) + 4)%nat with (S (2 * (length x + length y) + 3)) by lia. cbn [karatsuba_mul].
        replace (length y <=? KARATSUBA_CUTOFF)%nat with true by (symmetry; apply Nat.leb_le; exact Hly).
        destruct (long_mul_refines x y Hx Hy Hne) as (z & E & _). exists z. exact E.
      + replace (2 * (length x + length y) + 4)%nat with (S (2 * (length x + length y) + 3)) by lia. cbn [karatsuba_mul].
        replace (length x <=? KARATSUBA_CUTOFF)%nat with true by (symmetry; apply Nat.leb_le; exact Hlx).
        destruct (long_mul_refines y x Hy Hx Hnex) as (z & E & _). exists z. exact E. }
  destruct Hsome as (c & E). exists c. split; [exact E|]. exact (large_imul_partial x y c Hx Hy Nx Ny Hne E).
Qed.
