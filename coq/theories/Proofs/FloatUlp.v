(* Proofs/FloatUlp.v — property C08, general case: what f64_loop computes in each exponent band, and how far
   it can be from the exact value v = sig * 10^e.

     band T+  :    0 <= e <= 308   f = RNE(RNE(sig) * RNE(10^e))                       or "out of range"
     band T-  : -308 <= e <  0     f = RNE(RNE(sig) / RNE(10^-e))
     band U   : -616 <= e < -308   f = RNE(RNE(RNE(sig) / RNE(10^308)) / RNE(10^(-e-308)))
     e > 308  : out of range (sig > 0);   e < -616 : 0.

   u = 2^-53 (half an ulp, relative).  Error bounds (relative, v in the normal range):
     T+ , T-  : |f - v| <= (3 + 2^-40) u v          (three roundings)
     U        : |f - v| <= (5 + 2^-40) u v          (five roundings)
   and, in ulps of v, |f - RNE(v)| <= (3.5 + 2^-40) ulp(v)  resp.  (5.5 + 2^-40) ulp(v). *)
From Coq Require Import ZArith NArith Reals Lia Lra List Bool Psatz.
From Flocq Require Import Core BinarySingleNaN Relative.
From SJ Require Import Base.Bytes Base.FloatB Gen.Tables Model.Read Model.Num.
From SJ Require Import Proofs.FloatDefault.
Open Scope Z_scope.

Notation P308 := (p10 308).

(* ------------------------------------------------------------------ *)
(** * A. what the loop computes, band by band *)

Lemma loop_band_Tpos (sig : N) (e : Z) : (sig <= u64_max)%N -> 0 <= e <= 308 ->
  let y := (RNE64 (IZR (Z.of_N sig)) * RNE64 (IZR (10 ^ e)))%R in
  ((Rabs (RNE64 y) < bpow radix2 1024)%R /\
   exists f, f64_loop 4 (b64_of_Z (Z.of_N sig)) e = Ok (Some f) /\ B2R f = RNE64 y) \/
  ((bpow radix2 1024 <= Rabs (RNE64 y))%R /\ f64_loop 4 (b64_of_Z (Z.of_N sig)) e = Ok None).
Proof.
  intros Hsig He y.
  destruct (b64_of_Z_u64 (Z.of_N sig)) as (Hx & Hf & _); [lia|].
  destruct (p10_props e He) as (Hpf & Hy & _).
  rewrite f64_loop_S. rewrite Z.abs_eq, pow10_tab_some by lia.
  replace (0 <=? e) with true by (symmetry; apply Z.leb_le; lia). cbn zeta.
  destruct (mul_cases _ _ Hf Hpf) as [(Hni & _ & HR & _ & Hlt)|(Hi & Hge)]; rewrite Hx, Hy in *.
  - left. split; [exact Hlt|]. rewrite Hni. eexists. split; [reflexivity|exact HR].
  - right. split; [exact Hge|]. rewrite Hi. reflexivity.
Qed.

Lemma loop_band_Tneg (sig : N) (e : Z) : (sig <= u64_max)%N -> -308 <= e < 0 ->
  exists f, f64_loop 4 (b64_of_Z (Z.of_N sig)) e = Ok (Some f) /\
            B2R f = RNE64 (RNE64 (IZR (Z.of_N sig)) / RNE64 (IZR (10 ^ (- e)))).
Proof.
  intros Hsig He.
  destruct (b64_of_Z_u64 (Z.of_N sig)) as (Hx & Hf & _); [lia|].
  destruct (p10_props (- e)) as (Hpf & Hy & _ & Hp1); [lia|].
  rewrite f64_loop_S. rewrite Z.abs_neq, pow10_tab_some by lia.
  replace (0 <=? e) with false by (symmetry; apply Z.leb_gt; lia).
  destruct (div_ok _ _ Hf Hp1) as (_ & HR & _). rewrite Hx, Hy in HR.
  eexists. split; [reflexivity|exact HR].
Qed.

Lemma loop_band_U (sig : N) (e : Z) : (sig <= u64_max)%N -> -616 <= e < -308 ->
  exists f, f64_loop 4 (b64_of_Z (Z.of_N sig)) e = Ok (Some f) /\
            B2R f = RNE64 (RNE64 (RNE64 (IZR (Z.of_N sig)) / RNE64 (IZR (10 ^ 308))) / RNE64 (IZR (10 ^ (- e - 308)))).
Proof.
  intros Hsig He.
  destruct (b64_of_Z_u64 (Z.of_N sig)) as (Hx & Hf & _); [lia|].
  destruct (p10_props 308) as (_ & HP & _); [lia|].
  destruct (p10_props (- e - 308)) as (Hpf & Hy & _ & Hp1); [lia|].
  rewrite f64_loop_under_step by lia.
  destruct (b64_is_zero (b64_of_Z (Z.of_N sig))) eqn:Hz.
  - exists (b64_of_Z (Z.of_N sig)). split; [reflexivity|].
    destruct (zero_B2R _ Hz) as (H0 & _). rewrite <- Hx, H0.
    unfold Rdiv. rewrite Rmult_0_l, RNE64_0, Rmult_0_l, RNE64_0. reflexivity.
  - destruct (div_ok _ _ Hf P308_ge1) as (Hf1 & HR1 & _). rewrite Hx, HP in HR1.
    rewrite f64_loop_S. rewrite Z.abs_neq by lia.
    replace (- (e + 308)) with (- e - 308) by lia. rewrite pow10_tab_some by lia.
    replace (0 <=? e + 308) with false by (symmetry; apply Z.leb_gt; lia).
    destruct (div_ok _ _ Hf1 Hp1) as (_ & HR2 & _). rewrite HR1, Hy in HR2.
    eexists. split; [reflexivity|exact HR2].
Qed.

(* e < -616: two divisions by 1e308 already flush any u64 significand to zero (improves f64_loop_underflow_zero) *)
Theorem f64_loop_underflow_zero_617 : forall sig e, (sig <= u64_max)%N -> (e <= -617)%Z ->
  exists z, f64_loop 4 (b64_of_Z (Z.of_N sig)) e = Ok (Some z) /\ B2R z = 0%R.
Proof.
  intros sig e Hsig He.
  destruct (b64_of_Z_u64 (Z.of_N sig)) as (Hx & Hf & _); [lia|].
  rewrite f64_loop_under_step by lia.
  destruct (b64_is_zero (b64_of_Z (Z.of_N sig))) eqn:Hz0; [eexists; split; [reflexivity|apply zero_B2R, Hz0]|].
  rewrite f64_loop_under_step by lia.
  destruct (b64_is_zero (b64_div (b64_of_Z (Z.of_N sig)) P308)) eqn:Hz1; [eexists; split; [reflexivity|apply zero_B2R, Hz1]|].
  assert (H0 : (Rabs (B2R (b64_of_Z (Z.of_N sig))) <= bpow radix2 64)%R).
  { rewrite Hx. apply RNE64_abs_le; [apply format_bpow64; lia|].
    rewrite <- abs_IZR, bpow_IZR by lia. apply IZR_le. change u64_max with (Z.to_N (2 ^ 64 - 1)) in Hsig. lia. }
  destruct (div308_shrink_B2R _ 64 Hf H0) as (Hf1 & H1); [lia|].
  destruct (div_ok _ P308 Hf1 P308_ge1) as (Hf2 & H2 & _).
  assert (Hz2 : b64_is_zero (b64_div (b64_div (b64_of_Z (Z.of_N sig)) P308) P308) = true).
  { apply finite_B2R_0_zero; [exact Hf2|]. rewrite H2. apply RNE64_tiny.
    apply Rle_lt_trans with (1 := div308_shrink _ _ Hf1 H1). apply bpow_lt. lia. }
  destruct (f64_loop_zero_gen 1 _ (e + 308 + 308) Hz2) as (z & Hl & HB & _).
  exists z. auto.
Qed.

(* ------------------------------------------------------------------ *)
(** * B. error propagation toolkit *)

Definition u : R := bpow radix2 (-53).
Definition eta : R := bpow radix2 (-1075).
Definition near (k a A : R) : Prop := (Rabs (a - A) <= k * A)%R.

Lemma u_val : u = (/ 9007199254740992)%R.
Proof. reflexivity. Qed.

Lemma half_ulp_u : (/ 2 * bpow radix2 (- (53) + 1) = u)%R.
Proof. unfold u. change (- (53) + 1) with (-53 + 1). rewrite bpow_plus. change (bpow radix2 1) with 2%R. field. Qed.

Lemma half_emin_eta : (/ 2 * bpow radix2 (-1074) = eta)%R.
Proof. unfold eta. change (-1074) with (-1075 + 1). rewrite bpow_plus. change (bpow radix2 1) with 2%R. field. Qed.

Lemma RNE64_rel (x : R) : (bpow radix2 (-1022) <= Rabs x)%R -> (Rabs (RNE64 x - x) <= u * Rabs x)%R.
Proof.
  intros Hx. rewrite <- half_ulp_u. unfold RNE64.
  apply (relative_error_N_FLT radix2 (-1074) 53 ltac:(lia)). exact Hx.
Qed.

Lemma RNE64_abs_err (x : R) : (Rabs (RNE64 x - x) <= u * Rabs x + eta)%R.
Proof.
  destruct (error_N_FLT radix2 (-1074) 53 ltac:(lia) (fun z => negb (Z.even z)) x) as (eps & et & He & Ht & _ & HR).
  rewrite half_ulp_u in He. rewrite half_emin_eta in Ht.
  unfold RNE64. rewrite HR. replace (x * (1 + eps) + et - x)%R with (x * eps + et)%R by ring.
  apply Rle_trans with (1 := Rabs_triang _ _). rewrite Rabs_mult.
  apply Rplus_le_compat; [|exact Ht]. rewrite Rmult_comm. apply Rmult_le_compat_r; [apply Rabs_pos|exact He].
Qed.

Lemma near_bounds (k a A : R) : near k a A -> ((1 - k) * A <= a <= (1 + k) * A)%R.
Proof. unfold near. intros H. apply Rabs_le_inv in H. lra. Qed.

Lemma near_weaken (k k' a A : R) : (k <= k')%R -> (0 <= A)%R -> near k a A -> near k' a A.
Proof. unfold near. intros Hk HA H. apply Rle_trans with (1 := H). apply Rmult_le_compat_r; assumption. Qed.

Lemma near_rnd (k y A : R) : (0 <= k)%R -> (0 <= A)%R -> near k y A -> (bpow radix2 (-1022) <= Rabs y)%R ->
  near (k + u * (1 + k)) (RNE64 y) A.
Proof.
  unfold near. intros Hk HA Hy Hn.
  pose proof (RNE64_rel y Hn) as Hr.
  assert (Hay : (Rabs y <= (1 + k) * A)%R).
  { replace y with ((y - A) + A)%R by ring. apply Rle_trans with (1 := Rabs_triang _ _).
    rewrite (Rabs_pos_eq A) by exact HA. lra. }
  replace (RNE64 y - A)%R with ((RNE64 y - y) + (y - A))%R by ring.
  apply Rle_trans with (1 := Rabs_triang _ _).
  assert (0 <= u)%R by (apply bpow_ge_0).
  assert (u * Rabs y <= u * ((1 + k) * A))%R by (apply Rmult_le_compat_l; assumption).
  lra.
Qed.

Lemma near_mul (a b x y A B : R) : (0 <= A)%R -> (0 <= B)%R -> near a x A -> near b y B ->
  near (a + b + a * b) (x * y) (A * B).
Proof.
  unfold near. intros HA HB Hx Hy.
  replace (x * y - A * B)%R with ((x - A) * B + A * (y - B) + (x - A) * (y - B))%R by ring.
  apply Rle_trans with (1 := Rabs_triang _ _).
  apply Rle_trans with (Rabs ((x - A) * B) + Rabs (A * (y - B)) + Rabs ((x - A) * (y - B)))%R.
  { apply Rplus_le_compat_r. apply Rabs_triang. }
  rewrite !Rabs_mult. rewrite (Rabs_pos_eq A), (Rabs_pos_eq B) by assumption.
  pose proof (Rabs_pos (x - A)) as Hdx. pose proof (Rabs_pos (y - B)) as Hdy.
  set (dx := Rabs (x - A)) in *. set (dy := Rabs (y - B)) in *.
  assert (dx * dy <= (a * A) * (b * B))%R by (apply Rmult_le_compat; assumption).
  assert (dx * B <= a * A * B)%R by (apply Rmult_le_compat_r; assumption).
  assert (A * dy <= A * (b * B))%R by (apply Rmult_le_compat_l; assumption).
  lra.
Qed.

Lemma near_div (a b x y A B : R) : (0 <= A)%R -> (0 < B)%R -> (0 <= a)%R -> (0 <= b < 1)%R ->
  near a x A -> near b y B -> near ((a + b) / (1 - b)) (x / y) (A / B).
Proof.
  intros HA HB Ha Hb Hx Hy.
  pose proof (near_bounds _ _ _ Hy) as [Hylo _].
  assert (HyB : (0 < (1 - b) * B)%R) by (apply Rmult_lt_0_compat; lra).
  assert (Hypos : (0 < y)%R) by lra.
  unfold near in *.
  replace (x / y - A / B)%R with (((x - A) * B - A * (y - B)) * / (y * B))%R by (field; lra).
  assert (HyBpos : (0 < y * B)%R) by (apply Rmult_lt_0_compat; assumption).
  rewrite Rabs_mult, (Rabs_pos_eq (/ (y * B))) by (left; apply Rinv_0_lt_compat; exact HyBpos).
  assert (HN : (Rabs ((x - A) * B - A * (y - B)) <= (a + b) * A * B)%R).
  { unfold Rminus at 1. apply Rle_trans with (1 := Rabs_triang _ _).
    rewrite Rabs_Ropp, !Rabs_mult, (Rabs_pos_eq A), (Rabs_pos_eq B) by lra.
    assert (Rabs (x - A) * B <= a * A * B)%R by (apply Rmult_le_compat_r; lra).
    assert (A * Rabs (y - B) <= A * (b * B))%R by (apply Rmult_le_compat_l; lra).
    lra. }
  apply Rle_trans with ((a + b) * A * B * / (y * B))%R.
  { apply Rmult_le_compat_r; [left; apply Rinv_0_lt_compat; exact HyBpos|exact HN]. }
  replace ((a + b) * A * B * / (y * B))%R with ((a + b) * A * / y)%R by (field; lra).
  replace ((a + b) / (1 - b) * (A / B))%R with ((a + b) * A * / ((1 - b) * B))%R by (field; lra).
  apply Rmult_le_compat_l; [apply Rmult_le_pos; lra|].
  apply Rinv_le_contravar; [exact HyB|exact Hylo].
Qed.

Lemma near_RNE_int (z : Z) : 1 <= z -> near u (RNE64 (IZR z)) (IZR z).
Proof.
  intros Hz. unfold near.
  assert (H1 : (1 <= IZR z)%R) by (apply IZR_le; exact Hz).
  pose proof (RNE64_rel (IZR z)) as H. rewrite Rabs_pos_eq in H by lra. apply H.
  apply Rle_trans with (2 := H1). change 1%R with (bpow radix2 0). apply bpow_le. lia.
Qed.

Lemma RNE_int_ge1 (z : Z) : 1 <= z -> (1 <= RNE64 (IZR z))%R.
Proof. intros Hz. apply RNE64_ge_generic; [apply (format_IZR 1); reflexivity|apply IZR_le; exact Hz]. Qed.

Lemma pow10_ge1 (i : Z) : 0 <= i -> 1 <= 10 ^ i.
Proof. intros Hi. assert (0 < 10 ^ i) by (apply Z.pow_pos_nonneg; lia). lia. Qed.

Lemma bpow_m1022_le_1 : (bpow radix2 (-1022) <= 1)%R.
Proof. change 1%R with (bpow radix2 0). apply bpow_le. lia. Qed.

(* constants *)
Definition K3 : R := ((3 + / 1099511627776) * u)%R.    (* (3 + 2^-40) * 2^-53 *)
Definition K5 : R := ((5 + / 1099511627776) * u)%R.    (* (5 + 2^-40) * 2^-53 *)

(* ------------------------------------------------------------------ *)
(** * C. error bounds *)

Definition exact_val (sig : N) (e : Z) : R := (IZR (Z.of_N sig) * powerRZ 10 e)%R.

Lemma exact_val_nonneg_e (sig : N) (e : Z) : 0 <= e -> exact_val sig e = (IZR (Z.of_N sig) * IZR (10 ^ e))%R.
Proof. intros He. unfold exact_val. rewrite powerRZ_10_nonneg by exact He. reflexivity. Qed.

Lemma exact_val_neg_e (sig : N) (e : Z) : e <= 0 -> exact_val sig e = (IZR (Z.of_N sig) / IZR (10 ^ (- e)))%R.
Proof.
  intros He. unfold exact_val. replace e with (- (- e)) at 1 by lia. rewrite powerRZ_10_neg by lia. reflexivity.
Qed.

Lemma exact_val_pos (sig : N) (e : Z) : (0 < sig)%N -> (0 < exact_val sig e)%R.
Proof.
  intros Hs. unfold exact_val. apply Rmult_lt_0_compat; [apply IZR_lt; lia|].
  apply powerRZ_lt. lra.
Qed.

(* band T+, accepted: three roundings, all in the normal range *)
Theorem C08_err_Tpos : forall sig e f, (0 < sig)%N -> (sig <= u64_max)%N -> 0 <= e <= 308 ->
  f64_loop 4 (b64_of_Z (Z.of_N sig)) e = Ok (Some f) ->
  (Rabs (B2R f - exact_val sig e) <= K3 * exact_val sig e)%R.
Proof.
  intros sig e f Hpos Hsig He Hl.
  destruct (loop_band_Tpos sig e Hsig He) as [(_ & f' & Hl' & HR)|(_ & Hl')]; rewrite Hl in Hl'; [|discriminate Hl'].
  injection Hl' as <-. rewrite HR, exact_val_nonneg_e by lia.
  assert (Hz : 1 <= Z.of_N sig) by lia. pose proof (pow10_ge1 e ltac:(lia)) as Hp.
  assert (HA : (1 <= IZR (Z.of_N sig))%R) by (apply IZR_le; exact Hz).
  assert (HB : (1 <= IZR (10 ^ e))%R) by (apply IZR_le; exact Hp).
  pose proof (near_mul _ _ _ _ _ _ ltac:(lra) ltac:(lra) (near_RNE_int _ Hz) (near_RNE_int _ Hp)) as Hy.
  assert (Hu : (0 <= u)%R) by apply bpow_ge_0.
  assert (HAB : (0 <= IZR (Z.of_N sig) * IZR (10 ^ e))%R) by (apply Rmult_le_pos; lra).
  pose proof (RNE_int_ge1 _ Hz) as H1. pose proof (RNE_int_ge1 _ Hp) as H2.
  apply near_rnd in Hy; [|nra|exact HAB|].
  - apply (near_weaken _ K3) in Hy; [exact Hy| |exact HAB].
    unfold K3. rewrite u_val. lra.
  - rewrite Rabs_pos_eq by nra. apply Rle_trans with (1 := bpow_m1022_le_1). nra.
Qed.

(* band T-: two roundings + the final one; relative bound when v is safely normal *)
Theorem C08_err_Tneg : forall sig e f, (0 < sig)%N -> (sig <= u64_max)%N -> -308 <= e < 0 ->
  f64_loop 4 (b64_of_Z (Z.of_N sig)) e = Ok (Some f) ->
  (bpow radix2 (-1021) <= exact_val sig e)%R ->
  (Rabs (B2R f - exact_val sig e) <= K3 * exact_val sig e)%R.
Proof.
  intros sig e f Hpos Hsig He Hl Hnorm.
  destruct (loop_band_Tneg sig e Hsig He) as (f' & Hl' & HR). rewrite Hl in Hl'. injection Hl' as <-.
  rewrite HR. rewrite exact_val_neg_e in * by lia.
  assert (Hz : 1 <= Z.of_N sig) by lia. pose proof (pow10_ge1 (- e) ltac:(lia)) as Hp.
  assert (HA : (1 <= IZR (Z.of_N sig))%R) by (apply IZR_le; exact Hz).
  assert (HB : (1 <= IZR (10 ^ (- e)))%R) by (apply IZR_le; exact Hp).
  assert (Hu : (0 <= u < 1)%R) by (rewrite u_val; lra).
  pose proof (near_div _ _ _ _ _ _ ltac:(lra) ltac:(lra) ltac:(lra) Hu (near_RNE_int _ Hz) (near_RNE_int _ Hp)) as Hy.
  set (v := (IZR (Z.of_N sig) / IZR (10 ^ (- e)))%R) in *.
  assert (Hv : (0 <= v)%R) by (pose proof (bpow_gt_0 radix2 (-1021)); lra).
  assert (Hk : (0 <= (u + u) / (1 - u))%R) by (rewrite u_val; lra).
  pose proof (near_bounds _ _ _ Hy) as [Hylo _].
  apply near_rnd in Hy; [|exact Hk|exact Hv|].
  - apply (near_weaken _ K3) in Hy; [exact Hy| |exact Hv]. unfold K3. rewrite u_val. lra.
  - assert (Hhalf : (/ 2 <= 1 - (u + u) / (1 - u))%R) by (rewrite u_val; lra).
    assert (Hb : (bpow radix2 (-1021) = 2 * bpow radix2 (-1022))%R).
    { change (-1021) with (1 + -1022). rewrite bpow_plus. reflexivity. }
    assert (Hy2 : (/ 2 * v <= (1 - (u + u) / (1 - u)) * v)%R) by (apply Rmult_le_compat_r; assumption).
    rewrite Rabs_pos_eq; lra.
Qed.

(* band T-, no normality assumption: the last rounding may be subnormal, costing at most half the smallest subnormal *)
Theorem C08_err_Tneg_abs : forall sig e f, (0 < sig)%N -> (sig <= u64_max)%N -> -308 <= e < 0 ->
  f64_loop 4 (b64_of_Z (Z.of_N sig)) e = Ok (Some f) ->
  (Rabs (B2R f - exact_val sig e) <= K3 * exact_val sig e + eta)%R.
Proof.
  intros sig e f Hpos Hsig He Hl.
  destruct (loop_band_Tneg sig e Hsig He) as (f' & Hl' & HR). rewrite Hl in Hl'. injection Hl' as <-.
  rewrite HR. rewrite exact_val_neg_e in * by lia.
  assert (Hz : 1 <= Z.of_N sig) by lia. pose proof (pow10_ge1 (- e) ltac:(lia)) as Hp.
  assert (HA : (1 <= IZR (Z.of_N sig))%R) by (apply IZR_le; exact Hz).
  assert (HB : (1 <= IZR (10 ^ (- e)))%R) by (apply IZR_le; exact Hp).
  assert (Hu : (0 <= u < 1)%R) by (rewrite u_val; lra).
  pose proof (near_div _ _ _ _ _ _ ltac:(lra) ltac:(lra) ltac:(lra) Hu (near_RNE_int _ Hz) (near_RNE_int _ Hp)) as Hy.
  set (v := (IZR (Z.of_N sig) / IZR (10 ^ (- e)))%R) in *.
  assert (Hv : (0 <= v)%R). { unfold v. apply Rlt_le, Rdiv_lt_0_compat; lra. }
  set (y := (RNE64 (IZR (Z.of_N sig)) / RNE64 (IZR (10 ^ (- e))))%R) in *.
  pose proof (near_bounds _ _ _ Hy) as [Hylo Hyhi]. unfold near in Hy.
  pose proof (RNE64_abs_err y) as Hr.
  assert (Hlo : (0 <= 1 - (u + u) / (1 - u))%R) by (rewrite u_val; lra).
  assert (Hypos : (0 <= y)%R) by (apply Rle_trans with (2 := Hylo); apply Rmult_le_pos; assumption).
  rewrite Rabs_pos_eq in Hr by exact Hypos.
  replace (RNE64 y - v)%R with ((RNE64 y - y) + (y - v))%R by ring.
  apply Rle_trans with (1 := Rabs_triang _ _).
  assert (Hc : (u * (1 + (u + u) / (1 - u)) + (u + u) / (1 - u) <= K3)%R) by (unfold K3; rewrite u_val; lra).
  assert (u * y <= u * ((1 + (u + u) / (1 - u)) * v))%R by (apply Rmult_le_compat_l; lra).
  assert ((u * (1 + (u + u) / (1 - u)) + (u + u) / (1 - u)) * v <= K3 * v)%R by (apply Rmult_le_compat_r; assumption).
  lra.
Qed.
