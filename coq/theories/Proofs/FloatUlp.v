(* Proofs/FloatUlp.v — property C08, general case: what f64_loop computes in each exponent band, and how far
   it can be from the exact value v = sig * 10^e.

     band T+  :    0 <= e <= 308   f = RNE(RNE(sig) * RNE(10^e))                       or "out of range"
     band T-  : -308 <= e <  0     f = RNE(RNE(sig) / RNE(10^-e))
     band U   : -616 <= e < -308   f = RNE(RNE(RNE(sig) / RNE(10^308)) / RNE(10^(-e-308)))
     e > 308  : out of range (sig > 0);   e < -616 : 0.

   u = 2^-53 (half an ulp, relative).  Error bounds (relative, v in the normal range):
     T+ , T-  : |f - v| <= (3 + 2^-40) u v          (three roundings)
     U        : |f - v| <= (5 + 2^-40) u v          (five roundings)
   and, in ulps of v, |f - RNE(v)| <= (3.5 + 2^-40) ulp(v)  resp.  (5.5 + 2^-40) ulp(v). *)
From Coq Require Import ZArith NArith Reals Lia Lra List Bool Psatz.
From Flocq Require Import Core BinarySingleNaN Relative.
From SJ Require Import Base.Bytes Base.FloatB Gen.Tables Model.Read Model.Num.
From SJ Require Import Proofs.FloatDefault.
Open Scope Z_scope.

Notation P308 := (p10 308).

(* ------------------------------------------------------------------ *)
(** * A. what the loop computes, band by band *)

Lemma loop_band_Tpos (sig : N) (e : Z) : (sig <= u64_max)%N -> 0 <= e <= 308 ->
  let y := (RNE64 (IZR (Z.of_N sig)) * RNE64 (IZR (10 ^ e)))%R in
  ((Rabs (RNE64 y) < bpow radix2 1024)%R /\
   exists f, f64_loop 4 (b64_of_Z (Z.of_N sig)) e = Ok (Some f) /\ B2R f = RNE64 y) \/
  ((bpow radix2 1024 <= Rabs (RNE64 y))%R /\ f64_loop 4 (b64_of_Z (Z.of_N sig)) e = Ok None).
Proof.
  intros Hsig He y.
  destruct (b64_of_Z_u64 (Z.of_N sig)) as (Hx & Hf & _); [lia|].
  destruct (p10_props e He) as (Hpf & Hy & _).
  rewrite f64_loop_S. rewrite Z.abs_eq, pow10_tab_some by lia.
  replace (0 <=? e) with true by (symmetry; apply Z.leb_le; lia). cbn zeta.
  destruct (mul_cases _ _ Hf Hpf) as [(Hni & _ & HR & _ & Hlt)|(Hi & Hge)]; rewrite Hx, Hy in *.
  - left. split; [exact Hlt|]. rewrite Hni. eexists. split; [reflexivity|exact HR].
  - right. split; [exact Hge|]. rewrite Hi. reflexivity.
Qed.

Lemma loop_band_Tneg (sig : N) (e : Z) : (sig <= u64_max)%N -> -308 <= e < 0 ->
  exists f, f64_loop 4 (b64_of_Z (Z.of_N sig)) e = Ok (Some f) /\
            B2R f = RNE64 (RNE64 (IZR (Z.of_N sig)) / RNE64 (IZR (10 ^ (- e)))).
Proof.
  intros Hsig He.
  destruct (b64_of_Z_u64 (Z.of_N sig)) as (Hx & Hf & _); [lia|].
  destruct (p10_props (- e)) as (Hpf & Hy & _ & Hp1); [lia|].
  rewrite f64_loop_S. rewrite Z.abs_neq, pow10_tab_some by lia.
  replace (0 <=? e) with false by (symmetry; apply Z.leb_gt; lia).
  destruct (div_ok _ _ Hf Hp1) as (_ & HR & _). rewrite Hx, Hy in HR.
  eexists. split; [reflexivity|exact HR].
Qed.

Lemma loop_band_U (sig : N) (e : Z) : (sig <= u64_max)%N -> -616 <= e < -308 ->
  exists f, f64_loop 4 (b64_of_Z (Z.of_N sig)) e = Ok (Some f) /\
            B2R f = RNE64 (RNE64 (RNE64 (IZR (Z.of_N sig)) / RNE64 (IZR (10 ^ 308))) / RNE64 (IZR (10 ^ (- e - 308)))).
Proof.
  intros Hsig He.
  destruct (b64_of_Z_u64 (Z.of_N sig)) as (Hx & Hf & _); [lia|].
  destruct (p10_props 308) as (_ & HP & _); [lia|].
  destruct (p10_props (- e - 308)) as (Hpf & Hy & _ & Hp1); [lia|].
  rewrite f64_loop_under_step by lia.
  destruct (b64_is_zero (b64_of_Z (Z.of_N sig))) eqn:Hz.
  - exists (b64_of_Z (Z.of_N sig)). split; [reflexivity|].
    destruct (zero_B2R _ Hz) as (H0 & _). rewrite <- Hx, H0.
    unfold Rdiv. rewrite Rmult_0_l, RNE64_0, Rmult_0_l, RNE64_0. reflexivity.
  - destruct (div_ok _ _ Hf P308_ge1) as (Hf1 & HR1 & _). rewrite Hx, HP in HR1.
    rewrite f64_loop_S. rewrite Z.abs_neq by lia.
    replace (- (e + 308)) with (- e - 308) by lia. rewrite pow10_tab_some by lia.
    replace (0 <=? e + 308) with false by (symmetry; apply Z.leb_gt; lia).
    destruct (div_ok _ _ Hf1 Hp1) as (_ & HR2 & _). rewrite HR1, Hy in HR2.
    eexists. split; [reflexivity|exact HR2].
Qed.

(* e < -616: two divisions by 1e308 already flush any u64 significand to zero (improves f64_loop_underflow_zero) *)
Theorem f64_loop_underflow_zero_617 : forall sig e, (sig <= u64_max)%N -> (e <= -617)%Z ->
  exists z, f64_loop 4 (b64_of_Z (Z.of_N sig)) e = Ok (Some z) /\ B2R z = 0%R.
Proof.
  intros sig e Hsig He.
  destruct (b64_of_Z_u64 (Z.of_N sig)) as (Hx & Hf & _); [lia|].
  rewrite f64_loop_under_step by lia.
  destruct (b64_is_zero (b64_of_Z (Z.of_N sig))) eqn:Hz0; [eexists; split; [reflexivity|apply zero_B2R, Hz0]|].
  rewrite f64_loop_under_step by lia.
  destruct (b64_is_zero (b64_div (b64_of_Z (Z.of_N sig)) P308)) eqn:Hz1; [eexists; split; [reflexivity|apply zero_B2R, Hz1]|].
  assert (H0 : (Rabs (B2R (b64_of_Z (Z.of_N sig))) <= bpow radix2 64)%R).
  { rewrite Hx. apply RNE64_abs_le; [apply format_bpow64; lia|].
    rewrite <- abs_IZR, bpow_IZR by lia. apply IZR_le. change u64_max with (Z.to_N (2 ^ 64 - 1)) in Hsig. lia. }
  destruct (div308_shrink_B2R _ 64 Hf H0) as (Hf1 & H1); [lia|].
  destruct (div_ok _ P308 Hf1 P308_ge1) as (Hf2 & H2 & _).
  assert (Hz2 : b64_is_zero (b64_div (b64_div (b64_of_Z (Z.of_N sig)) P308) P308) = true).
  { apply finite_B2R_0_zero; [exact Hf2|]. rewrite H2. apply RNE64_tiny.
    apply Rle_lt_trans with (1 := div308_shrink _ _ Hf1 H1). apply bpow_lt. lia. }
  destruct (f64_loop_zero_gen 1 _ (e + 308 + 308) Hz2) as (z & Hl & HB & _).
  exists z. auto.
Qed.

(* ------------------------------------------------------------------ *)
(** * B. error propagation toolkit *)

Definition u : R := bpow radix2 (-53).
Definition eta : R := bpow radix2 (-1075).
Definition near (k a A : R) : Prop := (Rabs (a - A) <= k * A)%R.

Lemma u_val : u = (/ 9007199254740992)%R.
Proof. reflexivity. Qed.

Lemma half_ulp_u : (/ 2 * bpow radix2 (- (53) + 1) = u)%R.
Proof. unfold u. change (- (53) + 1) with (-53 + 1). rewrite bpow_plus. change (bpow radix2 1) with 2%R. field. Qed.

Lemma half_emin_eta : (/ 2 * bpow radix2 (-1074) = eta)%R.
Proof. unfold eta. change (-1074) with (-1075 + 1). rewrite bpow_plus. change (bpow radix2 1) with 2%R. field. Qed.

Lemma RNE64_rel (x : R) : (bpow radix2 (-1022) <= Rabs x)%R -> (Rabs (RNE64 x - x) <= u * Rabs x)%R.
Proof.
  intros Hx. rewrite <- half_ulp_u. unfold RNE64.
  apply (relative_error_N_FLT radix2 (-1074) 53 ltac:(lia)). exact Hx.
Qed.

Lemma RNE64_abs_err (x : R) : (Rabs (RNE64 x - x) <= u * Rabs x + eta)%R.
Proof.
  destruct (error_N_FLT radix2 (-1074) 53 ltac:(lia) (fun z => negb (Z.even z)) x) as (eps & et & He & Ht & _ & HR).
  rewrite half_ulp_u in He. rewrite half_emin_eta in Ht.
  unfold RNE64. rewrite HR. replace (x * (1 + eps) + et - x)%R with (x * eps + et)%R by ring.
  apply Rle_trans with (1 := Rabs_triang _ _). rewrite Rabs_mult.
  apply Rplus_le_compat; [|exact Ht]. rewrite Rmult_comm. apply Rmult_le_compat_r; [apply Rabs_pos|exact He].
Qed.

Lemma near_bounds (k a A : R) : near k a A -> ((1 - k) * A <= a <= (1 + k) * A)%R.
Proof. unfold near. intros H. apply Rabs_le_inv in H. lra. Qed.

Lemma near_weaken (k k' a A : R) : (k <= k')%R -> (0 <= A)%R -> near k a A -> near k' a A.
Proof. unfold near. intros Hk HA H. apply Rle_trans with (1 := H). apply Rmult_le_compat_r; assumption. Qed.

Lemma near_rnd (k y A : R) : (0 <= k)%R -> (0 <= A)%R -> near k y A -> (bpow radix2 (-1022) <= Rabs y)%R ->
  near (k + u * (1 + k)) (RNE64 y) A.
Proof.
  unfold near. intros Hk HA Hy Hn.
  pose proof (RNE64_rel y Hn) as Hr.
  assert (Hay : (Rabs y <= (1 + k) * A)%R).
  { replace y with ((y - A) + A)%R by ring. apply Rle_trans with (1 := Rabs_triang _ _).
    rewrite (Rabs_pos_eq A) by exact HA. lra. }
  replace (RNE64 y - A)%R with ((RNE64 y - y) + (y - A))%R by ring.
  apply Rle_trans with (1 := Rabs_triang _ _).
  assert (0 <= u)%R by (apply bpow_ge_0).
  assert (u * Rabs y <= u * ((1 + k) * A))%R by (apply Rmult_le_compat_l; assumption).
  lra.
Qed.

Lemma near_mul (a b x y A B : R) : (0 <= A)%R -> (0 <= B)%R -> near a x A -> near b y B ->
  near (a + b + a * b) (x * y) (A * B).
Proof.
  unfold near. intros HA HB Hx Hy.
  replace (x * y - A * B)%R with ((x - A) * B + A * (y - B) + (x - A) * (y - B))%R by ring.
  apply Rle_trans with (1 := Rabs_triang _ _).
  apply Rle_trans with (Rabs ((x - A) * B) + Rabs (A * (y - B)) + Rabs ((x - A) * (y - B)))%R.
  { apply Rplus_le_compat_r. apply Rabs_triang. }
  rewrite !Rabs_mult. rewrite (Rabs_pos_eq A), (Rabs_pos_eq B) by assumption.
  pose proof (Rabs_pos (x - A)) as Hdx. pose proof (Rabs_pos (y - B)) as Hdy.
  set (dx := Rabs (x - A)) in *. set (dy := Rabs (y - B)) in *.
  assert (dx * dy <= (a * A) * (b * B))%R by (apply Rmult_le_compat; assumption).
  assert (dx * B <= a * A * B)%R by (apply Rmult_le_compat_r; assumption).
  assert (A * dy <= A * (b * B))%R by (apply Rmult_le_compat_l; assumption).
  lra.
Qed.

Lemma near_div (a b x y A B : R) : (0 <= A)%R -> (0 < B)%R -> (0 <= a)%R -> (0 <= b < 1)%R ->
  near a x A -> near b y B -> near ((a + b) / (1 - b)) (x / y) (A / B).
Proof.
  intros HA HB Ha Hb Hx Hy.
  pose proof (near_bounds _ _ _ Hy) as [Hylo _].
  assert (HyB : (0 < (1 - b) * B)%R) by (apply Rmult_lt_0_compat; lra).
  assert (Hypos : (0 < y)%R) by lra.
  unfold near in *.
  replace (x / y - A / B)%R with (((x - A) * B - A * (y - B)) * / (y * B))%R by (field; lra).
  assert (HyBpos : (0 < y * B)%R) by (apply Rmult_lt_0_compat; assumption).
  rewrite Rabs_mult, (Rabs_pos_eq (/ (y * B))) by (left; apply Rinv_0_lt_compat; exact HyBpos).
  assert (HN : (Rabs ((x - A) * B - A * (y - B)) <= (a + b) * A * B)%R).
  { unfold Rminus at 1. apply Rle_trans with (1 := Rabs_triang _ _).
    rewrite Rabs_Ropp, !Rabs_mult, (Rabs_pos_eq A), (Rabs_pos_eq B) by lra.
    assert (Rabs (x - A) * B <= a * A * B)%R by (apply Rmult_le_compat_r; lra).
    assert (A * Rabs (y - B) <= A * (b * B))%R by (apply Rmult_le_compat_l; lra).
    lra. }
  apply Rle_trans with ((a + b) * A * B * / (y * B))%R.
  { apply Rmult_le_compat_r; [left; apply Rinv_0_lt_compat; exact HyBpos|exact HN]. }
  replace ((a + b) * A * B * / (y * B))%R with ((a + b) * A * / y)%R by (field; lra).
  replace ((a + b) / (1 - b) * (A / B))%R with ((a + b) * A * / ((1 - b) * B))%R by (field; lra).
  apply Rmult_le_compat_l; [apply Rmult_le_pos; lra|].
  apply Rinv_le_contravar; [exact HyB|exact Hylo].
Qed.

Lemma near_RNE_int (z : Z) : 1 <= z -> near u (RNE64 (IZR z)) (IZR z).
Proof.
  intros Hz. unfold near.
  assert (H1 : (1 <= IZR z)%R) by (apply IZR_le; exact Hz).
  pose proof (RNE64_rel (IZR z)) as H. rewrite Rabs_pos_eq in H by lra. apply H.
  apply Rle_trans with (2 := H1). change 1%R with (bpow radix2 0). apply bpow_le. lia.
Qed.

Lemma RNE_int_ge1 (z : Z) : 1 <= z -> (1 <= RNE64 (IZR z))%R.
Proof. intros Hz. apply RNE64_ge_generic; [apply (format_IZR 1); reflexivity|apply IZR_le; exact Hz]. Qed.

Lemma pow10_ge1 (i : Z) : 0 <= i -> 1 <= 10 ^ i.
Proof. intros Hi. assert (0 < 10 ^ i) by (apply Z.pow_pos_nonneg; lia). lia. Qed.

Lemma bpow_m1022_le_1 : (bpow radix2 (-1022) <= 1)%R.
Proof. change 1%R with (bpow radix2 0). apply bpow_le. lia. Qed.

(* constants *)
Definition K3 : R := ((3 + / 1099511627776) * u)%R.    (* (3 + 2^-40) * 2^-53 *)
Definition K5 : R := ((5 + / 1099511627776) * u)%R.    (* (5 + 2^-40) * 2^-53 *)

(* ------------------------------------------------------------------ *)
(** * C. error bounds *)

Definition exact_val (sig : N) (e : Z) : R := (IZR (Z.of_N sig) * powerRZ 10 e)%R.

Lemma exact_val_nonneg_e (sig : N) (e : Z) : 0 <= e -> exact_val sig e = (IZR (Z.of_N sig) * IZR (10 ^ e))%R.
Proof. intros He. unfold exact_val. rewrite powerRZ_10_nonneg by exact He. reflexivity. Qed.

Lemma exact_val_neg_e (sig : N) (e : Z) : e <= 0 -> exact_val sig e = (IZR (Z.of_N sig) / IZR (10 ^ (- e)))%R.
Proof.
  intros He. unfold exact_val. replace e with (- (- e)) at 1 by lia. rewrite powerRZ_10_neg by lia. reflexivity.
Qed.

Lemma exact_val_pos (sig : N) (e : Z) : (0 < sig)%N -> (0 < exact_val sig e)%R.
Proof.
  intros Hs. unfold exact_val. apply Rmult_lt_0_compat; [apply IZR_lt; lia|].
  apply powerRZ_lt. lra.
Qed.

(* band T+, accepted: three roundings, all in the normal range *)
Theorem C08_err_Tpos : forall sig e f, (0 < sig)%N -> (sig <= u64_max)%N -> 0 <= e <= 308 ->
  f64_loop 4 (b64_of_Z (Z.of_N sig)) e = Ok (Some f) ->
  (Rabs (B2R f - exact_val sig e) <= K3 * exact_val sig e)%R.
Proof.
  intros sig e f Hpos Hsig He Hl.
  destruct (loop_band_Tpos sig e Hsig He) as [(_ & f' & Hl' & HR)|(_ & Hl')]; rewrite Hl in Hl'; [|discriminate Hl'].
  injection Hl' as <-. rewrite HR, exact_val_nonneg_e by lia.
  assert (Hz : 1 <= Z.of_N sig) by lia. pose proof (pow10_ge1 e ltac:(lia)) as Hp.
  assert (HA : (1 <= IZR (Z.of_N sig))%R) by (apply IZR_le; exact Hz).
  assert (HB : (1 <= IZR (10 ^ e))%R) by (apply IZR_le; exact Hp).
  assert (HA0 : (0 <= IZR (Z.of_N sig))%R) by lra. assert (HB0 : (0 <= IZR (10 ^ e))%R) by lra.
  pose proof (near_mul _ _ _ _ _ _ HA0 HB0 (near_RNE_int _ Hz) (near_RNE_int _ Hp)) as Hy.
  assert (Hu : (0 <= u)%R) by apply bpow_ge_0.
  assert (HAB : (0 <= IZR (Z.of_N sig) * IZR (10 ^ e))%R) by (apply Rmult_le_pos; lra).
  pose proof (RNE_int_ge1 _ Hz) as H1. pose proof (RNE_int_ge1 _ Hp) as H2.
  assert (Hk : (0 <= u + u + u * u)%R) by nra.
  assert (Hn : (bpow radix2 (-1022) <= Rabs (RNE64 (IZR (Z.of_N sig)) * RNE64 (IZR (10 ^ e))))%R).
  { rewrite Rabs_pos_eq by nra. apply Rle_trans with (1 := bpow_m1022_le_1). nra. }
  pose proof (near_rnd _ _ _ Hk HAB Hy Hn) as Hf.
  apply (near_weaken _ K3) in Hf; [exact Hf| |exact HAB].
  unfold K3. rewrite u_val. lra.
Qed.

(* band T-: two roundings + the final one; relative bound when v is safely normal *)
Theorem C08_err_Tneg : forall sig e f, (0 < sig)%N -> (sig <= u64_max)%N -> -308 <= e < 0 ->
  f64_loop 4 (b64_of_Z (Z.of_N sig)) e = Ok (Some f) ->
  (bpow radix2 (-1021) <= exact_val sig e)%R ->
  (Rabs (B2R f - exact_val sig e) <= K3 * exact_val sig e)%R.
Proof.
  intros sig e f Hpos Hsig He Hl Hnorm.
  destruct (loop_band_Tneg sig e Hsig He) as (f' & Hl' & HR). rewrite Hl in Hl'. injection Hl' as <-.
  rewrite HR. rewrite exact_val_neg_e in * by lia.
  assert (Hz : 1 <= Z.of_N sig) by lia. pose proof (pow10_ge1 (- e) ltac:(lia)) as Hp.
  assert (HA : (1 <= IZR (Z.of_N sig))%R) by (apply IZR_le; exact Hz).
  assert (HB : (1 <= IZR (10 ^ (- e)))%R) by (apply IZR_le; exact Hp).
  assert (Hu : (0 <= u < 1)%R) by (rewrite u_val; lra).
  assert (HA0 : (0 <= IZR (Z.of_N sig))%R) by lra. assert (HB0 : (0 < IZR (10 ^ (- e)))%R) by lra.
  pose proof (near_div _ _ _ _ _ _ HA0 HB0 (proj1 Hu) Hu (near_RNE_int _ Hz) (near_RNE_int _ Hp)) as Hy.
  set (v := (IZR (Z.of_N sig) / IZR (10 ^ (- e)))%R) in *.
  assert (Hv : (0 <= v)%R) by (pose proof (bpow_gt_0 radix2 (-1021)); lra).
  assert (Hk : (0 <= (u + u) / (1 - u))%R) by (rewrite u_val; lra).
  pose proof (near_bounds _ _ _ Hy) as [Hylo _].
  assert (Hn : (bpow radix2 (-1022) <= Rabs (RNE64 (IZR (Z.of_N sig)) / RNE64 (IZR (10 ^ (- e)))))%R).
  { assert (Hhalf : (/ 2 <= 1 - (u + u) / (1 - u))%R) by (rewrite u_val; lra).
    assert (Hb : (bpow radix2 (-1021) = 2 * bpow radix2 (-1022))%R).
    { change (-1021) with (1 + -1022). rewrite bpow_plus. reflexivity. }
    assert (Hy2 : (/ 2 * v <= (1 - (u + u) / (1 - u)) * v)%R) by (apply Rmult_le_compat_r; assumption).
    rewrite Rabs_pos_eq; lra. }
  pose proof (near_rnd _ _ _ Hk Hv Hy Hn) as Hf.
  apply (near_weaken _ K3) in Hf; [exact Hf| |exact Hv]. unfold K3. rewrite u_val. lra.
Qed.

(* band T-, no normality assumption: the last rounding may be subnormal, costing at most half the smallest subnormal *)
Theorem C08_err_Tneg_abs : forall sig e f, (0 < sig)%N -> (sig <= u64_max)%N -> -308 <= e < 0 ->
  f64_loop 4 (b64_of_Z (Z.of_N sig)) e = Ok (Some f) ->
  (Rabs (B2R f - exact_val sig e) <= K3 * exact_val sig e + eta)%R.
Proof.
  intros sig e f Hpos Hsig He Hl.
  destruct (loop_band_Tneg sig e Hsig He) as (f' & Hl' & HR). rewrite Hl in Hl'. injection Hl' as <-.
  rewrite HR. rewrite exact_val_neg_e in * by lia.
  assert (Hz : 1 <= Z.of_N sig) by lia. pose proof (pow10_ge1 (- e) ltac:(lia)) as Hp.
  assert (HA : (1 <= IZR (Z.of_N sig))%R) by (apply IZR_le; exact Hz).
  assert (HB : (1 <= IZR (10 ^ (- e)))%R) by (apply IZR_le; exact Hp).
  assert (Hu : (0 <= u < 1)%R) by (rewrite u_val; lra).
  assert (HA0 : (0 <= IZR (Z.of_N sig))%R) by lra. assert (HB0 : (0 < IZR (10 ^ (- e)))%R) by lra.
  pose proof (near_div _ _ _ _ _ _ HA0 HB0 (proj1 Hu) Hu (near_RNE_int _ Hz) (near_RNE_int _ Hp)) as Hy.
  set (v := (IZR (Z.of_N sig) / IZR (10 ^ (- e)))%R) in *.
  assert (Hv : (0 <= v)%R). { unfold v. apply Rlt_le, Rdiv_lt_0_compat; lra. }
  set (y := (RNE64 (IZR (Z.of_N sig)) / RNE64 (IZR (10 ^ (- e))))%R) in *.
  pose proof (near_bounds _ _ _ Hy) as [Hylo Hyhi]. unfold near in Hy.
  pose proof (RNE64_abs_err y) as Hr.
  assert (Hlo : (0 <= 1 - (u + u) / (1 - u))%R) by (rewrite u_val; lra).
  assert (Hypos : (0 <= y)%R) by (apply Rle_trans with (2 := Hylo); apply Rmult_le_pos; assumption).
  rewrite (Rabs_pos_eq y) in Hr by exact Hypos.
  replace (RNE64 y - v)%R with ((RNE64 y - y) + (y - v))%R by ring.
  apply Rle_trans with (1 := Rabs_triang _ _).
  assert (Hc : (u * (1 + (u + u) / (1 - u)) + (u + u) / (1 - u) <= K3)%R) by (unfold K3; rewrite u_val; lra).
  assert (u * y <= u * ((1 + (u + u) / (1 - u)) * v))%R by (apply Rmult_le_compat_l; lra).
  assert ((u * (1 + (u + u) / (1 - u)) + (u + u) / (1 - u)) * v <= K3 * v)%R by (apply Rmult_le_compat_r; assumption).
  lra.
Qed.

(* band U: five roundings (sig, 1e308, quotient, 10^j, quotient), all normal when v >= 2^-1021 *)
Theorem C08_err_U : forall sig e f, (0 < sig)%N -> (sig <= u64_max)%N -> -616 <= e < -308 ->
  f64_loop 4 (b64_of_Z (Z.of_N sig)) e = Ok (Some f) ->
  (bpow radix2 (-1021) <= exact_val sig e)%R ->
  (Rabs (B2R f - exact_val sig e) <= K5 * exact_val sig e)%R.
Proof.
  intros sig e f Hpos Hsig He Hl Hnorm.
  destruct (loop_band_U sig e Hsig He) as (f' & Hl' & HR). rewrite Hl in Hl'. injection Hl' as <-.
  rewrite HR. rewrite exact_val_neg_e in * by lia.
  set (j := - e - 308) in *.
  assert (Hz : 1 <= Z.of_N sig) by lia.
  pose proof (pow10_ge1 308 ltac:(lia)) as Hp1. pose proof (pow10_ge1 j ltac:(lia)) as Hp2.
  assert (HA : (1 <= IZR (Z.of_N sig))%R) by (apply IZR_le; exact Hz).
  assert (HB1 : (1 <= IZR (10 ^ 308))%R) by (apply IZR_le; exact Hp1).
  assert (HB2 : (1 <= IZR (10 ^ j))%R) by (apply IZR_le; exact Hp2).
  assert (Hsplit : IZR (10 ^ (- e)) = (IZR (10 ^ 308) * IZR (10 ^ j))%R).
  { replace (- e) with (308 + j) by lia. rewrite Z.pow_add_r by lia. apply mult_IZR. }
  set (A := IZR (Z.of_N sig)) in *. set (B1 := IZR (10 ^ 308)) in *. set (B2 := IZR (10 ^ j)) in *.
  assert (Hv : (A / IZR (10 ^ (- e)) = A / B1 / B2)%R) by (rewrite Hsplit; field; lra).
  rewrite Hv in *. set (s := (A / B1)%R) in *.
  assert (Hs : (0 < s)%R) by (apply Rdiv_lt_0_compat; lra).
  assert (Hsv : (s / B2 <= s)%R).
  { unfold Rdiv. rewrite <- (Rmult_1_r s) at 2. apply Rmult_le_compat_l; [lra|].
    rewrite <- Rinv_1. apply Rinv_le_contravar; lra. }
  assert (Hu : (0 <= u < 1)%R) by (rewrite u_val; lra).
  assert (Hb : (bpow radix2 (-1021) = 2 * bpow radix2 (-1022))%R).
  { change (-1021) with (1 + -1022). rewrite bpow_plus. reflexivity. }
  assert (HA0 : (0 <= A)%R) by lra. assert (HB10 : (0 < B1)%R) by lra. assert (HB20 : (0 < B2)%R) by lra.
  (* first quotient *)
  pose proof (near_div _ _ _ _ _ _ HA0 HB10 (proj1 Hu) Hu (near_RNE_int _ Hz) (near_RNE_int _ Hp1)) as Hy1.
  fold A B1 s in Hy1.
  set (k1 := ((u + u) / (1 - u))%R) in *.
  assert (Hk1 : (0 <= k1 <= / 4)%R) by (unfold k1; rewrite u_val; lra).
  pose proof (near_bounds _ _ _ Hy1) as [Hy1lo _].
  assert (Hn1 : (bpow radix2 (-1022) <= Rabs (RNE64 A / RNE64 B1))%R).
  { assert ((1 - k1) * s >= / 2 * s)%R by nra. rewrite Rabs_pos_eq; lra. }
  pose proof (near_rnd _ _ _ (proj1 Hk1) (Rlt_le _ _ Hs) Hy1 Hn1) as Hf1.
  set (k2 := (k1 + u * (1 + k1))%R) in *.
  assert (Hk2 : (0 <= k2 <= / 4)%R) by (unfold k2, k1; rewrite u_val; lra).
  (* second quotient *)
  pose proof (near_div _ _ _ _ _ _ (Rlt_le _ _ Hs) HB20 (proj1 Hk2) Hu Hf1 (near_RNE_int _ Hp2)) as Hy2.
  fold B2 in Hy2.
  set (k3 := ((k2 + u) / (1 - u))%R) in *.
  assert (Hk3 : (0 <= k3 <= / 4)%R) by (unfold k3, k2, k1; rewrite u_val; lra).
  assert (Hv0 : (0 <= s / B2)%R) by (pose proof (bpow_gt_0 radix2 (-1021)); lra).
  pose proof (near_bounds _ _ _ Hy2) as [Hy2lo _].
  assert (Hn2 : (bpow radix2 (-1022) <= Rabs (RNE64 (RNE64 A / RNE64 B1) / RNE64 B2))%R).
  { assert ((1 - k3) * (s / B2) >= / 2 * (s / B2))%R by nra. rewrite Rabs_pos_eq; lra. }
  pose proof (near_rnd _ _ _ (proj1 Hk3) Hv0 Hy2 Hn2) as Hf.
  apply (near_weaken _ K5) in Hf; [exact Hf| |exact Hv0].
  unfold K5, k3, k2, k1. rewrite u_val. lra.
Qed.

(* ------------------------------------------------------------------ *)
(** * D. overflow: rejected only near / beyond the threshold, always when beyond by the tolerance *)

Lemma four_u : bpow radix2 (-51) = (4 * u)%R.
Proof. unfold u. change (-51) with (2 + -53). rewrite bpow_plus. reflexivity. Qed.

Lemma max_float_val : (IZR (2 ^ 53 - 1) * bpow radix2 971 = (1 - u) * bpow radix2 1024)%R.
Proof.
  rewrite minus_IZR, <- bpow_IZR by lia. unfold u.
  change 1024 with (53 + 971). rewrite (bpow_plus radix2 53 971).
  assert (H : (bpow radix2 (-53) * bpow radix2 53 = 1)%R) by (rewrite <- bpow_plus; reflexivity).
  replace ((1 - bpow radix2 (-53)) * (bpow radix2 53 * bpow radix2 971))%R
    with (bpow radix2 53 * bpow radix2 971 - (bpow radix2 (-53) * bpow radix2 53) * bpow radix2 971)%R by ring.
  rewrite H. ring.
Qed.

Lemma pow10_309_big : (bpow radix2 1024 <= IZR (10 ^ 309))%R.
Proof. rewrite bpow_IZR by lia. apply IZR_le. apply Z.leb_le. vm_compute. reflexivity. Qed.

Theorem C08_reject_only_near_overflow : forall sig e, (0 < sig)%N -> (sig <= u64_max)%N ->
  f64_loop 4 (b64_of_Z (Z.of_N sig)) e = Ok None ->
  (bpow radix2 1024 * (1 - bpow radix2 (-51)) < exact_val sig e)%R.
Proof.
  intros sig e Hpos Hsig Hl.
  assert (Hz : 1 <= Z.of_N sig) by lia.
  assert (HA : (1 <= IZR (Z.of_N sig))%R) by (apply IZR_le; exact Hz).
  pose proof (bpow_gt_0 radix2 1024) as HT.
  destruct (Z_lt_le_dec e 0) as [Hneg|Hnn].
  { exfalso. destruct (Z_le_gt_dec e (-617)) as [H1|H1].
    - destruct (f64_loop_underflow_zero_617 sig e Hsig H1) as (z & Hz' & _). congruence.
    - destruct (Z_lt_le_dec e (-308)) as [H2|H2].
      + destruct (loop_band_U sig e Hsig ltac:(lia)) as (z & Hz' & _). congruence.
      + destruct (loop_band_Tneg sig e Hsig ltac:(lia)) as (z & Hz' & _). congruence. }
  rewrite exact_val_nonneg_e by lia. rewrite four_u.
  destruct (Z_le_gt_dec e 308) as [Hle|Hgt].
  - destruct (loop_band_Tpos sig e Hsig ltac:(lia)) as [(_ & f' & Hl' & _)|(Hge & _)]; [congruence|].
    pose proof (pow10_ge1 e Hnn) as Hp.
    assert (HB : (1 <= IZR (10 ^ e))%R) by (apply IZR_le; exact Hp).
    assert (HA0 : (0 <= IZR (Z.of_N sig))%R) by lra. assert (HB0 : (0 <= IZR (10 ^ e))%R) by lra.
    pose proof (near_mul _ _ _ _ _ _ HA0 HB0 (near_RNE_int _ Hz) (near_RNE_int _ Hp)) as Hy.
    apply near_bounds in Hy. destruct Hy as [_ Hyhi].
    pose proof (RNE_int_ge1 _ Hz) as H1. pose proof (RNE_int_ge1 _ Hp) as H2.
    set (y := (RNE64 (IZR (Z.of_N sig)) * RNE64 (IZR (10 ^ e)))%R) in *.
    assert (Hy0 : (0 <= y)%R) by (unfold y; nra).
    rewrite Rabs_pos_eq in Hge by (apply RNE64_nonneg; exact Hy0).
    assert (Hymax : (IZR (2 ^ 53 - 1) * bpow radix2 971 < y)%R).
    { apply Rnot_le_lt. intros Hc. apply (RNE64_le_generic _ _ max_float_format) in Hc.
      pose proof max_float_lt. lra. }
    rewrite max_float_val in Hymax.
    set (v := (IZR (Z.of_N sig) * IZR (10 ^ e))%R) in *. set (T := bpow radix2 1024) in *.
    rewrite u_val in *. lra.
  - assert (Hbig : (IZR (10 ^ 309) <= IZR (10 ^ e))%R) by (apply IZR_le, Z.pow_le_mono_r; lia).
    pose proof pow10_309_big as H309. assert (Hu : (0 < u)%R) by apply bpow_gt_0.
    apply Rlt_le_trans with (bpow radix2 1024); [nra|].
    apply Rle_trans with (1 * IZR (10 ^ e))%R; [lra|]. apply Rmult_le_compat_r; lra.
Qed.

Theorem C08_reject_if_beyond : forall sig e, (0 < sig)%N -> (sig <= u64_max)%N ->
  (bpow radix2 1024 * (1 + bpow radix2 (-51)) <= exact_val sig e)%R ->
  f64_loop 4 (b64_of_Z (Z.of_N sig)) e = Ok None.
Proof.
  intros sig e Hpos Hsig Hv.
  assert (Hz : 1 <= Z.of_N sig) by lia.
  assert (HA : (1 <= IZR (Z.of_N sig))%R) by (apply IZR_le; exact Hz).
  pose proof (bpow_gt_0 radix2 1024) as HT. rewrite four_u in Hv.
  assert (Hu : (0 < u)%R) by apply bpow_gt_0.
  destruct (Z_lt_le_dec e 0) as [Hneg|Hnn].
  { exfalso. rewrite exact_val_neg_e in Hv by lia.
    pose proof (pow10_ge1 (- e) ltac:(lia)) as Hp.
    assert (HB : (1 <= IZR (10 ^ (- e)))%R) by (apply IZR_le; exact Hp).
    assert (Hle : (IZR (Z.of_N sig) / IZR (10 ^ (- e)) <= IZR (Z.of_N sig))%R).
    { unfold Rdiv. rewrite <- (Rmult_1_r (IZR (Z.of_N sig))) at 2. apply Rmult_le_compat_l; [lra|].
      rewrite <- Rinv_1. apply Rinv_le_contravar; lra. }
    assert (Hs64 : (IZR (Z.of_N sig) <= bpow radix2 64)%R).
    { rewrite bpow_IZR by lia. apply IZR_le. change u64_max with (Z.to_N (2 ^ 64 - 1)) in Hsig. lia. }
    assert (bpow radix2 64 < bpow radix2 1024)%R by (apply bpow_lt; lia). nra. }
  destruct (Z_le_gt_dec e 308) as [Hle|Hgt]; [|apply f64_loop_overflow_rejects; [exact Hpos|exact Hsig|lia]].
  rewrite exact_val_nonneg_e in Hv by lia.
  destruct (loop_band_Tpos sig e Hsig ltac:(lia)) as [(Hlt & _)|(_ & Hl)]; [exfalso|exact Hl].
  pose proof (pow10_ge1 e Hnn) as Hp.
  assert (HB : (1 <= IZR (10 ^ e))%R) by (apply IZR_le; exact Hp).
  assert (HA0 : (0 <= IZR (Z.of_N sig))%R) by lra. assert (HB0 : (0 <= IZR (10 ^ e))%R) by lra.
  pose proof (near_mul _ _ _ _ _ _ HA0 HB0 (near_RNE_int _ Hz) (near_RNE_int _ Hp)) as Hy.
  apply near_bounds in Hy. destruct Hy as [Hylo _].
  set (y := (RNE64 (IZR (Z.of_N sig)) * RNE64 (IZR (10 ^ e)))%R) in *.
  assert (HyT : (bpow radix2 1024 <= y)%R).
  { set (v := (IZR (Z.of_N sig) * IZR (10 ^ e))%R) in *. set (T := bpow radix2 1024) in *.
    rewrite u_val in *. lra. }
  apply (RNE64_ge_generic _ _ (format_bpow64 1024 ltac:(lia))) in HyT.
  rewrite Rabs_pos_eq in Hlt by lra. lra.
Qed.

(* "always rejected if beyond the threshold" is FALSE without the tolerance:
   1.79769313486231599e308 = 179769313486231599e291 >= 2^1024 (beyond f64::MAX + half an ulp, the exact value
   is not representable: a correctly rounding parser overflows) but the default build returns f64::MAX. *)
Example accepted_beyond_threshold :
  (2 ^ 1024 <= 179769313486231599 * 10 ^ 291) /\
  b64_is_inf (rne_decimal 179769313486231599 291) = true /\
  option_map bits_of_b64 (match f64_loop 4 (b64_of_Z 179769313486231599) 291 with Ok o => o | _ => None end)
  = Some 9218868437227405311%N (* 0x7FEFFFFFFFFFFFFF = f64::MAX *).
Proof. split; [apply Z.leb_le; vm_compute; reflexivity|]. split; vm_compute; reflexivity. Qed.

(* ------------------------------------------------------------------ *)
(** * E. underflow: values at most 2^-1076 (half the rounding boundary of the smallest subnormal) give zero *)

Theorem C08_underflow_zero : forall sig e, (sig <= u64_max)%N ->
  (exact_val sig e <= bpow radix2 (-1076))%R ->
  exists z, f64_loop 4 (b64_of_Z (Z.of_N sig)) e = Ok (Some z) /\ B2R z = 0%R.
Proof.
  intros sig e Hsig Hv.
  destruct (N.eq_dec sig 0) as [->|Hnz]; [apply f64_loop_zero|].
  assert (Hz : 1 <= Z.of_N sig) by lia.
  assert (HA : (1 <= IZR (Z.of_N sig))%R) by (apply IZR_le; exact Hz).
  destruct (Z_le_gt_dec e (-617)) as [H1|H1]; [apply f64_loop_underflow_zero_617; assumption|].
  pose proof (bpow_gt_0 radix2 (-1076)) as Hpos76.
  assert (Hsmall : (bpow radix2 (-1076) < / IZR (10 ^ 308))%R).
  { change (-1076) with (- (1076)). rewrite bpow_opp, bpow_IZR by lia.
    apply Rinv_lt_contravar; [apply Rmult_lt_0_compat; apply IZR_lt; reflexivity|].
    apply IZR_lt. apply Z.ltb_lt. vm_compute. reflexivity. }
  destruct (Z_lt_le_dec e (-308)) as [H2|H2].
  2:{ exfalso. destruct (Z_lt_le_dec e 0) as [H3|H3].
      - rewrite exact_val_neg_e in Hv by lia.
        pose proof (pow10_ge1 (- e) ltac:(lia)) as Hp.
        assert (Hle : (IZR (10 ^ (- e)) <= IZR (10 ^ 308))%R) by (apply IZR_le, Z.pow_le_mono_r; lia).
        assert (HB : (1 <= IZR (10 ^ (- e)))%R) by (apply IZR_le; exact Hp).
        assert (Hinv : (/ IZR (10 ^ 308) <= / IZR (10 ^ (- e)))%R) by (apply Rinv_le_contravar; lra).
        assert (0 < / IZR (10 ^ (- e)))%R by (apply Rinv_0_lt_compat; lra).
        unfold Rdiv in Hv. nra.
      - rewrite exact_val_nonneg_e in Hv by lia.
        pose proof (pow10_ge1 e H3) as Hp. assert (HB : (1 <= IZR (10 ^ e))%R) by (apply IZR_le; exact Hp).
        assert (bpow radix2 (-1076) < 1)%R by (change 1%R with (bpow radix2 0); apply bpow_lt; lia). nra. }
  (* band U *)
  destruct (loop_band_U sig e Hsig ltac:(lia)) as (f & Hl & HR).
  exists f. split; [exact Hl|]. rewrite HR. apply RNE64_tiny.
  rewrite exact_val_neg_e in Hv by lia.
  set (j := - e - 308) in *.
  pose proof (pow10_ge1 308 ltac:(lia)) as Hp1.
  assert (Hp2 : 10 <= 10 ^ j). { change 10 with (10 ^ 1) at 1. apply Z.pow_le_mono_r; lia. }
  assert (HB1 : (1 <= IZR (10 ^ 308))%R) by (apply IZR_le; exact Hp1).
  assert (HB2 : (10 <= IZR (10 ^ j))%R) by (apply IZR_le; exact Hp2).
  assert (Hsplit : IZR (10 ^ (- e)) = (IZR (10 ^ 308) * IZR (10 ^ j))%R).
  { replace (- e) with (308 + j) by lia. rewrite Z.pow_add_r by lia. apply mult_IZR. }
  set (A := IZR (Z.of_N sig)) in *. set (B1 := IZR (10 ^ 308)) in *. set (B2 := IZR (10 ^ j)) in *.
  assert (Hveq : (A / IZR (10 ^ (- e)) = A / B1 * / B2)%R) by (rewrite Hsplit; field; lra).
  rewrite Hveq in Hv. set (s := (A / B1)%R) in *. set (w := (/ B2)%R) in *.
  assert (Hs : (0 < s)%R) by (apply Rdiv_lt_0_compat; lra).
  assert (Hw : (0 < w <= / 10)%R).
  { unfold w. split; [apply Rinv_0_lt_compat; lra|apply Rinv_le_contravar; lra]. }
  assert (Hu : (0 <= u < 1)%R) by (rewrite u_val; lra).
  assert (HA0 : (0 <= A)%R) by lra. assert (HB10 : (0 < B1)%R) by lra.
  pose proof (near_div _ _ _ _ _ _ HA0 HB10 (proj1 Hu) Hu (near_RNE_int _ Hz) (near_RNE_int _ Hp1)) as Hy1.
  fold A B1 s in Hy1. set (k1 := ((u + u) / (1 - u))%R) in *.
  assert (Hk1 : (0 <= k1 <= / 1000000)%R) by (unfold k1; rewrite u_val; lra).
  pose proof (near_bounds _ _ _ Hy1) as [Hy1lo Hy1hi].
  set (y1 := (RNE64 A / RNE64 B1)%R) in *.
  assert (Hy1pos : (0 <= y1)%R) by nra.
  pose proof (RNE64_abs_err y1) as Hr1. rewrite (Rabs_pos_eq y1) in Hr1 by exact Hy1pos.
  apply Rabs_le_inv in Hr1.
  pose proof (RNE64_nonneg y1 Hy1pos) as Hf1pos.
  set (f1 := RNE64 y1) in *.
  assert (Hf1hi : (f1 <= (1 + u) * (1 + k1) * s + eta)%R).
  { assert (u * y1 <= u * ((1 + k1) * s))%R by (apply Rmult_le_compat_l; lra). lra. }
  (* divisor *)
  assert (Hp2' : 1 <= 10 ^ j) by lia.
  pose proof (near_bounds _ _ _ (near_RNE_int _ Hp2')) as [Hp2lo _]. fold B2 in Hp2lo.
  set (p2 := RNE64 B2) in *.
  assert (Hp2pos : (0 < (1 - u) * B2)%R) by (apply Rmult_lt_0_compat; lra).
  assert (Hinv : (/ p2 <= w * / (1 - u))%R).
  { unfold w. rewrite <- Rinv_mult, (Rmult_comm B2). apply Rinv_le_contravar; [exact Hp2pos|exact Hp2lo]. }
  assert (Hinvpos : (0 < / p2)%R) by (apply Rinv_0_lt_compat; lra).
  assert (Hy2 : (f1 / p2 <= ((1 + u) * (1 + k1) * s + eta) * (w * / (1 - u)))%R).
  { unfold Rdiv. apply Rmult_le_compat; lra. }
  assert (Heta : (0 < eta)%R) by apply bpow_gt_0.
  assert (Heq : (((1 + u) * (1 + k1) * s + eta) * (w * / (1 - u))
                 = ((1 + u) * (1 + k1) * (s * w) + eta * w) * / (1 - u))%R) by ring.
  rewrite Heq in Hy2.
  assert (Hetaw : (eta * w <= eta * / 10)%R) by (apply Rmult_le_compat_l; lra).
  assert (Heta2 : (bpow radix2 (-1076) = eta / 2)%R).
  { unfold eta. change (-1075) with (1 + -1076). rewrite bpow_plus. change (bpow radix2 1) with 2%R. field. }
  rewrite Heta2 in Hv.
  assert (Hc : ((1 + u) * (1 + k1) <= 11 / 10)%R) by (rewrite u_val in *; nra).
  assert (Hsw : (0 <= s * w)%R) by (apply Rmult_le_pos; lra).
  assert (Hcv : ((1 + u) * (1 + k1) * (s * w) <= 11 / 10 * (eta / 2))%R).
  { apply Rmult_le_compat; try lra. nra. }
  assert (Hi1 : (/ (1 - u) <= 101 / 100)%R) by (rewrite u_val; lra).
  assert (Hi0 : (0 < / (1 - u))%R) by (apply Rinv_0_lt_compat; lra).
  assert (Hfin : (((1 + u) * (1 + k1) * (s * w) + eta * w) * / (1 - u) <= (11 / 10 * (eta / 2) + eta * / 10) * (101 / 100))%R).
  { apply Rmult_le_compat; try lra. apply Rplus_le_le_0_compat; [apply Rmult_le_pos; [nra|exact Hsw]|nra]. }
  assert (Hy2pos : (0 <= f1 / p2)%R) by (unfold Rdiv; apply Rmult_le_pos; lra).
  rewrite Rabs_pos_eq by exact Hy2pos. fold eta. lra.
Qed.

(* ------------------------------------------------------------------ *)
(** * F. summary in ulps *)

Lemma u_le_ulp (v : R) : v <> 0%R -> (u * Rabs v <= ulp radix2 fexp64 v)%R.
Proof.
  intros Hv. rewrite ulp_neq_0 by exact Hv. unfold cexp.
  apply Rle_trans with (bpow radix2 (mag radix2 v - 53)).
  - unfold Z.sub. rewrite bpow_plus. fold u. rewrite Rmult_comm.
    apply Rmult_le_compat_r; [apply bpow_ge_0|]. left. apply bpow_mag_gt.
  - apply bpow_le. unfold FLT_exp. lia.
Qed.

Lemma rel_to_ulp (c f v : R) : (0 < v)%R -> (0 <= c)%R -> (Rabs (f - v) <= c * u * v)%R ->
  (Rabs (f - RNE64 v) <= (c + / 2) * ulp radix2 fexp64 v)%R.
Proof.
  intros Hv Hc H.
  pose proof (u_le_ulp v ltac:(lra)) as Hu. rewrite Rabs_pos_eq in Hu by lra.
  pose proof (error_le_half_ulp radix2 fexp64 (fun z => negb (Z.even z)) v) as He. fold (RNE64 v) in He.
  replace (f - RNE64 v)%R with ((f - v) + - (RNE64 v - v))%R by ring.
  apply Rle_trans with (1 := Rabs_triang _ _). rewrite Rabs_Ropp.
  assert (c * (u * v) <= c * ulp radix2 fexp64 v)%R by (apply Rmult_le_compat_l; assumption).
  lra.
Qed.

(* The general bound.  Bands covered: every exponent for which a float is returned, provided the exact value
   v = sig * 10^e is at least 2^-1021 (twice the smallest normal number).
   NOT covered: results in or next to the subnormal range (see C08_err_Tneg_abs for band T-, C08_underflow_zero). *)
Theorem C08_ulp_partial : forall sig e f, (0 < sig)%N -> (sig <= u64_max)%N ->
  f64_loop 4 (b64_of_Z (Z.of_N sig)) e = Ok (Some f) ->
  (bpow radix2 (-1021) <= exact_val sig e)%R ->
  let v := exact_val sig e in
  let c := if (-308 <=? e) then (3 + / 1099511627776)%R else (5 + / 1099511627776)%R in
  (Rabs (B2R f - v) <= c * u * v)%R /\
  (Rabs (B2R f - RNE64 v) <= (c + / 2) * ulp radix2 fexp64 v)%R.
Proof.
  intros sig e f Hpos Hsig Hl Hnorm v c.
  pose proof (exact_val_pos sig e Hpos) as Hvpos. fold v in Hvpos, Hnorm.
  assert (Hrel : (Rabs (B2R f - v) <= c * u * v)%R).
  { unfold c, v. destruct (Z.leb_spec (-308) e) as [Hge|Hlt].
    - destruct (Z_lt_le_dec e 0) as [Hneg|Hnn].
      + apply (C08_err_Tneg sig e f Hpos Hsig ltac:(lia) Hl Hnorm).
      + destruct (Z_le_gt_dec e 308) as [Hle|Hgt].
        * apply (C08_err_Tpos sig e f Hpos Hsig ltac:(lia) Hl).
        * rewrite f64_loop_overflow_rejects in Hl by (try assumption; lia). discriminate Hl.
    - destruct (Z_le_gt_dec e (-617)) as [H1|H1].
      + exfalso. unfold v in Hnorm. rewrite exact_val_neg_e in Hnorm by lia.
        assert (Hs64 : (IZR (Z.of_N sig) <= bpow radix2 64)%R).
        { rewrite bpow_IZR by lia. apply IZR_le. change u64_max with (Z.to_N (2 ^ 64 - 1)) in Hsig. lia. }
        assert (Hd : (bpow radix2 1086 <= IZR (10 ^ (- e)))%R).
        { rewrite bpow_IZR by lia. apply IZR_le. apply Z.le_trans with (10 ^ 617); [|apply Z.pow_le_mono_r; lia].
          apply Z.leb_le. vm_compute. reflexivity. }
        pose proof (bpow_gt_0 radix2 1086) as H86. pose proof (bpow_gt_0 radix2 64) as H64.
        assert (Hq : (IZR (Z.of_N sig) / IZR (10 ^ (- e)) <= bpow radix2 64 * / bpow radix2 1086)%R).
        { unfold Rdiv. apply Rmult_le_compat; [apply IZR_le; lia|left; apply Rinv_0_lt_compat; lra|exact Hs64|].
          apply Rinv_le_contravar; lra. }
        rewrite <- bpow_opp, <- bpow_plus in Hq.
        assert (bpow radix2 (64 + - (1086)) < bpow radix2 (-1021))%R by (apply bpow_lt; lia). lra.
      + apply (C08_err_U sig e f Hpos Hsig ltac:(lia) Hl Hnorm). }
  split; [exact Hrel|].
  apply rel_to_ulp; [exact Hvpos| |exact Hrel].
  unfold c. destruct (-308 <=? e); lra.
Qed.

Print Assumptions f64_loop_underflow_zero_617.
Print Assumptions C08_err_Tpos.
Print Assumptions C08_err_Tneg.
Print Assumptions C08_err_Tneg_abs.
Print Assumptions C08_err_U.
Print Assumptions C08_reject_only_near_overflow.
Print Assumptions C08_reject_if_beyond.
Print Assumptions accepted_beyond_threshold.
Print Assumptions C08_underflow_zero.
Print Assumptions C08_ulp_partial.
