(* Proofs/LexFull32.v — the binary32 (single_precision) instances: the lexical algorithm of Model/Lex.v returns the bits of
   the correctly rounded binary32 value `rne_decimal32` (LexOracle32: round-to-nearest-even of m * 10^e).

     lex_fast_correct32        fast_path F32 (one exact IEEE operation on exactly representable operands)
     bhcomp_correct32          the slow path (instance of LexBh.bhcomp_correct_gen)
     lex_concise_correct32     parse_concise_float F32 mantissa mant_exp = bits_of_b32 (rne_decimal32 mantissa mant_exp), any exponent
     lex_truncated_correct32   parse_truncated_float F32
   and the kind-generic tail  slow_tail_gen  (moderate path then bhcomp) from which both instances follow. *)
From Coq Require Import ZArith NArith Reals Lia Lra List Bool Psatz.
From Flocq Require Import Core BinarySingleNaN.
From SJ Require Import Base.Bytes Base.FloatB Gen.LexTables Model.Read Model.Num Model.Lex.
From SJ Require Import Proofs.GrammarNum Proofs.LexGlue.
From SJ Require Import Proofs.FloatDefault Proofs.FloatOracle Proofs.LexOracle Proofs.LexFast Proofs.LexRnd Proofs.LexBits Proofs.LexAtof
                       Proofs.LexBh Proofs.LexMod Proofs.LexFull Proofs.LexOracle32.
Import ListNotations.
Open Scope Z_scope.

Ltac Zify.zify_post_hook ::= idtac.

(* ------------------------------------------------------------------ *)
(** * the tail of both parsers, generic in the float kind *)
Section Tail.
Variable k : fkind.
Variable orc : Z -> Z -> N.
Hypothesis orc_bracket : forall D e M E : Z, 0 < D -> 0 <= M < 2 ^ prec k -> DENORMAL_EXPONENT k <= E ->
  (E = DENORMAL_EXPONENT k \/ 2 ^ MANTISSA_SIZE k <= M) -> in_ulp (IZR D * powerRZ 10 e) M E ->
  orc D e = rne_bits k (IZR D * powerRZ 10 e) M E.
Hypothesis orc_overflow : forall D e : Z, 0 < D ->
  (bpow radix2 (MAX_EXPONENT k + MANTISSA_SIZE k) <= IZR D * powerRZ 10 e)%R -> orc D e = INFINITY_BITS k.
Hypothesis big_overflows : 2 ^ (MAX_EXPONENT k + MANTISSA_SIZE k) <= 10 ^ (Z.of_nat (MAX_DIGITS k) - 1).
Hypothesis tiny_ok : 2 ^ 64 * 2 ^ (1 - DENORMAL_EXPONENT k) <= 10 ^ 351.
Hypothesis huge_ok : 2 ^ (MAX_EXPONENT k + MANTISSA_SIZE k) <= 10 ^ 310.

Theorem slow_tail_gen : forall (integer fraction : bytes) (exponent : Z) (w : N) (mexp : Z) (truncated : bool) (theta : R),
  forallb is_digit integer = true -> forallb is_digit fraction = true -> (integer = [] \/ hd 0%N integer <> 48%N) ->
  Z.of_nat (length integer) + Z.of_nat (length fraction) <= 1000000000 ->
  let D := digits_val (integer ++ fraction) 0 in
  let e := exponent - Z.of_nat (length fraction) in
  0 < D -> (-350 <= mexp < 310 -> -1000000000 <= exponent <= 1000000000) ->
  (0 < w)%N -> (w < two64N)%N -> (0 <= theta < 1)%R -> (theta = 0%R \/ (truncated = true /\ 2 ^ 60 <= Z.of_N w)) ->
  (IZR D * powerRZ 10 e = (IZR (Z.of_N w) + theta) * powerRZ 10 mexp)%R ->
  fallback_path k integer fraction w exponent mexp truncated = orc D e.
Proof.
  intros integer fraction exponent w mexp truncated theta Hi Hf Hlead Hlen D e HD Hexp Hw0 Hw64 Hth Htr Hx.
  unfold fallback_path, fallback_trace.
  destruct (moderate_path k w mexp truncated) as (fp, valid) eqn:Hmp.
  destruct (moderate_sound_gen k orc orc_bracket orc_overflow D e HD tiny_ok huge_ok
              w mexp truncated theta fp valid Hw0 Hw64 Hth Htr Hx Hmp) as (Hv & Hnv).
  unfold slow_tail. destruct valid.
  - cbn [trace_bits]. apply Hv. reflexivity.
  - destruct (Hnv eq_refl) as (Hrange & Hb). cbv zeta in Hb.
    destruct (f_is_special k (ef_into_downward_float k fp)).
    + cbn [trace_bits]. exact Hb.
    + cbn [trace_bits]. destruct Hb as (Hb1 & Hb2).
      apply (bhcomp_correct_gen k orc orc_bracket orc_overflow big_overflows _ integer fraction exponent Hi Hf Hlead (Hexp Hrange) Hlen HD Hb1 Hb2).
Qed.

Theorem truncated_gen : forall (integer fraction : bytes) (exponent : Z),
  forallb is_digit integer = true -> forallb is_digit fraction = true -> (integer = [] \/ hd 0%N integer <> 48%N) ->
  -1000000000 <= exponent <= 1000000000 -> Z.of_nat (length integer) + Z.of_nat (length fraction) <= 1000000000 ->
  let fr := strip_trailing_zeros fraction in
  0 < digits_val (integer ++ fr) 0 ->
  parse_truncated_float k integer fraction exponent = orc (digits_val (integer ++ fr) 0) (exponent - Z.of_nat (length fr)).
Proof.
  intros integer fraction exponent Hi Hf Hlead Hexp Hlen fr HD.
  unfold parse_truncated_float, truncated_trace. cbv zeta.
  destruct (strip_alldig fraction Hf) as (Hfr & Hfrl). fold fr in Hfr, Hfrl. fold fr.
  pose proof (trunc_loop_spec (integer ++ fr) 0%N ltac:(rewrite forallb_app, Hi, Hfr; reflexivity) ltac:(reflexivity)) as Htl.
  cbv zeta in Htl. destruct (trunc_loop (integer ++ fr) 0) as (w, t) eqn:Hloop. cbn [fst snd] in Htl.
  destruct Htl as (Ht & Hw & rest & Hval & Hrest & Hbig). change (Z.of_N 0) with 0 in Hval.
  cbn [snd]. fold (fallback_path k integer fr w exponent (mantissa_exponent exponent (length fr) t) true).
  rewrite app_length in Ht.
  assert (Hme : mantissa_exponent exponent (length fr) t = exponent - Z.of_nat (length fr) + Z.of_nat t).
  { unfold mantissa_exponent. destruct (Nat.ltb_spec t (length fr)) as [Hlt|Hge].
    - rewrite into_i32_id by lia. rewrite i32_sat_id by lia. lia.
    - rewrite into_i32_id by lia. rewrite i32_sat_id by lia. lia. }
  rewrite Hme.
  set (D := digits_val (integer ++ fr) 0) in *. set (e := exponent - Z.of_nat (length fr)).
  assert (P10 : 0 < 10 ^ Z.of_nat t) by (apply pow10_pos; lia).
  assert (Hwpos : (0 < w)%N).
  { destruct (N.eq_dec w 0) as [->|Hne]; [exfalso|lia].
    destruct t as [|t']; [cbn in Hrest; lia|]. specialize (Hbig ltac:(discriminate)). cbn in Hbig. lia. }
  apply (slow_tail_gen integer fr exponent w (e + Z.of_nat t) true (IZR rest / IZR (10 ^ Z.of_nat t))%R);
    try assumption; try lia.
  - assert (H10 : (0 < IZR (10 ^ Z.of_nat t))%R) by (apply IZR_lt; exact P10).
    split.
    + apply Rmult_le_pos; [apply IZR_le; lia|apply Rlt_le, Rinv_0_lt_compat; exact H10].
    + apply Rmult_lt_reg_r with (IZR (10 ^ Z.of_nat t)); [exact H10|].
      unfold Rdiv. rewrite Rmult_assoc, Rinv_l, Rmult_1_r, Rmult_1_l by lra. apply IZR_lt. lia.
  - destruct t as [|t'].
    + left. cbn in Hrest. assert (rest = 0) by lia. subst rest. unfold Rdiv. apply Rmult_0_l.
    + right. split; [reflexivity|]. apply Hbig. discriminate.
  - fold D e. rewrite Hval. rewrite powerRZ_add by lra. rewrite (powerRZ_10_nonneg (Z.of_nat t)) by lia.
    assert (H10 : (0 < IZR (10 ^ Z.of_nat t))%R) by (apply IZR_lt; exact P10).
    rewrite plus_IZR, mult_IZR. field. lra.
Qed.

End Tail.

(* ------------------------------------------------------------------ *)
(** * the binary32 oracle fits the interface *)
Definition orc32 (D e : Z) : N := bits_of_b32 (rne_decimal32 D e).

Lemma orc32_overflow : forall D e : Z, 0 < D ->
  (bpow radix2 (MAX_EXPONENT F32 + MANTISSA_SIZE F32) <= IZR D * powerRZ 10 e)%R -> orc32 D e = INFINITY_BITS F32.
Proof. intros D e HD Hx. unfold orc32. rewrite (oracle32_overflow D e HD Hx). reflexivity. Qed.

Lemma big32 : 2 ^ (MAX_EXPONENT F32 + MANTISSA_SIZE F32) <= 10 ^ (Z.of_nat (MAX_DIGITS F32) - 1).
Proof. vm_compute. discriminate. Qed.
Lemma tiny32 : 2 ^ 64 * 2 ^ (1 - DENORMAL_EXPONENT F32) <= 10 ^ 351.
Proof. vm_compute. discriminate. Qed.
Lemma huge32 : 2 ^ (MAX_EXPONENT F32 + MANTISSA_SIZE F32) <= 10 ^ 310.
Proof. vm_compute. discriminate. Qed.

Theorem bhcomp_correct32 : forall (b : N) (integer fraction : bytes) (exponent : Z),
  forallb is_digit integer = true -> forallb is_digit fraction = true -> (integer = [] \/ hd 0%N integer <> 48%N) ->
  -1000000000 <= exponent <= 1000000000 -> Z.of_nat (length integer) + Z.of_nat (length fraction) <= 1000000000 ->
  let D := digits_val (integer ++ fraction) 0 in
  let e := exponent - Z.of_nat (length fraction) in
  0 < D -> (b < INFINITY_BITS F32)%N ->
  in_ulp (IZR D * powerRZ 10 e) (Z.of_N (f_mantissa F32 b)) (f_exponent F32 b) ->
  bhcomp F32 b integer fraction exponent = bits_of_b32 (rne_decimal32 D e).
Proof. exact (bhcomp_correct_gen F32 orc32 oracle32_any orc32_overflow big32). Qed.

Theorem lex_truncated_correct32 : forall (integer fraction : bytes) (exponent : Z),
  forallb is_digit integer = true -> forallb is_digit fraction = true -> (integer = [] \/ hd 0%N integer <> 48%N) ->
  -1000000000 <= exponent <= 1000000000 -> Z.of_nat (length integer) + Z.of_nat (length fraction) <= 1000000000 ->
  let fr := strip_trailing_zeros fraction in
  0 < digits_val (integer ++ fr) 0 ->
  parse_truncated_float F32 integer fraction exponent =
  bits_of_b32 (rne_decimal32 (digits_val (integer ++ fr) 0) (exponent - Z.of_nat (length fr))).
Proof. exact (truncated_gen F32 orc32 oracle32_any orc32_overflow big32 tiny32 huge32). Qed.

(* ------------------------------------------------------------------ *)
(** * the binary32 fast path *)
Lemma format32_mk (c j : Z) : Z.abs c < 2 ^ 24 -> -149 <= j -> generic_format radix2 fexp32 (IZR c * bpow radix2 j).
Proof.
  intros Hc Hj. apply generic_format_FLT. exists (Float radix2 c j); cbn [Fnum Fexp].
  - unfold F2R. cbn [Fnum Fexp]. reflexivity.
  - exact Hc.
  - lia.
Qed.

Lemma RNE32_generic x : generic_format radix2 fexp32 x -> RNE32 x = x.
Proof. intros H. unfold RNE32. apply round_generic; [apply valid_rnd_N|exact H]. Qed.

Lemma RNE32_le_generic x y : generic_format radix2 fexp32 y -> (x <= y)%R -> (RNE32 x <= y)%R.
Proof. intros Hx H. unfold RNE32. apply round_le_generic; [apply valid_fexp32|apply valid_rnd_N|exact Hx|exact H]. Qed.

(* b32_of_Z on an exactly representable non-negative integer c * 2^j < 2^100 *)
Lemma b32_of_Z_exact (c j : Z) : 0 <= c < 2 ^ 24 -> 0 <= j <= 70 ->
  let f := b32_of_Z (c * 2 ^ j) in
  B2R f = IZR (c * 2 ^ j) /\ is_finite f = true /\ Bsign f = false.
Proof.
  intros Hc Hj f.
  assert (Hfmt : generic_format radix2 fexp32 (IZR (c * 2 ^ j))).
  { rewrite mult_IZR, <- bpow_IZR by lia. apply format32_mk; lia. }
  assert (Hpos : (0 <= IZR (c * 2 ^ j))%R) by (apply IZR_le; assert (0 < 2 ^ j) by (apply pow2_pos; lia); nia).
  destruct (bn32_correct (c * 2 ^ j) 0 false) as (H1 & H2 & H3).
  - rewrite F2R_e0, RNE32_generic by exact Hfmt. rewrite Rabs_pos_eq by exact Hpos.
    rewrite bpow_IZR by lia. apply IZR_lt.
    assert (2 ^ j <= 2 ^ 70) by (apply Z.pow_le_mono_r; lia).
    apply Z.lt_le_trans with (2 ^ 24 * 2 ^ 70); [|vm_compute; discriminate].
    assert (0 < 2 ^ j) by (apply pow2_pos; lia). nia.
  - rewrite F2R_e0, RNE32_generic in H1 by exact Hfmt. rewrite F2R_e0 in H3.
    split; [exact H1|]. split; [exact H2|]. unfold f, b32_of_Z. rewrite H3.
    destruct (Rcompare_spec (IZR (c * 2 ^ j)) 0); [lra|reflexivity|reflexivity].
Qed.

Lemma pow10_split (i : Z) : 0 <= i -> 10 ^ i = 5 ^ i * 2 ^ i.
Proof. intros Hi. rewrite <- Z.pow_mul_l. reflexivity. Qed.

Lemma pow5_small (i : Z) : 0 <= i <= 10 -> 0 < 5 ^ i < 2 ^ 24.
Proof.
  intros Hi. split; [apply Z.pow_pos_nonneg; lia|].
  apply Z.le_lt_trans with (5 ^ 10); [apply Z.pow_le_mono_r; lia|reflexivity].
Qed.

Lemma b32_pow10 (i : Z) : 0 <= i <= 10 ->
  let p := b32_of_Z (10 ^ i) in B2R p = IZR (10 ^ i) /\ is_finite p = true /\ Bsign p = false.
Proof.
  intros Hi. rewrite pow10_split by lia. apply b32_of_Z_exact; [pose proof (pow5_small i Hi); lia|lia].
Qed.

Lemma b32_int (a : Z) : 0 <= a < 2 ^ 24 ->
  let f := b32_of_Z a in B2R f = IZR a /\ is_finite f = true /\ Bsign f = false.
Proof. intros Ha. replace a with (a * 2 ^ 0) by (change (2 ^ 0) with 1; lia). apply b32_of_Z_exact; lia. Qed.

Lemma small_bound32 (r : R) : (0 <= r <= bpow radix2 100)%R -> (Rabs (RNE32 r) < bpow radix2 128)%R.
Proof.
  intros Hr. assert (H0 : (0 <= RNE32 r)%R) by (apply RNE32_ge_generic; [apply generic_format_0|lra]).
  rewrite Rabs_pos_eq by exact H0. apply Rle_lt_trans with (bpow radix2 100); [|apply bpow_lt; lia].
  apply RNE32_le_generic; [apply format_bpow32; lia|lra].
Qed.

Lemma mul32_oracle (a i D e : Z) : 0 < a < 2 ^ 24 -> 0 <= i <= 10 -> 0 < D ->
  (IZR a * IZR (10 ^ i) = IZR D * powerRZ 10 e)%R ->
  Bmult mode_NE (b32_of_Z a) (b32_of_Z (10 ^ i)) = rne_decimal32 D e.
Proof.
  intros Ha Hi HD Hv.
  destruct (b32_int a ltac:(lia)) as (A1 & A2 & A3). destruct (b32_pow10 i Hi) as (P1 & P2 & P3). cbv zeta in *.
  assert (Hr : (0 <= IZR a * IZR (10 ^ i) <= bpow radix2 100)%R).
  { split; [apply Rmult_le_pos; apply IZR_le; [lia|pose proof (pow10_pos i ltac:(lia)); lia]|].
    rewrite <- mult_IZR, bpow_IZR by lia. apply IZR_le.
    assert (10 ^ i <= 10 ^ 10) by (apply Z.pow_le_mono_r; lia).
    apply Z.le_trans with (2 ^ 24 * 10 ^ 10); [|vm_compute; discriminate].
    assert (0 < 10 ^ i) by (apply pow10_pos; lia). nia. }
  pose proof (Bmult_correct 24 128 prec24_gt_0 prec24_lt_emax mode_NE (b32_of_Z a) (b32_of_Z (10 ^ i))) as H.
  cbn [round_mode] in H. rewrite fexp32_conv in H. rewrite A1, P1 in H.
  fold (RNE32 (IZR a * IZR (10 ^ i))) in H.
  rewrite Rlt_bool_true in H by (apply small_bound32; exact Hr).
  destruct H as (M1 & M2 & M3). rewrite A2, P2 in M2. cbn [andb] in M2. rewrite A3, P3 in M3. cbn [xorb] in M3.
  destruct (rne_decimal32_correct D e HD) as (O1 & O2 & O3).
  { rewrite <- Hv. apply small_bound32. exact Hr. }
  apply B2R_Bsign_inj; [exact M2|exact O1|rewrite M1, O2, Hv; reflexivity|].
  rewrite O3. apply M3. destruct (Bmult mode_NE (b32_of_Z a) (b32_of_Z (10 ^ i))); try reflexivity; discriminate M2.
Qed.

Lemma div32_oracle (a i D e : Z) : 0 < a < 2 ^ 24 -> 0 <= i <= 10 -> 0 < D ->
  (IZR a / IZR (10 ^ i) = IZR D * powerRZ 10 e)%R ->
  Bdiv mode_NE (b32_of_Z a) (b32_of_Z (10 ^ i)) = rne_decimal32 D e.
Proof.
  intros Ha Hi HD Hv.
  destruct (b32_int a ltac:(lia)) as (A1 & A2 & A3). destruct (b32_pow10 i Hi) as (P1 & P2 & P3). cbv zeta in *.
  assert (H10 : (1 <= IZR (10 ^ i))%R) by (apply IZR_le; pose proof (pow10_pos i ltac:(lia)); lia).
  assert (Hr : (0 <= IZR a / IZR (10 ^ i) <= bpow radix2 100)%R).
  { assert (Ha' : (0 < IZR a <= IZR (2 ^ 24))%R) by (split; [apply IZR_lt|apply IZR_le]; lia).
    assert (Hinv : (0 < / IZR (10 ^ i) <= 1)%R).
    { split; [apply Rinv_0_lt_compat; lra|]. rewrite <- Rinv_1. apply Rinv_le_contravar; lra. }
    assert (H100 : (IZR (2 ^ 24) <= bpow radix2 100)%R) by (rewrite bpow_IZR by lia; apply IZR_le; vm_compute; discriminate).
    unfold Rdiv. split; nra. }
  pose proof (Bdiv_correct 24 128 prec24_gt_0 prec24_lt_emax mode_NE (b32_of_Z a) (b32_of_Z (10 ^ i))) as H.
  rewrite P1 in H. specialize (H ltac:(lra)).
  cbn [round_mode] in H. rewrite fexp32_conv in H. rewrite A1 in H.
  fold (RNE32 (IZR a / IZR (10 ^ i))) in H.
  rewrite Rlt_bool_true in H by (apply small_bound32; exact Hr).
  destruct H as (M1 & M2 & M3). rewrite A2 in M2. rewrite A3, P3 in M3. cbn [xorb] in M3.
  destruct (rne_decimal32_correct D e HD) as (O1 & O2 & O3).
  { rewrite <- Hv. apply small_bound32. exact Hr. }
  apply B2R_Bsign_inj; [exact M2|exact O1|rewrite M1, O2, Hv; reflexivity|].
  rewrite O3. apply M3. destruct (Bdiv mode_NE (b32_of_Z a) (b32_of_Z (10 ^ i))); try reflexivity; discriminate M2.
Qed.

Lemma F32_POW10_nth (n : nat) : (n <= 10)%nat -> nth n F32_POW10 0 = 10 ^ Z.of_nat n.
Proof. intros Hn. do 11 (destruct n as [|n]; [vm_compute; reflexivity|]). lia. Qed.

Lemma cast32_oracle (m : Z) : 0 < m -> b32_of_Z m = rne_decimal32 m 0.
Proof.
  intros Hm. unfold rne_decimal32.
  replace (m <=? 0) with false by (symmetry; apply Z.leb_gt; lia).
  change (400 <? 0) with false. cbn match.
  replace (0 <? - (400 + Z.log2 m)) with false
    by (symmetry; apply Z.ltb_ge; pose proof (Z.log2_nonneg m); lia).
  change (0 <=? 0) with true. cbn match. change (10 ^ 0) with 1. rewrite Z.mul_1_r. reflexivity.
Qed.

Theorem lex_fast_correct32 : forall (m : N) (e : Z) (bits : N),
  fast_path F32 m e = Some bits -> bits = bits_of_b32 (rne_decimal32 (Z.of_N m) e).
Proof.
  intros m e bits H. unfold fast_path in H.
  change (EXP_LIMIT_MIN F32) with (-10) in H. change (EXP_LIMIT_MAX F32) with 10 in H.
  change (MANTISSA_LIMIT F32) with 7 in H. change (Z.to_N (MANTISSA_SIZE F32 + 1)) with 24%N in H.
  change (10 + 7) with 17 in H.
  destruct (N.eqb_spec m 0) as [Hm0|Hm0].
  { injection H as <-. subst m. reflexivity. }
  assert (Hmpos : (0 < m)%N) by lia.
  destruct (N.eqb_spec (N.shiftr m 24) 0) as [Hsh|Hsh]; cbn [negb] in H; [|discriminate H].
  apply shiftr_zero_lt in Hsh.
  assert (Hlt : 0 < Z.of_N m < 2 ^ 24) by (change (2 ^ 24) with (Z.of_N (2 ^ 24)); lia).
  destruct (Z.eqb_spec e 0) as [He0|He0].
  { apply Some_inj in H. subst bits. subst e. unfold f_cast. f_equal. apply cast32_oracle. lia. }
  assert (Hcp : forall (x : N) (n : Z), f_cast_pow10 F32 x n =
            bits_of_b32 (if 0 <? n then Bmult mode_NE (b32_of_Z (Z.of_N x)) (b32_of_Z (nth (Z.to_nat (Z.abs n)) F32_POW10 0))
                         else Bdiv mode_NE (b32_of_Z (Z.of_N x)) (b32_of_Z (nth (Z.to_nat (Z.abs n)) F32_POW10 0)))) by reflexivity.
  destruct ((-10 <=? e) && (e <=? 10)) eqn:Hr.
  { apply andb_prop in Hr. destruct Hr as (Hr1 & Hr2). apply Z.leb_le in Hr1, Hr2.
    apply Some_inj in H. subst bits. rewrite Hcp. f_equal.
    rewrite F32_POW10_nth by lia. rewrite Z2Nat.id by lia.
    destruct (Z.ltb_spec 0 e) as [Hpos|Hneg].
    - rewrite Z.abs_eq by lia. apply mul32_oracle; [exact Hlt|lia|lia|].
      rewrite powerRZ_10_nonneg by lia. reflexivity.
    - rewrite Z.abs_neq by lia. apply div32_oracle; [exact Hlt|lia|lia|].
      replace e with (- (- e)) at 2 by lia. rewrite powerRZ_10_neg by lia. reflexivity. }
  destruct ((0 <=? e) && (e <=? 17)) eqn:Hd; [|discriminate H].
  apply andb_prop in Hd. destruct Hd as (Hd1 & Hd2). apply Z.leb_le in Hd1, Hd2.
  assert (He : 10 < e <= 17).
  { apply andb_false_iff in Hr. destruct Hr as [Hr|Hr]; [apply Z.leb_gt in Hr; lia|apply Z.leb_gt in Hr; lia]. }
  rewrite POW10_64_nth in H by lia. rewrite Z2Nat.id in H by lia.
  set (sh := e - 10) in *.
  assert (Hpw : 0 < 10 ^ sh) by (apply Z.pow_pos_nonneg; lia).
  destruct (N.leb_spec two64N (m * Z.to_N (10 ^ sh))) as [Hov|Hov]; [discriminate H|].
  destruct (N.eqb_spec (N.shiftr (m * Z.to_N (10 ^ sh)) 24) 0) as [Hsh2|Hsh2]; cbn [negb] in H; [|discriminate H].
  apply shiftr_zero_lt in Hsh2.
  apply Some_inj in H. subst bits. rewrite Hcp. f_equal.
  replace (0 <? 10) with true by reflexivity. change (Z.abs 10) with 10. rewrite F32_POW10_nth by lia.
  change (Z.of_nat (Z.to_nat 10)) with 10.
  set (v := (m * Z.to_N (10 ^ sh))%N) in *.
  assert (Hv : Z.of_N v = Z.of_N m * 10 ^ sh) by (unfold v; rewrite N2Z.inj_mul, Z2N.id by lia; reflexivity).
  apply mul32_oracle.
  - split; [unfold v; nia|change (2 ^ 24) with (Z.of_N (2 ^ 24)); lia].
  - lia.
  - lia.
  - rewrite Hv, mult_IZR. replace e with (sh + 10) by (unfold sh; lia).
    rewrite powerRZ_add by lra. rewrite !powerRZ_10_nonneg by lia. ring.
Qed.

(* ------------------------------------------------------------------ *)
(** * parse_concise_float, binary32 *)
Theorem lex_concise_correct32 : forall (mantissa : N) (mant_exp : Z), (mantissa < two64N)%N ->
  parse_concise_float F32 mantissa mant_exp = bits_of_b32 (rne_decimal32 (Z.of_N mantissa) mant_exp).
Proof.
  intros mantissa mant_exp Hm. unfold parse_concise_float, concise_trace.
  destruct (fast_path F32 mantissa mant_exp) as [f|] eqn:Hfast.
  - cbn [trace_bits]. apply lex_fast_correct32. exact Hfast.
  - assert (Hpos : (0 < mantissa)%N).
    { destruct (N.eq_dec mantissa 0) as [->|Hne]; [discriminate Hfast|lia]. }
    destruct (itoa_facts mantissa Hpos Hm) as (Hd & Hv & Hhd & Hlen).
    pose proof (slow_tail_gen F32 orc32 oracle32_any orc32_overflow big32 tiny32 huge32
                  (itoa mantissa) [] mant_exp mantissa mant_exp false 0%R Hd eq_refl (or_intror Hhd)) as H.
    cbn [length] in H. rewrite app_nil_r, Hv in H. change (Z.of_nat 0) with 0 in H. rewrite Z.sub_0_r in H.
    unfold fallback_path, fallback_trace in H. unfold orc32 in H.
    apply H; try lia; try assumption.
    + lra.
    + left. reflexivity.
    + rewrite Rplus_0_r. reflexivity.
Qed.

(* regression: the binary32 analogue of finding F21 *)
Example lex_regression_F21_f32 :
  let intg := itoa 16777217 ++ repeat 48%N 106 in
  parse_truncated_float F32 intg [] (-106) = bits_of_b32 (rne_decimal32 16777217 0).
Proof. vm_compute. reflexivity. Qed.

Print Assumptions lex_concise_correct32.
Print Assumptions lex_truncated_correct32.
