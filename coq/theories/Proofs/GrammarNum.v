(* Proofs/GrammarNum.v — the number parser against the RFC 8259 number grammar.

   For every reader kind and every cfg, provided reads past the end report end-of-input (tm E = TEof):

   number_local        LOCALITY + COMPLETENESS: on [render_abs n ++ rst] (n well formed, rst not continuing a number
                       token) parse_any_number behaves as on [render_abs n] alone, consumes exactly the literal, and
                       the only possible failure is NumberOutOfRange.
   number_local_weak   the same under the weakest follow condition [num_follow_weak n rst].
   number_ap_verbatim  under arbitrary_precision the literal is kept verbatim (itoa re-prints canonical integers,
                       "-0" stays a string).
   number_sound        SOUNDNESS: a successful run consumed a well-formed literal n followed by [num_follow_weak n],
                       and returned what the run on n in isolation returns.

   Structure.  (1) f64_loop never runs out of fuel (the only place where floats are looked into: two divisions by
   1e308 turn any u64 into 0).  (2) Pure lemmas on digit strings and the two digit loops.  (3) Symbolic execution of
   each model function on an input of known shape [segment ++ r]: the result is a *continuation* (k1 after the
   integer digits, k2 after the fraction digits) applied to the state at r — the continuation depends on the segment
   only, never on r/offset/peek flag/depth; that independence is what makes the run local.  (4) The same for the
   scan_* family.  (5) [num_shape_total]: every input either starts with a well-formed literal followed by its weak
   follow condition, or has one of five hopeless shapes [bad_num] on which every function fails.  (6) [recognizer]
   packages (3)-(5) for parse_any_number; the main theorems are corollaries. *)
From Coq Require Import Reals Lra Lia ZifyBool ZifyNat ZifyN.
From SJ Require Import Base.Bytes Base.FloatB Gen.Tables Model.Read Model.Num Spec.Syntax Spec.Denote.
From Flocq Require Import Core BinarySingleNaN.
Open Scope N_scope.

(* ---------- f64_loop never runs out of fuel ------------------------------------------- *)
Section FloatFuel.
Open Scope R_scope.
Local Notation fexp64 := (SpecFloat.fexp 53 1024).
Local Notation rnd64 := (round radix2 fexp64 (round_mode mode_NE)).

Definition p308 : b64 := rne_decimal 1 308.

Lemma p308_big : is_finite p308 = true /\ bpow radix2 1023 <= B2R p308.
Proof.
  assert (H : (match p308 with B754_finite s m e _ => negb s && (e =? 971)%Z && (2 ^ 52 <=? Zpos m)%Z | _ => false end) = true)
    by (vm_compute; reflexivity).
  destruct p308 as [s|s| |s m e pf]; try discriminate H.
  apply andb_prop in H. destruct H as (H & Hm). apply andb_prop in H. destruct H as (Hs & He).
  apply Z.eqb_eq in He. apply Z.leb_le in Hm. destruct s; [discriminate Hs|]. subst e.
  split; [reflexivity|].
  unfold B2R. cbn [SpecFloat.cond_Zopp]. unfold F2R. cbn [Fnum Fexp].
  replace 1023%Z with (52 + 971)%Z by reflexivity. rewrite bpow_plus.
  apply Rmult_le_compat_r; [apply bpow_ge_0|].
  rewrite <- IZR_Zpower by lia. apply IZR_le. exact Hm.
Qed.

(* finite, nonnegative, at most 2^k *)
Definition nn (k : Z) (f : b64) : Prop := is_finite f = true /\ 0 <= B2R f <= bpow radix2 k.

Lemma quot_bounds : forall k f, nn k f -> 0 <= B2R f / B2R p308 <= bpow radix2 (k - 1023).
Proof.
  intros k f (_ & Hf0 & Hfk). destruct p308_big as (_ & Hp).
  assert (Hb : 0 < bpow radix2 1023) by apply bpow_gt_0.
  assert (Hy : 0 < B2R p308) by lra.
  split.
  - apply Rmult_le_pos; [exact Hf0|]. apply Rlt_le, Rinv_0_lt_compat, Hy.
  - unfold Zminus. rewrite bpow_plus, bpow_opp.
    apply Rmult_le_compat; try lra.
    + apply Rlt_le, Rinv_0_lt_compat, Hy.
    + apply Rinv_le; assumption.
Qed.

Lemma rnd_bounds : forall x k, (-1074 <= k)%Z -> 0 <= x <= bpow radix2 k -> 0 <= rnd64 x <= bpow radix2 k.
Proof.
  intros x k Hk (Hx0 & Hxk). split.
  - apply round_ge_generic; [typeclasses eauto|typeclasses eauto|apply generic_format_0|exact Hx0].
  - apply round_le_generic; [typeclasses eauto|typeclasses eauto| |exact Hxk].
    apply generic_format_bpow. unfold SpecFloat.fexp, SpecFloat.emin. lia.
Qed.

Lemma rnd_tiny : forall x, 0 <= x <= bpow radix2 (-1076) -> rnd64 x = 0.
Proof.
  intros x (Hx0 & Hx).
  assert (H0 : 0 <= rnd64 x).
  { apply round_ge_generic; [typeclasses eauto|typeclasses eauto|apply generic_format_0|exact Hx0]. }
  assert (H1 : rnd64 x <= rnd64 (bpow radix2 (-1076))).
  { apply round_le; [typeclasses eauto|typeclasses eauto|exact Hx]. }
  assert (H2 : rnd64 (bpow radix2 (-1076)) = 0).
  { cbn [round_mode]. apply round_N_small_pos with (ex := (-1075)%Z).
    - split; [apply Rle_refl|]. apply bpow_lt. lia.
    - unfold SpecFloat.fexp, SpecFloat.emin. lia. }
  lra.
Qed.

Lemma p308_nz : B2R p308 <> 0.
Proof. destruct p308_big as (_ & Hp). pose proof (bpow_gt_0 radix2 1023). lra. Qed.

Lemma div_step : forall k f, nn k f -> (-1074 <= k - 1023)%Z -> (k - 1023 < 1024)%Z -> nn (k - 1023) (b64_div f p308).
Proof.
  intros k f Hf Hk Hk2. pose proof (quot_bounds k f Hf) as Hq.
  pose proof (rnd_bounds _ _ Hk Hq) as Hr.
  pose proof (Bdiv_correct 53 1024 _ _ mode_NE f p308 p308_nz) as Hc.
  rewrite Rlt_bool_true in Hc.
  - destruct Hc as (HR & Hfin & _). unfold nn, b64_div. rewrite HR, Hfin. split; [apply Hf|exact Hr].
  - rewrite Rabs_pos_eq by apply Hr. eapply Rle_lt_trans; [apply Hr|]. apply bpow_lt. exact Hk2.
Qed.

Lemma finite_zero : forall g : b64, is_finite g = true -> B2R g = 0 -> b64_is_zero g = true.
Proof.
  intros g Hfin HR. destruct g as [s| s| |s m e pf]; try reflexivity; try discriminate.
  exfalso. unfold B2R in HR. apply eq_0_F2R in HR. destruct s; discriminate.
Qed.

Lemma div_zero : forall k f, nn k f -> (k - 1023 <= -1076)%Z -> b64_is_zero (b64_div f p308) = true.
Proof.
  intros k f Hf Hk. pose proof (quot_bounds k f Hf) as Hq.
  assert (Hr : rnd64 (B2R f / B2R p308) = 0).
  { apply rnd_tiny. split; [apply Hq|]. eapply Rle_trans; [apply Hq|]. apply bpow_le. exact Hk. }
  pose proof (Bdiv_correct 53 1024 _ _ mode_NE f p308 p308_nz) as Hc.
  rewrite Hr, Rabs_R0, Rlt_bool_true in Hc by apply bpow_gt_0.
  destruct Hc as (HR & Hfin & _). apply finite_zero.
  - unfold b64_div. rewrite Hfin. apply Hf.
  - exact HR.
Qed.

Lemma of_Z_nn : forall z, (0 <= z < 2 ^ 64)%Z -> nn 64 (b64_of_Z z).
Proof.
  intros z Hz.
  pose proof (binary_normalize_correct 53 1024 _ _ mode_NE z 0 false) as Hc. cbv zeta in Hc.
  assert (Hx : 0 <= F2R (Float radix2 z 0) <= bpow radix2 64).
  { unfold F2R. cbn [Fnum Fexp]. change (bpow radix2 0) with 1. rewrite Rmult_1_r. split.
    - apply IZR_le. lia.
    - rewrite <- IZR_Zpower by lia. apply IZR_le. change (radix2 ^ 64)%Z with (2 ^ 64)%Z. lia. }
  assert (Hk : (-1074 <= 64)%Z) by lia.
  pose proof (rnd_bounds _ _ Hk Hx) as Hr.
  rewrite Rlt_bool_true in Hc.
  - destruct Hc as (HR & Hfin & _). unfold nn, b64_of_Z. rewrite HR, Hfin. split; [reflexivity|exact Hr].
  - rewrite Rabs_pos_eq by apply Hr. eapply Rle_lt_trans; [apply Hr|]. apply bpow_lt. lia.
Qed.
End FloatFuel.

Lemma f64_loop_shape : forall fuel f e, match f64_loop fuel f e with Ok _ | OutOfFuel => True | _ => False end.
Proof.
  induction fuel as [|fu IH]; intros f e; cbn [f64_loop]; [exact I|].
  destruct (pow10_tab (Z.abs e)).
  - destruct (0 <=? e)%Z; [destruct (b64_is_inf _)|]; exact I.
  - destruct (b64_is_zero f); [exact I|]. destruct (0 <=? e)%Z; [exact I|]. apply IH.
Qed.

Lemma f64_loop_total : forall sig e, sig < two64 -> exists o, f64_loop 4 (b64_of_Z (Z.of_N sig)) e = Ok o.
Proof.
  intros sig e Hsig.
  assert (H0 : nn 64 (b64_of_Z (Z.of_N sig))).
  { apply of_Z_nn. unfold two64 in Hsig. lia. }
  set (f := b64_of_Z (Z.of_N sig)) in *. clearbody f.
  change (rne_decimal 1 308) with p308 in *.
  cbn [f64_loop]. change (rne_decimal 1 308) with p308.
  destruct (pow10_tab (Z.abs e)).
  { destruct (0 <=? e)%Z; [destruct (b64_is_inf _)|]; eexists; reflexivity. }
  destruct (b64_is_zero f); [eexists; reflexivity|]. destruct (0 <=? e)%Z; [eexists; reflexivity|].
  assert (H1 : nn (64 - 1023) (b64_div f p308)) by (apply div_step; [exact H0|lia|lia]).
  destruct (pow10_tab (Z.abs (e + 308))).
  { destruct (0 <=? e + 308)%Z; [destruct (b64_is_inf _)|]; eexists; reflexivity. }
  destruct (b64_is_zero (b64_div f p308)); [eexists; reflexivity|]. destruct (0 <=? e + 308)%Z; [eexists; reflexivity|].
  destruct (pow10_tab (Z.abs (e + 308 + 308))).
  { destruct (0 <=? e + 308 + 308)%Z; [destruct (b64_is_inf _)|]; eexists; reflexivity. }
  rewrite (div_zero _ _ H1) by lia. eexists; reflexivity.
Qed.

(* ================= vocabulary ========================================================= *)
Definition nonempty (r : bytes) : bool := match r with [] => false | _ :: _ => true end.
(* the state right after a peek: rest r, offset o, peek slot filled iff r is non-empty *)
Definition pkd (r : bytes) (o : nat) (d : N) : st := mkSt r o (nonempty r) d.
(* "r does not start with a digit" (an empty r counts: peek_or_null yields 0) *)
Definition nd (r : bytes) : Prop := is_digit (hd 0 r) = false.
Definition digs (ds : bytes) : Prop := forallb is_digit ds = true.
Notation is_e c := ((c =? 101) || (c =? 69)).

(* outcome of a run that either succeeds in state [se] or reports NumberOutOfRange *)
Definition fin {A} (o : option A) (r : res (A * st)) (se : st) : Prop :=
  match o with Some a => r = Ok (a, se) | None => exists i, r = Err NumberOutOfRange i end.
Definition noOk {A} (r : res A) : Prop := forall a, r <> Ok a.

Lemma noOk_err : forall A c i, noOk (@Err A c i).
Proof. intros A c i a H. discriminate H. Qed.
Lemma noOk_bind : forall A B (r : res A) (f : A -> res B), noOk r -> noOk (bind r f).
Proof. intros A B r f Hr b H. destruct r as [a| | |]; try discriminate H. exact (Hr a eq_refl). Qed.

Definition wrapF (r : res (b64 * st)) : res (pnum * st) := let* (f, s) := r in Ok (PF64 f, s).
Lemma fin_wrapF : forall o r se, fin o r se -> fin (option_map PF64 o) (wrapF r) se.
Proof.
  intros [f|] r se H; cbn [fin option_map] in *.
  - rewrite H. reflexivity.
  - destruct H as [i ->]. exists i. reflexivity.
Qed.
Lemma noOk_wrapF : forall r, noOk r -> noOk (wrapF r).
Proof. intros r H. apply noOk_bind. exact H. Qed.

(* ================= bytes and digit strings ================================================ *)
Lemma nd_nil : nd [].
Proof. reflexivity. Qed.

Lemma digit_facts : forall c, is_digit c = true ->
  (c =? 43) = false /\ (c =? 45) = false /\ (c =? 46) = false /\ (c =? 101) = false /\ (c =? 69) = false /\ (c =? 48) = (negb (is_digit19 c)).
Proof. intros c H. unfold is_digit, is_digit19 in *. lia. Qed.

Lemma digit19_digit : forall c, is_digit19 c = true -> is_digit c = true /\ (c =? 48) = false.
Proof. intros c H. unfold is_digit, is_digit19 in *. lia. Qed.

Lemma span_nd : forall r, nd r -> span_len is_digit r = O.
Proof. intros [|c r] H; cbn [span_len]; [reflexivity|]. unfold nd in H. cbn [hd] in H. rewrite H. reflexivity. Qed.

Lemma span_app : forall ds r, digs ds -> nd r -> span_len is_digit (ds ++ r) = length ds.
Proof.
  induction ds as [|c ds IH]; intros r Hd Hr; cbn [app length span_len].
  - apply span_nd, Hr.
  - unfold digs in Hd. cbn [forallb] in Hd. apply andb_prop in Hd. destruct Hd as (Hc & Hd).
    rewrite Hc, (IH r Hd Hr). reflexivity.
Qed.

Lemma firstn_app_l : forall (ds r : bytes), firstn (length ds) (ds ++ r) = ds.
Proof. induction ds as [|c ds IH]; intros r; cbn [length firstn app]; [reflexivity|]. rewrite IH. reflexivity. Qed.
Lemma skipn_app_l : forall (ds r : bytes), skipn (length ds) (ds ++ r) = r.
Proof. induction ds as [|c ds IH]; intros r; cbn [length skipn app]; [reflexivity|]. apply IH. Qed.
Lemma skipn_app_le : forall n (ds r : bytes), (n <= length ds)%nat -> skipn n (ds ++ r) = skipn n ds ++ r.
Proof.
  induction n as [|n IH]; intros ds r H; [reflexivity|].
  destruct ds as [|c ds]; cbn [length] in H; [lia|]. cbn [skipn app]. apply IH. lia.
Qed.
Lemma digs_cons : forall c ds, digs (c :: ds) <-> is_digit c = true /\ digs ds.
Proof. intros c ds. unfold digs. cbn [forallb]. rewrite andb_true_iff. tauto. Qed.
Lemma digs_app : forall a b, digs (a ++ b) <-> digs a /\ digs b.
Proof. intros a b. unfold digs. rewrite forallb_app, andb_true_iff. tauto. Qed.
Lemma digs_skipn : forall n ds, digs ds -> digs (skipn n ds).
Proof.
  intros n ds H. rewrite <- (firstn_skipn n ds) in H. apply digs_app in H. apply H.
Qed.
Lemma skipn_len_lt_nonnil : forall n (ds : bytes), (n < length ds)%nat -> skipn n ds <> [].
Proof.
  intros n ds H Hn. pose proof (skipn_length n ds) as HL. rewrite Hn in HL. cbn [length] in HL. lia.
Qed.

Lemma digits_split : forall l, exists ds r, l = ds ++ r /\ digs ds /\ nd r.
Proof.
  induction l as [|c l (ds & r & -> & Hd & Hr)].
  - exists [], []. repeat split.
  - destruct (is_digit c) eqn:Hc.
    + exists (c :: ds), r. split; [reflexivity|]. split; [apply digs_cons; split; assumption|assumption].
    + exists [], (c :: ds ++ r). split; [reflexivity|]. split; [reflexivity|exact Hc].
Qed.

(* ---- the significand loop --------------------------------------------------------------- *)
Lemma sig_loop_nd : forall r sg, nd r -> sig_loop r sg = (O, sg, false).
Proof. intros [|c r] sg H; cbn [sig_loop]; [reflexivity|]. unfold nd in H. cbn [hd] in H. rewrite H. reflexivity. Qed.

Lemma sig_loop_app : forall ds r sg, nd r -> sig_loop (ds ++ r) sg = sig_loop ds sg.
Proof.
  induction ds as [|c ds IH]; intros r sg Hr; cbn [app].
  - rewrite (sig_loop_nd r sg Hr). reflexivity.
  - cbn [sig_loop]. destruct (is_digit c); [|reflexivity].
    destruct (overflow_mac sg (digit_val c) u64_max); [reflexivity|]. rewrite (IH r _ Hr). reflexivity.
Qed.

Lemma mul10add_lt : forall a d, mul10add a d < two64.
Proof. intros a d. unfold mul10add. apply N.mod_lt. discriminate. Qed.

Lemma sig_loop_spec : forall ds sg n sg' ov, digs ds -> sg < two64 -> sig_loop ds sg = (n, sg', ov) ->
  sg' < two64 /\ (n <= length ds)%nat /\ (ov = false -> n = length ds) /\ (ov = true -> (n < length ds)%nat).
Proof.
  induction ds as [|c ds IH]; intros sg n sg' ov Hd Hsg H; cbn [sig_loop] in H.
  - injection H as <- <- <-. cbn [length]. repeat split; try lia; try discriminate; try exact Hsg.
  - apply digs_cons in Hd. destruct Hd as (Hc & Hd). rewrite Hc in H.
    destruct (overflow_mac sg (digit_val c) u64_max).
    + injection H as <- <- <-. cbn [length]. repeat split; try lia; try discriminate; try exact Hsg.
    + destruct (sig_loop ds (mul10add sg (digit_val c))) as [[n1 sg1] ov1] eqn:H1.
      injection H as <- <- <-.
      destruct (IH _ _ _ _ Hd (mul10add_lt _ _) H1) as (Ha & Hb & Hc' & Hd').
      cbn [length]. repeat split; try lia.
Qed.

(* ---- the exponent loop -------------------------------------------------------------------- *)
Lemma exp_loop_nd : forall r ex, nd r -> exp_loop r ex = (O, ex, false).
Proof. intros [|c r] ex H; cbn [exp_loop]; [reflexivity|]. unfold nd in H. cbn [hd] in H. rewrite H. reflexivity. Qed.

Lemma exp_loop_app : forall ds r ex, nd r -> exp_loop (ds ++ r) ex = exp_loop ds ex.
Proof.
  induction ds as [|c ds IH]; intros r ex Hr; cbn [app].
  - rewrite (exp_loop_nd r ex Hr). reflexivity.
  - cbn [exp_loop]. destruct (is_digit c); [|reflexivity].
    destruct (overflow_mac ex (digit_val c) i32_max); [reflexivity|]. rewrite (IH r _ Hr). reflexivity.
Qed.

Lemma exp_loop_spec : forall ds ex n ex' ov, digs ds -> exp_loop ds ex = (n, ex', ov) ->
  (n <= length ds)%nat /\ (ov = false -> n = length ds).
Proof.
  induction ds as [|c ds IH]; intros ex n ex' ov Hd H; cbn [exp_loop] in H.
  - injection H as <- <- <-. cbn [length]. split; [lia|reflexivity].
  - apply digs_cons in Hd. destruct Hd as (Hc & Hd). rewrite Hc in H.
    destruct (overflow_mac ex (digit_val c) i32_max).
    + injection H as <- <- <-. cbn [length]. split; [lia|discriminate].
    + destruct (exp_loop ds (ex * 10 + digit_val c)) as [[n1 ex1] ov1] eqn:H1.
      injection H as <- <- <-. destruct (IH _ _ _ _ Hd H1) as (Ha & Hb).
      cbn [length]. split; [lia|]. intros Hov. rewrite (Hb Hov). reflexivity.
Qed.

(* ================= reader primitives under TEof =========================================== *)
Section Run.
Variable E : env.
Hypothesis HE : tm E = TEof.

Lemma peek_or_null_mk : forall r o p d, peek_or_null E (mkSt r o p d) = Ok (hd 0 r, pkd r o d).
Proof. intros [|b r] o p d; unfold peek_or_null, peek, at_end; cbn [rest off depth]; [rewrite HE|]; reflexivity. Qed.
Lemma rest_pkd : forall r o d, rest (pkd r o d) = r.
Proof. reflexivity. Qed.
Lemma peek_or_null_pkd : forall r o d, peek_or_null E (pkd r o d) = Ok (hd 0 r, pkd r o d).
Proof. intros. apply peek_or_null_mk. Qed.
Lemma peek_mk : forall r o p d, peek E (mkSt r o p d) = Ok (hd_error r, pkd r o d).
Proof. intros [|b r] o p d; unfold peek, at_end; cbn [rest off depth]; [rewrite HE|]; reflexivity. Qed.
Lemma next_cons : forall b r o p d, next E (mkSt (b :: r) o p d) = Ok (Some b, mkSt r (S o) false d).
Proof. reflexivity. Qed.
Lemma next_nil : forall o p d, next E (mkSt [] o p d) = Ok (None, mkSt [] o false d).
Proof. intros. unfold next, at_end. cbn [rest]. rewrite HE. reflexivity. Qed.
Lemma discard_mk : forall r o p d, discard (mkSt r o p d) = mkSt (tl r) (S o) false d.
Proof. reflexivity. Qed.
Lemma advance_mk : forall n r o p d, advance n (mkSt r o p d) = mkSt (skipn n r) (o + n) false d.
Proof. reflexivity. Qed.

Lemma skip_digits_mk : forall ds r o p d, digs ds -> nd r ->
  skip_digits E (mkSt (ds ++ r) o p d) = Ok (hd 0 r, pkd r (o + length ds) d).
Proof.
  intros ds r o p d Hd Hr. unfold skip_digits. cbn [rest]. rewrite (span_app ds r Hd Hr), advance_mk, skipn_app_l.
  apply peek_or_null_mk.
Qed.

(* ================= the float back ends ====================================================== *)
Lemma f64_from_parts_fin : forall positive sg e, sg < two64 ->
  exists o, forall s, fin o (f64_from_parts E positive sg e s) s.
Proof.
  intros positive sg e Hsg. unfold f64_from_parts.
  destruct (float_roundtrip (cf E)).
  - destruct (f64_fr sg e) as [f|].
    + exists (Some (if positive then f else b64_neg f)). intros s. reflexivity.
    + exists None. intros s. eexists. reflexivity.
  - destruct (f64_loop_total sg e Hsg) as [[f|] ->].
    + exists (Some (if positive then f else b64_neg f)). intros s. reflexivity.
    + exists None. intros s. eexists. reflexivity.
Qed.

Lemma f64_long_fin : forall positive i f e,
  exists o, forall s, fin o (f64_long_from_parts E positive i f e s) s.
Proof.
  intros positive i f e. unfold f64_long_from_parts.
  destruct (b64_is_inf (lexical_truncated i f e)).
  - exists None. intros s. eexists. reflexivity.
  - eexists (Some _). intros s. reflexivity.
Qed.

(* ================= exponents ================================================================ *)
Definition sgl (sg : option byte) : bytes := match sg with Some c => [c] | None => [] end.
Definition sg_ok (sg : option byte) : Prop := match sg with Some c => (c =? 43) || (c =? 45) = true | None => True end.
Definition pexp (sg : option byte) : bool := match sg with Some c => negb (c =? 45) | None => true end.

(* an exponent part that cannot be completed: after e|E and an optional sign there is no digit *)
Definition exp_bad (l : bytes) : Prop :=
  let r1 := tl l in
  let r2 := if (hd 0 r1 =? 43) || (hd 0 r1 =? 45) then tl r1 else r1 in
  nd r2.

Definition exp_core (pe : bool) (s2 : st) : res (bool * (N * bool) * st) :=
  let* (o, s3) := next E s2 in
  match o with
  | None => error E s3 EofWhileParsingValue
  | Some c1 =>
    if is_digit c1 then
      let '(n, e, ov) := exp_loop (rest s3) (digit_val c1) in
      Ok (pe, (e, ov), advance n s3)
    else error E s3 InvalidNumber
  end.

Lemma exponent_front_unfold : forall s,
  exponent_front E s =
  let* (c, s1) := peek_or_null E (discard s) in
  if c =? 43 then exp_core true (discard s1) else if c =? 45 then exp_core false (discard s1) else exp_core true s1.
Proof.
  intros s. unfold exponent_front, exp_core. destruct (peek_or_null E (discard s)) as [[c s1]| | |]; try reflexivity.
  cbn [bind]. destruct (c =? 43); [reflexivity|]. destruct (c =? 45); reflexivity.
Qed.

Lemma exp_core_good : forall pe c1 ds r o p d, is_digit c1 = true -> digs ds -> nd r ->
  exp_core pe (mkSt (c1 :: ds ++ r) o p d) =
  let '(n, ex, ov) := exp_loop ds (digit_val c1) in
  Ok (pe, (ex, ov), mkSt (skipn n ds ++ r) (S o + n) false d).
Proof.
  intros pe c1 ds r o p d Hc1 Hd Hr. unfold exp_core. rewrite next_cons. cbn [bind]. cbv beta iota.
  rewrite Hc1. cbn [rest]. rewrite (exp_loop_app ds r _ Hr).
  destruct (exp_loop ds (digit_val c1)) as [[n ex] ov] eqn:Hel.
  destruct (exp_loop_spec _ _ _ _ _ Hd Hel) as (Hn & _).
  rewrite advance_mk, (skipn_app_le n ds r Hn). reflexivity.
Qed.

Lemma exp_core_bad : forall pe r o p d, nd r -> noOk (exp_core pe (mkSt r o p d)).
Proof.
  intros pe [|c r] o p d Hr; unfold exp_core.
  - rewrite next_nil. cbn [bind]. apply noOk_err.
  - rewrite next_cons. cbn [bind]. cbv beta iota. unfold nd in Hr. cbn [hd] in Hr. rewrite Hr. apply noOk_err.
Qed.

Lemma exponent_front_good : forall e sg c1 ds r o p d,
  sg_ok sg -> is_digit c1 = true -> digs ds -> nd r ->
  exponent_front E (mkSt (e :: sgl sg ++ c1 :: ds ++ r) o p d) =
  let '(n, ex, ov) := exp_loop ds (digit_val c1) in
  Ok (pexp sg, (ex, ov), mkSt (skipn n ds ++ r) (o + (2 + length (sgl sg) + n)) false d).
Proof.
  intros e sg c1 ds r o p d Hsg Hc1 Hd Hr. rewrite exponent_front_unfold.
  rewrite discard_mk. cbn [tl]. rewrite peek_or_null_mk. cbn [bind]. cbv beta iota.
  destruct (digit_facts c1 Hc1) as (H43 & H45 & _).
  destruct sg as [c|]; cbn [sgl app hd length pexp].
  - cbn [sg_ok] in Hsg. unfold pkd. rewrite discard_mk. cbn [tl].
    destruct (c =? 43) eqn:Hc43.
    + assert (Hc45 : (c =? 45) = false) by lia. rewrite Hc45. cbn [negb].
      rewrite (exp_core_good _ _ _ _ _ _ _ Hc1 Hd Hr).
      destruct (exp_loop ds (digit_val c1)) as [[n ex] ov]. do 2 f_equal. f_equal. lia.
    + cbn [orb] in Hsg. rewrite Hsg. cbn [negb].
      rewrite (exp_core_good _ _ _ _ _ _ _ Hc1 Hd Hr).
      destruct (exp_loop ds (digit_val c1)) as [[n ex] ov]. do 2 f_equal. f_equal. lia.
  - rewrite H43, H45. unfold pkd. rewrite (exp_core_good _ _ _ _ _ _ _ Hc1 Hd Hr).
    destruct (exp_loop ds (digit_val c1)) as [[n ex] ov]. do 2 f_equal. f_equal. lia.
Qed.

Lemma exponent_front_bad : forall l o p d, exp_bad l -> noOk (exponent_front E (mkSt l o p d)).
Proof.
  intros l o p d Hb. rewrite exponent_front_unfold. rewrite discard_mk, peek_or_null_mk. cbn [bind]. cbv beta iota.
  unfold exp_bad in Hb. cbv zeta in Hb. unfold pkd. 
  destruct (hd 0 (tl l) =? 43) eqn:H43.
  - cbn [orb] in Hb. rewrite discard_mk. apply exp_core_bad, Hb.
  - destruct (hd 0 (tl l) =? 45) eqn:H45; cbn [orb] in Hb.
    + rewrite discard_mk. apply exp_core_bad, Hb.
    + apply exp_core_bad, Hb.
Qed.

(* pure: what follows an e|E is either a complete exponent or a hopeless one *)
Lemma exp_shape : forall l, is_e (hd 0 l) = true ->
  exp_bad l \/ exists e sg c1 ds r, l = e :: sgl sg ++ c1 :: ds ++ r /\ is_e e = true /\ sg_ok sg
                                   /\ is_digit c1 = true /\ digs ds /\ nd r.
Proof.
  intros [|e r1] He; cbn [hd] in He; [discriminate He|].
  assert (Hgen : forall sg r2, sg_ok sg -> r1 = sgl sg ++ r2 -> nd r2 \/ 
            exists c1 ds r, r2 = c1 :: ds ++ r /\ is_digit c1 = true /\ digs ds /\ nd r).
  { intros sg r2 _ _. destruct (is_digit (hd 0 r2)) eqn:Hd2; [right|left; exact Hd2].
    destruct r2 as [|c1 r3]; [discriminate Hd2|]. cbn [hd] in Hd2.
    destruct (digits_split r3) as (ds & r & -> & Hds & Hr). exists c1, ds, r. repeat split; assumption. }
  unfold exp_bad. cbv zeta. cbn [tl].
  destruct ((hd 0 r1 =? 43) || (hd 0 r1 =? 45)) eqn:Hs.
  - destruct r1 as [|c r2]; [discriminate Hs|]. cbn [hd] in Hs. cbn [tl].
    destruct (Hgen (Some c) r2 Hs eq_refl) as [Hb|(c1 & ds & r & -> & H1 & H2 & H3)]; [left; exact Hb|right].
    exists e, (Some c), c1, ds, r. repeat split; assumption.
  - destruct (Hgen None r1 I eq_refl) as [Hb|(c1 & ds & r & -> & H1 & H2 & H3)]; [left; exact Hb|right].
    exists e, None, c1, ds, r. repeat split; try assumption. 
Qed.

(* ---- parse_exponent / parse_long_exponent share everything but the last call -------------- *)
Definition after_exp (positive zero_sig : bool) (K : bool -> N -> st -> res (b64 * st)) (s : st) : res (b64 * st) :=
  let* (pe, (e, ov), s1) := exponent_front E s in
  if ov then parse_exponent_overflow E positive zero_sig pe s1
  else let* (_, s2) := peek_or_null E s1 in K pe e s2.

Lemma parse_exponent_eq : forall positive sg se s,
  parse_exponent E positive sg se s =
  after_exp positive (sg =? 0)
    (fun pe e s2 => f64_from_parts E positive sg (if pe then i32_sat (se + Z.of_N e) else i32_sat (se - Z.of_N e)) s2) s.
Proof. reflexivity. Qed.
Lemma parse_long_exponent_eq : forall positive i f s,
  parse_long_exponent E positive i f s =
  after_exp positive (forallb (N.eqb 48) (i ++ f))
    (fun pe e s2 => f64_long_from_parts E positive i f (if pe then Z.of_N e else (- Z.of_N e)%Z) s2) s.
Proof. reflexivity. Qed.

Lemma after_exp_good : forall positive z K e sg c1 ds,
  (forall pe ex, exists o, forall s, fin o (K pe ex s) s) ->
  sg_ok sg -> is_digit c1 = true -> digs ds ->
  exists o, forall r off p d, nd r ->
    fin o (after_exp positive z K (mkSt (e :: sgl sg ++ c1 :: ds ++ r) off p d))
          (pkd r (off + (2 + length (sgl sg) + length ds)) d).
Proof.
  intros positive z K e sg c1 ds HK Hsg Hc1 Hd.
  destruct (exp_loop ds (digit_val c1)) as [[n ex] ov] eqn:Hel.
  destruct (exp_loop_spec _ _ _ _ _ Hd Hel) as (Hn & Hfull).
  destruct ov.
  - (* exponent overflow *)
    destruct (negb z && pexp sg) eqn:Hz.
    + exists None. intros r off p d Hr. unfold after_exp.
      rewrite (exponent_front_good e sg c1 ds r off p d Hsg Hc1 Hd Hr), Hel. cbn [bind]. cbv beta iota.
      unfold parse_exponent_overflow. rewrite Hz. eexists. reflexivity.
    + exists (Some (if positive then B754_zero false else B754_zero true)). intros r off p d Hr. unfold after_exp.
      rewrite (exponent_front_good e sg c1 ds r off p d Hsg Hc1 Hd Hr), Hel. cbn [bind]. cbv beta iota.
      unfold parse_exponent_overflow. rewrite Hz.
      rewrite (skip_digits_mk (skipn n ds) r _ _ _ (digs_skipn n ds Hd) Hr). cbn [bind]. cbv beta iota. cbn [fin].
      rewrite skipn_length. do 2 f_equal. unfold pkd. f_equal. lia.
  - specialize (Hfull eq_refl). subst n.
    destruct (HK (pexp sg) ex) as [o Ho]. exists o. intros r off p d Hr. unfold after_exp.
    rewrite (exponent_front_good e sg c1 ds r off p d Hsg Hc1 Hd Hr), Hel. cbn [bind]. cbv beta iota.
    rewrite skipn_all. cbn [app]. rewrite peek_or_null_mk. cbn [bind]. cbv beta iota. apply Ho.
Qed.

Lemma after_exp_bad : forall positive z K l o p d, exp_bad l -> noOk (after_exp positive z K (mkSt l o p d)).
Proof. intros. unfold after_exp. apply noOk_bind, exponent_front_bad. assumption. Qed.

(* ================= continuations ============================================================
   k2: what remains to be done after the fraction digits (or after the integer when there is no fraction) *)
Inductive k2 := K2s (sg : N) (e : Z) | K2l (i f : bytes).
Definition k2_ok (k : k2) : Prop := match k with K2s sg _ => sg < two64 | K2l _ _ => True end.
Definition run_k2 (positive : bool) (k : k2) (s : st) : res (b64 * st) :=
  let c := hd 0 (rest s) in
  match k with
  | K2s sg e => if is_e c then parse_exponent E positive sg e s else f64_from_parts E positive sg e s
  | K2l i f => if is_e c then parse_long_exponent E positive i f s else f64_long_from_parts E positive i f 0 s
  end.

Lemma k2_fin : forall positive k, k2_ok k ->
  exists o, forall r off d, is_e (hd 0 r) = false -> fin o (run_k2 positive k (pkd r off d)) (pkd r off d).
Proof.
  intros positive [sg e|i f] Hk; cbn [k2_ok] in Hk.
  - destruct (f64_from_parts_fin positive sg e Hk) as [o Ho]. exists o. intros r off d He.
    unfold run_k2. cbv zeta. rewrite rest_pkd, He. apply Ho.
  - destruct (f64_long_fin positive i f 0) as [o Ho]. exists o. intros r off d He.
    unfold run_k2. cbv zeta. rewrite rest_pkd, He. apply Ho.
Qed.

Lemma k2_exp : forall positive k e sg c1 ds, k2_ok k -> is_e e = true -> sg_ok sg -> is_digit c1 = true -> digs ds ->
  exists o, forall r off d, nd r ->
    fin o (run_k2 positive k (pkd (e :: sgl sg ++ c1 :: ds ++ r) off d)) (pkd r (off + (2 + length (sgl sg) + length ds)) d).
Proof.
  intros positive [sg0 e0|i f] e sg c1 ds Hk He Hsg Hc1 Hd; cbn [k2_ok] in Hk.
  - destruct (after_exp_good positive (sg0 =? 0)
       (fun pe ex s2 => f64_from_parts E positive sg0 (if pe then i32_sat (e0 + Z.of_N ex) else i32_sat (e0 - Z.of_N ex)) s2)
       e sg c1 ds) as [o Ho]; try assumption.
    { intros pe ex. apply f64_from_parts_fin, Hk. }
    exists o. intros r off d Hr. unfold run_k2. cbv zeta. rewrite rest_pkd. cbn [hd]. rewrite He, parse_exponent_eq. apply Ho, Hr.
  - destruct (after_exp_good positive (forallb (N.eqb 48) (i ++ f))
       (fun pe ex s2 => f64_long_from_parts E positive i f (if pe then Z.of_N ex else (- Z.of_N ex)%Z) s2)
       e sg c1 ds) as [o Ho]; try assumption.
    { intros pe ex. apply f64_long_fin. }
    exists o. intros r off d Hr. unfold run_k2. cbv zeta. rewrite rest_pkd. cbn [hd]. rewrite He, parse_long_exponent_eq. apply Ho, Hr.
Qed.

Lemma k2_exp_bad : forall positive k r off d, is_e (hd 0 r) = true -> exp_bad r -> noOk (run_k2 positive k (pkd r off d)).
Proof.
  intros positive [sg0 e0|i f] r off d He Hb; unfold run_k2; cbv zeta; rewrite rest_pkd, He.
  - rewrite parse_exponent_eq. apply after_exp_bad, Hb.
  - rewrite parse_long_exponent_eq. apply after_exp_bad, Hb.
Qed.

(* ================= fractions ================================================================ *)
Lemma parse_long_decimal_good : forall positive i f0 ds r o p d, digs ds -> nd r -> f0 ++ ds <> [] ->
  parse_long_decimal E positive i f0 (mkSt (ds ++ r) o p d) = run_k2 positive (K2l i (f0 ++ ds)) (pkd r (o + length ds) d).
Proof.
  intros positive i f0 ds r o p d Hd Hr Hne. unfold parse_long_decimal. cbn [rest].
  rewrite (span_app ds r Hd Hr), firstn_app_l, advance_mk, skipn_app_l, peek_or_null_mk. cbn [bind]. cbv beta iota.
  destruct (f0 ++ ds) as [|x fr] eqn:Hfr; [exfalso; apply Hne; reflexivity|]. reflexivity.
Qed.

Lemma parse_long_decimal_bad : forall positive i r o p d, nd r -> noOk (parse_long_decimal E positive i [] (mkSt r o p d)).
Proof.
  intros positive i r o p d Hr. unfold parse_long_decimal. cbn [rest].
  rewrite (span_nd r Hr). cbn [firstn app]. rewrite advance_mk, peek_or_null_mk. cbn [bind]. cbv beta iota.
  unfold pkd. rewrite peek_mk. cbn [bind]. cbv beta iota. destruct (hd_error (skipn 0 r)); apply noOk_err.
Qed.

Lemma parse_decimal_overflow_good : forall positive sg e ds2, sg < two64 -> digs ds2 -> ds2 <> [] ->
  exists k', k2_ok k' /\ forall r o p d, nd r ->
    parse_decimal_overflow E positive sg e (mkSt (ds2 ++ r) o p d) = run_k2 positive k' (pkd r (o + length ds2) d).
Proof.
  intros positive sg e ds2 Hsg Hd Hne. unfold parse_decimal_overflow.
  destruct (float_roundtrip (cf E)).
  - eexists (K2l _ (_ ++ ds2)). split; [exact I|]. intros r o p d Hr. cbv zeta.
    apply parse_long_decimal_good; try assumption.
    intros Hnil. apply app_eq_nil in Hnil. apply Hne, Hnil.
  - exists (K2s sg e). split; [exact Hsg|]. intros r o p d Hr.
    rewrite (skip_digits_mk ds2 r o p d Hd Hr). cbn [bind]. cbv beta iota. reflexivity.
Qed.

Lemma parse_decimal_good : forall positive sg e ds, sg < two64 -> digs ds -> ds <> [] ->
  exists k', k2_ok k' /\ forall r o p d, nd r ->
    parse_decimal E positive sg e (mkSt (46 :: ds ++ r) o p d) = run_k2 positive k' (pkd r (o + S (length ds)) d).
Proof.
  intros positive sg e ds Hsg Hd Hne.
  destruct (sig_loop ds sg) as [[n sg'] ov] eqn:Hsl.
  destruct (sig_loop_spec _ _ _ _ _ Hd Hsg Hsl) as (Hsg' & Hn & Hfull & Hpart).
  destruct ov.
  - specialize (Hpart eq_refl).
    destruct (parse_decimal_overflow_good positive sg' (e + - Z.of_nat n) (skipn n ds) Hsg' (digs_skipn n ds Hd)
                (skipn_len_lt_nonnil n ds Hpart)) as (k' & Hk' & Hrun).
    exists k'. split; [exact Hk'|]. intros r o p d Hr. unfold parse_decimal.
    rewrite discard_mk. cbn [tl rest]. rewrite (sig_loop_app ds r sg Hr), Hsl.
    rewrite advance_mk, (skipn_app_le n ds r Hn), peek_or_null_mk. cbn [bind]. cbv beta iota.
    unfold pkd at 1. rewrite (Hrun r _ _ d Hr). rewrite skipn_length. do 2 f_equal. lia.
  - specialize (Hfull eq_refl). subst n.
    exists (K2s sg' (e + - Z.of_nat (length ds))). split; [exact Hsg'|]. intros r o p d Hr. unfold parse_decimal.
    rewrite discard_mk. cbn [tl rest]. rewrite (sig_loop_app ds r sg Hr), Hsl.
    rewrite advance_mk, skipn_app_l, peek_or_null_mk. cbn [bind]. cbv beta iota.
    destruct ds as [|c0 ds0]; [exfalso; apply Hne; reflexivity|]. cbn [length Nat.eqb].
    unfold run_k2. cbv zeta. rewrite rest_pkd.
    replace (S o + S (length ds0))%nat with (o + S (S (length ds0)))%nat by lia. reflexivity.
Qed.

Lemma parse_decimal_bad : forall positive sg e r o p d, nd r -> noOk (parse_decimal E positive sg e (mkSt (46 :: r) o p d)).
Proof.
  intros positive sg e r o p d Hr. unfold parse_decimal. rewrite discard_mk. cbn [tl rest].
  rewrite (sig_loop_nd r sg Hr). rewrite advance_mk, peek_or_null_mk. cbn [bind]. cbv beta iota. cbn [Nat.eqb].
  unfold pkd. rewrite peek_mk. cbn [bind]. cbv beta iota. destruct (hd_error (skipn 0 r)); apply noOk_err.
Qed.

(* ================= k1: what remains to be done after the integer digits ======================= *)
Inductive k1 := K1n (sg : N) | K1l (sg : N) (e : Z) | K1f (i : bytes).
Definition k1_ok (k : k1) : Prop := match k with K1n sg => sg < two64 | K1l sg _ => sg < two64 | K1f _ => True end.
Definition run_k1 (positive : bool) (k : k1) (s : st) : res (pnum * st) :=
  let c := hd 0 (rest s) in
  match k with
  | K1n sg => parse_number E positive sg s
  | K1l sg e => wrapF (if c =? 46 then parse_decimal E positive sg e s
                       else if is_e c then parse_exponent E positive sg e s
                       else f64_from_parts E positive sg e s)
  | K1f i => wrapF (if c =? 46 then parse_long_decimal E positive i [] (discard s)
                    else if is_e c then parse_long_exponent E positive i [] s
                    else f64_long_from_parts E positive i [] 0 s)
  end.
Definition k2_of (k : k1) : k2 := match k with K1n sg => K2s sg 0 | K1l sg e => K2s sg e | K1f i => K2l i [] end.
Lemma k2_of_ok : forall k, k1_ok k -> k2_ok (k2_of k).
Proof. intros [sg|sg e|i] H; exact H. Qed.

Lemma parse_number_unfold : forall positive sg r o d,
  parse_number E positive sg (pkd r o d) =
  let c := hd 0 r in
  if c =? 46 then wrapF (parse_decimal E positive sg 0 (pkd r o d))
  else if is_e c then wrapF (parse_exponent E positive sg 0 (pkd r o d))
  else if positive then Ok (PU64 sg, pkd r o d)
  else if (0 <=? wrap_i64 (- wrap_i64 (Z.of_N sg)))%Z then Ok (PF64 (b64_neg (b64_of_Z (Z.of_N sg))), pkd r o d)
  else Ok (PI64 (wrap_i64 (- wrap_i64 (Z.of_N sg))), pkd r o d).
Proof.
  intros positive sg r o d. unfold parse_number. rewrite peek_or_null_pkd. cbn [bind]. cbv beta iota zeta. reflexivity.
Qed.

Lemma k1_dec : forall positive k ds, k1_ok k -> digs ds -> ds <> [] ->
  exists k', k2_ok k' /\ forall r o d, nd r ->
    run_k1 positive k (pkd (46 :: ds ++ r) o d) = wrapF (run_k2 positive k' (pkd r (o + S (length ds)) d)).
Proof.
  intros positive [sg|sg e|i] ds Hk Hd Hne; cbn [k1_ok] in Hk.
  - destruct (parse_decimal_good positive sg 0 ds Hk Hd Hne) as (k' & Hk' & Hrun).
    exists k'. split; [exact Hk'|]. intros r o d Hr. unfold run_k1. cbv zeta. rewrite parse_number_unfold. cbv zeta. cbn [hd].
    change (46 =? 46) with true. cbv iota. unfold pkd at 1. rewrite (Hrun r _ _ d Hr). reflexivity.
  - destruct (parse_decimal_good positive sg e ds Hk Hd Hne) as (k' & Hk' & Hrun).
    exists k'. split; [exact Hk'|]. intros r o d Hr. unfold run_k1. cbv zeta. rewrite rest_pkd. cbn [hd].
    change (46 =? 46) with true. cbv iota. unfold pkd at 1. rewrite (Hrun r _ _ d Hr). reflexivity.
  - exists (K2l i ds). split; [exact I|]. intros r o d Hr. unfold run_k1. cbv zeta. rewrite rest_pkd. cbn [hd].
    change (46 =? 46) with true. cbv iota. unfold pkd at 1. rewrite discard_mk. cbn [tl].
    rewrite (parse_long_decimal_good positive i [] ds r _ _ d Hd Hr Hne). cbn [app].
    replace (S o + length ds)%nat with (o + S (length ds))%nat by lia. reflexivity.
Qed.

Lemma k1_dec_bad : forall positive k r o d, nd r -> noOk (run_k1 positive k (pkd (46 :: r) o d)).
Proof.
  intros positive [sg|sg e|i] r o d Hr; unfold run_k1; cbv zeta.
  - rewrite parse_number_unfold. cbv zeta. cbn [hd]. change (46 =? 46) with true. cbv iota.
    apply noOk_wrapF. unfold pkd. apply parse_decimal_bad, Hr.
  - rewrite rest_pkd. cbn [hd]. change (46 =? 46) with true. cbv iota.
    apply noOk_wrapF. unfold pkd. apply parse_decimal_bad, Hr.
  - rewrite rest_pkd. cbn [hd]. change (46 =? 46) with true. cbv iota.
    apply noOk_wrapF. unfold pkd. rewrite discard_mk. cbn [tl]. apply parse_long_decimal_bad, Hr.
Qed.

Lemma e_not_dot : forall c, is_e c = true -> (c =? 46) = false.
Proof. intros c H. lia. Qed.

Lemma k1_exp : forall positive k r o d, is_e (hd 0 r) = true ->
  run_k1 positive k (pkd r o d) = wrapF (run_k2 positive (k2_of k) (pkd r o d)).
Proof.
  intros positive [sg|sg e|i] r o d He; unfold run_k1, run_k2, k2_of; cbv zeta.
  - rewrite parse_number_unfold. cbv zeta. rewrite rest_pkd, (e_not_dot _ He), He. reflexivity.
  - rewrite rest_pkd, (e_not_dot _ He), He. reflexivity.
  - rewrite rest_pkd, (e_not_dot _ He), He. reflexivity.
Qed.

Lemma k1_fin : forall positive k, k1_ok k ->
  exists o, forall r off d, (hd 0 r =? 46) = false -> is_e (hd 0 r) = false ->
    fin o (run_k1 positive k (pkd r off d)) (pkd r off d).
Proof.
  intros positive [sg|sg e|i] Hk; cbn [k1_ok] in Hk.
  - exists (Some (if positive then PU64 sg
                  else if (0 <=? wrap_i64 (- wrap_i64 (Z.of_N sg)))%Z then PF64 (b64_neg (b64_of_Z (Z.of_N sg)))
                  else PI64 (wrap_i64 (- wrap_i64 (Z.of_N sg))))).
    intros r off d H46 He. unfold run_k1. cbv zeta. rewrite parse_number_unfold. cbv zeta. rewrite H46, He.
    cbn [fin]. destruct positive; [reflexivity|]. destruct (0 <=? _)%Z; reflexivity.
  - destruct (f64_from_parts_fin positive sg e Hk) as [o Ho]. exists (option_map PF64 o).
    intros r off d H46 He. unfold run_k1. cbv zeta. rewrite rest_pkd, H46, He. apply fin_wrapF, Ho.
  - destruct (f64_long_fin positive i [] 0) as [o Ho]. exists (option_map PF64 o).
    intros r off d H46 He. unfold run_k1. cbv zeta. rewrite rest_pkd, H46, He. apply fin_wrapF, Ho.
Qed.

(* ================= the integer part ========================================================== *)
Lemma parse_long_integer_good : forall positive sg ds2, sg < two64 -> digs ds2 ->
  exists k, k1_ok k /\ forall r o p d, nd r ->
    wrapF (parse_long_integer E positive sg (mkSt (ds2 ++ r) o p d)) = run_k1 positive k (pkd r (o + length ds2) d).
Proof.
  intros positive sg ds2 Hsg Hd. unfold parse_long_integer.
  destruct (float_roundtrip (cf E)).
  - exists (K1f (itoa sg ++ ds2)). split; [exact I|]. intros r o p d Hr. cbn [rest]. cbv zeta.
    rewrite (span_app ds2 r Hd Hr), firstn_app_l, advance_mk, skipn_app_l, peek_or_null_mk. cbn [bind]. cbv beta iota.
    unfold run_k1. cbv zeta. rewrite rest_pkd. reflexivity.
  - exists (K1l sg (Z.of_nat (length ds2))). split; [exact Hsg|]. intros r o p d Hr. cbn [rest]. cbv zeta.
    rewrite (span_app ds2 r Hd Hr), advance_mk, skipn_app_l, peek_or_null_mk. cbn [bind]. cbv beta iota.
    unfold run_k1. cbv zeta. rewrite rest_pkd. reflexivity.
Qed.

Lemma int_ok_eq : forall c ds,
  int_ok (c :: ds) = if (c =? 48) && (match ds with [] => true | _ :: _ => false end) then true
                     else is_digit19 c && forallb is_digit ds.
Proof.
  intros c ds. destruct (N.eqb_spec c 48) as [->|Hne].
  - destruct ds; reflexivity.
  - cbn [andb]. destruct c as [|pc]; [reflexivity|].
    repeat (destruct pc as [pc|pc|]; try reflexivity). exfalso. apply Hne. reflexivity.
Qed.

Lemma int_ok_inv : forall int, int_ok int = true ->
  int = [48] \/ exists c ds, int = c :: ds /\ is_digit19 c = true /\ digs ds.
Proof.
  intros [|c ds] H; [discriminate H|]. rewrite int_ok_eq in H.
  destruct (c =? 48) eqn:H48; cbn [andb] in H.
  - destruct ds as [|x ds].
    + left. f_equal. apply N.eqb_eq, H48.
    + apply andb_prop in H. destruct H as (H19 & _). unfold is_digit19 in H19. lia.
  - apply andb_prop in H. destruct H as (H19 & Hd). right. exists c, ds. repeat split; assumption.
Qed.

Lemma parse_integer_good : forall positive int, int_ok int = true ->
  exists k, k1_ok k /\ forall r o p d, nd r ->
    parse_integer E positive (mkSt (int ++ r) o p d) = run_k1 positive k (pkd r (o + length int) d).
Proof.
  intros positive int Hint. destruct (int_ok_inv int Hint) as [->|(c & ds & -> & Hc & Hd)].
  - exists (K1n 0). split; [reflexivity|]. intros r o p d Hr. unfold parse_integer. cbn [app].
    rewrite next_cons. cbn [bind]. cbv beta iota. change (48 =? 48) with true. cbv iota.
    rewrite peek_or_null_mk. cbn [bind]. cbv beta iota. rewrite Hr. cbn [length].
    replace (o + 1)%nat with (S o) by lia. reflexivity.
  - destruct (digit19_digit c Hc) as (Hcd & Hc48).
    assert (Hdv : digit_val c < two64).
    { unfold digit_val, two64. unfold is_digit in Hcd. lia. }
    destruct (sig_loop ds (digit_val c)) as [[n sg] ov] eqn:Hsl.
    destruct (sig_loop_spec _ _ _ _ _ Hd Hdv Hsl) as (Hsg & Hn & Hfull & Hpart).
    destruct ov.
    + destruct (parse_long_integer_good positive sg (skipn n ds) Hsg (digs_skipn n ds Hd)) as (k & Hk & Hrun).
      exists k. split; [exact Hk|]. intros r o p d Hr. unfold parse_integer. cbn [app].
      rewrite next_cons. cbn [bind]. cbv beta iota. rewrite Hc48, Hc. cbn [rest].
      rewrite (sig_loop_app ds r _ Hr), Hsl, advance_mk, (skipn_app_le n ds r Hn), peek_or_null_mk. cbn [bind]. cbv beta iota.
      unfold pkd at 1. change (let* (f, s3) := ?x in Ok (PF64 f, s3)) with (wrapF x).
      rewrite (Hrun r _ _ d Hr), skipn_length. cbn [length]. do 2 f_equal. lia.
    + specialize (Hfull eq_refl). subst n.
      exists (K1n sg). split; [exact Hsg|]. intros r o p d Hr. unfold parse_integer. cbn [app].
      rewrite next_cons. cbn [bind]. cbv beta iota. rewrite Hc48, Hc. cbn [rest].
      rewrite (sig_loop_app ds r _ Hr), Hsl, advance_mk, skipn_app_l, peek_or_null_mk. cbn [bind]. cbv beta iota.
      cbn [length run_k1]. replace (S o + length ds)%nat with (o + S (length ds))%nat by lia. reflexivity.
Qed.

Lemma parse_integer_noint : forall positive l o p d, nd l -> noOk (parse_integer E positive (mkSt l o p d)).
Proof.
  intros positive [|c l] o p d Hl; unfold parse_integer.
  - rewrite next_nil. cbn [bind]. apply noOk_err.
  - rewrite next_cons. cbn [bind]. cbv beta iota. unfold nd in Hl. cbn [hd] in Hl.
    assert (H48 : (c =? 48) = false) by (unfold is_digit in Hl; lia).
    assert (H19 : is_digit19 c = false) by (unfold is_digit, is_digit19 in *; lia).
    rewrite H48, H19. apply noOk_err.
Qed.

Lemma parse_integer_lead0 : forall positive r o p d, is_digit (hd 0 r) = true ->
  noOk (parse_integer E positive (mkSt (48 :: r) o p d)).
Proof.
  intros positive r o p d Hr. unfold parse_integer. rewrite next_cons. cbn [bind]. cbv beta iota.
  change (48 =? 48) with true. cbv iota. rewrite peek_or_null_mk. cbn [bind]. cbv beta iota. rewrite Hr. apply noOk_err.
Qed.

(* ================= arbitrary_precision: the scan_* family ===================================== *)
Lemma scan_or_eof_cons : forall b r o p d, scan_or_eof E (mkSt (b :: r) o p d) = Ok (b, mkSt r (S o) false d).
Proof. reflexivity. Qed.
Lemma scan_or_eof_nil : forall o p d, noOk (scan_or_eof E (mkSt [] o p d)).
Proof. intros. unfold scan_or_eof. rewrite next_nil. cbn [bind]. apply noOk_err. Qed.

Definition scan_core (e0 : byte) (sgn : bytes) (s2 : st) : res (bytes * st) :=
  let* (d, s3) := scan_or_eof E s2 in
  if is_digit d then
    let n := span_len is_digit (rest s3) in
    let* (_, s4) := peek_or_null E (advance n s3) in
    Ok (e0 :: sgn ++ d :: firstn n (rest s3), s4)
  else error E s3 InvalidNumber.

Lemma scan_exponent_unfold : forall e0 s,
  scan_exponent E e0 s =
  let* (c, s1) := peek_or_null E (discard s) in
  if c =? 43 then scan_core e0 [43] (discard s1) else if c =? 45 then scan_core e0 [45] (discard s1) else scan_core e0 [] s1.
Proof.
  intros e0 s. unfold scan_exponent, scan_core. destruct (peek_or_null E (discard s)) as [[c s1]| | |]; try reflexivity.
  cbn [bind]. destruct (c =? 43); [reflexivity|]. destruct (c =? 45); reflexivity.
Qed.

Lemma scan_core_good : forall e0 sgn c1 ds r o p d, is_digit c1 = true -> digs ds -> nd r ->
  scan_core e0 sgn (mkSt (c1 :: ds ++ r) o p d) = Ok (e0 :: sgn ++ c1 :: ds, pkd r (S o + length ds) d).
Proof.
  intros e0 sgn c1 ds r o p d Hc1 Hd Hr. unfold scan_core. rewrite scan_or_eof_cons. cbn [bind]. cbv beta iota zeta.
  rewrite Hc1. cbn [rest]. rewrite (span_app ds r Hd Hr), firstn_app_l, advance_mk, skipn_app_l, peek_or_null_mk. reflexivity.
Qed.

Lemma scan_core_bad : forall e0 sgn r o p d, nd r -> noOk (scan_core e0 sgn (mkSt r o p d)).
Proof.
  intros e0 sgn [|c r] o p d Hr; unfold scan_core.
  - apply noOk_bind, scan_or_eof_nil.
  - rewrite scan_or_eof_cons. cbn [bind]. cbv beta iota. unfold nd in Hr. cbn [hd] in Hr. rewrite Hr. apply noOk_err.
Qed.

Lemma scan_exponent_good : forall e0 e sg c1 ds r o p d,
  sg_ok sg -> is_digit c1 = true -> digs ds -> nd r ->
  scan_exponent E e0 (mkSt (e :: sgl sg ++ c1 :: ds ++ r) o p d) =
  Ok (e0 :: sgl sg ++ c1 :: ds, pkd r (o + (2 + length (sgl sg) + length ds)) d).
Proof.
  intros e0 e sg c1 ds r o p d Hsg Hc1 Hd Hr. rewrite scan_exponent_unfold.
  rewrite discard_mk. cbn [tl]. rewrite peek_or_null_mk. cbn [bind]. cbv beta iota.
  destruct (digit_facts c1 Hc1) as (H43 & H45 & _).
  destruct sg as [c|]; cbn [sgl app hd length].
  - cbn [sg_ok] in Hsg. unfold pkd at 1 2. rewrite discard_mk. cbn [tl].
    destruct (N.eqb_spec c 43) as [->|Hn43].
    + rewrite (scan_core_good _ _ _ _ _ _ _ _ Hc1 Hd Hr). do 2 f_equal. unfold pkd. f_equal. lia.
    + cbn [orb] in Hsg. rewrite Hsg. apply N.eqb_eq in Hsg. subst c.
      rewrite (scan_core_good _ _ _ _ _ _ _ _ Hc1 Hd Hr). do 2 f_equal. unfold pkd. f_equal. lia.
  - rewrite H43, H45. unfold pkd at 1. rewrite (scan_core_good _ _ _ _ _ _ _ _ Hc1 Hd Hr).
    do 2 f_equal. unfold pkd. f_equal. lia.
Qed.

Lemma scan_exponent_bad : forall e0 l o p d, exp_bad l -> noOk (scan_exponent E e0 (mkSt l o p d)).
Proof.
  intros e0 l o p d Hb. rewrite scan_exponent_unfold. rewrite discard_mk, peek_or_null_mk. cbn [bind]. cbv beta iota.
  unfold exp_bad in Hb. cbv zeta in Hb. unfold pkd.
  destruct (hd 0 (tl l) =? 43) eqn:H43.
  - cbn [orb] in Hb. rewrite discard_mk. apply scan_core_bad, Hb.
  - destruct (hd 0 (tl l) =? 45) eqn:H45; cbn [orb] in Hb.
    + rewrite discard_mk. apply scan_core_bad, Hb.
    + apply scan_core_bad, Hb.
Qed.

Lemma scan_decimal_good : forall ds r o p d, digs ds -> ds <> [] -> nd r ->
  scan_decimal E (mkSt (46 :: ds ++ r) o p d) =
  if is_e (hd 0 r)
  then let* (ex, s2) := scan_exponent E (hd 0 r) (pkd r (o + S (length ds)) d) in Ok (46 :: ds ++ ex, s2)
  else Ok (46 :: ds, pkd r (o + S (length ds)) d).
Proof.
  intros ds r o p d Hd Hne Hr. unfold scan_decimal. rewrite discard_mk. cbn [tl rest]. cbv zeta.
  rewrite (span_app ds r Hd Hr), firstn_app_l, advance_mk, skipn_app_l, peek_or_null_mk. cbn [bind]. cbv beta iota.
  destruct ds as [|c0 ds0]; [exfalso; apply Hne; reflexivity|]. cbn [length Nat.eqb].
  replace (S o + S (length ds0))%nat with (o + S (S (length ds0)))%nat by lia. reflexivity.
Qed.

Lemma scan_decimal_bad : forall r o p d, nd r -> noOk (scan_decimal E (mkSt (46 :: r) o p d)).
Proof.
  intros r o p d Hr. unfold scan_decimal. rewrite discard_mk. cbn [tl rest]. cbv zeta.
  rewrite (span_nd r Hr), advance_mk, peek_or_null_mk. cbn [bind]. cbv beta iota. cbn [Nat.eqb].
  unfold pkd. rewrite peek_mk. cbn [bind]. cbv beta iota. destruct (hd_error (skipn 0 r)); apply noOk_err.
Qed.

Lemma scan_number_unfold : forall r o d,
  scan_number E (pkd r o d) =
  let c := hd 0 r in
  if c =? 46 then scan_decimal E (pkd r o d) else if is_e c then scan_exponent E c (pkd r o d) else Ok ([], pkd r o d).
Proof. intros r o d. unfold scan_number. rewrite peek_or_null_pkd. reflexivity. Qed.

Lemma scan_integer_good : forall int r o p d, int_ok int = true -> nd r ->
  scan_integer E (mkSt (int ++ r) o p d) =
  let* (t, s3) := scan_number E (pkd r (o + length int) d) in Ok (int ++ t, s3).
Proof.
  intros int r o p d Hint Hr. destruct (int_ok_inv int Hint) as [->|(c & ds & -> & Hc & Hd)].
  - unfold scan_integer. cbn [app]. rewrite scan_or_eof_cons. cbn [bind]. cbv beta iota. change (48 =? 48) with true. cbv iota.
    rewrite peek_or_null_mk. cbn [bind]. cbv beta iota. rewrite Hr. cbn [length].
    replace (o + 1)%nat with (S o) by lia. reflexivity.
  - destruct (digit19_digit c Hc) as (Hcd & Hc48).
    unfold scan_integer. cbn [app]. rewrite scan_or_eof_cons. cbn [bind]. cbv beta iota zeta. rewrite Hc48, Hc. cbn [rest].
    rewrite (span_app ds r Hd Hr), firstn_app_l, advance_mk, skipn_app_l, peek_or_null_mk. cbn [bind]. cbv beta iota.
    cbn [length]. replace (S o + length ds)%nat with (o + S (length ds))%nat by lia. reflexivity.
Qed.

Lemma scan_integer_noint : forall l o p d, nd l -> noOk (scan_integer E (mkSt l o p d)).
Proof.
  intros [|c l] o p d Hl; unfold scan_integer.
  - apply noOk_bind, scan_or_eof_nil.
  - rewrite scan_or_eof_cons. cbn [bind]. cbv beta iota. unfold nd in Hl. cbn [hd] in Hl.
    assert (H48 : (c =? 48) = false) by (unfold is_digit in Hl; lia).
    assert (H19 : is_digit19 c = false) by (unfold is_digit, is_digit19 in *; lia).
    rewrite H48, H19. apply noOk_err.
Qed.

Lemma scan_integer_lead0 : forall r o p d, is_digit (hd 0 r) = true -> noOk (scan_integer E (mkSt (48 :: r) o p d)).
Proof.
  intros r o p d Hr. unfold scan_integer. rewrite scan_or_eof_cons. cbn [bind]. cbv beta iota.
  change (48 =? 48) with true. cbv iota. rewrite peek_or_null_mk. cbn [bind]. cbv beta iota. rewrite Hr. apply noOk_err.
Qed.

(* ================= literals as lists ============================================================ *)
Definition fracl (f : option bytes) : bytes := match f with Some f => 46 :: f | None => [] end.
Definition expl (x : option (byte * option byte * bytes)) : bytes :=
  match x with Some (e, sg, ds) => e :: sgl sg ++ ds | None => [] end.
Lemma render_abs_eq : forall n, render_abs n = nint n ++ fracl (nfrac n) ++ expl (nexp n).
Proof. intros n. unfold render_abs, render_num. cbn [nneg nint nfrac nexp app]. destruct (nexp n) as [[[e sg] ds]|]; reflexivity. Qed.

Lemma digits_ok_inv : forall l, digits_ok l = true -> exists c1 ds, l = c1 :: ds /\ is_digit c1 = true /\ digs ds.
Proof.
  intros [|c1 ds] H; [discriminate H|]. cbn [digits_ok forallb] in H. apply andb_prop in H.
  exists c1, ds. split; [reflexivity|exact H].
Qed.

Definition frac_wf (f : option bytes) : Prop := match f with Some f => digs f /\ f <> [] | None => True end.
Definition exp_wf (x : option (byte * option byte * bytes)) : Prop :=
  match x with
  | Some (e, sg, ds) => is_e e = true /\ sg_ok sg /\ exists c1 ds', ds = c1 :: ds' /\ is_digit c1 = true /\ digs ds'
  | None => True
  end.

Lemma num_ok_inv : forall n, num_ok n = true -> int_ok (nint n) = true /\ frac_wf (nfrac n) /\ exp_wf (nexp n).
Proof.
  intros n H. unfold num_ok in H. apply andb_prop in H. destruct H as (H & Hx). apply andb_prop in H. destruct H as (Hi & Hf).
  split; [exact Hi|]. split.
  - destruct (nfrac n) as [f|]; cbn [frac_wf]; [|exact I].
    destruct (digits_ok_inv f Hf) as (c1 & ds & -> & Hc & Hd). split; [apply digs_cons; split; assumption|discriminate].
  - destruct (nexp n) as [[[e sg] ds]|]; cbn [exp_wf]; [|exact I].
    apply andb_prop in Hx. destruct Hx as (Hx & Hds). apply andb_prop in Hx. destruct Hx as (He & Hsg).
    split; [exact He|]. split; [destruct sg; [exact Hsg|exact I]|]. apply digits_ok_inv, Hds.
Qed.

Lemma num_ok_intro : forall b int f x, int_ok int = true -> frac_wf f -> exp_wf x -> num_ok (mkNum b int f x) = true.
Proof.
  intros b int f x Hi Hf Hx. unfold num_ok. cbn [nint nfrac nexp]. rewrite Hi. cbn [andb].
  assert (Hdo : forall l, digs l -> l <> [] -> digits_ok l = true).
  { intros [|c l] Hd Hne; [exfalso; apply Hne; reflexivity|exact Hd]. }
  apply andb_true_intro. split.
  - destruct f as [f|]; [|reflexivity]. destruct Hf as (Hd & Hne). apply Hdo; assumption.
  - destruct x as [[[e sg] ds]|]; [|reflexivity]. destruct Hx as (He & Hsg & c1 & ds' & -> & Hc1 & Hd').
    rewrite He. cbn [andb]. apply andb_true_intro. split.
    + destruct sg; [exact Hsg|reflexivity].
    + apply Hdo; [apply digs_cons; split; assumption|discriminate].
Qed.

(* the follow condition the parser itself establishes, on the peeked byte (0 at end of input) *)
Definition fw (n : numlit) (r : bytes) : Prop :=
  nd r /\ (nexp n = None -> is_e (hd 0 r) = false) /\ (nexp n = None -> nfrac n = None -> (hd 0 r =? 46) = false).

Lemma fw_nil : forall n, fw n [].
Proof. intros n. split; [reflexivity|]. split; intros; reflexivity. Qed.

(* inputs on which no number can be read *)
Inductive bad_num : bytes -> Prop :=
  | BN_noint : forall l, nd l -> bad_num l
  | BN_lead0 : forall r, is_digit (hd 0 r) = true -> bad_num (48 :: r)
  | BN_nofrac : forall int r, int_ok int = true -> nd r -> bad_num (int ++ 46 :: r)
  | BN_badexp1 : forall int r, int_ok int = true -> is_e (hd 0 r) = true -> exp_bad r -> bad_num (int ++ r)
  | BN_badexp2 : forall int ds r, int_ok int = true -> digs ds -> ds <> [] -> is_e (hd 0 r) = true -> exp_bad r ->
                 bad_num (int ++ 46 :: ds ++ r).

Lemma e_nd : forall r, is_e (hd 0 r) = true -> nd r.
Proof. intros r H. unfold nd, is_digit. lia. Qed.

Lemma int_split : forall l, nd l \/ (exists r, l = 48 :: r /\ is_digit (hd 0 r) = true)
                         \/ exists int r, l = int ++ r /\ int_ok int = true /\ nd r.
Proof.
  intros [|c l]; [left; reflexivity|].
  destruct (is_digit c) eqn:Hc; [|left; exact Hc]. right.
  destruct (N.eqb_spec c 48) as [->|Hne].
  - destruct (is_digit (hd 0 l)) eqn:Hl.
    + left. exists l. split; [reflexivity|exact Hl].
    + right. exists [48], l. repeat split. exact Hl.
  - right. destruct (digits_split l) as (ds & r & -> & Hd & Hr). exists (c :: ds), r. split; [reflexivity|]. split; [|exact Hr].
    rewrite int_ok_eq. apply N.eqb_neq in Hne. rewrite Hne. cbn [andb].
    apply andb_true_intro. split; [|exact Hd]. unfold is_digit, is_digit19 in *. lia.
Qed.

Lemma hd_eqb_cons : forall (r : bytes) c, c <> 0 -> (hd 0 r =? c) = true -> exists r', r = c :: r'.
Proof.
  intros [|x r] c Hc H; cbn [hd] in H; apply N.eqb_eq in H.
  - exfalso. apply Hc. symmetry. exact H.
  - subst x. exists r. reflexivity.
Qed.

Lemma num_shape_total : forall (b : bool) l,
  bad_num l \/ exists n r, nneg n = b /\ num_ok n = true /\ l = render_abs n ++ r /\ fw n r.
Proof.
  intros b l. destruct (int_split l) as [Hl|[(r & -> & Hr)|(int & r & -> & Hint & Hr)]].
  - left. apply BN_noint, Hl.
  - left. apply BN_lead0, Hr.
  - (* after the integer part *)
    assert (Hexp : forall r2, is_e (hd 0 r2) = true -> exp_bad r2 \/
              exists x r3, exp_wf (Some x) /\ r2 = expl (Some x) ++ r3 /\ nd r3).
    { intros r2 He. destruct (exp_shape r2 He) as [Hb|(e & sg & c1 & ds & r3 & -> & He' & Hsg & Hc1 & Hd & Hr3)]; [left; exact Hb|right].
      exists (e, sg, c1 :: ds), r3. split.
      - cbn [exp_wf]. split; [exact He'|]. split; [exact Hsg|]. exists c1, ds. repeat split; assumption.
      - split; [|exact Hr3]. cbn [expl app]. rewrite <- app_assoc. reflexivity. }
    destruct (hd 0 r =? 46) eqn:H46.
    + destruct (hd_eqb_cons r 46 ltac:(discriminate) H46) as (r1 & ->).
      destruct (digits_split r1) as (fs & r2 & -> & Hfs & Hr2).
      destruct fs as [|f0 fs].
      { left. apply BN_nofrac; assumption. }
      destruct (is_e (hd 0 r2)) eqn:He.
      * destruct (Hexp r2 He) as [Hb|(x & r3 & Hx & -> & Hr3)].
        { left. apply BN_badexp2; try assumption. discriminate. }
        right. exists (mkNum b int (Some (f0 :: fs)) (Some x)), r3. split; [reflexivity|]. split.
        { apply num_ok_intro; [exact Hint| |exact Hx]. split; [exact Hfs|discriminate]. }
        split.
        { rewrite render_abs_eq. cbn [nint nfrac nexp fracl]. repeat rewrite <- app_assoc. cbn [app]. repeat rewrite <- app_assoc. reflexivity. }
        split; [exact Hr3|]. cbn [nexp]. split; intros Hn; discriminate Hn.
      * right. exists (mkNum b int (Some (f0 :: fs)) None), r2. split; [reflexivity|]. split.
        { apply num_ok_intro; [exact Hint| |exact I]. split; [exact Hfs|discriminate]. }
        split.
        { rewrite render_abs_eq. cbn [nint nfrac nexp fracl expl]. rewrite app_nil_r. repeat rewrite <- app_assoc. reflexivity. }
        split; [exact Hr2|]. split; [intros _; exact He|]. cbn [nfrac]. intros _ Hn. discriminate Hn.
    + destruct (is_e (hd 0 r)) eqn:He.
      * destruct (Hexp r He) as [Hb|(x & r3 & Hx & -> & Hr3)].
        { left. apply BN_badexp1; assumption. }
        right. exists (mkNum b int None (Some x)), r3. split; [reflexivity|]. split.
        { apply num_ok_intro; [exact Hint|exact I|exact Hx]. }
        split.
        { rewrite render_abs_eq. cbn [nint nfrac nexp fracl app]. rewrite <- app_assoc. reflexivity. }
        split; [exact Hr3|]. cbn [nexp]. split; intros Hn; discriminate Hn.
      * right. exists (mkNum b int None None), r. split; [reflexivity|]. split.
        { apply num_ok_intro; [exact Hint|exact I|exact I]. }
        split.
        { rewrite render_abs_eq. cbn [nint nfrac nexp fracl expl app]. rewrite app_nil_r. reflexivity. }
        split; [exact Hr|]. split; intros; assumption.
Qed.

Lemma lit_app : forall n r, render_abs n ++ r = nint n ++ fracl (nfrac n) ++ expl (nexp n) ++ r.
Proof. intros n r. rewrite render_abs_eq. repeat rewrite <- app_assoc. reflexivity. Qed.
Lemma lit_len : forall n, length (render_abs n) = (length (nint n) + (length (fracl (nfrac n)) + length (expl (nexp n))))%nat.
Proof. intros n. rewrite render_abs_eq. repeat rewrite app_length. reflexivity. Qed.
Lemma fin_st : forall A (o : option A) r se se', fin o r se -> se = se' -> fin o r se'.
Proof. intros A o r se se' H <-. exact H. Qed.
Lemma pkd_off : forall r a b d, a = b -> pkd r a d = pkd r b d.
Proof. intros r a b d <-. reflexivity. Qed.
Lemma nd_dot : forall r, nd (46 :: r).
Proof. reflexivity. Qed.
Lemma nd_e : forall e r, is_e e = true -> nd (e :: r).
Proof. intros e r H. apply e_nd. exact H. Qed.

(* ================= a number recognizer =========================================================== *)
Definition recognizer (P : st -> res (pnum * st)) : Prop :=
  (forall n, num_ok n = true -> exists o, forall r off p d, fw n r ->
       fin o (P (mkSt (render_abs n ++ r) off p d)) (pkd r (off + length (render_abs n)) d))
  /\ (forall l off p d, bad_num l -> noOk (P (mkSt l off p d))).

Lemma parse_integer_recognizer : forall positive, recognizer (parse_integer E positive).
Proof.
  intros positive. split.
  - intros n Hok. destruct (num_ok_inv n Hok) as (Hint & Hf & Hx).
    destruct (parse_integer_good positive (nint n) Hint) as (k & Hk & Hrun1).
    destruct (nfrac n) as [f|] eqn:Hfr; destruct (nexp n) as [[[e sg] ds]|] eqn:Hex; cbn [frac_wf exp_wf] in Hf, Hx.
    + destruct Hf as (Hfd & Hfne). destruct Hx as (He & Hsg & c1 & ds' & -> & Hc1 & Hd').
      destruct (k1_dec positive k f Hk Hfd Hfne) as (k' & Hk' & Hrun2).
      destruct (k2_exp positive k' e sg c1 ds' Hk' He Hsg Hc1 Hd') as (o & Ho).
      exists (option_map PF64 o). intros r off p d (Hr & _ & _).
      rewrite lit_app, lit_len, Hfr, Hex. cbn [fracl expl app]. rewrite <- app_assoc. cbn [app].
      rewrite (Hrun1 _ off p d (nd_dot _)), (Hrun2 _ _ d (nd_e e _ He)).
      eapply fin_st; [apply fin_wrapF, Ho, Hr|]. apply pkd_off. cbn [length]. rewrite app_length. cbn [length]. lia.
    + destruct Hf as (Hfd & Hfne).
      destruct (k1_dec positive k f Hk Hfd Hfne) as (k' & Hk' & Hrun2).
      destruct (k2_fin positive k' Hk') as (o & Ho).
      exists (option_map PF64 o). intros r off p d (Hr & He & _). specialize (He Hex).
      rewrite lit_app, lit_len, Hfr, Hex. cbn [fracl expl app].
      rewrite (Hrun1 _ off p d (nd_dot _)), (Hrun2 _ _ d Hr).
      eapply fin_st; [apply fin_wrapF, Ho, He|]. apply pkd_off. cbn [length]. lia.
    + destruct Hx as (He & Hsg & c1 & ds' & -> & Hc1 & Hd').
      destruct (k2_exp positive (k2_of k) e sg c1 ds' (k2_of_ok k Hk) He Hsg Hc1 Hd') as (o & Ho).
      exists (option_map PF64 o). intros r off p d (Hr & _ & _).
      rewrite lit_app, lit_len, Hfr, Hex. cbn [fracl expl app]. rewrite <- app_assoc. cbn [app].
      rewrite (Hrun1 _ off p d (nd_e e _ He)), k1_exp by (cbn [hd]; exact He).
      eapply fin_st; [apply fin_wrapF, Ho, Hr|]. apply pkd_off. cbn [length]. rewrite app_length. cbn [length]. lia.
    + destruct (k1_fin positive k Hk) as (o & Ho).
      exists o. intros r off p d (Hr & He & H46). specialize (He Hex). specialize (H46 Hex Hfr).
      rewrite lit_app, lit_len, Hfr, Hex. cbn [fracl expl app].
      rewrite (Hrun1 _ off p d Hr).
      eapply fin_st; [apply Ho; assumption|]. apply pkd_off. cbn [length]. lia.
  - intros l off p d Hb. destruct Hb as [l Hl|r Hr|int r Hint Hr|int r Hint He Hb|int ds r Hint Hd Hne He Hb].
    + apply parse_integer_noint, Hl.
    + apply parse_integer_lead0, Hr.
    + destruct (parse_integer_good positive int Hint) as (k & Hk & Hrun1).
      rewrite (Hrun1 _ off p d (nd_dot _)). apply k1_dec_bad, Hr.
    + destruct (parse_integer_good positive int Hint) as (k & Hk & Hrun1).
      rewrite (Hrun1 _ off p d (e_nd _ He)), k1_exp by exact He. apply noOk_wrapF, k2_exp_bad; assumption.
    + destruct (parse_integer_good positive int Hint) as (k & Hk & Hrun1).
      destruct (k1_dec positive k ds Hk Hd Hne) as (k' & Hk' & Hrun2).
      rewrite (Hrun1 _ off p d (nd_dot _)), (Hrun2 _ _ d (e_nd _ He)). apply noOk_wrapF, k2_exp_bad; assumption.
Qed.

(* ---- arbitrary_precision ------------------------------------------------------------------------ *)
Definition ap_pnum (positive : bool) (buf : bytes) : pnum :=
  if all_digits buf then
    let v := digits_val buf 0 in
    if positive then (if (v <=? Z.of_N u64_max)%Z then PU64 (Z.to_N v) else PString buf)
    else (if (v <=? Z.of_N i64_min_abs)%Z && negb (v =? 0)%Z then PI64 (- v) else PString (45 :: buf))
  else PString (if positive then buf else 45 :: buf).

Lemma parse_any_number_ap : forall positive s, arbitrary_precision (cf E) = true ->
  parse_any_number E positive s = let* (buf, s1) := scan_integer E s in Ok (ap_pnum positive buf, s1).
Proof.
  intros positive s Hap. unfold parse_any_number. rewrite Hap.
  destruct (scan_integer E s) as [[buf s1]| | |]; try reflexivity. cbn [bind]. cbv beta iota. unfold ap_pnum.
  destruct (all_digits buf); [|reflexivity]. cbv zeta.
  destruct positive; [destruct (_ <=? _)%Z|destruct (_ && _)]; reflexivity.
Qed.

Lemma scan_integer_lit : forall n r off p d, num_ok n = true -> fw n r ->
  scan_integer E (mkSt (render_abs n ++ r) off p d) = Ok (render_abs n, pkd r (off + length (render_abs n)) d).
Proof.
  intros n r off p d Hok (Hr & Hfe & Hf46). destruct (num_ok_inv n Hok) as (Hint & Hf & Hx).
  rewrite lit_app, lit_len. rewrite (render_abs_eq n) at 1.
  destruct (nfrac n) as [f|] eqn:Hfr; destruct (nexp n) as [[[e sg] ds]|] eqn:Hex; cbn [frac_wf exp_wf] in Hf, Hx;
    cbn [fracl expl app].
  - destruct Hf as (Hfd & Hfne). destruct Hx as (He & Hsg & c1 & ds' & -> & Hc1 & Hd').
    rewrite <- app_assoc. cbn [app].
    rewrite (scan_integer_good _ _ off p d Hint (nd_dot _)), scan_number_unfold. cbv zeta. cbn [hd].
    change (46 =? 46) with true. cbv iota. unfold pkd at 1.
    rewrite (scan_decimal_good f _ _ _ d Hfd Hfne (nd_e e _ He)). cbn [hd]. rewrite He. unfold pkd at 1.
    rewrite (scan_exponent_good e e sg c1 ds' r _ _ d Hsg Hc1 Hd' Hr). cbn [bind]. cbv beta iota.
    do 2 f_equal. apply pkd_off. cbn [length]. rewrite app_length. cbn [length]. lia.
  - destruct Hf as (Hfd & Hfne). specialize (Hfe eq_refl).
    rewrite (scan_integer_good _ _ off p d Hint (nd_dot _)), scan_number_unfold. cbv zeta. cbn [hd].
    change (46 =? 46) with true. cbv iota. unfold pkd at 1.
    rewrite (scan_decimal_good f _ _ _ d Hfd Hfne Hr), Hfe. cbn [bind]. cbv beta iota. rewrite app_nil_r.
    do 2 f_equal. apply pkd_off. cbn [length]. lia.
  - destruct Hx as (He & Hsg & c1 & ds' & -> & Hc1 & Hd').
    rewrite <- app_assoc. cbn [app].
    rewrite (scan_integer_good _ _ off p d Hint (nd_e e _ He)), scan_number_unfold. cbv zeta. cbn [hd].
    rewrite (e_not_dot e He), He. unfold pkd at 1.
    rewrite (scan_exponent_good e e sg c1 ds' r _ _ d Hsg Hc1 Hd' Hr). cbn [bind]. cbv beta iota.
    do 2 f_equal. apply pkd_off. cbn [length]. rewrite app_length. cbn [length]. lia.
  - specialize (Hfe eq_refl). specialize (Hf46 eq_refl eq_refl).
    rewrite (scan_integer_good _ _ off p d Hint Hr), scan_number_unfold. cbv zeta. rewrite Hf46, Hfe. cbn [bind]. cbv beta iota.
    do 2 f_equal. apply pkd_off. cbn [length]. lia.
Qed.

Lemma scan_integer_bad : forall l off p d, bad_num l -> noOk (scan_integer E (mkSt l off p d)).
Proof.
  intros l off p d Hb. destruct Hb as [l Hl|r Hr|int r Hint Hr|int r Hint He Hb|int ds r Hint Hd Hne He Hb].
  - apply scan_integer_noint, Hl.
  - apply scan_integer_lead0, Hr.
  - rewrite (scan_integer_good _ _ off p d Hint (nd_dot _)). apply noOk_bind. rewrite scan_number_unfold. cbv zeta. cbn [hd].
    change (46 =? 46) with true. cbv iota. unfold pkd. apply scan_decimal_bad, Hr.
  - rewrite (scan_integer_good _ _ off p d Hint (e_nd _ He)). apply noOk_bind. rewrite scan_number_unfold. cbv zeta.
    rewrite (e_not_dot _ He), He. unfold pkd. apply scan_exponent_bad, Hb.
  - rewrite (scan_integer_good _ _ off p d Hint (nd_dot _)). apply noOk_bind. rewrite scan_number_unfold. cbv zeta. cbn [hd].
    change (46 =? 46) with true. cbv iota. unfold pkd at 1.
    rewrite (scan_decimal_good ds _ _ _ d Hd Hne (e_nd _ He)), He. apply noOk_bind. unfold pkd. apply scan_exponent_bad, Hb.
Qed.

Lemma parse_any_number_recognizer : forall positive, recognizer (parse_any_number E positive).
Proof.
  intros positive. destruct (arbitrary_precision (cf E)) eqn:Hap.
  - split.
    + intros n Hok. exists (Some (ap_pnum positive (render_abs n))). intros r off p d Hfw.
      rewrite (parse_any_number_ap positive _ Hap), (scan_integer_lit n r off p d Hok Hfw). reflexivity.
    + intros l off p d Hb. rewrite (parse_any_number_ap positive _ Hap). apply noOk_bind, scan_integer_bad, Hb.
  - assert (Heq : forall s, parse_any_number E positive s = parse_integer E positive s).
    { intros s. unfold parse_any_number. rewrite Hap. reflexivity. }
    destruct (parse_integer_recognizer positive) as (Hg & Hb). split.
    + intros n Hok. destruct (Hg n Hok) as (o & Ho). exists o. intros r off p d Hfw. rewrite Heq. apply Ho, Hfw.
    + intros l off p d Hbad. rewrite Heq. apply Hb, Hbad.
Qed.
End Run.

(* ================= itoa re-prints a canonical digit string ======================================= *)
Fixpoint nval (l : bytes) (acc : N) : N :=
  match l with [] => acc | c :: r => nval r (acc * 10 + digit_val c) end.

Lemma digits_val_nval : forall l acc, digits_val l (Z.of_N acc) = Z.of_N (nval l acc).
Proof.
  induction l as [|c l IH]; intros acc; cbn [digits_val nval]; [reflexivity|].
  rewrite <- IH. f_equal. lia.
Qed.

Lemma nval_app : forall l x acc, nval (l ++ [x]) acc = nval l acc * 10 + digit_val x.
Proof. induction l as [|c l IH]; intros x acc; cbn [app nval]; [reflexivity|]. apply IH. Qed.

Lemma nval_ge : forall l acc, acc * 10 ^ N.of_nat (length l) <= nval l acc.
Proof.
  induction l as [|c l IH]; intros acc; cbn [length nval].
  - change (N.of_nat 0) with 0. rewrite N.pow_0_r. lia.
  - rewrite Nat2N.inj_succ, N.pow_succ_r'. specialize (IH (acc * 10 + digit_val c)).
    set (P := 10 ^ N.of_nat (length l)) in *. nia.
Qed.

Lemma nval_canon_ge : forall c ds, is_digit19 c = true -> 10 ^ N.of_nat (length ds) <= nval (c :: ds) 0.
Proof.
  intros c ds Hc. cbn [nval]. pose proof (nval_ge ds (0 * 10 + digit_val c)) as H.
  assert (Hd : 1 <= 0 * 10 + digit_val c) by (unfold digit_val, is_digit19 in *; lia).
  set (P := 10 ^ N.of_nat (length ds)) in *. nia.
Qed.

Lemma dec_aux_canon : forall ds c fuel acc, is_digit19 c = true -> digs ds -> (length ds < fuel)%nat ->
  dec_digits_aux fuel (nval (c :: ds) 0) acc = (c :: ds) ++ acc.
Proof.
  induction ds as [|x ds IH] using rev_ind; intros c fuel acc Hc Hd Hlen.
  - destruct fuel as [|f]; [cbn [length] in Hlen; lia|]. cbn [nval dec_digits_aux app].
    assert (Hlt : (0 * 10 + digit_val c <? 10) = true) by (unfold digit_val, is_digit19 in *; lia).
    rewrite Hlt. f_equal. unfold digit_val, is_digit19 in *. lia.
  - apply digs_app in Hd. destruct Hd as (Hd & Hx). apply digs_cons in Hx. destruct Hx as (Hx & _).
    rewrite app_length in Hlen. cbn [length] in Hlen.
    destruct fuel as [|f]; [lia|].
    change (c :: ds ++ [x]) with ((c :: ds) ++ [x]). rewrite nval_app.
    pose proof (nval_canon_ge c ds Hc) as Hge.
    assert (H1 : 1 <= nval (c :: ds) 0).
    { eapply N.le_trans; [|exact Hge]. pose proof (N.pow_nonzero 10 (N.of_nat (length ds))). lia. }
    set (V := nval (c :: ds) 0) in *.
    assert (Hdx : digit_val x < 10 /\ 48 + digit_val x = x) by (unfold digit_val, is_digit in *; lia).
    destruct Hdx as (Hdx & Hx48).
    cbn [dec_digits_aux].
    assert (Hlt : (V * 10 + digit_val x <? 10) = false) by lia. rewrite Hlt.
    assert (Hdiv : (V * 10 + digit_val x) / 10 = V).
    { replace (V * 10 + digit_val x) with (digit_val x + V * 10) by lia. rewrite N.div_add by discriminate. rewrite N.div_small by exact Hdx. reflexivity. }
    assert (Hmod : (V * 10 + digit_val x) mod 10 = digit_val x).
    { replace (V * 10 + digit_val x) with (digit_val x + V * 10) by lia. rewrite N.mod_add by discriminate. apply N.mod_small, Hdx. }
    rewrite Hdiv, Hmod, Hx48. unfold V. rewrite (IH c f (x :: acc) Hc Hd) by lia.
    rewrite <- app_assoc. reflexivity.
Qed.

Lemma itoa_canon : forall int, int_ok int = true -> nval int 0 <= u64_max -> itoa (nval int 0) = int.
Proof.
  intros int Hint Hle. destruct (int_ok_inv int Hint) as [->|(c & ds & -> & Hc & Hd)]; [reflexivity|].
  unfold itoa. rewrite (dec_aux_canon ds c 40 [] Hc Hd); [apply app_nil_r|].
  pose proof (nval_canon_ge c ds Hc) as Hge.
  destruct (Nat.lt_ge_cases (length ds) 40) as [Hlt|Hge40]; [exact Hlt|exfalso].
  assert (Hp : 10 ^ 40 <= 10 ^ N.of_nat (length ds)) by (apply N.pow_le_mono_r; lia).
  assert (H40 : 10 ^ 40 = 10000000000000000000000000000000000000000) by reflexivity.
  rewrite H40 in Hp. unfold u64_max in Hle. lia.
Qed.

Definition ap_lit_of_pnum (positive : bool) (p : pnum) : list N :=
  match p with PU64 v => itoa v | PI64 z => 45 :: itoa (Z.to_N (- z)) | PString s => s | PF64 _ => [] end.

Lemma all_digits_lit : forall n, num_ok n = true -> all_digits (render_abs n) = true -> render_abs n = nint n.
Proof.
  intros n Hok Had. destruct (num_ok_inv n Hok) as (_ & _ & Hx). rewrite render_abs_eq in *.
  assert (Hall : forallb is_digit (nint n ++ fracl (nfrac n) ++ expl (nexp n)) = true).
  { unfold all_digits in Had. destruct (nint n ++ fracl (nfrac n) ++ expl (nexp n)); [discriminate Had|exact Had]. }
  rewrite !forallb_app in Hall. apply andb_prop in Hall. destruct Hall as (_ & Hall). apply andb_prop in Hall. destruct Hall as (Hf & He).
  destruct (nfrac n) as [f|]; [cbn [fracl forallb] in Hf; discriminate Hf|].
  destruct (nexp n) as [[[e sg] ds]|].
  - cbn [exp_wf] in Hx. destruct Hx as (Hee & _). cbn [expl forallb] in He. apply andb_prop in He. destruct He as (He & _).
    unfold is_digit in He. lia.
  - cbn [fracl expl]. rewrite !app_nil_r. reflexivity.
Qed.

Lemma ap_pnum_verbatim : forall positive n, num_ok n = true ->
  ap_lit_of_pnum positive (ap_pnum positive (render_abs n)) = (if positive then [] else [45]) ++ render_abs n.
Proof.
  intros positive n Hok. unfold ap_pnum. destruct (all_digits (render_abs n)) eqn:Had.
  - rewrite (all_digits_lit n Hok Had). destruct (num_ok_inv n Hok) as (Hint & _ & _). cbv zeta.
    change 0%Z with (Z.of_N 0). rewrite digits_val_nval.
    destruct positive.
    + destruct (Z.of_N (nval (nint n) 0) <=? Z.of_N u64_max)%Z eqn:Hle; cbn [ap_lit_of_pnum app]; [|reflexivity].
      rewrite N2Z.id. apply itoa_canon; [exact Hint|lia].
    + destruct ((Z.of_N (nval (nint n) 0) <=? Z.of_N i64_min_abs)%Z && negb (Z.of_N (nval (nint n) 0) =? Z.of_N 0)%Z) eqn:Hc;
        cbn [ap_lit_of_pnum app]; [|reflexivity].
      rewrite Z.opp_involutive, N2Z.id. f_equal. apply itoa_canon; [exact Hint|].
      apply andb_prop in Hc. destruct Hc as (Hc & _). unfold i64_min_abs, u64_max in *. lia.
  - destruct positive; reflexivity.
Qed.

(* ================= main theorems ================================================================== *)
(* what may follow a number inside a JSON text: end of input or a byte that cannot continue ANY number token *)
Definition num_follow (rst : list N) : Prop :=
  match rst with [] => True
  | c :: _ => is_digit c = false /\ c <> 46%N /\ c <> 101%N /\ c <> 69%N /\ c <> 43%N /\ c <> 45%N end.
(* what the parser itself guarantees about the byte after the literal [n] (and all it needs) *)
Definition num_follow_weak (n : numlit) (rst : list N) : Prop :=
  match rst with [] => True
  | c :: _ => is_digit c = false
              /\ (nexp n = None -> c <> 101%N /\ c <> 69%N)
              /\ (nexp n = None -> nfrac n = None -> c <> 46%N) end.
Definition st_end (lit rst : list N) (off : nat) (d : N) : st :=
  mkSt rst (off + length lit) (match rst with [] => false | _ :: _ => true end) d.

Lemma fw_iff : forall n r, fw n r <-> num_follow_weak n r.
Proof.
  intros n [|c r]; unfold fw, nd, num_follow_weak; cbn [hd].
  - split; [intros _; exact I|intros _]. repeat split.
  - split.
    + intros (Hd & He & H46). split; [exact Hd|]. split.
      * intros Hx. specialize (He Hx). lia.
      * intros Hx Hf. specialize (H46 Hx Hf). lia.
    + intros (Hd & He & H46). split; [exact Hd|]. split.
      * intros Hx. specialize (He Hx). lia.
      * intros Hx Hf. specialize (H46 Hx Hf). lia.
Qed.

Lemma num_follow_weaken : forall n r, num_follow r -> num_follow_weak n r.
Proof.
  intros n [|c r]; [intros _; exact I|]. cbn [num_follow num_follow_weak].
  intros (Hd & H46 & H101 & H69 & _). split; [exact Hd|]. split; intros; [split|]; assumption.
Qed.

Theorem number_local_weak : forall E positive n rst off pk d,
  tm E = TEof -> num_ok n = true -> num_follow_weak n rst ->
  match parse_any_number E positive (init_st (render_abs n)) with
  | Ok (p, _) => parse_any_number E positive (mkSt (render_abs n ++ rst) off pk d) = Ok (p, st_end (render_abs n) rst off d)
  | Err c _ => c = NumberOutOfRange /\ exists i, parse_any_number E positive (mkSt (render_abs n ++ rst) off pk d) = Err NumberOutOfRange i
  | OutOfFuel | Panic => False
  end.
Proof.
  intros E positive n rst off pk d HE Hok Hfw.
  destruct (parse_any_number_recognizer E HE positive) as (Hg & _). destruct (Hg n Hok) as (o & Ho).
  pose proof (Ho [] 0%nat false DEPTH0 (fw_nil n)) as Hiso. rewrite app_nil_r in Hiso.
  change (mkSt (render_abs n) 0 false DEPTH0) with (init_st (render_abs n)) in Hiso.
  pose proof (Ho rst off pk d (proj2 (fw_iff n rst) Hfw)) as Hemb.
  destruct o as [p|]; cbn [fin] in Hiso, Hemb.
  - rewrite Hiso. exact Hemb.
  - destruct Hiso as [i ->]. split; [reflexivity|exact Hemb].
Qed.

Theorem number_local : forall E positive n rst off pk d,
  tm E = TEof -> num_ok n = true -> num_follow rst ->
  match parse_any_number E positive (init_st (render_abs n)) with
  | Ok (p, _) => parse_any_number E positive (mkSt (render_abs n ++ rst) off pk d) = Ok (p, st_end (render_abs n) rst off d)
  | Err c _ => c = NumberOutOfRange /\ exists i, parse_any_number E positive (mkSt (render_abs n ++ rst) off pk d) = Err NumberOutOfRange i
  | OutOfFuel | Panic => False
  end.
Proof.
  intros E positive n rst off pk d HE Hok Hf. apply number_local_weak; [exact HE|exact Hok|]. apply num_follow_weaken, Hf.
Qed.

Theorem number_ap_verbatim : forall E positive n, tm E = TEof -> arbitrary_precision (cf E) = true -> num_ok n = true ->
  exists p s', parse_any_number E positive (init_st (render_abs n)) = Ok (p, s')
     /\ ap_lit_of_pnum positive p = (if positive then [] else [45%N]) ++ render_abs n.
Proof.
  intros E positive n HE Hap Hok.
  pose proof (scan_integer_lit E HE n [] 0%nat false DEPTH0 Hok (fw_nil n)) as Hs. rewrite app_nil_r in Hs.
  exists (ap_pnum positive (render_abs n)). eexists. split.
  - rewrite (parse_any_number_ap E positive _ Hap). unfold init_st. rewrite Hs. reflexivity.
  - apply ap_pnum_verbatim, Hok.
Qed.

Theorem number_sound : forall E positive s0 p s1,
  tm E = TEof -> parse_any_number E positive s0 = Ok (p, s1) ->
  exists n, num_ok n = true /\ nneg n = negb positive
        /\ rest s0 = render_abs n ++ rest s1 /\ num_follow_weak n (rest s1)
        /\ off s1 = (off s0 + length (render_abs n))%nat /\ depth s1 = depth s0
        /\ pk s1 = (match rest s1 with [] => false | _ => true end)
        /\ exists s', parse_any_number E positive (init_st (render_abs n)) = Ok (p, s').
Proof.
  intros E positive [l off0 pk0 d0] p s1 HE Hrun.
  destruct (parse_any_number_recognizer E HE positive) as (Hg & Hb).
  destruct (num_shape_total (negb positive) l) as [Hbad|(n & r & Hneg & Hok & -> & Hfw)].
  - exfalso. exact (Hb l off0 pk0 d0 Hbad _ Hrun).
  - destruct (Hg n Hok) as (o & Ho). pose proof (Ho r off0 pk0 d0 Hfw) as Hemb.
    destruct o as [p'|]; cbn [fin] in Hemb.
    + rewrite Hemb in Hrun. injection Hrun as <- <-. exists n. cbn [rest off pk depth pkd].
      split; [exact Hok|]. split; [exact Hneg|]. split; [reflexivity|]. split; [apply fw_iff, Hfw|].
      split; [reflexivity|]. split; [reflexivity|]. split; [destruct r; reflexivity|].
      pose proof (Ho [] 0%nat false DEPTH0 (fw_nil n)) as Hiso. rewrite app_nil_r in Hiso. cbn [fin] in Hiso.
      eexists. exact Hiso.
    + destruct Hemb as [i Hi]. rewrite Hi in Hrun. discriminate Hrun.
Qed.

(* the two facts in the shape in which the grammar theorems of the whole parser consume them *)
Corollary number_local_ok : forall E positive n rst off pk d,
  tm E = TEof -> num_ok n = true -> num_follow rst ->
  forall p s', parse_any_number E positive (init_st (render_abs n)) = Ok (p, s') ->
  parse_any_number E positive (mkSt (render_abs n ++ rst) off pk d) = Ok (p, st_end (render_abs n) rst off d).
Proof.
  intros E positive n rst off pk d HE Hok Hf p s' Hiso.
  pose proof (number_local E positive n rst off pk d HE Hok Hf) as H. rewrite Hiso in H. exact H.
Qed.

Corollary number_sound_plain : forall E positive s0 p s1,
  tm E = TEof -> parse_any_number E positive s0 = Ok (p, s1) ->
  exists n, num_ok n = true /\ nneg n = negb positive /\ rest s0 = render_abs n ++ rest s1
        /\ off s1 = (off s0 + length (render_abs n))%nat /\ depth s1 = depth s0
        /\ pk s1 = (match rest s1 with [] => false | _ => true end)
        /\ exists s', parse_any_number E positive (init_st (render_abs n)) = Ok (p, s').
Proof.
  intros E positive s0 p s1 HE Hrun.
  destruct (number_sound E positive s0 p s1 HE Hrun) as (n & H1 & H2 & H3 & _ & H5 & H6 & H7 & H8).
  exists n. repeat split; assumption.
Qed.

Print Assumptions number_local_weak.
Print Assumptions number_local.
Print Assumptions number_ap_verbatim.
Print Assumptions number_sound.
