(* Proofs/StrEscapeBytes.v — string literals deserialised as bytes (Read::parse_str_raw, validate = false).

   Specification: [str_decode_wtf8] — the decoding of Spec/Syntax.v (str_decode) made total:
     * an unescaped byte stands for itself — every byte except quote and backslash, including control characters
       and bytes that are not UTF-8 (piece_ok_raw);
     * a \uXXXX surrogate that is not part of a high+low pair is encoded in the generalized 3-byte form (WTF-8):
       utf8_encode applied to the surrogate code point.
   Results:
     str_decode_wtf8_text      where the text decoding is defined, the bytes decoding agrees with it
     parse_str_raw_complete    every lexically well-formed literal parses to exactly str_decode_wtf8 of it
                               (slice / str input; reader input by StrRefine.parse_str_raw_io_slice) *)
From Coq Require Import List NArith ZArith Bool Arith Lia ZifyBool ZifyNat ZifyN.
From SJ Require Import Base.Bytes Base.Utf8 Gen.Tables Model.Read Model.Str Spec.Syntax.
From SJ Require Import Proofs.StrRefine Proofs.GrammarStr Proofs.StrEscapeReject.
Import ListNotations.
Open Scope N_scope.

Local Notation SE cf := (mkEnv RSlice TEof cf).
Local Notation render s := (flat_map render_piece s).

(* ===== specification ===== *)
Definition piece_ok_raw (p : strpiece) : bool :=
  match p with
  | PRaw b => negb (b =? 34) && negb (b =? 92) && (b <? 256)
  | _ => piece_ok p
  end.
Definition str_ok_raw (s : list strpiece) : bool := forallb piece_ok_raw s.

Fixpoint str_decode_wtf8 (s : list strpiece) : bytes :=
  match s with
  | [] => []
  | PRaw b :: r => b :: str_decode_wtf8 r
  | PEsc c :: r => esc_val c :: str_decode_wtf8 r
  | PU4 a b c d :: r =>
    let n := u4_val a b c d in
    if is_hi_surr n then
      match r with
      | PU4 a' b' c' d' :: r' =>
        let n2 := u4_val a' b' c' d' in
        if is_lo_surr n2 then utf8_encode (pair_cp n n2) ++ str_decode_wtf8 r'
        else utf8_encode n ++ str_decode_wtf8 r
      | _ => utf8_encode n ++ str_decode_wtf8 r
      end
    else utf8_encode n ++ str_decode_wtf8 r
  end.

(* decoding of a \u escape of value [n] followed by the pieces [r] *)
Definition wdec (n : N) (r : list strpiece) : bytes :=
  if is_hi_surr n then
    match r with
    | PU4 a' b' c' d' :: r' =>
      let n2 := u4_val a' b' c' d' in
      if is_lo_surr n2 then utf8_encode (pair_cp n n2) ++ str_decode_wtf8 r'
      else utf8_encode n ++ str_decode_wtf8 r
    | _ => utf8_encode n ++ str_decode_wtf8 r
    end
  else utf8_encode n ++ str_decode_wtf8 r.

Lemma wtf8_u4 : forall a b c d r, str_decode_wtf8 (PU4 a b c d :: r) = wdec (u4_val a b c d) r.
Proof. intros. destruct r as [|[x|x|a' b' c' d'] r']; reflexivity. Qed.

Lemma str_ok_raw_of_ok : forall s, str_ok s = true -> str_ok_raw s = true.
Proof.
  induction s as [|p r IH]; intros H; [reflexivity|].
  unfold str_ok in H. cbn [forallb] in H. apply andb_true_iff in H. destruct H as [Hp Hr].
  unfold str_ok_raw. cbn [forallb]. fold (str_ok_raw r). rewrite (IH Hr), andb_true_r.
  destruct p as [x|x|a b c d]; cbn [piece_ok piece_ok_raw] in *; lia.
Qed.

(* the bytes decoding extends the text decoding *)
Theorem str_decode_wtf8_text : forall n s, (length s <= n)%nat -> forall b,
  str_decode s = Some b -> str_decode_wtf8 s = b.
Proof.
  induction n as [|n IH]; intros s Hlen b H.
  { destruct s; [|cbn [length] in Hlen; lia]. injection H as <-. reflexivity. }
  destruct s as [|[x|x|a b0 c d] r]; cbn [length] in Hlen.
  - injection H as <-. reflexivity.
  - rewrite str_decode_raw in H. apply str_decode_cons_some in H. destruct H as (b' & H' & ->).
    cbn [str_decode_wtf8]. rewrite (IH r ltac:(lia) b' H'). reflexivity.
  - rewrite str_decode_esc in H. apply str_decode_cons_some in H. destruct H as (b' & H' & ->).
    cbn [str_decode_wtf8]. rewrite (IH r ltac:(lia) b' H'). reflexivity.
  - rewrite str_decode_u4 in H. cbv zeta in H. rewrite wtf8_u4. unfold wdec.
    destruct (is_lo_surr (u4_val a b0 c d)) eqn:Hlo; [discriminate H|].
    destruct (is_hi_surr (u4_val a b0 c d)) eqn:Hhi.
    + destruct r as [|[x|x|a' b' c' d'] r']; try discriminate H. cbv zeta.
      destruct (is_lo_surr (u4_val a' b' c' d')) eqn:Hlo2; [|discriminate H].
      apply str_decode_cons_some in H. destruct H as (b2 & H' & ->). cbn [length] in Hlen.
      rewrite (IH r' ltac:(lia) b2 H'). reflexivity.
    + apply str_decode_cons_some in H. destruct H as (b2 & H' & ->).
      rewrite (IH r ltac:(lia) b2 H'). reflexivity.
Qed.

(* ===== the WTF-8 encoder ===== *)
Lemma push_wtf8_any : forall n, n <= 1114111 -> push_wtf8 n = Ok (utf8_encode n).
Proof.
  intros n Hs. unfold push_wtf8, utf8_encode.
  destruct (N.ltb_spec n 128) as [H1|H1]; [reflexivity|].
  destruct (N.leb_spec n 2047) as [H2|H2].
  { destruct (N.ltb_spec n 2048) as [_|H2']; [|lia].
    change 31 with (N.ones 5). rewrite land_ones_small; [reflexivity|].
    rewrite N.shiftr_div_pow2. change (2 ^ 6) with 64. change (2 ^ 5) with 32.
    apply N.div_lt_upper_bound; lia. }
  destruct (N.ltb_spec n 2048) as [H2'|_]; [lia|].
  destruct (N.leb_spec n 65535) as [H3|H3].
  { destruct (N.ltb_spec n 65536) as [_|H3']; [|lia].
    change 15 with (N.ones 4). rewrite land_ones_small; [reflexivity|].
    rewrite N.shiftr_div_pow2. change (2 ^ 12) with 4096. change (2 ^ 4) with 16.
    apply N.div_lt_upper_bound; lia. }
  destruct (N.ltb_spec n 65536) as [H3'|_]; [lia|].
  destruct (N.leb_spec n 1114111) as [H4|H4]; [|lia].
  change 7 with (N.ones 3). rewrite land_ones_small; [reflexivity|].
  rewrite N.shiftr_div_pow2. change (2 ^ 18) with 262144. change (2 ^ 3) with 8.
  apply N.div_lt_upper_bound; lia.
Qed.

(* a lone surrogate comes out as ED A0..BF 80..BF *)
Example wtf8_d800 : utf8_encode 55296 = [237; 160; 128]. Proof. reflexivity. Qed.
Example wtf8_dfff : utf8_encode 57343 = [237; 191; 191]. Proof. reflexivity. Qed.

(* ===== the scanner in raw mode ===== *)
Lemma is_escape_raw : forall x, negb (x =? 34) && negb (x =? 92) && (x <? 256) = true -> is_escape x false = false.
Proof. intros x H. rewrite is_escape_spec. lia. Qed.

Lemma raw_quote : forall f cf rst o p d,
  slice_str_loop (S f) (SE cf) false (mkSt (34 :: rst) o p d) = Ok ([], false, mkSt rst (S o) false d).
Proof. intros. rewrite slice_str_special by reflexivity. reflexivity. Qed.

Lemma raw_bslash : forall f cf tl o p d,
  slice_str_loop (S f) (SE cf) false (mkSt (92 :: tl) o p d) =
    let* (w, s2) := parse_escape f (SE cf) false (mkSt tl (S o) false d) in
    let* (out, _, s3) := slice_str_loop f (SE cf) false s2 in Ok (w ++ out, true, s3).
Proof. intros. rewrite slice_str_special by reflexivity. reflexivity. Qed.

Lemma parse_escape_simple_raw : forall f cf c r o p d,
  esc_letter c = true ->
  parse_escape f (SE cf) false (mkSt (c :: r) o p d) = Ok ([esc_val c], mkSt r (S o) false d).
Proof.
  intros f cf c r o p d Hc. rewrite parse_escape_cons, (esc_letter_not_u c Hc), escape_simple_spec, Hc.
  reflexivity.
Qed.

(* what the unicode loop consumes and produces after a \u escape of value n, in raw mode *)
Definition uspec (cf : cfg) (fuel : nat) (n : N) (r : list strpiece) (rst : bytes) (o : nat) (d : N) : Prop :=
  exists w r' o' p',
    unicode_loop fuel (SE cf) false n (mkSt (render r ++ 34 :: rst) o false d)
      = Ok (w, mkSt (render r' ++ 34 :: rst) o' p' d)
    /\ wdec n r = w ++ str_decode_wtf8 r'
    /\ str_ok_raw r' = true /\ (length r' <= length r)%nat
    /\ (o' + length (render r') = o + length (render r))%nat.

Lemma hi_range : forall n, is_hi_surr n = true -> (n <? 55296) || (56319 <? n) = false.
Proof. intros n H. unfold is_hi_surr in H. lia. Qed.
Lemma nothi_range : forall n, is_hi_surr n = false -> (n <? 55296) || (56319 <? n) = true.
Proof. intros n H. unfold is_hi_surr in H. lia. Qed.

Ltac split5 := split; [|split; [|split; [|split]]].

Lemma uloop_raw : forall cf k r, (length r <= k)%nat -> forall fuel n rst o d,
  str_ok_raw r = true -> (length r < fuel)%nat -> n <= 65535 ->
  uspec cf fuel n r rst o d.
Proof.
  intros cf k. induction k as [|k IH]; intros r Hlen fuel n rst o d Hok Hfuel Hn;
    (destruct fuel as [|f]; [lia|]).
  - destruct r; [|cbn [length] in Hlen; lia].
    unfold uspec. rewrite unicode_loop_S. unfold wdec.
    destruct (is_hi_surr n) eqn:Hhi.
    + rewrite (hi_range n Hhi). cbn [flat_map app].
      unfold peek_or_eof, peek. cbn [rest off depth bind]. change (34 =? 92) with false. cbv iota.
      rewrite push_wtf8_any by lia. cbn [bind].
      exists (utf8_encode n), [], o, true. split5; [reflexivity|reflexivity|reflexivity|cbn [length]; lia|cbn [length flat_map render_piece app]; lia].
    + rewrite (nothi_range n Hhi), push_wtf8_any by lia. cbn [bind].
      exists (utf8_encode n), [], o, false. split5; [reflexivity|reflexivity|reflexivity|cbn [length]; lia|cbn [length flat_map render_piece app]; lia].
  - unfold uspec. rewrite unicode_loop_S. unfold wdec.
    destruct (is_hi_surr n) eqn:Hhi.
    2:{ rewrite (nothi_range n Hhi), push_wtf8_any by lia. cbn [bind].
        exists (utf8_encode n), r, o, false. split5; [reflexivity|reflexivity|exact Hok|cbn [length]; lia|cbn [length flat_map render_piece app]; lia]. }
    rewrite (hi_range n Hhi).
    destruct r as [|pc r2].
    { cbn [flat_map app].
      unfold peek_or_eof, peek. cbn [rest off depth bind]. change (34 =? 92) with false. cbv iota.
      rewrite push_wtf8_any by lia. cbn [bind].
      exists (utf8_encode n), [], o, true. split5; [reflexivity|reflexivity|reflexivity|cbn [length]; lia|cbn [length flat_map render_piece app]; lia]. }
    pose proof Hok as Hok0.
    unfold str_ok_raw in Hok. cbn [forallb] in Hok. apply andb_true_iff in Hok. destruct Hok as [Hpc Hr2].
    fold (str_ok_raw r2) in Hr2. cbn [length] in Hlen, Hfuel.
    destruct pc as [x|c|a' b' c' d'].
    + (* an unescaped byte follows *)
      cbn [piece_ok_raw] in Hpc. cbn [flat_map render_piece app].
      unfold peek_or_eof, peek. cbn [rest off depth bind]. replace (x =? 92) with false by lia. cbv iota.
      rewrite push_wtf8_any by lia. cbn [bind].
      exists (utf8_encode n), (PRaw x :: r2), o, true. split5; [reflexivity|reflexivity|exact Hok0|cbn [length]; lia|cbn [length flat_map render_piece app]; lia].
    + (* a one-letter escape follows: consumed here *)
      cbn [piece_ok_raw piece_ok] in Hpc. cbn [flat_map render_piece app].
      unfold peek_or_eof, peek, discard. cbn [rest off depth bind tl]. change (92 =? 92) with true. cbv iota.
      rewrite (esc_letter_not_u c Hpc). rewrite push_wtf8_any by lia. cbn [bind].
      unfold parse_escape_nonu, next_or_eof, next. cbn [rest off depth bind].
      rewrite escape_simple_spec, Hpc. cbn [bind].
      exists (utf8_encode n ++ [esc_val c]), r2, (S (S o)), false.
      split5; [reflexivity| |exact Hr2|cbn [length]; lia|cbn [length flat_map render_piece app]; lia].
      cbn [str_decode_wtf8]. rewrite <- app_assoc. reflexivity.
    + (* another \u escape follows *)
      cbn [piece_ok_raw piece_ok] in Hpc. fold (hex4 a' b' c' d') in Hpc. cbn [flat_map render_piece app].
      unfold peek_or_eof, peek, discard. cbn [rest off depth bind tl].
      change (92 =? 92) with true. change (117 =? 117) with true. cbv iota.
      rewrite decode_hex_escape_slice, decode_four_hex_spec_gen. fold (hex4 a' b' c' d'). rewrite Hpc. cbn [bind].
      pose proof (u4_val_lt a' b' c' d' Hpc) as Hlt2. cbv zeta.
      destruct (is_lo_surr (u4_val a' b' c' d')) eqn:Hlo2.
      * replace ((u4_val a' b' c' d' <? 56320) || (57343 <? u4_val a' b' c' d')) with false
          by (unfold is_lo_surr in Hlo2; lia).
        rewrite pair_cp_lor by exact Hlo2.
        rewrite push_wtf8_any
          by (pose proof (pair_cp_scalar n _ Hhi Hlo2) as Hs; unfold is_scalar in Hs; lia).
        cbn [bind].
        exists (utf8_encode (pair_cp n (u4_val a' b' c' d'))), r2, (S (S o) + 4)%nat, false.
        split5; [reflexivity|reflexivity|exact Hr2|cbn [length]; lia|cbn [length flat_map render_piece app]; lia].
      * replace ((u4_val a' b' c' d' <? 56320) || (57343 <? u4_val a' b' c' d')) with true
          by (unfold is_lo_surr in Hlo2; lia).
        rewrite push_wtf8_any by lia. cbn [bind].
        destruct (IH r2 ltac:(lia) f (u4_val a' b' c' d') rst (S (S o) + 4)%nat d Hr2 ltac:(lia) ltac:(lia))
          as (w2 & r' & o' & p' & Hrun & Hdec & Hok' & Hlen' & Hoff').
        rewrite Hrun. cbn [bind].
        exists (utf8_encode n ++ w2), r', o', p'.
        split5; [reflexivity| |exact Hok'|cbn [length]; lia|cbn [length flat_map render_piece app]; lia].
        rewrite wtf8_u4, Hdec, app_assoc. reflexivity.
Qed.

Lemma parse_escape_u_raw : forall f cf a b c d r o p dp,
  hex4 a b c d = true ->
  parse_escape f (SE cf) false (mkSt (117 :: a :: b :: c :: d :: r) o p dp) =
    unicode_loop f (SE cf) false (u4_val a b c d) (mkSt r (S o + 4) false dp).
Proof. intros. rewrite parse_escape_u by assumption. reflexivity. Qed.

Lemma raw_loop_spec : forall cf n s, (length s <= n)%nat -> forall fuel rst o p d,
  str_ok_raw s = true -> (length s < fuel)%nat ->
  slice_str_loop fuel (SE cf) false (mkSt (render s ++ 34 :: rst) o p d)
  = Ok (str_decode_wtf8 s, negb (forallb is_raw s), mkSt rst (o + length (render s) + 1) false d).
Proof.
  intros cf n. induction n as [|n IH]; intros s Hlen fuel rst o p d Hok Hfuel;
    (destruct fuel as [|f]; [lia|]).
  { destruct s; [|cbn [length] in Hlen; lia]. cbn [flat_map app]. rewrite raw_quote.
    cbn [str_decode_wtf8 forallb negb length]. do 2 f_equal. apply st_eq. lia. }
  destruct s as [|pc r].
  { cbn [flat_map app]. rewrite raw_quote.
    cbn [str_decode_wtf8 forallb negb length]. do 2 f_equal. apply st_eq. lia. }
  cbn [length] in Hlen, Hfuel. unfold str_ok_raw in Hok. cbn [forallb] in Hok.
  apply andb_true_iff in Hok. destruct Hok as [Hpc Hr]. fold (str_ok_raw r) in Hr.
  destruct pc as [x|c|a b c d0].
  - cbn [piece_ok_raw] in Hpc. cbn [flat_map render_piece app].
    rewrite (slice_str_push _ false f x _ o p false d (is_escape_raw x Hpc)).
    rewrite (IH r ltac:(lia) (S f) rst (S o) false d Hr ltac:(lia)). cbn [bind].
    cbn [str_decode_wtf8 forallb is_raw andb length]. do 2 f_equal. apply st_eq. lia.
  - cbn [piece_ok_raw piece_ok] in Hpc. cbn [flat_map render_piece app].
    rewrite raw_bslash, parse_escape_simple_raw by exact Hpc. cbn [bind].
    rewrite (IH r ltac:(lia) f rst (S (S o)) false d Hr ltac:(lia)). cbn [bind].
    cbn [str_decode_wtf8 forallb is_raw andb negb length app]. do 2 f_equal. apply st_eq. lia.
  - cbn [piece_ok_raw piece_ok] in Hpc. fold (hex4 a b c d0) in Hpc. cbn [flat_map render_piece app].
    rewrite raw_bslash, parse_escape_u_raw by exact Hpc.
    pose proof (u4_val_lt a b c d0 Hpc) as Hlt.
    destruct (uloop_raw cf (length r) r (Nat.le_refl _) f (u4_val a b c d0) rst (S (S o) + 4)%nat d Hr ltac:(lia) ltac:(lia))
      as (w & r' & o' & p' & Hrun & Hdec & Hok' & Hlen' & Hoff').
    rewrite Hrun. cbn [bind].
    rewrite (IH r' ltac:(lia) f rst o' p' d Hok' ltac:(lia)). cbn [bind].
    rewrite wtf8_u4, Hdec. cbn [forallb is_raw andb negb length app]. do 2 f_equal. apply st_eq. lia.
Qed.

(* ===== C05_bytes ===== *)
Theorem parse_str_raw_complete : forall cf s rst off pk d,
  str_ok_raw s = true ->
  parse_str_raw (mkEnv RSlice TEof cf) (mkSt (render s ++ 34 :: rst) off pk d)
  = Ok (str_decode_wtf8 s, forallb (fun p => match p with PRaw _ => true | _ => false end) s,
        mkSt rst (off + length (render s) + 1) false d).
Proof.
  intros cf s rst o p d Hok. unfold parse_str_raw. cbn [rk].
  rewrite (raw_loop_spec cf (length s) s (Nat.le_refl _) _ rst o p d Hok (str_fuel_enough s rst o p d)).
  cbn [bind]. rewrite negb_involutive. reflexivity.
Qed.

Theorem parse_str_raw_complete_str : forall cf s rst off pk d,
  str_ok_raw s = true ->
  parse_str_raw (mkEnv RStr TEof cf) (mkSt (render s ++ 34 :: rst) off pk d)
  = Ok (str_decode_wtf8 s, forallb (fun p => match p with PRaw _ => true | _ => false end) s,
        mkSt rst (off + length (render s) + 1) false d).
Proof.
  intros cf s rst o p d Hok. rewrite <- (parse_str_raw_complete cf s rst o p d Hok).
  unfold parse_str_raw. cbn [rk]. rewrite slice_loop_str_slice. reflexivity.
Qed.

Theorem parse_str_raw_complete_io : forall cf s rst off pk d,
  str_ok_raw s = true ->
  parse_str_raw (mkEnv RIo TEof cf) (mkSt (render s ++ 34 :: rst) off pk d)
  = Ok (str_decode_wtf8 s, false, mkSt rst (off + length (render s) + 1) false d).
Proof.
  intros cf s rst o p d Hok.
  pose proof (parse_str_raw_io_slice cf (mkSt (render s ++ 34 :: rst) o p d)) as H.
  rewrite (parse_str_raw_complete cf s rst o p d Hok) in H. cbn [drop_flag] in H.
  unfold parse_str_raw in H |- *. cbn [rk] in H |- *.
  destruct (io_str_loop _ _ false _) as [[out s1]|c i| |]; cbn [bind drop_flag] in H |- *; try discriminate H.
  injection H as -> ->. reflexivity.
Qed.

(* text literals: the bytes decoding of a literal with RFC text is that text *)
Corollary parse_str_raw_text : forall cf s b rst off pk d,
  str_ok s = true -> str_decode s = Some b ->
  parse_str_raw (mkEnv RSlice TEof cf) (mkSt (render s ++ 34 :: rst) off pk d)
  = Ok (b, forallb (fun p => match p with PRaw _ => true | _ => false end) s,
        mkSt rst (off + length (render s) + 1) false d).
Proof.
  intros cf s b rst o p d Hok Hdec.
  rewrite (parse_str_raw_complete cf s rst o p d (str_ok_raw_of_ok s Hok)).
  rewrite (str_decode_wtf8_text (length s) s (Nat.le_refl _) b Hdec). reflexivity.
Qed.

(* ===== soundness: whatever parse_str_raw accepts is a lexically well-formed literal, decoded by str_decode_wtf8 ===== *)
Lemma wtf8_raw_app : forall chunk s, str_decode_wtf8 (map PRaw chunk ++ s) = chunk ++ str_decode_wtf8 s.
Proof. induction chunk as [|x r IH]; intros s; [reflexivity|]. cbn [map app str_decode_wtf8]. rewrite IH. reflexivity. Qed.

Lemma str_ok_raw_chunk : forall chunk,
  Forall (fun x => x < 256) chunk -> forallb (fun b => negb (is_escape b false)) chunk = true ->
  str_ok_raw (map PRaw chunk) = true.
Proof.
  induction chunk as [|b r IH]; intros HF Hall; [reflexivity|].
  inversion HF as [|? ? Hb HF']; subst. cbn [forallb] in Hall.
  apply andb_true_iff in Hall. destruct Hall as [Hesc Hall].
  unfold str_ok_raw. cbn [map forallb piece_ok_raw]. fold (str_ok_raw (map PRaw r)). rewrite (IH HF' Hall).
  rewrite is_escape_spec in Hesc. lia.
Qed.

Lemma str_ok_raw_app : forall s1 s2, str_ok_raw (s1 ++ s2) = str_ok_raw s1 && str_ok_raw s2.
Proof. intros. unfold str_ok_raw. apply forallb_app. Qed.

(* [r] is a piece reading of what comes next in the input [l] *)
Definition follows (l : bytes) (r : list strpiece) : Prop := exists tail, l = render r ++ 34 :: tail.

Lemma wdec_not_bslash : forall n r x l, follows (x :: l) r -> x <> 92 ->
  wdec n r = utf8_encode n ++ str_decode_wtf8 r.
Proof.
  intros n r x l [tail Hf] Hx. unfold wdec. destruct (is_hi_surr n); [|reflexivity].
  destruct r as [|[y|y|a b c d] r']; try reflexivity.
  cbn [flat_map render_piece app] in Hf. injection Hf as -> _. contradiction Hx. reflexivity.
Qed.

Lemma uloop_raw_sound : forall cf f n l o p dp w s2,
  n <= 65535 ->
  unicode_loop f (SE cf) false n (mkSt l o p dp) = Ok (w, s2) ->
  exists ps, l = render ps ++ rest s2 /\ str_ok ps = true /\
    (forall r, follows (rest s2) r -> wdec n (ps ++ r) = w ++ str_decode_wtf8 r) /\
    off s2 = (o + length (render ps))%nat /\ depth s2 = dp.
Proof.
  intros cf f. induction f as [|f IH]; intros n l o p dp w s2 Hn H; [discriminate H|].
  rewrite unicode_loop_S in H.
  destruct (is_hi_surr n) eqn:Hhi.
  2:{ rewrite (nothi_range n Hhi), push_wtf8_any in H by lia. cbn [bind] in H. injection H as <- <-.
      exists []. cbn [flat_map app rest off depth length].
      split; [reflexivity|]. split; [reflexivity|]. split; [|split; [lia|reflexivity]].
      intros r _. unfold wdec. rewrite Hhi. reflexivity. }
  rewrite (hi_range n Hhi) in H.
  destruct l as [|x l]; [discriminate H|].
  unfold peek_or_eof, peek in H. cbn [rest off depth bind] in H.
  destruct (N.eqb_spec x 92) as [->|Hx].
  2:{ rewrite push_wtf8_any in H by lia. cbn [bind] in H. injection H as <- <-.
      exists []. cbn [flat_map app rest off depth length].
      split; [reflexivity|]. split; [reflexivity|]. split; [|split; [lia|reflexivity]].
      intros r Hf. exact (wdec_not_bslash n r x l Hf Hx). }
  unfold discard in H. cbn [rest tl off depth] in H.
  destruct l as [|y l]; [discriminate H|]. cbn [bind] in H.
  destruct (N.eqb_spec y 117) as [->|Hy].
  2:{ rewrite push_wtf8_any in H by lia. cbn [bind] in H.
      unfold parse_escape_nonu, next_or_eof, next in H. cbn [rest off depth bind] in H.
      rewrite escape_simple_spec in H. destruct (esc_letter y) eqn:Hl; [|discriminate H].
      cbn [bind] in H. injection H as <- <-.
      exists [PEsc y]. cbn [flat_map render_piece app rest off depth length].
      split; [reflexivity|]. split; [unfold str_ok; cbn [forallb piece_ok]; rewrite Hl; reflexivity|].
      split; [|split; [lia|reflexivity]].
      intros r _. unfold wdec. rewrite Hhi. cbn [app str_decode_wtf8]. rewrite <- app_assoc. reflexivity. }
  unfold discard in H. cbn [rest tl off depth] in H.
  destruct l as [|a [|b [|c [|d l']]]]; try discriminate H.
  rewrite decode_hex_escape_slice, decode_four_hex_spec_gen in H. fold (hex4 a b c d) in H.
  destruct (hex4 a b c d) eqn:Hh; [|discriminate H]. cbn [bind] in H.
  pose proof (u4_val_lt a b c d Hh) as Hlt2.
  assert (Hok1 : str_ok [PU4 a b c d] = true).
  { unfold str_ok. cbn [forallb piece_ok]. unfold hex4 in Hh. rewrite Hh. reflexivity. }
  destruct (is_lo_surr (u4_val a b c d)) eqn:Hlo2.
  - replace ((u4_val a b c d <? 56320) || (57343 <? u4_val a b c d)) with false in H
      by (unfold is_lo_surr in Hlo2; lia).
    rewrite pair_cp_lor in H by exact Hlo2.
    rewrite push_wtf8_any in H
      by (pose proof (pair_cp_scalar n _ Hhi Hlo2) as Hs; unfold is_scalar in Hs; lia).
    cbn [bind] in H. injection H as <- <-.
    exists [PU4 a b c d]. cbn [flat_map render_piece app rest off depth length].
    split; [reflexivity|]. split; [exact Hok1|]. split; [|split; [lia|reflexivity]].
    intros r _. unfold wdec. rewrite Hhi. cbn [app]. cbv zeta. rewrite Hlo2. reflexivity.
  - replace ((u4_val a b c d <? 56320) || (57343 <? u4_val a b c d)) with true in H
      by (unfold is_lo_surr in Hlo2; lia).
    rewrite push_wtf8_any in H by lia. cbn [bind] in H.
    destruct (unicode_loop f (SE cf) false (u4_val a b c d) (mkSt l' (S (S o) + 4) false dp))
      as [[w' s6]|c0 i0| |] eqn:Hrec; try discriminate H.
    cbn [bind] in H. injection H as <- <-.
    assert (Hle2 : u4_val a b c d <= 65535) by lia.
    destruct (IH _ _ _ _ _ _ _ Hle2 Hrec) as (ps' & Hl' & Hok' & Hdec' & Hoff' & Hdp').
    exists (PU4 a b c d :: ps'). cbn [flat_map render_piece app length].
    split; [rewrite Hl'; reflexivity|].
    split; [unfold str_ok in *; cbn [forallb]; rewrite Hok'; cbn [piece_ok]; unfold hex4 in Hh; rewrite Hh; reflexivity|].
    split; [|split; [rewrite Hoff'; lia|exact Hdp']].
    intros r Hf. unfold wdec. rewrite Hhi. cbn [app]. cbv zeta. rewrite Hlo2.
    rewrite wtf8_u4, (Hdec' r Hf), app_assoc. reflexivity.
Qed.

Lemma parse_escape_sound_raw : forall f cf l o p dp w s2,
  parse_escape f (SE cf) false (mkSt l o p dp) = Ok (w, s2) ->
  exists ps,
    92 :: l = render ps ++ rest s2 /\ str_ok ps = true /\
    (forall r, follows (rest s2) r -> str_decode_wtf8 (ps ++ r) = w ++ str_decode_wtf8 r) /\
    (S (off s2) = o + length (render ps))%nat /\ depth s2 = dp /\
    (forall r, forallb is_raw (ps ++ r) = false).
Proof.
  intros f cf l o p dp w s2 H.
  destruct l as [|ch l]; [rewrite parse_escape_nil in H; discriminate H|].
  destruct (N.eqb_spec ch 117) as [->|Hch].
  - destruct l as [|a [|b [|c [|d tl]]]]; try discriminate H.
    destruct (hex4 a b c d) eqn:Hh.
    2:{ rewrite parse_escape_cons in H. change (117 =? 117) with true in H. cbv iota in H.
        unfold parse_unicode_escape in H.
        rewrite decode_hex_escape_slice, decode_four_hex_spec_gen in H. fold (hex4 a b c d) in H.
        rewrite Hh in H. discriminate H. }
    rewrite parse_escape_u_raw in H by exact Hh.
    pose proof (u4_val_lt a b c d Hh) as Hlt.
    assert (Hle : u4_val a b c d <= 65535) by lia.
    destruct (uloop_raw_sound cf f _ _ _ _ _ _ _ Hle H) as (ps' & Hl' & Hok' & Hdec' & Hoff' & Hdp').
    exists (PU4 a b c d :: ps'). cbn [flat_map render_piece app length].
    split; [rewrite Hl'; reflexivity|].
    split; [unfold str_ok in *; cbn [forallb]; rewrite Hok'; cbn [piece_ok]; unfold hex4 in Hh; rewrite Hh; reflexivity|].
    split; [intros r Hf; rewrite wtf8_u4; exact (Hdec' r Hf)|].
    split; [rewrite Hoff'; lia|]. split; [exact Hdp'|]. intros r. reflexivity.
  - rewrite parse_escape_cons in H. apply N.eqb_neq in Hch. rewrite Hch, escape_simple_spec in H.
    destruct (esc_letter ch) eqn:Hl; [|discriminate H].
    injection H as <- <-.
    exists [PEsc ch]. cbn [rest off pk depth flat_map render_piece app length].
    split; [reflexivity|]. split; [unfold str_ok; cbn [forallb piece_ok]; rewrite Hl; reflexivity|].
    split; [intros r _; reflexivity|]. split; [lia|]. split; reflexivity.
Qed.

Lemma raw_loop_sound : forall cf fuel s0 out cp s1,
  Forall (fun x => x < 256) (rest s0) ->
  slice_str_loop fuel (SE cf) false s0 = Ok (out, cp, s1) ->
  exists s, rest s0 = render s ++ 34 :: rest s1 /\ str_ok_raw s = true /\
            str_decode_wtf8 s = out /\
            (off s1 = off s0 + length (render s) + 1)%nat /\
            pk s1 = false /\ depth s1 = depth s0 /\ cp = negb (forallb is_raw s).
Proof.
  intros cf fuel. induction fuel as [|f IH]; intros s0 out cp s1 HF H; [discriminate H|].
  destruct s0 as [l o p dp]. cbn [rest off depth] in *.
  rewrite slice_loop_S in H. cbn [rest] in H. cbv zeta in H.
  set (n := esc_span false l) in *.
  pose proof (firstn_skipn n l) as Hsplit.
  pose proof (span_firstn_all (fun b => negb (is_escape b false)) l) as Hall.
  fold (esc_span false l) in Hall. fold n in Hall.
  assert (Hn : length (firstn n l) = n).
  { apply firstn_length_le. apply span_len_le. }
  set (chunk := firstn n l) in *.
  assert (HFc : Forall (fun x => x < 256) chunk /\ Forall (fun x => x < 256) (skipn n l)).
  { rewrite <- Hsplit in HF. apply Forall_app in HF. exact HF. }
  destruct HFc as [HFc HFs].
  unfold advance in H. cbn [rest off depth] in H.
  destruct (skipn n l) as [|b tl] eqn:Hsk; [discriminate H|].
  destruct (N.eqb_spec b 34) as [->|Hb34].
  { injection H as <- <- <-. exists (map PRaw chunk). cbn [rest off pk depth skipn].
    rewrite render_raw. split; [symmetry; exact Hsplit|].
    split; [apply str_ok_raw_chunk; assumption|].
    split.
    { rewrite <- (app_nil_r (map PRaw chunk)), wtf8_raw_app. cbn [str_decode_wtf8]. apply app_nil_r. }
    split; [lia|]. split; [reflexivity|]. split; [reflexivity|].
    rewrite <- (app_nil_r (map PRaw chunk)), is_raw_map_app. reflexivity. }
  destruct (N.eqb_spec b 92) as [->|Hb92]; [|discriminate H].
  cbn [skipn] in H.
  apply bind_ok in H. destruct H as ([w s2] & Hesc & H).
  apply bind_ok in H. destruct H as ([[out' cp'] s3] & Hloop & H).
  injection H as <- <- <-.
  apply parse_escape_sound_raw in Hesc.
  destruct Hesc as (ps & Hrender & Hps & Hdec & Hoff & Hdp & Hraw).
  assert (HF2 : Forall (fun x => x < 256) (rest s2)).
  { rewrite Hrender in HFs. apply Forall_app in HFs. apply HFs. }
  destruct (IH s2 out' cp' s3 HF2 Hloop) as (s' & Hr' & Hok' & Hdec' & Hoff' & Hpk' & Hdp' & Hcp').
  exists (map PRaw chunk ++ ps ++ s').
  split.
  { rewrite !flat_map_app, render_raw, <- !app_assoc, <- Hr', <- Hrender. symmetry. exact Hsplit. }
  split.
  { rewrite !str_ok_raw_app, (str_ok_raw_of_ok ps Hps), Hok', (str_ok_raw_chunk chunk HFc Hall). reflexivity. }
  split.
  { rewrite wtf8_raw_app, (Hdec s' (ex_intro _ (rest s3) Hr')), Hdec'. reflexivity. }
  split.
  { rewrite !flat_map_app, render_raw, !app_length. lia. }
  split; [exact Hpk'|]. split; [congruence|].
  rewrite is_raw_map_app, Hraw. reflexivity.
Qed.

Theorem parse_str_raw_sound : forall cf s0 b bw s1,
  Forall (fun x => (x < 256)%N) (rest s0) ->
  parse_str_raw (mkEnv RSlice TEof cf) s0 = Ok (b, bw, s1) ->
  exists s, rest s0 = render s ++ 34 :: rest s1 /\ str_ok_raw s = true /\ str_decode_wtf8 s = b
         /\ (off s1 = off s0 + length (render s) + 1)%nat /\ pk s1 = false /\ depth s1 = depth s0
         /\ bw = forallb (fun p => match p with PRaw _ => true | _ => false end) s.
Proof.
  intros cf s0 b bw s1 HF H. unfold parse_str_raw in H. cbn [rk] in H.
  apply bind_ok in H. destruct H as ([[out cp] s1'] & Hloop & H). injection H as <- <- <-.
  destruct (raw_loop_sound cf _ s0 out cp s1' HF Hloop) as (s & Hr & Hok & Hdec & Hoff & Hpk & Hdp & Hcp).
  exists s. repeat split; try assumption. rewrite Hcp, negb_involutive. reflexivity.
Qed.

(* examples: unpaired surrogates, raw control characters, raw non-UTF-8 bytes *)
Section Examples.
  Let cf0 := mkCfg false false false false.
  Let run l := parse_str_raw (mkEnv RSlice TEof cf0) (mkSt l 0 false 128).
  (* \ud800 a  ->  ED A0 80 61 *)
  Example ex_lone_hi : run [92;117;100;56;48;48;97;34] = Ok ([237;160;128;97], false, mkSt [] 8 false 128)
    /\ str_decode_wtf8 [PU4 100 56 48 48; PRaw 97] = [237;160;128;97].
  Proof. split; vm_compute; reflexivity. Qed.
  (* \udc00 \ud800 \ud800 \udc00  ->  ED B0 80, ED A0 80, F0 90 80 80 *)
  Example ex_mixed : run [92;117;100;99;48;48; 92;117;100;56;48;48; 92;117;100;56;48;48; 92;117;100;99;48;48; 34]
      = Ok ([237;176;128; 237;160;128; 240;144;128;128], false, mkSt [] 25 false 128)
    /\ str_decode_wtf8 [PU4 100 99 48 48; PU4 100 56 48 48; PU4 100 56 48 48; PU4 100 99 48 48]
       = [237;176;128; 237;160;128; 240;144;128;128].
  Proof. split; vm_compute; reflexivity. Qed.
  (* raw 0x01 0xFF pass through and the result is borrowed *)
  Example ex_rawbytes : run [1; 255; 34] = Ok ([1; 255], true, mkSt [] 3 false 128)
    /\ str_decode_wtf8 [PRaw 1; PRaw 255] = [1; 255].
  Proof. split; vm_compute; reflexivity. Qed.
End Examples.

Print Assumptions str_decode_wtf8_text.
Print Assumptions parse_str_raw_complete.
Print Assumptions parse_str_raw_complete_str.
Print Assumptions parse_str_raw_complete_io.
Print Assumptions parse_str_raw_sound.
