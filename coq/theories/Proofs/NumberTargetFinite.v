(* Proofs/NumberTargetFinite.v — helper for Proofs/NumberTargetProps.v:

     parse_integer_f64_finite     every ParserNumber::F64 the number parser of the default representation returns is FINITE
                                  (both float paths: default and float_roundtrip), for every reader kind / end-of-input behaviour;
     parse_any_number_f64_finite  the same for parse_any_number without arbitrary_precision;
     parse_integer_i64_negative   every ParserNumber::I64 it returns is negative.

   Consequences used by the Number-target theorems: the Value visitor's `Number::from_f64(x).map_or(Null, ..)` never takes the
   Null arm on parsed text (a document parses to null only when it spells `null`), and NumberVisitor::visit_f64's
   custom("not a JSON number") is unreachable from text.

   The float facts come from Proofs/FloatDefault.v (f64_from_parts_sane: the default path) and Proofs/LexOracle.v
   (rne_decimal_cases: the oracle is finite or +infinity); this file only walks the parser's call graph. *)
From Coq Require Import Lia ZifyBool ZifyNat ZifyN.
From SJ Require Import Base.Bytes Base.FloatB Gen.Tables Model.Read Model.Num.
From SJ Require Import Proofs.NumInt Proofs.GrammarNum Proofs.FloatDefault Proofs.LexOracle.
From Flocq Require Import Core BinarySingleNaN.
Open Scope N_scope.

Lemma bind_ok_inv {A B} (r : res A) (f : A -> res B) (b : B) :
  bind r f = Ok b -> exists a, r = Ok a /\ f a = Ok b.
Proof. destruct r as [a| | |]; cbn [bind]; intros H; try discriminate H. exists a. split; [reflexivity|exact H]. Qed.

Lemma finite_neg (positive : bool) (f : b64) : is_finite f = true -> is_finite (if positive then f else b64_neg f) = true.
Proof. intros H. destruct positive; [exact H|]. unfold b64_neg. rewrite is_finite_Bopp. exact H. Qed.

Lemma rne_not_inf_finite (m e : Z) : (0 <= m)%Z -> b64_is_inf (rne_decimal m e) = false -> is_finite (rne_decimal m e) = true.
Proof.
  intros Hm Hni. destruct (rne_decimal_cases m e Hm) as [(Hfin & _)|(Hinf & _)]; [exact Hfin|].
  rewrite Hinf in Hni. discriminate Hni.
Qed.

Lemma sig_loop_lt : forall l sg n sg' ov, sg < two64 -> sig_loop l sg = (n, sg', ov) -> sg' < two64.
Proof.
  induction l as [|c r IH]; intros sg n sg' ov Hsg H; cbn [sig_loop] in H.
  - injection H as _ <- _. exact Hsg.
  - destruct (is_digit c); [|injection H as _ <- _; exact Hsg].
    destruct (overflow_mac sg (digit_val c) u64_max); [injection H as _ <- _; exact Hsg|].
    destruct (sig_loop r (mul10add sg (digit_val c))) as [[n1 sg1] ov1] eqn:Hrec.
    injection H as _ <- _. exact (IH _ _ _ _ (mul10add_lt sg (digit_val c)) Hrec).
Qed.

Section Finite.
  Variable E : env.

  Lemma f64_from_parts_finite positive sig e s f s' : sig < two64 ->
    f64_from_parts E positive sig e s = Ok (f, s') -> is_finite f = true.
  Proof.
    intros Hsig H. destruct (float_roundtrip (cf E)) eqn:Hfr.
    - unfold f64_from_parts in H. rewrite Hfr in H. cbn [bind] in H. unfold f64_fr in H. cbv zeta in H.
      destruct (b64_is_inf (rne_decimal (Z.of_N sig) e)) eqn:Hinf.
      + unfold peek_error in H. discriminate H.
      + injection H as <- _. apply finite_neg, rne_not_inf_finite; [lia|exact Hinf].
    - assert (Hle : sig <= u64_max) by (unfold two64, u64_max in *; lia).
      exact (proj1 (f64_from_parts_sane E positive sig e s f s' Hfr Hle H)).
  Qed.

  Lemma f64_long_from_parts_finite positive i fr e s f s' :
    f64_long_from_parts E positive i fr e s = Ok (f, s') -> is_finite f = true.
  Proof.
    unfold f64_long_from_parts. cbv zeta. intros H.
    destruct (b64_is_inf (lexical_truncated i fr e)) eqn:Hinf; [unfold peek_error in H; discriminate H|].
    injection H as <- _. apply finite_neg. unfold lexical_truncated in *. cbv zeta in *.
    apply rne_not_inf_finite; [|exact Hinf]. apply (digits_val_ge _ 0%Z). lia.
  Qed.

  Lemma parse_exponent_overflow_finite positive z pe s f s' :
    parse_exponent_overflow E positive z pe s = Ok (f, s') -> is_finite f = true.
  Proof.
    unfold parse_exponent_overflow. intros H. destruct (negb z && pe); [unfold error in H; discriminate H|].
    apply bind_ok_inv in H as ([c s1] & _ & H). injection H as <- _. destruct positive; reflexivity.
  Qed.

  Lemma parse_exponent_finite positive sig e0 s f s' : sig < two64 ->
    parse_exponent E positive sig e0 s = Ok (f, s') -> is_finite f = true.
  Proof.
    intros Hsig H. unfold parse_exponent in H. apply bind_ok_inv in H as ([[pe [ex ov]] s1] & _ & H).
    destruct ov; [exact (parse_exponent_overflow_finite _ _ _ _ _ _ H)|].
    apply bind_ok_inv in H as ([c s2] & _ & H). cbv zeta in H.
    exact (f64_from_parts_finite _ _ _ _ _ _ Hsig H).
  Qed.

  Lemma parse_long_exponent_finite positive i fr s f s' :
    parse_long_exponent E positive i fr s = Ok (f, s') -> is_finite f = true.
  Proof.
    intros H. unfold parse_long_exponent in H. apply bind_ok_inv in H as ([[pe [ex ov]] s1] & _ & H).
    destruct ov; [exact (parse_exponent_overflow_finite _ _ _ _ _ _ H)|].
    apply bind_ok_inv in H as ([c s2] & _ & H). cbv zeta in H.
    exact (f64_long_from_parts_finite _ _ _ _ _ _ _ H).
  Qed.

  Lemma parse_long_decimal_finite positive i f0 s f s' :
    parse_long_decimal E positive i f0 s = Ok (f, s') -> is_finite f = true.
  Proof.
    intros H. unfold parse_long_decimal in H. cbv zeta in H. apply bind_ok_inv in H as ([c s1] & _ & H).
    destruct (f0 ++ firstn (span_len is_digit (rest s)) (rest s)) as [|x fr].
    - apply bind_ok_inv in H as ([o s2] & _ & H). destruct o; unfold peek_error in H; discriminate H.
    - destruct ((c =? 101) || (c =? 69)).
      + exact (parse_long_exponent_finite _ _ _ _ _ _ H).
      + exact (f64_long_from_parts_finite _ _ _ _ _ _ _ H).
  Qed.

  Lemma parse_decimal_overflow_finite positive sig e s f s' : sig < two64 ->
    parse_decimal_overflow E positive sig e s = Ok (f, s') -> is_finite f = true.
  Proof.
    intros Hsig H. unfold parse_decimal_overflow in H. destruct (float_roundtrip (cf E)).
    - cbv zeta in H. exact (parse_long_decimal_finite _ _ _ _ _ _ H).
    - apply bind_ok_inv in H as ([c s1] & _ & H). destruct ((c =? 101) || (c =? 69)).
      + exact (parse_exponent_finite _ _ _ _ _ _ Hsig H).
      + exact (f64_from_parts_finite _ _ _ _ _ _ Hsig H).
  Qed.

  Lemma parse_decimal_finite positive sig e s f s' : sig < two64 ->
    parse_decimal E positive sig e s = Ok (f, s') -> is_finite f = true.
  Proof.
    intros Hsig H. unfold parse_decimal in H. cbv zeta in H.
    destruct (sig_loop (rest (discard s)) sig) as [[n sg] ov] eqn:Hl.
    pose proof (sig_loop_lt _ _ _ _ _ Hsig Hl) as Hsg.
    apply bind_ok_inv in H as ([c s1] & _ & H).
    destruct ov; [exact (parse_decimal_overflow_finite _ _ _ _ _ _ Hsg H)|].
    destruct (Nat.eqb n 0).
    - apply bind_ok_inv in H as ([o s2] & _ & H). destruct o; unfold peek_error in H; discriminate H.
    - destruct ((c =? 101) || (c =? 69)).
      + exact (parse_exponent_finite _ _ _ _ _ _ Hsg H).
      + exact (f64_from_parts_finite _ _ _ _ _ _ Hsg H).
  Qed.

  Lemma parse_long_integer_finite positive sig s f s' : sig < two64 ->
    parse_long_integer E positive sig s = Ok (f, s') -> is_finite f = true.
  Proof.
    intros Hsig H. unfold parse_long_integer in H. cbv zeta in H. apply bind_ok_inv in H as ([c s1] & _ & H).
    destruct (float_roundtrip (cf E)).
    - destruct (c =? 46); [exact (parse_long_decimal_finite _ _ _ _ _ _ H)|].
      destruct ((c =? 101) || (c =? 69)); [exact (parse_long_exponent_finite _ _ _ _ _ _ H)|].
      exact (f64_long_from_parts_finite _ _ _ _ _ _ _ H).
    - destruct (c =? 46); [exact (parse_decimal_finite _ _ _ _ _ _ Hsig H)|].
      destruct ((c =? 101) || (c =? 69)); [exact (parse_exponent_finite _ _ _ _ _ _ Hsig H)|].
      exact (f64_from_parts_finite _ _ _ _ _ _ Hsig H).
  Qed.

  Lemma parse_number_sane positive sig s p s' : sig < two64 ->
    parse_number E positive sig s = Ok (p, s') ->
    match p with PF64 f => is_finite f = true | PI64 z => (z < 0)%Z | _ => True end.
  Proof.
    intros Hsig H. unfold parse_number in H. apply bind_ok_inv in H as ([c s1] & _ & H).
    destruct (c =? 46).
    { apply bind_ok_inv in H as ([f s2] & Hd & H). injection H as <- _. exact (parse_decimal_finite _ _ _ _ _ _ Hsig Hd). }
    destruct ((c =? 101) || (c =? 69)).
    { apply bind_ok_inv in H as ([f s2] & Hd & H). injection H as <- _. exact (parse_exponent_finite _ _ _ _ _ _ Hsig Hd). }
    destruct positive; [injection H as <- _; exact I|].
    cbv zeta in H. destruct (0 <=? wrap_i64 (- wrap_i64 (Z.of_N sig)))%Z eqn:Hn.
    - injection H as <- _. unfold b64_neg. rewrite is_finite_Bopp.
      apply (b64_of_Z_u64 (Z.of_N sig)). unfold two64, u64_max in *. lia.
    - injection H as <- _. lia.
  Qed.

  Lemma parse_integer_sane positive s p s' :
    parse_integer E positive s = Ok (p, s') ->
    match p with PF64 f => is_finite f = true | PI64 z => (z < 0)%Z | _ => True end.
  Proof.
    intros H. unfold parse_integer in H. apply bind_ok_inv in H as ([o s1] & _ & H).
    destruct o as [c|]; [|unfold error in H; discriminate H].
    destruct (c =? 48).
    { apply bind_ok_inv in H as ([c2 s2] & _ & H). destruct (is_digit c2); [unfold peek_error in H; discriminate H|].
      apply (parse_number_sane positive 0 s2 p s'); [reflexivity|exact H]. }
    destruct (is_digit19 c) eqn:Hc; [|unfold error in H; discriminate H].
    assert (Hd : digit_val c < two64).
    { unfold is_digit19 in Hc. unfold digit_val, two64. lia. }
    destruct (sig_loop (rest s1) (digit_val c)) as [[n sg] ov] eqn:Hl.
    pose proof (sig_loop_lt _ _ _ _ _ Hd Hl) as Hsg.
    apply bind_ok_inv in H as ([c2 s2] & _ & H).
    destruct ov.
    - apply bind_ok_inv in H as ([f s3] & Hli & H). injection H as <- _.
      exact (parse_long_integer_finite _ _ _ _ _ Hsg Hli).
    - exact (parse_number_sane positive sg s2 p s' Hsg H).
  Qed.
End Finite.

Theorem parse_integer_f64_finite : forall E positive s f s',
  parse_integer E positive s = Ok (PF64 f, s') -> b64_is_finite f = true.
Proof. intros E positive s f s' H. exact (parse_integer_sane E positive s (PF64 f) s' H). Qed.

Theorem parse_integer_i64_negative : forall E positive s z s',
  parse_integer E positive s = Ok (PI64 z, s') -> (z < 0)%Z.
Proof. intros E positive s z s' H. exact (parse_integer_sane E positive s (PI64 z) s' H). Qed.

Theorem parse_any_number_f64_finite : forall E positive s f s', arbitrary_precision (cf E) = false ->
  parse_any_number E positive s = Ok (PF64 f, s') -> b64_is_finite f = true.
Proof.
  intros E positive s f s' Hap H. unfold parse_any_number in H. rewrite Hap in H.
  exact (parse_integer_f64_finite E positive s f s' H).
Qed.

Theorem parse_any_number_i64_negative : forall E positive s z s', arbitrary_precision (cf E) = false ->
  parse_any_number E positive s = Ok (PI64 z, s') -> (z < 0)%Z.
Proof.
  intros E positive s z s' Hap H. unfold parse_any_number in H. rewrite Hap in H.
  exact (parse_integer_i64_negative E positive s z s' H).
Qed.

Print Assumptions parse_integer_f64_finite.
Print Assumptions parse_integer_i64_negative.
