(* Proofs/SerToValueAp.v — C15 extended to the private Number protocol node [SNumLit] (what `Serialize for Number`
   emits under arbitrary_precision: a struct named TOKEN with the one field TOKEN holding the literal).

   Proofs/SerToValue.v proves that to_value agrees with the text serialiser on call trees WITHOUT [SNumLit] (its side
   condition [c15_side] is false on that node).  Here the node is allowed, with a well-formed RFC 8259 number literal
   as its text (that is what [wfs (SNumLit l)] = [number_text_ok l] says; [number_text_ok_iff]: it is the predicate
   "l = render_num n for a numlit n with num_ok n" of Spec/Syntax.v, Proofs/ApNumber.v, Properties/C20.v):

     to_value_image_lit       the induction of SerToValue.v redone with the side condition [c15_side_lit] (= [c15_side] but
                              true on SNumLit); under arbitrary_precision = true the side condition is vacuous ([c15_side_lit_ap])
     C15_same_success_lit / C15_same_rejection_lit / C15_same_value_lit / C15_parse_back_lit
                              the four statements of Properties/C15.v for such trees, premises discharged as in Proofs/SerFinal.v
     C15_ap_same_success ...  the same specialised to arbitrary_precision = true: for EVERY well-formed call tree, no side condition
     C15_numlit_verbatim      to_string(SNumLit lit) is lit verbatim, to_value(SNumLit lit) is Number(lit), and lit parses back to it
     C15_value_with_numbers   for a Value v whose Numbers hold literals (wf_value): to_value(&v) = v and from_str(to_string(&v)) = v

   The literal NOT well-formed (only reachable through the hidden `Number::from_string_unchecked`, "Not public API. Only
   tests use this", src/number.rs:338-344): to_string writes it raw and succeeds, to_value validates it with Number::from_str
   (src/value/ser.rs NumberValueEmitter::serialize_str) and fails — [C15_numlit_invalid_disagree] and the example
   [C15_ex_invalid_literal].  Not a violation of C15 for the public API: `Number::from_str` and `Deserialize for Number`
   validate, so a Number built through them holds a well-formed literal.                                                   *)
From SJ Require Import Base.Bytes Base.Utf8 Base.FloatB Gen.Tables Model.Read Model.Num Model.Value Model.De Model.Sval Model.Ser Model.ValueSer
  Spec.Syntax Spec.Denote Spec.Layout
  Proofs.NumInt Proofs.GrammarNum Proofs.GrammarFinal Proofs.ApNumber
  Proofs.SerUtf8 Proofs.SerBase Proofs.SerHint Proofs.SerRender Proofs.SerWf Proofs.SerDenote Proofs.SerValue Proofs.SerToValue
  Proofs.SerWriter Proofs.SerMain Proofs.SerFinal.
From Flocq Require Import Core BinarySingleNaN.
From Coq Require Import Lia ZifyBool ZifyN ZifyNat.
Open Scope N_scope.

(* ------------------------------------------------------------------------------------------------------------------ *)
(** * 1. The two number-literal predicates coincide *)

Lemma take_digits_span (ds r : bytes) : GrammarNum.digs ds -> GrammarNum.nd r -> take_digits (ds ++ r) = (ds, r).
Proof.
  intros Hd Hr. unfold take_digits. rewrite (GrammarNum.span_app ds r Hd Hr).
  rewrite GrammarNum.firstn_app_l, GrammarNum.skipn_app_l. reflexivity.
Qed.

Lemma all_digits_digs (l : bytes) : all_digits l = true -> GrammarNum.digs l.
Proof. intros H. exact (all_digits_forallb l H). Qed.

Lemma int_ok_head (ds : bytes) : int_ok ds = true -> exists c r, ds = c :: r /\ is_digit c = true.
Proof.
  intros Hok. destruct (NumInt.int_ok_inv ds Hok) as [Hz|(c & r & Hds & Hc & _)].
  - exists 48, []. split; [exact Hz|reflexivity].
  - exists c, r. split; [exact Hds|apply is_digit19_digit; exact Hc].
Qed.

(* the splitter of Spec/Layout.v inverts the printer of Spec/Syntax.v on well-formed literals *)
Lemma numlit_of_text_of_render (n : numlit) : num_ok n = true -> numlit_of_text (render_num n) = Some n.
Proof.
  intros Hok. destruct (num_ok_parts n Hok) as (Hint & Hf & Hx).
  destruct n as [neg ip fr ex]. cbn [nneg nint nfrac nexp] in *.
  pose proof (all_digits_digs ip (int_ok_all_digits ip Hint)) as Hip.
  destruct (int_ok_head ip Hint) as (c0 & r0 & Hipc & Hc0).
  unfold render_num. cbn [nneg nint nfrac nexp].
  set (tailx := match ex with Some (e, sg, ds) => e :: (match sg with Some c => [c] | None => [] end) ++ ds | None => [] end).
  set (tailf := (match fr with Some f => 46 :: f | None => [] end) ++ tailx).
  assert (Hnd_x : GrammarNum.nd tailx).
  { unfold tailx. destruct ex as [[[e sg] ds]|]; [|reflexivity]. destruct (Hx e sg ds eq_refl) as (He & _ & _).
    unfold GrammarNum.nd, is_digit. cbn [hd]. lia. }
  assert (Hnd_f : GrammarNum.nd tailf).
  { unfold tailf. destruct fr as [f|]; [reflexivity|exact Hnd_x]. }
  (* the exponent part *)
  assert (Hex : (match tailx with
                 | e :: r =>
                   if (e =? 101) || (e =? 69) then
                     let '(sg, r1) := match r with 43 :: r' => (Some 43, r') | 45 :: r' => (Some 45, r') | _ => (None, r) end in
                     let '(ds, r2) := take_digits r1 in (Some (e, sg, ds), r2)
                   else (None, tailx)
                 | [] => (None, tailx)
                 end) = (ex, [])).
  { unfold tailx. destruct ex as [[[e sg] ds]|]; [|reflexivity].
    destruct (Hx e sg ds eq_refl) as (He & Hsg & Hds). rewrite He.
    pose proof (all_digits_digs ds Hds) as Hdd.
    assert (Htd : take_digits ds = (ds, [])).
    { rewrite <- (app_nil_r ds) at 1. apply take_digits_span; [exact Hdd|reflexivity]. }
    destruct sg as [c|].
    - specialize (Hsg c eq_refl). cbn [app].
      assert (Hc : c = 43 \/ c = 45) by lia. destruct Hc as [-> | ->]; rewrite Htd; reflexivity.
    - cbn [app]. destruct ds as [|d0 dr]; [discriminate Hds|].
      assert (Hd0 : is_digit d0 = true) by (unfold GrammarNum.digs in Hdd; cbn [forallb] in Hdd; apply andb_prop in Hdd; tauto).
      assert (H43 : d0 <> 43 /\ d0 <> 45) by (unfold is_digit in Hd0; lia).
      destruct H43 as (H43 & H45).
      assert (Hm : (match d0 :: dr with 43 :: r' => (Some 43, r') | 45 :: r' => (Some 45, r') | _ => (@None N, d0 :: dr) end)
                   = (None, d0 :: dr)).
      { destruct d0 as [|p]; [reflexivity|]. do 6 (destruct p as [p|p|]; try reflexivity); exfalso; auto. }
      rewrite Hm, Htd. reflexivity. }
  (* the fraction part *)
  assert (Hfr : (match tailf with
                 | 46 :: r => let '(f, r') := take_digits r in (Some f, r')
                 | _ => (None, tailf)
                 end) = (fr, tailx)).
  { unfold tailf. destruct fr as [f|].
    - cbn [app]. rewrite (take_digits_span f tailx (all_digits_digs f (Hf f eq_refl)) Hnd_x). reflexivity.
    - cbn [app]. destruct tailx as [|e r] eqn:Htx; [reflexivity|].
      assert (He : e <> 46).
      { unfold tailx in Htx. destruct ex as [[[e' sg] ds]|]; [|discriminate Htx]. injection Htx as <- _.
        destruct (Hx e' sg ds eq_refl) as (He' & _ & _). lia. }
      destruct e as [|p]; [reflexivity|]. do 6 (destruct p as [p|p|]; try reflexivity); exfalso; auto. }
  unfold numlit_of_text. fold tailx. fold tailf.
  destruct neg; cbn [app].
  - rewrite (take_digits_span ip tailf Hip Hnd_f), Hfr, Hex. reflexivity.
  - assert (Hm : (match ip ++ tailf with 45 :: r => (true, r) | _ => (false, ip ++ tailf) end) = (false, ip ++ tailf)).
    { rewrite Hipc. cbn [app]. assert (H45 : c0 <> 45) by (unfold is_digit in Hc0; lia).
      destruct c0 as [|p]; [reflexivity|]. do 6 (destruct p as [p|p|]; try reflexivity); exfalso; auto. }
    rewrite Hm, (take_digits_span ip tailf Hip Hnd_f), Hfr, Hex. reflexivity.
Qed.

Theorem number_text_ok_iff : forall l,
  number_text_ok l = true <-> exists n, num_ok n = true /\ l = render_num n.
Proof.
  intros l. unfold number_text_ok. split.
  - destruct (numlit_of_text l) as [n|] eqn:En; [|discriminate]. intros Hok. exists n. split; [exact Hok|].
    symmetry. exact (SerBase.numlit_of_text_render l n En).
  - intros (n & Hok & ->). rewrite (numlit_of_text_of_render n Hok). exact Hok.
Qed.

(* ------------------------------------------------------------------------------------------------------------------ *)
(** * 2. NumberValueEmitter: `value.parse::<Number>()` on the literal (the model function of Model/ValueSer.v) *)

Lemma vs_number_from_str_verbatim (cf : cfg) (n : numlit) : arbitrary_precision cf = true -> num_ok n = true ->
  ValueSer.number_from_str cf (render_num n) = Ok (NLit (render_num n)).
Proof.
  intros Hap Hok. unfold ValueSer.number_from_str. set (E := mkEnv RStr TEof cf).
  assert (HE : tm E = TEof) by reflexivity. assert (HapE : arbitrary_precision (Read.cf E) = true) by exact Hap.
  rewrite render_num_split. unfold init_st. destruct (nneg n); cbn [app].
  - rewrite ApNumber.peek_cons. cbn [bind]. change (45 =? 45) with true. cbv iota.
    change (discard (mkSt (45 :: render_abs n) 0 true DEPTH0)) with (mkSt (render_abs n) 1 false DEPTH0).
    destruct (pan_lit E HE HapE false n 1 false DEPTH0 Hok) as (p & Hrun & Hlit). rewrite Hrun. cbn [bind].
    rewrite (ApNumber.peek_nil E _ false DEPTH0 HE). cbn [bind]. unfold visit_number_cfg. rewrite HapE, Hlit. reflexivity.
  - destruct (render_abs_head n Hok) as (c & r & Hcr & Hc).
    destruct (pan_lit E HE HapE true n 0 true DEPTH0 Hok) as (p & Hrun & Hlit). rewrite Hcr in *.
    rewrite ApNumber.peek_cons. cbn [bind].
    assert (H45 : (c =? 45) = false) by (unfold is_digit in Hc; lia). rewrite H45, Hc, Hrun. cbn [bind].
    rewrite (ApNumber.peek_nil E _ false DEPTH0 HE). cbn [bind]. unfold visit_number_cfg. rewrite HapE, Hlit. reflexivity.
Qed.

(* it validates: success only on a well-formed literal, which it keeps *)
Lemma vs_number_from_str_sound (cf : cfg) (l : bytes) (x : num) : arbitrary_precision cf = true ->
  ValueSer.number_from_str cf l = Ok x -> exists n, num_ok n = true /\ l = render_num n /\ x = NLit l.
Proof.
  intros Hap Hrun.
  assert (Hgoal : exists n, num_ok n = true /\ l = render_num n).
  { unfold ValueSer.number_from_str in Hrun. set (E := mkEnv RStr TEof cf) in *.
    assert (HE : tm E = TEof) by reflexivity. unfold init_st in Hrun.
    destruct l as [|b r].
    - rewrite (ApNumber.peek_nil E 0 false DEPTH0 HE) in Hrun. cbn [bind] in Hrun. discriminate Hrun.
    - rewrite ApNumber.peek_cons in Hrun. cbn [bind] in Hrun.
      apply NumInt.bind_ok in Hrun. destruct Hrun as ([p s2] & Hp & Hrun).
      apply NumInt.bind_ok in Hrun. destruct Hrun as ([o2 s3] & Hpk & Hrun).
      assert (Hr2 : rest s2 = []).
      { unfold peek in Hpk. destruct (rest s2) as [|c t]; [reflexivity|]. injection Hpk as <- <-. discriminate Hrun. }
      destruct (b =? 45) eqn:Hb.
      + change (discard (mkSt (b :: r) 0 true DEPTH0)) with (mkSt r 1 false DEPTH0) in Hp.
        destruct (number_sound E false _ p s2 HE Hp) as (n & Hok & Hneg & Hrest & _).
        cbn [rest] in Hrest. rewrite Hr2, app_nil_r in Hrest.
        exists n. split; [exact Hok|]. rewrite render_num_split, Hneg. cbn [negb app].
        apply N.eqb_eq in Hb. subst b r. reflexivity.
      + destruct (is_digit b) eqn:Hd; [|discriminate Hp].
        destruct (number_sound E true _ p s2 HE Hp) as (n & Hok & Hneg & Hrest & _).
        cbn [rest] in Hrest. rewrite Hr2, app_nil_r in Hrest.
        exists n. split; [exact Hok|]. rewrite render_num_split, Hneg. cbn [negb app]. exact Hrest. }
  destruct Hgoal as (n & Hok & ->). exists n. split; [exact Hok|]. split; [reflexivity|].
  rewrite (vs_number_from_str_verbatim cf n Hap Hok) in Hrun. injection Hrun as <-. reflexivity.
Qed.

(* ------------------------------------------------------------------------------------------------------------------ *)
(** * 3. The induction of Proofs/SerToValue.v with the Number protocol node allowed *)

Fixpoint c15_side_lit (ap : bool) (v : sval) : bool :=
  match v with
  | SInt _ z => ap || in_value_range z
  | SF32 b => ap || negb (finite32 b)
  | SNumLit _ => true
  | SSome v | SNewtypeStruct v | SNewtypeVariant _ v => c15_side_lit ap v
  | SSeq _ es | STuple es | STupleStruct es | STupleVariant _ es => forallb (c15_side_lit ap) es
  | SMap _ kvs => forallb (fun kv => c15_side_lit ap (snd kv)) kvs
  | SStruct fs | SStructVariant _ fs => forallb (fun kv => c15_side_lit ap (snd kv)) fs
  | _ => true
  end.

(* with arbitrary_precision there is no exception at all *)
Lemma c15_side_lit_ap : forall v, c15_side_lit true v = true.
Proof.
  induction v using sval_ind'; cbn [c15_side_lit orb]; try reflexivity; try assumption.
  - apply forallb_forall. rewrite Forall_forall in H. exact H.
  - apply forallb_forall. rewrite Forall_forall in H. exact H.
  - apply forallb_forall. rewrite Forall_forall in H. exact H.
  - apply forallb_forall. rewrite Forall_forall in H. exact H.
  - apply forallb_forall. rewrite Forall_forall in H. intros kv Hkv. exact (proj2 (H kv Hkv)).
  - apply forallb_forall. rewrite Forall_forall in H. exact H.
  - apply forallb_forall. rewrite Forall_forall in H. exact H.
Qed.

(* the old side condition implies the new one *)
Lemma c15_side_weaken (ap : bool) : forall v, c15_side ap v = true -> c15_side_lit ap v = true.
Proof.
  induction v using sval_ind'; cbn [c15_side c15_side_lit]; intros S; try exact S; try (apply IHv; exact S); try discriminate S.
  - rewrite forallb_forall in *. rewrite Forall_forall in H. intros x Hx. exact (H x Hx (S x Hx)).
  - rewrite forallb_forall in *. rewrite Forall_forall in H. intros x Hx. exact (H x Hx (S x Hx)).
  - rewrite forallb_forall in *. rewrite Forall_forall in H. intros x Hx. exact (H x Hx (S x Hx)).
  - rewrite forallb_forall in *. rewrite Forall_forall in H. intros x Hx. exact (H x Hx (S x Hx)).
  - rewrite forallb_forall in *. rewrite Forall_forall in H. intros x Hx. exact (proj2 (H x Hx) (S x Hx)).
  - rewrite forallb_forall in *. rewrite Forall_forall in H. intros x Hx. exact (H x Hx (S x Hx)).
  - rewrite forallb_forall in *. rewrite Forall_forall in H. intros x Hx. exact (H x Hx (S x Hx)).
Qed.

Section C15Lit.
  Variable cf : cfg.
  Variable fmt32 fmt64 : N -> bytes.
  Notation cst_of := (cst_of cf fmt32 fmt64).
  Notation image := (image cf fmt32 fmt64).
  Notation to_value := (to_value cf fmt32 fmt64).
  Notation key_pieces := (key_pieces fmt32 fmt64).
  Notation key_text := (key_text fmt32 fmt64).
  Notation key_string := (key_string fmt32 fmt64).
  Notation apf := (arbitrary_precision cf).

  Hypothesis H32 : forall b, f32_finite_bits b = true -> number_text_ok (fmt32 b) = true.
  Hypothesis H64 : forall b, f64_finite_bits b = true -> number_text_ok (fmt64 b) = true.
  Hypothesis H4 : apf = false -> forall b, f64_finite_bits b = true ->
    num_image cf (fmt64 b) = Some (VNum (NFloat (f64_of_bits b))).
  Hypothesis Hlit : apf = true -> forall s, number_text_ok s = true -> num_image cf s = Some (VNum (NLit s)).

  Definition TL (v : sval) : Prop := wfs v = true -> c15_side_lit apf v = true ->
    match cst_of v with
    | Some _ => exists j, to_value v = Ok j /\ image v = Some j
    | None => exists e, to_value v = Err e O /\ keyerr e
    end.

  Lemma TL_elems es : Forall TL es -> forallb wfs es = true -> forallb (c15_side_lit apf) es = true ->
    match sequence (map cst_of es) with
    | Some _ => exists xs, tv_elems to_value es = Ok xs /\ sequence (map image es) = Some xs
    | None => exists e, tv_elems to_value es = Err e O /\ keyerr e
    end.
  Proof.
    induction 1 as [|e r He _ IH]; intros W S; cbn [map sequence tv_elems].
    - exists []. auto.
    - cbn [forallb] in W, S. apply andb_true_iff in W as [We Wr]. apply andb_true_iff in S as [Se Sr].
      specialize (He We Se). specialize (IH Wr Sr). destruct (cst_of e) as [c|].
      + destruct He as [x [Hx Hi]]. rewrite Hx, Hi. cbn [bind]. destruct (sequence (map cst_of r)) as [cs|]; cbn [option_map].
        * destruct IH as [xs [Hxs His]]. rewrite Hxs, His. cbn [bind option_map]. eauto.
        * destruct IH as [e' [He' K]]. rewrite He'. cbn [bind]. eauto.
      + destruct He as [e' [He' K]]. rewrite He'. cbn [bind]. eauto.
  Qed.

  Lemma TL_entries {K} (keyf : K -> res bytes) (kp : K -> option (list strpiece)) (kt : K -> option bytes) (l : list (K * sval)) :
    (forall k, match kp k with
               | Some _ => exists t, keyf k = Ok t /\ kt k = Some t
               | None => exists e, keyf k = Err e O /\ keyerr e
               end) ->
    Forall (fun kv => TL (snd kv)) l -> forallb (fun kv => wfs (snd kv)) l = true ->
    forallb (fun kv => c15_side_lit apf (snd kv)) l = true ->
    forall m,
    match sequence (map (fun kv => pair_opt (kp (fst kv)) (cst_of (snd kv))) l) with
    | Some _ => exists es, sequence (map (fun kv => pair_opt (kt (fst kv)) (image (snd kv))) l) = Some es
                           /\ tv_entries cf to_value keyf l m = Ok (fold_left (ins cf) es m)
    | None => exists e, tv_entries cf to_value keyf l m = Err e O /\ keyerr e
    end.
  Proof.
    intros Hkey. induction 1 as [|[k v] r Hv _ IH]; intros W S m; cbn [map sequence tv_entries fst snd].
    - exists []. auto.
    - cbn [forallb snd] in W, S. apply andb_true_iff in W as [Wv Wr]. apply andb_true_iff in S as [Sv Sr]. cbn [snd] in Hv.
      specialize (Hv Wv Sv). pose proof (Hkey k) as Hk. destruct (kp k) as [p|]; cbn [pair_opt].
      2:{ destruct Hk as [e [He Kerr]]. rewrite He. cbn [bind]. eauto. }
      destruct Hk as [t [Ht Hkt]]. rewrite Ht, Hkt. cbn [bind]. destruct (cst_of v) as [c|].
      + destruct Hv as [x [Hx Hi]]. rewrite Hx, Hi. cbn [bind pair_opt].
        specialize (IH Wr Sr (minsert cf t x m)).
        destruct (sequence (map (fun kv => pair_opt (kp (fst kv)) (cst_of (snd kv))) r)) as [ms|]; cbn [option_map].
        * destruct IH as [es [Hes Htv]]. rewrite Hes. cbn [option_map]. exists ((t, x) :: es). split; [reflexivity|].
          rewrite Htv. reflexivity.
        * exact IH.
      + destruct Hv as [e [He Kerr]]. rewrite He. cbn [bind]. eauto.
  Qed.

  (* the new case *)
  Lemma TL_numlit l : TL (SNumLit l).
  Proof.
    unfold TL. intros W _. cbn [wfs] in W. cbn [cst_of to_value image]. unfold ap.
    destruct apf eqn:Ea.
    - destruct (proj1 (number_text_ok_iff l) W) as (n & Hok & ->).
      exists (VNum (NLit (render_num n))). rewrite (vs_number_from_str_verbatim cf n Ea Hok). cbn [bind].
      split; [reflexivity|]. apply (Hlit eq_refl), W.
    - eexists. split; reflexivity.
  Qed.

  Theorem to_value_image_lit : forall v, TL v.
  Proof.
    induction v using sval_ind'; try (apply TL_numlit);
      unfold TL; intros W S; cbn [cst_of to_value image]; cbn [wfs] in W; cbn [c15_side_lit] in S.
    - eauto.
    - exists (VNum (number_of_int cf z)).
      split; [apply (tv_int_ok cf fmt64 H4 Hlit ty z W (side_int cf z S)) | apply (int_image cf fmt64 H4 Hlit ty z W (side_int cf z S))].
    - change (finite32 b) with (f32_finite_bits b) in *. unfold tv_f32, ap. destruct (f32_finite_bits b) eqn:Ef; [|eauto].
      destruct apf eqn:Ea; [|cbn in S; discriminate]. eexists. split; [reflexivity|]. apply (Hlit eq_refl), H32, Ef.
    - change (finite64 b) with (f64_finite_bits b). unfold tv_f64, ap. destruct (f64_finite_bits b) eqn:Ef; [|eauto].
      destruct apf eqn:Ea; (eexists; split; [reflexivity|]); [apply (Hlit eq_refl), H64, Ef | apply (H4 eq_refl), Ef].
    - eauto.
    - eauto.
    - eexists. split; [reflexivity|]. rewrite (bytes_image cf fmt32 fmt64 H32 H64 H4 Hlit s W). reflexivity.
    - eauto.
    - exact (IHv W S).
    - eauto.
    - eauto.
    - eauto.
    - exact (IHv W S).
    - apply andb_true_iff in W as [_ W]. specialize (IHv W S). destruct (cst_of v) as [c|]; cbn [option_map].
      + destruct IHv as [x [Hx Hi]]. rewrite Hx, Hi. cbn [bind option_map]. eexists. split; reflexivity.
      + destruct IHv as [e [He Ke]]. rewrite He. cbn [bind]. eauto.
    - apply andb_true_iff in W as [_ W]. pose proof (TL_elems es H W S) as HE.
      destruct (sequence (map cst_of es)) as [cs|]; cbn [option_map].
      + destruct HE as [xs [Hx Hi]]. rewrite Hx, Hi. cbn [bind option_map]. eauto.
      + destruct HE as [e [He Ke]]. rewrite He. cbn [bind]. eauto.
    - pose proof (TL_elems es H W S) as HE.
      destruct (sequence (map cst_of es)) as [cs|]; cbn [option_map].
      + destruct HE as [xs [Hx Hi]]. rewrite Hx, Hi. cbn [bind option_map]. eauto.
      + destruct HE as [e [He Ke]]. rewrite He. cbn [bind]. eauto.
    - pose proof (TL_elems es H W S) as HE.
      destruct (sequence (map cst_of es)) as [cs|]; cbn [option_map].
      + destruct HE as [xs [Hx Hi]]. rewrite Hx, Hi. cbn [bind option_map]. eauto.
      + destruct HE as [e [He Ke]]. rewrite He. cbn [bind]. eauto.
    - apply andb_true_iff in W as [_ W]. pose proof (TL_elems es H W S) as HE.
      destruct (sequence (map cst_of es)) as [cs|]; cbn [option_map].
      + destruct HE as [xs [Hx Hi]]. rewrite Hx, Hi. cbn [bind option_map]. eexists. split; reflexivity.
      + destruct HE as [e [He Ke]]. rewrite He. cbn [bind]. eauto.
    - apply andb_true_iff in W as [_ W].
      pose proof (TL_entries key_string key_pieces key_text kvs (key_string_spec fmt32 fmt64)
                    (Forall_impl _ (fun kv HP => proj2 HP) H) (side_entries _ W) S []) as HE.
      destruct (sequence (map (fun kv => pair_opt (key_pieces (fst kv)) (cst_of (snd kv))) kvs)) as [ms|]; cbn [option_map].
      + destruct HE as [es [Hes Htv]]. rewrite Hes, Htv. cbn [bind option_map]. eexists. split; reflexivity.
      + destruct HE as [e [He Ke]]. rewrite He. cbn [bind]. eauto.
    - pose proof (TL_entries ok_key (fun k => Some (pieces_of k)) (fun k => Some k) fs field_key_spec H (side_fields _ W) S []) as HE.
      destruct (sequence (map (fun kv => pair_opt (Some (pieces_of (fst kv))) (cst_of (snd kv))) fs)) as [ms|]; cbn [option_map].
      + destruct HE as [es [Hes Htv]]. rewrite Hes, Htv. cbn [bind option_map]. eexists. split; reflexivity.
      + destruct HE as [e [He Ke]]. rewrite He. cbn [bind]. eauto.
    - apply andb_true_iff in W as [_ W].
      pose proof (TL_entries ok_key (fun k => Some (pieces_of k)) (fun k => Some k) fs field_key_spec H (side_fields _ W) S []) as HE.
      destruct (sequence (map (fun kv => pair_opt (Some (pieces_of (fst kv))) (cst_of (snd kv))) fs)) as [ms|]; cbn [option_map].
      + destruct HE as [es [Hes Htv]]. rewrite Hes, Htv. cbn [bind option_map]. eexists. split; reflexivity.
      + destruct HE as [e [He Ke]]. rewrite He. cbn [bind]. eauto.
    - eauto.
  Qed.

  Theorem C15_same_success_lit_sec v : wfs v = true -> c15_side_lit apf v = true ->
    ((exists j, to_value v = Ok j) <-> (exists bufs, serialize cf fmt32 fmt64 Compact v = Ok bufs)).
  Proof.
    intros W S. pose proof (to_value_image_lit v W S) as HT. split.
    - intros [j Hj]. destruct (cst_of v) as [c|] eqn:Ec.
      + destruct (serialize_ok cf fmt32 fmt64 Compact v c W Ec) as [b [E _]]. eauto.
      + destruct HT as [e [He _]]. rewrite Hj in He. discriminate.
    - intros [bufs Hb]. destruct (serialize_ok_inv cf fmt32 fmt64 Compact v bufs W Hb) as [c [Ec _]]. rewrite Ec in HT.
      destruct HT as [j [Hj _]]. eauto.
  Qed.

  Theorem C15_same_rejection_lit_sec v : wfs v = true -> c15_side_lit apf v = true ->
    (exists e, to_value v = Err e O /\ keyerr e) <-> (exists e, serialize cf fmt32 fmt64 Compact v = Err e O /\ keyerr e).
  Proof.
    intros W S. pose proof (to_value_image_lit v W S) as HT. split.
    - intros [e [He _]]. destruct (cst_of v) as [c|] eqn:Ec.
      + destruct HT as [j [Hj _]]. rewrite Hj in He. discriminate.
      + apply (serialize_err cf fmt32 fmt64 Compact v W Ec).
    - intros [e [He _]]. destruct (serialize_err_inv cf fmt32 fmt64 Compact v e O W He) as [Ec _]. rewrite Ec in HT. exact HT.
  Qed.

  Theorem C15_same_value_lit_sec v j bufs : wfs v = true -> c15_side_lit apf v = true ->
    to_value v = Ok j -> serialize cf fmt32 fmt64 Compact v = Ok bufs ->
    exists c, concat bufs = render c /\ wfb c = true /\ denote cf c = Some j.
  Proof.
    intros W S Hj Hb. destruct (serialize_ok_inv cf fmt32 fmt64 Compact v bufs W Hb) as [c [Ec C]].
    exists c. split; [exact C|]. split; [apply (C03_wf_nows cf fmt32 fmt64 H32 H64 v c W Ec)|].
    rewrite (C03_denotes_image cf fmt32 fmt64 H32 H64 v c W Ec).
    pose proof (to_value_image_lit v W S) as HT. rewrite Ec in HT. destruct HT as [j' [Hj' Hi]]. rewrite Hj in Hj'. inversion Hj'. exact Hi.
  Qed.
End C15Lit.

(* ------------------------------------------------------------------------------------------------------------------ *)
(** * 4. The statements of Properties/C15.v with [SNumLit] allowed; premises discharged as in Proofs/SerFinal.v *)

Theorem C15_same_success_lit : forall cf fmt32 fmt64 v, ryu_json fmt32 fmt64 -> ryu_reads_back cf fmt64 ->
  wfs v = true -> c15_side_lit (arbitrary_precision cf) v = true ->
  ((exists j, to_value cf fmt32 fmt64 v = Ok j) <-> (exists bufs, serialize cf fmt32 fmt64 Compact v = Ok bufs)).
Proof.
  intros cf f32 f64 v [H1 H2] H4. exact (C15_same_success_lit_sec cf f32 f64 H1 H2 H4 (literal_kept_holds cf) v).
Qed.

Theorem C15_same_rejection_lit : forall cf fmt32 fmt64 v, ryu_json fmt32 fmt64 -> ryu_reads_back cf fmt64 ->
  wfs v = true -> c15_side_lit (arbitrary_precision cf) v = true ->
  ((exists e, to_value cf fmt32 fmt64 v = Err e O /\ (e = KeyMustBeAString \/ e = FloatKeyMustBeFinite))
   <-> (exists e, serialize cf fmt32 fmt64 Compact v = Err e O /\ (e = KeyMustBeAString \/ e = FloatKeyMustBeFinite))).
Proof.
  intros cf f32 f64 v [H1 H2] H4. exact (C15_same_rejection_lit_sec cf f32 f64 H1 H2 H4 (literal_kept_holds cf) v).
Qed.

Theorem C15_same_value_lit : forall cf fmt32 fmt64 v j bufs, ryu_json fmt32 fmt64 -> ryu_reads_back cf fmt64 ->
  wfs v = true -> c15_side_lit (arbitrary_precision cf) v = true ->
  to_value cf fmt32 fmt64 v = Ok j -> serialize cf fmt32 fmt64 Compact v = Ok bufs ->
  exists c, concat bufs = render c /\ wfb c = true /\ denote cf c = Some j.
Proof.
  intros cf f32 f64 v j bufs [H1 H2] H4. exact (C15_same_value_lit_sec cf f32 f64 H1 H2 H4 (literal_kept_holds cf) v j bufs).
Qed.

Theorem C15_parse_back_lit : forall cf fmt32 fmt64 v j bufs, ryu_json fmt32 fmt64 -> ryu_reads_back cf fmt64 ->
  wfs v = true -> c15_side_lit (arbitrary_precision cf) v = true ->
  to_value cf fmt32 fmt64 v = Ok j -> serialize cf fmt32 fmt64 Compact v = Ok bufs ->
  (forall c, concat bufs = render c -> limit_disabled cf = false -> (cdepth c <= 127)%nat) ->
  from_input (mkEnv RSlice TEof cf) (concat bufs) = Ok j.
Proof.
  intros cf f32 f64 v j bufs HR H4 W S Hj Hb Hd.
  destruct (C15_same_value_lit cf f32 f64 v j bufs HR H4 W S Hj Hb) as [c [C [G D]]].
  apply (parser_complete_holds cf). exists [], c, []. rewrite app_nil_r. cbn [app]. repeat split; auto.
Qed.

(* ---- arbitrary_precision = true: every well-formed call tree, Numbers included, no exception ------------------------ *)
Lemma reads_back_vacuous (cf : cfg) (fmt64 : N -> bytes) : arbitrary_precision cf = true -> ryu_reads_back cf fmt64.
Proof. intros Hap Hf. rewrite Hap in Hf. discriminate Hf. Qed.

Theorem C15_ap_same_success : forall cf fmt32 fmt64 v, arbitrary_precision cf = true -> ryu_json fmt32 fmt64 ->
  wfs v = true ->
  ((exists j, to_value cf fmt32 fmt64 v = Ok j) <-> (exists bufs, serialize cf fmt32 fmt64 Compact v = Ok bufs)).
Proof.
  intros cf f32 f64 v Hap HR W. apply (C15_same_success_lit cf f32 f64 v HR (reads_back_vacuous cf f64 Hap) W).
  rewrite Hap. apply c15_side_lit_ap.
Qed.

Theorem C15_ap_same_rejection : forall cf fmt32 fmt64 v, arbitrary_precision cf = true -> ryu_json fmt32 fmt64 ->
  wfs v = true ->
  ((exists e, to_value cf fmt32 fmt64 v = Err e O /\ (e = KeyMustBeAString \/ e = FloatKeyMustBeFinite))
   <-> (exists e, serialize cf fmt32 fmt64 Compact v = Err e O /\ (e = KeyMustBeAString \/ e = FloatKeyMustBeFinite))).
Proof.
  intros cf f32 f64 v Hap HR W. apply (C15_same_rejection_lit cf f32 f64 v HR (reads_back_vacuous cf f64 Hap) W).
  rewrite Hap. apply c15_side_lit_ap.
Qed.

Theorem C15_ap_same_value : forall cf fmt32 fmt64 v j bufs, arbitrary_precision cf = true -> ryu_json fmt32 fmt64 ->
  wfs v = true ->
  to_value cf fmt32 fmt64 v = Ok j -> serialize cf fmt32 fmt64 Compact v = Ok bufs ->
  exists c, concat bufs = render c /\ wfb c = true /\ denote cf c = Some j.
Proof.
  intros cf f32 f64 v j bufs Hap HR W. apply (C15_same_value_lit cf f32 f64 v j bufs HR (reads_back_vacuous cf f64 Hap) W).
  rewrite Hap. apply c15_side_lit_ap.
Qed.

Theorem C15_ap_parse_back : forall cf fmt32 fmt64 v j bufs, arbitrary_precision cf = true -> ryu_json fmt32 fmt64 ->
  wfs v = true ->
  to_value cf fmt32 fmt64 v = Ok j -> serialize cf fmt32 fmt64 Compact v = Ok bufs ->
  (forall c, concat bufs = render c -> limit_disabled cf = false -> (cdepth c <= 127)%nat) ->
  from_input (mkEnv RSlice TEof cf) (concat bufs) = Ok j.
Proof.
  intros cf f32 f64 v j bufs Hap HR W. apply (C15_parse_back_lit cf f32 f64 v j bufs HR (reads_back_vacuous cf f64 Hap) W).
  rewrite Hap. apply c15_side_lit_ap.
Qed.

(* ------------------------------------------------------------------------------------------------------------------ *)
(** * 5. The node on its own: the literal verbatim on both routes *)

Lemma serialize_numlit (cf : cfg) (fmt32 fmt64 : N -> bytes) (l : bytes) : arbitrary_precision cf = true ->
  serialize cf fmt32 fmt64 Compact (SNumLit l) = Ok [l].
Proof. intros Hap. unfold serialize, serialize_trace. cbn [ser]. rewrite Hap. reflexivity. Qed.

Theorem C15_numlit_verbatim : forall cf fmt32 fmt64 l, arbitrary_precision cf = true -> number_text_ok l = true ->
  serialize cf fmt32 fmt64 Compact (SNumLit l) = Ok [l]
  /\ to_value cf fmt32 fmt64 (SNumLit l) = Ok (VNum (NLit l))
  /\ from_input (mkEnv RSlice TEof cf) l = Ok (VNum (NLit l)).
Proof.
  intros cf f32 f64 l Hap W. split; [apply serialize_numlit, Hap|].
  destruct (proj1 (number_text_ok_iff l) W) as (n & Hok & ->). split.
  - cbn [to_value]. unfold ap. rewrite Hap, (vs_number_from_str_verbatim cf n Hap Hok). reflexivity.
  - apply verbatim_alone; assumption.
Qed.

(* the literal is NOT a JSON number (private API misuse: Number::from_string_unchecked): the two routes disagree —
   to_string writes the text raw and succeeds, to_value validates and fails *)
Theorem C15_numlit_invalid_disagree : forall cf fmt32 fmt64 l, arbitrary_precision cf = true -> number_text_ok l = false ->
  serialize cf fmt32 fmt64 Compact (SNumLit l) = Ok [l]
  /\ forall j, to_value cf fmt32 fmt64 (SNumLit l) <> Ok j.
Proof.
  intros cf f32 f64 l Hap W. split; [apply serialize_numlit, Hap|]. intros j Hj.
  cbn [to_value] in Hj. unfold ap in Hj. rewrite Hap in Hj.
  destruct (ValueSer.number_from_str cf l) as [x| | |] eqn:Hx; try discriminate Hj.
  destruct (vs_number_from_str_sound cf l x Hap Hx) as (n & Hok & Hl & _).
  assert (Ht : number_text_ok l = true) by (apply number_text_ok_iff; exists n; auto).
  rewrite W in Ht. discriminate Ht.
Qed.

(* to_value succeeds on the node exactly when the text is a JSON number *)
Corollary C15_numlit_to_value_iff : forall cf fmt32 fmt64 l, arbitrary_precision cf = true ->
  ((exists j, to_value cf fmt32 fmt64 (SNumLit l) = Ok j) <-> number_text_ok l = true).
Proof.
  intros cf f32 f64 l Hap. split.
  - intros [j Hj]. destruct (number_text_ok l) eqn:W; [reflexivity|].
    exfalso. exact (proj2 (C15_numlit_invalid_disagree cf f32 f64 l Hap W) j Hj).
  - intros W. eexists. exact (proj1 (proj2 (C15_numlit_verbatim cf f32 f64 l Hap W))).
Qed.

(* ------------------------------------------------------------------------------------------------------------------ *)
(** * 6. A whole Value whose Numbers hold literals: to_value(&v) = v and from_str(to_string(&v)) = v *)
Theorem C15_value_with_numbers : forall cf fmt32 fmt64 v, arbitrary_precision cf = true -> ryu_json fmt32 fmt64 ->
  wf_value cf v = true ->
  to_value cf fmt32 fmt64 (sval_of_value v) = Ok v
  /\ exists bufs c, serialize cf fmt32 fmt64 Compact (sval_of_value v) = Ok bufs /\ concat bufs = render c /\ denote cf c = Some v
     /\ ((limit_disabled cf = false -> (cdepth c <= 127)%nat) -> from_input (mkEnv RSlice TEof cf) (concat bufs) = Ok v).
Proof.
  intros cf f32 f64 v Hap HR W.
  assert (H4 : ryu_reads_back_value cf f64) by (intros Hf; rewrite Hap in Hf; discriminate Hf).
  pose proof HR as [H1 H2].
  destruct (value_image cf f32 f64 H4 (literal_kept_holds cf) v W) as [Ws Hi].
  destruct (value_cst cf f32 f64 v) as [c Hc].
  assert (S : c15_side_lit (arbitrary_precision cf) (sval_of_value v) = true) by (rewrite Hap; apply c15_side_lit_ap).
  pose proof (to_value_image_lit cf f32 f64 H1 H2 (reads_back_vacuous cf f64 Hap) (literal_kept_holds cf) (sval_of_value v) Ws S) as HT.
  rewrite Hc in HT. destruct HT as [j [Hj Hij]]. rewrite Hi in Hij. injection Hij as <-.
  split; [exact Hj|].
  destruct (serialize_ok cf f32 f64 Compact _ c Ws Hc) as [bufs [Es C]]. rewrite print_compact in C.
  assert (Dn : denote cf c = Some v) by (rewrite (C03_denotes_image cf f32 f64 H1 H2 _ c Ws Hc); exact Hi).
  exists bufs, c. split; [exact Es|]. split; [exact C|]. split; [exact Dn|].
  intros Hd. apply (parser_complete_holds cf). exists [], c, []. rewrite app_nil_r. cbn [app].
  destruct (C03_wf_nows cf f32 f64 H1 H2 _ c Ws Hc) as [G _]. repeat split; auto.
Qed.

(* ------------------------------------------------------------------------------------------------------------------ *)
(** * 7. Examples *)
Definition cfa : cfg := mkCfg false false true false.
Definition f0 : N -> bytes := fun _ => [].

(* [1.50, -0, {"k": 1E+05}] as a call tree with three Numbers: the literals are kept verbatim on both routes *)
Definition ex_tree : sval :=
  SSeq (Some 3%nat) [SNumLit [49;46;53;48]; SNumLit [45;48]; SMap (Some 1%nat) [(SStr [107], SNumLit [49;69;43;48;53])]].

Example C15_ex_tree :
  to_value cfa f0 f0 ex_tree = Ok (VArr [VNum (NLit [49;46;53;48]); VNum (NLit [45;48]); VObj [([107], VNum (NLit [49;69;43;48;53]))]])
  /\ rmap (@concat N) (serialize cfa f0 f0 Compact ex_tree)
     = Ok [91; 49;46;53;48; 44; 45;48; 44; 123; 34;107;34; 58; 49;69;43;48;53; 125; 93]
  /\ from_input (mkEnv RSlice TEof cfa) [91; 49;46;53;48; 44; 45;48; 44; 123; 34;107;34; 58; 49;69;43;48;53; 125; 93]
     = Ok (VArr [VNum (NLit [49;46;53;48]); VNum (NLit [45;48]); VObj [([107], VNum (NLit [49;69;43;48;53]))]]).
Proof. repeat split; vm_compute; reflexivity. Qed.

(* a text that is not a number ("1e", "abc", "01"): to_string prints it, to_value refuses it *)
Example C15_ex_invalid_literal :
  serialize cfa f0 f0 Compact (SNumLit [49;101]) = Ok [[49;101]]
  /\ to_value cfa f0 f0 (SNumLit [49;101]) = Err EofWhileParsingValue 2
  /\ to_value cfa f0 f0 (SNumLit [97;98;99]) = Err InvalidNumber 1
  /\ to_value cfa f0 f0 (SNumLit [48;49]) = Err InvalidNumber 2
  /\ serialize cfa f0 f0 Compact (SNumLit [48;49]) = Ok [[48;49]].
Proof. repeat split; vm_compute; reflexivity. Qed.

(* without the feature the token is an ordinary struct on both routes *)
Example C15_ex_default_build :
  to_value (mkCfg false false false false) f0 f0 (SNumLit [49]) = Ok (VObj [(NUMBER_TOKEN, VStr [49])])
  /\ rmap (@concat N) (serialize (mkCfg false false false false) f0 f0 Compact (SNumLit [49]))
     = Ok (123 :: 34 :: NUMBER_TOKEN ++ [34; 58; 34; 49; 34; 125])
  /\ from_input (mkEnv RSlice TEof (mkCfg false false false false)) (123 :: 34 :: NUMBER_TOKEN ++ [34; 58; 34; 49; 34; 125])
     = Ok (VObj [(NUMBER_TOKEN, VStr [49])]).
Proof. split; [vm_compute; reflexivity|]. split; [vm_compute; reflexivity|]. vm_compute. reflexivity. Qed.

Print Assumptions number_text_ok_iff.
Print Assumptions to_value_image_lit.
Print Assumptions C15_same_success_lit.
Print Assumptions C15_same_rejection_lit.
Print Assumptions C15_same_value_lit.
Print Assumptions C15_parse_back_lit.
Print Assumptions C15_ap_same_success.
Print Assumptions C15_ap_same_rejection.
Print Assumptions C15_ap_same_value.
Print Assumptions C15_ap_parse_back.
Print Assumptions C15_numlit_verbatim.
Print Assumptions C15_numlit_invalid_disagree.
Print Assumptions C15_value_with_numbers.
