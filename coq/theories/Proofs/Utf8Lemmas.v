(* Proofs/Utf8Lemmas.v — facts about UTF-8 well-formedness (Base/Utf8.v: utf8_valid, Unicode Table 3-7).

   [U8] is the inductive reading of utf8_valid (a sequence of well-formed 1/2/3/4-byte encodings); utf8_valid_U8 shows
   the two coincide.  From it:
     utf8_valid_bytes      valid strings consist of bytes (< 256)
     utf8_valid_app        concatenation of valid strings is valid
     utf8_valid_cut        a valid string cut at an ASCII byte is valid on both sides
     utf8_valid_cons_ascii an ASCII byte in front does not matter
     utf8_encode_valid     the encoding of a Unicode scalar value is valid *)
From Coq Require Import List NArith ZArith Bool Arith Lia ZifyBool ZifyNat ZifyN.
From SJ Require Import Base.Bytes Base.Utf8.
Import ListNotations.
Open Scope N_scope.

Definition seq2 (b0 b1 : N) : bool := in_rng b0 194 223 && is_cont b1.
Definition seq3 (b0 b1 b2 : N) : bool :=
  (((b0 =? 224) && in_rng b1 160 191)
   || ((in_rng b0 225 236 || in_rng b0 238 239) && is_cont b1)
   || ((b0 =? 237) && in_rng b1 128 159)) && is_cont b2.
Definition seq4 (b0 b1 b2 b3 : N) : bool :=
  (((b0 =? 240) && in_rng b1 144 191)
   || (in_rng b0 241 243 && is_cont b1)
   || ((b0 =? 244) && in_rng b1 128 143)) && is_cont b2 && is_cont b3.

Inductive U8 : bytes -> Prop :=
  | U8_nil : U8 []
  | U8_1 : forall b0 r, b0 < 128 -> U8 r -> U8 (b0 :: r)
  | U8_2 : forall b0 b1 r, seq2 b0 b1 = true -> U8 r -> U8 (b0 :: b1 :: r)
  | U8_3 : forall b0 b1 b2 r, seq3 b0 b1 b2 = true -> U8 r -> U8 (b0 :: b1 :: b2 :: r)
  | U8_4 : forall b0 b1 b2 b3 r, seq4 b0 b1 b2 b3 = true -> U8 r -> U8 (b0 :: b1 :: b2 :: b3 :: r).

Ltac unrng := unfold seq2, seq3, seq4, is_cont, in_rng in *.

(* one-step equations of utf8_valid *)
Lemma utf8_valid_cons_ascii : forall b0 r, b0 < 128 -> utf8_valid (b0 :: r) = utf8_valid r.
Proof. intros b0 r H. cbn [utf8_valid]. destruct (N.ltb_spec b0 128); [reflexivity|lia]. Qed.

Lemma utf8_valid_seq2 : forall b0 b1 r, seq2 b0 b1 = true -> utf8_valid (b0 :: b1 :: r) = utf8_valid r.
Proof.
  intros b0 b1 r H. cbn [utf8_valid]. unrng.
  destruct (N.ltb_spec b0 128); [lia|].
  destruct ((194 <=? b0) && (b0 <=? 223)) eqn:H1; [|lia].
  replace ((128 <=? b1) && (b1 <=? 191)) with true by lia. reflexivity.
Qed.

Lemma utf8_valid_seq3 : forall b0 b1 b2 r, seq3 b0 b1 b2 = true -> utf8_valid (b0 :: b1 :: b2 :: r) = utf8_valid r.
Proof.
  intros b0 b1 b2 r H. cbn [utf8_valid]. unrng.
  destruct (N.ltb_spec b0 128); [lia|].
  destruct ((194 <=? b0) && (b0 <=? 223)) eqn:H1; [lia|].
  destruct (N.eqb_spec b0 224).
  { replace ((160 <=? b1) && (b1 <=? 191)) with true by lia.
    replace ((128 <=? b2) && (b2 <=? 191)) with true by lia. reflexivity. }
  destruct ((225 <=? b0) && (b0 <=? 236) || (238 <=? b0) && (b0 <=? 239)) eqn:H2.
  { replace ((128 <=? b1) && (b1 <=? 191)) with true by lia.
    replace ((128 <=? b2) && (b2 <=? 191)) with true by lia. reflexivity. }
  destruct (N.eqb_spec b0 237); [|lia].
  replace ((128 <=? b1) && (b1 <=? 159)) with true by lia.
  replace ((128 <=? b2) && (b2 <=? 191)) with true by lia. reflexivity.
Qed.

Lemma utf8_valid_seq4 : forall b0 b1 b2 b3 r, seq4 b0 b1 b2 b3 = true ->
  utf8_valid (b0 :: b1 :: b2 :: b3 :: r) = utf8_valid r.
Proof.
  intros b0 b1 b2 b3 r H. cbn [utf8_valid]. unrng.
  destruct (N.ltb_spec b0 128); [lia|].
  destruct ((194 <=? b0) && (b0 <=? 223)) eqn:H1; [lia|].
  destruct (N.eqb_spec b0 224); [lia|].
  destruct ((225 <=? b0) && (b0 <=? 236) || (238 <=? b0) && (b0 <=? 239)) eqn:H2; [lia|].
  destruct (N.eqb_spec b0 237); [lia|].
  destruct (N.eqb_spec b0 240).
  { replace ((144 <=? b1) && (b1 <=? 191)) with true by lia.
    replace ((128 <=? b2) && (b2 <=? 191)) with true by lia.
    replace ((128 <=? b3) && (b3 <=? 191)) with true by lia. reflexivity. }
  destruct ((241 <=? b0) && (b0 <=? 243)) eqn:H3.
  { replace ((128 <=? b1) && (b1 <=? 191)) with true by lia.
    replace ((128 <=? b2) && (b2 <=? 191)) with true by lia.
    replace ((128 <=? b3) && (b3 <=? 191)) with true by lia. reflexivity. }
  destruct (N.eqb_spec b0 244); [|lia].
  replace ((128 <=? b1) && (b1 <=? 143)) with true by lia.
  replace ((128 <=? b2) && (b2 <=? 191)) with true by lia.
  replace ((128 <=? b3) && (b3 <=? 191)) with true by lia. reflexivity.
Qed.

Lemma U8_utf8_valid : forall l, U8 l -> utf8_valid l = true.
Proof.
  induction 1 as [|b0 r H0 _ IH|b0 b1 r H0 _ IH|b0 b1 b2 r H0 _ IH|b0 b1 b2 b3 r H0 _ IH].
  - reflexivity.
  - rewrite utf8_valid_cons_ascii by exact H0. exact IH.
  - rewrite utf8_valid_seq2 by exact H0. exact IH.
  - rewrite utf8_valid_seq3 by exact H0. exact IH.
  - rewrite utf8_valid_seq4 by exact H0. exact IH.
Qed.

(* the first encoded character of a valid string *)
Lemma utf8_valid_head : forall l, utf8_valid l = true ->
  l = [] \/
  (exists b0 r, l = b0 :: r /\ b0 < 128 /\ utf8_valid r = true) \/
  (exists b0 b1 r, l = b0 :: b1 :: r /\ seq2 b0 b1 = true /\ utf8_valid r = true) \/
  (exists b0 b1 b2 r, l = b0 :: b1 :: b2 :: r /\ seq3 b0 b1 b2 = true /\ utf8_valid r = true) \/
  (exists b0 b1 b2 b3 r, l = b0 :: b1 :: b2 :: b3 :: r /\ seq4 b0 b1 b2 b3 = true /\ utf8_valid r = true).
Proof.
  intros l H. destruct l as [|b0 r0]; [left; reflexivity|]. right.
  cbn [utf8_valid] in H.
  destruct (N.ltb_spec b0 128) as [H0|H0].
  { left. exists b0, r0. auto. }
  right. destruct r0 as [|b1 r1]; [discriminate H|].
  destruct (in_rng b0 194 223) eqn:H1.
  { left. exists b0, b1, r1. apply andb_true_iff in H. destruct H as [Hc Hr].
    split; [reflexivity|]. split; [unfold seq2; rewrite H1, Hc; reflexivity|exact Hr]. }
  right. destruct r1 as [|b2 r2]; [discriminate H|].
  destruct (b0 =? 224) eqn:H2.
  { left. exists b0, b1, b2, r2. apply andb_true_iff in H. destruct H as [H Hr].
    split; [reflexivity|]. split; [|exact Hr]. unfold seq3. rewrite H2. unrng. lia. }
  destruct (in_rng b0 225 236 || in_rng b0 238 239) eqn:H3.
  { left. exists b0, b1, b2, r2. apply andb_true_iff in H. destruct H as [H Hr].
    split; [reflexivity|]. split; [|exact Hr]. unfold seq3. rewrite H2, H3. unrng. lia. }
  destruct (b0 =? 237) eqn:H4.
  { left. exists b0, b1, b2, r2. apply andb_true_iff in H. destruct H as [H Hr].
    split; [reflexivity|]. split; [|exact Hr]. unfold seq3. rewrite H2, H3, H4. unrng. lia. }
  right. destruct r2 as [|b3 r3]; [discriminate H|].
  exists b0, b1, b2, b3, r3. split; [reflexivity|].
  destruct (b0 =? 240) eqn:H5.
  { apply andb_true_iff in H. destruct H as [H Hr]. split; [|exact Hr]. unfold seq4. rewrite H5. unrng. lia. }
  destruct (in_rng b0 241 243) eqn:H6.
  { apply andb_true_iff in H. destruct H as [H Hr]. split; [|exact Hr]. unfold seq4. rewrite H5, H6. unrng. lia. }
  destruct (b0 =? 244) eqn:H7; [|discriminate H].
  apply andb_true_iff in H. destruct H as [H Hr]. split; [|exact Hr]. unfold seq4. rewrite H5, H6, H7. unrng. lia.
Qed.

Lemma utf8_valid_U8 : forall l, utf8_valid l = true -> U8 l.
Proof.
  intros l. remember (length l) as n eqn:Hn. revert l Hn.
  induction n as [n IH] using lt_wf_ind. intros l Hn H.
  destruct (utf8_valid_head l H) as [->|[(b0 & r & -> & H0 & Hr)|[(b0 & b1 & r & -> & H0 & Hr)|
    [(b0 & b1 & b2 & r & -> & H0 & Hr)|(b0 & b1 & b2 & b3 & r & -> & H0 & Hr)]]]].
  - constructor.
  - apply U8_1; [exact H0|]. apply (IH (length r)); [subst n; cbn [length]; lia|reflexivity|exact Hr].
  - apply U8_2; [exact H0|]. apply (IH (length r)); [subst n; cbn [length]; lia|reflexivity|exact Hr].
  - apply U8_3; [exact H0|]. apply (IH (length r)); [subst n; cbn [length]; lia|reflexivity|exact Hr].
  - apply U8_4; [exact H0|]. apply (IH (length r)); [subst n; cbn [length]; lia|reflexivity|exact Hr].
Qed.

Lemma utf8_valid_iff : forall l, utf8_valid l = true <-> U8 l.
Proof. intros l. split; [apply utf8_valid_U8|apply U8_utf8_valid]. Qed.

(* ---- consequences ---- *)
Lemma U8_bytes : forall l, U8 l -> Forall (fun b => b < 256) l.
Proof.
  induction 1 as [|b0 r H0 _ IH|b0 b1 r H0 _ IH|b0 b1 b2 r H0 _ IH|b0 b1 b2 b3 r H0 _ IH];
    repeat constructor; try exact IH; unrng; lia.
Qed.

Theorem utf8_valid_bytes : forall l, utf8_valid l = true -> Forall (fun b => b < 256) l.
Proof. intros l H. apply U8_bytes, utf8_valid_U8, H. Qed.

Lemma U8_app : forall a b, U8 a -> U8 b -> U8 (a ++ b).
Proof.
  intros a b Ha Hb.
  induction Ha as [|b0 r H0 _ IH|b0 b1 r H0 _ IH|b0 b1 b2 r H0 _ IH|b0 b1 b2 b3 r H0 _ IH]; cbn [app].
  - exact Hb.
  - apply U8_1; assumption.
  - apply U8_2; assumption.
  - apply U8_3; assumption.
  - apply U8_4; assumption.
Qed.

Theorem utf8_valid_app : forall a b, utf8_valid a = true -> utf8_valid b = true -> utf8_valid (a ++ b) = true.
Proof. intros a b Ha Hb. apply U8_utf8_valid, U8_app; apply utf8_valid_U8; assumption. Qed.

(* cutting at an ASCII byte: it cannot be in the middle of an encoded character *)
Lemma U8_cut : forall l, U8 l -> forall a x b, l = a ++ x :: b -> x < 128 -> U8 a /\ U8 b.
Proof.
  induction 1 as [|b0 r H0 Hr IH|b0 b1 r H0 Hr IH|b0 b1 b2 r H0 Hr IH|b0 b1 b2 b3 r H0 Hr IH];
    intros a x b Heq Hx.
  - destruct a; discriminate Heq.
  - destruct a as [|a0 a].
    + cbn [app] in Heq. injection Heq as -> ->. split; [constructor|exact Hr].
    + cbn [app] in Heq. injection Heq as -> ->. destruct (IH a x b eq_refl Hx) as [Ha Hb].
      split; [apply U8_1; assumption|exact Hb].
  - destruct a as [|a0 [|a1 a]]; cbn [app] in Heq.
    + injection Heq as -> _. exfalso. unrng. lia.
    + injection Heq as -> -> _. exfalso. unrng. lia.
    + injection Heq as -> -> ->. destruct (IH a x b eq_refl Hx) as [Ha Hb].
      split; [apply U8_2; assumption|exact Hb].
  - destruct a as [|a0 [|a1 [|a2 a]]]; cbn [app] in Heq.
    + injection Heq as -> _. exfalso. unrng. lia.
    + injection Heq as -> -> _. exfalso. unrng. lia.
    + injection Heq as -> -> -> _. exfalso. unrng. lia.
    + injection Heq as -> -> -> ->. destruct (IH a x b eq_refl Hx) as [Ha Hb].
      split; [apply U8_3; assumption|exact Hb].
  - destruct a as [|a0 [|a1 [|a2 [|a3 a]]]]; cbn [app] in Heq.
    + injection Heq as -> _. exfalso. unrng. lia.
    + injection Heq as -> -> _. exfalso. unrng. lia.
    + injection Heq as -> -> -> _. exfalso. unrng. lia.
    + injection Heq as -> -> -> -> _. exfalso. unrng. lia.
    + injection Heq as -> -> -> -> ->. destruct (IH a x b eq_refl Hx) as [Ha Hb].
      split; [apply U8_4; assumption|exact Hb].
Qed.

Theorem utf8_valid_cut : forall a x b, x < 128 ->
  utf8_valid (a ++ x :: b) = true -> utf8_valid a = true /\ utf8_valid b = true.
Proof.
  intros a x b Hx H. destruct (U8_cut _ (utf8_valid_U8 _ H) a x b eq_refl Hx) as [Ha Hb].
  split; apply U8_utf8_valid; assumption.
Qed.

Theorem utf8_valid_join : forall a x b, x < 128 ->
  utf8_valid a = true -> utf8_valid b = true -> utf8_valid (a ++ x :: b) = true.
Proof.
  intros a x b Hx Ha Hb. apply utf8_valid_app; [exact Ha|]. rewrite utf8_valid_cons_ascii by exact Hx. exact Hb.
Qed.

(* ---- the encoder ---- *)
Lemma lor_add_small : forall x k c, x < 2 ^ k -> c mod 2 ^ k = 0 -> N.lor x c = x + c.
Proof.
  intros x k c Hx Hc.
  assert (Hland : N.land x c = 0).
  { apply N.bits_inj. intros n. rewrite N.land_spec, N.bits_0.
    destruct (N.ltb_spec n k) as [Hlt|Hge].
    - assert (Hcn : N.testbit c n = false).
      { rewrite <- (N.mod_pow2_bits_low c k n Hlt), Hc. apply N.bits_0. }
      rewrite Hcn. apply andb_false_r.
    - rewrite <- (N.mod_small x (2 ^ k)) by exact Hx.
      rewrite N.mod_pow2_bits_high by exact Hge. reflexivity. }
  rewrite <- N.lxor_lor by exact Hland. rewrite <- N.add_nocarry_lxor by exact Hland. reflexivity.
Qed.

Lemma cont_byte : forall x, N.lor (N.land x 63) 128 = 128 + x mod 64.
Proof.
  intros x. change 63 with (N.ones 6). rewrite N.land_ones. change (2 ^ 6) with 64.
  rewrite (lor_add_small (x mod 64) 6 128); [lia| |reflexivity].
  change (2 ^ 6) with 64. apply N.mod_lt. discriminate.
Qed.

Lemma lead_byte : forall x k c, x < 2 ^ k -> c mod 2 ^ k = 0 -> N.lor x c = c + x.
Proof. intros. rewrite (lor_add_small x k c) by assumption. lia. Qed.

Ltac divmod := Zify.zify; Z.div_mod_to_equations; lia.

Theorem utf8_encode_valid : forall n, is_scalar n = true -> utf8_valid (utf8_encode n) = true.
Proof.
  intros n Hs. unfold is_scalar in Hs. apply U8_utf8_valid. unfold utf8_encode.
  destruct (N.ltb_spec n 128) as [H1|H1]; [apply U8_1; [exact H1|constructor]|].
  destruct (N.ltb_spec n 2048) as [H2|H2].
  { rewrite cont_byte, N.shiftr_div_pow2. change (2 ^ 6) with 64.
    rewrite (lead_byte (n / 64) 5 192); [|change (2 ^ 5) with 32; divmod|reflexivity].
    apply U8_2; [|constructor]. unrng. divmod. }
  destruct (N.ltb_spec n 65536) as [H3|H3].
  { rewrite !cont_byte, !N.shiftr_div_pow2. change (2 ^ 6) with 64. change (2 ^ 12) with 4096.
    rewrite (lead_byte (n / 4096) 4 224); [|change (2 ^ 4) with 16; divmod|reflexivity].
    apply U8_3; [|constructor]. unrng. divmod. }
  rewrite !cont_byte, !N.shiftr_div_pow2. change (2 ^ 6) with 64. change (2 ^ 12) with 4096. change (2 ^ 18) with 262144.
  rewrite (lead_byte (n / 262144) 3 240); [|change (2 ^ 3) with 8; divmod|reflexivity].
  apply U8_4; [|constructor]. unrng. divmod.
Qed.

Print Assumptions utf8_valid_bytes.
Print Assumptions utf8_valid_app.
Print Assumptions utf8_valid_cut.
Print Assumptions utf8_encode_valid.
