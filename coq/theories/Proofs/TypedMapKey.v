(* Proofs/TypedMapKey.v — C06 through a whole map: the document {"<literal>":null} read into a map with an
   8..64-bit integer key type and unit values (the shape the correspondence check C06 uses for the key route).

   C06_map_key : Ok with the single entry (value of the literal, unit) exactly when the literal's value is in the key
   type's range (and the literal is not -0); otherwise an error invalid_value / invalid_type / number out of range.   *)
From SJ Require Import Base.Bytes Base.FloatB Gen.Tables Model.Read Model.Str Model.Num Model.Value Model.De Model.Ignore
  Model.Ty Model.DeTyped Spec.Syntax Proofs.NumInt Proofs.TypedInt Proofs.TypedDepth.
From Coq Require Import Lia ZifyBool ZifyNat ZifyN.
Open Scope N_scope.

Definition null_close : list N := [58; 110; 117; 108; 108; 125].     (*  :null}  *)

Lemma leave_budget (E : env) (l : list N) (o : nat) (p : bool) (k : nat) :
  limit_disabled (cf E) = false -> (S k < 255)%nat ->
  leave E (mkSt l o p (N.of_nat (S k))) = Ok (mkSt l o p (N.of_nat (S (S k)))).
Proof.
  intros HL Hk. unfold leave. rewrite HL. cbn [Read.depth Read.rest Read.off Read.pk].
  assert (H : (255 <=? N.of_nat (S k)) = false) by lia. rewrite H.
  replace (N.of_nat (S k) + 1) with (N.of_nat (S (S k))) by lia. reflexivity.
Qed.

(* after the key: `:null}` closes the entry and the map *)
Lemma unit_entry_tail (E : env) (f : nat) (k : kty) (rest : list N) (o : nat) (dk : nat) :
  limit_disabled (cf E) = false -> (S dk < 255)%nat ->
  let s := mkSt (null_close ++ rest) o false (N.of_nat (S dk)) in
  (let^ s3 := parse_object_colon E s in
   let+ (vd, s4) := de_typed (S f) E TUnit s3 in
   let+ (es, s5) := de_entries (S f) E k TUnit false s4 in
   TOk ((vd, es), s5)) = TOk ((DUnit, []), mkSt (125 :: rest) (o + 5) false (N.of_nat (S dk))).
Proof.
  intros HL Hk. cbv zeta. unfold null_close. cbn [app].
  rewrite colon_step. cbn [lift tbind de_typed]. unfold deserialize_unit.
  rewrite (parse_whitespace_hd E 110 _ (S o) false _ eq_refl). cbn [lift tbind].
  change (110 =? 110) with true. cbv iota.
  change (discard (mkSt (110 :: 117 :: 108 :: 108 :: 125 :: rest) (S o) true (N.of_nat (S dk))))
    with (mkSt (117 :: 108 :: 108 :: 125 :: rest) (S (S o)) false (N.of_nat (S dk))).
  unfold lit_ull. cbn [parse_ident]. rewrite next_cons. cbn [bind]. change (117 =? 117) with true. cbv iota.
  rewrite next_cons. cbn [bind]. change (108 =? 108) with true. cbv iota.
  rewrite next_cons. cbn [bind]. change (108 =? 108) with true. cbv iota.
  cbn [lift tbind fix_position de_entries]. unfold has_next_key.
  rewrite (parse_whitespace_hd E 125 rest _ false _ eq_refl). cbn [bind]. change (125 =? 125) with true. cbv iota.
  cbn [lift tbind]. repeat f_equal. lia.
Qed.

Lemma de_entries_S (f : nat) (E : env) (k : kty) (v : ty) (first : bool) (s : st) :
  de_entries (S f) E k v first s =
    (let^ o := has_next_key E first s in
     match o with
     | None => TOk ([], s)
     | Some s1 =>
       let+ (kd, s2) := de_key f E k s1 in
       let^ s3 := parse_object_colon E s2 in
       let+ (vd, s4) := de_typed f E v s3 in
       let+ (es, s5) := de_entries f E k v false s4 in
       TOk ((kd, vd) :: es, s5)
     end).
Proof. reflexivity. Qed.

Theorem C06_map_key : forall fuel E t neg ds rest off pk dk,
  tm E = TEof -> limit_disabled (cf E) = false -> (S dk < 255)%nat ->
  is_128 t = false -> int_ok ds = true ->
  let lit := int_lit neg ds in
  let v := int_lit_val neg ds in
  let r := de_typed (S (S (S fuel))) E (TMap (KInt t) TUnit)
             (mkSt (123 :: 34 :: lit ++ 34 :: null_close ++ rest) off pk (N.of_nat (S (S dk)))) in
  if in_range t v && negb (is_neg_zero neg ds)
  then r = TOk (DMap [(DInt v, DUnit)], mkSt rest (off + length lit + 9) false (N.of_nat (S (S dk))))
  else c06_err r.
Proof.
  intros fuel E t neg ds rest o p dk HE HL Hdk H128 Hok. cbv zeta.
  cbn [de_typed]. unfold deserialize_map.
  rewrite (parse_whitespace_hd E 123 _ o p _ eq_refl). cbn [lift tbind].
  change (123 =? 123) with true. cbv iota. unfold frame.
  rewrite (enter_budget E _ o true (S dk) HL ltac:(lia)). cbn [lift tbind].
  change (discard (mkSt (123 :: 34 :: int_lit neg ds ++ 34 :: null_close ++ rest) o true (N.of_nat (S dk))))
    with (mkSt (34 :: int_lit neg ds ++ 34 :: null_close ++ rest) (S o) false (N.of_nat (S dk))).
  rewrite de_entries_S. unfold has_next_key.
  rewrite (parse_whitespace_hd E 34 _ (S o) false _ eq_refl). cbn [bind lift tbind].
  change (34 =? 125) with false. change (34 =? 34) with true. cbv iota. cbn [lift tbind].
  pose proof (C06_key_64 fuel E t neg ds (null_close ++ rest) (S o) true (N.of_nat (S dk)) HE H128 Hok) as HK.
  cbv zeta in HK.
  destruct (in_range t (int_lit_val neg ds) && negb (is_neg_zero neg ds)).
  - rewrite HK. cbn [tbind]. unfold st_key_end.
    pose proof (unit_entry_tail E fuel (KInt t) rest (S o + length (int_lit neg ds) + 2) dk HL Hdk) as HT.
    cbv zeta in HT.
    (* reassociate the continuation into the shape of unit_entry_tail *)
    destruct (parse_object_colon E (mkSt (null_close ++ rest) (S o + length (int_lit neg ds) + 2) false (N.of_nat (S dk))))
      as [s3|c i| |] eqn:Hcol; cbn [lift tbind] in HT |- *; try discriminate HT.
    destruct (de_typed (S fuel) E TUnit s3) as [[vd s4]|c i|k0 s0| |] eqn:Hv; cbn [tbind] in HT |- *; try discriminate HT.
    destruct (de_entries (S fuel) E (KInt t) TUnit false s4) as [[es s5]|c i|k0 s0| |] eqn:Hes; cbn [tbind] in HT |- *;
      try discriminate HT.
    injection HT as Hvd Hes' Hs5. subst vd es s5.
    rewrite (leave_budget E _ _ false dk HL Hdk). cbn [lift tbind].
    unfold end_map. rewrite (parse_whitespace_hd E 125 rest _ false _ eq_refl). cbn [bind].
    change (125 =? 125) with true. cbv iota. cbn [lift tbind fix_position tmap].
    unfold discard. cbn [tl Read.rest Read.off Read.depth]. repeat f_equal. lia.
  - destruct HK as (c & i & Hr & Hc). rewrite Hr. cbn [tbind fix_position tmap].
    exists c, i. split; [reflexivity|exact Hc].
Qed.

(* the statement says what it should: {"255":null} and {"256":null} into a map with u8 keys *)
Example ex_map_u8_255 :
  from_input_typed E_sl (TMap (KInt U8) TUnit) [123;34;50;53;53;34;58;110;117;108;108;125] = TOk (DMap [(DInt 255, DUnit)]).
Proof. vm_compute. reflexivity. Qed.
Example ex_map_u8_256 :
  from_input_typed E_sl (TMap (KInt U8) TUnit) [123;34;50;53;54;34;58;110;117;108;108;125] = TErr (Message MInvalidValue) 5.
Proof. vm_compute. reflexivity. Qed.

Print Assumptions C06_map_key.
