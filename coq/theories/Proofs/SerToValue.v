(* Proofs/SerToValue.v — C15: to_value agrees with the text serialiser.
   For a well-formed call tree t (outside the two documented exceptions): to_value(t) succeeds exactly when to_string(t)
   succeeds, both fail only with KeyMustBeAString / FloatKeyMustBeFinite, and the Value returned by to_value is the
   Value the printed text denotes ([image], which by C03 is [denote] of the output, i.e. what the parser returns for it). *)
From SJ Require Import Base.Bytes Base.Utf8 Base.FloatB Gen.Tables Model.Read Model.Num Model.Value Model.De Model.Sval Model.Ser Model.ValueSer
  Spec.Syntax Spec.Denote Spec.Layout Proofs.SerUtf8 Proofs.SerBase Proofs.SerRender Proofs.SerWf Proofs.SerDenote.
From Flocq Require Import Core BinarySingleNaN.
From Coq Require Import Lia ZifyBool ZifyN ZifyNat.
Open Scope N_scope.

(* the two exceptions, as a side condition on the tree (map keys are never affected: both serialisers print them as text):
   f32 values are widened inside a Value; 128-bit integers outside [i64::MIN, u64::MAX] do not fit a Value —
   both only without arbitrary_precision.  The private Number protocol (SNumLit) is not part of the data model. *)
Definition in_value_range (z : Z) : bool := (- Z.of_N i64_min_abs <=? z)%Z && (z <=? Z.of_N u64_max)%Z.

Fixpoint c15_side (ap : bool) (v : sval) : bool :=
  match v with
  | SInt _ z => ap || in_value_range z
  | SF32 b => ap || negb (finite32 b)
  | SNumLit _ => false
  | SSome v | SNewtypeStruct v | SNewtypeVariant _ v => c15_side ap v
  | SSeq _ es | STuple es | STupleStruct es | STupleVariant _ es => forallb (c15_side ap) es
  | SMap _ kvs => forallb (fun kv => c15_side ap (snd kv)) kvs
  | SStruct fs | SStructVariant _ fs => forallb (fun kv => c15_side ap (snd kv)) fs
  | _ => true
  end.

Lemma number_text_ok_int ty z : int_in_range ty z = true -> number_text_ok (itoa_text z) = true.
Proof.
  intros H. unfold number_text_ok. rewrite numlit_of_itoa_text. unfold num_ok. cbn [nint nfrac nexp].
  rewrite (itoa_int_ok _ (int_range_abs ty z H)). reflexivity.
Qed.

Lemma sequence_all_some_b {A B} (f : A -> option B) (g : A -> B) (l : list A) :
  Forall (fun a => f a = Some (g a)) l -> sequence (map f l) = Some (map g l).
Proof. induction 1 as [|a l Ha _ IH]; [reflexivity|]. cbn [map sequence]. rewrite Ha, IH. reflexivity. Qed.

Section C15.
  Variable cf : cfg.
  Variable fmt32 fmt64 : N -> bytes.
  Notation cst_of := (cst_of cf fmt32 fmt64).
  Notation image := (image cf fmt32 fmt64).
  Notation to_value := (to_value cf fmt32 fmt64).
  Notation key_pieces := (key_pieces fmt32 fmt64).
  Notation key_text := (key_text fmt32 fmt64).
  Notation key_string := (key_string fmt32 fmt64).
  Notation apf := (arbitrary_precision cf).

  (* H1 *)
  Hypothesis H32 : forall b, f32_finite_bits b = true -> number_text_ok (fmt32 b) = true.
  Hypothesis H64 : forall b, f64_finite_bits b = true -> number_text_ok (fmt64 b) = true.
  (* H4: without arbitrary_precision, ryu's text of a finite f64 reads back as that float
     (float_roundtrip, or short literals: see C07/C08) *)
  Hypothesis H4 : apf = false -> forall b, f64_finite_bits b = true ->
    num_image cf (fmt64 b) = Some (VNum (NFloat (f64_of_bits b))).
  (* with arbitrary_precision the parser keeps every number literal verbatim (C20) *)
  Hypothesis Hlit : apf = true -> forall s, number_text_ok s = true -> num_image cf s = Some (VNum (NLit s)).

  Lemma int_image ty z : int_in_range ty z = true -> (apf = false -> in_value_range z = true) ->
    num_image cf (itoa_text z) = Some (VNum (number_of_int cf z)).
  Proof.
    intros Hr Hs. unfold number_of_int, ap. destruct apf eqn:Ea.
    - apply (Hlit eq_refl), (number_text_ok_int ty z Hr).
    - specialize (Hs eq_refl). unfold in_value_range in Hs. rewrite (num_image_int cf Ea); [reflexivity|lia].
  Qed.

  Lemma small_in_range ty z : int_in_range ty z = true -> ty <> I128 -> ty <> U128 -> in_value_range z = true.
  Proof.
    unfold int_in_range, in_value_range, i64_min_abs, u64_max. intros H H1 H2.
    destruct ty; cbn [int_lo int_hi] in H; try contradiction; lia.
  Qed.

  Lemma tv_int_ok ty z : int_in_range ty z = true -> (apf = false -> in_value_range z = true) ->
    tv_int cf ty z = Ok (VNum (number_of_int cf z)).
  Proof.
    intros Hr Hs. unfold tv_int, ap. destruct apf eqn:Ea; [destruct ty; reflexivity|].
    specialize (Hs eq_refl). unfold in_value_range in Hs. unfold i64_min_abs, u64_max in *. cbn [Z.of_N Z.opp] in *.
    destruct ty; try reflexivity.
    - destruct ((0 <=? z)%Z && (z <=? 18446744073709551615)%Z) eqn:E1; [reflexivity|].
      assert (E2 : (- 9223372036854775808 <=? z)%Z && (z <? 9223372036854775808)%Z = true) by lia.
      rewrite E2. reflexivity.
    - unfold int_in_range in Hr. cbn [int_lo int_hi] in Hr.
      assert (E1 : (0 <=? z)%Z && (z <=? 18446744073709551615)%Z = true) by lia. rewrite E1. reflexivity.
  Qed.

  Definition T (v : sval) : Prop := wfs v = true -> c15_side apf v = true ->
    match cst_of v with
    | Some _ => exists j, to_value v = Ok j /\ image v = Some j
    | None => exists e, to_value v = Err e O /\ keyerr e
    end.

  Lemma key_string_spec : forall k,
    match key_pieces k with
    | Some _ => exists t, key_string k = Ok t /\ key_text k = Some t
    | None => exists e, key_string k = Err e O /\ keyerr e
    end.
  Proof.
    induction k using sval_ind'; cbn [key_pieces key_string key_text];
      try (eexists; split; [reflexivity | left; reflexivity]); try (eexists; split; reflexivity).
    - change (finite32 b) with (f32_finite_bits b). destruct (f32_finite_bits b); [eexists; split; reflexivity|].
      eexists; split; [reflexivity | right; reflexivity].
    - change (finite64 b) with (f64_finite_bits b). destruct (f64_finite_bits b); [eexists; split; reflexivity|].
      eexists; split; [reflexivity | right; reflexivity].
    - exact IHk.
    - exact IHk.
  Qed.

  Lemma T_elems es : Forall T es -> forallb wfs es = true -> forallb (c15_side apf) es = true ->
    match sequence (map cst_of es) with
    | Some _ => exists xs, tv_elems to_value es = Ok xs /\ sequence (map image es) = Some xs
    | None => exists e, tv_elems to_value es = Err e O /\ keyerr e
    end.
  Proof.
    induction 1 as [|e r He _ IH]; intros W S; cbn [map sequence tv_elems].
    - exists []. auto.
    - cbn [forallb] in W, S. apply andb_true_iff in W as [We Wr]. apply andb_true_iff in S as [Se Sr].
      specialize (He We Se). specialize (IH Wr Sr). destruct (cst_of e) as [c|].
      + destruct He as [x [Hx Hi]]. rewrite Hx, Hi. cbn [bind]. destruct (sequence (map cst_of r)) as [cs|]; cbn [option_map].
        * destruct IH as [xs [Hxs His]]. rewrite Hxs, His. cbn [bind option_map]. eauto.
        * destruct IH as [e' [He' K]]. rewrite He'. cbn [bind]. eauto.
      + destruct He as [e' [He' K]]. rewrite He'. cbn [bind]. eauto.
  Qed.

  Definition ins (m : list (bytes * value)) (kv : bytes * value) := map_insert (preserve_order cf) (fst kv) (snd kv) m.

  Lemma T_entries {K} (keyf : K -> res bytes) (kp : K -> option (list strpiece)) (kt : K -> option bytes) (l : list (K * sval)) :
    (forall k, match kp k with
               | Some _ => exists t, keyf k = Ok t /\ kt k = Some t
               | None => exists e, keyf k = Err e O /\ keyerr e
               end) ->
    Forall (fun kv => T (snd kv)) l -> forallb (fun kv => wfs (snd kv)) l = true -> forallb (fun kv => c15_side apf (snd kv)) l = true ->
    forall m,
    match sequence (map (fun kv => pair_opt (kp (fst kv)) (cst_of (snd kv))) l) with
    | Some _ => exists es, sequence (map (fun kv => pair_opt (kt (fst kv)) (image (snd kv))) l) = Some es
                           /\ tv_entries cf to_value keyf l m = Ok (fold_left ins es m)
    | None => exists e, tv_entries cf to_value keyf l m = Err e O /\ keyerr e
    end.
  Proof.
    intros Hkey. induction 1 as [|[k v] r Hv _ IH]; intros W S m; cbn [map sequence tv_entries fst snd].
    - exists []. auto.
    - cbn [forallb snd] in W, S. apply andb_true_iff in W as [Wv Wr]. apply andb_true_iff in S as [Sv Sr]. cbn [snd] in Hv.
      specialize (Hv Wv Sv). pose proof (Hkey k) as Hk. destruct (kp k) as [p|]; cbn [pair_opt].
      2:{ destruct Hk as [e [He Kerr]]. rewrite He. cbn [bind]. eauto. }
      destruct Hk as [t [Ht Hkt]]. rewrite Ht, Hkt. cbn [bind]. destruct (cst_of v) as [c|].
      + destruct Hv as [x [Hx Hi]]. rewrite Hx, Hi. cbn [bind pair_opt].
        specialize (IH Wr Sr (minsert cf t x m)).
        destruct (sequence (map (fun kv => pair_opt (kp (fst kv)) (cst_of (snd kv))) r)) as [ms|]; cbn [option_map].
        * destruct IH as [es [Hes Htv]]. rewrite Hes. cbn [option_map]. exists ((t, x) :: es). split; [reflexivity|].
          rewrite Htv. reflexivity.
        * exact IH.
      + destruct Hv as [e [He Kerr]]. rewrite He. cbn [bind]. eauto.
  Qed.

  Lemma field_key_spec : forall k : bytes,
    match Some (pieces_of k) with
    | Some _ => exists t, ok_key k = Ok t /\ Some k = Some t
    | None => exists e, ok_key k = Err e O /\ keyerr e
    end.
  Proof. intros k. exists k. auto. Qed.

  Lemma obj_fold es : VObj (fold_left ins es []) = obj_of cf es.
  Proof. reflexivity. Qed.

  Lemma side_fields (fs : list (bytes * sval)) :
    forallb (fun kv : bytes * sval => utf8_valid (fst kv) && wfs (snd kv)) fs = true -> forallb (fun kv : bytes * sval => wfs (snd kv)) fs = true.
  Proof. apply forallb_impl. intros kv H. apply andb_true_iff in H. tauto. Qed.
  Lemma side_entries (kvs : list (sval * sval)) :
    forallb (fun kv => wfs (fst kv) && wfs (snd kv)) kvs = true -> forallb (fun kv : sval * sval => wfs (snd kv)) kvs = true.
  Proof. apply forallb_impl. intros kv H. apply andb_true_iff in H. tauto. Qed.

  Lemma side_int z : apf || in_value_range z = true -> apf = false -> in_value_range z = true.
  Proof. intros H E. rewrite E in H. exact H. Qed.

  Lemma bytes_image (s : bytes) : forallb is_byte s = true ->
    sequence (map (fun b => num_image cf (itoa_text (Z.of_N b))) s) = Some (map (fun b => VNum (number_of_int cf (Z.of_N b))) s).
  Proof.
    intros H. apply sequence_all_some_b. apply forallb_Forall in H. eapply Forall_impl; [|exact H]. intros b Hb. unfold is_byte in Hb.
    apply (int_image U8).
    - unfold int_in_range. cbn [int_lo int_hi]. lia.
    - intros _. unfold in_value_range, i64_min_abs, u64_max. lia.
  Qed.

  Theorem to_value_image : forall v, T v.
  Proof.
    induction v using sval_ind'; unfold T; intros W S; cbn [cst_of to_value image]; cbn [wfs] in W; cbn [c15_side] in S.
    - eauto.
    - exists (VNum (number_of_int cf z)). split; [apply (tv_int_ok ty z W (side_int z S)) | apply (int_image ty z W (side_int z S))].
    - change (finite32 b) with (f32_finite_bits b) in *. unfold tv_f32, ap. destruct (f32_finite_bits b) eqn:Ef; [|eauto].
      destruct apf eqn:Ea; [|cbn in S; discriminate]. eexists. split; [reflexivity|]. apply (Hlit eq_refl), H32, Ef.
    - change (finite64 b) with (f64_finite_bits b). unfold tv_f64, ap. destruct (f64_finite_bits b) eqn:Ef; [|eauto].
      destruct apf eqn:Ea; (eexists; split; [reflexivity|]); [apply (Hlit eq_refl), H64, Ef | apply (H4 eq_refl), Ef].
    - eauto.
    - eauto.
    - eexists. split; [reflexivity|]. rewrite (bytes_image s W). reflexivity.
    - eauto.
    - exact (IHv W S).
    - eauto.
    - eauto.
    - eauto.
    - exact (IHv W S).
    - apply andb_true_iff in W as [_ W]. specialize (IHv W S). destruct (cst_of v) as [c|]; cbn [option_map].
      + destruct IHv as [x [Hx Hi]]. rewrite Hx, Hi. cbn [bind option_map]. eexists. split; reflexivity.
      + destruct IHv as [e [He Ke]]. rewrite He. cbn [bind]. eauto.
    - apply andb_true_iff in W as [_ W]. pose proof (T_elems es H W S) as HE.
      destruct (sequence (map cst_of es)) as [cs|]; cbn [option_map].
      + destruct HE as [xs [Hx Hi]]. rewrite Hx, Hi. cbn [bind option_map]. eauto.
      + destruct HE as [e [He Ke]]. rewrite He. cbn [bind]. eauto.
    - pose proof (T_elems es H W S) as HE.
      destruct (sequence (map cst_of es)) as [cs|]; cbn [option_map].
      + destruct HE as [xs [Hx Hi]]. rewrite Hx, Hi. cbn [bind option_map]. eauto.
      + destruct HE as [e [He Ke]]. rewrite He. cbn [bind]. eauto.
    - pose proof (T_elems es H W S) as HE.
      destruct (sequence (map cst_of es)) as [cs|]; cbn [option_map].
      + destruct HE as [xs [Hx Hi]]. rewrite Hx, Hi. cbn [bind option_map]. eauto.
      + destruct HE as [e [He Ke]]. rewrite He. cbn [bind]. eauto.
    - apply andb_true_iff in W as [_ W]. pose proof (T_elems es H W S) as HE.
      destruct (sequence (map cst_of es)) as [cs|]; cbn [option_map].
      + destruct HE as [xs [Hx Hi]]. rewrite Hx, Hi. cbn [bind option_map]. eexists. split; reflexivity.
      + destruct HE as [e [He Ke]]. rewrite He. cbn [bind]. eauto.
    - apply andb_true_iff in W as [_ W].
      pose proof (T_entries key_string key_pieces key_text kvs key_string_spec
                    (Forall_impl _ (fun kv HP => proj2 HP) H) (side_entries _ W) S []) as HE.
      destruct (sequence (map (fun kv => pair_opt (key_pieces (fst kv)) (cst_of (snd kv))) kvs)) as [ms|]; cbn [option_map].
      + destruct HE as [es [Hes Htv]]. rewrite Hes, Htv. cbn [bind option_map]. eexists. split; reflexivity.
      + destruct HE as [e [He Ke]]. rewrite He. cbn [bind]. eauto.
    - pose proof (T_entries ok_key (fun k => Some (pieces_of k)) (fun k => Some k) fs field_key_spec H (side_fields _ W) S []) as HE.
      destruct (sequence (map (fun kv => pair_opt (Some (pieces_of (fst kv))) (cst_of (snd kv))) fs)) as [ms|]; cbn [option_map].
      + destruct HE as [es [Hes Htv]]. rewrite Hes, Htv. cbn [bind option_map]. eexists. split; reflexivity.
      + destruct HE as [e [He Ke]]. rewrite He. cbn [bind]. eauto.
    - apply andb_true_iff in W as [_ W].
      pose proof (T_entries ok_key (fun k => Some (pieces_of k)) (fun k => Some k) fs field_key_spec H (side_fields _ W) S []) as HE.
      destruct (sequence (map (fun kv => pair_opt (Some (pieces_of (fst kv))) (cst_of (snd kv))) fs)) as [ms|]; cbn [option_map].
      + destruct HE as [es [Hes Htv]]. rewrite Hes, Htv. cbn [bind option_map]. eexists. split; reflexivity.
      + destruct HE as [e [He Ke]]. rewrite He. cbn [bind]. eauto.
    - eauto.
    - discriminate S.
  Qed.

  (* ---- C15 ---- *)
  Theorem C15_same_success v : wfs v = true -> c15_side apf v = true ->
    ((exists j, to_value v = Ok j) <-> (exists bufs, serialize cf fmt32 fmt64 Compact v = Ok bufs)).
  Proof.
    intros W S. pose proof (to_value_image v W S) as HT. split.
    - intros [j Hj]. destruct (cst_of v) as [c|] eqn:Ec.
      + destruct (serialize_ok cf fmt32 fmt64 Compact v c W Ec) as [b [E _]]. eauto.
      + destruct HT as [e [He _]]. rewrite Hj in He. discriminate.
    - intros [bufs Hb]. destruct (serialize_ok_inv cf fmt32 fmt64 Compact v bufs W Hb) as [c [Ec _]]. rewrite Ec in HT.
      destruct HT as [j [Hj _]]. eauto.
  Qed.

  (* both reject for the same reason class, at (line 0, column 0) *)
  Theorem C15_same_rejection v : wfs v = true -> c15_side apf v = true ->
    (exists e, to_value v = Err e O /\ keyerr e) <-> (exists e, serialize cf fmt32 fmt64 Compact v = Err e O /\ keyerr e).
  Proof.
    intros W S. pose proof (to_value_image v W S) as HT. split.
    - intros [e [He _]]. destruct (cst_of v) as [c|] eqn:Ec.
      + destruct HT as [j [Hj _]]. rewrite Hj in He. discriminate.
      + apply (serialize_err cf fmt32 fmt64 Compact v W Ec).
    - intros [e [He _]]. destruct (serialize_err_inv cf fmt32 fmt64 Compact v e O W He) as [Ec _]. rewrite Ec in HT. exact HT.
  Qed.

  (* the Value is the one the printed text denotes *)
  Theorem C15_same_value v j bufs : wfs v = true -> c15_side apf v = true ->
    to_value v = Ok j -> serialize cf fmt32 fmt64 Compact v = Ok bufs ->
    exists c, concat bufs = render c /\ wfb c = true /\ denote cf c = Some j.
  Proof.
    intros W S Hj Hb. destruct (serialize_ok_inv cf fmt32 fmt64 Compact v bufs W Hb) as [c [Ec C]].
    exists c. split; [exact C|]. split; [apply (C03_wf_nows cf fmt32 fmt64 H32 H64 v c W Ec)|].
    rewrite (C03_denotes_image cf fmt32 fmt64 H32 H64 v c W Ec).
    pose proof (to_value_image v W S) as HT. rewrite Ec in HT. destruct HT as [j' [Hj' Hi]]. rewrite Hj in Hj'. inversion Hj'. exact Hi.
  Qed.

  (* ... hence equal to what from_str(to_string(t)) returns (parser completeness cited as a hypothesis) *)
  Hypothesis Hcomplete : forall bs v, Denotes cf bs v -> from_input (mkEnv RSlice TEof cf) bs = Ok v.

  Theorem C15_parse_back v j bufs : wfs v = true -> c15_side apf v = true ->
    to_value v = Ok j -> serialize cf fmt32 fmt64 Compact v = Ok bufs ->
    (forall c, concat bufs = render c -> limit_disabled cf = false -> (cdepth c <= 127)%nat) ->
    from_input (mkEnv RSlice TEof cf) (concat bufs) = Ok j.
  Proof.
    intros W S Hj Hb Hd. destruct (C15_same_value v j bufs W S Hj Hb) as [c [C [G D]]].
    apply Hcomplete. exists [], c, []. rewrite app_nil_r. cbn [app]. repeat split; auto.
  Qed.
End C15.

(* the exceptions are real: a finite f32 and an out-of-range i128 (model evaluation, no float texts needed beyond one literal) *)
Example C15_exception_f32 :
  to_value (mkCfg false true false false) (fun _ => [48; 46; 49]) (fun _ => []) (SF32 1036831949)
  = Ok (VNum (NFloat (b64_of_b32 (f32_of_bits 1036831949)))).
Proof. reflexivity. Qed.
Example C15_exception_i128 :
  to_value (mkCfg false true false false) (fun _ => []) (fun _ => []) (SInt I128 18446744073709551616) = Err NumberOutOfRange O
  /\ exists b, serialize (mkCfg false true false false) (fun _ => []) (fun _ => []) Compact (SInt I128 18446744073709551616) = Ok b.
Proof. split; [reflexivity | eexists; reflexivity]. Qed.

Print Assumptions C15_same_success.
Print Assumptions C15_same_value.
